package main

import (
	"bytes"
	"encoding/hex"
	"encoding/json"
	"errors"
	"fmt"
	"io"
	"os"
	"os/exec"
	"sort"
	"strconv"
	"strings"
	"sync"
	"syscall"
	"time"

	"github.com/klauspost/compress/zstd"
	"github.com/nspcc-dev/neofs-node/pkg/local_object_storage/blobstor/common"
	"github.com/nspcc-dev/neofs-node/pkg/local_object_storage/blobstor/fstree"
	"github.com/nspcc-dev/neofs-node/pkg/util/verifhook"
	apistatus "github.com/nspcc-dev/neofs-sdk-go/client/status"
	"github.com/nspcc-dev/neofs-sdk-go/object"
	oid "github.com/nspcc-dev/neofs-sdk-go/object/id"
)

// Engine `fstree`: history driver of the real FSTree (O_TMPFILE writer and portable writer) against
// Model/FSTree.lean.  C10: operation histories with a full dump after every op.  C13: the same ops with
// failures injected at chosen system calls of the writers (verifhook.Fault).  C12: the op runs in a child
// process that exits at a chosen system call (verifhook.Point); the parent reopens the tree.  C12 also: op kseq (a call
// sequence killed at EVERY system call with strace fault injection) and op gsched (concurrent puts on the portable writer
// scheduled one system call at a time), see eng_fstree_kill.go.

func init() {
	engines["fstree"] = seqRunner{gen: fstreeGen, exec: fstreeExec}.engine()
	engines["fstreechild"] = fstreeChild
}

const fsBufLen = 20480 // objectwire.NonPayloadFieldsBufferLength (the model's bufLen)

type fsCfg struct {
	Writer string
	Depth  int
	Thr    int
	Cnt    int
	Szl    int
}

func (c fsCfg) line() string {
	s := fmt.Sprintf("fstree cfg writer=%s depth=%d thr=%d cnt=%d szl=%d", c.Writer, c.Depth, c.Thr, c.Cnt, c.Szl)
	if os.Getenv("VH_FSTREE_UNFIXED") != "" { // reproduce the defects of the code before the repairs (model flags off)
		s += " pf=0 uf=0 tf=0"
	}
	return s
}

var fsDefaultCfg = fsCfg{Writer: "linux", Depth: 1, Thr: 300, Cnt: 4, Szl: 100000}

func fsOpen(dir string, cfg fsCfg) *fstree.FSTree {
	t := fstree.New(fstree.WithPath(dir), fstree.WithDepth(uint64(cfg.Depth)), fstree.WithNoSync(true),
		fstree.WithCombinedSizeThreshold(cfg.Thr), fstree.WithCombinedCountLimit(cfg.Cnt), fstree.WithCombinedSizeLimit(cfg.Szl),
		fstree.WithCombinedWriteInterval(300*time.Microsecond))
	if err := t.Open(false); err != nil {
		panic(err)
	}
	if err := t.Init(common.ID{}); err != nil {
		panic(err)
	}
	if cfg.Writer == "generic" {
		t.VerifUseGenericWriter()
	}
	return t
}

func fsAddr(a int) oid.Address { return numAddr(1+a%2, a) }

func fsHash(b []byte) uint64 {
	h := uint64(7)
	for _, x := range b {
		h = (h*131 + uint64(x) + 1) % 1000000007
	}
	return h
}

// fsObject builds the marshalled object of address a whose total length is as close to `total` as the
// encoding allows; returns the bytes before the payload and the payload size.
func fsObject(a, total, seed int) (pre []byte, psize int) {
	p := total - 200
	if p < 0 {
		p = 0
	}
	var data []byte
	for i := 0; i < 40; i++ {
		data = mkObject(1+a%2, a, detPayload(p, seed)).Marshal()
		if len(data) == total || (len(data) > total && p == 0) {
			break
		}
		if len(data) < total {
			p += total - len(data)
		} else {
			p -= len(data) - total
			if p < 0 {
				p = 0
			}
		}
		data = nil
	}
	if data == nil {
		data = mkObject(1+a%2, a, detPayload(p, seed)).Marshal()
	}
	if !bytes.HasSuffix(data, detPayload(p, seed)) {
		panic("payload is not the suffix of the marshalled object")
	}
	return data[:len(data)-p], p
}

var fsEnc, _ = zstd.NewWriter(nil)

type fsItem struct {
	a     int
	plain []byte
	data  []byte // stored form
}

func fsItemStr(sfx string, a int, pre []byte, psize, seed int, compressed bool) string {
	s := fmt.Sprintf("a%s=%d pre%s=%s psize%s=%d seed%s=%d", sfx, a, sfx, hex.EncodeToString(pre), sfx, psize, sfx, seed)
	if compressed {
		plain := append(append([]byte{}, pre...), detPayload(psize, seed)...)
		s += fmt.Sprintf(" z%s=%s", sfx, hex.EncodeToString(fsEnc.EncodeAll(plain, nil)))
	}
	return s
}

func fsParseItem(o opLine, sfx string) fsItem {
	pre, err := hex.DecodeString(o.kv["pre"+sfx])
	if err != nil {
		panic(err)
	}
	it := fsItem{a: o.int("a" + sfx)}
	it.plain = append(pre, detPayload(o.int("psize"+sfx), o.int("seed"+sfx))...)
	it.data = it.plain
	if z, ok := o.kv["z"+sfx]; ok {
		it.data, err = hex.DecodeString(z)
		if err != nil {
			panic(err)
		}
	}
	return it
}

func fsParseItems(o opLine) []fsItem {
	var r []fsItem
	for i := 0; i < o.int("n"); i++ {
		r = append(r, fsParseItem(o, strconv.Itoa(i)))
	}
	return r
}

// fsHooks counts the system calls of the writers and injects failures / the crash.
type fsHooks struct {
	mu      sync.Mutex
	nFault  int
	nPoint  int
	faults  map[int]bool
	slow    map[int]bool // file system calls (by index) that take longer than the combined writer's sync timer
	crashAt int          // exit the process at this Point call (1-based); 0 = never
}

var errFsInjected = &os.PathError{Op: "injected", Path: "-", Err: syscall.EIO}

func (h *fsHooks) install() {
	verifhook.SetFault(func(name string) error {
		if !strings.HasPrefix(name, "fstree.") {
			return nil
		}
		h.mu.Lock()
		i := h.nFault
		h.nFault++
		slow, fail := h.slow[i], h.faults[i]
		h.mu.Unlock()
		if slow { // the background sync timer fires while this writer is inside its call
			time.Sleep(fsSlowCall)
		}
		if fail {
			return errFsInjected
		}
		return nil
	})
	verifhook.SetPoint(func(name string) {
		if !strings.HasPrefix(name, "fstree.after.") {
			return
		}
		h.mu.Lock()
		defer h.mu.Unlock()
		h.nPoint++
		if h.crashAt > 0 && h.nPoint == h.crashAt {
			os.Exit(9)
		}
	})
}

func fsUninstall() {
	verifhook.SetFault(nil)
	verifhook.SetPoint(nil)
}

// fsHangLimit: a call that has not returned after this long is reported as hanging (the machine may be heavily loaded:
// 4 s was observed to expire on a plain Delete under a load average of 60 on 16 cores).
const fsHangLimit = 20 * time.Second

// fsSlowCall: how long a "slow" file system call takes (the engine's trees sync combined batches every millisecond).
const fsSlowCall = 15 * time.Millisecond

// fsGuard runs f under recover and with a time limit: "panic" / "blocked" are observations, not crashes of the run.
func fsGuard(f func() string) string {
	ch := make(chan string, 1)
	go func() {
		defer func() {
			if r := recover(); r != nil {
				ch <- "panic"
			}
		}()
		ch <- f()
	}()
	select {
	case r := <-ch:
		return r
	case <-time.After(fsHangLimit):
		return "blocked"
	}
}

func fsErrName(err error) string {
	switch {
	case err == nil:
		return "ok"
	case errors.Is(err, apistatus.ErrObjectNotFound):
		return "notFound"
	case errors.Is(err, io.ErrUnexpectedEOF):
		return "eof"
	default:
		return "err"
	}
}

// fsRunWrite executes one writing op (put / batch / pput / del) on t; returns the result string.
func fsRunWrite(t *fstree.FSTree, o opLine) string {
	switch o.name {
	case "put":
		it := fsParseItem(o, "")
		return fsGuard(func() string { return fsErrName(t.Put(fsAddr(it.a), it.data)) })
	case "batch":
		m := map[oid.Address][]byte{}
		its := fsParseItems(o)
		_, hasF := o.kv["f"]
		_, hasC := o.kv["c"]
		if hasF || hasC { // the order of the writes matters: hand them to the writer in line order
			var addrs []oid.Address
			var data [][]byte
			for _, it := range its {
				addrs = append(addrs, fsAddr(it.a))
				data = append(data, it.data)
			}
			return fsGuard(func() string { return fsErrName(t.VerifPutBatchOrdered(addrs, data)) })
		}
		for _, it := range its {
			m[fsAddr(it.a)] = it.data
		}
		return fsGuard(func() string { return fsErrName(t.PutBatch(m)) })
	case "pput":
		its := fsParseItems(o)
		res := make([]string, len(its))
		return fsGuard(func() string {
			var wg sync.WaitGroup
			for i := range its {
				wg.Add(1)
				go func() {
					defer wg.Done()
					defer func() {
						if r := recover(); r != nil {
							res[i] = "panic"
						}
					}()
					res[i] = fsErrName(t.Put(fsAddr(its[i].a), its[i].data))
				}()
			}
			wg.Wait()
			return strings.Join(res, ",")
		})
	case "del":
		return fsGuard(func() string { return fsErrName(t.Delete(fsAddr(o.int("a")))) })
	}
	panic("not a writing op: " + o.name)
}

type fsChildReq struct {
	Dir     string
	Cfg     fsCfg
	Op      string
	CrashAt int
}

// fstreeChild is the child process of a crash op: it opens the tree, runs one op and exits at the chosen call.
func fstreeChild(c *runCtx) error {
	var req fsChildReq
	if err := json.Unmarshal([]byte(os.Getenv("VH_FSTREE_CHILD")), &req); err != nil {
		return err
	}
	t := fsOpen(req.Dir, req.Cfg)
	if o := parseOp(req.Op); o.name == "gsched" {
		fsGschedChild(t, o, req.CrashAt) // exits
	}
	h := &fsHooks{crashAt: req.CrashAt}
	h.install()
	res := fsRunWrite(t, parseOp(req.Op))
	fsUninstall()
	_ = t.Close()
	fmt.Printf("RESULT %s %d\n", res, h.nFault)
	return nil
}

func fsDump(c *runCtx, t *fstree.FSTree) (string, map[int][]byte) {
	got := map[int][]byte{}
	var ents []string
	seen := map[int]int{}
	err := t.Iterate(func(a oid.Address, d []byte) error {
		n := oidNum(a.Object())
		seen[n]++
		got[n] = append([]byte{}, d...)
		ents = append(ents, fmt.Sprintf("%09d|%d:%d:%d", n, n, len(d), fsHash(d)))
		return nil
	}, func(a oid.Address, err error) error {
		n := oidNum(a.Object())
		seen[n]++
		ents = append(ents, fmt.Sprintf("%09d|%d:err", n, n))
		return nil
	})
	if err != nil {
		return "iterate-error", got
	}
	for n, k := range seen {
		fsOracle(c, "iterate-lists-each-address-once", "", k == 1, fmt.Sprintf("address %d listed %d times", n, k))
	}
	sort.Strings(ents)
	for i := range ents {
		ents[i] = ents[i][strings.IndexByte(ents[i], '|')+1:]
	}
	if len(ents) == 0 {
		return "-", got
	}
	return "[" + strings.Join(ents, " ") + "]", got
}

func fsLayout(t *fstree.FSTree) string {
	type ent struct {
		a    int
		size int64
		ino  uint64
	}
	var es []ent
	_ = t.IterateAddresses(func(a oid.Address) error {
		st, err := os.Stat(t.VerifTreePath(a))
		if err != nil {
			return nil
		}
		es = append(es, ent{oidNum(a.Object()), st.Size(), st.Sys().(*syscall.Stat_t).Ino})
		return nil
	}, true)
	sort.Slice(es, func(i, j int) bool { return es[i].a < es[j].a })
	gmin := map[uint64]int{}
	for _, e := range es {
		if m, ok := gmin[e.ino]; !ok || e.a < m {
			gmin[e.ino] = e.a
		}
	}
	var parts []string
	for _, e := range es {
		parts = append(parts, fmt.Sprintf("%d:%d:%d", e.a, e.size, gmin[e.ino]))
	}
	if len(parts) == 0 {
		return "-"
	}
	return "[" + strings.Join(parts, " ") + "]"
}

func fstreeExec(c *runCtx, ops []string) {
	root := scratchDir("fstree")
	defer os.RemoveAll(root)
	gen := 0
	cfg := fsDefaultCfg
	dir := fmt.Sprintf("%s/t%d", root, gen)
	t := fsOpen(dir, cfg)
	defer func() { fsGuard(func() string { t.Close(); return "" }) }()
	dead := false
	kserial := 0
	want := map[int][]byte{}    // content of the acknowledged, not deleted objects
	content := map[int][]byte{} // content ever offered for an address; nil once two different contents were offered
	vary := false
	gone := map[int]bool{} // deleted successfully and not offered again
	offer := func(it fsItem) {
		delete(gone, it.a)
		if old, ok := content[it.a]; ok && !bytes.Equal(old, it.plain) {
			vary = true
		}
		content[it.a] = it.plain
	}
	// check: the dump against what the property allows
	check := func(got map[int][]byte) {
		if vary {
			return // different contents under one address: outside the content-addressed domain; model comparison only
		}
		for a, d := range got {
			fsOracle(c, "readable-object-has-exactly-the-stored-bytes", fmt.Sprint(len(content[a]) == fsBufLen),
				bytes.Equal(d, content[a]), fmt.Sprintf("address %d reads %d bytes (hash %d), stored were %d bytes (hash %d)", a, len(d), fsHash(d), len(content[a]), fsHash(content[a])))
		}
		for a := range gone {
			_, listed := got[a]
			fsOracle(c, "deleted-object-is-gone", "", !listed, fmt.Sprintf("address %d was deleted successfully, iteration still lists it", a))
		}
		for a := range want {
			_, ok := got[a]
			fsOracle(c, "acknowledged-object-stays-readable", "", ok, fmt.Sprintf("address %d was stored successfully and not deleted, iteration does not list it", a))
		}
	}
	for _, line := range ops {
		o := parseOp(line)
		c.count(o.name)
		if o.name == "cfg" {
			fsGuard(func() string { t.Close(); return "" })
			cfg = fsCfg{Writer: o.kv["writer"], Depth: o.int("depth"), Thr: o.int("thr"), Cnt: o.int("cnt"), Szl: o.int("szl")}
			if cfg.Writer != "linux" && cfg.Writer != "generic" {
				c.emit(line, "=> bad-op")
				continue
			}
			gen++
			dir = fmt.Sprintf("%s/t%d", root, gen)
			t = fsOpen(dir, cfg)
			dead, vary = false, false
			want, content, gone = map[int][]byte{}, map[int][]byte{}, map[int]bool{}
			c.count("writer:" + cfg.Writer)
			c.emit(line, "=> ok")
			continue
		}
		if dead {
			c.emit(line, "=> dead")
			continue
		}
		var res string
		full := line
		switch o.name {
		case "put", "batch", "pput", "del":
			var its []fsItem
			switch o.name {
			case "put":
				its = []fsItem{fsParseItem(o, "")}
			case "batch", "pput":
				its = fsParseItems(o)
			}
			for _, it := range its {
				offer(it)
			}
			_, isCrash := o.kv["c"]
			n := -1
			if isCrash {
				c.count("crash-op")
				crashAt := o.int("c")
				if crashAt == 0 {
					res = "crashed"
				} else {
					fsGuard(func() string { t.Close(); return "" })
					req, _ := json.Marshal(fsChildReq{Dir: dir, Cfg: cfg, Op: line, CrashAt: crashAt})
					cmd := exec.Command(os.Args[0], "fstreechild")
					cmd.Env = append(os.Environ(), "VH_FSTREE_CHILD="+string(req))
					out, err := cmd.Output()
					var ee *exec.ExitError
					switch {
					case err == nil:
						var r string
						if _, serr := fmt.Sscanf(strings.TrimSpace(string(out[bytes.LastIndex(out, []byte("RESULT")):])), "RESULT %s %d", &r, &n); serr != nil {
							panic(fmt.Sprintf("child output %q: %v", out, serr))
						}
						res = r
					case errors.As(err, &ee) && ee.ExitCode() == 9:
						res = "crashed"
						c.count("crashed")
					default:
						panic(fmt.Sprintf("child: %v: %s", err, out))
					}
					t = fsOpen(dir, cfg) // recovery: reopen
					if res == "crashed" {
						_ = t.CleanUpTmp()
					}
				}
			} else {
				h := &fsHooks{faults: map[int]bool{}, slow: map[int]bool{}}
				for _, i := range o.ints("f") {
					h.faults[i] = true
					c.count("fault-op")
				}
				if _, ok := o.kv["slow"]; ok {
					for _, i := range o.ints("slow") {
						h.slow[i] = true
						c.count("slow-call-op")
					}
				}
				h.install()
				res = fsRunWrite(t, o)
				fsUninstall()
				n = h.nFault
			}
			c.count("res:" + res)
			if o.name == "del" {
				if res == "ok" || res == "crashed" { // a delete cut short may or may not have removed the name
					delete(want, o.int("a"))
				}
				if res == "ok" {
					gone[o.int("a")] = true
				}
			} else {
				rs := strings.Split(res, ",")
				for i, it := range its {
					r := rs[0]
					if o.name == "pput" && len(rs) == len(its) {
						r = rs[i]
					}
					if r == "ok" && len(it.data) > 0 {
						want[it.a] = it.plain
					}
				}
			}
			fsOracle(c, "write-never-panics", "", !strings.Contains(res, "panic"), "the write panicked: "+res)
			fsOracle(c, "write-never-hangs", "", !strings.Contains(res, "blocked"), "the write did not return within the time limit: "+res)
			if strings.Contains(res, "panic") {
				res, dead = "panic", true
			} else if strings.Contains(res, "blocked") {
				res, dead = "blocked", true
			}
			if n >= 0 && o.name != "pput" && res != "crashed" && !dead {
				res += fmt.Sprintf(" n=%d", n)
			}
		case "kseq":
			// a fresh tree of its own, a child process killed at every system call in turn (eng_fstree_kill.go);
			// the op depends on nothing but the configuration: a failing assertion is recorded with these two lines
			if !fsStraceWorks() {
				// no process tracing in this environment: the op is left out on both sides and counted, the hook-point
				// crash ops of this engine still run
				c.count("kseq:skipped-no-strace")
				continue
			}
			saved := c.curSeq
			c.curSeq = []string{cfg.line(), line}
			obs := fsKseq(c, root, &kserial, cfg, o, line)
			c.curSeq = saved
			c.nontrivial(line)
			if obs == "=> bad-op" {
				c.emit(line, obs)
				continue
			}
			res = strings.TrimPrefix(obs, "=> ")
		case "gsched":
			its := fsParseItems(o)
			sched := o.ints("sched")
			bad := cfg.Writer != "generic" || len(its) == 0
			for _, it := range its {
				bad = bad || len(it.data) == 0
			}
			if _, ok := o.kv["sched"]; !ok || bad {
				c.emit(line, "=> bad-op")
				continue
			}
			for _, it := range its {
				offer(it)
			}
			c.count("gsched")
			if _, isCrash := o.kv["c"]; isCrash {
				c.count("crash-op")
				if crashAt := o.int("c"); crashAt > 0 {
					fsGuard(func() string { t.Close(); return "" })
					req, _ := json.Marshal(fsChildReq{Dir: dir, Cfg: cfg, Op: line, CrashAt: crashAt})
					cmd := exec.Command(os.Args[0], "fstreechild")
					cmd.Env = append(os.Environ(), "VH_FSTREE_CHILD="+string(req))
					out, err := cmd.Output()
					var ee *exec.ExitError
					if !errors.As(err, &ee) || ee.ExitCode() != 9 {
						panic(fmt.Sprintf("gsched child: %v: %s", err, out))
					}
					for _, ln := range strings.Split(string(out), "\n") {
						var i int
						var r string
						if n, _ := fmt.Sscanf(ln, "ACK %d %s", &i, &r); n == 2 && r == "ok" && i < len(its) {
							want[its[i].a] = its[i].plain
						}
					}
					c.count("crashed")
					t = fsOpen(dir, cfg)
					_ = t.CleanUpTmp()
				}
				res = "crashed"
				break
			}
			c.curSeq = append(c.curSeq, line) // the op under execution belongs to the witness of a failing assertion
			g := fsNewGsched(t, its)
			var snaps []string
			blocked := false
			for si, n := range sched {
				if !g.step(n) {
					blocked = true
					break
				}
				for i, it := range its {
					if g.fin[i] && g.res[i] == "ok" {
						want[it.a] = it.plain
					}
				}
				// all callers are parked: the copy is what a process kill at this point leaves
				snapDir := fmt.Sprintf("%s/snap%d-%d", root, gen, si)
				fsCopyTree(dir, snapDir)
				ts := fsOpen(snapDir, cfg)
				_ = ts.CleanUpTmp()
				d, got := fsDump(c, ts)
				check(got)
				_ = ts.Close()
				os.RemoveAll(snapDir)
				if len(snaps) == 0 || snaps[len(snaps)-1] != d {
					snaps = append(snaps, d)
				}
				c.count("gsched-stop-point")
			}
			if !blocked {
				blocked = !g.finish()
			}
			fsUninstall()
			if blocked {
				fsOracle(c, "write-never-hangs", "", false, "a scheduled caller of the portable writer did not come back within the time limit")
				c.curSeq = c.curSeq[:len(c.curSeq)-1]
				res, dead = "blocked", true
				break
			}
			for i, it := range its {
				if g.res[i] == "ok" {
					want[it.a] = it.plain
				}
			}
			fsOracle(c, "write-never-panics", "", !strings.Contains(strings.Join(g.res, ","), "panic"), "a scheduled put panicked")
			c.curSeq = c.curSeq[:len(c.curSeq)-1]
			res = strings.Join(g.res, ",") + " snaps=" + strings.Join(snaps, ";")
		case "get", "getb", "stream", "head":
			a := o.int("a")
			var data []byte
			var err error
			readPanic := ""
			func() {
				defer func() {
					if r := recover(); r != nil { // a read that panics takes the node down: an observation, not a harness death
						readPanic = fmt.Sprint(r)
						err = errors.New("panic")
					}
				}()
				switch o.name {
				case "get":
					var obj *object.Object
					if obj, err = t.Get(fsAddr(a)); err == nil {
						data = obj.Marshal()
					}
				case "getb":
					data, err = t.GetBytes(fsAddr(a))
				case "stream":
					var hdr *object.Object
					var rd io.ReadCloser
					if hdr, rd, err = t.GetStream(fsAddr(a)); err == nil {
						pl, rerr := io.ReadAll(rd)
						rd.Close()
						if rerr != nil {
							err = rerr
						} else {
							if len(pl) > 0 {
								hdr.SetPayload(pl)
							}
							data = hdr.Marshal()
						}
					}
				case "head":
					var hdr *object.Object
					if hdr, err = t.Head(fsAddr(a)); err == nil {
						if w, ok := want[a]; ok && !vary {
							var full object.Object
							if full.Unmarshal(w) == nil {
								fsOracle(c, "head-returns-the-stored-header", "", bytes.Equal(full.CutPayload().Marshal(), hdr.Marshal()), fmt.Sprintf("address %d: header differs from the stored object's", a))
							}
						}
					}
				}
			}()
			res = fsErrName(err)
			if readPanic != "" {
				res = "panic"
			}
			fsOracle(c, "read-never-panics", "", readPanic == "", fmt.Sprintf("%s of address %d panicked: %s", o.name, a, readPanic))
			if err == nil && o.name != "head" {
				res = fmt.Sprintf("ok %d:%d", len(data), fsHash(data))
			}
			if !vary {
				w, stored := want[a]
				if stored {
					okRead := err == nil && (o.name == "head" || bytes.Equal(data, w))
					fsOracle(c, "read-returns-exactly-the-stored-bytes", o.name+fmt.Sprint(len(w) == fsBufLen), okRead,
						fmt.Sprintf("%s of address %d (stored %d bytes, hash %d): %s", o.name, a, len(w), fsHash(w), res))
				} else if _, offered := content[a]; !offered {
					fsOracle(c, "absent-object-reads-not-found", "", res == "notFound", fmt.Sprintf("%s of never stored address %d: %s", o.name, a, res))
				}
			}
		case "exists":
			ok, err := t.Exists(fsAddr(o.int("a")))
			res = map[bool]string{true: "yes", false: "no"}[ok]
			if err != nil {
				res = "err"
			}
			if _, stored := want[o.int("a")]; stored {
				fsOracle(c, "stored-object-exists", "", ok, fmt.Sprintf("address %d", o.int("a")))
			}
		case "iter":
			res = "ok"
		case "layout":
			res = "ok " + fsLayout(t)
		case "reopen":
			if err := t.Close(); err != nil {
				panic(err)
			}
			t = fsOpen(dir, cfg)
			res = "ok"
		default:
			c.emit(line, "=> bad-op")
			continue
		}
		dump := "-"
		if !dead {
			var got map[int][]byte
			dump, got = fsDump(c, t)
			check(got)
		} else {
			dump = "dead"
		}
		c.emit(full, "=> "+res+" | "+dump)
	}
	if len(ops) > 4 {
		c.nontrivial(fmt.Sprint(ops))
	}
}

// fsOracle records at most one failure per assertion and run: every recorded failure is shrunk by the pipeline
// (many replays), and a broken writer fails the same assertion hundreds of times.
var fsFailed = map[string]int{}

func fsOracle(c *runCtx, assertion, sig string, ok bool, detail string) {
	if !ok {
		if fsFailed[assertion] >= 1 {
			c.count("oracle_fail_more:" + assertion)
			return
		}
		fsFailed[assertion]++
	}
	c.oracleSig(assertion, sig, ok, detail)
}

// ---------------------------------------------------------------- generation

type fsGenState struct {
	c     *runCtx
	total [9]int // marshalled size per address
	comp  [9]bool
	rev   [9]int // content revision (only the "vary" stream changes it)
	pre   map[[3]int][]byte
	ps    map[[3]int]int
}

func (g *fsGenState) item(sfx string, a int) string {
	key := [3]int{a, g.total[a], g.rev[a]}
	if _, ok := g.pre[key]; !ok {
		g.pre[key], g.ps[key] = fsObject(a, g.total[a], a+16*g.rev[a])
	}
	// the stored form of one content may differ from put to put (compressed or not)
	z := g.comp[a] && g.c.rng.IntN(4) != 0
	return fsItemStr(sfx, a, g.pre[key], g.ps[key], a+16*g.rev[a], z)
}

func (g *fsGenState) items(k int) string {
	perm := g.c.rng.Perm(8)
	s := fmt.Sprintf("n=%d", k)
	for i := 0; i < k; i++ {
		s += " " + g.item(strconv.Itoa(i), 1+perm[i])
	}
	return s
}

func fsNewGen(c *runCtx, big bool) *fsGenState {
	g := &fsGenState{c: c, pre: map[[3]int][]byte{}, ps: map[[3]int]int{}}
	for a := 1; a <= 8; a++ {
		switch k := c.rng.IntN(10); {
		case big && k < 3:
			g.total[a] = fsBufLen
		case big && k < 6:
			g.total[a] = []int{fsBufLen - 1, fsBufLen + 1, fsBufLen - 38, fsBufLen + 38, 2 * fsBufLen, 2*fsBufLen + 37, 30000,
				fsBufLen - 110 + c.rng.IntN(150), fsBufLen - 110 + c.rng.IntN(150)}[c.rng.IntN(9)]
		case k < 8:
			g.total[a] = 140 + c.rng.IntN(150) // below the small threshold (300)
		default:
			g.total[a] = 301 + c.rng.IntN(300) // above it
		}
		g.comp[a] = c.rng.IntN(3) == 0
	}
	return g
}

func fsRandCfg(c *runCtx, big bool) fsCfg {
	cfg := fsCfg{Writer: "linux", Depth: c.rng.IntN(5), Thr: 300, Cnt: []int{1, 2, 3, 4, 128}[c.rng.IntN(5)], Szl: []int{400, 1000, 100000, 8 << 20}[c.rng.IntN(4)]}
	if c.rng.IntN(4) == 0 {
		cfg.Writer = "generic"
	}
	if big {
		cfg.Thr = []int{fsBufLen - 1, fsBufLen, 65536}[c.rng.IntN(3)]
		cfg.Szl = []int{fsBufLen, 100000, 8 << 20}[c.rng.IntN(3)]
		if cfg.Cnt == 1 {
			cfg.Cnt = 2
		}
	}
	return cfg
}

func fstreeGen(c *runCtx, run func([]string)) {
	switch c.prop {
	case "C13":
		fsGenFaults(c, run)
	case "C12":
		fsGenCrashes(c, run)
	default:
		fsGenHistories(c, run)
	}
}

func (g *fsGenState) readOp(a int) string {
	return fmt.Sprintf("fstree %s a=%d", []string{"get", "getb", "stream", "head", "exists", "stream"}[g.c.rng.IntN(6)], a)
}

// fsGenBufferEdges: combined files whose members end next to the edges of the header buffer, so that the scan for a
// later member refills the buffer with a partial prefix left over and finds the member close to the buffer's end
// (a latent slice overflow of readHeader was found there by a red-team agent reading the code; sizes 20405, 20441, >= 20480).
func fsGenBufferEdges(c *runCtx, run func([]string)) {
	var cases [][3]int
	for k := 0; k < 24; k++ { // PutBatch takes a map: the order of the members in the file is random, one in six fits
		cases = append(cases, [3]int{fsBufLen - 75, fsBufLen - 39, 30000}, [3]int{fsBufLen - 75, fsBufLen - 39, 30000})
	}
	for k := 0; k < c.n(10, 400); k++ {
		cases = append(cases, [3]int{fsBufLen - 110 + c.rng.IntN(150), fsBufLen - 110 + c.rng.IntN(150),
			[]int{fsBufLen, fsBufLen + 1, 30000, 2*fsBufLen + 37}[c.rng.IntN(4)]})
	}
	for ci, cs := range cases {
		g := &fsGenState{c: c, pre: map[[3]int][]byte{}, ps: map[[3]int]int{}}
		for a := 1; a <= 8; a++ {
			g.total[a] = 200
		}
		g.total[1], g.total[2], g.total[3] = cs[0], cs[1], cs[2]
		cfg := fsCfg{Writer: []string{"linux", "generic"}[ci%2], Depth: 1, Thr: 65536, Cnt: 4, Szl: 8 << 20}
		ops := []string{cfg.line(), "fstree batch n=3 " + g.item("0", 1) + " " + g.item("1", 2) + " " + g.item("2", 3)}
		for _, a := range []int{3, 2, 1} {
			for _, r := range []string{"stream", "head", "get", "getb"} {
				ops = append(ops, fmt.Sprintf("fstree %s a=%d", r, a))
			}
		}
		run(ops)
	}
}

func fsGenHistories(c *runCtx, run func([]string)) {
	fsGenBufferEdges(c, run)
	for i := 0; i < c.n(90, 4000); i++ {
		big := i%6 == 5
		vary := i%10 == 3
		g := fsNewGen(c, big)
		ops := []string{fsRandCfg(c, big).line()}
		n := 12 + c.rng.IntN(28)
		if big {
			n = 8 + c.rng.IntN(8)
		}
		for j := 0; j < n; j++ {
			a := 1 + c.rng.IntN(8)
			switch k := c.rng.IntN(100); {
			case k < 24:
				if vary && c.rng.IntN(3) == 0 {
					g.rev[a]++
				}
				ops = append(ops, "fstree put "+g.item("", a))
			case k < 38:
				ops = append(ops, "fstree batch "+g.items(1+c.rng.IntN(4)))
			case k < 43:
				if i%2 == 0 { // concurrent puts make the file layout depend on timing: such histories carry no layout op
					ops = append(ops, "fstree pput "+g.items(2+c.rng.IntN(3)))
				}
			case k < 56:
				ops = append(ops, fmt.Sprintf("fstree del a=%d", a))
			case k < 88:
				ops = append(ops, g.readOp(a))
			case k < 92:
				ops = append(ops, "fstree iter")
			case k < 96:
				if i%2 == 1 {
					ops = append(ops, "fstree layout")
				}
			default:
				ops = append(ops, "fstree reopen")
			}
		}
		// read everything back at the end
		for a := 1; a <= 8; a++ {
			ops = append(ops, fmt.Sprintf("fstree %s a=%d", []string{"stream", "getb", "get", "head"}[a%4], a))
		}
		run(ops)
	}
}

// fsGenFaults: every single fault point (and pairs) of put / batch / concurrent puts, around rotation limits.
func fsGenFaults(c *runCtx, run func([]string)) {
	for i := 0; i < c.n(70, 3000); i++ {
		g := fsNewGen(c, false)
		cfg := fsCfg{Writer: "linux", Depth: c.rng.IntN(3), Thr: 300, Cnt: []int{2, 3, 128}[c.rng.IntN(3)], Szl: []int{150, 400, 100000}[c.rng.IntN(3)]}
		if i%7 == 6 {
			cfg.Writer = "generic"
		}
		ops := []string{cfg.line()}
		n := 6 + c.rng.IntN(14)
		for j := 0; j < n; j++ {
			a := 1 + c.rng.IntN(8)
			flt := ""
			if c.rng.IntN(2) == 0 {
				f := []int{c.rng.IntN(7)}
				if c.rng.IntN(4) == 0 {
					f = append(f, f[0]+1+c.rng.IntN(4))
				}
				flt = " f=" + joinInts(f)
			}
			if c.rng.IntN(5) == 0 { // a call of this op outlasts the sync timer (with or without a failing call)
				flt += fmt.Sprintf(" slow=%d", c.rng.IntN(7))
			}
			switch k := c.rng.IntN(100); {
			case k < 45:
				ops = append(ops, "fstree put "+g.item("", a)+flt)
			case k < 65:
				ops = append(ops, "fstree batch "+g.items(1+c.rng.IntN(4))+flt)
			case k < 72:
				ops = append(ops, "fstree pput "+g.items(2+c.rng.IntN(3)))
			case k < 80:
				ops = append(ops, fmt.Sprintf("fstree del a=%d", a)+flt)
			default:
				ops = append(ops, g.readOp(a))
			}
		}
		for a := 1; a <= 8; a++ { // later writes are not affected: each address is stored and read back
			ops = append(ops, "fstree put "+g.item("", a), fmt.Sprintf("fstree getb a=%d", a))
		}
		run(ops)
	}
}

// fsGenCrashes: every stop point of put (combined and single file) / PutBatch / delete / the portable writer's put,
// one after the other, then random crash ops.
func fsGenCrashes(c *runCtx, run func([]string)) {
	for i := 0; i < c.n(12, 720); i++ {
		g := fsNewGen(c, false)
		cfg := fsCfg{Writer: "linux", Depth: c.rng.IntN(3), Thr: 300, Cnt: []int{2, 3, 128}[c.rng.IntN(3)], Szl: []int{400, 100000}[c.rng.IntN(2)]}
		kind := i % 6
		if kind == 3 {
			cfg.Writer = "generic"
		}
		if kind == 4 {
			fsGenKills(c, g, cfg, i/6, run)
			continue
		}
		if kind == 5 {
			fsGenScheds(c, g, cfg, run)
			continue
		}
		ops := []string{cfg.line()}
		// something to survive the crashes
		ops = append(ops, "fstree batch "+g.items(2))
		switch kind {
		case 0, 1, 3: // put of a fresh address at every stop point: open, write, link|close, close|rename, done
			for a := 1; a <= 6; a++ {
				g.total[a] = 150 + c.rng.IntN(100)
				if kind == 1 {
					g.total[a] = 320 + c.rng.IntN(200) // above the threshold: single file
				}
				ops = append(ops, fmt.Sprintf("fstree del a=%d", a), "fstree put "+g.item("", a)+fmt.Sprintf(" c=%d", a-1))
			}
		case 2: // a batch of three at every stop point: open, 3 x (writev, linkat), close, done
			for cp := 0; cp <= 9; cp++ {
				ops = append(ops, "fstree del a=1", "fstree del a=2", "fstree del a=3",
					"fstree batch n=3 "+g.item("0", 1)+" "+g.item("1", 2)+" "+g.item("2", 3)+fmt.Sprintf(" c=%d", cp))
			}
		}
		// a delete at both of its stop points
		ops = append(ops, "fstree put "+g.item("", 7), "fstree del a=7 c=0", "fstree del a=7 c=1", "fstree put "+g.item("", 7))
		n := 3 + c.rng.IntN(5)
		for j := 0; j < n; j++ {
			a := 1 + c.rng.IntN(8)
			cr := ""
			if c.rng.IntN(4) == 0 {
				cr = fmt.Sprintf(" c=%d", c.rng.IntN(9))
			}
			switch k := c.rng.IntN(100); {
			case k < 40:
				ops = append(ops, "fstree put "+g.item("", a)+cr)
			case k < 70:
				ops = append(ops, "fstree batch "+g.items(1+c.rng.IntN(4))+cr)
			case k < 82:
				ops = append(ops, fmt.Sprintf("fstree del a=%d", a)+cr)
			default:
				ops = append(ops, g.readOp(a))
			}
		}
		for a := 1; a <= 8; a += 3 {
			ops = append(ops, fmt.Sprintf("fstree getb a=%d", a))
		}
		run(ops)
	}
}

// fsKseqItems: k items; with sameAddr the second item is the first one's address again (its stored form may differ:
// compressed or not).
func (g *fsGenState) kseqItems(k int, sameAddr bool) string {
	perm := g.c.rng.Perm(8)
	s := fmt.Sprintf("n=%d", k)
	for i := 0; i < k; i++ {
		a := 1 + perm[i]
		if sameAddr && i == 1 {
			a = 1 + perm[0]
			g.comp[a] = true
		}
		s += " " + g.item(strconv.Itoa(i), a)
	}
	return s
}

// fsGenKills: call sequences killed at every system call: an object is put again (alone, in a batch, after a delete,
// with another stored form), next to objects acknowledged before; then random sequences with many repeated addresses.
func fsGenKills(c *runCtx, g *fsGenState, cfg fsCfg, round int, run func([]string)) {
	if round%2 == 1 { // every second of these histories on the portable writer
		cfg.Writer = "generic"
	}
	for a := 1; a <= 8; a++ { // both writers of the linux implementation: combined file and single file
		if c.rng.IntN(2) == 0 {
			g.total[a] = 320 + c.rng.IntN(200)
		}
	}
	templates := [][2]string{
		{"p0", "p0"}, {"p0,p1", "b01,p2"}, {"b01", "p1,p0"}, {"p0", "d0,p0"}, {"-", "p0,p0,b012"}, {"b012", "b01,d2,p2"},
	}
	// every kseq line is a sequence of its own (it runs on a fresh tree): a failing one is its own minimal witness
	t := templates[(2*round)%len(templates)]
	run([]string{cfg.line(), fmt.Sprintf("fstree kseq %s setup=%s ops=%s", g.kseqItems(3, false), t[0], t[1])})
	t = templates[(2*round+1)%len(templates)]
	run([]string{cfg.line(), fmt.Sprintf("fstree kseq %s setup=%s ops=%s", g.kseqItems(3, false), t[0], t[1])})
	// the same address with two stored forms
	run([]string{cfg.line(), fmt.Sprintf("fstree kseq %s setup=p0 ops=p1,p0", g.kseqItems(2, true))})
	// a random sequence over few addresses
	k := 2 + c.rng.IntN(2)
	var seq []string
	for j := 0; j < 3+c.rng.IntN(2); j++ {
		switch r := c.rng.IntN(10); {
		case r < 5:
			seq = append(seq, fmt.Sprintf("p%d", c.rng.IntN(k)))
		case r < 8:
			b := "b"
			for _, x := range c.rng.Perm(k)[:1+c.rng.IntN(k)] {
				b += strconv.Itoa(x)
			}
			seq = append(seq, b)
		default:
			seq = append(seq, fmt.Sprintf("d%d", c.rng.IntN(k)))
		}
	}
	run([]string{cfg.line(), fmt.Sprintf("fstree kseq %s setup=p0 ops=%s", g.kseqItems(k, false), strings.Join(seq, ","))})
}

// fsGenScheds: two or three concurrent puts on the portable writer, mostly of ONE address, under chosen and random
// interleavings of their system calls; every prefix of a schedule is a stop point; some ops end in a real process exit.
func fsGenScheds(c *runCtx, g *fsGenState, cfg fsCfg, run func([]string)) {
	cfg.Writer = "generic"
	ops := []string{cfg.line(), "fstree batch " + g.items(2)}
	two := func(a int) string {
		g.comp[a] = c.rng.IntN(2) == 0
		return "n=2 " + g.item("0", a) + " " + g.item("1", a)
	}
	// caller 1 opens its temporary file between any two calls of caller 0, then caller 0 finishes first
	for at := 0; at <= 3; at++ {
		var sched []int
		for j := 0; j < 4; j++ {
			if j == at {
				sched = append(sched, 1)
			}
			sched = append(sched, 0)
		}
		a := 1 + c.rng.IntN(8)
		ops = append(ops, fmt.Sprintf("fstree del a=%d", a), fmt.Sprintf("fstree gsched %s sched=%s", two(a), joinInts(sched)))
	}
	for j := 0; j < 4+c.rng.IntN(3); j++ {
		a := 1 + c.rng.IntN(8)
		n := 2
		items := two(a)
		if c.rng.IntN(3) == 0 { // a third caller, of the same or of another address
			n = 3
			b := a
			if c.rng.IntN(2) == 0 {
				b = 1 + c.rng.IntN(8)
			}
			items = "n=3" + items[3:] + " " + g.item("2", b)
		}
		var sched []int
		left := make([]int, n)
		for i := range left {
			left[i] = 4
		}
		for len(sched) < 4*n {
			w := c.rng.IntN(n)
			if left[w] > 0 {
				left[w]--
				sched = append(sched, w)
			}
		}
		line := fmt.Sprintf("fstree gsched %s sched=%s", items, joinInts(sched))
		if c.rng.IntN(3) == 0 {
			line += fmt.Sprintf(" c=%d", c.rng.IntN(len(sched)+1))
		}
		if c.rng.IntN(2) == 0 {
			ops = append(ops, fmt.Sprintf("fstree del a=%d", a))
		}
		ops = append(ops, line, g.readOp(a))
	}
	for a := 1; a <= 8; a += 2 {
		ops = append(ops, fmt.Sprintf("fstree getb a=%d", a))
	}
	run(ops)
}
