package main

// Op `rpc relay` of engine `rpc` (C29): the header-time eACL re-check of GET.
//
//	rpc relay src=remote|local po=0|1 req=pass|soft|deny class=open|secret chunks=N len=L bad=none|chunkfirst|twohdr|short
//
// The REAL Server.Get runs over the REAL getsvc.Service (local storage engine in a scratch directory, container of
// two nodes: the server and one remote node). The remote node is a gRPC server on an in-memory listener that
// answers GET with the heading part and N chunks of L payload bytes (bad=chunkfirst: a chunk arrives first,
// bad=twohdr: the heading part arrives twice, bad=short: the first chunk is missing), so the server serves the request through its relay
// (getProxyContext.continueWithConn / handleInitResponse / handleChunkResponse). src=local: the object lies in the
// server's own storage (header interceptor of the storage read).
//
// The ACL checker is a fake that decides like an eACL table with an object-header filter: at request time it
// answers req (soft = aclsvc.ErrNotMatched: header filters cannot be evaluated yet, the server must re-check when
// it has the header); given a header (binary or inside a response message) it looks at the attribute `Class`:
// secret = denied, anything else = allowed. (With the header at hand the SDK validator's verdict is always final,
// so "no rule matched" is not an answer of the real checker at header time and is not generated here.)
//
// Observation: what the client received — "served init=<0|1> bytes=<n> same=<0|1>" or
// "refused st=<class> init=<k> bytes=<n>".
// Oracle (the property): when the header-time re-check denies, NOTHING of the object reaches the client (no
// heading part, no payload byte) and the status is "access denied"; payload bytes are only sent after the header
// was evaluated; what is served is the object's payload.

import (
	"bytes"
	"context"
	"errors"
	"fmt"
	"net"
	"os"
	"path/filepath"
	"strconv"
	"sync"

	clientcore "github.com/nspcc-dev/neofs-node/pkg/core/client"
	"github.com/nspcc-dev/neofs-node/pkg/local_object_storage/engine"
	objectsvc "github.com/nspcc-dev/neofs-node/pkg/services/object"
	aclsvc "github.com/nspcc-dev/neofs-node/pkg/services/object/acl/v2"
	deletesvc "github.com/nspcc-dev/neofs-node/pkg/services/object/delete"
	getsvc "github.com/nspcc-dev/neofs-node/pkg/services/object/get"
	putsvc "github.com/nspcc-dev/neofs-node/pkg/services/object/put"
	objutil "github.com/nspcc-dev/neofs-node/pkg/services/object/util"
	"github.com/nspcc-dev/neofs-node/pkg/util/verifbridge"
	cid "github.com/nspcc-dev/neofs-sdk-go/container/id"
	neofscrypto "github.com/nspcc-dev/neofs-sdk-go/crypto"
	"github.com/nspcc-dev/neofs-sdk-go/netmap"
	"github.com/nspcc-dev/neofs-sdk-go/object"
	oid "github.com/nspcc-dev/neofs-sdk-go/object/id"
	protoobject "github.com/nspcc-dev/neofs-sdk-go/proto/object"
	iprotobuf "github.com/nspcc-dev/neofs-sdk-go/proto/protobuf"
	"github.com/nspcc-dev/neofs-sdk-go/proto/refs"
	protosession "github.com/nspcc-dev/neofs-sdk-go/proto/session"
	"github.com/nspcc-dev/neofs-sdk-go/user"
	"github.com/nspcc-dev/neofs-sdk-go/version"
	"go.uber.org/zap"
	"google.golang.org/grpc"
	"google.golang.org/grpc/credentials/insecure"
	"google.golang.org/grpc/test/bufconn"
	"google.golang.org/protobuf/proto"
)

// ---------------------------------------------------------------- world: local storage + get service

type relayNet struct{ self, remote netmap.NodeInfo }

func (n *relayNet) GetNodesForObject(oid.Address) ([][]netmap.NodeInfo, []uint, []verifbridge.ECRule, error) {
	return [][]netmap.NodeInfo{{n.self, n.remote}}, []uint{2}, nil, nil
}
func (n *relayNet) IsLocalNodePublicKey(pub []byte) bool { return bytes.Equal(pub, n.self.PublicKey()) }

// relayClients hands out the connection to the remote node of the current op.
type relayClients struct {
	mtx  sync.Mutex
	conn clientcore.MultiAddressClient
}

func (c *relayClients) Get(context.Context, netmap.NodeInfo) (clientcore.MultiAddressClient, error) {
	c.mtx.Lock()
	defer c.mtx.Unlock()
	if c.conn == nil {
		return nil, errors.New("no connection to the remote node")
	}
	return c.conn, nil
}

// relayConn: only the raw gRPC connection is used by the relay; any other method is a nil-interface panic.
type relayConn struct {
	clientcore.Client
	conn *grpc.ClientConn
}

func (c relayConn) ForAnyGRPCConn(ctx context.Context, f func(context.Context, *grpc.ClientConn) error) error {
	return f(ctx, c.conn)
}
func (c relayConn) APIVersion() *refs.Version { return version.Current().ProtoMessage() }

type relayWorld struct {
	dir     string
	eng     *engine.StorageEngine
	svc     *getsvc.Service
	clients *relayClients
	objs    map[string]*object.Object
}

var relayW *relayWorld

func relayGetWorld() *relayWorld {
	if relayW != nil {
		return relayW
	}
	dir := scratchDir("rpcrelay")
	eng, _ := newEngine(filepath.Join(dir, "eng"), 1, shardCfg{})
	n := &relayNet{}
	n.self.SetPublicKey(rpcServerKey.PublicKey().Bytes())
	n.remote.SetPublicKey(rpcPeerKey.PublicKey().Bytes())
	n.remote.SetNetworkEndpoints("localhost:9091")
	cl := &relayClients{}
	svc := getsvc.New(n,
		getsvc.WithLogger(zap.NewNop()),
		getsvc.WithLocalStorageEngine(eng),
		getsvc.WithClientConstructor(cl),
		getsvc.WithKeyStorage(objutil.NewKeyStorage(&rpcServerKey.PrivateKey, nil, nil)))
	relayW = &relayWorld{dir: dir, eng: eng, svc: svc, clients: cl, objs: map[string]*object.Object{}}
	return relayW
}

func relayCloseWorld() {
	if relayW != nil {
		relayW.eng.Close()
		os.RemoveAll(relayW.dir)
		relayW = nil
	}
}

// object of the op: a correctly identified and signed object whose header carries (or not) the attribute Class.
func (w *relayWorld) object(src, class string, size int) *object.Object {
	key := fmt.Sprintf("%s/%s/%d", src, class, size)
	if o, ok := w.objs[key]; ok {
		return o
	}
	signer := user.NewAutoIDSigner(rpcOwnerKey.PrivateKey)
	obj := object.New(numCID(1), signer.UserID())
	attrs := []object.Attribute{object.NewAttribute("FileName", "report-"+src+"-"+strconv.Itoa(size))}
	attrs = append(attrs, object.NewAttribute("Class", class))
	obj.SetAttributes(attrs...)
	obj.SetPayload(detPayload(size, 5))
	obj.SetPayloadSize(uint64(size))
	if err := obj.SetVerificationFields(signer); err != nil {
		panic(err)
	}
	if src == "local" {
		if err := w.eng.Put(context.Background(), obj, nil); err != nil {
			panic("store the local object: " + err.Error())
		}
	}
	w.objs[key] = obj
	return obj
}

// ---------------------------------------------------------------- fakes around the server

// relayHandlers: GET goes to the real get service; nothing else is called.
type relayHandlers struct {
	svc *getsvc.Service
	rec *relayRec
}

func (h relayHandlers) Get(ctx context.Context, p getsvc.Prm) error { return h.svc.Get(ctx, p) }
func (h relayHandlers) Put(context.Context) (*putsvc.Streamer, error) {
	panic("must not be called")
}
func (h relayHandlers) Head(context.Context, getsvc.HeadPrm) error      { panic("must not be called") }
func (h relayHandlers) Delete(context.Context, deletesvc.Prm) error     { panic("must not be called") }
func (h relayHandlers) GetRange(context.Context, getsvc.RangePrm) error { panic("must not be called") }

type relayRec struct {
	mtx       sync.Mutex
	events    []string // client-facing stream and checker, in order: req-check, hdr-check:<verdict>, init, chunk:<n>, status:<code>
	inits     int
	payload   []byte
	codes     []uint32
	hdrChecks int
	// remote side
	remoteGotPayloadOnly []bool
	remoteSigned         []bool
}

func (r *relayRec) ev(s string) {
	r.events = append(r.events, s)
}

type relayACL struct {
	rec *relayRec
	req string
}

func (a relayACL) CheckBasicACL(aclsvc.RequestInfo) bool           { return true }
func (a relayACL) StickyBitCheck(aclsvc.RequestInfo, user.ID) bool { return true }
func (a relayACL) CheckEACL(_ context.Context, msg any, _ cid.ID, _ oid.ID, _ aclsvc.RequestInfo) error {
	a.rec.mtx.Lock()
	defer a.rec.mtx.Unlock()
	var hdr *protoobject.Header
	switch m := msg.(type) {
	default:
		a.rec.ev(fmt.Sprintf("check-of-%T", msg))
		return fmt.Errorf("unexpected message %T", msg)
	case *protoobject.GetRequest:
		a.rec.ev("req-check:" + a.req)
		switch a.req {
		case "soft":
			return aclsvc.ErrNotMatched
		case "deny":
			return errAnyACL
		}
		return nil
	case []byte:
		hdr = new(protoobject.Header)
		if err := proto.Unmarshal(m, hdr); err != nil {
			a.rec.ev("hdr-check:undecodable")
			return fmt.Errorf("decode header: %w", err)
		}
	case *protoobject.GetResponse:
		hdr = m.GetBody().GetInit().GetHeader()
	}
	a.rec.hdrChecks++
	verdict := "pass"
	for _, at := range hdr.GetAttributes() {
		if at.GetKey() == "Class" && at.GetValue() == "secret" {
			verdict = "deny"
		}
	}
	a.rec.ev("hdr-check:" + verdict)
	if verdict == "deny" {
		return errAnyACL
	}
	return nil
}

// relayClientStream is the stream towards the client: it decodes whatever the server writes.
type relayClientStream struct {
	rpcStream
	rec *relayRec
}

func (s *relayClientStream) take(m *protoobject.GetResponse) {
	s.rec.mtx.Lock()
	defer s.rec.mtx.Unlock()
	switch p := m.GetBody().GetObjectPart().(type) {
	case *protoobject.GetResponse_Body_Init_:
		s.rec.inits++
		s.rec.ev("init")
	case *protoobject.GetResponse_Body_Chunk:
		s.rec.payload = append(s.rec.payload, p.Chunk...)
		s.rec.ev("chunk:" + strconv.Itoa(len(p.Chunk)))
	case *protoobject.GetResponse_Body_SplitInfo:
		s.rec.ev("splitinfo")
	default:
		code := m.GetMetaHeader().GetStatus().GetCode()
		s.rec.codes = append(s.rec.codes, code)
		s.rec.ev("status:" + strconv.Itoa(int(code)))
	}
}

func (s *relayClientStream) Send(m *protoobject.GetResponse) error { s.take(m); return nil }
func (s *relayClientStream) SendMsg(m any) error {
	if r, ok := m.(*protoobject.GetResponse); ok {
		s.take(r)
		return nil
	}
	bs, err := iprotobuf.BufferedCodec{}.Marshal(m)
	if err != nil {
		return fmt.Errorf("client stream: encode %T: %w", m, err)
	}
	var r protoobject.GetResponse
	if err := proto.Unmarshal(bs.Materialize(), &r); err != nil {
		return fmt.Errorf("client stream: decode %T: %w", m, err)
	}
	s.take(&r)
	return nil
}

// ---------------------------------------------------------------- the remote container node

// relayRemote starts the remote node: answers GET with the messages of the op. Returns the connection and a stop function.
func relayRemote(rec *relayRec, obj *object.Object, chunks, ln int, bad string) (clientcore.MultiAddressClient, func()) {
	lis := bufconn.Listen(256 << 10)
	gs := grpc.NewServer(grpc.ForceServerCodecV2(iprotobuf.BufferedCodec{}))
	mo := obj.ProtoMessage()
	initMsg := &protoobject.GetResponse{Body: &protoobject.GetResponse_Body{ObjectPart: &protoobject.GetResponse_Body_Init_{
		Init: &protoobject.GetResponse_Body_Init{ObjectId: mo.ObjectId, Signature: mo.Signature, Header: mo.Header}}}}
	var msgs []*protoobject.GetResponse
	pl := obj.Payload()
	chunk := func(i int) *protoobject.GetResponse {
		return &protoobject.GetResponse{Body: &protoobject.GetResponse_Body{ObjectPart: &protoobject.GetResponse_Body_Chunk{Chunk: pl[i*ln : (i+1)*ln]}}}
	}
	switch bad {
	case "chunkfirst":
		if chunks > 0 {
			msgs = append(msgs, chunk(0))
		}
		msgs = append(msgs, initMsg)
		for i := 1; i < chunks; i++ {
			msgs = append(msgs, chunk(i))
		}
	case "twohdr":
		msgs = append(msgs, initMsg, initMsg)
		for i := 0; i < chunks; i++ {
			msgs = append(msgs, chunk(i))
		}
	case "short": // the stream ends before the announced payload is complete
		msgs = append(msgs, initMsg)
		for i := 1; i < chunks; i++ {
			msgs = append(msgs, chunk(i))
		}
	default:
		msgs = append(msgs, initMsg)
		for i := 0; i < chunks; i++ {
			msgs = append(msgs, chunk(i))
		}
	}
	gs.RegisterService(&grpc.ServiceDesc{
		ServiceName: protoobject.ObjectService_ServiceDesc.ServiceName,
		HandlerType: (*any)(nil),
		Streams: []grpc.StreamDesc{{StreamName: "Get", ServerStreams: true, Handler: func(_ any, st grpc.ServerStream) error {
			var req protoobject.GetRequest
			if err := st.RecvMsg(&req); err != nil {
				return err
			}
			rec.mtx.Lock()
			rec.remoteGotPayloadOnly = append(rec.remoteGotPayloadOnly, req.GetBody().GetPayloadOnly())
			rec.remoteSigned = append(rec.remoteSigned, req.GetVerifyHeader() != nil && neofscrypto.VerifyRequestWithBuffer(&req, nil) == nil)
			rec.mtx.Unlock()
			for _, m := range msgs {
				if err := st.SendMsg(m); err != nil {
					return err
				}
			}
			return nil
		}}},
	}, nil)
	go func() { _ = gs.Serve(lis) }()
	conn, err := grpc.NewClient("passthrough:///remote",
		grpc.WithContextDialer(func(ctx context.Context, _ string) (net.Conn, error) { return lis.DialContext(ctx) }),
		grpc.WithTransportCredentials(insecure.NewCredentials()))
	if err != nil {
		panic(err)
	}
	return relayConn{conn: conn}, func() { conn.Close(); gs.Stop(); lis.Close() }
}

// ---------------------------------------------------------------- the op

type relayReq struct {
	src, req, class, bad string
	po                   bool
	chunks, ln           int
}

func relayParse(o opLine) (r relayReq, ok bool) {
	r = relayReq{src: o.kv["src"], req: o.kv["req"], class: o.kv["class"], bad: o.kv["bad"]}
	in := func(v string, set ...string) bool {
		for _, s := range set {
			if s == v {
				return true
			}
		}
		return false
	}
	if !in(r.src, "remote", "local") || !in(r.req, "pass", "soft", "deny") || !in(r.class, "open", "secret") ||
		!in(r.bad, "none", "chunkfirst", "twohdr", "short") || !in(o.kv["po"], "0", "1") {
		return r, false
	}
	r.po = o.kv["po"] == "1"
	var err1, err2 error
	r.chunks, err1 = strconv.Atoi(o.kv["chunks"])
	r.ln, err2 = strconv.Atoi(o.kv["len"])
	if err1 != nil || err2 != nil || r.chunks < 0 || r.chunks > 8 || r.ln < 1 || r.ln > 4096 {
		return r, false
	}
	if r.src == "local" && r.bad != "none" {
		return r, false
	}
	if (r.bad == "chunkfirst" || r.bad == "short") && r.chunks == 0 {
		return r, false
	}
	return r, true
}

func rpcRelayExec(c *runCtx, line string, o opLine) {
	r, ok := relayParse(o)
	if !ok {
		c.emit(line, "=> bad-op")
		return
	}
	w := relayGetWorld()
	obj := w.object(r.src, r.class, r.chunks*r.ln)
	rec := &relayRec{}
	stop := func() {}
	if r.src == "remote" {
		var conn clientcore.MultiAddressClient
		conn, stop = relayRemote(rec, obj, r.chunks, r.ln, r.bad)
		w.clients.mtx.Lock()
		w.clients.conn = conn
		w.clients.mtx.Unlock()
	}
	defer func() {
		w.clients.mtx.Lock()
		w.clients.conn = nil
		w.clients.mtx.Unlock()
		stop()
	}()
	rrec := &rpcRec{}
	cfg := &rpcCfg{basicOK: true, stickyOK: true, serverKey: rpcServerKey.PublicKey().Bytes(), clientKey: neofscrypto.PublicKeyBytes(rpcSigner().Public())}
	srv := objectsvc.New(relayHandlers{w.svc, rec}, rpcFSChain{rrec, cfg}, rpcStorage{rrec}, nil, rpcServerKey.PrivateKey, rpcMetrics{},
		relayACL{rec, r.req}, rpcInfo{rrec, cfg}, w.clients, zap.NewNop())

	req := &protoobject.GetRequest{
		Body:       &protoobject.GetRequest_Body{Address: obj.Address().ProtoMessage(), PayloadOnly: r.po},
		MetaHeader: &protosession.RequestMetaHeader{Version: version.Current().ProtoMessage(), Ttl: 2},
	}
	vh, err := neofscrypto.SignRequestWithBuffer(rpcSigner(), req, nil)
	if err != nil {
		panic(err)
	}
	req.VerifyHeader = vh
	st := &relayClientStream{rpcStream: rpcStream{r: rrec}, rec: rec}
	var herr error
	var panicked string
	func() {
		defer func() {
			if p := recover(); p != nil {
				panicked = fmt.Sprint(p)
			}
		}()
		herr = srv.Get(req, st)
	}()
	rec.mtx.Lock()
	defer rec.mtx.Unlock()

	class := "ok"
	if len(rec.codes) > 0 {
		class = codeClass(rec.codes[len(rec.codes)-1])
	}
	same := bytes.Equal(rec.payload, obj.Payload())
	var obs string
	if class == "ok" && herr == nil {
		obs = fmt.Sprintf("=> served init=%d bytes=%d same=%d", rec.inits, len(rec.payload), b2i(same))
	} else {
		obs = fmt.Sprintf("=> refused st=%s init=%d bytes=%d", class, rec.inits, len(rec.payload))
	}
	c.count("relay:src=" + r.src + ",po=" + o.kv["po"] + ",req=" + r.req + ",class=" + r.class + ",bad=" + r.bad)
	c.count("relay-obs:" + class)
	c.emit(line, obs)
	desc := fmt.Sprintf("%s: client stream and checker saw %v; header checks=%d; remote got payload_only=%v signed=%v; err=%v panic=%q",
		line, rec.events, rec.hdrChecks, rec.remoteGotPayloadOnly, rec.remoteSigned, herr, panicked)

	// ---- the property
	recheck := r.req == "soft"
	data := rec.inits > 0 || len(rec.payload) > 0
	if r.req == "deny" {
		c.oracle("refused-request-has-no-effect", !data && len(rec.remoteGotPayloadOnly) == 0 && class == "denied", desc)
	}
	if recheck && r.class == "secret" && r.bad != "chunkfirst" {
		c.oracle("nothing-of-the-object-is-sent-when-the-header-time-check-denies", !data, desc)
		c.oracle("header-time-denial-gets-the-access-denied-status", class == "denied", desc)
		if !data {
			c.nontrivial(line)
		}
	}
	if recheck {
		// every data message is preceded by a header evaluation
		checked := false
		okOrder := true
		for _, e := range rec.events {
			switch {
			case len(e) > 10 && e[:10] == "hdr-check:":
				checked = true
			case e == "init" || len(e) > 6 && e[:6] == "chunk:":
				okOrder = okOrder && checked
			}
		}
		c.oracle("object-data-is-sent-only-after-the-header-was-evaluated", okOrder, desc)
	}
	if class == "ok" && herr == nil && r.bad == "none" {
		c.oracle("served-payload-is-the-object-payload", same, desc)
		c.oracle("heading-part-is-sent-unless-payload-only", rec.inits == 1-b2i(r.po), desc)
	}
	if panicked != "" {
		c.oracle("handler-does-not-panic", false, desc)
	}
}

// rpcRelayGen: the full table src x po x req x class for two shapes of the payload, plus malformed remote streams.
func rpcRelayGen(c *runCtx) []string {
	var ops []string
	line := func(src string, po int, req, class string, chunks, ln int, bad string) {
		ops = append(ops, fmt.Sprintf("rpc relay src=%s po=%d req=%s class=%s chunks=%d len=%d bad=%s", src, po, req, class, chunks, ln, bad))
	}
	for _, src := range []string{"remote", "local"} {
		for po := 0; po <= 1; po++ {
			for _, req := range []string{"pass", "soft", "deny"} {
				for _, class := range []string{"open", "secret"} {
					line(src, po, req, class, 1+c.rng.IntN(4), 16<<c.rng.IntN(6), "none")
					if c.rng.IntN(3) == 0 {
						line(src, po, req, class, 0, 16, "none")
					}
				}
			}
		}
	}
	for po := 0; po <= 1; po++ {
		for _, req := range []string{"pass", "soft"} {
			for _, class := range []string{"open", "secret"} {
				line("remote", po, req, class, 1+c.rng.IntN(3), 64, "chunkfirst")
				line("remote", po, req, class, c.rng.IntN(3), 64, "twohdr")
				line("remote", po, req, class, 1+c.rng.IntN(3), 32, "short")
			}
		}
	}
	return ops
}
