package main

import (
	"bytes"
	"context"
	"errors"
	"fmt"
	"hash/fnv"
	"io"
	"math/big"
	"os"
	"path/filepath"
	"strconv"

	"github.com/klauspost/compress/zstd"
	"github.com/nspcc-dev/neofs-node/pkg/local_object_storage/blobstor/common"
	"github.com/nspcc-dev/neofs-node/pkg/local_object_storage/blobstor/fstree"
	"github.com/nspcc-dev/neofs-node/pkg/local_object_storage/engine"
	"github.com/nspcc-dev/neofs-node/pkg/local_object_storage/shard"
	apistatus "github.com/nspcc-dev/neofs-sdk-go/client/status"
	"github.com/nspcc-dev/neofs-sdk-go/object"
	oid "github.com/nspcc-dev/neofs-sdk-go/object/id"
)

func init() {
	engines["range"] = rangeEngine
}

// rangeSizesZS: sizes of the "fstreezs" kind - zstd-compressed objects whose payload is only half compressible, so that
// the STORED form is larger than the 20 KiB header buffer (the periodic payload of the other kinds compresses to
// a few hundred bytes); the largest one outruns the decoder's read-ahead
var rangeSizesZS = []int{3<<20 + 13, 4 << 20}

// semiPayload: one 32-byte run of hash bytes in every 2048 bytes of a short period: a 128 KiB zstd block of it is SHORTER than the
// 20 KiB header buffer while the whole stored form is longer (kept in step with Model/Range.lean).
func semiPayload(size, seed int) []byte {
	b := make([]byte, size)
	for i := range b {
		if (i>>5)&63 == 0 {
			b[i] = byte((uint32(i)*2654435761 + uint32(seed)*97) >> 16)
		} else {
			b[i] = byte((i*7 + seed) % 251)
		}
	}
	return b
}

func rangePayload(kind string, size int) []byte {
	if kind == "fstreezs" {
		return semiPayload(size, size)
	}
	return detPayload(size, size)
}

var rangeSizes = []int{0, 1, 2, 3, 7, 64, 255, 4096, 5000, 20 << 10, 40<<10 - 30, 40 << 10, 40<<10 + 50, 70000, 131072 + 77}

type rangeLayers struct {
	dir    string
	plain  *fstree.FSTree
	comb   *fstree.FSTree
	shard  *shard.Shard
	wshard *shard.Shard
	eng    *engine.StorageEngine
}

func (l *rangeLayers) close() {
	l.plain.Close()
	l.comb.Close()
	l.shard.Close()
	l.wshard.Close()
	l.eng.Close()
	os.RemoveAll(l.dir)
}

func rangeAddr(kind string, size int) oid.Address {
	k := map[string]int{"fstree": 1, "fstreez": 2, "combined": 3, "shard": 4, "wcshard": 5, "engine": 6, "fstreezs": 7}[kind]
	return numAddr(k, size+1)
}

func rangeSetup() *rangeLayers {
	dir := scratchDir("range")
	l := &rangeLayers{dir: dir}
	l.plain = newFSTree(filepath.Join(dir, "plain"))
	l.comb = newFSTree(filepath.Join(dir, "comb"))
	l.shard = newShard(filepath.Join(dir, "shard"), shardCfg{})
	l.wshard = newShard(filepath.Join(dir, "wshard"), shardCfg{wc: true})
	l.eng, _ = newEngine(filepath.Join(dir, "eng"), 2, shardCfg{})
	enc, _ := zstd.NewWriter(nil)
	batch := map[oid.Address][]byte{}
	for _, sz := range rangeSizes {
		pl := detPayload(sz, sz)
		must := func(err error) {
			if err != nil {
				panic(fmt.Errorf("range setup size %d: %w", sz, err))
			}
		}
		o := func(kind string) *object.Object {
			a := rangeAddr(kind, sz)
			obj := mkObject(0, 0, pl)
			obj.SetContainerID(a.Container())
			obj.SetID(a.Object())
			return obj
		}
		must(l.plain.Put(rangeAddr("fstree", sz), o("fstree").Marshal()))
		must(l.plain.Put(rangeAddr("fstreez", sz), enc.EncodeAll(o("fstreez").Marshal(), nil)))
		batch[rangeAddr("combined", sz)] = o("combined").Marshal()
		must(l.shard.Put(o("shard"), nil))
		must(l.wshard.Put(o("wcshard"), nil))
		must(l.eng.Put(context.Background(), o("engine"), nil))
	}
	if err := l.comb.PutBatch(batch); err != nil {
		panic(err)
	}
	for _, sz := range rangeSizesZS {
		a := rangeAddr("fstreezs", sz)
		obj := mkObject(0, 0, semiPayload(sz, sz))
		obj.SetContainerID(a.Container())
		obj.SetID(a.Object())
		z := enc.EncodeAll(obj.Marshal(), nil)
		if len(z) < 22<<10 {
			panic(fmt.Sprintf("range setup: the compressed form of size %d is only %d bytes", sz, len(z)))
		}
		if err := l.plain.Put(a, z); err != nil {
			panic(err)
		}
	}
	return l
}

// refSlice is the reference meaning of a range request, written from the property text with math/big.
func refSlice(mode int, first, second, n uint64) (off, ln uint64, ok bool) {
	f, s, N := new(big.Int).SetUint64(first), new(big.Int).SetUint64(second), new(big.Int).SetUint64(n)
	switch mode {
	case 0:
		return 0, n, true
	case 1:
		if second == 0 {
			return 0, n, first == 0
		}
		if new(big.Int).Add(f, s).Cmp(N) > 0 {
			return 0, 0, false
		}
		return first, second, true
	case 2:
		if first > second || first >= n {
			return 0, 0, false
		}
		last := second
		if last > n-1 {
			last = n - 1
		}
		return first, last - first + 1, true
	case 3:
		if first == 0 {
			return 0, n, true
		}
		if first >= n {
			return 0, 0, false
		}
		return first, n - first, true
	case 4:
		if first == 0 {
			return 0, 0, false
		}
		k := first
		if k > n {
			k = n
		}
		return n - k, k, true
	}
	return 0, 0, false
}

func errClass(err error) string {
	switch {
	case err == nil:
		return "ok"
	case errors.Is(err, apistatus.ErrObjectOutOfRange) || errors.As(err, new(apistatus.ObjectOutOfRange)):
		return "outOfRange"
	case errors.Is(err, apistatus.ErrObjectNotFound) || errors.As(err, new(apistatus.ObjectNotFound)):
		return "notFound"
	case errors.As(err, new(apistatus.ObjectAlreadyRemoved)):
		return "alreadyRemoved"
	}
	return "other"
}

func rangeEngine(c *runCtx) error {
	var lay *rangeLayers
	defer func() {
		if lay != nil {
			lay.close()
		}
	}()
	c.independent = true
	exec := func(ops []string) {
		for _, line := range ops {
			o := parseOp(line)
			c.count(o.name)
			switch o.name {
			case "resolve":
				mode, first, second, n := o.int("mode"), o.u64("first"), o.u64("second"), o.u64("n")
				off, ln, err := common.PayloadRange{First: first, Second: second, Mode: common.PayloadRangeMode(mode)}.Resolve(n)
				wo, wl, wok := refSlice(mode, first, second, n)
				if err != nil {
					c.emit(line, "=> err "+errClass(err))
					c.oracle("out-of-range-iff-unsatisfiable", mode > 4 || (!wok && errClass(err) == "outOfRange"),
						fmt.Sprintf("mode=%d first=%d second=%d len=%d: Resolve failed (%v) but the slice [%d,+%d) is satisfiable", mode, first, second, n, err, wo, wl))
					continue
				}
				c.emit(line, fmt.Sprintf("=> ok off=%d ln=%d", off, ln))
				c.oracle("resolve-is-the-denoted-slice", wok && off == wo && ln == wl,
					fmt.Sprintf("mode=%d first=%d second=%d len=%d: Resolve=(%d,%d) want (%d,%d,%v)", mode, first, second, n, off, ln, wo, wl, wok))
				if wok && wl > 0 && wl < n {
					c.nontrivial(line)
				}
			case "read":
				if lay == nil {
					lay = rangeSetup()
				}
				kind, size := o.kv["kind"], o.int("size")
				mode, first, second := o.int("mode"), o.u64("first"), o.u64("second")
				rng := common.PayloadRange{First: first, Second: second, Mode: common.PayloadRangeMode(mode)}
				addr := rangeAddr(kind, size)
				hdr := o.kv["hdr"] == "1"
				var (
					rc  io.ReadCloser
					err error
				)
				if o.kv["api"] == "parts" {
					// ReadObjectParts: a partial range yields the range bytes; otherwise buffer+stream are the whole object.
					t := lay.plain
					if kind == "combined" {
						t = lay.comb
					}
					buf := make([]byte, 40<<10)
					n, prc, perr := t.ReadObjectParts(buf, addr, rng, func([]byte) error { return nil })
					if perr == nil && (!rng.IsSet() || rng.IsFull()) {
						rest, rerr := io.ReadAll(prc)
						prc.Close()
						var whole object.Object
						if rerr == nil {
							rerr = whole.Unmarshal(append(buf[:n:n], rest...))
						}
						if rerr != nil {
							perr = rerr
						} else {
							rc = io.NopCloser(bytes.NewReader(whole.Payload()))
						}
					} else {
						rc = prc
					}
					err = perr
				} else {
					switch kind {
					case "fstree", "fstreez", "fstreezs":
						if o.kv["api"] == "rpr" && mode == 1 {
							rc, err = lay.plain.ReadPayloadRange(addr, first, second, make([]byte, 40<<10), func([]byte) error { return nil })
						} else {
							_, _, rc, err = lay.plain.GetRangeStream(addr, rng, hdr)
						}
					case "combined":
						_, _, rc, err = lay.comb.GetRangeStream(addr, rng, hdr)
					case "shard":
						_, _, rc, err = lay.shard.GetRangeStream(addr.Container(), addr.Object(), rng, hdr)
					case "wcshard":
						_, _, rc, err = lay.wshard.GetRangeStream(addr.Container(), addr.Object(), rng, hdr)
					case "engine":
						_, rc, err = lay.eng.GetRangeStream(context.Background(), addr, rng, hdr)
					default:
						c.emit(line, "=> bad-op")
						continue
					}
				}
				if ov, ok := o.kv["ovl"]; ok && err == nil && rc != nil {
					// a second range stream of ANOTHER object is opened, drained and closed while this one is
					// still open and unread: streams must not share state (buffers)
					osz, _ := strconv.Atoi(ov)
					oaddr := rangeAddr(kind, osz)
					var orc io.ReadCloser
					var oerr error
					switch kind {
					case "fstree", "fstreez", "fstreezs":
						_, _, orc, oerr = lay.plain.GetRangeStream(oaddr, common.PayloadRange{}, false)
					case "combined":
						_, _, orc, oerr = lay.comb.GetRangeStream(oaddr, common.PayloadRange{}, false)
					case "shard":
						_, _, orc, oerr = lay.shard.GetRangeStream(oaddr.Container(), oaddr.Object(), common.PayloadRange{}, false)
					case "wcshard":
						_, _, orc, oerr = lay.wshard.GetRangeStream(oaddr.Container(), oaddr.Object(), common.PayloadRange{}, false)
					case "engine":
						_, orc, oerr = lay.eng.GetRangeStream(context.Background(), oaddr, common.PayloadRange{}, false)
					}
					if oerr == nil && orc != nil {
						od, _ := io.ReadAll(orc)
						orc.Close()
						c.oracle("overlapping-stream-bytes-are-the-payload", string(od) == string(rangePayload(kind, osz)),
							fmt.Sprintf("%s: full read of size %d opened while another stream was open returned %d bytes", kind, osz, len(od)))
					}
				}
				wo, wl, wok := refSlice(mode, first, second, uint64(size))
				desc := fmt.Sprintf("%s size=%d mode=%d first=%d second=%d hdr=%v ovl=%s", kind, size, mode, first, second, hdr, o.kv["ovl"])
				if err != nil {
					c.emit(line, "=> err "+errClass(err))
					c.oracle("out-of-range-iff-unsatisfiable", !wok && errClass(err) == "outOfRange", desc+": "+err.Error())
					continue
				}
				data, rerr := io.ReadAll(rc)
				rc.Close()
				if rerr != nil {
					c.emit(line, "=> err read")
					c.oracle("stream-readable", false, desc+": "+rerr.Error())
					continue
				}
				h := fnv.New32a()
				h.Write(data)
				c.emit(line, fmt.Sprintf("=> ok n=%d sum=%d", len(data), h.Sum32()))
				pl := rangePayload(kind, size)
				good := wok && uint64(len(data)) == wl && string(data) == string(pl[wo:wo+wl])
				c.oracle("range-bytes-are-the-slice", good, fmt.Sprintf("%s: got %d bytes, want payload[%d:+%d] (satisfiable=%v)", desc, len(data), wo, wl, wok))
				if wok && wl > 0 && int(wl) < size {
					c.nontrivial(line)
				}
			default:
				c.emit(line, "=> bad-op")
			}
		}
	}
	if c.replay != "" {
		seqs, err := c.replayLines()
		if err != nil {
			return err
		}
		for _, s := range seqs {
			c.reset()
			exec(s)
		}
		return nil
	}
	c.reset()
	// (1) Resolve: every mode and every (first, second) for small payload lengths, exhaustively.
	maxN := 14
	if c.thorough() {
		maxN = 64
	}
	var ops []string
	for n := 0; n <= maxN; n++ {
		for mode := 0; mode <= 4; mode++ {
			for first := 0; first <= n+2; first++ {
				for second := 0; second <= n+2; second++ {
					if (mode == 0 || mode >= 3) && second > 0 {
						continue
					}
					ops = append(ops, fmt.Sprintf("range resolve mode=%d first=%d second=%d n=%d", mode, first, second, n))
				}
			}
		}
	}
	// big values around 2^63 and 2^64
	big := []uint64{0, 1, 2, 1<<63 - 1, 1 << 63, 1<<63 + 1, 1<<64 - 2, 1<<64 - 1, 1 << 32, 1<<32 - 1}
	pick := func() uint64 {
		switch c.rng.IntN(3) {
		case 0:
			return big[c.rng.IntN(len(big))]
		case 1:
			return big[c.rng.IntN(len(big))] - uint64(c.rng.IntN(5)) + uint64(c.rng.IntN(5))
		}
		return c.rng.Uint64()
	}
	for i := 0; i < c.n(4000, 100000); i++ {
		ops = append(ops, fmt.Sprintf("range resolve mode=%d first=%d second=%d n=%d", c.rng.IntN(6), pick(), pick(), pick()))
	}
	for _, a := range big {
		for _, b := range big {
			for _, n := range big {
				for mode := 0; mode <= 4; mode++ {
					ops = append(ops, fmt.Sprintf("range resolve mode=%d first=%d second=%d n=%d", mode, a, b, n))
				}
			}
		}
	}
	exec(ops)
	// (2) reads through every layer and file format
	ops = ops[:0]
	kinds := []string{"fstree", "fstreez", "combined", "shard", "wcshard", "engine"}
	for i := 0; i < c.n(2500, 60000); i++ {
		kind := kinds[c.rng.IntN(len(kinds))]
		size := rangeSizes[c.rng.IntN(len(rangeSizes))]
		mode := c.rng.IntN(5)
		edge := func() uint64 {
			cands := []int{0, 1, size - 1, size, size + 1, size / 2, 20 << 10, 40 << 10, 40<<10 - 60}
			if c.rng.IntN(3) == 0 {
				return uint64(c.rng.IntN(size + 2))
			}
			if c.rng.IntN(40) == 0 {
				return pick()
			}
			v := cands[c.rng.IntN(len(cands))]
			if v < 0 {
				v = 0
			}
			return uint64(v)
		}
		first, second := edge(), edge()
		if mode == 0 || mode >= 3 {
			second = 0
		}
		api := ""
		if (kind == "fstree" || kind == "fstreez") && mode == 1 && c.rng.IntN(3) == 0 {
			api = " api=rpr"
		} else if (kind == "fstree" || kind == "fstreez" || kind == "combined") && c.rng.IntN(3) == 0 {
			api = " api=parts"
		}
		if api == "" && c.rng.IntN(4) == 0 {
			api = fmt.Sprintf(" ovl=%d", rangeSizes[c.rng.IntN(len(rangeSizes))])
		}
		ops = append(ops, fmt.Sprintf("range read kind=%s size=%d mode=%d first=%d second=%d hdr=%d%s", kind, size, mode, first, second, c.rng.IntN(2), api))
	}
	// compressed objects whose stored form exceeds the header buffer: whole reads and ranges through every file-tree API
	for _, size := range rangeSizesZS {
		reps := c.n(6, 40)
		if size > 1<<20 {
			reps = c.n(3, 12)
		}
		for i := 0; i < reps; i++ {
			for _, api := range []string{"", " api=parts", " api=rpr"} {
				mode := c.rng.IntN(5)
				if api == " api=rpr" {
					mode = 1
				}
				first := uint64([]int{0, 1, 20 << 10, 40<<10 - 60, size / 2, size - 1}[c.rng.IntN(6)])
				second := uint64([]int{0, 1, 300, 20 << 10, size / 3}[c.rng.IntN(5)])
				if mode == 0 || mode >= 3 {
					second = 0
				}
				if i == 0 {
					mode, first, second = 0, 0, 0 // the whole object
					if api == " api=rpr" {
						mode, second = 1, uint64(size)
					}
				}
				ops = append(ops, fmt.Sprintf("range read kind=fstreezs size=%d mode=%d first=%d second=%d hdr=%d%s", size, mode, first, second, c.rng.IntN(2), api))
			}
		}
	}
	exec(ops)
	return nil
}
