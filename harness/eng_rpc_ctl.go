package main

// Control-plane half of engine `rpc` (C32): the REAL control servers of the storage node
// (pkg/services/control/server) and of the inner ring (pkg/services/control/ir/server) are built over
// recording fakes (node state, health checker, notary manager) and a real one-shard storage engine. Every
// method of the two ControlServiceServer interfaces is found by reflection and called with a request that
// carries no signature, a valid signature by a key that is not configured, a signature by the configured key
// over a body that was changed afterwards, broken signature bytes, and a correct signature. Observation:
// `denied` (PermissionDenied, nothing touched) or `passed` (the handler went past the authorisation).

import (
	"context"
	"fmt"
	"os"
	"reflect"
	"sort"
	"strings"
	"sync"

	"github.com/nspcc-dev/neo-go/pkg/crypto/keys"
	"github.com/nspcc-dev/neo-go/pkg/util"
	"github.com/nspcc-dev/neofs-node/pkg/local_object_storage/engine"
	"github.com/nspcc-dev/neofs-node/pkg/services/control"
	irctl "github.com/nspcc-dev/neofs-node/pkg/services/control/ir"
	irsrv "github.com/nspcc-dev/neofs-node/pkg/services/control/ir/server"
	ctlsrv "github.com/nspcc-dev/neofs-node/pkg/services/control/server"
	"github.com/nspcc-dev/neofs-node/pkg/services/object/placement"
	"github.com/nspcc-dev/neofs-node/pkg/services/replicator"
	"go.uber.org/zap"
	grpccodes "google.golang.org/grpc/codes"
	"google.golang.org/grpc/metadata"
	grpcstatus "google.golang.org/grpc/status"
)

var (
	ctlAdminKey  = mustKey(0x61) // configured administrator key
	ctlOtherKey  = mustKey(0x62) // a valid key that is NOT configured
	ctlServerKey = mustKey(0x63)
	ctlAdmin2Key = mustKey(0x64) // second configured administrator key
)

// ctlRec records the calls that reach the dependencies of a control server (several requests may be in flight:
// op `crace`, eng_rpc_ctlrace.go).
type ctlRec struct {
	mu    sync.Mutex
	calls []string
}

func (r *ctlRec) add(s string) {
	r.mu.Lock()
	r.calls = append(r.calls, s)
	r.mu.Unlock()
}

func (r *ctlRec) snapshot() []string {
	r.mu.Lock()
	defer r.mu.Unlock()
	return append([]string(nil), r.calls...)
}

type ctlHealth struct{ r *ctlRec }

func (h ctlHealth) NetmapStatus() control.NetmapStatus {
	h.r.add("health:NetmapStatus")
	return control.NetmapStatus_ONLINE
}
func (h ctlHealth) HealthStatus() control.HealthStatus {
	h.r.add("health:HealthStatus")
	return control.HealthStatus_READY
}

type ctlNodeState struct{ r *ctlRec }

func (n ctlNodeState) SetNetmapStatus(st control.NetmapStatus) error {
	n.r.add(fmt.Sprintf("nodeState:SetNetmapStatus(%d)", int32(st)))
	return nil
}
func (n ctlNodeState) IsLocalNodePublicKey([]byte) bool {
	n.r.add("nodeState:IsLocalNodePublicKey")
	return false
}

type irHealth struct{ r *ctlRec }

func (h irHealth) HealthStatus() irctl.HealthStatus {
	h.r.add("health:HealthStatus")
	return irctl.HealthStatus_READY
}

type irNotary struct{ r *ctlRec }

func (n irNotary) ListNotaryRequests() ([]util.Uint256, error) {
	n.r.add("notary:List")
	return nil, nil
}
func (n irNotary) RequestNotary(method string, args ...[]byte) (util.Uint256, error) {
	n.r.add(fmt.Sprintf("notary:Request(%s,%x)", method, args))
	return util.Uint256{}, nil
}
func (n irNotary) SignNotary(h util.Uint256) error {
	n.r.add(fmt.Sprintf("notary:Sign(%x)", h.BytesBE()))
	return nil
}

// generic server stream for streaming control methods (ListObjects)
type ctlStream struct{ r *ctlRec }

func (s *ctlStream) SetHeader(metadata.MD) error  { return nil }
func (s *ctlStream) SendHeader(metadata.MD) error { return nil }
func (s *ctlStream) SetTrailer(metadata.MD)       {}
func (s *ctlStream) Context() context.Context     { return context.Background() }
func (s *ctlStream) RecvMsg(any) error            { return nil }
func (s *ctlStream) SendMsg(any) error {
	s.r.add("stream:SendMsg")
	return nil
}
func (s *ctlStream) Send(*control.ListObjectsResponse) error {
	s.r.add("stream:Send")
	return nil
}

type ctlSigned interface {
	ReadSignedData([]byte) ([]byte, error)
}

type ctlFixture struct {
	srv     any
	rec     *ctlRec
	eng     *engine.StorageEngine
	dir     string
	sign    func(key *keys.PrivateKey, msg any) error
	ifaceT  reflect.Type
	cleanup func()
}

func newCtlFixture(kind string) *ctlFixture {
	rec := &ctlRec{}
	switch kind {
	case "ctl":
		dir := scratchDir("ctl")
		e, _ := newEngine(dir, 1, shardCfg{})
		srv := ctlsrv.New(&ctlServerKey.PrivateKey, [][]byte{ctlAdminKey.PublicKey().Bytes(), ctlAdmin2Key.PublicKey().Bytes()}, ctlHealth{rec}, zap.NewNop())
		srv.MarkReady(e, (*placement.Service)(nil), (*replicator.Replicator)(nil), ctlNodeState{rec})
		return &ctlFixture{srv: srv, rec: rec, eng: e, dir: dir,
			sign: func(k *keys.PrivateKey, m any) error {
				return ctlsrv.SignMessage(&k.PrivateKey, m.(ctlsrv.SignedMessage))
			},
			ifaceT: reflect.TypeOf((*control.ControlServiceServer)(nil)).Elem(),
			cleanup: func() {
				e.Close()
				os.RemoveAll(dir)
			}}
	case "irctl":
		var prm irsrv.Prm
		prm.SetPrivateKey(*ctlServerKey)
		prm.SetHealthChecker(irHealth{rec})
		prm.SetNetworkManager(irNotary{rec})
		srv := irsrv.New(prm, irsrv.WithAllowedKeys([][]byte{ctlAdminKey.PublicKey().Bytes(), ctlAdmin2Key.PublicKey().Bytes()}))
		return &ctlFixture{srv: srv, rec: rec,
			sign: func(k *keys.PrivateKey, m any) error {
				return irsrv.SignMessage(&k.PrivateKey, m.(irsrv.SignedMessage))
			},
			ifaceT:  reflect.TypeOf((*irctl.ControlServiceServer)(nil)).Elem(),
			cleanup: func() {}}
	}
	return nil
}

func ctlMethodNames(kind string) []string {
	f := newCtlFixture(kind)
	defer f.cleanup()
	var r []string
	for i := 0; i < f.ifaceT.NumMethod(); i++ {
		if m := f.ifaceT.Method(i); m.IsExported() {
			r = append(r, m.Name)
		}
	}
	sort.Strings(r)
	return r
}

// ctlBuildRequest makes a zero request of the method's request type with a non-nil body.
func ctlBuildRequest(mt reflect.Type) (req reflect.Value, streaming bool, ok bool) {
	// unary: (ctx, *Req) (*Resp, error); server streaming: (*Req, stream) error
	var rt reflect.Type
	switch {
	case mt.NumIn() == 2 && mt.In(0).String() == "context.Context":
		rt = mt.In(1)
	case mt.NumIn() == 2:
		rt, streaming = mt.In(0), true
	default:
		return req, false, false
	}
	if rt.Kind() != reflect.Ptr || rt.Elem().Kind() != reflect.Struct {
		return req, false, false
	}
	req = reflect.New(rt.Elem())
	if b := req.Elem().FieldByName("Body"); b.IsValid() && b.Kind() == reflect.Ptr {
		b.Set(reflect.New(b.Type().Elem()))
	}
	return req, streaming, true
}

// ctlChangeBody changes one scalar field of the request body (after signing). false: nothing to change.
func ctlChangeBody(req reflect.Value) bool {
	b := req.Elem().FieldByName("Body")
	if !b.IsValid() || b.IsNil() {
		return false
	}
	s := b.Elem()
	for i := 0; i < s.NumField(); i++ {
		f := s.Field(i)
		if !f.CanSet() {
			continue
		}
		switch f.Kind() {
		case reflect.Bool:
			f.SetBool(!f.Bool())
			return true
		case reflect.Int32, reflect.Int64:
			f.SetInt(f.Int() + 1)
			return true
		case reflect.Uint32, reflect.Uint64:
			f.SetUint(f.Uint() + 1)
			return true
		case reflect.String:
			f.SetString(f.String() + "x")
			return true
		case reflect.Slice:
			if f.Type().Elem().Kind() == reflect.Uint8 {
				f.SetBytes(append(f.Bytes(), 7))
				return true
			}
			if f.Type().Elem().Kind() == reflect.Slice && f.Type().Elem().Elem().Kind() == reflect.Uint8 {
				f.Set(reflect.Append(f, reflect.ValueOf([]byte{7})))
				return true
			}
		}
	}
	return false
}

func ctlShardState(e *engine.StorageEngine) string {
	if e == nil {
		return "-"
	}
	var parts []string
	for _, sh := range e.DumpInfo().Shards {
		parts = append(parts, fmt.Sprintf("%v/%d", sh.Mode, sh.ErrorCount))
	}
	sort.Strings(parts)
	return strings.Join(parts, ",")
}

var ctlKinds = []string{"ok", "nosig", "wrongkey", "corrupt", "badsig"}

func ctlGenOps(c *runCtx) []string {
	var ops []string
	for _, kind := range []string{"ctl", "irctl"} {
		for _, h := range ctlMethodNames(kind) {
			for _, k := range ctlKinds {
				ops = append(ops, fmt.Sprintf("rpc %s h=%s sc=%s", kind, h, k))
			}
		}
	}
	return ops
}

func ctlExecLine(c *runCtx, line string, o opLine) {
	kind, h, sc := o.name, o.kv["h"], o.kv["sc"]
	known := false
	for _, k := range ctlKinds {
		known = known || k == sc
	}
	f := newCtlFixture(kind)
	if f == nil || !known {
		c.emit(line, "=> bad-op")
		return
	}
	defer f.cleanup()
	m := reflect.ValueOf(f.srv).MethodByName(h)
	if _, inIface := f.ifaceT.MethodByName(h); !m.IsValid() || !inIface {
		c.emit(line, "=> bad-op")
		return
	}
	req, streaming, ok := ctlBuildRequest(m.Type())
	if !ok {
		c.emit(line, "=> undriven")
		c.oracle("every-control-method-is-driven", false, "method "+h+" of "+kind+" has a shape harness/eng_rpc_ctl.go cannot call")
		return
	}
	var err error
	switch sc {
	case "ok":
		err = f.sign(ctlAdminKey, req.Interface())
	case "wrongkey":
		err = f.sign(ctlOtherKey, req.Interface())
	case "corrupt":
		err = f.sign(ctlAdminKey, req.Interface())
		if err == nil && !ctlChangeBody(req) {
			// a body without fields: sign a different message type's bytes instead (signature over other data)
			sigF := req.MethodByName("GetSignature").Call(nil)[0]
			if !sigF.IsNil() {
				sg := sigF.Elem().FieldByName("Sign")
				b := append([]byte(nil), sg.Bytes()...)
				b[len(b)/3] ^= 0x11
				sg.SetBytes(b)
			}
		}
	case "badsig":
		err = f.sign(ctlAdminKey, req.Interface())
		if err == nil {
			sg := req.MethodByName("GetSignature").Call(nil)[0].Elem().FieldByName("Sign")
			b := append([]byte(nil), sg.Bytes()...)
			b[len(b)/2] ^= 0x40
			sg.SetBytes(b)
		}
	case "nosig":
	}
	if err != nil {
		panic("signing control request: " + err.Error())
	}
	before := ctlShardState(f.eng)
	var callErr error
	panicked := ""
	func() {
		defer func() {
			if p := recover(); p != nil {
				panicked = fmt.Sprint(p)
			}
		}()
		var out []reflect.Value
		if streaming {
			out = m.Call([]reflect.Value{req, reflect.ValueOf(&ctlStream{f.rec})})
		} else {
			out = m.Call([]reflect.Value{reflect.ValueOf(context.Background()), req})
		}
		if e := out[len(out)-1]; !e.IsNil() {
			callErr = e.Interface().(error)
		}
	}()
	after := ctlShardState(f.eng)
	code := grpccodes.OK
	if callErr != nil {
		code = grpcstatus.Code(callErr)
	}
	denied := panicked == "" && code == grpccodes.PermissionDenied
	desc := fmt.Sprintf("service=%s method=%s request=%s code=%v err=%v panic=%q calls=%v shards=%s->%s", kind, h, sc, code, callErr, clip(panicked), f.rec.snapshot(), before, after)
	c.count("svc:" + kind)
	c.count("sc:" + sc)
	if denied {
		c.emit(line, "=> denied")
	} else {
		c.emit(line, "=> passed")
	}
	if sc == "ok" {
		c.oracle("authorised-request-passes", !denied, desc)
	} else {
		c.oracle("unauthorised-request-is-denied", denied, desc)
		c.oracle("unauthorised-request-has-no-side-effect", len(f.rec.snapshot()) == 0 && before == after && panicked == "", desc)
		if denied && len(f.rec.snapshot()) == 0 {
			c.nontrivial(line)
		}
	}
}
