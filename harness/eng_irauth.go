package main

// Engine "ir", streams of C35 (alphabet authority):
//   ir vote  iridx=I aidx=A n=N nval=V voted=0|1 ferr=0|1   the startup validator vote of the real Server state
//   ir index iridx=I aidx=A ferr=0|1                        IsAlphabet / AlphabetIndex / IsActive getters
//   ir epoch alpha=0|1 changed=0|1 cnrs=K                   NewEpoch notification through the real netmap processor
//   ir tick  alpha=0|1                                      new epoch timer tick through the real netmap processor
//   ir emit  aidx=A n=N nodes=K emission=E                  gas emission through the real alphabet processor
// plus `ir notary …` requests (C34 stream) with ir=0|1 through the real container processor.
// Observation: the chain-mutating morph client calls that were recorded.

import (
	"errors"
	"fmt"
	"math/big"
	"strings"
	"sync"
	"time"

	"github.com/google/uuid"
	"github.com/nspcc-dev/neo-go/pkg/core/state"
	"github.com/nspcc-dev/neo-go/pkg/crypto/keys"
	"github.com/nspcc-dev/neo-go/pkg/neorpc/result"
	"github.com/nspcc-dev/neo-go/pkg/util"
	"github.com/nspcc-dev/neo-go/pkg/vm/stackitem"
	netmaprpc "github.com/nspcc-dev/neofs-contract/rpc/netmap"
	"github.com/nspcc-dev/neofs-node/pkg/innerring"
	alphaproc "github.com/nspcc-dev/neofs-node/pkg/innerring/processors/alphabet"
	nmproc "github.com/nspcc-dev/neofs-node/pkg/innerring/processors/netmap"
	"github.com/nspcc-dev/neofs-node/pkg/morph/client"
	cntcli "github.com/nspcc-dev/neofs-node/pkg/morph/client/container"
	nmcli "github.com/nspcc-dev/neofs-node/pkg/morph/client/netmap"
	"github.com/nspcc-dev/neofs-node/pkg/morph/event"
	netmapEvent "github.com/nspcc-dev/neofs-node/pkg/morph/event/netmap"
	"github.com/nspcc-dev/neofs-sdk-go/netmap"
	"go.uber.org/zap"
)

// authChain is a recording fake of the chain behind a connection-less morph client.
type authChain struct {
	mu       sync.Mutex
	effects  []string
	nodes    int // size of the network map returned by listNodes
	cnrs     int // number of containers returned by the container listing
	voted    bool
	w        *irWorld
	sessions map[uuid.UUID]int
}

func (a *authChain) rec(s string) {
	a.mu.Lock()
	a.effects = append(a.effects, s)
	a.mu.Unlock()
}

func (a *authChain) take() []string {
	a.mu.Lock()
	defer a.mu.Unlock()
	e := a.effects
	a.effects = nil
	return e
}

func authNode(i int) *netmaprpc.NetmapNode2 {
	return &netmaprpc.NetmapNode2{Addresses: []string{fmt.Sprintf("/ip4/10.0.0.%d/tcp/8080", i+1)},
		Attributes: map[string]string{"Idx": fmt.Sprint(i)}, Key: irKey(100 + i).PublicKey(), State: big.NewInt(1)}
}

func (a *authChain) intercept(method string, args ...any) (bool, any, error) {
	switch method {
	case "Invoke", "NotaryInvoke", "NotaryInvokeNotAlpha":
		a.rec(method + ":" + args[1].(string))
		return true, nil, nil
	case "TransferGas", "NotarySignAndInvokeTX", "runAlphabetNotaryScript":
		a.rec(method)
		return true, nil, nil
	case "CalculateNonceAndVUB":
		return true, nil, nil
	case "AccountVote":
		if a.voted {
			return true, irKey(90).PublicKey(), nil
		}
		return true, (*keys.PublicKey)(nil), nil
	case "Call", "InvokeFunction":
		if args[1].(string) == "listNodes" {
			id := uuid.New()
			a.mu.Lock()
			a.sessions[id] = a.nodes
			a.mu.Unlock()
			return true, &result.Invoke{State: "HALT", Session: id,
				Stack: []stackitem.Item{stackitem.NewInterop(result.Iterator{ID: &id})}}, nil
		}
		return true, nil, errors.New("harness: unexpected Call " + args[1].(string))
	case "TraverseIterator":
		a.mu.Lock()
		n := a.sessions[args[0].(uuid.UUID)]
		a.sessions[args[0].(uuid.UUID)] = 0
		a.mu.Unlock()
		var items []stackitem.Item
		for i := 0; i < n; i++ {
			it, err := authNode(i).ToStackItem()
			if err != nil {
				return true, nil, err
			}
			items = append(items, it)
		}
		return true, items, nil
	case "TerminateSession":
		return true, nil, nil
	case "TestInvokeIterator":
		var items []stackitem.Item
		for i := 0; i < a.cnrs; i++ {
			items = append(items, stackitem.NewByteArray(a.w.cnrID[:]))
		}
		return true, items, nil
	case "TestInvoke":
		if args[1].(string) == "getInfo" {
			it, err := irCnrStruct(a.w.cnr).ToStackItem()
			if err != nil {
				return true, nil, err
			}
			return true, []stackitem.Item{it}, nil
		}
	}
	return false, nil, nil
}

type authFetch struct {
	idx  int
	fail bool
	key  *keys.PublicKey
}

func (f authFetch) list() (keys.PublicKeys, error) {
	if f.fail {
		return nil, errors.New("harness: key list is unavailable")
	}
	var ks keys.PublicKeys
	for i := 0; i < 7; i++ {
		if i == f.idx {
			ks = append(ks, f.key)
		} else {
			ks = append(ks, irKey(70+i).PublicKey())
		}
	}
	return ks, nil
}

type authIR struct{ authFetch }

func (f authIR) InnerRingKeys() (keys.PublicKeys, error) { return f.list() }

type authComm struct{ authFetch }

func (f authComm) Committee() (keys.PublicKeys, error) { return f.list() }

type authAlpha struct{ v *bool }

func (s authAlpha) IsAlphabet() bool { return *s.v }

type authIndexer struct{ v *int }

func (s authIndexer) AlphabetIndex() int { return *s.v }

type authEpoch struct{}

func (authEpoch) SetEpochCounter(uint64)       {}
func (authEpoch) EpochCounter() uint64         { return 7 }
func (authEpoch) SetEpochDuration(uint64)      {}
func (authEpoch) EpochDuration() time.Duration { return time.Hour }
func (authEpoch) ResetEpochTimer(uint32) error { return nil }
func (authEpoch) Verify(netmap.NodeInfo) error { return nil }

func authContracts(n int) []util.Uint160 {
	var cs []util.Uint160
	for i := 0; i < n; i++ {
		cs = append(cs, irHash(byte(0x80+9*i)))
	}
	return cs
}

func authNewEpochEvent() event.Event {
	ev, err := netmapEvent.ParseNewEpoch(&state.ContainedNotificationEvent{Container: util.Uint256{1},
		NotificationEvent: state.NotificationEvent{ScriptHash: irContracts[1], Name: "NewEpoch",
			Item: stackitem.NewArray([]stackitem.Item{stackitem.NewBigInteger(big.NewInt(8))})}})
	if err != nil {
		panic(err)
	}
	return ev
}

func authEffects(es []string) string {
	if len(es) == 0 {
		return "-"
	}
	return strings.Join(es, ",")
}

func authNeedsAlphabet(e string) bool { return true }

func irExecOther(c *runCtx, line string, o opLine) {
	c.count(o.name)
	var pend []func()
	orc := func(a string, ok bool, d string) { pend = append(pend, func() { c.oracle(a, ok, d) }) }
	emitObs := func(obs string) {
		c.emit(line, obs)
		for _, f := range pend {
			f()
		}
	}
	need := map[string][]string{"vote": {"iridx", "aidx", "n", "nval", "voted", "ferr"}, "index": {"iridx", "aidx", "ferr"},
		"epoch": {"alpha", "changed", "cnrs"}, "tick": {"alpha"}, "emit": {"aidx", "n", "nodes", "emission"}}[o.name]
	if need == nil {
		emitObs("=> bad-op")
		return
	}
	for _, k := range need {
		if _, ok := o.kv[k]; !ok {
			emitObs("=> bad-op")
			return
		}
	}
	w := irWorldFor(4)
	ch := &authChain{w: w, sessions: map[uuid.UUID]int{}}
	key := irKey(20)
	cli := client.VerifNewInterceptedClient(key, ch.intercept, irNotaryHash, irProxyHash, w.alphabet)
	log := zap.NewNop()
	switch o.name {
	case "vote", "index":
		fail := o.int("ferr") == 1
		n := 4
		if o.name == "vote" {
			n = o.int("n")
			ch.voted = o.int("voted") == 1
		}
		srv := innerring.VerifNewStateServer(log, cli, key.PublicKey(), authContracts(n),
			authIR{authFetch{o.int("iridx"), fail, key.PublicKey()}}, authComm{authFetch{o.int("aidx"), fail, key.PublicKey()}})
		if o.name == "index" {
			ai := srv.AlphabetIndex()
			orc("IsAlphabet-iff-index-in-committee", srv.IsAlphabet() == (!fail && o.int("aidx") >= 0 && o.int("aidx") < 7), line)
			emitObs(fmt.Sprintf("=> ok alpha=%v aidx=%d active=%v", srv.IsAlphabet(), ai, srv.IsActive()))
			return
		}
		var vals keys.PublicKeys
		for i := 0; i < o.int("nval"); i++ {
			vals = append(vals, irKey(90+i).PublicKey())
		}
		isAlpha := srv.IsAlphabet()
		err := srv.VerifStartupVote(vals)
		es := ch.take()
		orc("non-alphabet-node-sends-nothing", isAlpha || len(es) == 0, line+" sent="+authEffects(es))
		if len(es) > 0 {
			c.nontrivial(line)
		}
		st := "ok"
		if err != nil {
			st = "err"
		}
		emitObs(fmt.Sprintf("=> %s invokes=%d", st, len(es)))
	case "epoch", "tick":
		alpha := o.int("alpha") == 1
		ch.nodes = 2
		nc, err := nmcli.NewFromMorph(cli, irContracts[1])
		if err != nil {
			panic(err)
		}
		cc, err := cntcli.NewFromMorph(cli, irContracts[0])
		if err != nil {
			panic(err)
		}
		nop := func(event.Event) {}
		np, err := nmproc.New(&nmproc.Params{Log: log, PoolSize: 1, NetmapClient: nc, EpochTimer: authEpoch{}, EpochState: authEpoch{},
			AlphabetState: authAlpha{&alpha}, ContainerWrapper: cc, AlphabetSyncHandler: nop, NotaryDepositHandler: nop, NodeValidator: authEpoch{}})
		if err != nil {
			panic(err)
		}
		if o.name == "tick" {
			np.HandleNewEpochTick()
		} else {
			if o.int("changed") == 1 {
				ch.nodes = 3
			}
			ch.cnrs = o.int("cnrs")
			ev := authNewEpochEvent()
			hs := np.ListenerNotificationHandlers()
			if len(hs) != 1 {
				panic("netmap processor: expected the NewEpoch notification handler only")
			}
			hs[0].Handler()(ev)
		}
		np.VerifSync()
		es := ch.take()
		orc("non-alphabet-node-sends-nothing", alpha || len(es) == 0, line+" sent="+authEffects(es))
		if len(es) > 0 {
			c.nontrivial(line)
		}
		emitObs(fmt.Sprintf("=> ok effects=%d", len(es)))
	case "emit":
		aidx := o.int("aidx")
		ch.nodes = o.int("nodes")
		nc, err := nmcli.NewFromMorph(cli, irContracts[1])
		if err != nil {
			panic(err)
		}
		ap, err := alphaproc.New(&alphaproc.Params{Log: log, PoolSize: 1, AlphabetContracts: authContracts(o.int("n")), NetmapClient: nc,
			FSChainClient: cli, IRList: authIndexer{&aidx}, StorageEmission: o.u64("emission")})
		if err != nil {
			panic(err)
		}
		ap.HandleGasEmission(authNewEpochEvent())
		ap.VerifSync()
		es := ch.take()
		orc("non-alphabet-node-sends-nothing", aidx >= 0 || len(es) == 0, line+" sent="+authEffects(es))
		if len(es) > 0 {
			c.nontrivial(line)
		}
		emitObs(fmt.Sprintf("=> ok effects=%d", len(es)))
	}
}

func irGenAuth(c *runCtx, run func([]string)) {
	r := c.rng
	var ops []string
	// the whole small table of the index arithmetic
	for iridx := -1; iridx <= 7; iridx++ {
		for aidx := -1; aidx <= 7; aidx++ {
			if iridx > 4 && aidx > 4 && (iridx+aidx)%2 == 0 {
				continue
			}
			for _, ferr := range []int{0, 1} {
				if ferr == 1 && (iridx+aidx)%3 != 0 {
					continue
				}
				ops = append(ops, fmt.Sprintf("ir index iridx=%d aidx=%d ferr=%d", iridx, aidx, ferr))
				for _, n := range []int{0, 1, 4, 7} {
					nval, voted := []int{0, 1, 4}[r.IntN(3)], 0
					if r.IntN(5) == 0 {
						voted = 1
					}
					ops = append(ops, fmt.Sprintf("ir vote iridx=%d aidx=%d n=%d nval=%d voted=%d ferr=%d", iridx, aidx, n, nval, voted, ferr))
				}
			}
		}
	}
	for _, alpha := range []int{0, 1} {
		ops = append(ops, fmt.Sprintf("ir tick alpha=%d", alpha))
		for _, changed := range []int{0, 1} {
			for cnrs := 0; cnrs <= 3; cnrs++ {
				ops = append(ops, fmt.Sprintf("ir epoch alpha=%d changed=%d cnrs=%d", alpha, changed, cnrs))
			}
		}
	}
	for aidx := -1; aidx <= 5; aidx++ {
		for _, n := range []int{0, 1, 4} {
			for _, nodes := range []int{0, 1, 3} {
				for _, em := range []int{0, 2, 9} {
					ops = append(ops, fmt.Sprintf("ir emit aidx=%d n=%d nodes=%d emission=%d", aidx, n, nodes, em))
				}
			}
		}
	}
	// container requests (C34 stream) in alphabet and non-alphabet state
	k := c.n(150, 2000)
	for i := 0; i < k; i++ {
		ir := r.IntN(2)
		first := []int{mCreate, mCreateV2, mRemove, mPutEACL, mCreateV2, mDelete, mSetAttr, mReport}[r.IntN(8)]
		cl := irCall{contract: 0, method: first, args: irCanonArgs(0, first)}
		cl.valid = irCraftable(0, first, cl) && r.IntN(5) > 0
		line := fmt.Sprintf("ir notary alpha=4 ir=%d w=0,1,0 s=0,1,2 a=104 fa=3,1,2 nvb=100 h=50 local=0 dup=0 tail=0 c1=%s", ir, irCallStr(cl))
		if first == mCreateV2 && r.IntN(2) == 0 {
			c2 := irCall{contract: 0, method: mPutEACL, args: []int{akBytes, akBytes, akBytes, akBytes}}
			c2.valid = r.IntN(5) > 0
			line += " c2=" + irCallStr(c2)
		}
		ops = append(ops, line)
	}
	r.Shuffle(len(ops), func(i, j int) { ops[i], ops[j] = ops[j], ops[i] })
	run(ops)
	// node lives over the caching indexer (stateful sequences)
	irGenIndexer(c, run)
}
