package main

// Engine `rpc` (C29, C45): the REAL object service server (pkg/services/object.Server) is built over recording
// fakes of all of its dependencies and every handler is driven with requests that are fine, have a broken
// signature, arrive in maintenance, carry a token the verifier refuses, fail request-to-info, basic ACL, the
// sticky bit or the extended ACL. The observation is whether the request was refused (no fake was touched and
// an error status came back) or served. The model side answers the same line from the REGENERATED skeleton
// of the handler (Gen/Handlers.lean): does forcing that check to fail cut off every effect?
//
// The handler set is enumerated by reflection (methods of protoobject.ObjectServiceServer plus exported
// methods of the server with the same parameter list), like the translator does from source; a handler this
// file cannot build a request for is an oracle failure, so a new RPC cannot slip through unexercised.

import (
	"context"
	"crypto/ecdsa"
	"errors"
	"fmt"
	"io"
	"reflect"
	"sort"
	"strings"
	"time"

	"github.com/nspcc-dev/neo-go/pkg/core/block"
	"github.com/nspcc-dev/neo-go/pkg/core/transaction"
	"github.com/nspcc-dev/neo-go/pkg/crypto/keys"
	"github.com/nspcc-dev/neo-go/pkg/neorpc/result"
	"github.com/nspcc-dev/neo-go/pkg/smartcontract/trigger"
	clientcore "github.com/nspcc-dev/neofs-node/pkg/core/client"
	objectcore "github.com/nspcc-dev/neofs-node/pkg/core/object"
	objectsvc "github.com/nspcc-dev/neofs-node/pkg/services/object"
	aclsvc "github.com/nspcc-dev/neofs-node/pkg/services/object/acl/v2"
	"github.com/nspcc-dev/neofs-node/pkg/services/object/common"
	deletesvc "github.com/nspcc-dev/neofs-node/pkg/services/object/delete"
	getsvc "github.com/nspcc-dev/neofs-node/pkg/services/object/get"
	putsvc "github.com/nspcc-dev/neofs-node/pkg/services/object/put"
	"github.com/nspcc-dev/neofs-node/pkg/util/verifbridge"
	"github.com/nspcc-dev/neofs-sdk-go/bearer"
	"github.com/nspcc-dev/neofs-sdk-go/client"
	apistatus "github.com/nspcc-dev/neofs-sdk-go/client/status"
	"github.com/nspcc-dev/neofs-sdk-go/container"
	"github.com/nspcc-dev/neofs-sdk-go/container/acl"
	cid "github.com/nspcc-dev/neofs-sdk-go/container/id"
	neofscrypto "github.com/nspcc-dev/neofs-sdk-go/crypto"
	neofsecdsa "github.com/nspcc-dev/neofs-sdk-go/crypto/ecdsa"
	"github.com/nspcc-dev/neofs-sdk-go/netmap"
	"github.com/nspcc-dev/neofs-sdk-go/object"
	oid "github.com/nspcc-dev/neofs-sdk-go/object/id"
	protoacl "github.com/nspcc-dev/neofs-sdk-go/proto/acl"
	protoobject "github.com/nspcc-dev/neofs-sdk-go/proto/object"
	"github.com/nspcc-dev/neofs-sdk-go/proto/refs"
	protosession "github.com/nspcc-dev/neofs-sdk-go/proto/session"
	"github.com/nspcc-dev/neofs-sdk-go/session"
	sessionv2 "github.com/nspcc-dev/neofs-sdk-go/session/v2"
	"github.com/nspcc-dev/neofs-sdk-go/stat"
	"github.com/nspcc-dev/neofs-sdk-go/user"
	"go.uber.org/zap"
	grpccodes "google.golang.org/grpc/codes"
	"google.golang.org/grpc/mem"
	"google.golang.org/grpc/metadata"
	grpcstatus "google.golang.org/grpc/status"
)

func init() {
	run := seqRunner{gen: rpcGen, exec: rpcExec}.engine()
	engines["rpc"] = func(c *runCtx) error {
		defer relayCloseWorld() // the storage engine behind the `relay` ops lives for one run
		return run(c)
	}
}

// ---------------------------------------------------------------- recording fakes

type rpcRec struct {
	effects []string // storage:*, forward:*, data:* — anything the property forbids for a refused request
	checks  []string // which checks were consulted (for the C45 "does not consult" oracle)
	neutral []string
}

func (r *rpcRec) eff(s string)  { r.effects = append(r.effects, s) }
func (r *rpcRec) chk(s string)  { r.checks = append(r.checks, s) }
func (r *rpcRec) note(s string) { r.neutral = append(r.neutral, s) }

type rpcCfg struct {
	maint      bool
	tokenErr   error
	infoErr    error
	basicOK    bool
	stickyOK   bool
	eaclErr    error
	cnrSrvErr  error
	cnrCliErr  error
	serverKey  []byte
	clientKey  []byte
	clientInCn bool
	// selfNodeSet: the container consists of the local node only (search with TTL > 1 then stays local)
	selfNodeSet bool
}

type rpcHandlers struct{ r *rpcRec }

func (h rpcHandlers) Get(context.Context, getsvc.Prm) error { h.r.eff("storage:Get"); return nil }
func (h rpcHandlers) Put(context.Context) (*putsvc.Streamer, error) {
	h.r.note("put-stream-open")
	return new(putsvc.Streamer), nil
}
func (h rpcHandlers) Head(context.Context, getsvc.HeadPrm) error { h.r.eff("storage:Head"); return nil }
func (h rpcHandlers) Delete(context.Context, deletesvc.Prm) error {
	h.r.eff("storage:Delete")
	return nil
}
func (h rpcHandlers) GetRange(context.Context, getsvc.RangePrm) error {
	h.r.eff("storage:GetRange")
	return nil
}

type rpcFSChain struct {
	r *rpcRec
	c *rpcCfg
}

func (f rpcFSChain) Get(cid.ID) (container.Container, error) { return container.Container{}, nil }
func (f rpcFSChain) CurrentEpoch() uint64                    { return 10 }
func (f rpcFSChain) CurrentBlock() uint32                    { return 100 }
func (f rpcFSChain) CurrentEpochDuration() uint64            { return 240 }
func (f rpcFSChain) InvokeContainedScript(*transaction.Transaction, *block.Header, *trigger.Type, *bool) (*result.Invoke, error) {
	return nil, errors.New("no N3 witnesses in this harness")
}
func (f rpcFSChain) ForEachContainerNodePublicKey(_ cid.ID, fn func([]byte) bool) error {
	f.r.chk("cnrSrv")
	if f.c.cnrSrvErr != nil {
		return f.c.cnrSrvErr
	}
	if f.c.clientInCn && !fn(f.c.clientKey) {
		return nil
	}
	fn(f.c.serverKey)
	return nil
}
func (f rpcFSChain) ForEachContainerNodePublicKeyInLastTwoEpochs(_ cid.ID, fn func([]byte) bool) error {
	f.r.chk("cnrCli")
	if f.c.cnrCliErr != nil {
		return f.c.cnrCliErr
	}
	if f.c.clientInCn && !fn(f.c.clientKey) {
		return nil
	}
	fn(f.c.serverKey)
	return nil
}
func (f rpcFSChain) SelectContainerNodes(cid.ID) ([][]netmap.NodeInfo, []uint, []verifbridge.ECRule, error) {
	if f.c.selfNodeSet {
		var self netmap.NodeInfo
		self.SetPublicKey(f.c.serverKey)
		return [][]netmap.NodeInfo{{self}}, []uint{1}, nil, nil
	}
	return nil, nil, nil, nil
}
func (f rpcFSChain) IsOwnPublicKey(k []byte) bool { return string(k) == string(f.c.serverKey) }
func (f rpcFSChain) LocalNodeUnderMaintenance() bool {
	f.r.chk("maint")
	return f.c.maint
}

type rpcStorage struct{ r *rpcRec }

func (s rpcStorage) GetSessionPrivateKey(user.ID) (ecdsa.PrivateKey, error) {
	s.r.eff("storage:GetSessionPrivateKey")
	return ecdsa.PrivateKey{}, apistatus.ErrSessionTokenNotFound
}
func (s rpcStorage) GetSessionV2PrivateKey([]sessionv2.Target) (ecdsa.PrivateKey, error) {
	s.r.eff("storage:GetSessionV2PrivateKey")
	return ecdsa.PrivateKey{}, apistatus.ErrSessionTokenNotFound
}
func (s rpcStorage) VerifyAndStoreObjectLocally(context.Context, object.Object) error {
	s.r.eff("storage:VerifyAndStoreObjectLocally")
	return nil
}
func (s rpcStorage) SearchObjects(context.Context, cid.ID, []objectcore.SearchFilter, []string, *objectcore.SearchCursor, uint16) ([]client.SearchResultItem, []byte, error) {
	s.r.eff("storage:SearchObjects")
	return nil, nil, nil
}

type rpcMetrics struct{}

func (rpcMetrics) HandleOpExecResult(stat.Method, bool, time.Duration) {}
func (rpcMetrics) AddPutPayload(int)                                   {}
func (rpcMetrics) AddGetPayload(int)                                   {}

type rpcACL struct {
	r *rpcRec
	c *rpcCfg
}

func (a rpcACL) CheckBasicACL(aclsvc.RequestInfo) bool { a.r.chk("basic"); return a.c.basicOK }
func (a rpcACL) CheckEACL(context.Context, any, cid.ID, oid.ID, aclsvc.RequestInfo) error {
	a.r.chk("eacl")
	return a.c.eaclErr
}
func (a rpcACL) StickyBitCheck(aclsvc.RequestInfo, user.ID) bool {
	a.r.chk("sticky")
	return a.c.stickyOK
}

type rpcInfo struct {
	r *rpcRec
	c *rpcCfg
}

func (i rpcInfo) info() (aclsvc.RequestInfo, error) {
	i.r.chk("reqInfo")
	return aclsvc.RequestInfo{}, i.c.infoErr
}
func (i rpcInfo) PutRequestToInfo(context.Context, *protoobject.PutRequest, *protoobject.PutRequest_Body_Init, cid.ID, acl.Op, common.RequestTokens) (aclsvc.RequestInfo, user.ID, error) {
	ri, err := i.info()
	return ri, user.ID{}, err
}
func (i rpcInfo) DeleteRequestToInfo(context.Context, *protoobject.DeleteRequest, cid.ID, common.RequestTokens) (aclsvc.RequestInfo, error) {
	return i.info()
}
func (i rpcInfo) HeadRequestToInfo(context.Context, *protoobject.HeadRequest, cid.ID, common.RequestTokens) (aclsvc.RequestInfo, error) {
	return i.info()
}
func (i rpcInfo) GetRequestToInfo(context.Context, *protoobject.GetRequest, cid.ID, common.RequestTokens) (aclsvc.RequestInfo, error) {
	return i.info()
}
func (i rpcInfo) RangeRequestToInfo(context.Context, *protoobject.GetRangeRequest, cid.ID, common.RequestTokens) (aclsvc.RequestInfo, error) {
	return i.info()
}
func (i rpcInfo) SearchV2RequestToInfo(context.Context, *protoobject.SearchV2Request, cid.ID, common.RequestTokens) (aclsvc.RequestInfo, error) {
	return i.info()
}
func (i rpcInfo) VerifySessionTokenMessage(*protosession.SessionTokenV2, sessionv2.Verb, cid.ID) (sessionv2.Token, error) {
	i.r.chk("token")
	return sessionv2.Token{}, i.c.tokenErr
}
func (i rpcInfo) VerifySessionV1TokenMessage(*protosession.SessionToken, session.ObjectVerb, cid.ID, oid.ID) (session.Object, error) {
	i.r.chk("token")
	return session.Object{}, i.c.tokenErr
}
func (i rpcInfo) VerifyBearerTokenMessage(*protoacl.BearerToken) (bearer.Token, error) {
	i.r.chk("token")
	return bearer.Token{}, i.c.tokenErr
}

type rpcClients struct{ r *rpcRec }

func (c rpcClients) Get(context.Context, netmap.NodeInfo) (clientcore.MultiAddressClient, error) {
	c.r.eff("forward:client")
	return nil, errors.New("no remote nodes in this harness")
}

// response streams: anything carrying more than a status is a data effect
type rpcStream struct {
	r     *rpcRec
	codes []uint32
	ctx   context.Context // nil = a plain connection
}

func (s *rpcStream) SetHeader(metadata.MD) error  { return nil }
func (s *rpcStream) SendHeader(metadata.MD) error { return nil }
func (s *rpcStream) SetTrailer(metadata.MD)       {}
func (s *rpcStream) Context() context.Context {
	if s.ctx != nil {
		return s.ctx
	}
	return context.Background()
}
func (s *rpcStream) RecvMsg(any) error { return io.EOF }
func (s *rpcStream) SendMsg(m any) error {
	s.r.eff(fmt.Sprintf("data:SendMsg(%T)", m))
	return nil
}

type rpcGetStream struct{ rpcStream }

func (s *rpcGetStream) Send(m *protoobject.GetResponse) error {
	if m.GetBody() != nil {
		s.r.eff("data:GetResponse.Body")
	}
	s.codes = append(s.codes, m.GetMetaHeader().GetStatus().GetCode())
	return nil
}

type rpcRangeStream struct{ rpcStream }

func (s *rpcRangeStream) Send(m *protoobject.GetRangeResponse) error {
	if m.GetBody() != nil {
		s.r.eff("data:GetRangeResponse.Body")
	}
	s.codes = append(s.codes, m.GetMetaHeader().GetStatus().GetCode())
	return nil
}

type rpcSearchStream struct{ rpcStream }

func (s *rpcSearchStream) Send(m *protoobject.SearchResponse) error {
	if m.GetBody() != nil {
		s.r.eff("data:SearchResponse.Body")
	}
	s.codes = append(s.codes, m.GetMetaHeader().GetStatus().GetCode())
	return nil
}

type rpcPutStream struct {
	rpcStream
	reqs []*protoobject.PutRequest
	pos  int
}

func (s *rpcPutStream) Recv() (*protoobject.PutRequest, error) {
	if s.pos >= len(s.reqs) {
		return nil, io.EOF
	}
	s.pos++
	return s.reqs[s.pos-1], nil
}
func (s *rpcPutStream) SendAndClose(m *protoobject.PutResponse) error {
	if m.GetBody() != nil {
		s.r.eff("data:PutResponse.Body")
	}
	s.codes = append(s.codes, m.GetMetaHeader().GetStatus().GetCode())
	return nil
}

// ---------------------------------------------------------------- requests

var (
	rpcServerKey = mustKey(0x51)
	rpcClientKey = mustKey(0x52)
)

func mustKey(b byte) *keys.PrivateKey {
	raw := make([]byte, 32)
	raw[31] = b
	raw[0] = 1
	k, err := keys.NewPrivateKeyFromBytes(raw)
	if err != nil {
		panic(err)
	}
	return k
}

func rpcSigner() neofscrypto.Signer { return neofsecdsa.Signer(rpcClientKey.PrivateKey) }

func rpcAddr() *refs.Address {
	return &refs.Address{ContainerId: numCID(1).ProtoMessage(), ObjectId: numOID(7).ProtoMessage()}
}

// rpcMeta builds the request meta header of a variant: 0 ttl=2, 1 ttl=1, 2 session v2 token, 3 bearer token,
// 4 session v1 token + bearer token. Token CONTENTS are irrelevant here: the token verifier is a fake.
func rpcMeta(v int, needToken bool) *protosession.RequestMetaHeader {
	m := &protosession.RequestMetaHeader{Ttl: 2}
	if needToken && v < 2 {
		v = 2 + v
	}
	switch v {
	case 1:
		m.Ttl = 1
	case 2:
		m.SessionTokenV2 = &protosession.SessionTokenV2{}
	case 3:
		m.BearerToken = &protoacl.BearerToken{}
	case 4:
		m.SessionToken = &protosession.SessionToken{}
		m.BearerToken = &protoacl.BearerToken{}
	}
	return m
}

type rpcScenario struct {
	name     string
	forced   string // what the model forces: tag=outcome list
	apply    func(c *rpcCfg)
	badSig   int // 0 good, 1 corrupted after signing, 2 no verification header
	token    bool
	wantCode string
	onlyPut  bool
	onlyRepl bool
	// chunkFirst: the PUT stream starts with a payload chunk. The handler hands it to the Streamer, which is
	// ASSUMED (C29's putCont policy) to refuse chunks before a successful Init; this scenario exercises that.
	chunkFirst bool
	notRepl    bool
}

var errAnyACL = errors.New("denied by a rule")

var rpcScenarios = []rpcScenario{
	{name: "ok"},
	{name: "eaclsoft", apply: func(c *rpcCfg) { c.eaclErr = aclsvc.ErrNotMatched }},
	{name: "sig", badSig: 1, wantCode: "signature", notRepl: true},
	{name: "nosig", badSig: 2, wantCode: "signature", notRepl: true},
	{name: "maint", apply: func(c *rpcCfg) { c.maint = true }, wantCode: "maintenance"},
	{name: "token", token: true, apply: func(c *rpcCfg) { c.tokenErr = apistatus.ErrSessionTokenExpired }, wantCode: "token", notRepl: true},
	{name: "tokenbad", token: true, apply: func(c *rpcCfg) { c.tokenErr = errors.New("malformed token") }, wantCode: "badrequest", notRepl: true},
	{name: "reqinfo", apply: func(c *rpcCfg) { c.infoErr = errors.New("cannot classify the sender") }, wantCode: "badrequest", notRepl: true},
	{name: "reqinfocnr", apply: func(c *rpcCfg) { c.infoErr = apistatus.ErrContainerNotFound }, wantCode: "container", notRepl: true},
	{name: "basic", apply: func(c *rpcCfg) { c.basicOK = false }, wantCode: "denied", notRepl: true},
	{name: "eacl", apply: func(c *rpcCfg) { c.eaclErr = errAnyACL }, wantCode: "denied", notRepl: true},
	{name: "sticky", apply: func(c *rpcCfg) { c.stickyOK = false }, wantCode: "denied", onlyPut: true},
	{name: "skip", apply: func(c *rpcCfg) { c.infoErr = aclsvc.ErrSkipRequest; c.basicOK = false }, onlyPut: true},
	{name: "objsig", badSig: 1, wantCode: "badrequest", onlyRepl: true},
	{name: "cnrsrv", apply: func(c *rpcCfg) { c.cnrSrvErr = errors.New("no network map") }, wantCode: "internal", onlyRepl: true},
	{name: "cnrcli", apply: func(c *rpcCfg) { c.cnrCliErr = apistatus.ErrContainerNotFound }, wantCode: "container", onlyRepl: true},
	{name: "chunkfirst", onlyPut: true, chunkFirst: true},
}

func rpcScenarioByName(n string) *rpcScenario {
	for i := range rpcScenarios {
		if rpcScenarios[i].name == n {
			return &rpcScenarios[i]
		}
	}
	return nil
}

func codeClass(code uint32) string {
	switch {
	case code == 0:
		return "ok"
	case code == 1024:
		return "internal"
	case code == 1028:
		return "badrequest"
	case code == 1026:
		return "signature"
	case code == 1027:
		return "maintenance"
	case code == 2048:
		return "denied"
	case code >= 3072 && code < 4096:
		return "container"
	case code >= 4096 && code < 5120:
		return "token"
	}
	return fmt.Sprintf("code%d", code)
}

func corrupt(vh *protosession.RequestVerificationHeader) {
	if vh != nil && vh.BodySignature != nil && len(vh.BodySignature.Sign) > 0 {
		s := append([]byte(nil), vh.BodySignature.Sign...)
		s[len(s)/2] ^= 0x40
		vh.BodySignature.Sign = s
	}
}

type rpcResult struct {
	codes    []uint32
	err      error
	panicked string
}

// rpcInvoke builds the request of handler h for the scenario/variant, calls the REAL handler and returns what
// came back. ok=false: this file does not know how to drive the handler.
func rpcInvoke(srv *objectsvc.Server, rec *rpcRec, h string, sc *rpcScenario, v int) (res rpcResult, known bool) {
	known = true
	defer func() {
		if p := recover(); p != nil {
			res.panicked = fmt.Sprint(p)
		}
	}()
	meta := rpcMeta(v, sc.token)
	sign := func(vh **protosession.RequestVerificationHeader, f func() (*protosession.RequestVerificationHeader, error)) {
		if sc.badSig == 2 {
			return
		}
		x, err := f()
		if err != nil {
			panic("signing: " + err.Error())
		}
		if sc.badSig == 1 {
			corrupt(x)
		}
		*vh = x
	}
	ctx := context.Background()
	fromAny := func(r any) {
		switch m := r.(type) {
		case *protoobject.HeadResponse:
			res.codes = append(res.codes, m.GetMetaHeader().GetStatus().GetCode())
			if m.GetBody() != nil {
				rec.note("head-body")
			}
		case *protoobject.SearchV2Response:
			res.codes = append(res.codes, m.GetMetaHeader().GetStatus().GetCode())
		case mem.BufferSlice, mem.Buffer:
			res.codes = append(res.codes, 0)
		default:
			if b, ok := r.(interface{ Free() }); ok { // pooled response buffer
				_ = b
				res.codes = append(res.codes, 0)
				return
			}
			panic(fmt.Sprintf("unexpected response type %T", r))
		}
	}
	switch h {
	case "Get":
		req := &protoobject.GetRequest{Body: &protoobject.GetRequest_Body{Address: rpcAddr(), Raw: v%2 == 1}, MetaHeader: meta}
		sign(&req.VerifyHeader, func() (*protosession.RequestVerificationHeader, error) {
			return neofscrypto.SignRequestWithBuffer(rpcSigner(), req, nil)
		})
		st := &rpcGetStream{rpcStream{r: rec}}
		res.err = srv.Get(req, st)
		res.codes = st.codes
	case "GetRange":
		req := &protoobject.GetRangeRequest{Body: &protoobject.GetRangeRequest_Body{Address: rpcAddr(), Range: &protoobject.Range{Offset: uint64(v), Length: 8}}, MetaHeader: meta}
		sign(&req.VerifyHeader, func() (*protosession.RequestVerificationHeader, error) {
			return neofscrypto.SignRequestWithBuffer(rpcSigner(), req, nil)
		})
		st := &rpcRangeStream{rpcStream{r: rec}}
		res.err = srv.GetRange(req, st)
		res.codes = st.codes
	case "Head", "HeadBuffered":
		req := &protoobject.HeadRequest{Body: &protoobject.HeadRequest_Body{Address: rpcAddr(), Raw: v%2 == 1}, MetaHeader: meta}
		sign(&req.VerifyHeader, func() (*protosession.RequestVerificationHeader, error) {
			return neofscrypto.SignRequestWithBuffer(rpcSigner(), req, nil)
		})
		if h == "Head" {
			r, err := srv.Head(ctx, req)
			res.err = err
			if r != nil {
				fromAny(r)
			}
		} else {
			fromAny(srv.HeadBuffered(ctx, req))
		}
	case "Delete":
		req := &protoobject.DeleteRequest{Body: &protoobject.DeleteRequest_Body{Address: rpcAddr()}, MetaHeader: meta}
		sign(&req.VerifyHeader, func() (*protosession.RequestVerificationHeader, error) {
			return neofscrypto.SignRequestWithBuffer(rpcSigner(), req, nil)
		})
		r, err := srv.Delete(ctx, req)
		res.err = err
		if r != nil {
			res.codes = append(res.codes, r.GetMetaHeader().GetStatus().GetCode())
		}
	case "SearchV2", "SearchV2Buffered":
		req := &protoobject.SearchV2Request{Body: &protoobject.SearchV2Request_Body{ContainerId: numCID(1).ProtoMessage(), Version: 1, Count: uint32(1 + v)}, MetaHeader: meta}
		if meta.Ttl != 1 {
			meta.Ttl = 1 // keep the search local: remote search needs a network map
		}
		sign(&req.VerifyHeader, func() (*protosession.RequestVerificationHeader, error) {
			return neofscrypto.SignRequestWithBuffer(rpcSigner(), req, nil)
		})
		if h == "SearchV2" {
			r, err := srv.SearchV2(ctx, req)
			res.err = err
			if r != nil {
				fromAny(r)
			}
		} else {
			fromAny(srv.SearchV2Buffered(ctx, req))
		}
	case "Search":
		req := &protoobject.SearchRequest{Body: &protoobject.SearchRequest_Body{ContainerId: numCID(1).ProtoMessage(), Version: 1}, MetaHeader: meta}
		sign(&req.VerifyHeader, func() (*protosession.RequestVerificationHeader, error) {
			return neofscrypto.SignRequestWithBuffer(rpcSigner(), req, nil)
		})
		st := &rpcSearchStream{rpcStream{r: rec}}
		res.err = srv.Search(req, st)
		res.codes = st.codes
	case "GetRangeHash":
		req := &protoobject.GetRangeHashRequest{Body: &protoobject.GetRangeHashRequest_Body{Address: rpcAddr()}, MetaHeader: meta}
		sign(&req.VerifyHeader, func() (*protosession.RequestVerificationHeader, error) {
			return neofscrypto.SignRequestWithBuffer(rpcSigner(), req, nil)
		})
		r, err := srv.GetRangeHash(ctx, req)
		res.err = err
		if r != nil {
			res.codes = append(res.codes, r.GetMetaHeader().GetStatus().GetCode())
		}
	case "Put":
		obj := mkObject(1, 7, detPayload(16, 3))
		if v%2 == 1 {
			obj = mkObject(1, 7, nil)
			obj.SetType(object.TypeTombstone)
		}
		mo := obj.ProtoMessage()
		initReq := &protoobject.PutRequest{Body: &protoobject.PutRequest_Body{ObjectPart: &protoobject.PutRequest_Body_Init_{
			Init: &protoobject.PutRequest_Body_Init{ObjectId: mo.ObjectId, Signature: mo.Signature, Header: mo.Header}}}, MetaHeader: meta}
		sign(&initReq.VerifyHeader, func() (*protosession.RequestVerificationHeader, error) {
			return neofscrypto.SignRequestWithBuffer(rpcSigner(), initReq, nil)
		})
		reqs := []*protoobject.PutRequest{initReq}
		if v >= 2 || sc.chunkFirst {
			ch := &protoobject.PutRequest{Body: &protoobject.PutRequest_Body{ObjectPart: &protoobject.PutRequest_Body_Chunk{Chunk: []byte{1, 2, 3}}}, MetaHeader: rpcMeta(0, false)}
			x, err := neofscrypto.SignRequestWithBuffer(rpcSigner(), ch, nil)
			if err != nil {
				panic(err)
			}
			ch.VerifyHeader = x
			if sc.chunkFirst { // the stream was never initialised
				reqs = []*protoobject.PutRequest{ch, initReq}
			} else {
				reqs = append(reqs, ch)
			}
		}
		st := &rpcPutStream{rpcStream: rpcStream{r: rec}, reqs: reqs}
		res.err = srv.Put(st)
		res.codes = st.codes
	case "Replicate":
		obj := mkObject(1, 7, detPayload(16, 3))
		id := obj.GetID()
		sig, err := rpcSigner().Sign(id[:])
		if err != nil {
			panic(err)
		}
		if sc.badSig == 1 {
			sig[len(sig)/2] ^= 0x40
		}
		req := &protoobject.ReplicateRequest{Object: obj.ProtoMessage(), Signature: &refs.Signature{
			Key: neofscrypto.PublicKeyBytes(rpcSigner().Public()), Sign: sig, Scheme: refs.SignatureScheme_ECDSA_SHA512}}
		r, err := srv.Replicate(ctx, req)
		res.err = err
		if r != nil {
			res.codes = append(res.codes, r.GetStatus().GetCode())
		}
	default:
		return res, false
	}
	return res, true
}

func rpcNewServer() (*objectsvc.Server, *rpcRec, *rpcCfg) {
	rec := &rpcRec{}
	cfg := &rpcCfg{basicOK: true, stickyOK: true, clientInCn: true,
		serverKey: rpcServerKey.PublicKey().Bytes(), clientKey: neofscrypto.PublicKeyBytes(rpcSigner().Public())}
	srv := objectsvc.New(rpcHandlers{rec}, rpcFSChain{rec, cfg}, rpcStorage{rec}, nil, rpcServerKey.PrivateKey, rpcMetrics{},
		rpcACL{rec, cfg}, rpcInfo{rec, cfg}, rpcClients{rec}, zap.NewNop())
	return srv, rec, cfg
}

// rpcHandlerNames enumerates the handlers the way the translator does, but by reflection on the built server.
func rpcHandlerNames() []string {
	it := reflect.TypeOf((*protoobject.ObjectServiceServer)(nil)).Elem()
	srv, _, _ := rpcNewServer()
	st := reflect.TypeOf(srv)
	seen := map[string]bool{}
	for i := 0; i < it.NumMethod(); i++ {
		if m := it.Method(i); m.IsExported() {
			seen[m.Name] = true
		}
	}
	for i := 0; i < st.NumMethod(); i++ {
		m := st.Method(i)
		for j := 0; j < it.NumMethod(); j++ {
			im := it.Method(j).Type
			if m.Type.NumIn()-1 != im.NumIn() || im.NumIn() == 0 {
				continue
			}
			same := true
			for k := 0; k < im.NumIn(); k++ {
				same = same && m.Type.In(k+1) == im.In(k)
			}
			if same {
				seen[m.Name] = true
			}
		}
	}
	var r []string
	for n := range seen {
		r = append(r, n)
	}
	sort.Strings(r)
	return r
}

var rpcClientOps = map[string]bool{"Get": true, "Head": true, "HeadBuffered": true, "GetRange": true, "Put": true, "Delete": true,
	"SearchV2": true, "SearchV2Buffered": true, "Search": true, "GetRangeHash": true}

func rpcGen(c *runCtx, run func([]string)) {
	if c.prop == "C32" {
		ops := ctlGenOps(c)
		ops = append(ops, craceGen(c)...) // one server, many requests in flight (eng_rpc_ctlrace.go)
		c.rng.Shuffle(len(ops), func(i, j int) { ops[i], ops[j] = ops[j], ops[i] })
		run(ops)
		return
	}
	var ops []string
	nv := c.n(5, 5)
	if nv > 5 {
		nv = 5
	}
	for _, h := range rpcHandlerNames() {
		for i := range rpcScenarios {
			sc := &rpcScenarios[i]
			if sc.onlyPut && h != "Put" || sc.onlyRepl && h != "Replicate" || sc.notRepl && h == "Replicate" {
				continue
			}
			for v := 0; v < nv; v++ {
				ops = append(ops, fmt.Sprintf("rpc obj h=%s sc=%s v=%d", h, sc.name, v))
			}
		}
	}
	if c.prop == "C29" || c.prop == "" {
		// who is the request authenticated as (TLS peer / verification header), and the header-time eACL re-check of GET
		ops = append(ops, rpcAuthGen()...)
		ops = append(ops, rpcRelayGen(c)...)
	}
	c.rng.Shuffle(len(ops), func(i, j int) { ops[i], ops[j] = ops[j], ops[i] })
	run(ops)
}

func rpcExec(c *runCtx, ops []string) {
	c.independent = true
	for _, line := range ops {
		o := parseOp(line)
		if o.name != "obj" {
			if o.name == "ctl" || o.name == "irctl" {
				ctlExecLine(c, line, o)
				continue
			}
			if o.name == "crace" {
				craceExec(c, line, o)
				continue
			}
			if o.name == "auth" {
				rpcAuthExec(c, line, o)
				continue
			}
			if o.name == "relay" {
				rpcRelayExec(c, line, o)
				continue
			}
			c.emit(line, "=> bad-op")
			continue
		}
		h, sc := o.kv["h"], rpcScenarioByName(o.kv["sc"])
		if sc == nil {
			c.emit(line, "=> bad-op")
			continue
		}
		isHandler := false
		for _, n := range rpcHandlerNames() {
			isHandler = isHandler || n == h
		}
		if !isHandler || o.kv["v"] == "" {
			c.emit(line, "=> bad-op")
			continue
		}
		v := o.int("v")
		srv, rec, cfg := rpcNewServer()
		if sc.apply != nil {
			sc.apply(cfg)
		}
		res, known := rpcInvoke(srv, rec, h, sc, v)
		c.count("h:" + h)
		c.count("sc:" + sc.name)
		if !known {
			c.emit(line, "=> undriven")
			c.oracle("every-handler-is-driven", false, "handler "+h+" of ObjectServiceServer has no request builder in harness/eng_rpc.go")
			continue
		}
		// a recovered panic inside the zero putsvc.Streamer means the handler went on to initialise the stream
		effects := append([]string(nil), rec.effects...)
		if res.panicked != "" && h == "Put" && strings.Contains(res.panicked, "nil pointer") {
			effects = append(effects, "storage:PutInit")
		}
		stub := false
		if res.panicked != "" && strings.Contains(res.panicked, "must not be called") {
			stub = true
		}
		if res.err != nil && grpcstatus.Code(res.err) == grpccodes.Unimplemented {
			stub = true
		}
		class := "none"
		if len(res.codes) > 0 {
			class = codeClass(res.codes[len(res.codes)-1])
		}
		desc := fmt.Sprintf("handler=%s scenario=%s variant=%d effects=%v checks=%v codes=%v err=%v panic=%q", h, sc.name, v, effects, rec.checks, res.codes, res.err, res.panicked)
		served := len(effects) > 0
		var obs string
		switch {
		case stub:
			obs = "=> refused st=stub"
		case served:
			obs = "=> served"
		default:
			obs = "=> refused st=" + class
		}
		c.count("obs:" + strings.TrimPrefix(obs, "=> "))
		c.emit(line, obs)
		// ---- property oracles on the implementation's behaviour
		if sc.wantCode != "" && !stub {
			applies := true
			if sc.name == "maint" && !rpcClientOps[h] {
				applies = false // C45: only client operations are refused
			}
			if applies {
				if c.prop == "C45" || sc.name != "maint" {
					c.oracle("refused-request-has-no-effect", len(effects) == 0, desc)
					c.oracle("refused-request-gets-the-error-status", class == sc.wantCode, desc)
				}
				if len(effects) == 0 {
					c.nontrivial(line)
				}
			}
		}
		if sc.name == "maint" && !rpcClientOps[h] && !stub {
			c.oracle("non-client-operation-not-refused-in-maintenance", served && class == "ok", desc)
			consulted := false
			for _, k := range rec.checks {
				consulted = consulted || k == "maint"
			}
			c.oracle("non-client-operation-does-not-consult-maintenance", !consulted, desc)
		}
		if sc.chunkFirst {
			c.oracle("streamer-refuses-chunk-before-init", len(effects) == 0 && class == "internal", desc)
		} else if sc.wantCode == "" && !stub {
			c.oracle("valid-request-is-served", served, desc)
		}
		if res.panicked != "" && !stub && !(h == "Put" && strings.Contains(res.panicked, "nil pointer")) {
			c.oracle("handler-does-not-panic", false, desc)
		}
	}
}
