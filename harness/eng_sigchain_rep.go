package main

// Engine "sigchain", op "replicate" (C31): the REAL objectsvc.Server.Replicate over the REAL
// placement.Service (two-epoch container node iteration) with a table-driven container source, a table-driven
// network map source (per-epoch node sets, unreadable maps, maps on which the policy cannot be applied), a
// recording storage and really signed requests. The op line is a full description of request and
// environment; exec builds both from it.

import (
	"context"
	"crypto/ecdsa"
	"errors"
	"fmt"
	"strings"

	"github.com/nspcc-dev/neo-go/pkg/core/block"
	"github.com/nspcc-dev/neo-go/pkg/core/transaction"
	"github.com/nspcc-dev/neo-go/pkg/neorpc/result"
	"github.com/nspcc-dev/neo-go/pkg/smartcontract/trigger"
	objectcore "github.com/nspcc-dev/neofs-node/pkg/core/object"
	objectsvc "github.com/nspcc-dev/neofs-node/pkg/services/object"
	"github.com/nspcc-dev/neofs-node/pkg/services/object/placement"
	"github.com/nspcc-dev/neofs-node/pkg/util/verifbridge"
	"github.com/nspcc-dev/neofs-sdk-go/client"
	apistatus "github.com/nspcc-dev/neofs-sdk-go/client/status"
	"github.com/nspcc-dev/neofs-sdk-go/container"
	cid "github.com/nspcc-dev/neofs-sdk-go/container/id"
	"github.com/nspcc-dev/neofs-sdk-go/netmap"
	"github.com/nspcc-dev/neofs-sdk-go/object"
	protoobject "github.com/nspcc-dev/neofs-sdk-go/proto/object"
	"github.com/nspcc-dev/neofs-sdk-go/proto/refs"
	sessionv2 "github.com/nspcc-dev/neofs-sdk-go/session/v2"
	"github.com/nspcc-dev/neofs-sdk-go/user"
	"go.uber.org/zap"
)

// ---- environment ----

type repSel struct {
	kind string // "nodes", "err" (policy cannot be applied), "x" (map unreadable)
	keys []int
}

func repParseSel(s string) (repSel, bool) {
	switch s {
	case "x":
		return repSel{kind: "x"}, true
	case "err":
		return repSel{kind: "err"}, true
	case "-", "":
		return repSel{}, false
	}
	o := opLine{kv: map[string]string{"k": s}}
	return repSel{kind: "nodes", keys: o.ints("k")}, true
}

type repEnv struct {
	epoch      uint64
	epochFails bool
	cnrFound   bool
	cur, prev  repSel
	own        map[string]bool
	store      string
	signFails  bool
	cnr        container.Container
	calls      []object.Object
}

// container source handed to the placement service
type repContainers struct{ e *repEnv }

func (c repContainers) Get(cid.ID) (container.Container, error) {
	if !c.e.cnrFound {
		return container.Container{}, apistatus.ErrContainerNotFound
	}
	return c.e.cnr, nil
}

// network map source handed to the placement service
type repNetwork struct{ e *repEnv }

func (n repNetwork) Epoch() (uint64, error) {
	if n.e.epochFails {
		return 0, errors.New("epoch unavailable")
	}
	return n.e.epoch, nil
}

func (n repNetwork) NetMap() (*netmap.NetMap, error) { return n.GetNetMapByEpoch(n.e.epoch) }

func (n repNetwork) GetNetMapByEpoch(epoch uint64) (*netmap.NetMap, error) {
	var sel repSel
	switch {
	case epoch == n.e.epoch:
		sel = n.e.cur
	case epoch+1 == n.e.epoch:
		sel = n.e.prev
	default:
		return nil, errors.New("unexpected epoch requested")
	}
	if sel.kind == "x" {
		return nil, errors.New("network map unavailable")
	}
	var nm netmap.NetMap
	nm.SetEpoch(epoch)
	var nodes []netmap.NodeInfo
	if sel.kind == "nodes" {
		for _, k := range sel.keys {
			var ni netmap.NodeInfo
			ni.SetPublicKey(scPub(k))
			ni.SetNetworkEndpoints(fmt.Sprintf("/ip4/10.0.0.%d/tcp/8080", k+1))
			nodes = append(nodes, ni)
		}
	}
	nm.SetNodes(nodes) // kind "err": an empty map, on which no REP rule can be satisfied
	return &nm, nil
}

// repFSChain is the objectsvc.FSChain of the server under test.
type repFSChain struct {
	e  *repEnv
	pl *placement.Service
}

func (f *repFSChain) Get(cid.ID) (container.Container, error) { // used by metaInfoSignature only
	if f.e.signFails {
		return container.Container{}, errors.New("container unavailable for signing")
	}
	return f.e.cnr, nil
}
func (f *repFSChain) CurrentEpoch() uint64         { return f.e.epoch }
func (f *repFSChain) CurrentBlock() uint32         { return 1 }
func (f *repFSChain) CurrentEpochDuration() uint64 { return 240 }
func (f *repFSChain) InvokeContainedScript(*transaction.Transaction, *block.Header, *trigger.Type, *bool) (*result.Invoke, error) {
	return nil, errors.New("not used")
}
func (f *repFSChain) ForEachContainerNodePublicKey(id cid.ID, fn func([]byte) bool) error {
	return f.pl.ForEachContainerNodePublicKey(id, fn)
}
func (f *repFSChain) ForEachContainerNodePublicKeyInLastTwoEpochs(id cid.ID, fn func([]byte) bool) error {
	return f.pl.ForEachContainerNodePublicKeyInLastTwoEpochs(id, fn)
}
func (f *repFSChain) SelectContainerNodes(id cid.ID) ([][]netmap.NodeInfo, []uint, []verifbridge.ECRule, error) {
	return f.pl.SelectContainerNodes(id)
}
func (f *repFSChain) IsOwnPublicKey(k []byte) bool    { return f.e.own[string(k)] }
func (f *repFSChain) LocalNodeUnderMaintenance() bool { return false }

// repStorage records what reaches the storage.
type repStorage struct{ e *repEnv }

func (s repStorage) GetSessionPrivateKey(user.ID) (ecdsa.PrivateKey, error) {
	return ecdsa.PrivateKey{}, apistatus.ErrSessionTokenNotFound
}
func (s repStorage) GetSessionV2PrivateKey([]sessionv2.Target) (ecdsa.PrivateKey, error) {
	return ecdsa.PrivateKey{}, apistatus.ErrSessionTokenNotFound
}
func (s repStorage) VerifyAndStoreObjectLocally(_ context.Context, o object.Object) error {
	s.e.calls = append(s.e.calls, o)
	switch s.e.store {
	case "busy":
		return apistatus.ErrBusy
	case "fail":
		return errors.New("format validation failed")
	}
	return nil
}
func (s repStorage) SearchObjects(context.Context, cid.ID, []objectcore.SearchFilter, []string, *objectcore.SearchCursor, uint16) ([]client.SearchResultItem, []byte, error) {
	return nil, nil, errors.New("not used")
}

var repPolicy = func() netmap.PlacementPolicy {
	var p netmap.PlacementPolicy
	if err := p.DecodeString("REP 1 CBF 8"); err != nil {
		panic(err)
	}
	return p
}()

// ---- request ----

func repFlag(o opLine, k string) bool { return o.kv[k] == "1" }

func repBuildRequest(o opLine) *protoobject.ReplicateRequest {
	if !repFlag(o, "obj") {
		return &protoobject.ReplicateRequest{Signature: &refs.Signature{Key: scPub(0), Sign: []byte{1}}}
	}
	key := o.int("key")
	cnr := numCID(2)
	id := numOID(1 + key)
	obj := object.New(cnr, numOwner(1))
	obj.SetID(id)
	obj.SetPayload([]byte("payload"))
	obj.SetPayloadSize(7)
	m := obj.ProtoMessage()
	switch o.kv["cnr"] {
	case "nil":
		m.Header.ContainerId = nil
	case "bad":
		m.Header.ContainerId = &refs.ContainerID{Value: make([]byte, 31)}
	}
	if !repFlag(o, "hdr") {
		m.Header = nil
	}
	if !repFlag(o, "objdec") && m.Header != nil {
		m.Header.OwnerId = &refs.OwnerID{Value: []byte{1, 2, 3}}
	}
	req := &protoobject.ReplicateRequest{Object: m, SignObject: repFlag(o, "signobj")}
	idBytes := m.ObjectId.Value
	if !repFlag(o, "id") {
		if key%2 == 0 {
			m.ObjectId = nil
		} else {
			m.ObjectId = &refs.ObjectID{}
		}
	}
	if !repFlag(o, "sig") {
		return req
	}
	scheme := o.int("scheme")
	signScheme := scheme
	if signScheme < 0 || signScheme > 2 {
		signScheme = 0
	}
	t := &scTable{signed: map[string][]byte{}, n3: map[string]bool{}}
	sg := t.signer(key, signScheme)
	sig, err := sg.Sign(idBytes)
	if err != nil {
		panic(err)
	}
	s := &refs.Signature{Key: scPub(key), Sign: sig, Scheme: refs.SignatureScheme(scheme)}
	switch o.kv["keyc"] {
	case "e":
		s.Key = nil
	case "b":
		s.Key = append([]byte(nil), scBadKey...)
	}
	switch o.kv["sign"] {
	case "e":
		s.Sign = nil
	case "i":
		switch key % 3 {
		case 0: // a flipped byte
			s.Sign[len(s.Sign)/2] ^= 0x20
		case 1: // a good signature of ANOTHER key over the same id
			s.Sign, _ = t.signer(key+1, signScheme).Sign(idBytes)
		default: // a good signature of this key over ANOTHER id
			s.Sign, _ = sg.Sign(numOID(77).Marshal())
		}
	}
	req.Signature = s
	return req
}

// ---- observation ----

func repStatusName(resp *protoobject.ReplicateResponse) string {
	st := resp.GetStatus()
	code, msg := st.GetCode(), st.GetMessage()
	name := "other"
	switch {
	case st == nil || code == 0:
		name = "ok"
	case msg == "binary object field is missing/empty":
		name = "bad-obj-missing"
	case msg == "ID field is missing/empty in the object field":
		name = "bad-id-missing"
	case msg == "missing object signature field":
		name = "bad-sig-missing"
	case msg == "public key field is missing/empty in the object signature field":
		name = "bad-key-missing"
	case msg == "signature value is missing/empty in the object signature field":
		name = "bad-sign-missing"
	case msg == "unsupported scheme in the object signature field":
		name = "bad-scheme"
	case msg == "missing header field in the object field":
		name = "bad-hdr-missing"
	case msg == "missing container ID field in the object header field":
		name = "bad-cnr-missing"
	case strings.HasPrefix(msg, "invalid container ID in the object header field"):
		name = "bad-cnr-invalid"
	case msg == "invalid ECDSA public key in the object signature field":
		name = "bad-key-invalid"
	case msg == "signature mismatch in the object signature field":
		name = "bad-sig-mismatch"
	case strings.HasSuffix(msg, "object's container not found"):
		name = "cnr-not-found"
	case strings.HasPrefix(msg, "failed to apply object's storage policy"):
		name = "internal-policy"
	case msg == "server does not match the object's storage policy":
		name = "denied-server"
	case msg == "client does not match the object's storage policy":
		name = "denied-client"
	case strings.HasPrefix(msg, "invalid object field"):
		name = "bad-object"
	case strings.HasPrefix(msg, "failed to verify and store object locally"):
		name = "internal-store"
	case strings.HasPrefix(msg, "failed to sign object meta information"):
		name = "internal-sign"
	case errors.Is(apistatus.ToError(st), apistatus.ErrBusy):
		name = "busy"
	}
	return fmt.Sprintf("%s code=%d", name, code)
}

func repContains(xs []int, k int) bool { return inList(xs, k) }

func repExecOne(c *runCtx, line string, o opLine) {
	cur, ok1 := repParseSel(o.kv["cur"])
	prev, ok2 := repParseSel(o.kv["prev"])
	known := func(k string, vs ...string) bool {
		for _, v := range vs {
			if o.kv[k] == v {
				return true
			}
		}
		return false
	}
	if !ok1 || !ok2 || !known("keyc", "k", "e", "b") || !known("sign", "v", "i", "e") || !known("cnr", "ok", "nil", "bad") ||
		!known("store", "ok", "busy", "fail") {
		c.emit(line, "=> bad-op")
		return
	}
	for _, k := range []string{"obj", "id", "sig", "hdr", "objdec", "signobj", "cnrfound", "epochfails", "signfails"} {
		if !known(k, "0", "1") {
			c.emit(line, "=> bad-op")
			return
		}
	}
	e := &repEnv{epoch: o.u64("epoch"), epochFails: repFlag(o, "epochfails"), cnrFound: repFlag(o, "cnrfound"), cur: cur, prev: prev,
		own: map[string]bool{}, store: o.kv["store"], signFails: repFlag(o, "signfails")}
	for _, k := range o.ints("own") {
		e.own[string(scPub(k))] = true
	}
	e.cnr.Init()
	e.cnr.SetOwner(numOwner(1))
	e.cnr.SetPlacementPolicy(repPolicy)
	pl, err := placement.New(repContainers{e}, repNetwork{e})
	if err != nil {
		panic(err)
	}
	fs := &repFSChain{e: e, pl: pl}
	srv := objectsvc.New(nil, fs, repStorage{e}, nil, scKeys[7].PrivateKey, nil, nil, nil, nil, zap.NewNop())
	req := repBuildRequest(o)

	var obs string
	func() {
		defer func() {
			if r := recover(); r != nil {
				obs = "=> panic"
			}
		}()
		resp, err := srv.Replicate(context.Background(), req)
		if err != nil {
			obs = "=> transport-error"
			return
		}
		sig := 0
		if len(resp.GetObjectSignature()) > 0 {
			sig = 1
		}
		obs = fmt.Sprintf("=> %s stored=%d sig=%d", repStatusName(resp), len(e.calls), sig)
	}()
	c.emit(line, obs)

	// the property's own predicate, from the description of the environment (not from the model)
	key := o.int("key")
	sigGood := repFlag(o, "obj") && repFlag(o, "id") && repFlag(o, "sig") && o.kv["keyc"] == "k" && o.kv["sign"] == "v" &&
		o.int("scheme") >= 0 && o.int("scheme") <= 2
	localNow := false
	if !e.epochFails && e.cnrFound && cur.kind == "nodes" {
		for _, k := range cur.keys {
			localNow = localNow || e.own[string(scPub(k))]
		}
	}
	sender := (cur.kind == "nodes" && repContains(cur.keys, key)) || (e.epoch > 0 && prev.kind == "nodes" && repContains(prev.keys, key))
	stored := len(e.calls) > 0
	okStatus := strings.HasPrefix(obs, "=> ok ")
	detail := line + "  " + obs
	c.oracle("stored-only-with-valid-signature", !stored || sigGood, detail)
	c.oracle("stored-only-if-local-node-in-container", !stored || localNow, detail)
	c.oracle("stored-only-if-sender-in-container-now-or-previous-epoch", !stored || sender, detail)
	c.oracle("stored-only-if-object-decodes", !stored || (repFlag(o, "objdec") && repFlag(o, "hdr") && o.kv["cnr"] == "ok"), detail)
	c.oracle("not-stored-gives-error-status", stored || !okStatus, detail)
	c.oracle("ok-status-only-after-accepted-store", !okStatus || (len(e.calls) == 1 && e.store == "ok"), detail)
	c.oracle("at-most-one-store-call", len(e.calls) <= 1, detail)
	c.oracle("no-panic", obs != "=> panic", detail)
	full := sigGood && localNow && sender && repFlag(o, "objdec") && repFlag(o, "hdr") && o.kv["cnr"] == "ok"
	c.oracle("admissible-request-reaches-storage", !full || stored, detail)
	if stored && len(e.calls) == 1 {
		c.oracle("stored-object-is-the-sent-one", e.calls[0].GetID() == numOID(1+key) && e.calls[0].GetContainerID() == numCID(2), detail)
	}
	c.count("rep:" + strings.Fields(obs)[1])
	if sigGood {
		c.nontrivial(line)
	}
}

// ---- generation ----

type repCase struct {
	obj, id, sig, hdr, objdec, signobj, cnrfound, epochfails, signfails int
	keyc, sign, cnr, store                                              string
	scheme, key, epoch                                                  int
	cur, prev, own                                                      string
}

func (r repCase) line() string {
	return fmt.Sprintf("sigchain replicate obj=%d id=%d sig=%d keyc=%s sign=%s scheme=%d hdr=%d cnr=%s key=%d objdec=%d signobj=%d "+
		"epochfails=%d cnrfound=%d epoch=%d cur=%s prev=%s own=%s store=%s signfails=%d",
		r.obj, r.id, r.sig, r.keyc, r.sign, r.scheme, r.hdr, r.cnr, r.key, r.objdec, r.signobj,
		r.epochfails, r.cnrfound, r.epoch, r.cur, r.prev, r.own, r.store, r.signfails)
}

func repGood() repCase {
	return repCase{obj: 1, id: 1, sig: 1, hdr: 1, objdec: 1, cnrfound: 1, keyc: "k", sign: "v", cnr: "ok", store: "ok",
		scheme: 1, key: 1, epoch: 5, cur: "0,1,2", prev: "2,3", own: "0", signfails: 1}
}

func repRandSel(c *runCtx) string {
	switch c.rng.IntN(8) {
	case 0:
		return "err"
	case 1:
		return "x"
	}
	n := 1 + c.rng.IntN(4)
	perm := c.rng.Perm(6)
	return joinInts(perm[:n])
}

func repGen(c *runCtx, add func(string)) {
	// 1. the membership table: sender in cur/prev/neither x local in cur/prev/neither x epoch 0/5 x signature
	for _, snd := range []string{"cur", "prev", "both", "none"} {
		for _, loc := range []string{"cur", "prev", "both", "none"} {
			for _, ep := range []int{0, 1, 5} {
				for _, sign := range []string{"v", "i", "e"} {
					r := repGood()
					r.epoch, r.sign, r.key = ep, sign, 1+c.rng.IntN(3)
					cur, prev := []int{4}, []int{5}
					if snd == "cur" || snd == "both" {
						cur = append(cur, r.key)
					}
					if snd == "prev" || snd == "both" {
						prev = append(prev, r.key)
					}
					if loc == "cur" || loc == "both" {
						cur = append(cur, 0)
					}
					if loc == "prev" || loc == "both" {
						prev = append(prev, 0)
					}
					r.cur, r.prev = joinInts(cur), joinInts(prev)
					r.scheme = c.rng.IntN(3)
					add(r.line())
				}
			}
		}
	}
	// 2. each request-side condition failing alone, and the environment failing alone
	mods := []func(*repCase){
		func(r *repCase) { r.obj = 0 }, func(r *repCase) { r.id = 0 }, func(r *repCase) { r.id = 0; r.key = 2 },
		func(r *repCase) { r.sig = 0 }, func(r *repCase) { r.keyc = "e" }, func(r *repCase) { r.keyc = "b" },
		func(r *repCase) { r.sign = "e" }, func(r *repCase) { r.sign = "i" }, func(r *repCase) { r.sign = "i"; r.key = 2 },
		func(r *repCase) { r.sign = "i"; r.key = 3 }, func(r *repCase) { r.scheme = 3 }, func(r *repCase) { r.scheme = -1 },
		func(r *repCase) { r.scheme = 4 }, func(r *repCase) { r.hdr = 0 }, func(r *repCase) { r.cnr = "nil" },
		func(r *repCase) { r.cnr = "bad" }, func(r *repCase) { r.objdec = 0 }, func(r *repCase) { r.cnrfound = 0 },
		func(r *repCase) { r.epochfails = 1 }, func(r *repCase) { r.cur = "x" }, func(r *repCase) { r.cur = "err" },
		func(r *repCase) { r.prev = "x" }, func(r *repCase) { r.prev = "err" }, func(r *repCase) { r.prev = "x"; r.key = 3 },
		func(r *repCase) { r.prev = "err"; r.key = 3 }, func(r *repCase) { r.cur = "err"; r.key = 3 },
		func(r *repCase) { r.store = "busy" }, func(r *repCase) { r.store = "fail" },
		func(r *repCase) { r.signobj = 1 }, func(r *repCase) { r.own = "-" }, func(r *repCase) { r.own = "3" },
		func(r *repCase) { r.key = 3 }, func(r *repCase) { r.key = 3; r.epoch = 0 }, func(r *repCase) { r.key = 6 },
	}
	for _, m := range mods {
		for sc := 0; sc < 3; sc++ {
			r := repGood()
			r.scheme = sc
			m(&r)
			add(r.line())
		}
	}
	// 3. seeded random combinations (mostly admissible, 1-3 things wrong)
	n := c.n(700, 20000)
	for i := 0; i < n; i++ {
		r := repGood()
		r.scheme = c.rng.IntN(3)
		r.key = c.rng.IntN(6)
		r.epoch = []int{0, 1, 2, 9}[c.rng.IntN(4)]
		r.cur, r.prev = repRandSel(c), repRandSel(c)
		own := c.rng.Perm(6)[:c.rng.IntN(3)]
		r.own = joinInts(own)
		if c.rng.IntN(2) == 0 { // bias towards admissible environments
			r.cur = joinInts([]int{r.key, 5, c.rng.IntN(5)})
			if c.rng.IntN(2) == 0 {
				r.own = "5"
			}
		}
		for k := c.rng.IntN(3); k > 0; k-- {
			mods[c.rng.IntN(len(mods))](&r)
		}
		if r.signobj == 1 {
			r.signfails = 1 // a successful signing needs a running meta service, which the run does not have
		}
		add(r.line())
	}
}
