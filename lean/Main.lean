import NeoFS.Driver.EC
import NeoFS.Driver.Int256
import NeoFS.Driver.Range
import NeoFS.Driver.Grace
import NeoFS.Driver.Arith
import NeoFS.Driver.Timers
import NeoFS.Driver.Gov
import NeoFS.Driver.Meta
import NeoFS.Driver.Dump
import NeoFS.Driver.WC
import NeoFS.Driver.EList
import NeoFS.Driver.GC
import NeoFS.Driver.Wire
import NeoFS.Driver.SigChain
import NeoFS.Driver.Policer
import NeoFS.Driver.ACL
import NeoFS.Driver.Token
import NeoFS.Driver.Put
import NeoFS.Driver.Validate
import NeoFS.Driver.WCFlush
import NeoFS.Driver.WCSched
import NeoFS.Driver.ShardSteps
import NeoFS.Driver.Assemble
import NeoFS.Driver.IRContainer
import NeoFS.Driver.IRNetmap
import NeoFS.Driver.FSTree
import NeoFS.Driver.IR
import NeoFS.Driver.Engine
import NeoFS.Driver.ShardMode
import NeoFS.Driver.SearchMerge
import NeoFS.Driver.Search
import NeoFS.Driver.Rpc
import NeoFS.Driver.Migrate
import NeoFS.Driver.Resync
open NeoFS NeoFS.Driver

/-- State of all stateful models; pure models need none. -/
structure DState where
  timers : NeoFS.Timers.ET := NeoFS.Timers.new []
  metaSt : NeoFS.Driver.MetaState := {}
  wc : NeoFS.WC.St := { maxSize := 6000 }
  elist : NeoFS.Driver.EListState := {}
  gc : NeoFS.Driver.GCState := {}
  pol : NeoFS.Policer.Cluster := {}
  acl : NeoFS.Driver.ACLSt := {}
  wcr : NeoFS.WCFlush.St := {}
  shardst : NeoFS.ShardSteps.St := {}
  fstree : NeoFS.Driver.FSt := {}
  eng : NeoFS.Engine.Eng := {}
  modes : NeoFS.ShardMode.St := {}
  smerge : NeoFS.Driver.SMergeState := {}
  search : NeoFS.Driver.SearchState := {}
  mig : NeoFS.Driver.MigrateState := {}
  resync : NeoFS.Driver.Resync.State := {}
  irn : NeoFS.IRNetmap.HSt := {}
  irx : NeoFS.IRIndexer.St := {}

def stepLine (s : DState) (line : String) : DState × String :=
  let o := parseOp line
  if o.engine == "reset" then ({ metaSt := { showRef := s.metaSt.showRef } }, "=> reset")
  else match o.engine with
  | "ec" => (s, ecStep o)
  | "int256" => (s, int256Step o)
  | "range" => (s, rangeStep o)
  | "grace" => (s, graceStep o)
  | "arith" => (s, arithStep o)
  | "gov" => (s, govStep o)
  | "dump" => (s, dumpStep o)
  | "wc" => let (w, out) := wcStep s.wc o; ({ s with wc := w }, out)
  | "shardst" => let (w, out) := shardstStep s.shardst o; ({ s with shardst := w }, out)
  | "assemble" => (s, assembleStep o)
  | "irc" => (s, ircStep o)
  | "irn" => let (n, out) := irnStep s.irn o; ({ s with irn := n }, out)
  | "fstree" => let (f, out) := fstreeStep s.fstree o; ({ s with fstree := f }, out)
  | "ir" => let (x, out) := irStep s.irx o; ({ s with irx := x }, out)
  | "eng" => let (g, out) := engStep s.eng o; ({ s with eng := g }, out)
  | "modes" => let (m, out) := modesStep s.modes o; ({ s with modes := m }, out)
  | "smerge" => let (e, out) := smergeStep s.smerge o; ({ s with smerge := e }, out)
  | "search" => let (e, out) := searchStep s.search o; ({ s with search := e }, out)
  | "rpc" => (s, rpcStep o)
  | "migrate" => let (m, out) := migrateStep s.mig o; ({ s with mig := m }, out)
  | "resync" => let (r, out) := resyncStep s.resync o; ({ s with resync := r }, out)
  | "put" => (s, putStep o)
  | "validate" => (s, validateStep o)
  | "wcread" => let (w, out) := wcreadStep s.wcr o; ({ s with wcr := w }, out)
  | "wcsched" => (s, wcschedStep o)
  | "wire" => (s, wireStep o)
  | "sigchain" => (s, sigchainStep o)
  | "policer" => let (p, out) := policerStep s.pol o; ({ s with pol := p }, out)
  | "acl" => match tokStep s.acl o with
    | some (a, out) => ({ s with acl := a }, out)
    | none => (s, aclStep o)
  | "gc" => let (g, out) := gcStep s.gc o; ({ s with gc := g }, out)
  | "elist" => let (e, out) := elistStep s.elist o; ({ s with elist := e }, out)
  | "meta" => let (m, out) := metaStep s.metaSt o; ({ s with metaSt := m }, out)
  | "timers" => let (t, out) := timersStep s.timers o; ({ s with timers := t }, out)
  | _ => (s, "=> bad-op")

partial def loop (h : IO.FS.Stream) (out : IO.FS.Stream) (s : DState) : IO Unit := do
  let line ← h.getLine
  if line.isEmpty then return ()
  let line := (line.dropEndWhile (fun c => c == '\n' || c == '\r')).toString
  let (s', o) := stepLine s line
  out.putStrLn o
  loop h out s'

def main : IO Unit := do
  let stdin ← IO.getStdin
  let stdout ← IO.getStdout
  let showRef := (← IO.getEnv "NEOFS_MODEL_REF").isSome
  loop stdin stdout { metaSt := { showRef := showRef } }
