import NeoFS.Base.Parse
import NeoFS.Model.EC
import NeoFS.Gen.Arith
