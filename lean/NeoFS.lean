import NeoFS.Base.Parse
import NeoFS.Model.EC
