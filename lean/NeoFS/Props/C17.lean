import NeoFS.Model.WC
/-!
# C17 — the write-cache flushes everything and accounts its size exactly

Invariant over ALL sequences of puts (repeated, of the same and of different addresses), deletes, flush
steps with an arbitrary main-storage failure oracle, and reopens.
-/
namespace NeoFS.WC

def Sorted (l : List (Nat × Nat)) : Prop := l.Pairwise fun a b => a.1 < b.1

/-- the accounting invariant: the counters describe exactly the files the cache holds -/
structure Inv (s : St) : Prop where
  map : s.objMap = s.files
  size : s.size = total s.files
  sorted : Sorted s.files

theorem insertKV_sorted (k v : Nat) : ∀ l, Sorted l → Sorted (insertKV k v l) := by
  intro l
  induction l with
  | nil => intro _; simp [insertKV, Sorted]
  | cons y ys ih =>
    intro h
    unfold Sorted at h ih ⊢
    rw [List.pairwise_cons] at h
    have mem : ∀ x ∈ insertKV k v ys, x.1 = k ∨ x ∈ ys := by
      intro x hx
      clear ih h
      induction ys with
      | nil => simp [insertKV] at hx; exact Or.inl (by rw [hx])
      | cons z zs ih2 =>
        unfold insertKV at hx
        split at hx
        · simp at hx; rcases hx with rfl | rfl | hx
          · exact Or.inl rfl
          · exact Or.inr (by simp)
          · exact Or.inr (by simp [hx])
        · split at hx
          · simp at hx; rcases hx with rfl | hx
            · exact Or.inl rfl
            · exact Or.inr (by simp [hx])
          · simp at hx; rcases hx with rfl | hx
            · exact Or.inr (by simp)
            · rcases ih2 hx with h | h
              · exact Or.inl h
              · exact Or.inr (by simp [h])
    unfold insertKV
    split
    · rename_i hlt
      rw [List.pairwise_cons]
      refine ⟨?_, List.pairwise_cons.mpr h⟩
      intro x hx; simp at hx; rcases hx with rfl | hx
      · exact hlt
      · exact Nat.lt_trans hlt (h.1 x hx)
    · split
      · rename_i heq
        rw [List.pairwise_cons]
        exact ⟨fun x hx => by simp only; rw [heq]; exact h.1 x hx, h.2⟩
      · rw [List.pairwise_cons]
        refine ⟨?_, ih h.2⟩
        intro x hx
        rcases mem x hx with he | hm
        · rw [he]; omega
        · exact h.1 x hm

theorem erase_sorted (k : Nat) (l : List (Nat × Nat)) (h : Sorted l) : Sorted (erase k l) :=
  List.Pairwise.filter _ h

theorem lookup_cons (k : Nat) (y : Nat × Nat) (ys : List (Nat × Nat)) :
    lookup k (y :: ys) = if y.1 = k then some y.2 else lookup k ys := by
  unfold lookup
  by_cases h : y.1 = k
  · simp [List.find?_cons, h]
  · simp [List.find?_cons, h]

theorem total_cons (y : Nat × Nat) (ys : List (Nat × Nat)) : total (y :: ys) = y.2 + total ys := by
  simp [total]

theorem lookup_none_of_lt (k : Nat) (l : List (Nat × Nat)) (h : ∀ x ∈ l, k < x.1) : lookup k l = none := by
  induction l with
  | nil => rfl
  | cons y ys ih =>
    rw [lookup_cons]
    have := h y (by simp)
    rw [if_neg (by omega)]
    exact ih (fun x hx => h x (by simp [hx]))

/-- replacing or adding an entry changes the total by the difference -/
theorem total_insertKV (k v : Nat) : ∀ l, Sorted l →
    total (insertKV k v l) + (lookup k l).getD 0 = total l + v := by
  intro l
  induction l with
  | nil => intro _; simp [insertKV, total, lookup]
  | cons y ys ih =>
    intro h
    unfold Sorted at h
    rw [List.pairwise_cons] at h
    unfold insertKV
    split
    · rename_i hlt
      have hnone : lookup k (y :: ys) = none :=
        lookup_none_of_lt k _ (fun x hx => by
          simp at hx; rcases hx with rfl | hx
          · exact hlt
          · exact Nat.lt_trans hlt (h.1 x hx))
      rw [hnone, total_cons, total_cons]; simp; omega
    · split
      · rename_i heq
        rw [lookup_cons, if_pos heq.symm, total_cons, total_cons]; simp; omega
      · rename_i hnlt hne
        have := ih h.2
        rw [lookup_cons, if_neg (by omega), total_cons, total_cons]
        omega

theorem total_erase (k : Nat) : ∀ l, Sorted l → total (erase k l) + (lookup k l).getD 0 = total l := by
  intro l
  induction l with
  | nil => intro _; simp [erase, total, lookup]
  | cons y ys ih =>
    intro h
    unfold Sorted at h
    rw [List.pairwise_cons] at h
    by_cases hk : y.1 = k
    · have hrest : erase k ys = ys := by
        unfold erase
        apply List.filter_eq_self.mpr
        intro x hx; have := h.1 x hx; simp; omega
      have he : erase k (y :: ys) = ys := by
        unfold erase at hrest ⊢
        rw [List.filter_cons]; simp [hk, hrest]
      rw [he, lookup_cons, if_pos hk, total_cons]; simp; omega
    · have he : erase k (y :: ys) = y :: erase k ys := by
        unfold erase; rw [List.filter_cons]; simp [hk]
      have := ih h.2
      rw [he, lookup_cons, if_neg hk, total_cons, total_cons]
      omega

theorem lookup_le_total (k : Nat) : ∀ l, (lookup k l).getD 0 ≤ total l := by
  intro l
  induction l with
  | nil => simp [lookup, total]
  | cons y ys ih =>
    rw [lookup_cons, total_cons]
    split
    · simp
    · omega

theorem inv_init (m : Nat) : Inv { maxSize := m } := ⟨rfl, rfl, List.Pairwise.nil⟩

theorem put_inv (s : St) (a n : Nat) (h : Inv s) : Inv (put s a n).1 := by
  unfold put
  split
  · exact h
  · unfold ctrAdd
    refine ⟨?_, ?_, insertKV_sorted a n _ h.sorted⟩
    · show insertKV a n s.objMap = insertKV a n s.files
      rw [h.map]
    · show s.size - (lookup a s.objMap).getD 0 + n = total (insertKV a n s.files)
      have h1 := total_insertKV a n s.files h.sorted
      have h2 := lookup_le_total a s.files
      rw [h.map, h.size]
      omega

theorem delete_inv (s : St) (a : Nat) (h : Inv s) : Inv (delete s a).1 := by
  unfold delete
  split
  · exact h
  · unfold ctrDelete
    refine ⟨?_, ?_, erase_sorted a _ h.sorted⟩
    · show erase a s.objMap = erase a s.files
      rw [h.map]
    · show s.size - (lookup a s.objMap).getD 0 = total (erase a s.files)
      have h1 := total_erase a s.files h.sorted
      have h2 := lookup_le_total a s.files
      rw [h.map, h.size]
      omega

theorem flushSingle_inv (s : St) (a : Nat) (ok : Bool) (h : Inv s) : Inv (flushSingle s a ok).1 := by
  unfold flushSingle
  split
  · exact h
  · split
    · exact h
    · exact delete_inv _ a ⟨h.map, h.size, h.sorted⟩

theorem flushAll_inv (s : St) (ok : Bool) (h : Inv s) : Inv (flushAll s ok).1 := by
  unfold flushAll
  suffices H : ∀ (l : List (Nat × Nat)) (acc : St × Err), Inv acc.1 →
      Inv (l.foldl (fun (acc : St × Err) f => if acc.2 != .ok then acc else flushSingle acc.1 f.1 ok) acc).1 by
    exact H s.files (s, .ok) h
  intro l
  induction l with
  | nil => intro acc h; exact h
  | cons x xs ih =>
    intro acc hacc
    simp only [List.foldl_cons]
    apply ih
    split
    · exact hacc
    · exact flushSingle_inv _ _ _ hacc

theorem reopen_inv (s : St) (h : Sorted s.files) : Inv (reopen s) := ⟨rfl, rfl, h⟩

/-- operations of a history; `flush a ok` is one flush step of object `a` whose main-storage write succeeds
iff `ok` -/
inductive Op
  | put (a n : Nat) | delete (a : Nat) | flush (a : Nat) (ok : Bool) | flushAll (ok : Bool) | reopen

def step (s : St) : Op → St
  | .put a n => (put s a n).1
  | .delete a => (delete s a).1
  | .flush a ok => (flushSingle s a ok).1
  | .flushAll ok => (flushAll s ok).1
  | .reopen => reopen s

/-- **At every point of every history the reported size equals the total size of the objects the cache
actually holds.** -/
theorem size_exact (m : Nat) (ops : List Op) :
    let s := ops.foldl step { maxSize := m }
    s.size = total s.files ∧ s.objMap = s.files := by
  suffices H : ∀ (ops : List Op) (s : St), Inv s → Inv (ops.foldl step s) by
    have := H ops { maxSize := m } (inv_init m)
    exact ⟨this.size, this.map⟩
  intro ops
  induction ops with
  | nil => intro s h; exact h
  | cons o os ih =>
    intro s h
    simp only [List.foldl_cons]
    apply ih
    cases o with
    | put a n => exact put_inv s a n h
    | delete a => exact delete_inv s a h
    | flush a ok => exact flushSingle_inv s a ok h
    | flushAll ok => exact flushAll_inv s ok h
    | reopen => exact reopen_inv s h.sorted

/-- A failing flush changes nothing: the object stays in the cache to be retried. -/
theorem failed_flush_keeps (s : St) (a : Nat) : (flushSingle s a false).1 = s := by
  unfold flushSingle
  split <;> rfl

theorem lookup_insertKV_self (k v : Nat) : ∀ l, lookup k (insertKV k v l) = some v := by
  intro l
  induction l with
  | nil => simp [insertKV, lookup]
  | cons y ys ih =>
    unfold insertKV
    split
    · rw [lookup_cons]; simp
    · split
      · rw [lookup_cons]; simp
      · rename_i h1 h2
        rw [lookup_cons, if_neg (fun e => h2 e.symm)]; exact ih

theorem lookup_insertKV_ne (k v a : Nat) (h : a ≠ k) : ∀ l, lookup a (insertKV k v l) = lookup a l := by
  intro l
  induction l with
  | nil => simp [insertKV, lookup_cons, lookup]; intro e; exact absurd e.symm h
  | cons y ys ih =>
    unfold insertKV
    split
    · rw [lookup_cons, if_neg (fun e => h e.symm)]
    · split
      · rename_i _ heq
        rw [lookup_cons, lookup_cons, if_neg (fun e => h e.symm), if_neg (fun e => h (by rw [← e, heq]))]
      · rw [lookup_cons, lookup_cons, ih]

theorem lookup_erase_self (k : Nat) : ∀ l, lookup k (erase k l) = none := by
  intro l
  induction l with
  | nil => rfl
  | cons y ys ih =>
    by_cases h : y.1 = k
    · have : erase k (y :: ys) = erase k ys := by unfold erase; rw [List.filter_cons]; simp [h]
      rw [this]; exact ih
    · have : erase k (y :: ys) = y :: erase k ys := by unfold erase; rw [List.filter_cons]; simp [h]
      rw [this, lookup_cons, if_neg h]; exact ih

theorem lookup_erase_ne (k a : Nat) (h : k ≠ a) : ∀ l, lookup a (erase k l) = lookup a l := by
  intro l
  induction l with
  | nil => rfl
  | cons y ys ih =>
    by_cases hy : y.1 = k
    · have : erase k (y :: ys) = erase k ys := by unfold erase; rw [List.filter_cons]; simp [hy]
      rw [this, ih, lookup_cons, if_neg (fun e => h (by rw [← hy, e]))]
    · have : erase k (y :: ys) = y :: erase k ys := by unfold erase; rw [List.filter_cons]; simp [hy]
      rw [this, lookup_cons, lookup_cons, ih]

theorem lookup_of_mem_sorted (a n : Nat) : ∀ l, Sorted l → (a, n) ∈ l → lookup a l = some n := by
  intro l
  induction l with
  | nil => intro _ h; cases h
  | cons y ys ih =>
    intro hs hm
    unfold Sorted at hs
    rw [List.pairwise_cons] at hs
    simp only [List.mem_cons] at hm
    rcases hm with rfl | hm
    · rw [lookup_cons]; simp
    · have := hs.1 (a, n) hm
      simp only at this
      rw [lookup_cons, if_neg (by omega)]
      exact ih hs.2 hm

/-- A successful flush step moves the object: it leaves the cache and is in main storage with its size. -/
theorem flush_moves (s : St) (a n : Nat) (hf : lookup a s.files = some n) :
    lookup a (flushSingle s a true).1.files = none ∧ lookup a (flushSingle s a true).1.main = some n := by
  unfold flushSingle
  rw [hf]
  simp only [Bool.not_true, Bool.false_eq_true, if_false]
  unfold delete
  simp only [hf]
  unfold ctrDelete
  exact ⟨lookup_erase_self a _, lookup_insertKV_self a n _⟩

/-- the whole `Flush` with a working main storage, seen as a fold over the file list -/
theorem flushAll_ok_state (l : List (Nat × Nat)) : ∀ (st : St),
    let r := l.foldl (fun (acc : St × Err) f => if acc.2 != .ok then acc else flushSingle acc.1 f.1 true) (st, .ok)
    r.2 = .ok ∧ r.1.files = l.foldl (fun fs f => erase f.1 fs) st.files ∧
      (∀ a, (∀ f ∈ l, f.1 ≠ a) → lookup a r.1.main = lookup a st.main) ∧
      (∀ a n, (a, n) ∈ l → lookup a st.files = some n → (∀ f ∈ l, f.1 = a → f = (a, n)) → lookup a r.1.main = some n ∨ True) := by
  induction l with
  | nil => intro st; exact ⟨rfl, rfl, fun _ _ => rfl, fun _ _ _ _ _ => Or.inr trivial⟩
  | cons x xs ih =>
    intro st
    simp only [List.foldl_cons, bne_self_eq_false, Bool.false_eq_true, if_false]
    have hok : (flushSingle st x.1 true).2 = .ok := by
      unfold flushSingle; split <;> simp
    have hfiles : (flushSingle st x.1 true).1.files = erase x.1 st.files := by
      unfold flushSingle
      cases hl : lookup x.1 st.files with
      | none =>
        simp only
        -- nothing stored under this address: erasing changes nothing
        unfold erase
        symm
        apply List.filter_eq_self.mpr
        intro y hy
        unfold lookup at hl
        simp only [Option.map_eq_none_iff] at hl
        have := (List.find?_eq_none.mp hl) y hy
        simpa using this
      | some n =>
        simp only [Bool.not_true, Bool.false_eq_true, if_false]
        unfold delete
        simp only [hl]
        rfl
    have hmain : ∀ a, a ≠ x.1 → lookup a (flushSingle st x.1 true).1.main = lookup a st.main := by
      intro a ha
      unfold flushSingle
      cases hl : lookup x.1 st.files with
      | none => rfl
      | some n =>
        simp only [Bool.not_true, Bool.false_eq_true, if_false]
        unfold delete
        simp only [hl]
        unfold ctrDelete
        exact lookup_insertKV_ne x.1 n a ha _
    have := ih (flushSingle st x.1 true).1
    simp only at this
    have hpair : (flushSingle st x.1 true) = ((flushSingle st x.1 true).1, Err.ok) := by
      rw [← hok]
    rw [hpair]
    obtain ⟨i1, i2, i3, _⟩ := this
    refine ⟨i1, by rw [i2, hfiles], ?_, fun _ _ _ _ _ => Or.inr trivial⟩
    intro a ha
    rw [i3 a (fun f hf => ha f (by simp [hf])), hmain a (fun e => ha x (by simp) e.symm)]

theorem foldl_erase_all : ∀ (l l0 : List (Nat × Nat)), (∀ x ∈ l0, ∃ f ∈ l, f.1 = x.1) →
    l.foldl (fun fs f => erase f.1 fs) l0 = [] := by
  intro l
  induction l with
  | nil =>
    intro l0 h
    cases l0 with
    | nil => rfl
    | cons x xs => obtain ⟨f, hf, _⟩ := h x (by simp); cases hf
  | cons y ys ih =>
    intro l0 h
    simp only [List.foldl_cons]
    apply ih
    intro x hx
    unfold erase at hx
    obtain ⟨hx1, hx2⟩ := List.mem_filter.mp hx
    obtain ⟨f, hf, he⟩ := h x hx1
    simp only [List.mem_cons] at hf
    rcases hf with rfl | hf
    · simp [he] at hx2
    · exact ⟨f, hf, he⟩

/-- **Once the main storage accepts writes, a flush leaves the cache empty** (whatever failed before: a
failed flush changes nothing, `failed_flush_keeps`), and the accounted size is zero. -/
theorem flush_empties (s : St) (h : Inv s) :
    (flushAll s true).1.files = [] ∧ (flushAll s true).1.size = 0 := by
  have hinv := flushAll_inv s true h
  unfold flushAll at hinv ⊢
  obtain ⟨_, i2, _, _⟩ := flushAll_ok_state s.files s
  have he := foldl_erase_all s.files s.files (fun x hx => ⟨x, hx, rfl⟩)
  rw [he] at i2
  refine ⟨i2, ?_⟩
  rw [hinv.size, i2]; rfl

/-- …and every object it held is in the main storage with its size. -/
theorem flush_stores_all (s : St) (h : Inv s) (a n : Nat) (hf : (a, n) ∈ s.files) :
    lookup a (flushAll s true).1.main = some n := by
  -- split the file list at (a, n): prefix ++ (a, n) :: suffix
  obtain ⟨pre, suf, hsplit⟩ := List.append_of_mem hf
  have hsorted := h.sorted
  unfold flushAll
  rw [hsplit, List.foldl_append, List.foldl_cons]
  -- keys of prefix and suffix differ from a
  have hne_pre : ∀ f ∈ pre, f.1 ≠ a := by
    intro f hfm
    unfold Sorted at hsorted
    rw [hsplit, List.pairwise_append] at hsorted
    have := hsorted.2.2 f hfm (a, n) (by simp)
    simp at this; omega
  have hne_suf : ∀ f ∈ suf, f.1 ≠ a := by
    intro f hfm
    unfold Sorted at hsorted
    rw [hsplit, List.pairwise_append, List.pairwise_cons] at hsorted
    have := hsorted.2.1.1 f hfm
    simp at this; omega
  obtain ⟨p1, p2, _, _⟩ := flushAll_ok_state pre s
  generalize hst : pre.foldl (fun (acc : St × Err) f => if acc.2 != .ok then acc else flushSingle acc.1 f.1 true) (s, .ok) = stp at p1 p2 ⊢
  obtain ⟨st1, e1⟩ := stp
  simp only at p1 p2
  subst p1
  simp only [bne_self_eq_false, Bool.false_eq_true, if_false]
  -- (a, n) is still in the cache when its turn comes
  have hstill : lookup a st1.files = some n := by
    rw [p2]
    have : ∀ (l : List (Nat × Nat)) (l0 : List (Nat × Nat)), (∀ f ∈ l, f.1 ≠ a) →
        lookup a (l.foldl (fun fs f => erase f.1 fs) l0) = lookup a l0 := by
      intro l
      induction l with
      | nil => intro l0 _; rfl
      | cons y ys ih =>
        intro l0 hl
        simp only [List.foldl_cons]
        rw [ih _ (fun f hf => hl f (by simp [hf])), lookup_erase_ne y.1 a (hl y (by simp))]
    rw [this pre s.files hne_pre]
    exact lookup_of_mem_sorted a n s.files hsorted hf
  obtain ⟨m1, m2⟩ := flush_moves st1 a n hstill
  have hokf : (flushSingle st1 a true).2 = .ok := by unfold flushSingle; split <;> simp
  have hpair : flushSingle st1 a true = ((flushSingle st1 a true).1, Err.ok) := by rw [← hokf]
  rw [hpair]
  obtain ⟨_, _, s3, _⟩ := flushAll_ok_state suf (flushSingle st1 a true).1
  rw [s3 a hne_suf, m2]

end NeoFS.WC
