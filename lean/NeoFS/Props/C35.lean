import NeoFS.Model.Skel
import NeoFS.Model.IRAuth
import NeoFS.Model.IRIndexer
import NeoFS.Gen.IRHandlers
/-!
# C35 — inner ring nodes outside the alphabet never act with alphabet authority

Part 1 (programs): a soundness theorem for the skeleton checker, and the checker evaluated by the
kernel on EVERY entry point regenerated from the source (`NeoFS.Gen.irHandlers`).
Part 2 (inputs): the index arithmetic behind `IsAlphabet` and the guards written as integer
conditions, for all keys, lists and indexes.
-/
namespace NeoFS.IRSkel

/-- every exit the semantics can take (non-alphabet world) is one the checker reports -/
theorem exec_exit_allowed {p : Prog} {es : List String} {x : Exit} (h : Exec false p es x) :
    (chk p).allows x = true := by
  induction h with
  | skip => rfl
  | effect t => rfl
  | ret => rfl
  | brk => rfl
  | @seqFall a b es1 es2 x _ _ iha ihb =>
    have hf : (chk a).fall = true := iha
    cases x <;> simp_all [chk, Res.allows]
  | @seqExit a b es x _ hne iha =>
    simp only [chk]
    split
    · cases x <;> simp_all [Res.allows]
    · exact iha
  | @branchL a b es x _ ih => cases x <;> simp_all [chk, Res.allows]
  | @branchR a b es x _ ih => cases x <;> simp_all [chk, Res.allows]
  | loopDone => rfl
  | @loopStep b es1 es2 x y _ _ _ _ ih2 => exact ih2
  | loopBrk _ _ => rfl
  | loopRet _ ih => simpa [chk, Res.allows] using ih
  | scopeRet _ ih => simp_all [chk, Res.allows]
  | @scopeOther b es x _ hne ih => cases x <;> simp_all [chk, Res.allows]
  | ifT h _ _ => cases h
  | ifF _ _ ih => simpa [chk] using ih

/-- **Soundness of the checker.** If `chk p` says ok, no run of `p` in the non-alphabet world
performs a chain-mutating call, whatever the uninterpreted branches and loop counts do. -/
theorem chk_sound {p : Prog} {es : List String} {x : Exit} (h : Exec false p es x) (hok : (chk p).ok = true) :
    es = [] := by
  induction h with
  | skip => rfl
  | effect t => simp [chk] at hok
  | ret => rfl
  | brk => rfl
  | @seqFall a b es1 es2 x ha _ iha ihb =>
    have hf : (chk a).fall = true := exec_exit_allowed ha
    simp only [chk, hf, if_true, Bool.and_eq_true] at hok
    rw [iha hok.1, ihb hok.2]; rfl
  | @seqExit a b es x _ _ iha =>
    simp only [chk] at hok
    split at hok
    · simp only [Bool.and_eq_true] at hok
      exact iha hok.1
    · exact iha hok
  | branchL _ ih => simp only [chk, Bool.and_eq_true] at hok; exact ih hok.1
  | branchR _ ih => simp only [chk, Bool.and_eq_true] at hok; exact ih hok.2
  | loopDone => rfl
  | @loopStep b es1 es2 x y _ _ _ ih1 ih2 =>
    have hb : (chk b).ok = true := by simpa [chk] using hok
    rw [ih1 hb, ih2 hok]; rfl
  | loopBrk _ ih => exact ih (by simpa [chk] using hok)
  | loopRet _ ih => exact ih (by simpa [chk] using hok)
  | scopeRet _ ih => exact ih (by simpa [chk] using hok)
  | scopeOther _ _ ih => exact ih (by simpa [chk] using hok)
  | ifT h _ _ => cases h
  | ifF _ _ ih => exact ih (by simpa [chk] using hok)

open NeoFS.Gen

/-- The checker accepts every entry point regenerated from the current source: all `handle*` /
`process*` methods of the eight processors, the startup validator vote and the control request. -/
theorem all_entries_guarded_eval : irHandlers.all (fun e => guarded e.body) = true := by decide

theorem all_entries_guarded : ∀ e ∈ irHandlers, guarded e.body = true :=
  fun e he => List.all_eq_true.mp all_entries_guarded_eval e he

/-- **C35 (programs).** For every regenerated entry point, every run in the non-alphabet world
performs no chain-mutating morph client call. -/
theorem no_effect_outside_alphabet :
    ∀ e ∈ irHandlers, ∀ (es : List String) (x : Exit), Exec false e.body es x → es = [] :=
  fun e he _ _ h => chk_sound h (all_entries_guarded e he)

/-- `Server.IsAlphabet()` is literally `AlphabetIndex() >= 0` in the source -/
theorem server_isAlphabet_is_index_test : irServerIsAlphabetIsIndexTest = true := by decide

/-- the translator found the whole set of entry points (a vanishing handler list would make the
theorems above vacuous) -/
theorem entry_points_present : 40 ≤ irHandlers.length := by decide

/-- shape of the validator vote before the repair (`if index >= len(alphabet) { return }` is not an
alphabet test): rejected by the checker -/
example : guarded (.seq (.branch .ret .skip) (.loop (.effect "NotaryInvoke"))) = false := by decide

/-- the same shape with the repaired guard is accepted, and an alphabet member does reach the effect -/
example : guarded (.seq (.ifAlpha (.branch .ret .skip) .ret) (.loop (.effect "NotaryInvoke"))) = true := by decide

example : Exec true (.seq (.ifAlpha .skip .ret) (.effect "e")) ["e"] .fall :=
  .seqFall (.ifT rfl .skip) (.effect "e")

end NeoFS.IRSkel

namespace NeoFS.IRAuth

theorem keyPosition_ge_neg_one (key : Nat) (l : List Nat) : -1 ≤ keyPosition key l := by
  induction l with
  | nil => simp [keyPosition]
  | cons k ks ih =>
    unfold keyPosition
    split
    · omega
    · simp only; split <;> omega

/-- `keyPosition` is negative exactly when the key is absent -/
theorem keyPosition_neg_iff (key : Nat) (l : List Nat) : keyPosition key l < 0 ↔ key ∉ l := by
  induction l with
  | nil => simp [keyPosition]
  | cons k ks ih =>
    unfold keyPosition
    by_cases hk : k = key
    · simp [hk]
    · simp only [hk, if_false, List.mem_cons]
      have : ¬ key = k := fun h => hk h.symm
      split
      · rename_i hneg
        simp only [this, false_or]
        constructor
        · intro _; exact ih.mp hneg
        · intro _; omega
      · rename_i hnn
        simp only [this, false_or]
        constructor
        · intro h; omega
        · intro h; exact absurd (ih.mpr h) hnn

/-- a non-negative position is a valid index of the list -/
theorem keyPosition_lt_length (key : Nat) (l : List Nat) : keyPosition key l < l.length := by
  induction l with
  | nil => simp [keyPosition]
  | cons k ks ih =>
    unfold keyPosition
    simp only [List.length_cons]
    split
    · omega
    · split <;> omega

/-- **`IsAlphabet` is alphabet membership.** For every key, committee list and fetch outcome:
the node reports alphabet status exactly when the lists could be fetched and its key is in the
current committee (so index `-1` — absent key or failed lookup — is never alphabet). -/
theorem isAlphabet_iff_member (fails : Bool) (key : Nat) (committee : List Nat) :
    isAlphabet (alphabetIndex fails key committee) = true ↔ fails = false ∧ key ∈ committee := by
  unfold isAlphabet alphabetIndex
  cases fails
  · have hiff := keyPosition_neg_iff key committee
    simp only [Bool.false_eq_true, if_false, decide_eq_true_eq, true_and]
    constructor
    · intro h
      apply Classical.byContradiction
      intro hc
      have := hiff.mpr hc
      omega
    · intro h
      apply Classical.byContradiction
      intro hc
      exact (hiff.mp (by omega)) h
  · simp

/-- the repaired vote guard: any vote invocation implies a valid alphabet index, for all indexes
(including every negative one) -/
theorem vote_requires_alphabet (aidx : Int) (n nval : Nat) (v : Bool) (h : 0 < voteInvokes aidx n nval v) :
    0 ≤ aidx ∧ aidx < n := by
  unfold voteInvokes at h
  split at h
  · omega
  · omega

/-- … hence alphabet membership of the node's key -/
theorem vote_requires_membership (fails : Bool) (key : Nat) (committee : List Nat) (n nval : Nat) (v : Bool)
    (h : 0 < voteInvokes (alphabetIndex fails key committee) n nval v) : fails = false ∧ key ∈ committee := by
  have := (vote_requires_alphabet _ _ _ _ h).1
  exact (isAlphabet_iff_member fails key committee).mp (by simpa [isAlphabet] using this)

/-- the guard before the repair let index `-1` through (replayed on the real code: `ir vote
iridx=-1 aidx=-1 n=4 nval=1 voted=0 ferr=0` sent four vote requests) -/
theorem vote_unfixed_counterexample : ¬ (∀ (iridx : Int) (n nval : Nat) (v : Bool), 0 < voteInvokesUnfixed iridx n nval v → 0 ≤ iridx) := by
  intro h
  have := h (-1) 4 1 false (by decide)
  omega

theorem epoch_requires_alphabet (alpha changed : Bool) (cnrs : Nat) (h : 0 < epochEffects alpha changed cnrs) : alpha = true := by
  unfold epochEffects at h
  cases alpha <;> simp_all

theorem epoch_unfixed_counterexample : ¬ (∀ alpha changed cnrs, 0 < epochEffectsUnfixed alpha changed cnrs → alpha = true) := by
  intro h
  have := h false true 2 (by decide)
  cases this

theorem tick_requires_alphabet (alpha : Bool) (h : 0 < tickEffects alpha) : alpha = true := by
  unfold tickEffects at h
  cases alpha <;> simp_all

theorem emit_requires_alphabet (aidx : Int) (n nodes em : Nat) (h : 0 < emitEffects aidx n nodes em) : 0 ≤ aidx ∧ aidx < n := by
  unfold emitEffects at h
  split at h
  · omega
  · split at h <;> omega

/-- non-vacuity: an alphabet member at a valid index does vote / emit -/
example : voteInvokes 2 4 1 false = 4 := by decide
example : emitEffects 1 4 3 9 = 4 := by decide
example : isAlphabet (alphabetIndex false 0 [5, 0, 7]) = true := by decide

end NeoFS.IRAuth

/-!
Part 3 (the indexer's cache): which key lists a guard evaluation is answered from, for every node
life — every sequence of process starts, key-list changes, failing and recovering lookups, waits,
RPC reconnections and guard evaluations (`NeoFS.IRIndexer.Op`).
-/
namespace NeoFS.IRIndexer
open NeoFS.IRAuth

/-- a non-negative `keyPosition` is the position of the key -/
theorem keyPosition_getElem (key : Nat) (l : List Nat) (h : 0 ≤ keyPosition key l) :
    l[(keyPosition key l).toNat]? = some key := by
  induction l with
  | nil => simp [keyPosition] at h
  | cons k ks ih =>
    unfold keyPosition at h ⊢
    by_cases hk : k = key
    · simp [hk]
    · simp only [hk, if_false] at h ⊢
      split
      · rename_i hneg; simp only [hneg, if_true] at h; omega
      · rename_i hnn
        have h0 : 0 ≤ keyPosition key ks := by omega
        have : (keyPosition key ks + 1).toNat = (keyPosition key ks).toNat + 1 := by omega
        rw [this, List.getElem?_cons_succ]
        exact ih h0

/-- The cache invariant: whenever the cache is fresh, no lookup failed and the cache was not dropped
since the last complete successful lookup, and the cached indexes are exactly the positions of the
key in the two lists THAT lookup read. -/
def Inv (key : Nat) (s : St) : Prop :=
  fresh s = true →
    s.dirty = false ∧ ∃ g, s.good = some g ∧ s.ind = indOf key g.irL g.commL ∧ s.last = some g.readAt

theorem inv_init (key : Nat) : Inv key {} := by
  intro h; cases h

/-! the four branches of `update` -/

theorem update_fresh (key : Nat) (s : St) (h : fresh s = true) : update key s = (s, { ind := some s.ind }) := by
  unfold update; simp [h]

theorem update_failIR (key : Nat) (s : St) (h : fresh s = false) (h1 : 0 < s.failIR) :
    update key s = ({ s with failIR := s.failIR - 1, dirty := true }, { ind := none, rpcIR := 1 }) := by
  unfold update; simp [h, h1]

theorem update_failComm (key : Nat) (s : St) (h : fresh s = false) (h1 : s.failIR = 0) (h2 : 0 < s.failComm) :
    update key s = ({ s with ind := { s.ind with irIdx := keyPosition key s.irList, irSize := s.irList.length },
                             failComm := s.failComm - 1, dirty := true },
                    { ind := none, rpcIR := 1, rpcComm := 1 }) := by
  unfold update; simp [h, h1, h2]

theorem update_ok (key : Nat) (s : St) (h : fresh s = false) (h1 : s.failIR = 0) (h2 : s.failComm = 0) :
    update key s = ({ s with ind := indOf key s.irList s.commList, last := some s.now,
                             good := some ⟨s.irList, s.commList, s.now⟩, dirty := false },
                    { ind := some (indOf key s.irList s.commList), rpcIR := 1, rpcComm := 1 }) := by
  unfold update; simp [h, h1, h2, indOf]

/-- case analysis over the branches -/
theorem update_cases (key : Nat) (s : St) :
    (fresh s = true) ∨ (fresh s = false ∧ 0 < s.failIR) ∨ (fresh s = false ∧ s.failIR = 0 ∧ 0 < s.failComm) ∨
    (fresh s = false ∧ s.failIR = 0 ∧ s.failComm = 0) := by
  cases hf : fresh s
  · right
    rcases Nat.eq_zero_or_pos s.failIR with h1 | h1
    · rcases Nat.eq_zero_or_pos s.failComm with h2 | h2
      · exact Or.inr (Or.inr ⟨rfl, h1, h2⟩)
      · exact Or.inr (Or.inl ⟨rfl, h1, h2⟩)
    · exact Or.inl ⟨rfl, h1⟩
  · exact Or.inl rfl

theorem update_inv (key : Nat) (s : St) (h : Inv key s) : Inv key (update key s).1 := by
  rcases update_cases key s with hf | ⟨hf, h1⟩ | ⟨hf, h1, h2⟩ | ⟨hf, h1, h2⟩
  · rw [update_fresh key s hf]; exact h
  · rw [update_failIR key s hf h1]; intro hf'
    have : fresh s = true := hf'
    rw [hf] at this; cases this
  · rw [update_failComm key s hf h1 h2]; intro hf'
    have : fresh s = true := hf'
    rw [hf] at this; cases this
  · rw [update_ok key s hf h1 h2]
    intro _
    exact ⟨rfl, ⟨s.irList, s.commList, s.now⟩, rfl, rfl, rfl⟩

theorem step_inv (key : Nat) (s : St) (op : Op) (h : Inv key s) : Inv key (step key s op) := by
  cases op with
  | start t => intro hf; simp [step, fresh] at hf
  | chain i c => exact h
  | fail a b => exact h
  | wait d =>
    intro hf
    have hf0 : fresh s = true := by
      have hf1 : fresh { s with now := s.now + d } = true := hf
      unfold fresh at hf1 ⊢
      cases hl : s.last with
      | none => simp [hl] at hf1
      | some t =>
        simp only [hl, decide_eq_true_eq] at hf1 ⊢
        omega
    exact h hf0
  | reset => intro hf; simp [step, reset, fresh] at hf
  | eval => exact update_inv key s h

theorem run_inv (key : Nat) (ops : List Op) (s : St) (h : Inv key s) : Inv key (run key s ops) := by
  induction ops generalizing s with
  | nil => exact h
  | cons o os ih => exact ih _ (step_inv key s o h)

/-- the ghost flag means what it says: a failed lookup and a dropped cache raise it … -/
theorem failed_lookup_marks (key : Nat) (s : St) (h : (update key s).2.ind = none) :
    (update key s).1.dirty = true ∧ fresh (update key s).1 = false := by
  rcases update_cases key s with hf | ⟨hf, h1⟩ | ⟨hf, h1, h2⟩ | ⟨hf, h1, h2⟩
  · rw [update_fresh key s hf] at h; cases h
  · rw [update_failIR key s hf h1]; exact ⟨rfl, hf⟩
  · rw [update_failComm key s hf h1 h2]; exact ⟨rfl, hf⟩
  · rw [update_ok key s hf h1 h2] at h; cases h

theorem reset_marks (s : St) : (reset s).dirty = true ∧ fresh (reset s) = false := ⟨rfl, rfl⟩

/-- … and only a complete successful lookup clears it, recording the lists it read -/
theorem success_records (key : Nat) (s : St) (hf : fresh s = false) (i : Ind) (h : (update key s).2.ind = some i) :
    (update key s).1.good = some ⟨s.irList, s.commList, s.now⟩ ∧ (update key s).1.dirty = false ∧
    i = indOf key s.irList s.commList ∧ s.failIR = 0 ∧ s.failComm = 0 := by
  rcases update_cases key s with hf' | ⟨_, h1⟩ | ⟨_, h1, h2⟩ | ⟨_, h1, h2⟩
  · rw [hf] at hf'; cases hf'
  · rw [update_failIR key s hf h1] at h; cases h
  · rw [update_failComm key s hf h1 h2] at h; cases h
  · rw [update_ok key s hf h1 h2] at h ⊢
    simp only [Option.some.injEq] at h
    exact ⟨rfl, rfl, h.symm, h1, h2⟩

/-- **C35 (cache).** In every node life, whatever a guard evaluation is answered with comes from the most
recent complete SUCCESSFUL lookup: no lookup failed and the cache was not dropped since, the indexes
are the key's positions in the lists that lookup read, and the lookup is younger than the cache
timeout or was made by this very evaluation (then it read the chain's current lists). -/
theorem served_from_last_successful_lookup (key : Nat) (ops : List Op) (i : Ind)
    (h : (update key (run key {} ops)).2.ind = some i) :
    (update key (run key {} ops)).1.dirty = false ∧
    ∃ g, (update key (run key {} ops)).1.good = some g ∧ i = indOf key g.irL g.commL ∧
      ((run key {} ops).now - g.readAt < (run key {} ops).timeout ∨
       (g.readAt = (run key {} ops).now ∧ g.irL = (run key {} ops).irList ∧ g.commL = (run key {} ops).commList)) := by
  have hinv := run_inv key ops {} (inv_init key)
  generalize run key {} ops = s at h hinv
  cases hf : fresh s
  · obtain ⟨hg, hd, hi, _, _⟩ := success_records key s hf i h
    exact ⟨hd, ⟨s.irList, s.commList, s.now⟩, hg, hi, Or.inr ⟨rfl, rfl, rfl⟩⟩
  · obtain ⟨hd, g, hg, hind, hlast⟩ := hinv hf
    rw [update_fresh key s hf] at h ⊢
    simp only [Option.some.injEq] at h
    refine ⟨hd, g, hg, ?_, Or.inl ?_⟩
    · rw [← h]; exact hind
    · unfold fresh at hf
      rw [hlast] at hf
      simpa using hf

/-- after a failed lookup or a reconnection nothing is served from the cache: as long as the flag is
up, every guard evaluation goes to the chain -/
theorem dirty_forces_lookup (key : Nat) (ops : List Op) (h : (run key {} ops).dirty = true) :
    fresh (run key {} ops) = false ∧ (update key (run key {} ops)).2.rpcIR = 1 := by
  have hinv := run_inv key ops {} (inv_init key)
  generalize run key {} ops = s at h hinv
  have hff : fresh s = false := by
    cases hc : fresh s
    · rfl
    · have := (hinv hc).1; rw [h] at this; cases this
  refine ⟨hff, ?_⟩
  rcases update_cases key s with hf | ⟨hf, h1⟩ | ⟨hf, h1, h2⟩ | ⟨hf, h1, h2⟩
  · rw [hff] at hf; cases hf
  · rw [update_failIR key s hf h1]
  · rw [update_failComm key s hf h1 h2]
  · rw [update_ok key s hf h1 h2]

/-- a guard passes (non-negative alphabet index) only if the node's key is AT THAT POSITION of the
committee read by the most recent successful lookup -/
theorem guard_pass_requires_position (key : Nat) (ops : List Op)
    (h : 0 ≤ alphabetIndexOf (update key (run key {} ops)).2) :
    (update key (run key {} ops)).1.dirty = false ∧
    ∃ g, (update key (run key {} ops)).1.good = some g ∧
      g.commL[(alphabetIndexOf (update key (run key {} ops)).2).toNat]? = some key := by
  unfold alphabetIndexOf at h ⊢
  cases hr : (update key (run key {} ops)).2.ind with
  | none => rw [hr] at h; simp at h
  | some i =>
    rw [hr] at h
    obtain ⟨hd, g, hg, hi, _⟩ := served_from_last_successful_lookup key ops i hr
    refine ⟨hd, g, hg, ?_⟩
    simp only at h ⊢
    have ha : i.aIdx = keyPosition key g.commL := by rw [hi]; rfl
    rw [ha] at h ⊢
    exact keyPosition_getElem key g.commL h

/-- every modelled alphabet action (validator vote, gas emission, epoch tick) taken on the answer of a
guard evaluation requires that position, inside the range of the alphabet contracts where one is used -/
theorem acts_only_on_last_successful_lookup (key : Nat) (ops : List Op) (n nval nodes em : Nat) (v : Bool)
    (h : 0 < voteInvokes (alphabetIndexOf (update key (run key {} ops)).2) n nval v ∨
         0 < emitEffects (alphabetIndexOf (update key (run key {} ops)).2) n nodes em ∨
         0 < tickEffects (isAlphabet (alphabetIndexOf (update key (run key {} ops)).2))) :
    (update key (run key {} ops)).1.dirty = false ∧
    ∃ g, (update key (run key {} ops)).1.good = some g ∧
      g.commL[(alphabetIndexOf (update key (run key {} ops)).2).toNat]? = some key := by
  apply guard_pass_requires_position
  rcases h with h | h | h
  · exact (vote_requires_alphabet _ _ _ _ h).1
  · exact (emit_requires_alphabet _ _ _ _ h).1
  · have := tick_requires_alphabet _ h
    simpa [isAlphabet] using this

/-- node lives over the variant that stamps the cache before the lookups -/
def runStampFirst (key : Nat) (s : St) (ops : List Op) : St :=
  ops.foldl (fun s o => match o with | .eval => (updateStampFirst key s).1 | o => step key s o) s

/-- stamping `lastAccess` before the lookups breaks the statement: a node outside the committee whose
first committee lookup fails is then served the zero-valued index 0 from the "fresh" cache -/
theorem stamp_first_counterexample :
    ¬ (∀ (ops : List Op), 0 ≤ alphabetIndexOf (updateStampFirst 0 (runStampFirst 0 {} ops)).2 →
        (updateStampFirst 0 (runStampFirst 0 {} ops)).1.dirty = false) := by
  intro h
  have := h [.chain [0, 1, 2, 3] [1, 2, 3], .fail 0 1, .eval] (by decide)
  revert this
  decide

/-- non-vacuity: a member is served its position from the cache, a dismissed member is not after a reconnection -/
example : alphabetIndexOf (update 0 (run 0 {} [.chain [0, 1] [1, 0, 2], .eval, .wait 9])).2 = 1 := by decide
example : (update 0 (run 0 {} [.chain [0, 1] [1, 0, 2], .eval, .wait 9])).2.rpcIR = 0 := by decide
example : alphabetIndexOf (update 0 (run 0 {} [.chain [0, 1] [1, 0, 2], .eval, .chain [0, 1] [1, 2], .reset, .fail 0 1, .eval])).2 = -1 := by decide

end NeoFS.IRIndexer
