import NeoFS.Model.Skel
import NeoFS.Model.IRAuth
import NeoFS.Gen.IRHandlers
/-!
# C35 — inner ring nodes outside the alphabet never act with alphabet authority

Part 1 (programs): a soundness theorem for the skeleton checker, and the checker evaluated by the
kernel on EVERY entry point regenerated from the source (`NeoFS.Gen.irHandlers`).
Part 2 (inputs): the index arithmetic behind `IsAlphabet` and the guards written as integer
conditions, for all keys, lists and indexes.
-/
namespace NeoFS.IRSkel

/-- every exit the semantics can take (non-alphabet world) is one the checker reports -/
theorem exec_exit_allowed {p : Prog} {es : List String} {x : Exit} (h : Exec false p es x) :
    (chk p).allows x = true := by
  induction h with
  | skip => rfl
  | effect t => rfl
  | ret => rfl
  | brk => rfl
  | @seqFall a b es1 es2 x _ _ iha ihb =>
    have hf : (chk a).fall = true := iha
    cases x <;> simp_all [chk, Res.allows]
  | @seqExit a b es x _ hne iha =>
    simp only [chk]
    split
    · cases x <;> simp_all [Res.allows]
    · exact iha
  | @branchL a b es x _ ih => cases x <;> simp_all [chk, Res.allows]
  | @branchR a b es x _ ih => cases x <;> simp_all [chk, Res.allows]
  | loopDone => rfl
  | @loopStep b es1 es2 x y _ _ _ _ ih2 => exact ih2
  | loopBrk _ _ => rfl
  | loopRet _ ih => simpa [chk, Res.allows] using ih
  | scopeRet _ ih => simp_all [chk, Res.allows]
  | @scopeOther b es x _ hne ih => cases x <;> simp_all [chk, Res.allows]
  | ifT h _ _ => cases h
  | ifF _ _ ih => simpa [chk] using ih

/-- **Soundness of the checker.** If `chk p` says ok, no run of `p` in the non-alphabet world
performs a chain-mutating call, whatever the uninterpreted branches and loop counts do. -/
theorem chk_sound {p : Prog} {es : List String} {x : Exit} (h : Exec false p es x) (hok : (chk p).ok = true) :
    es = [] := by
  induction h with
  | skip => rfl
  | effect t => simp [chk] at hok
  | ret => rfl
  | brk => rfl
  | @seqFall a b es1 es2 x ha _ iha ihb =>
    have hf : (chk a).fall = true := exec_exit_allowed ha
    simp only [chk, hf, if_true, Bool.and_eq_true] at hok
    rw [iha hok.1, ihb hok.2]; rfl
  | @seqExit a b es x _ _ iha =>
    simp only [chk] at hok
    split at hok
    · simp only [Bool.and_eq_true] at hok
      exact iha hok.1
    · exact iha hok
  | branchL _ ih => simp only [chk, Bool.and_eq_true] at hok; exact ih hok.1
  | branchR _ ih => simp only [chk, Bool.and_eq_true] at hok; exact ih hok.2
  | loopDone => rfl
  | @loopStep b es1 es2 x y _ _ _ ih1 ih2 =>
    have hb : (chk b).ok = true := by simpa [chk] using hok
    rw [ih1 hb, ih2 hok]; rfl
  | loopBrk _ ih => exact ih (by simpa [chk] using hok)
  | loopRet _ ih => exact ih (by simpa [chk] using hok)
  | scopeRet _ ih => exact ih (by simpa [chk] using hok)
  | scopeOther _ _ ih => exact ih (by simpa [chk] using hok)
  | ifT h _ _ => cases h
  | ifF _ _ ih => exact ih (by simpa [chk] using hok)

open NeoFS.Gen

/-- The checker accepts every entry point regenerated from the current source: all `handle*` /
`process*` methods of the eight processors, the startup validator vote and the control request. -/
theorem all_entries_guarded_eval : irHandlers.all (fun e => guarded e.body) = true := by decide

theorem all_entries_guarded : ∀ e ∈ irHandlers, guarded e.body = true :=
  fun e he => List.all_eq_true.mp all_entries_guarded_eval e he

/-- **C35 (programs).** For every regenerated entry point, every run in the non-alphabet world
performs no chain-mutating morph client call. -/
theorem no_effect_outside_alphabet :
    ∀ e ∈ irHandlers, ∀ (es : List String) (x : Exit), Exec false e.body es x → es = [] :=
  fun e he _ _ h => chk_sound h (all_entries_guarded e he)

/-- `Server.IsAlphabet()` is literally `AlphabetIndex() >= 0` in the source -/
theorem server_isAlphabet_is_index_test : irServerIsAlphabetIsIndexTest = true := by decide

/-- the translator found the whole set of entry points (a vanishing handler list would make the
theorems above vacuous) -/
theorem entry_points_present : 40 ≤ irHandlers.length := by decide

/-- shape of the validator vote before the repair (`if index >= len(alphabet) { return }` is not an
alphabet test): rejected by the checker -/
example : guarded (.seq (.branch .ret .skip) (.loop (.effect "NotaryInvoke"))) = false := by decide

/-- the same shape with the repaired guard is accepted, and an alphabet member does reach the effect -/
example : guarded (.seq (.ifAlpha (.branch .ret .skip) .ret) (.loop (.effect "NotaryInvoke"))) = true := by decide

example : Exec true (.seq (.ifAlpha .skip .ret) (.effect "e")) ["e"] .fall :=
  .seqFall (.ifT rfl .skip) (.effect "e")

end NeoFS.IRSkel

namespace NeoFS.IRAuth

theorem keyPosition_ge_neg_one (key : Nat) (l : List Nat) : -1 ≤ keyPosition key l := by
  induction l with
  | nil => simp [keyPosition]
  | cons k ks ih =>
    unfold keyPosition
    split
    · omega
    · simp only; split <;> omega

/-- `keyPosition` is negative exactly when the key is absent -/
theorem keyPosition_neg_iff (key : Nat) (l : List Nat) : keyPosition key l < 0 ↔ key ∉ l := by
  induction l with
  | nil => simp [keyPosition]
  | cons k ks ih =>
    unfold keyPosition
    by_cases hk : k = key
    · simp [hk]
    · simp only [hk, if_false, List.mem_cons]
      have : ¬ key = k := fun h => hk h.symm
      split
      · rename_i hneg
        simp only [this, false_or]
        constructor
        · intro _; exact ih.mp hneg
        · intro _; omega
      · rename_i hnn
        simp only [this, false_or]
        constructor
        · intro h; omega
        · intro h; exact absurd (ih.mpr h) hnn

/-- a non-negative position is a valid index of the list -/
theorem keyPosition_lt_length (key : Nat) (l : List Nat) : keyPosition key l < l.length := by
  induction l with
  | nil => simp [keyPosition]
  | cons k ks ih =>
    unfold keyPosition
    simp only [List.length_cons]
    split
    · omega
    · split <;> omega

/-- **`IsAlphabet` is alphabet membership.** For every key, committee list and fetch outcome:
the node reports alphabet status exactly when the lists could be fetched and its key is in the
current committee (so index `-1` — absent key or failed lookup — is never alphabet). -/
theorem isAlphabet_iff_member (fails : Bool) (key : Nat) (committee : List Nat) :
    isAlphabet (alphabetIndex fails key committee) = true ↔ fails = false ∧ key ∈ committee := by
  unfold isAlphabet alphabetIndex
  cases fails
  · have hiff := keyPosition_neg_iff key committee
    simp only [Bool.false_eq_true, if_false, decide_eq_true_eq, true_and]
    constructor
    · intro h
      apply Classical.byContradiction
      intro hc
      have := hiff.mpr hc
      omega
    · intro h
      apply Classical.byContradiction
      intro hc
      exact (hiff.mp (by omega)) h
  · simp

/-- the repaired vote guard: any vote invocation implies a valid alphabet index, for all indexes
(including every negative one) -/
theorem vote_requires_alphabet (aidx : Int) (n nval : Nat) (v : Bool) (h : 0 < voteInvokes aidx n nval v) :
    0 ≤ aidx ∧ aidx < n := by
  unfold voteInvokes at h
  split at h
  · omega
  · omega

/-- … hence alphabet membership of the node's key -/
theorem vote_requires_membership (fails : Bool) (key : Nat) (committee : List Nat) (n nval : Nat) (v : Bool)
    (h : 0 < voteInvokes (alphabetIndex fails key committee) n nval v) : fails = false ∧ key ∈ committee := by
  have := (vote_requires_alphabet _ _ _ _ h).1
  exact (isAlphabet_iff_member fails key committee).mp (by simpa [isAlphabet] using this)

/-- the guard before the repair let index `-1` through (replayed on the real code: `ir vote
iridx=-1 aidx=-1 n=4 nval=1 voted=0 ferr=0` sent four vote requests) -/
theorem vote_unfixed_counterexample : ¬ (∀ (iridx : Int) (n nval : Nat) (v : Bool), 0 < voteInvokesUnfixed iridx n nval v → 0 ≤ iridx) := by
  intro h
  have := h (-1) 4 1 false (by decide)
  omega

theorem epoch_requires_alphabet (alpha changed : Bool) (cnrs : Nat) (h : 0 < epochEffects alpha changed cnrs) : alpha = true := by
  unfold epochEffects at h
  cases alpha <;> simp_all

theorem epoch_unfixed_counterexample : ¬ (∀ alpha changed cnrs, 0 < epochEffectsUnfixed alpha changed cnrs → alpha = true) := by
  intro h
  have := h false true 2 (by decide)
  cases this

theorem tick_requires_alphabet (alpha : Bool) (h : 0 < tickEffects alpha) : alpha = true := by
  unfold tickEffects at h
  cases alpha <;> simp_all

theorem emit_requires_alphabet (aidx : Int) (n nodes em : Nat) (h : 0 < emitEffects aidx n nodes em) : 0 ≤ aidx ∧ aidx < n := by
  unfold emitEffects at h
  split at h
  · omega
  · split at h <;> omega

/-- non-vacuity: an alphabet member at a valid index does vote / emit -/
example : voteInvokes 2 4 1 false = 4 := by decide
example : emitEffects 1 4 3 9 = 4 := by decide
example : isAlphabet (alphabetIndex false 0 [5, 0, 7]) = true := by decide

end NeoFS.IRAuth
