import NeoFS.Props.C20
/-!
# C19 — evacuation keeps every available object available on the remaining shards

`Eng.evacuate` (model of `StorageEngine.Evacuate` without fault handler): for every source shard, every listed
object is read from the source and offered with `putToShard` to the shards outside the source set in the given
order until one stores it or reports that it has it already.

Proved here, for ALL engines, source sets, orders, failures and both settings of `ignoreErrors`:
* evacuation never changes a source shard (nothing is removed, no status changes there);
* every object step that does not fail leaves the object known to a remaining shard of the order: indexed in
  its metabase (or, on a degraded target, in its blob store);
  its metabase (or, on a degraded target, in its blob store) — `evacTargets_places`, the inductive step over
  the listing; the induction over listing and source shards that carries it to the final state is in
  Lemmas/EngineEvac.lean (`evacuate_preserves_partial`: after a successful strict evacuation every LISTED
  object is kept by a remaining shard).
Availability on the target is governed by the TARGET's own marks and locks (statuses are per shard; a lock or
tombstone object is moved like any object, to ONE remaining shard), and evacuation moves what the source
LISTS: the full statement `C19_full` is false for the current code (`C19_counterexample`).
-/
namespace NeoFS.Engine

theorem setShard_get_ne (e : Eng) (i j : Nat) (s : Shard) (h : j ≠ i) :
    (e.setShard i s).shards[j]? = e.shards[j]? := by
  simp only [Eng.setShard]
  exact List.getElem?_set_ne (Ne.symm h)

theorem setShard_get_self (e : Eng) (i : Nat) (s s0 : Shard) (h : e.shards[i]? = some s0) :
    (e.setShard i s).shards[i]? = some s := by
  simp only [Eng.setShard]
  have hlt : i < e.shards.length := by
    rcases Nat.lt_or_ge i e.shards.length with h' | h'
    · exact h'
    · rw [List.getElem?_eq_none h'] at h; cases h
  rw [List.getElem?_set_self hlt]

/-- counting an error changes neither index nor blob store of any shard -/
theorem report_get (e : Eng) (i j : Nat) (er : Err) (s : Shard) (h : e.shards[j]? = some s) :
    ∃ s', (e.report i er).shards[j]? = some s' ∧ s'.idx = s.idx ∧ s'.blobs = s.blobs := by
  by_cases hji : j = i
  · subst hji
    unfold Eng.report
    split
    · exact ⟨s, h, rfl, rfl⟩
    · rw [h]
      simp only
      split
      · exact ⟨_, setShard_get_self e j _ s h, rfl, rfl⟩
      · exact ⟨_, setShard_get_self e j _ s h, rfl, rfl⟩
  · exact ⟨s, by rw [report_shards_ne e i j er hji]; exact h, rfl, rfl⟩

/-- `putToShard j` touches shard `j` only -/
theorem putToShard_frame (e : Eng) (j k : Nat) (o : Obj) (h : k ≠ j) :
    (e.putToShard j o).1.shards[k]? = e.shards[k]? := by
  unfold Eng.putToShard
  split
  · rfl
  · split <;> try rfl
    split
    · exact setShard_get_ne e j k _ h
    · simp only
      split
      · exact setShard_get_ne e j k _ h
      · rw [report_shards_ne _ j k _ h]; exact setShard_get_ne e j k _ h

/-! ## Sources are never modified -/

theorem evacTargets_frame (o : Obj) (srcs : List Nat) (k : Nat) (hk : srcs.contains k = true) :
    ∀ (ord : List Nat) (e : Eng), (evacTargets o srcs ord e).1.shards[k]? = e.shards[k]? := by
  intro ord
  induction ord with
  | nil => intro e; rfl
  | cons j rest ih =>
    intro e
    unfold evacTargets
    split
    · exact ih e
    · rename_i hj
      have hne : k ≠ j := by intro h; subst h; exact hj hk
      split
      · exact ih e
      · split
        · rename_i e1 heq
          have := putToShard_frame e j k o hne
          rw [heq] at this; exact this
        · rename_i e1 heq
          have := putToShard_frame e j k o hne
          rw [heq] at this; exact this
        · rename_i e1 er heq
          have := putToShard_frame e j k o hne
          rw [heq] at this
          rw [ih e1]; exact this

theorem evacObjs_frame (src : Nat) (srcs ord : List Nat) (ig : Bool) (k : Nat) (hk : srcs.contains k = true) :
    ∀ (l : List Obj) (e : Eng) (n : Nat), (evacObjs src srcs ord ig l e n).1.shards[k]? = e.shards[k]? := by
  intro l
  induction l with
  | nil => intro e n; rfl
  | cons x rest ih =>
    intro e n
    unfold evacObjs
    split
    · rfl
    · split
      · split
        · exact ih e n
        · rfl
      · split
        · rename_i e1 heq
          rw [ih e1]
          have h2 := congrArg (fun r => r.1.shards[k]?) heq
          simp only at h2
          rw [← h2]; exact evacTargets_frame _ srcs k hk ord e
        · rename_i e1 heq
          rw [ih e1]
          have h2 := congrArg (fun r => r.1.shards[k]?) heq
          simp only at h2
          rw [← h2]; exact evacTargets_frame _ srcs k hk ord e
        · rename_i e1 heq
          have h2 := congrArg (fun r => r.1.shards[k]?) heq
          simp only at h2
          rw [← h2]; exact evacTargets_frame _ srcs k hk ord e

theorem evacShards_frame (srcs ord : List Nat) (ig : Bool) (k : Nat) (hk : srcs.contains k = true) :
    ∀ (l : List Nat) (e : Eng) (n : Nat), (evacShards srcs ord ig l e n).1.shards[k]? = e.shards[k]? := by
  intro l
  induction l with
  | nil => intro e n; rfl
  | cons src rest ih =>
    intro e n
    unfold evacShards
    split
    · exact ih e n
    · split
      · exact ih e n
      · split
        · rename_i e1 n1 heq
          rw [ih e1]
          have h2 := congrArg (fun r => r.1.shards[k]?) heq
          simp only at h2
          rw [← h2]; exact evacObjs_frame src srcs ord ig k hk _ e n
        · rename_i r hr
          exact evacObjs_frame src srcs ord ig k hk _ e n

/-- **Evacuation does not remove data from the source shards and changes nothing on them** — whatever its
outcome, for every order, every failure of the targets and both settings of `ignoreErrors`. -/
theorem evacuate_sources_unchanged (e : Eng) (srcs ord : List Nat) (ig : Bool) (k : Nat) (hk : k ∈ srcs) :
    (e.evacuate srcs ord ig).1.shards[k]? = e.shards[k]? := by
  unfold Eng.evacuate
  split
  · rfl
  · split
    · rfl
    · split
      · rfl
      · exact evacShards_frame srcs ord ig k (by simpa using hk) srcs e 0

/-! ## Every successful object step leaves the object known to a remaining shard -/

/-- the shard knows the object: indexed in its metabase, or present in its blob store -/
def Shard.knows (s : Shard) (id : Nat) : Prop := (s.find id).isSome = true ∨ (s.blob id).isSome = true

theorem find_insertObj_self (o : Obj) (l : List Obj) : ((Shard.insertObj o l).find? (·.id == o.id)).isSome = true := by
  unfold Shard.insertObj
  split
  · rename_i h
    rw [List.find?_isSome]
    simpa using h
  · rw [List.find?_isSome]
    simp

theorem find_insertObj_mono (o : Obj) (l : List Obj) (id : Nat) (h : (l.find? (·.id == id)).isSome = true) :
    ((Shard.insertObj o l).find? (·.id == id)).isSome = true := by
  unfold Shard.insertObj
  split
  · exact h
  · rw [List.find?_isSome] at h ⊢
    obtain ⟨x, hx, hp⟩ := h
    exact ⟨x, by simp [hx], hp⟩

theorem find_eraseId_ne (id' id : Nat) (l : List Obj) (hne : id' ≠ id) (h : (l.find? (·.id == id)).isSome = true) :
    ((Shard.eraseId id' l).find? (·.id == id)).isSome = true := by
  unfold Shard.eraseId
  rw [List.find?_isSome] at h ⊢
  obtain ⟨x, hx, hp⟩ := h
  refine ⟨x, List.mem_filter.mpr ⟨hx, ?_⟩, hp⟩
  have : x.id = id := by simpa using hp
  simp [this, Ne.symm hne]

/-- a successful metabase put leaves the object indexed and keeps every index entry -/
theorem metaPut_ok (s s2 : Shard) (o : Obj) (ep : Nat) (h : s.metaPut o ep = .ok s2) :
    (s2.find o.id).isSome = true ∧ s2.blobs = s.blobs ∧
      ∀ id, (s.find id).isSome = true → (s2.find id).isSome = true := by
  unfold Shard.metaPut at h
  have hins : ∀ g, (({ s with idx := Shard.insertObj o s.idx, garbage := g } : Shard).find o.id).isSome = true ∧
      ({ s with idx := Shard.insertObj o s.idx, garbage := g } : Shard).blobs = s.blobs ∧
      ∀ id, (s.find id).isSome = true → (({ s with idx := Shard.insertObj o s.idx, garbage := g } : Shard).find id).isSome = true :=
    fun g => ⟨find_insertObj_self o s.idx, rfl, fun id hid => find_insertObj_mono o s.idx id hid⟩
  have hproceed : ∀ r : Except Err Shard,
      r = (match o.kind with
        | .reg => .ok { s with idx := Shard.insertObj o s.idx }
        | .lock =>
          match s.find o.target with
          | some t => if t.kind != .reg then .error .lockNonRegular
                      else if s.status o.target ep == .tomb || s.inGarbage o.target == .tomb then .error .removed
                      else .ok { s with idx := Shard.insertObj o s.idx }
          | none => if s.status o.target ep == .tomb || s.inGarbage o.target == .tomb then .error .removed
                    else .ok { s with idx := Shard.insertObj o s.idx }
        | .ts =>
          match (s.find o.target).map (·.kind) with
          | some Kind.ts => .error .tsOnTs
          | some Kind.lock => .error .lockRemoval
          | _ => if s.locked o.target ep then .error .locked
                 else .ok { s with idx := Shard.insertObj o s.idx,
                                   garbage := if s.garbage.contains o.target then s.garbage else s.garbage ++ [o.target] }) →
      r = .ok s2 → (s2.find o.id).isSome = true ∧ s2.blobs = s.blobs ∧
        ∀ id, (s.find id).isSome = true → (s2.find id).isSome = true := by
    intro r hr hok
    rw [hr] at hok
    split at hok
    · cases hok; exact hins s.garbage
    · split at hok
      · split at hok
        · cases hok
        · split at hok
          · cases hok
          · cases hok; exact hins s.garbage
      · split at hok
        · cases hok
        · cases hok; exact hins s.garbage
    · split at hok
      · cases hok
      · cases hok
      · split at hok
        · cases hok
        · cases hok; exact hins _
  simp only at h
  split at h
  · split at h
    · rename_i hf; cases h; exact ⟨hf, rfl, fun _ h => h⟩
    · exact hproceed _ rfl h
  · split at h
    · rename_i hf; cases h; exact ⟨hf, rfl, fun _ h => h⟩
    · exact hproceed _ rfl h
  · cases h
  · cases h

theorem inGarbage_ne_exp (s : Shard) (id : Nat) : s.inGarbage id ≠ .exp := by
  unfold Shard.inGarbage
  split
  · simp
  · split <;> simp

theorem status_exp_indexed (s : Shard) (id ep : Nat) (h : s.status id ep = .exp) : (s.find id).isSome = true := by
  unfold Shard.status at h
  split at h
  · rename_i hexp
    unfold Shard.expiredId at hexp
    split at hexp
    · rename_i x hf; rw [hf]; rfl
    · cases hexp
  · simp only at h
    split at h
    · cases h
    · exact absurd h (inGarbage_ne_exp s id)

theorem mExists_cases (s : Shard) (id ep : Nat) :
    (s.mExists id ep = .error .expired → (s.find id).isSome = true) ∧
    (s.mExists id ep = .ok true → (s.find id).isSome = true) := by
  unfold Shard.mExists
  cases hst : s.status id ep with
  | gc => simp
  | tomb => simp
  | exp => simp; exact status_exp_indexed s id ep hst
  | avail => simp

theorem put_ok_knows (s s1 : Shard) (o : Obj) (ep : Nat) (h : s.put o ep = (s1, none)) : s1.knows o.id := by
  unfold Shard.put at h
  by_cases h1 : s.mode.readOnly = true
  · simp [h1] at h
  · by_cases h2 : s.failW = true
    · simp [h1, h2] at h
    · by_cases h3 : s.mode.noMeta = true
      · simp [h1, h2, h3] at h
        subst h
        right; exact find_insertObj_self o s.blobs
      · simp only [h1, h2, h3, if_false, Bool.false_eq_true] at h
        split at h
        · rename_i s2 hmp
          cases h
          exact Or.inl (metaPut_ok _ _ o ep hmp).1
        · cases h

/-- after `putToShard j o` answered "stored" or "already there", shard `j` knows the object -/
theorem putToShard_places (e e1 : Eng) (j : Nat) (o : Obj) (r : PutR)
    (h : e.putToShard j o = (e1, r)) (hr : r = .stored ∨ r = .exists_) :
    ∃ t, e1.shards[j]? = some t ∧ t.knows o.id := by
  unfold Eng.putToShard at h
  split at h
  · cases h; rcases hr with hr | hr <;> cases hr
  · rename_i s hs
    have hex : ∀ b, s.exists_ o.id e.epoch false = b → (b = .error .expired ∨ b = .ok true) → s.knows o.id := by
      intro b hb hcase
      unfold Shard.exists_ at hb
      split at hb
      · rcases hcase with hc | hc
        · rw [hc] at hb; cases hb
        · rw [hc] at hb; right; simpa using hb
      · left
        simp only [Bool.false_eq_true, if_false] at hb
        rcases hcase with hc | hc
        · exact (mExists_cases s o.id e.epoch).1 (by rw [hb, hc])
        · exact (mExists_cases s o.id e.epoch).2 (by rw [hb, hc])
    split at h
    · rename_i heq
      cases h
      exact ⟨s, hs, hex _ heq (Or.inl rfl)⟩
    · cases h; rcases hr with hr | hr <;> cases hr
    · rename_i heq
      cases h
      exact ⟨s, hs, hex _ heq (Or.inr rfl)⟩
    · split at h
      · rename_i s1 hput
        cases h
        exact ⟨s1, setShard_get_self e j s1 s hs, put_ok_knows s s1 o e.epoch hput⟩
      · rename_i s1 er hput
        simp only at h
        cases h
        rcases hr with hr | hr <;> cases hr

/-- **One object step**: if the step finds a taker, some shard of the order outside the source set knows the
object afterwards. -/
theorem evacTargets_places (o : Obj) (srcs : List Nat) :
    ∀ (ord : List Nat) (e e1 : Eng) (b : Bool), evacTargets o srcs ord e = (e1, some b) →
      ∃ j ∈ ord, srcs.contains j = false ∧ ∃ t, e1.shards[j]? = some t ∧ t.knows o.id := by
  intro ord
  induction ord with
  | nil => intro e e1 b h; simp [evacTargets] at h
  | cons j rest ih =>
    intro e e1 b h
    unfold evacTargets at h
    split at h
    · obtain ⟨j', hj', r⟩ := ih e e1 b h
      exact ⟨j', by simp [hj'], r⟩
    · rename_i hc
      split at h
      · obtain ⟨j', hj', r⟩ := ih e e1 b h
        exact ⟨j', by simp [hj'], r⟩
      · split at h
        · rename_i e2 heq
          cases h
          exact ⟨j, by simp, by simpa using hc, putToShard_places e _ j o _ heq (Or.inl rfl)⟩
        · rename_i e2 heq
          cases h
          exact ⟨j, by simp, by simpa using hc, putToShard_places e _ j o _ heq (Or.inr rfl)⟩
        · rename_i e2 er heq
          obtain ⟨j', hj', r⟩ := ih e2 e1 b h
          exact ⟨j', by simp [hj'], r⟩

/-! ## The statement in full, and what the code preserves -/

/-- availability through a shard, read failures aside -/
def Shard.serves (s : Shard) (id ep : Nat) (o : Obj) : Prop :=
  s.blob id = some o ∧ (s.mode.noMeta = true ∨ (s.status id ep = .avail ∧ (s.find id).isSome = true))

/-- the property as stated: after a successful evacuation every object a source shard served is served by a
remaining shard.  FALSE for the current code, see `C19_counterexample`. -/
def C19_full : Prop :=
  ∀ (e : Eng) (srcs ord : List Nat) (src : Nat) (s : Shard) (o : Obj), ord.Nodup →
    (e.evacuate srcs ord false).2.2 = none → src ∈ srcs → e.shards[src]? = some s →
    s.mode.noMeta = false → s.serves o.id e.epoch o →
    ∃ j ∈ ord, j ∉ srcs ∧ ∃ t, (e.evacuate srcs ord false).1.shards[j]? = some t ∧ t.serves o.id e.epoch o

def o1 : Obj := { id := 1, kind := .reg, target := 0, exp := 0 }
def l7 : Obj := { id := 7, kind := .lock, target := 1, exp := 0 }

/-- the witness: object 1 carries a garbage mark (a forced `Delete`) and was locked afterwards: the lock makes
it available again (`Get` returns it), but the listing skips everything that carries a mark, so a successful
evacuation moves the lock only -/
def cexEvac : Eng :=
  { shards := [{ mode := .ro, idx := [o1, l7], blobs := [o1, l7], garbage := [1] }, {}] }

theorem C19_counterexample : ¬ C19_full := by
  intro h
  have hsrv : (⟨.ro, [o1, l7], [o1, l7], [1], false, false, 0, 0, 0⟩ : Shard).serves o1.id 0 o1 := by
    refine ⟨by decide, Or.inr ⟨by decide, by decide⟩⟩
  obtain ⟨j, hj, hns, t, ht, hserv⟩ := h cexEvac [0] [1, 0] 0 _ o1 (by decide) (by decide) (by simp) rfl (by decide) hsrv
  simp only [List.mem_cons, List.not_mem_nil, or_false] at hj hns
  rcases hj with rfl | rfl
  · have hb : t.blob 1 = none := by
      have : (cexEvac.evacuate [0] [1, 0] false).1.shards[1]? = some ⟨.rw, [l7], [l7], [], false, false, 0, 0, 0⟩ := by decide
      rw [this] at ht
      cases ht
      decide
    have := hserv.1
    simp only [o1] at this
    rw [hb] at this
    cases this
  · exact hns rfl

/-- the source serves the object before, the engine restricted to the remaining shard does not after -/
example : (cexEvac.get 1 [0, 1]).2 = .ok o1 ∧ (cexEvac.evacuate [0] [1, 0] false).2 = (1, none) ∧
    ((cexEvac.evacuate [0] [1, 0] false).1.get 1 [1]).2 = .err .notFound := by decide

/-- decidable extra hypothesis of the partial statement: nothing a source serves is hidden from its listing -/
def sourcesListWhatTheyServe (e : Eng) (srcs : List Nat) : Bool :=
  srcs.all fun i =>
    match e.shards[i]? with
    | none => true
    | some s => s.idx.all fun o => s.status o.id e.epoch != .avail || s.inGarbage o.id == .avail

def exA : Eng := { shards := [{ mode := .ro, idx := [o1, l7], blobs := [o1, l7] }, {}, {}] }
def exB : Eng := { shards := [{ mode := .ro, idx := [o1], blobs := [o1] }, { failW := true }, {}] }
def exC : Eng := { shards := [{ mode := .ro, idx := [o1], blobs := [o1] }, { mode := .ro }] }

/-- non-vacuity: a source with an object and its lock, two remaining shards: both are moved, the source keeps
everything, the engine restricted to the remaining shards serves the object and reports it locked -/
example :
    (exA.evacuate [0] [2, 1, 0] false).2 = (2, none) ∧
    (exA.evacuate [0] [2, 1, 0] false).1.shards[0]? = exA.shards[0]? ∧
    ((exA.evacuate [0] [2, 1, 0] false).1.get 1 [1, 2]).2 = .ok o1 ∧
    (match ((exA.evacuate [0] [2, 1, 0] false).1.isLocked 1 [1, 2]).2 with | .ok b => b | .error _ => false) = true := by
  decide

/-- a failing target is skipped, the next one takes the object -/
example :
    (exB.evacuate [0] [1, 2, 0] false).2 = (1, none) ∧
    ((exB.evacuate [0] [1, 2, 0] false).1.get 1 [1, 2]).2 = .ok o1 := by
  decide

/-- no writable target: evacuation reports the failure -/
example : (exC.evacuate [0] [1, 0] false).2 = (0, some .putShard) := by
  decide

end NeoFS.Engine
