import NeoFS.Model.SigChain
import NeoFS.Gen.Wiring
/-!
# C31 — replication requests are accepted only from container nodes for container nodes

Theorems over EVERY request shape and EVERY environment (any current epoch, any pair of per-epoch node sets
incl. unreadable network maps and policy-application errors, any set of own keys, any storage verdict).
The signature primitive, the key / object decoders and the storage's full validation are inputs.
-/
namespace NeoFS.SigChain

/-- The callback-stopping iteration finds a key exactly when the lookups succeed and a key satisfying `p`
is among the nodes selected at the current epoch, or (only with `withPrev`, only if the epoch is not 0, and
only if the current network map was readable) at the previous epoch. -/
theorem forEachNode_found_iff (env : RepEnv) (wp : Bool) (p : Nat → Bool) :
    forEachNode env wp p = .done true ↔
      env.epochFails = false ∧ env.cnrFound = true ∧
      ∃ c, env.cur = some c ∧
        (c.any p = true ∨ (wp = true ∧ env.epoch ≠ 0 ∧ ∃ pv, env.prev = some pv ∧ pv.any p = true)) := by
  unfold forEachNode
  cases he : env.epochFails <;> simp
  cases hc : env.cnrFound <;> simp
  cases hcur : env.cur with
  | none => simp
  | some c =>
    simp only [Option.some.injEq, exists_eq_left']
    cases hany : c.any p <;> simp
    cases wp <;> simp
    · split <;> simp
    · by_cases h0 : env.epoch = 0 <;> simp [h0]
      · split <;> simp
      · cases hp : env.prev with
        | none => simp
        | some pv =>
          simp only [Option.some.injEq, exists_eq_left']
          cases hpv : pv.any p <;> simp
          split <;> simp

/-- The local node is among the nodes selected for the container at the CURRENT epoch. -/
def LocalInCurrent (env : RepEnv) : Prop :=
  env.epochFails = false ∧ env.cnrFound = true ∧
    ∃ ks, env.cur = some (.nodes ks) ∧ ∃ k ∈ ks, k ∈ env.own

/-- The key is among the nodes selected at the current epoch, or at the previous epoch (if there is one). -/
def SenderInLastTwo (env : RepEnv) (key : Nat) : Prop :=
  (∃ ks, env.cur = some (.nodes ks) ∧ key ∈ ks) ∨
  (env.epoch ≠ 0 ∧ ∃ ks, env.prev = some (.nodes ks) ∧ key ∈ ks)

theorem Sel.any_iff (s : Sel) (p : Nat → Bool) : s.any p = true ↔ ∃ ks, s = .nodes ks ∧ ∃ k ∈ ks, p k = true := by
  cases s with
  | policyErr => simp [Sel.any]
  | nodes ks => simp [Sel.any]

/-- All request-side conditions the handler demands before it consults the network. -/
def WellFormed (r : RepReq) : Prop :=
  r.objPresent = true ∧ r.idPresent = true ∧ r.sigPresent = true ∧ r.keyEmpty = false ∧ r.signEmpty = false ∧
  (r.scheme = 0 ∨ r.scheme = 1 ∨ r.scheme = 2) ∧ r.hdrPresent = true ∧ r.cnrPresent = true ∧ r.cnrValid = true ∧
  r.keyDecodes = true ∧ r.sigValid = true

theorem preCheck_none_iff (r : RepReq) : preCheck r = none ↔ WellFormed r := by
  unfold preCheck WellFormed
  rw [Option.map_eq_none_iff, List.find?_eq_none]
  simp only [reqChecks, List.mem_cons, List.not_mem_nil, or_false, forall_eq_or_imp, forall_eq]
  simp only [Bool.not_eq_true', Bool.not_eq_false, Bool.not_eq_true, Bool.or_eq_true, beq_iff_eq]
  constructor
  · rintro ⟨a, b, c, d, e, f, g, h, i, j, k⟩
    refine ⟨a, b, c, d, e, ?_, g, h, i, j, k⟩
    rcases f with (f | f) | f
    · exact Or.inl f
    · exact Or.inr (Or.inl f)
    · exact Or.inr (Or.inr f)
  · rintro ⟨a, b, c, d, e, f, g, h, i, j, k⟩
    refine ⟨a, b, c, d, e, ?_, g, h, i, j, k⟩
    rcases f with f | f | f
    · exact Or.inl (Or.inl f)
    · exact Or.inl (Or.inr f)
    · exact Or.inr f

/-- A request-side refusal names a check that really failed. -/
theorem preCheck_some_failed (r : RepReq) (s : RepStatus) (h : preCheck r = some s) :
    (true, s) ∈ reqChecks r := by
  unfold preCheck at h
  rw [Option.map_eq_some_iff] at h
  obtain ⟨⟨b, s'⟩, hf, hs⟩ := h
  have hm := List.mem_of_find?_eq_some hf
  have hb := List.find?_some hf
  simp only at hs hb
  subst hs; subst hb
  exact hm

theorem netCheck_none_iff (env : RepEnv) (key : Nat) :
    netCheck env key = none ↔ LocalInCurrent env ∧ SenderInLastTwo env key := by
  have hL : forEachNode env false (fun k => env.own.contains k) = .done true ↔ LocalInCurrent env := by
    rw [forEachNode_found_iff]
    unfold LocalInCurrent
    constructor
    · rintro ⟨a, b, c, hc, h⟩
      refine ⟨a, b, ?_⟩
      rcases h with h | ⟨h, _⟩
      · obtain ⟨ks, rfl, k, hk, hp⟩ := (Sel.any_iff c _).mp h
        exact ⟨ks, hc, k, hk, by simpa using hp⟩
      · cases h
    · rintro ⟨a, b, ks, hc, k, hk, ho⟩
      exact ⟨a, b, _, hc, Or.inl ((Sel.any_iff _ _).mpr ⟨ks, rfl, k, hk, by simpa using ho⟩)⟩
  have hS : LocalInCurrent env →
      (forEachNode env true (fun k => k == key) = .done true ↔ SenderInLastTwo env key) := by
    rintro ⟨a, b, ks, hc, _⟩
    rw [forEachNode_found_iff]
    unfold SenderInLastTwo
    constructor
    · rintro ⟨_, _, c, hc', h⟩
      rcases h with h | ⟨_, h0, pv, hp, h⟩
      · obtain ⟨ks', rfl, k, hk, hp⟩ := (Sel.any_iff c _).mp h
        exact Or.inl ⟨ks', hc', by simp at hp; rw [← hp]; exact hk⟩
      · obtain ⟨ks', rfl, k, hk, hp'⟩ := (Sel.any_iff pv _).mp h
        exact Or.inr ⟨h0, ks', hp, by simp at hp'; rw [← hp']; exact hk⟩
    · rintro (⟨ks', hc', hk⟩ | ⟨h0, ks', hp, hk⟩)
      · exact ⟨a, b, _, hc', Or.inl ((Sel.any_iff _ _).mpr ⟨ks', rfl, key, hk, by simp⟩)⟩
      · exact ⟨a, b, _, hc, Or.inr ⟨rfl, h0, _, hp, (Sel.any_iff _ _).mpr ⟨ks', rfl, key, hk, by simp⟩⟩⟩
  unfold netCheck
  cases hl : forEachNode env false (fun k => env.own.contains k) with
  | notFound => simp; intro h; rw [← hL, hl] at h; cases h
  | otherErr => simp; intro h; rw [← hL, hl] at h; cases h
  | done f =>
    cases f with
    | false => simp; intro h; rw [← hL, hl] at h; cases h
    | true =>
      have hloc : LocalInCurrent env := hL.mp hl
      simp only [hloc, true_and]
      cases hs : forEachNode env true (fun k => k == key) with
      | notFound => simp; intro h; rw [← hS hloc, hs] at h; cases h
      | otherErr => simp; intro h; rw [← hS hloc, hs] at h; cases h
      | done f =>
        cases f with
        | false => simp; intro h; rw [← hS hloc, hs] at h; cases h
        | true => simp; exact (hS hloc).mp hs

theorem forEachNode_notFound (env : RepEnv) (wp : Bool) (p : Nat → Bool)
    (h : forEachNode env wp p = .notFound) : env.cnrFound = false := by
  unfold forEachNode at h
  cases he : env.epochFails <;> simp [he] at h
  cases hc : env.cnrFound
  · rfl
  · exfalso
    simp [hc] at h
    cases hcur : env.cur <;> simp [hcur] at h
    repeat' (split at h <;> try (simp at h))

/-- The network-side refusals are specific. -/
theorem netCheck_some_sound (env : RepEnv) (key : Nat) (s : RepStatus) (h : netCheck env key = some s) :
    (s = .deniedServer → ¬ LocalInCurrent env) ∧
    (s = .deniedClient → LocalInCurrent env ∧ ¬ SenderInLastTwo env key) ∧
    (s = .cnrNotFound → env.cnrFound = false) ∧
    (s = .cnrNotFound ∨ s = .internalPolicy ∨ s = .deniedServer ∨ s = .deniedClient) := by
  have hnone := netCheck_none_iff env key
  have hnf : ∀ wp p, forEachNode env wp p = .notFound → env.cnrFound = false :=
    fun wp p hp => forEachNode_notFound env wp p hp
  unfold netCheck at h hnone
  cases hl : forEachNode env false (fun k => env.own.contains k) with
  | notFound => rw [hl] at h; simp at h; subst h; simp; exact hnf _ _ hl
  | otherErr => rw [hl] at h; simp at h; subst h; simp
  | done f =>
    rw [hl] at h hnone
    cases f with
    | false =>
      simp at h; subst h; simp
      intro hloc
      have := (forEachNode_found_iff env false (fun k => env.own.contains k)).mpr
        (by
          obtain ⟨a, b, ks, hc, k, hk, ho⟩ := hloc
          exact ⟨a, b, _, hc, Or.inl ((Sel.any_iff _ _).mpr ⟨ks, rfl, k, hk, by simpa using ho⟩)⟩)
      rw [hl] at this; cases this
    | true =>
      simp only at h hnone
      cases hs : forEachNode env true (fun k => k == key) with
      | notFound => rw [hs] at h; simp at h; subst h; simp; exact hnf _ _ hs
      | otherErr => rw [hs] at h; simp at h; subst h; simp
      | done f =>
        rw [hs] at h hnone
        cases f with
        | true => simp at h
        | false =>
          simp at h; subst h; simp
          -- local is in (first check found it), sender is not (else netCheck would be none)
          have hloc : LocalInCurrent env := by
            obtain ⟨a, b, c, hc, h⟩ := (forEachNode_found_iff env false _).mp hl
            refine ⟨a, b, ?_⟩
            rcases h with h | ⟨h, _⟩
            · obtain ⟨ks, rfl, k, hk, hp⟩ := (Sel.any_iff c _).mp h
              exact ⟨ks, hc, k, hk, by simpa using hp⟩
            · cases h
          refine ⟨hloc, fun hsnd => ?_⟩
          have := hnone.mpr ⟨hloc, hsnd⟩
          simp at this

/-- **C31 main theorem.** The storage is called IF AND ONLY IF the request is well-formed, its signature
verifies over the object id under the stated key, the LOCAL node is a container node at the current epoch,
the SENDER key is a container node at the current or the previous epoch, and the object decodes. -/
theorem store_called_iff (env : RepEnv) (r : RepReq) :
    (replicate env r).storeCalled = true ↔
      WellFormed r ∧ LocalInCurrent env ∧ SenderInLastTwo env r.key ∧ r.objDecodes = true := by
  unfold replicate
  cases hp : preCheck r with
  | some s =>
    have : ¬ WellFormed r := by rw [← preCheck_none_iff, hp]; simp
    simp [refuse, this]
  | none =>
    have hw := (preCheck_none_iff r).mp hp
    cases hn : netCheck env r.key with
    | some s =>
      have : ¬ (LocalInCurrent env ∧ SenderInLastTwo env r.key) := by rw [← netCheck_none_iff, hn]; simp
      simp only [refuse, Bool.false_eq_true, false_iff]
      rintro ⟨_, a, b, _⟩; exact this ⟨a, b⟩
    | none =>
      obtain ⟨a, b⟩ := (netCheck_none_iff env r.key).mp hn
      simp only [hw, a, b, true_and]
      unfold finish
      cases r.objDecodes <;> simp [refuse]
      cases env.store <;> simp
      cases r.signObject <;> simp
      cases env.signFails <;> simp

/-- Success status exactly when the storage was called and accepted the object (its full validation and
write) and — if an object signature was requested — the signing succeeded. -/
theorem ok_iff (env : RepEnv) (r : RepReq) :
    (replicate env r).status = .ok ↔
      (replicate env r).storeCalled = true ∧ env.store = .ok ∧ (r.signObject = true → env.signFails = false) := by
  unfold replicate
  cases hp : preCheck r with
  | some s =>
    have := preCheck_some_failed r s hp
    simp only [refuse, Bool.false_eq_true, false_and, iff_false]
    intro h; subst h
    simp [reqChecks] at this
  | none =>
    cases hn : netCheck env r.key with
    | some s =>
      have := (netCheck_some_sound env r.key s hn).2.2.2
      simp only [refuse, Bool.false_eq_true, false_and, iff_false]
      intro h; subst h; simp at this
    | none =>
      simp only
      unfold finish
      cases r.objDecodes <;> simp [refuse]
      cases env.store <;> simp
      cases r.signObject <;> simp
      cases env.signFails <;> simp

/-- No storage effect ⇒ an error status (never OK); and every status other than ok / busy / store failure /
sign failure comes without a storage effect. -/
theorem not_stored_not_ok (env : RepEnv) (r : RepReq) (h : (replicate env r).storeCalled = false) :
    (replicate env r).status ≠ .ok := by
  intro hok
  have := (ok_iff env r).mp hok
  rw [h] at this
  exact absurd this.1 (by simp)

theorem refusal_no_effect (env : RepEnv) (r : RepReq)
    (h : (replicate env r).status ≠ .ok ∧ (replicate env r).status ≠ .busy ∧
         (replicate env r).status ≠ .internalStore ∧ (replicate env r).status ≠ .internalSign) :
    (replicate env r).storeCalled = false := by
  revert h
  unfold replicate
  cases preCheck r with
  | some s => simp [refuse]
  | none =>
    cases netCheck env r.key with
    | some s => simp [refuse]
    | none =>
      simp only
      unfold finish
      cases r.objDecodes <;> simp [refuse]
      cases env.store <;> simp
      cases r.signObject <;> simp
      cases env.signFails <;> simp

/-- Each refusal is specific: the status implies that the condition it names failed (and, for the two
access refusals, which of the two memberships failed). -/
theorem refusal_sound (env : RepEnv) (r : RepReq) :
    ((replicate env r).status = .badSigMismatch → r.sigValid = false) ∧
    ((replicate env r).status = .badSigMissing → r.sigPresent = false) ∧
    ((replicate env r).status = .badKeyInvalid → r.keyDecodes = false) ∧
    ((replicate env r).status = .badScheme → ¬ (r.scheme = 0 ∨ r.scheme = 1 ∨ r.scheme = 2)) ∧
    ((replicate env r).status = .badCnrInvalid → r.cnrValid = false) ∧
    ((replicate env r).status = .badObject → r.objDecodes = false) ∧
    ((replicate env r).status = .deniedServer → ¬ LocalInCurrent env) ∧
    ((replicate env r).status = .deniedClient → LocalInCurrent env ∧ ¬ SenderInLastTwo env r.key) ∧
    ((replicate env r).status = .cnrNotFound → env.cnrFound = false) := by
  unfold replicate
  cases hp : preCheck r with
  | some s =>
    have hm := preCheck_some_failed r s hp
    simp only [refuse]
    simp only [reqChecks, List.mem_cons, Prod.mk.injEq, List.not_mem_nil, or_false] at hm
    refine ⟨?_, ?_, ?_, ?_, ?_, ?_, ?_, ?_, ?_⟩ <;> intro hs <;> subst hs <;> simp at hm ⊢
    all_goals first | exact hm | exact ⟨hm.1.1, hm.1.2, hm.2⟩
  | none =>
    cases hn : netCheck env r.key with
    | some s =>
      obtain ⟨a, b, c, d⟩ := netCheck_some_sound env r.key s hn
      simp only [refuse]
      refine ⟨?_, ?_, ?_, ?_, ?_, ?_, a, b, c⟩ <;> intro hs <;> subst hs <;> simp at d
    | none =>
      simp only
      unfold finish
      cases hd : r.objDecodes <;> simp [refuse]
      all_goals (cases env.store <;> simp)
      all_goals (cases r.signObject <;> simp)
      all_goals (cases env.signFails <;> simp)

/-- The response carries an object signature only together with success and a storage effect. -/
theorem signed_only_after_store (env : RepEnv) (r : RepReq) (h : (replicate env r).signed = true) :
    (replicate env r).status = .ok ∧ (replicate env r).storeCalled = true ∧ r.signObject = true := by
  revert h
  unfold replicate
  cases preCheck r with
  | some s => simp [refuse]
  | none =>
    cases netCheck env r.key with
    | some s => simp [refuse]
    | none =>
      simp only
      unfold finish
      cases r.objDecodes <;> simp [refuse]
      cases env.store <;> simp
      cases r.signObject <;> simp
      cases env.signFails <;> simp

/-! ## Non-vacuity and boundary facts -/

def exEnv : RepEnv :=
  { epochFails := false, cnrFound := true, epoch := 7, cur := some (.nodes [1, 2, 3]), prev := some (.nodes [3, 4]),
    own := [2], store := .ok, signFails := false }

def exRep (key : Nat) : RepReq :=
  { objPresent := true, idPresent := true, sigPresent := true, keyEmpty := false, signEmpty := false, scheme := 1,
    hdrPresent := true, cnrPresent := true, cnrValid := true, keyDecodes := true, sigValid := true, key := key,
    objDecodes := true, signObject := false }

example : (replicate exEnv (exRep 1)).storeCalled = true := by decide
/-- a sender that was a container node only in the previous epoch is accepted -/
example : replicate exEnv (exRep 4) = { status := .ok, storeCalled := true } := by decide
example : replicate exEnv (exRep 5) = refuse .deniedClient := by decide
/-- at epoch 0 there is no previous epoch to consult -/
example : replicate { exEnv with epoch := 0 } (exRep 4) = refuse .deniedClient := by decide
/-- the local node must be a container node NOW: membership in the previous epoch only is not enough -/
example : replicate { exEnv with own := [4] } (exRep 1) = refuse .deniedServer := by decide
example : replicate exEnv { exRep 1 with sigValid := false } = refuse .badSigMismatch := by decide
/-- a policy error at the current epoch does not stop a sender known from the previous epoch at the
iteration level, but the local-node check (current epoch only) already refuses -/
example : replicate { exEnv with cur := some .policyErr } (exRep 4) = refuse .internalPolicy := by decide
example : forEachNode { exEnv with cur := some .policyErr } true (fun k => k == 4) = .done true := by decide

/-- **Production wiring** (regenerated from `cmd/neofs-node/object.go` on every run, `Gen/Wiring.lean`): the `FSChain`
the node hands to `Server.Replicate` answers the "local node" question from the CURRENT epoch only
(`netCheck`'s `forEachNode env false`), the "sender" question from the last two epochs (`forEachNode env true`), and the
storage step is `put.Service.ValidateAndStoreObjectLocally`. The adapters are plain delegations, so the theorems above,
stated for `placement.Service`'s two iterators, are statements about the running node. -/
theorem wiring_matches_model :
    Gen.Wiring.fsChain_forEachNode = "placement.ForEachContainerNodePublicKey" ∧
    Gen.Wiring.fsChain_forEachNodeTwoEpochs = "placement.ForEachContainerNodePublicKeyInLastTwoEpochs" ∧
    Gen.Wiring.storage_verifyAndStore = "putSvc.ValidateAndStoreObjectLocally" := by decide

end NeoFS.SigChain
