import NeoFS.Model.SigChain
/-!
# C33 — request signature chains are accepted only if every layer verifies

All theorems are over an ARBITRARY signature primitive `S : Scheme` (any decision function), arbitrary
encoders `E : Enc`, arbitrary chain depths and arbitrary layer contents. Nothing cryptographic is proved:
"`checkSig … = .ok`" is the model's name for "the code's signature check of this (key, scheme, signature)
over exactly these bytes succeeds".
-/
namespace NeoFS.SigChain

variable (S : Scheme) (n3on : Bool) (E : Enc)

/-- The signature field is present and its check over `msg` succeeds. -/
def SigOK (o : Option Sig) (msg : Bytes) : Prop :=
  ∃ s, o = some s ∧ checkSig S n3on msg s = .ok

theorem sigStep_none_iff (o : Option Sig) (msg : Bytes) (a : Cause) (b : SigErr → Cause) :
    sigStep S n3on o msg a b = none ↔ SigOK S n3on o msg := by
  unfold sigStep SigOK
  cases o with
  | none => simp
  | some s =>
    simp only [Option.some.injEq, exists_eq_left']
    split <;> simp_all

/-- What the chain variant (outermost meta version < 2.25 or absent) demands of layer `j`: meta signature
over the encoding of meta header `j` (with its origins), origin signature over the encoding of verification
header `j+1` (with its origins; the nil header at the innermost layer), body signature exactly at the
innermost layer and absent everywhere else. -/
def LayerOK (body : Bytes) (ms : List MLayer) (vs : List VLayer) (j : Nat) (v : VLayer) : Prop :=
  SigOK S n3on v.metaSig (E.encM (ms.drop j)) ∧
  SigOK S n3on v.originSig (E.encV (vs.drop (j + 1))) ∧
  (if j + 1 = vs.length then SigOK S n3on v.bodySig body else v.bodySig = none)

theorem forall_lt_cons {α : Type} (v : α) (vo : List α) (P : (j : Nat) → α → Prop) :
    (∀ j (h : j < (v :: vo).length), P j (v :: vo)[j]) ↔
      P 0 v ∧ ∀ j (h : j < vo.length), P (j + 1) vo[j] := by
  constructor
  · intro h
    refine ⟨h 0 (by simp), fun j hj => ?_⟩
    have := h (j + 1) (by simp; omega)
    simpa using this
  · rintro ⟨h0, hs⟩ j hj
    cases j with
    | zero => simpa using h0
    | succ k => simpa using hs k (by simpa using hj)

/-- The loop in the chain variant, from any depth `i`: it answers ok exactly when every remaining layer is
in order, and it never dereferences a nil meta header, provided the two chains have the same number of
origins (which `verifyReq` has checked). Induction over the verification chain. -/
theorem walk_chain_iff (body : Bytes) : ∀ (vs : List VLayer) (i : Nat) (ms : List MLayer),
    vs ≠ [] → origins ms = origins vs →
    (walk S n3on E body true i ms vs = .ok ↔
      ∀ j (h : j < vs.length), LayerOK S n3on E body ms vs j vs[j]) := by
  intro vs
  induction vs with
  | nil => intro i ms h; exact absurd rfl h
  | cons v vo ih =>
    intro i ms _ hlen
    rw [forall_lt_cons v vo (LayerOK S n3on E body ms (v :: vo))]
    unfold walk
    cases hm : sigStep S n3on v.metaSig (E.encM ms) .missingMetaSig .invalidMetaSig with
    | some c =>
      have : ¬ SigOK S n3on v.metaSig (E.encM ms) := by
        rw [← sigStep_none_iff S n3on _ _ .missingMetaSig .invalidMetaSig, hm]; simp
      simp [LayerOK, this]
    | none =>
      have hM := (sigStep_none_iff S n3on _ _ _ _).mp hm
      simp only [if_true]
      cases ho : sigStep S n3on v.originSig (E.encV vo) .missingOriginSig .invalidOriginSig with
      | some c =>
        have : ¬ SigOK S n3on v.originSig (E.encV vo) := by
          rw [← sigStep_none_iff S n3on _ _ .missingOriginSig .invalidOriginSig, ho]; simp
        simp [LayerOK, this]
      | none =>
        have hO := (sigStep_none_iff S n3on _ _ _ _).mp ho
        cases vo with
        | nil =>
          simp only [Bool.not_true, List.isEmpty_nil, Bool.or_true, if_true]
          cases hb : sigStep S n3on v.bodySig body .missingBodySig .invalidBodySig with
          | some c =>
            have : ¬ SigOK S n3on v.bodySig body := by
              rw [← sigStep_none_iff S n3on _ _ .missingBodySig .invalidBodySig, hb]; simp
            simp [LayerOK, this]
          | none =>
            have hB := (sigStep_none_iff S n3on _ _ _ _).mp hb
            simp [LayerOK, hB]
            exact ⟨by simpa using hM, by simpa using hO⟩
        | cons v' vo' =>
          simp only [Bool.not_true, List.isEmpty_cons, Bool.or_false, Bool.false_eq_true, if_false]
          cases hbs : v.bodySig with
          | some b =>
            simp [LayerOK, hbs]
          | none =>
            simp only [Option.isSome_none, Bool.false_eq_true, if_false]
            cases ms with
            | nil => simp [origins] at hlen
            | cons m mo =>
              have hl' : origins mo = origins (v' :: vo') := by
                simp [origins] at hlen ⊢; omega
              rw [ih (i + 1) mo (by simp) hl']
              have h0 : LayerOK S n3on E body (m :: mo) (v :: v' :: vo') 0 v := by
                refine ⟨by simpa using hM, by simpa using hO, ?_⟩
                simp [hbs]
              simp only [h0, true_and]
              constructor
              · intro h j hj
                obtain ⟨a, b, c⟩ := h j hj
                refine ⟨by simpa using a, by simpa using b, ?_⟩
                simpa using c
              · intro h j hj
                obtain ⟨a, b, c⟩ := h j hj
                refine ⟨by simpa using a, by simpa using b, ?_⟩
                simpa using c

/-- In the ≥ 2.25 variant only the outermost layer is looked at: its meta and body signatures. -/
theorem walk_flat_iff (body : Bytes) (v : VLayer) (vo : List VLayer) (i : Nat) (ms : List MLayer) :
    walk S n3on E body false i ms (v :: vo) = .ok ↔
      SigOK S n3on v.metaSig (E.encM ms) ∧ SigOK S n3on v.bodySig body := by
  unfold walk
  cases hm : sigStep S n3on v.metaSig (E.encM ms) .missingMetaSig .invalidMetaSig with
  | some c =>
    have : ¬ SigOK S n3on v.metaSig (E.encM ms) := by
      rw [← sigStep_none_iff S n3on _ _ .missingMetaSig .invalidMetaSig, hm]; simp
    simp [this]
  | none =>
    have hM := (sigStep_none_iff S n3on _ _ _ _).mp hm
    simp only [Bool.false_eq_true, if_false, Bool.not_false, Bool.true_or, if_true]
    cases hb : sigStep S n3on v.bodySig body .missingBodySig .invalidBodySig with
    | some c =>
      have : ¬ SigOK S n3on v.bodySig body := by
        rw [← sigStep_none_iff S n3on _ _ .missingBodySig .invalidBodySig, hb]; simp
      simp [this]
    | none =>
      have hB := (sigStep_none_iff S n3on _ _ _ _).mp hb
      simp [hM, hB]

/-- The declarative acceptance condition of `VerifyRequestWithBufferN3`. -/
def Accepted (r : Req) : Prop :=
  r.vs ≠ [] ∧
  if needsOriginSig r.metas then
    origins r.metas = origins r.vs ∧
    ∀ j (h : j < r.vs.length), LayerOK S n3on E r.body r.metas r.vs j r.vs[j]
  else
    ∃ v vo, r.vs = v :: vo ∧ SigOK S n3on v.metaSig (E.encM r.metas) ∧ SigOK S n3on v.bodySig r.body

/-- **C33 main theorem.** For every request (any depth of either chain, any contents), every signature
primitive and both variants: verification answers ok IF AND ONLY IF a verification header is present and
— chain variant — the chains have equal depth, EVERY layer's meta signature verifies over that layer's meta
header, EVERY layer's origin signature verifies over the next verification header, the innermost layer's
body signature verifies over the body and no outer layer carries a body signature; — ≥ 2.25 variant —
the outermost layer's meta and body signatures verify. -/
theorem accepts_iff (r : Req) : verifyReq S n3on E r = .ok ↔ Accepted S n3on E r := by
  unfold verifyReq Accepted
  cases hvs : r.vs with
  | nil => simp
  | cons v vo =>
    simp only [List.isEmpty_cons, Bool.false_eq_true, if_false, ne_eq, reduceCtorEq, not_false_eq_true, true_and]
    cases hchk : needsOriginSig r.metas with
    | true =>
      simp only [Bool.true_and, if_true]
      by_cases hl : origins r.metas = origins (v :: vo)
      · have : (origins r.metas != origins (v :: vo)) = false := by simp [hl]
        rw [this]
        simp only [Bool.false_eq_true, if_false]
        rw [walk_chain_iff S n3on E r.body (v :: vo) 0 r.metas (by simp) hl]
        simp [hl]
      · have : (origins r.metas != origins (v :: vo)) = true := by simp [hl]
        rw [this]
        simp [hl]
    | false =>
      simp only [Bool.false_and, Bool.false_eq_true, if_false]
      rw [walk_flat_iff]
      constructor
      · intro h; exact ⟨v, vo, rfl, h⟩
      · rintro ⟨v', vo', he, h⟩
        cases he; exact h

/-- The depth check protects the loop: no request makes it read the origin of a nil meta header. -/
theorem walk_no_nilDeref (body : Bytes) (chk : Bool) : ∀ (vs : List VLayer) (i : Nat) (ms : List MLayer),
    (chk = true → origins ms = origins vs) →
    walk S n3on E body chk i ms vs ≠ .nilDeref := by
  intro vs
  induction vs with
  | nil => intro i ms _; simp [walk]
  | cons v vo ih =>
    intro i ms hlen
    unfold walk
    split
    · simp
    · split
      · simp
      · split
        · split <;> simp
        · rename_i hcond
          split
          · simp
          · cases ms with
            | nil =>
              exfalso
              cases chk with
              | false => simp at hcond
              | true =>
                have := hlen rfl
                cases vo with
                | nil => simp at hcond
                | cons a b => simp [origins] at this
            | cons m mo =>
              simp only
              apply ih
              intro hc
              have := hlen hc
              cases vo with
              | nil => subst hc; simp at hcond
              | cons a b => simp [origins] at this ⊢; omega

theorem verifyReq_no_nilDeref (r : Req) : verifyReq S n3on E r ≠ .nilDeref := by
  unfold verifyReq
  split
  · simp
  · simp only
    split
    · simp
    · rename_i h
      apply walk_no_nilDeref
      intro hc
      simpa [hc] using h

/-- A reported layer error always names an existing layer (depth < length of the verification chain,
counted from the start depth). -/
theorem walk_layer_bound (body : Bytes) (chk : Bool) : ∀ (vs : List VLayer) (i : Nat) (ms : List MLayer) (d : Nat) (c : Cause),
    walk S n3on E body chk i ms vs = .layer d c → i ≤ d ∧ d < i + vs.length := by
  intro vs
  induction vs with
  | nil => intro i ms d c h; simp [walk] at h
  | cons v vo ih =>
    intro i ms d c h
    unfold walk at h
    split at h
    · simp only [Res.layer.injEq] at h; simp; omega
    · split at h
      · simp only [Res.layer.injEq] at h; simp; omega
      · split at h
        · split at h
          · simp only [Res.layer.injEq] at h; simp; omega
          · simp at h
        · split at h
          · simp only [Res.layer.injEq] at h; simp; omega
          · split at h
            · simp at h
            · have := ih _ _ _ _ h
              simp; omega

/-! ## The exemption -/

/-- The exemption condition read off `requestNeedsSignature`. -/
def Exempt (trusted : Bool) (r : Req) : Prop :=
  r.vs = [] ∧ ∃ m mo, r.metas = m :: mo ∧ m.ttl = 1 ∧ trusted = true

theorem needsSignature_false_iff (trusted : Bool) (r : Req) :
    needsSignature trusted r = false ↔ Exempt trusted r := by
  unfold needsSignature Exempt
  cases hv : r.vs with
  | cons v vo => simp
  | nil =>
    cases hm : r.metas with
    | nil => simp
    | cons m mo =>
      by_cases ht : m.ttl = 1 <;> cases trusted <;> simp [ht]

/-- **Acceptance through the three entry points**: a request is let through iff its signature chain is
accepted, or — only through the context-aware entry points — it carries NO verification header, has a meta
header with TTL exactly 1 and arrived over an authenticated peer connection. -/
theorem entry_iff (api : Api) (trusted : Bool) (r : Req) :
    entry S E api trusted r = .ok ↔
      (api ≠ .plain ∧ Exempt trusted r) ∨
      Accepted S (api == .n3) E r := by
  have hnot : Exempt trusted r → ¬ Accepted S (api == .n3) E r := by
    rintro ⟨h, _⟩ ⟨h', _⟩; exact h' h
  cases api with
  | plain =>
    simp only [entry, ne_eq, not_true_eq_false, false_and, false_or]
    exact accepts_iff S false E r
  | ctx =>
    simp only [entry, ne_eq, reduceCtorEq, not_false_eq_true, true_and]
    cases hn : needsSignature trusted r with
    | true =>
      have : ¬ Exempt trusted r := by rw [← needsSignature_false_iff]; simp [hn]
      simp only [if_true, this, false_or]
      exact accepts_iff S false E r
    | false =>
      have := (needsSignature_false_iff trusted r).mp hn
      simp [this]
  | n3 =>
    simp only [entry, ne_eq, reduceCtorEq, not_false_eq_true, true_and]
    cases hn : needsSignature trusted r with
    | true =>
      have : ¬ Exempt trusted r := by rw [← needsSignature_false_iff]; simp [hn]
      simp only [if_true, this, false_or]
      exact accepts_iff S true E r
    | false =>
      have := (needsSignature_false_iff trusted r).mp hn
      simp [this]

/-- A request that carries a verification header is never exempt, whatever TTL and peer. -/
theorem no_exemption_with_header (api : Api) (trusted : Bool) (r : Req) (h : r.vs ≠ []) :
    entry S E api trusted r = .ok ↔ Accepted S (api == .n3) E r := by
  rw [entry_iff]
  constructor
  · rintro (⟨_, hv, _⟩ | h')
    · exact absurd hv h
    · exact h'
  · exact Or.inr

/-! ## Tampering

`Binding`: the ideal-scheme assumption — one signature value (key, scheme, signature bytes) is accepted for
at most one message. Stated as a hypothesis about the parameter `S`; satisfiable (`bindingScheme`). -/

def Binding : Prop :=
  ∀ (s : Sig) (m m' : Bytes), checkSig S n3on m s = .ok → checkSig S n3on m' s = .ok → m = m'

theorem SigOK_binding (hB : Binding S n3on) {o : Option Sig} {m m' : Bytes}
    (h : SigOK S n3on o m) (h' : SigOK S n3on o m') : m = m' := by
  obtain ⟨s, hs, hc⟩ := h
  obtain ⟨s', hs', hc'⟩ := h'
  rw [hs] at hs'; cases hs'
  exact hB s m m' hc hc'

/-- Changing the body bytes of an accepted request (everything else untouched) makes it rejected. -/
theorem tamper_body (hB : Binding S n3on) (r : Req) (body' : Bytes)
    (hacc : verifyReq S n3on E r = .ok) (hne : body' ≠ r.body) :
    verifyReq S n3on E { r with body := body' } ≠ .ok := by
  rw [accepts_iff] at hacc
  intro h'
  rw [accepts_iff] at h'
  obtain ⟨hv, hacc⟩ := hacc
  obtain ⟨_, h'⟩ := h'
  simp only at h'
  split at hacc
  · rename_i hc
    rw [if_pos hc] at h'
    obtain ⟨_, hall⟩ := hacc
    obtain ⟨_, hall'⟩ := h'
    have hpos : r.vs.length - 1 < r.vs.length := by
      cases hvs : r.vs with
      | nil => exact absurd hvs hv
      | cons a b => simp
    obtain ⟨_, _, c⟩ := hall _ hpos
    obtain ⟨_, _, c'⟩ := hall' _ hpos
    have e : r.vs.length - 1 + 1 = r.vs.length := by omega
    rw [if_pos e] at c c'
    exact hne (SigOK_binding S n3on hB c' c)
  · rename_i hc
    rw [if_neg hc] at h'
    obtain ⟨v, vo, e, _, b⟩ := hacc
    obtain ⟨v', vo', e', _, b'⟩ := h'
    rw [e] at e'; cases e'
    exact hne (SigOK_binding S n3on hB b' b)

/-- Replacing the meta header chain so that the encoding seen by ANY checked layer `j` changes
(`j = 0` in the ≥ 2.25 variant; any `j` below the verification depth in the chain variant) makes an
accepted request rejected. -/
theorem tamper_meta (hB : Binding S n3on) (r : Req) (metas' : List MLayer) (j : Nat)
    (hacc : verifyReq S n3on E r = .ok) (hj : j < r.vs.length)
    (hmode : j = 0 ∨ (needsOriginSig r.metas = true ∧ needsOriginSig metas' = true))
    (hne : E.encM (metas'.drop j) ≠ E.encM (r.metas.drop j)) :
    verifyReq S n3on E { r with metas := metas' } ≠ .ok := by
  rw [accepts_iff] at hacc
  intro h'
  rw [accepts_iff] at h'
  obtain ⟨hv, hacc⟩ := hacc
  obtain ⟨_, h'⟩ := h'
  simp only at h'
  -- the meta signature that layer j of the original request carries, over the original encoding
  have horig : ∀ k (hk : k < r.vs.length), (k = 0 ∨ needsOriginSig r.metas = true) →
      SigOK S n3on (r.vs[k]).metaSig (E.encM (r.metas.drop k)) := by
    intro k hk hmk
    split at hacc
    · obtain ⟨_, hall⟩ := hacc
      exact (hall k hk).1
    · rename_i hc
      rcases hmk with rfl | hmk
      · obtain ⟨v, vo, e, a, _⟩ := hacc
        simpa [e] using a
      · exact absurd hmk hc
  have hnew : ∀ k (hk : k < r.vs.length), (k = 0 ∨ needsOriginSig metas' = true) →
      SigOK S n3on (r.vs[k]).metaSig (E.encM (metas'.drop k)) := by
    intro k hk hmk
    split at h'
    · obtain ⟨_, hall⟩ := h'
      exact (hall k hk).1
    · rename_i hc
      rcases hmk with rfl | hmk
      · obtain ⟨v, vo, e, a, _⟩ := h'
        simpa [e] using a
      · exact absurd hmk hc
  have m1 : j = 0 ∨ needsOriginSig r.metas = true := hmode.imp id (·.1)
  have m2 : j = 0 ∨ needsOriginSig metas' = true := hmode.imp id (·.2)
  exact hne (SigOK_binding S n3on hB (hnew j hj m2) (horig j hj m1))

/-- Chain variant: replacing the verification headers BELOW layer `j` (the origin of layer `j`) by anything
with a different encoding — dropping, adding, reordering or editing inner layers — makes an accepted request
rejected. -/
theorem tamper_origin (hB : Binding S n3on) (r : Req) (j : Nat) (tail' : List VLayer)
    (hacc : verifyReq S n3on E r = .ok) (hchain : needsOriginSig r.metas = true) (hj : j < r.vs.length)
    (hne : E.encV tail' ≠ E.encV (r.vs.drop (j + 1))) :
    verifyReq S n3on E { r with vs := r.vs.take (j + 1) ++ tail' } ≠ .ok := by
  rw [accepts_iff] at hacc
  intro h'
  rw [accepts_iff] at h'
  obtain ⟨_, hacc⟩ := hacc
  obtain ⟨_, h'⟩ := h'
  simp only at h'
  rw [if_pos hchain] at hacc h'
  obtain ⟨_, hall⟩ := hacc
  obtain ⟨_, hall'⟩ := h'
  have hj' : j < (r.vs.take (j + 1) ++ tail').length := by
    simp; omega
  have a := (hall j hj).2.1
  have b := (hall' j hj').2.1
  have e1 : (r.vs.take (j + 1) ++ tail')[j] = r.vs[j] := by
    rw [List.getElem_append_left (by simp; omega)]
    simp
  have e2 : (r.vs.take (j + 1) ++ tail').drop (j + 1) = tail' := by
    have : (r.vs.take (j + 1)).length = j + 1 := by simp; omega
    rw [List.drop_append_of_le_length (by omega), List.drop_of_length_le (by omega)]
    simp
  rw [e1, e2] at b
  exact hne (SigOK_binding S n3on hB b a)

/-- Chain variant: removing or adding a layer in ONE of the two chains only is always rejected with the
depth-mismatch error, whatever the signatures are. -/
theorem depth_mismatch_rejected (r : Req) (hv : r.vs ≠ []) (hchain : needsOriginSig r.metas = true)
    (hne : origins r.metas ≠ origins r.vs) :
    verifyReq S n3on E r = .wrongVerifyHdrNum := by
  unfold verifyReq
  have : r.vs.isEmpty = false := by cases h : r.vs <;> simp_all
  simp [this, hchain, hne]

/-- Chain variant: a body signature on a non-innermost layer is rejected even if it verifies. -/
theorem outer_body_sig_rejected (r : Req) (j : Nat) (hj : j + 1 < r.vs.length)
    (hchain : needsOriginSig r.metas = true) (hb : (r.vs[j]'(by omega)).bodySig ≠ none) :
    verifyReq S n3on E r ≠ .ok := by
  intro h
  rw [accepts_iff] at h
  obtain ⟨_, h⟩ := h
  rw [if_pos hchain] at h
  have := (h.2 j (by omega)).2.2
  rw [if_neg (by omega)] at this
  exact hb this

/-! ## Whose request is it: `GetRequestAuthor`

The author the ACL layer works with (owner / container node / inner ring classification, eACL, session subject)
must be a key whose signature over THIS request was verified. -/

theorem authorOfSig_key {o : Option Sig} {s : Sig} (h : authorOfSig S o = .key s) : o = some s := by
  unfold authorOfSig at h
  cases o with
  | none => cases h
  | some s' =>
    simp only at h
    split at h
    · split at h
      · cases h; rfl
      · cases h
    · split at h
      · cases h; rfl
      · cases h

/-- **The author of an accepted request is a verified signer.** For every request, signature primitive and both
variants: if verification accepts the request and `GetRequestAuthor` names a key, that key comes from the body
signature of the TOP verification header and the check of exactly that (key, scheme, signature) value over exactly
the request's body is one that verification performed successfully. -/
theorem author_is_verified_signer (r : Req) (s : Sig)
    (hacc : verifyReq S n3on E r = .ok) (ha : requestAuthor S r.vs = .key s) :
    (∃ v vo, r.vs = v :: vo ∧ v.bodySig = some s) ∧ checkSig S n3on r.body s = .ok := by
  rw [accepts_iff] at hacc
  obtain ⟨hv, hacc⟩ := hacc
  cases hvs : r.vs with
  | nil => exact absurd hvs hv
  | cons v vo =>
    rw [hvs] at ha
    have hb : v.bodySig = some s := authorOfSig_key S ha
    refine ⟨⟨v, vo, rfl, hb⟩, ?_⟩
    have hok : SigOK S n3on v.bodySig r.body := by
      split at hacc
      · obtain ⟨_, hall⟩ := hacc
        have h0 := (hall 0 (by rw [hvs]; simp)).2.2
        simp only [hvs, List.getElem_cons_zero, List.length_cons] at h0
        split at h0
        · exact h0
        · rw [hb] at h0; cases h0
      · obtain ⟨v', vo', e, _, b⟩ := hacc
        rw [hvs] at e; cases e
        exact b
    obtain ⟨s', hs', hc⟩ := hok
    rw [hb] at hs'; cases hs'
    exact hc

/-- the same through the three entry points: an exempt request (no verification header) has no author at all -/
theorem author_is_verified_signer_entry (api : Api) (trusted : Bool) (r : Req) (s : Sig)
    (hacc : entry S E api trusted r = .ok) (ha : requestAuthor S r.vs = .key s) :
    checkSig S (api == .n3) r.body s = .ok := by
  have hne : r.vs ≠ [] := by
    intro h; rw [h] at ha; cases ha
  have := (no_exemption_with_header S E api trusted r hne).mp hacc
  exact (author_is_verified_signer S (api == .n3) E r s ((accepts_iff S (api == .n3) E r).mpr this) ha).2

/-- `GetRequestAuthor` drops the error of the key decoding and dereferences the result: for an ACCEPTED request this
never happens (the verified body signature's key decodes). -/
theorem author_no_panic_when_accepted (r : Req) (hacc : verifyReq S n3on E r = .ok) :
    requestAuthor S r.vs ≠ .nilKey := by
  intro hn
  rw [accepts_iff] at hacc
  obtain ⟨hv, hacc⟩ := hacc
  cases hvs : r.vs with
  | nil => exact absurd hvs hv
  | cons v vo =>
    rw [hvs] at hn
    simp only [requestAuthor, authorOfSig] at hn
    cases hb : v.bodySig with
    | none => rw [hb] at hn; cases hn
    | some s =>
      rw [hb] at hn
      simp only at hn
      have hok : SigOK S n3on v.bodySig r.body := by
        split at hacc
        · obtain ⟨_, hall⟩ := hacc
          have h0 := (hall 0 (by rw [hvs]; simp)).2.2
          simp only [hvs, List.getElem_cons_zero, List.length_cons] at h0
          split at h0
          · exact h0
          · rw [hb] at h0; cases h0
        · obtain ⟨v', vo', e, _, b⟩ := hacc
          rw [hvs] at e; cases e
          exact b
      obtain ⟨s', hs', hc⟩ := hok
      rw [hb] at hs'; cases hs'
      split at hn
      · rename_i hsc
        split at hn
        · cases hn
        · rename_i hdec
          -- scheme 0..2: the ordinary path of checkSig, which requires the key to decode
          have h3 : (s.scheme == 3 && n3on) = false := by
            have : (s.scheme == 3) = false := by
              rcases Bool.or_eq_true _ _ |>.mp hsc with h | h
              · rcases Bool.or_eq_true _ _ |>.mp h with h | h <;>
                  (have := beq_iff_eq.mp h; simp [this])
              · have := beq_iff_eq.mp h; simp [this]
            simp [this]
          unfold checkSig at hc
          rw [h3] at hc
          simp only [Bool.false_eq_true, if_false] at hc
          split at hc
          · cases hc
          split at hc
          · cases hc
          split at hc
          · cases hc
          split at hc
          · cases hc
          · rename_i hd
            exact hdec (by simpa using hd)
      · split at hn <;> cases hn

/-- Chain variant as the code has it: an accepted request that was forwarded (two or more verification layers) has NO
author - its top layer carries no body signature and `GetRequestAuthor` does not look below. -/
theorem forwarded_chain_has_no_author (r : Req) (hacc : verifyReq S n3on E r = .ok)
    (hchain : needsOriginSig r.metas = true) (hlen : 2 ≤ r.vs.length) :
    requestAuthor S r.vs = .noBodySig := by
  rw [accepts_iff] at hacc
  obtain ⟨_, hacc⟩ := hacc
  rw [if_pos hchain] at hacc
  cases hvs : r.vs with
  | nil => rw [hvs] at hlen; simp at hlen
  | cons v vo =>
    have h0 := (hacc.2 0 (by rw [hvs]; simp)).2.2
    simp only [hvs, List.getElem_cons_zero, List.length_cons] at h0
    rw [hvs] at hlen
    simp only [List.length_cons] at hlen
    rw [if_neg (by omega)] at h0
    simp [requestAuthor, authorOfSig, h0]

/-! ## Non-vacuity -/

/-- A binding scheme exists: "the signature is the message" (per key), N3 likewise. -/
def bindingScheme : Scheme where
  supported := fun sc => sc == 0 || sc == 1 || sc == 2
  decodable := fun _ k => k.length == 33
  verify := fun _ _ msg sig => sig == msg
  n3 := fun msg invoc _ => invoc == msg

theorem checkSig_ok_cases {S : Scheme} {n3on : Bool} {m : Bytes} {s : Sig} (h : checkSig S n3on m s = .ok) :
    ((s.scheme == 3 && n3on) = true ∧ S.n3 m s.sign s.key = true) ∨
    ((s.scheme == 3 && n3on) = false ∧ S.verify s.scheme s.key m s.sign = true) := by
  unfold checkSig at h
  split at h
  · left; refine ⟨‹_›, ?_⟩; split at h <;> simp_all
  · right; refine ⟨by simp_all, ?_⟩
    split at h
    · cases h
    split at h
    · cases h
    split at h
    · cases h
    split at h
    · cases h
    split at h <;> simp_all

theorem bindingScheme_binding (n3on : Bool) : Binding bindingScheme n3on := by
  intro s m m' h h'
  rcases checkSig_ok_cases h with ⟨c, a⟩ | ⟨c, a⟩ <;> rcases checkSig_ok_cases h' with ⟨c', a'⟩ | ⟨c', a'⟩
  · simp only [bindingScheme, beq_iff_eq] at a a'; rw [← a, ← a']
  · rw [c] at c'; cases c'
  · rw [c] at c'; cases c'
  · simp only [bindingScheme, beq_iff_eq] at a a'; rw [← a, ← a']

def exEnc : Enc where
  encM := fun ms => 77 :: ms.length :: (ms.map (·.ttl))
  encV := fun vs => 88 :: vs.length :: (vs.map fun v => (v.metaSig.map (·.sign.length)).getD 0)

def exKey (n : Nat) : Bytes := List.replicate 33 n

/-- A two-layer request (client → node A → this node), old protocol: accepted. -/
def exReq2 : Req :=
  let m1 : MLayer := { hasVersion := true, major := 2, minor := 18, ttl := 2 }
  let m0 : MLayer := { hasVersion := true, major := 2, minor := 18, ttl := 1 }
  let v1 : VLayer := { metaSig := some ⟨exKey 1, exEnc.encM [m1], 0⟩, originSig := some ⟨exKey 1, exEnc.encV [], 0⟩,
                       bodySig := some ⟨exKey 1, [1, 2, 3], 0⟩ }
  let v0 : VLayer := { metaSig := some ⟨exKey 2, exEnc.encM [m0, m1], 1⟩, originSig := some ⟨exKey 2, exEnc.encV [v1], 1⟩,
                       bodySig := none }
  { body := [1, 2, 3], metas := [m0, m1], vs := [v0, v1] }

example : verifyReq bindingScheme false exEnc exReq2 = .ok := by decide
example : verifyReq bindingScheme false exEnc { exReq2 with body := [1, 2, 4] } = .layer 1 (.invalidBodySig .mismatch) := by decide
example : verifyReq bindingScheme false exEnc { exReq2 with metas := exReq2.metas.take 1 } = .wrongVerifyHdrNum := by decide
example : verifyReq bindingScheme false exEnc { exReq2 with vs := exReq2.vs.drop 1 } = .wrongVerifyHdrNum := by decide
example : entry bindingScheme exEnc .ctx true { body := [1], metas := [{ hasVersion := false, major := 0, minor := 0, ttl := 1 }], vs := [] } = .ok := by decide
example : entry bindingScheme exEnc .ctx true { body := [1], metas := [{ hasVersion := false, major := 0, minor := 0, ttl := 2 }], vs := [] } = .missingVerifyHdr := by decide
example : entry bindingScheme exEnc .plain true { body := [1], metas := [{ hasVersion := false, major := 0, minor := 0, ttl := 1 }], vs := [] } = .missingVerifyHdr := by decide

/-- The ≥ 2.25 variant as the code has it: inner verification headers are NOT examined. A request whose
outermost layer is in order is accepted whatever lies in the origin chain (here: an inner layer without
any signature and a meta chain of a different depth). Recorded as a fact about the implementation. -/
theorem flat_variant_ignores_inner_layers :
    let m0 : MLayer := { hasVersion := true, major := 2, minor := 25, ttl := 1 }
    let junk : VLayer := { metaSig := none, originSig := none, bodySig := none }
    let v0 : VLayer := { metaSig := some ⟨exKey 2, exEnc.encM [m0], 1⟩, originSig := none, bodySig := some ⟨exKey 2, [9], 1⟩ }
    verifyReq bindingScheme false exEnc { body := [9], metas := [m0], vs := [v0, junk, junk] } = .ok := by
  decide

/-- The statement about `requestAuthor` is not satisfied by the historical rule "descend to the innermost verification
header": in the ≥ 2.25 variant an accepted request can carry an origin layer naming a key (7) that signed nothing that
was checked - and nothing over this body at all. -/
theorem innermost_author_unverified :
    let m0 : MLayer := { hasVersion := true, major := 2, minor := 25, ttl := 1 }
    let victim : Sig := ⟨exKey 7, [4, 4], 1⟩
    let inner : VLayer := { metaSig := none, originSig := none, bodySig := some victim }
    let v0 : VLayer := { metaSig := some ⟨exKey 2, exEnc.encM [m0], 1⟩, originSig := none, bodySig := some ⟨exKey 2, [9], 1⟩ }
    let r : Req := { body := [9], metas := [m0], vs := [v0, inner] }
    verifyReq bindingScheme false exEnc r = .ok ∧
    innermostAuthor bindingScheme r.vs = .key victim ∧ checkSig bindingScheme false r.body victim ≠ .ok ∧
    requestAuthor bindingScheme r.vs = .key ⟨exKey 2, [9], 1⟩ := by
  decide

example : requestAuthor bindingScheme exReq2.vs = .noBodySig := by decide
example : requestAuthor bindingScheme (exReq2.vs.drop 1) = .key ⟨exKey 1, [1, 2, 3], 0⟩ := by decide
example : requestAuthor bindingScheme [{ metaSig := none, originSig := none, bodySig := some ⟨[5], [1], 0⟩ }] = .nilKey := by decide
example : requestAuthor bindingScheme [{ metaSig := none, originSig := none, bodySig := some ⟨[5], [1], 3⟩ }] = .key ⟨[5], [1], 3⟩ := by decide
example : requestAuthor bindingScheme [{ metaSig := none, originSig := none, bodySig := some ⟨[5], [1], 4⟩ }] = .badScheme := by decide

end NeoFS.SigChain
