import NeoFS.Lemmas.FSTreeApi
import NeoFS.Lemmas.FSTreeGeneric
/-!
# C13 — a failing file-system call makes blob writes fail cleanly and never crashes

The writers of `Model/FSTree.lean` consult an oracle `Nat → Option Fault` at every system call.  A run of the
node is a schedule: a list of atomic steps — the lock-protected section of one `writeCombinedFile` caller, the
batch timer firing, one `writeFile`, one `PutBatch`, one `Delete`.  Concurrent `Put`s are interleavings of these
steps.  All theorems quantify over EVERY oracle (any number of faults, anywhere) and EVERY schedule.
-/
namespace NeoFS.FSTree

/-- atomic steps of a schedule -/
inductive Ev
  | write (a : Nat) (d : Bytes)        -- the section of `writeCombinedFile` under `batchLock` (small object)
  | tick                               -- the batch timer (`syncBatch.sync`), also `finalize`
  | file (a : Nat) (d : Bytes)         -- `writeFile` (object above the combined threshold)
  | batch (items : List (Nat × Bytes)) -- `PutBatch`
  | del (a : Nat)

/-- what the caller of a step learns -/
inductive EvRes | blocked | failed | pending (ino : Nat) | ok | none
  deriving DecidableEq, Repr

def stepEv (cfg : Cfg) (o : Oracle) (k : K) : Ev → K × EvRes
  | .write a d =>
    let r := writeCombined cfg o k a d
    (r.1, match r.2 with | .blocked => .blocked | .failed => .failed | .pending i => .pending i)
  | .tick => (tick cfg o k, .none)
  | .file a d => let r := writeFile o k a d; (r.1, if r.2 then .ok else .failed)
  | .batch items => let r := putBatch cfg o k items; (r.1, if r.2 = .ok then .ok else .failed)
  | .del a => let r := delete o k a; (r.1, if r.2 = .err then .failed else .ok)

def runEv (cfg : Cfg) (o : Oracle) (k : K) (evs : List Ev) : K := evs.foldl (fun k ev => (stepEv cfg o k ev).1) k

/-- `(a, d)` is a payload some step of the schedule offers for address `a` -/
def Offers : Ev → Nat → Bytes → Prop
  | .write a d, x, e => x = a ∧ e = d
  | .file a d, x, e => x = a ∧ e = d
  | .batch items, x, e => (x, e) ∈ items
  | _, _, _ => False

def Offered (evs : List Ev) (a : Nat) (d : Bytes) : Prop := ∃ ev ∈ evs, Offers ev a d

def ValidEv : Ev → Prop
  | .write a d => IdOK a ∧ DataOK d
  | .file a d => IdOK a ∧ ValidData d
  | .batch items => ∀ it ∈ items, IdOK it.1 ∧ (it.2 ≠ [] → ValidData it.2)
  | _ => True

/-- one step, for every oracle: the invariant is kept and nothing readable is lost or altered (a delete removes its own name only) -/
theorem step_safe {P} (cfg : Cfg) (hc : cfg.Fixed) (hg : cfg.generic = false) (o : Oracle) (k : K) (ev : Ev)
    (hv : ValidEv ev) (hp : ∀ a d, Offers ev a d → P a d) (hs : SInv P k) :
    SInv P (stepEv cfg o k ev).1 ∧ (stepEv cfg o k ev).2 ≠ .blocked ∧
    (∀ x e, (∀ a, ev = .del a → x ≠ a) → ReadsK k.inodes k.dir x e →
        ReadsK (stepEv cfg o k ev).1.inodes (stepEv cfg o k ev).1.dir x e) := by
  cases ev with
  | write a d =>
    obtain ⟨ws, we, wb, _⟩ := writeCombined_spec (P := P) cfg hc o k a d hs hv.1 hv.2 (hp a d ⟨rfl, rfl⟩)
    refine ⟨ws, ?_, fun x e _ h => we.frame x e h⟩
    simp only [stepEv]
    cases hr : (writeCombined cfg o k a d).2 with
    | blocked => exact absurd hr wb
    | failed => simp
    | pending i => simp
  | tick =>
    obtain ⟨ts, te, _⟩ := tick_spec (P := P) cfg o k hs
    exact ⟨ts, by simp [stepEv], fun x e _ h => te.frame x e h⟩
  | file a d =>
    obtain ⟨fe, fp, fb, _⟩ := writeFile_spec (P := P) o k a d hs.kinv hv.1 hv.2.1 hv.2.2 (hp a d ⟨rfl, rfl⟩)
    refine ⟨⟨fe.inv, ?_, by simp only [stepEv]; rw [fp.1]; exact hs.lock, by simp only [stepEv]; rw [fp.2.1]; exact hs.nopanic⟩,
      by simp only [stepEv]; split <;> simp, fun x e _ h => fe.frame x e h⟩
    intro b hb hr
    simp only [stepEv] at hb
    rw [fp.2.2.1] at hb
    obtain ⟨h1, h2, rs, h3⟩ := hs.binv b hb hr
    exact ⟨h1, h2, rs, fb _ _ h3⟩
  | batch items =>
    have hv' : ∀ it ∈ items, IdOK it.1 ∧ (it.2 ≠ [] → ValidData it.2 ∧ P it.1 it.2) :=
      fun it hit => ⟨(hv it hit).1, fun hne => ⟨(hv it hit).2 hne, hp it.1 it.2 hit⟩⟩
    obtain ⟨bs, be, _, _⟩ := putBatch_spec (P := P) cfg hg o k items hs hv'
    exact ⟨bs, by simp only [stepEv]; split <;> simp, fun x e _ h => be.frame x e h⟩
  | del a =>
    obtain ⟨_, _, dfr, _, _, _⟩ := delete_spec (P := P) o k a hs.kinv
    exact ⟨delete_sinv o k a hs, by simp only [stepEv]; split <;> simp, fun x e hx h => dfr x e (hx a rfl) h⟩

/-- FAULTS FAIL CLEANLY.  For every oracle (any faults at any system calls, also a crash) and every schedule of
valid steps from the empty tree: the writer never panics, `batchLock` is free after every step, an open batch file is a
well-formed record sequence, and every name on disk points to a file that holds, for that address, exactly one of
the payloads offered for it. -/
theorem faults_fail_cleanly (cfg : Cfg) (hc : cfg.Fixed) (hg : cfg.generic = false) (o : Oracle) (evs : List Ev)
    (hv : ∀ ev ∈ evs, ValidEv ev) : SInv (Offered evs) (runEv cfg o {} evs) := by
  have init : SInv (Offered evs) ({} : K) := ⟨fun _ _ h => (by cases h), fun _ h => (by cases h), rfl, rfl⟩
  suffices ∀ (pre : List Ev) (k : K), (∀ ev ∈ pre, ev ∈ evs) → SInv (Offered evs) k → SInv (Offered evs) (runEv cfg o k pre)
    from this evs {} (fun _ h => h) init
  intro pre
  induction pre with
  | nil => intro k _ h; exact h
  | cons ev rest ih =>
    intro k hsub h
    have hev := hsub ev (by simp)
    exact ih _ (fun e he => hsub e (by simp [he]))
      (step_safe cfg hc hg o k ev (hv ev hev) (fun a d ho => ⟨ev, hev, ho⟩) h).1

/-- what the invariant means for a reader: whatever is visible reads as exactly one offered payload of its address
(never partial, never foreign bytes), through both readers -/
theorem visible_is_exact {P} (cfg : Cfg) (hc : cfg.Fixed) (k : K) (hs : SInv P k) (dec : Bytes → Option Bytes) (a : Nat)
    (hvis : «exists» k a = true) :
    ∃ d, P a d ∧ get dec k a = decompress dec d ∧ getStream cfg dec k a = decompress dec d := by
  unfold «exists» at hvis
  cases hl : k.dir.lookup a with
  | none => rw [hl] at hvis; cases hvis
  | some i =>
    obtain ⟨ha, d, hp, _, hh⟩ := hs.kinv a i hl
    have rd := holds_read _ a d ha hh cfg.bufLen
    refine ⟨d, hp, ?_, ?_⟩
    · simp only [get, rawGet, fileOf, hl, Option.map_some]; rw [rd.1]; rfl
    · simp only [getStream, fileOf, hl, Option.map_some, hc.2.2]; rw [rd.2]; rfl

theorem wcTail_not_blocked (cfg : Cfg) (o : Oracle) (k : K) (b : Batch) (a : Nat) (d : Bytes) :
    (wcTail cfg o k b a d).2 ≠ .blocked := by
  unfold wcTail; simp only; split <;> simp

theorem writeCombined_not_blocked (cfg : Cfg) (o : Oracle) (k : K) (a : Nat) (d : Bytes) (h : k.lockHeld = false) :
    (writeCombined cfg o k a d).2 ≠ .blocked := by
  unfold writeCombined
  simp only [h, Bool.false_eq_true, if_false]
  generalize (if (match k.batch with | none => true | some b => b.ready) = true then openBatch o k else (k, k.batch)) = ob
  cases hob : ob.2 with
  | none => simp
  | some b => exact wcTail_not_blocked cfg o ob.1 b a d

/-- NO CALLER HANGS: in every reachable state a `writeCombinedFile` caller gets past the lock, whatever it writes -/
theorem never_blocked (cfg : Cfg) (hc : cfg.Fixed) (hg : cfg.generic = false) (o : Oracle) (evs : List Ev)
    (hv : ∀ ev ∈ evs, ValidEv ev) (a : Nat) (d : Bytes) :
    (writeCombined cfg o (runEv cfg o {} evs) a d).2 ≠ .blocked :=
  writeCombined_not_blocked cfg o _ a d (faults_fail_cleanly cfg hc hg o evs hv).lock

/-- EARLIER OBJECTS STAY INTACT: a step never removes or alters a readable object (except the delete of that very address) -/
theorem earlier_objects_intact {P} (cfg : Cfg) (hc : cfg.Fixed) (hg : cfg.generic = false) (o : Oracle) (k : K) (ev : Ev)
    (hv : ValidEv ev) (hp : ∀ a d, Offers ev a d → P a d) (hs : SInv P k) (x : Nat) (e : Bytes)
    (hx : ∀ a, ev = .del a → x ≠ a) (h : ReadsK k.inodes k.dir x e) :
    ReadsK (stepEv cfg o k ev).1.inodes (stepEv cfg o k ev).1.dir x e :=
  (step_safe cfg hc hg o k ev hv hp hs).2.2 x e hx h

/-- NO FALSE SUCCESS: a `Put` that returns ok, under any oracle, leaves the address readable (with an offered payload,
by the invariant; with exactly the bytes just written when the address was not stored before) -/
theorem ok_means_readable {P} (cfg : Cfg) (hc : cfg.Fixed) (hg : cfg.generic = false) (o : Oracle) (k : K) (a : Nat) (d : Bytes)
    (hs : SInv P k) (ha : IdOK a) (hd : ValidData d) (hp : P a d) (hok : (put cfg o k a d).2 = .ok) :
    ∃ e, ReadsK (put cfg o k a d).1.inodes (put cfg o k a d).1.dir a e ∧ (Quiet k → k.dir.lookup a = none → e = d) :=
  (put_spec cfg hc hg o k a d hs ha hd hp).2.2.2.2 hok

/-- the same for a caller inside a schedule: once its section returned without error its object is readable,
whatever the batch's later `fdatasync`/`close` report -/
theorem pending_means_readable {P} (cfg : Cfg) (hc : cfg.Fixed) (o : Oracle) (k : K) (a : Nat) (d : Bytes)
    (hs : SInv P k) (ha : IdOK a) (hd : DataOK d) (hp : P a d) (i : Nat) (h : (writeCombined cfg o k a d).2 = .pending i) :
    ∃ e, ReadsK (writeCombined cfg o k a d).1.inodes (writeCombined cfg o k a d).1.dir a e := by
  obtain ⟨e, he, _⟩ := (writeCombined_spec (P := P) cfg hc o k a d hs ha hd hp).2.2.2 i h
  exact ⟨e, he⟩

/-- UNAFFECTED WRITES SUCCEED: once the oracle injects nothing any more, a `Put` in any reachable state returns ok
(whatever faults happened before) -/
theorem unaffected_succeed {P} (cfg : Cfg) (hg : cfg.generic = false) (o : Oracle) (k : K) (hs : SInv P k) (hcl : Clean o k)
    (a : Nat) (d : Bytes) (hd : d ≠ []) : (put cfg o k a d).2 = .ok :=
  (put_clean cfg hg hs hcl a d hd).1

/-- and so does a `PutBatch` -/
theorem unaffected_batch_succeeds (cfg : Cfg) (hg : cfg.generic = false) (o : Oracle) (k : K) (hcl : Clean o k)
    (items : List (Nat × Bytes)) : (putBatch cfg o k items).2 = .ok := by
  unfold putBatch
  simp only [hg, Bool.false_eq_true, if_false]
  have := writeBatch_clean hcl cfg (items.filter (fun p => p.2 ≠ []))
  simp only [this.1, if_true]

/-- THE PORTABLE WRITER (`p#i`, write, close, rename; used when O_TMPFILE is not available), for every oracle — faults
and crash points alike: a `Put` keeps every name pointing to exactly an offered payload of its address, leaves all other
addresses readable with the same bytes, either does not touch the name of `a` or makes it read exactly `d` (the rename
is the only step that changes a name, and it happens after the whole payload is in the temporary file), and when it
returns ok the address reads exactly the bytes just written (this writer replaces: last stored wins). -/
theorem generic_put_safe {P} (cfg : Cfg) (hg : cfg.generic = true) (o : Oracle) (k : K) (a : Nat) (d : Bytes)
    (hk : KInv P k.inodes k.dir) (ha : IdOK a) (hd : ValidData d) (hp : P a d) :
    KInv P (put cfg o k a d).1.inodes (put cfg o k a d).1.dir ∧
    (∀ x e, x ≠ a → ReadsK k.inodes k.dir x e → ReadsK (put cfg o k a d).1.inodes (put cfg o k a d).1.dir x e) ∧
    ((put cfg o k a d).1.dir = k.dir ∨ ReadsK (put cfg o k a d).1.inodes (put cfg o k a d).1.dir a d) ∧
    ((put cfg o k a d).2 = .ok → ReadsK (put cfg o k a d).1.inodes (put cfg o k a d).1.dir a d) := by
  obtain ⟨g1, g2, g3, g4, _⟩ := genericWrite_spec (P := P) o a d ha hd.1 hd.2 hp 5 0 k hk
  unfold put
  simp only [hd.1.1, if_false, hg, if_true]
  refine ⟨g1, g2, g3, fun hok => g4 ?_⟩
  revert hok
  split <;> simp_all

/-! ## the two repaired defects, in the model of the code before the repair -/

/-- `linkat` fails on the write that crosses the size limit: the unparenthesised rotation test closes the batch a second time -/
theorem panic_before_fix :
    (put { precFixed := false, threshold := 100, countLimit := 100, sizeLimit := 10 }
      (fun i => if i = 2 then some (.err 0) else none) {} 1 [5]).1.panicked = true ∧
    (put { threshold := 100, countLimit := 100, sizeLimit := 10 }
      (fun i => if i = 2 then some (.err 0) else none) {} 1 [5]).1.panicked = false := by
  constructor <;> rfl

/-- the batch file cannot be opened: the lock stays held and the next caller blocks -/
theorem hang_before_fix :
    (put { unlockFixed := false, threshold := 100 } noFault
      (put { unlockFixed := false, threshold := 100 } (fun i => if i = 0 then some (.err 0) else none) {} 1 [5]).1 2 [6]).2 = .blocked ∧
    (put { threshold := 100 } noFault
      (put { threshold := 100 } (fun i => if i = 0 then some (.err 0) else none) {} 1 [5]).1 2 [6]).2 = .ok := by
  constructor <;> rfl

/-- non-vacuity: a schedule with two concurrent callers, the timer, a big object, a batch and a delete is valid -/
example : ∀ ev ∈ [Ev.write 1 [5], Ev.write 2 [6], Ev.tick, Ev.file 3 [7, 8], Ev.batch [(4, [9]), (5, [])], Ev.del 1], ValidEv ev := by
  intro ev hev
  simp at hev
  rcases hev with rfl | rfl | rfl | rfl | rfl | rfl
  · exact ⟨by unfold IdOK; omega, by simp, by simp⟩
  · exact ⟨by unfold IdOK; omega, by simp, by simp⟩
  · trivial
  · exact ⟨by unfold IdOK; omega, ⟨by simp, by simp⟩, Or.inl (by simp [dataOff])⟩
  · intro it hit
    simp at hit
    rcases hit with rfl | rfl
    · exact ⟨by unfold IdOK; omega, fun _ => ⟨⟨by simp, by simp⟩, Or.inl (by simp [dataOff])⟩⟩
    · exact ⟨by unfold IdOK; omega, fun h => absurd rfl h⟩
  · trivial

end NeoFS.FSTree
