import NeoFS.Lemmas.SearchCursor
import Mathlib.Data.List.Perm.Subperm
/-!
# C04 — merged search over several shards or nodes equals one search over their union

Part 1 (`MergeSearchResults`): for ANY number of result sets of ANY lengths and ANY limit, if every set is strictly
sorted in the order the merge itself uses for the attribute kind (first attribute, then id), the comparison does not
fail on their items and equal ids mean equal items (copies of the same object), then the merge returns exactly the
first `lim` elements of THE strictly sorted, duplicate-free list of all items of the sets — no duplicates, no
omissions — and `more` is reported iff something is left.
-/
namespace NeoFS.SearchMerge
open NeoFS.Int256

/-- what `more` must be: for one set the set's own continuation, for several sets "anything left or promised" -/
def moreSpec (lim nsets ulen : Nat) (anyMore : Bool) : Bool :=
  decide (0 < lim) &&
    (if nsets = 1 then decide (lim < ulen) || (decide (ulen = lim) && anyMore)
     else decide (0 < ulen) && (anyMore || decide (lim < ulen)))

theorem exists_not_mem_take {U : List Item} (hU : U.Nodup) (n : Nat) : (∃ x, x ∈ U ∧ x ∉ U.take n) ↔ n < U.length := by
  constructor
  · rintro ⟨x, hx, hnx⟩
    by_contra hle
    rw [List.take_of_length_le (by omega)] at hnx
    exact hnx hx
  · intro hn
    refine ⟨U[n], List.getElem_mem hn, ?_⟩
    intro hmem
    have hsplit : U = U.take n ++ U.drop n := (List.take_append_drop n U).symm
    have hd : U[n] ∈ U.drop n := by
      rw [List.mem_drop_iff_getElem]
      exact ⟨0, by simpa using hn, by simp⟩
    rw [hsplit] at hU
    exact (List.nodup_append.mp hU).2.2 _ hmem _ hd rfl

/-- **The merge loop and the limit computation together** (two or more sets). -/
theorem merge_multi {k : MKind} {ord : Item → Item → Ordering} {P : Item → Prop} (hu : Univ k ord P)
    (lim : Nat) (hlim : 0 < lim) (anyMore : Bool) (sets : List (List Item)) (hok : SetsOK ord P sets)
    (U : List Item) (hU : SortedI ord U) (hUm : ∀ x, x ∈ U ↔ Mem x sets) :
    mergeLoop k (calcMax lim sets) anyMore (totalLen sets + 1) 0 sets =
      .ok (U.take lim, decide (0 < U.length) && (anyMore || decide (lim < U.length))) := by
  have hPU : ∀ x ∈ U, P x := fun x hx => by
    obtain ⟨s, hs, hxs⟩ := (hUm x).mp hx
    exact (hok s hs).2 x hxs
  have hcm := calcMax_spec hu lim sets hok U hU.nodup hUm
  by_cases h0 : U.length = 0
  · -- nothing at all: the first selection pass finds no head
    have hUnil : U = [] := List.eq_nil_of_length_eq_zero h0
    obtain ⟨res, hsel, hres⟩ := selectMin_spec hu sets 0 none (fun s hs => (hok s hs).2) (by simp)
    cases res with
    | none => simp [mergeLoop, hsel, hUnil]
    | some p =>
      obtain ⟨mi, m⟩ := p
      obtain ⟨_, hidx, _, _⟩ := hres
      rcases hidx with h | ⟨_, tl, h⟩
      · simp at h
      · have : Mem m sets := ⟨m :: tl, List.mem_of_getElem? h, by simp⟩
        rw [← hUm, hUnil] at this
        simp at this
  · have hpos : 0 < calcMax lim sets := by rw [hcm]; omega
    obtain ⟨r, more, hrun, hspec⟩ := loop_spec hu (calcMax lim sets) anyMore (totalLen sets + 1) 0 sets hok (by omega) hpos
    rw [hrun]
    have hr : r = U.take (calcMax lim sets) := by
      refine take_of_spec hu.laws U (fun x hx y hy => hu.coherent x y (hPU x hx) (hPU y hy)) r _ hU hspec.sorted
        (fun x hx => (hUm x).mpr (hspec.src x hx)) ?_ (by have := hspec.len; omega)
      intro x hx
      rcases hspec.complete x ((hUm x).mp hx) with h | ⟨h1, h2⟩
      · exact Or.inl h
      · exact Or.inr ⟨by omega, h2⟩
    have htake : U.take (calcMax lim sets) = U.take lim := by
      rw [hcm]
      by_cases hle : lim ≤ U.length
      · rw [Nat.min_eq_left hle]
      · rw [Nat.min_eq_right (by omega), List.take_of_length_le (Nat.le_refl _), List.take_of_length_le (by omega)]
    have hrlen : r.length = calcMax lim sets := by
      rw [hr, List.length_take, hcm]; omega
    have hmore : more = (decide (0 < U.length) && (anyMore || decide (lim < U.length))) := by
      rw [Bool.eq_iff_iff, hspec.more_iff]
      have hex : (∃ x, Mem x sets ∧ x ∉ r) ↔ calcMax lim sets < U.length := by
        rw [← exists_not_mem_take hU.nodup, hr]
        constructor
        · rintro ⟨x, hx, hnx⟩; exact ⟨x, (hUm x).mpr hx, hnx⟩
        · rintro ⟨x, hx, hnx⟩; exact ⟨x, (hUm x).mp hx, hnx⟩
      rw [hex, hcm]
      simp only [Nat.zero_add, Bool.and_eq_true, decide_eq_true_eq, Bool.or_eq_true]
      constructor
      · rintro ⟨_, h | h⟩
        · exact ⟨by omega, Or.inl h⟩
        · exact ⟨by omega, Or.inr (by omega)⟩
      · rintro ⟨_, h | h⟩
        · exact ⟨by omega, Or.inl h⟩
        · exact ⟨by omega, Or.inr (by omega)⟩
    rw [hr, htake, hmore]

/-- **`merge_eq_union_search`.**  `MergeSearchResults(lim, firstAttr, cmpInt, sets, mores)` over result sets that are
strictly sorted in the merge's order for the attribute kind, whose items compare without error and agree on equal
ids: the result is the first `lim` elements of the sorted duplicate-free union `U`, and `more` is `moreSpec`.
For every number of sets, every length, every `lim`. -/
theorem merge_eq_union_search (lim : Nat) (firstAttr : String) (cmpInt : Bool) (sets : List (List Item)) (mores : List Bool)
    (hvalid : ∀ x, Mem x sets → ValidK (mergeKind firstAttr cmpInt) x)
    (hco : ∀ x y, Mem x sets → Mem y sets → x.id = y.id → x = y)
    (hsorted : ∀ s ∈ sets, SortedI (ordK (mergeKind firstAttr cmpInt)) s)
    (U : List Item) (hU : SortedI (ordK (mergeKind firstAttr cmpInt)) U) (hUm : ∀ x, x ∈ U ↔ Mem x sets) :
    mergeResults lim firstAttr cmpInt sets mores =
      .ok (U.take lim, moreSpec lim sets.length U.length (mores.contains true)) := by
  have hu := univ_of_valid (mergeKind firstAttr cmpInt) (fun x => Mem x sets) hvalid hco
  have hok : SetsOK (ordK (mergeKind firstAttr cmpInt)) (fun x => Mem x sets) sets :=
    fun s hs => ⟨hsorted s hs, fun x hx => ⟨s, hs, hx⟩⟩
  unfold mergeResults moreSpec
  by_cases hl : lim = 0
  · simp [hl]
  · have hlim : 0 < lim := by omega
    cases sets with
    | nil =>
      have : U = [] := by
        cases U with
        | nil => rfl
        | cons u us => have := (hUm u).mp (by simp); obtain ⟨s, hs, _⟩ := this; simp at hs
      simp [this]
    | cons s rest =>
      cases rest with
      | nil =>
        -- one set: the union is the set itself
        have hUs : s = U := by
          refine sorted_unique hu.laws U s (fun x hx y hy => hco x y ((hUm x).mp hx) ((hUm y).mp hy)) hU (hsorted s (by simp)) ?_
          intro x
          rw [hUm]
          constructor
          · intro hx; exact ⟨s, by simp, hx⟩
          · rintro ⟨t, ht, hx⟩; simp at ht; subst ht; exact hx
        subst hUs
        simp [hl, hlim]
      | cons s2 rest2 =>
        have hm := merge_multi hu lim hlim (mores.contains true) (s :: s2 :: rest2) hok U hU hUm
        simp only [hl, List.isEmpty_cons, Bool.false_eq_true, or_self, if_false]
        rw [hm]
        simp [hlim]

/-- With realistic more-flags (a set that reports more is a full page, so the union has at least `lim` items) the
answer does not depend on the number of sets: `more` iff the union has more than `lim` items or a flag is set. -/
theorem merge_more_realistic (lim nsets ulen : Nat) (anyMore : Bool) (hlim : 0 < lim)
    (hfull : anyMore = true → lim ≤ ulen) : moreSpec lim nsets ulen anyMore = (decide (lim < ulen) || anyMore) := by
  unfold moreSpec
  cases anyMore with
  | false =>
    by_cases h1 : nsets = 1
    · simp [h1, hlim]
    · simp [h1, hlim]; omega
  | true =>
    have := hfull rfl
    by_cases h1 : nsets = 1
    · simp [h1, hlim]; omega
    · simp [h1, hlim]; omega

/-- the sorted duplicate-free union exists: the merge with a limit beyond all items produces it -/
theorem union_exists (k : MKind) (sets : List (List Item)) (hvalid : ∀ x, Mem x sets → ValidK k x)
    (hco : ∀ x y, Mem x sets → Mem y sets → x.id = y.id → x = y) (hsorted : ∀ s ∈ sets, SortedI (ordK k) s) :
    ∃ U, SortedI (ordK k) U ∧ ∀ x, x ∈ U ↔ Mem x sets := by
  have hu := univ_of_valid k (fun x => Mem x sets) hvalid hco
  have hok : SetsOK (ordK k) (fun x => Mem x sets) sets := fun s hs => ⟨hsorted s hs, fun x hx => ⟨s, hs, hx⟩⟩
  obtain ⟨r, more, _, hspec⟩ := loop_spec hu (totalLen sets + 1) false (totalLen sets + 1) 0 sets hok (by omega) (by omega)
  refine ⟨r, hspec.sorted, fun x => ⟨hspec.src x, fun hx => ?_⟩⟩
  rcases hspec.complete x hx with h | ⟨h1, _⟩
  · exact h
  · -- a strictly sorted list drawn from the sets cannot be longer than all sets together
    exfalso
    have hsub : r ⊆ sets.flatten := fun y hy => by
      obtain ⟨s, hs, hys⟩ := hspec.src y hy
      exact List.mem_flatten.mpr ⟨s, hs, hys⟩
    have hlen := (hspec.sorted.nodup.subperm hsub).length_le
    have : sets.flatten.length = totalLen sets := by simp [totalLen, List.length_flatten]
    omega

/-- the merged page does not depend on the order in which the shards or nodes answered (map iteration order of
`unsortedShards`, arrival order of the remote results) -/
theorem merge_order_independent (lim : Nat) (firstAttr : String) (cmpInt : Bool) (sets sets' : List (List Item))
    (mores mores' : List Bool) (hp : sets'.Perm sets) (hmp : mores'.Perm mores)
    (hvalid : ∀ x, Mem x sets → ValidK (mergeKind firstAttr cmpInt) x)
    (hco : ∀ x y, Mem x sets → Mem y sets → x.id = y.id → x = y)
    (hsorted : ∀ s ∈ sets, SortedI (ordK (mergeKind firstAttr cmpInt)) s) :
    mergeResults lim firstAttr cmpInt sets' mores' = mergeResults lim firstAttr cmpInt sets mores := by
  obtain ⟨U, hU, hUm⟩ := union_exists (mergeKind firstAttr cmpInt) sets hvalid hco hsorted
  have hmem : ∀ x, Mem x sets' ↔ Mem x sets := fun x =>
    ⟨fun ⟨s, hs, hx⟩ => ⟨s, hp.mem_iff.mp hs, hx⟩, fun ⟨s, hs, hx⟩ => ⟨s, hp.mem_iff.mpr hs, hx⟩⟩
  rw [merge_eq_union_search lim firstAttr cmpInt sets mores hvalid hco hsorted U hU hUm,
    merge_eq_union_search lim firstAttr cmpInt sets' mores' (fun x hx => hvalid x ((hmem x).mp hx))
      (fun x y hx hy => hco x y ((hmem x).mp hx) ((hmem y).mp hy)) (fun s hs => hsorted s (hp.mem_iff.mp hs)) U hU
      (fun x => (hUm x).trans (hmem x).symm)]
  have h1 : sets'.length = sets.length := hp.length_eq
  have h2 : mores'.contains true = mores.contains true := by
    rw [Bool.eq_iff_iff]
    simp only [List.contains_eq_mem, decide_eq_true_eq]
    exact hmp.mem_iff
  rw [h1, h2]

/-- non-vacuity: two overlapping sets of integer-attribute items, sorted numerically (not as strings: "9" < "10") -/
example : mergeResults 2 "N" true [[⟨3, some "-5".toList⟩, ⟨1, some "9".toList⟩], [⟨1, some "9".toList⟩, ⟨2, some "10".toList⟩]]
    [false, false] = .ok ([⟨3, some "-5".toList⟩, ⟨1, some "9".toList⟩], true) := by rfl
example : SortedI (ordK .int) [⟨3, some "-5".toList⟩, ⟨1, some "9".toList⟩, ⟨2, some "10".toList⟩] := by
  unfold SortedI; decide

/-! ## Part 2 — the order the merge uses is the order of the single-shard index

`itemOf q e` is the result item a shard returns for the index entry `e` (`restoreAttributeValue` /
`RestoreIntAttribute`).  `WFEnt q e` says what the index of the primary attribute `q` holds (what
`PutMetadataForObject` writes). -/

def itemOf (q : Query) (e : Ent) : Item := ⟨e.id, restoreAttr q e.raw⟩

/-- the filter `StorageEngine.Search` hands to `CalculateCursor` -/
def filtOf (q : Query) : Option (String × FOp) := q.attr.map fun a => (a, if q.isInt then FOp.int else FOp.other)

/-- what the engine passes to the merge -/
def kindOf (q : Query) : MKind := mergeKind (q.attr.getD "") (q.attr.getD "" != "" && q.isInt)

/-- ASSUMED law of the third-party Base58 codec (mr-tron/base58) for a stored value: decoding inverts encoding.
The concrete functions of the model satisfy it on the examples below; the correspondence run exercises the real
library on every owner / id value it generates. -/
def B58Law (r : List Nat) : Prop := b58Decode (b58Encode r) = some r

def specialAttrs : List String := ["", aOwner, aParent, aFirst, aAssociate, aChecksum, aHomo, aSplitID]

/-- well-formed index entries per primary attribute kind -/
def WFEnt (q : Query) (e : Ent) : Prop :=
  e.id < two256 ∧
  match q.attr with
  | none => e.raw = []
  | some a =>
    if q.isInt then (∃ z : I256, z.WF ∧ e.raw = encode z) ∧ a ∉ specialAttrs ∧ a ≠ "$Object:version" ∧ a ≠ "$Object:objectType"
    else if a = aOwner then e.raw.length = 25 ∧ e.raw.head? = some 0x35 ∧ B58Law e.raw
    else if a = aParent ∨ a = aFirst ∨ a = aAssociate then e.raw.length = 32 ∧ B58Law e.raw
    else if a = aChecksum then e.raw.length = 32 ∧ Bytes e.raw
    else if a = aSplitID then e.raw.length = 16 ∧ Bytes e.raw
    else a ∉ specialAttrs ∧ e.raw ≠ [] ∧ ∀ b ∈ e.raw, 0 < b ∧ b < 256

theorem intKey_toDec (i : Nat) (z : I256) (hz : z.WF) :
    (∃ p, splitIntString (toDec z) = some p) ∧ intKey ⟨i, some (toDec z)⟩ = z.toInt := by
  have h := readers_agree (toDec z)
  rw [parse_toDec z hz] at h
  cases hs : splitIntString (toDec z) with
  | none => rw [hs] at h; simp at h
  | some p =>
    rw [hs] at h
    simp only [Option.bind_some] at h
    refine ⟨⟨p, rfl⟩, ?_⟩
    simp only [intKey, hs]
    obtain ⟨neg, d⟩ := p
    unfold parseNormalized at h
    simp only at h
    split at h
    · simp at h
    · split at h
      · split at h
        · simp only [Option.some.injEq] at h
          subst h
          unfold splitVal I256.toInt Int256.mk
          cases neg <;> by_cases h0 : decVal d = 0 <;> simp [h0]
        · simp at h
      · simp at h

theorem ordK_int_toDec (i1 i2 : Nat) (z1 z2 : I256) (h1 : z1.WF) (h2 : z2.WF) :
    ordK .int ⟨i1, some (toDec z1)⟩ ⟨i2, some (toDec z2)⟩ = lexCmp (encode z1) (encode z2) := by
  simp only [ordK, (intKey_toDec i1 z1 h1).2, (intKey_toDec i2 z2 h2).2, encode_order z1 z2 h1 h2]

theorem ordK_oid_b58 (i1 i2 : Nat) (r1 r2 : List Nat) (l1 : r1.length = 32) (l2 : r2.length = 32) (b1 : B58Law r1) (b2 : B58Law r2) :
    ordK .oid ⟨i1, some (b58Encode r1)⟩ ⟨i2, some (b58Encode r2)⟩ = lexCmp r1 r2 := by
  unfold B58Law at b1 b2
  simp [ordK, bytesKey, decodeOID, b1, b2, l1, l2]

theorem ordK_owner_b58 (i1 i2 : Nat) (r1 r2 : List Nat) (l1 : r1.length = 25) (l2 : r2.length = 25)
    (p1 : r1.head? = some 0x35) (p2 : r2.head? = some 0x35) (b1 : B58Law r1) (b2 : B58Law r2) :
    ordK .owner ⟨i1, some (b58Encode r1)⟩ ⟨i2, some (b58Encode r2)⟩ = lexCmp r1 r2 := by
  unfold B58Law at b1 b2
  simp [ordK, bytesKey, decodeOwner, b1, b2, l1, l2, p1, p2]

theorem ordK_str (i1 i2 : Nat) (s1 s2 : Str) : ordK .str ⟨i1, some s1⟩ ⟨i2, some s2⟩ = lexCmpChars s1 s2 := by
  simp [ordK, bytesKey, lexCmpChars, strBytes]

theorem lexCmpChars_bytesStr (r1 r2 : List Nat) (h1 : Bytes r1) (h2 : Bytes r2) : lexCmpChars (bytesStr r1) (bytesStr r2) = lexCmp r1 r2 := by
  have e1 := strBytes_bytesStr r1 h1
  have e2 := strBytes_bytesStr r2 h2
  unfold strBytes at e1 e2
  unfold lexCmpChars
  rw [e1, e2]

theorem mem_special (a : String) : a ∉ specialAttrs ↔
    (a ≠ "" ∧ a ≠ aOwner ∧ a ≠ aParent ∧ a ≠ aFirst ∧ a ≠ aAssociate ∧ a ≠ aChecksum ∧ a ≠ aHomo ∧ a ≠ aSplitID) := by
  simp [specialAttrs]

/-- what a shard returns for a well-formed entry, and that the merge can compare it -/
theorem itemOf_valid (q : Query) (e : Ent) (w : WFEnt q e) : ValidK (kindOf q) (itemOf q e) := by
  obtain ⟨attr, isInt⟩ := q
  obtain ⟨_, w⟩ := w
  cases attr with
  | none => simp [kindOf, mergeKind, ValidK]
  | some a =>
    simp only at w
    by_cases hi : isInt = true
    · subst hi
      simp only [if_true] at w
      obtain ⟨⟨z, hz, hraw⟩, hsp, _, _⟩ := w
      have ha := ((mem_special a).mp hsp).1
      have hk : kindOf ⟨some a, true⟩ = .int := by simp [kindOf, mergeKind, ha]
      rw [hk]
      obtain ⟨⟨p, hp⟩, _⟩ := intKey_toDec e.id z hz
      exact ⟨toDec z, p, by simp [itemOf, restoreAttr, hraw, decode_encode z hz], hp⟩
    · have hi' : isInt = false := by simpa using hi
      subst hi'
      simp only [Bool.false_eq_true, if_false] at w
      by_cases h1 : a = aOwner
      · subst h1
        simp only [if_true] at w
        obtain ⟨l, p, b⟩ := w
        have hk : kindOf ⟨some aOwner, false⟩ = .owner := by decide
        rw [hk]
        refine ⟨b58Encode e.raw, e.raw, by simp [itemOf, restoreAttr], ?_⟩
        unfold B58Law at b
        simp [decodeOwner, b, l, p]
      · simp only [h1, if_false] at w
        by_cases h2 : a = aParent ∨ a = aFirst ∨ a = aAssociate
        · simp only [h2, if_true] at w
          obtain ⟨l, b⟩ := w
          have hk : kindOf ⟨some a, false⟩ = .oid := by
            rcases h2 with rfl | rfl | rfl <;> decide
          rw [hk]
          refine ⟨b58Encode e.raw, e.raw, ?_, ?_⟩
          · rcases h2 with rfl | rfl | rfl <;> simp [itemOf, restoreAttr, aOwner, aParent, aFirst, aAssociate]
          · unfold B58Law at b
            simp [decodeOID, b, l]
        · simp only [h2, if_false] at w
          by_cases h3 : a = aChecksum
          · subst h3
            rw [show kindOf ⟨some aChecksum, false⟩ = .str by decide]
            exact ⟨hexEnc e.raw, by simp [itemOf, restoreAttr, aOwner, aParent, aFirst, aAssociate, aChecksum]⟩
          · simp only [h3, if_false] at w
            by_cases h4 : a = aSplitID
            · subst h4
              simp only [if_true] at w
              rw [show kindOf ⟨some aSplitID, false⟩ = .str by decide]
              exact ⟨uuidStr e.raw, by simp [itemOf, restoreAttr, aOwner, aParent, aFirst, aAssociate, aChecksum, aHomo, aSplitID, w.1]⟩
            · simp only [h4, if_false] at w
              have hsp := (mem_special a).mp w.1
              have hk : kindOf ⟨some a, false⟩ = .str := by
                simp [kindOf, mergeKind, hsp.1, hsp.2.1, hsp.2.2.1, hsp.2.2.2.1, hsp.2.2.2.2.1]
              rw [hk]
              exact ⟨bytesStr e.raw, by
                simp [itemOf, restoreAttr, hsp.2.1, hsp.2.2.1, hsp.2.2.2.1, hsp.2.2.2.2.1, hsp.2.2.2.2.2.1, hsp.2.2.2.2.2.2.1,
                  hsp.2.2.2.2.2.2.2]⟩

/-! ### what a shard returns per kind -/

theorem itemOf_int (a : String) (e : Ent) (z : I256) (hz : z.WF) (hraw : e.raw = encode z) :
    itemOf ⟨some a, true⟩ e = ⟨e.id, some (toDec z)⟩ := by
  simp [itemOf, restoreAttr, hraw, decode_encode z hz]

theorem itemOf_b58 (a : String) (e : Ent) (ha : a = aOwner ∨ a = aParent ∨ a = aFirst ∨ a = aAssociate) :
    itemOf ⟨some a, false⟩ e = ⟨e.id, some (b58Encode e.raw)⟩ := by
  rcases ha with rfl | rfl | rfl | rfl <;> simp [itemOf, restoreAttr, aOwner, aParent, aFirst, aAssociate]

theorem itemOf_checksum (e : Ent) : itemOf ⟨some aChecksum, false⟩ e = ⟨e.id, some (hexEnc e.raw)⟩ := by
  simp [itemOf, restoreAttr, aOwner, aParent, aFirst, aAssociate, aChecksum]

theorem itemOf_splitID (e : Ent) (hl : e.raw.length = 16) : itemOf ⟨some aSplitID, false⟩ e = ⟨e.id, some (uuidStr e.raw)⟩ := by
  simp [itemOf, restoreAttr, aOwner, aParent, aFirst, aAssociate, aChecksum, aHomo, aSplitID, hl]

theorem itemOf_plain (a : String) (e : Ent) (hsp : a ∉ specialAttrs) : itemOf ⟨some a, false⟩ e = ⟨e.id, some (bytesStr e.raw)⟩ := by
  have h := (mem_special a).mp hsp
  simp [itemOf, restoreAttr, h.2.1, h.2.2.1, h.2.2.2.1, h.2.2.2.2.1, h.2.2.2.2.2.1, h.2.2.2.2.2.2.1, h.2.2.2.2.2.2.2]

theorem kindOf_plain (a : String) (hsp : a ∉ specialAttrs) : kindOf ⟨some a, false⟩ = .str := by
  have h := (mem_special a).mp hsp
  simp [kindOf, mergeKind, h.1, h.2.1, h.2.2.1, h.2.2.2.1, h.2.2.2.2.1]

theorem kindOf_int (a : String) (ha : a ≠ "") : kindOf ⟨some a, true⟩ = .int := by simp [kindOf, mergeKind, ha]

theorem bytes_of_pos {l : List Nat} (h : ∀ b ∈ l, 0 < b ∧ b < 256) : Bytes l := fun b hb => (h b hb).2

/-- **`merge_order_eq_index_order`.**  For EVERY primary attribute kind (id listing, integer attributes, owner,
parent / first part / associated object ids, payload checksum, split id, plain strings) and any two well-formed
index entries of different objects: the item of the first lies before the item of the second in the order
`MergeSearchResults` selects by iff its index key is the smaller one.  Uses C05 (`encode_order`,
`compare_strings_numeric`) for integers; hex and the canonical UUID string are shown order preserving; Base58 values
are DECODED by the merge (for the associated object only since the fix), under the assumed codec law. -/
theorem merge_order_eq_index_order (q : Query) (e1 e2 : Ent) (w1 : WFEnt q e1) (w2 : WFEnt q e2) (hne : e1.id ≠ e2.id) :
    ltI (ordK (kindOf q)) (itemOf q e1) (itemOf q e2) = true ↔ lexCmp (indexKey q e1) (indexKey q e2) = .lt := by
  obtain ⟨attr, isInt⟩ := q
  obtain ⟨i1, w1⟩ := w1
  obtain ⟨i2, w2⟩ := w2
  cases attr with
  | none =>
    refine ltI_iff_key _ _ _ _ _ .eq (by simp [kindOf, mergeKind, ordK]) ?_ hne
    simp [indexKey, itemOf, lexCmp_cons_same, idBytes_order _ _ i1 i2, Ordering.then]
  | some a =>
    simp only at w1 w2
    by_cases hi : isInt = true
    · subst hi
      simp only [if_true] at w1 w2
      obtain ⟨⟨z1, hz1, r1⟩, hsp, _, _⟩ := w1
      obtain ⟨⟨z2, hz2, r2⟩, _, _, _⟩ := w2
      rw [kindOf_int a ((mem_special a).mp hsp).1, itemOf_int a e1 z1 hz1 r1, itemOf_int a e2 z2 hz2 r2]
      refine ltI_iff_key _ _ _ _ _ _ (ordK_int_toDec e1.id e2.id z1 z2 hz1 hz2) ?_ hne
      simp only [indexKey, if_true]
      rw [intKey_order _ _ _ _ _ (by rw [r1, r2, encode_length, encode_length]) i1 i2, r1, r2]
    · have hi' : isInt = false := by simpa using hi
      subst hi'
      simp only [Bool.false_eq_true, if_false] at w1 w2
      by_cases h1 : a = aOwner
      · subst h1
        simp only [if_true] at w1 w2
        rw [show kindOf ⟨some aOwner, false⟩ = .owner by decide, itemOf_b58 aOwner e1 (Or.inl rfl), itemOf_b58 aOwner e2 (Or.inl rfl)]
        refine ltI_iff_key _ _ _ _ _ _ (ordK_owner_b58 _ _ _ _ w1.1 w2.1 w1.2.1 w2.2.1 w1.2.2 w2.2.2) ?_ hne
        simp only [indexKey, Bool.false_eq_true, if_false]
        exact plainKey_order_fixed _ _ _ _ _ (by rw [w1.1, w2.1]) i1 i2
      · simp only [h1, if_false] at w1 w2
        by_cases h2 : a = aParent ∨ a = aFirst ∨ a = aAssociate
        · simp only [h2, if_true] at w1 w2
          have hk : kindOf ⟨some a, false⟩ = .oid := by rcases h2 with rfl | rfl | rfl <;> decide
          rw [hk, itemOf_b58 a e1 (Or.inr h2), itemOf_b58 a e2 (Or.inr h2)]
          refine ltI_iff_key _ _ _ _ _ _ (ordK_oid_b58 _ _ _ _ w1.1 w2.1 w1.2 w2.2) ?_ hne
          simp only [indexKey, Bool.false_eq_true, if_false]
          exact plainKey_order_fixed _ _ _ _ _ (by rw [w1.1, w2.1]) i1 i2
        · simp only [h2, if_false] at w1 w2
          by_cases h3 : a = aChecksum
          · subst h3
            simp only [if_true] at w1 w2
            rw [show kindOf ⟨some aChecksum, false⟩ = .str by decide, itemOf_checksum, itemOf_checksum]
            refine ltI_iff_key _ _ _ _ _ _ ((ordK_str _ _ _ _).trans (hexEnc_order _ _ w1.2 w2.2)) ?_ hne
            simp only [indexKey, Bool.false_eq_true, if_false]
            exact plainKey_order_fixed _ _ _ _ _ (by rw [w1.1, w2.1]) i1 i2
          · simp only [h3, if_false] at w1 w2
            by_cases h4 : a = aSplitID
            · subst h4
              simp only [if_true] at w1 w2
              rw [show kindOf ⟨some aSplitID, false⟩ = .str by decide, itemOf_splitID e1 w1.1, itemOf_splitID e2 w2.1]
              refine ltI_iff_key _ _ _ _ _ _ ((ordK_str _ _ _ _).trans (uuidStr_order _ _ w1.2 w2.2 w1.1 w2.1)) ?_ hne
              simp only [indexKey, Bool.false_eq_true, if_false]
              exact plainKey_order_fixed _ _ _ _ _ (by rw [w1.1, w2.1]) i1 i2
            · simp only [h4, if_false] at w1 w2
              rw [kindOf_plain a w1.1, itemOf_plain a e1 w1.1, itemOf_plain a e2 w1.1]
              refine ltI_iff_key _ _ _ _ _ _
                ((ordK_str _ _ _ _).trans (lexCmpChars_bytesStr _ _ (bytes_of_pos w1.2.2) (bytes_of_pos w2.2.2))) ?_ hne
              simp only [indexKey, Bool.false_eq_true, if_false]
              exact plainKey_order_nozero _ _ _ _ _ (fun b hb => (w1.2.2 b hb).1) (fun b hb => (w2.2.2 b hb).1) i1 i2

/-! ## Part 3 — the recomputed cursor is the index key of the last item -/

/-- the key is not longer than an object header may be (cursors above `MaxHeaderLen` are rejected) -/
def KeyFits (q : Query) (e : Ent) : Prop :=
  match q.attr with
  | none => True
  | some a => (strBytes a.toList).length + e.raw.length + 34 ≤ maxHeaderLen

def seekPrefix (q : Query) : List Nat :=
  match q.attr with
  | none => [0]
  | some a => (if q.isInt then 1 else 2) :: strBytes a.toList ++ [0]

theorem encode_head_le (z : I256) : ∀ s, (encode z).head? = some s → s ≤ 1 := by
  intro s hs
  unfold encode at hs
  simp only [List.head?_cons, Option.some.injEq] at hs
  subst hs
  split <;> omega

theorem plainKey_drop (a : String) (e : Ent) : (indexKey ⟨some a, false⟩ e).drop 1 = plainCursor a e.raw e.id := by
  simp [indexKey, plainCursor]

theorem plainKey_eq (a : String) (e : Ent) : indexKey ⟨some a, false⟩ e = 2 :: plainCursor a e.raw e.id := by
  simp [indexKey, plainCursor]

/-- **`cursor_roundtrip`.**  For EVERY primary attribute kind and every well-formed index entry: the cursor
`CalculateCursor` rebuilds from the result item is exactly the entry's index key (without the prefix byte, as a shard
itself returns it), and `PreprocessSearchQuery` accepts it and seeks to that very key — so the next page resumes
strictly after the last item on every shard. -/
theorem cursor_roundtrip (q : Query) (e : Ent) (w : WFEnt q e) (hf : KeyFits q e) :
    calcCursor (filtOf q) (itemOf q e) = .ok ((indexKey q e).drop 1) ∧
      decodeCursor q.attr q.isInt ((indexKey q e).drop 1) = .ok ⟨indexKey q e, seekPrefix q⟩ := by
  obtain ⟨attr, isInt⟩ := q
  obtain ⟨_, w⟩ := w
  cases attr with
  | none =>
    refine ⟨by simp [filtOf, calcCursor, itemOf, indexKey], ?_⟩
    simp only [indexKey, List.drop_succ_cons, List.drop_zero]
    exact decodeCursor_id e.id
  | some a =>
    simp only at w
    simp only [KeyFits] at hf
    by_cases hi : isInt = true
    · subst hi
      simp only [if_true] at w
      obtain ⟨⟨z, hz, hraw⟩, hsp, hv, ht⟩ := w
      have h := (mem_special a).mp hsp
      have hk : (indexKey ⟨some a, true⟩ e).drop 1 = strBytes a.toList ++ 0 :: encode z ++ idBytes e.id := by
        simp [indexKey, hraw]
      rw [hk, itemOf_int a e z hz hraw]
      refine ⟨?_, ?_⟩
      · simp [filtOf, calcCursor, h.2.1, h.2.2.1, h.2.2.2.1, h.2.2.2.2.1, h.2.2.2.2.2.1, h.2.2.2.2.2.2.1, h.2.2.2.2.2.2.2, hv, ht,
          parse_toDec z hz]
      · have := decodeCursor_int a (encode z) e.id (encode_length z) (encode_head_le z)
          (by rw [hraw, encode_length] at hf; simp only [encodedLen] at hf; omega)
        rw [this]
        simp [indexKey, seekPrefix, hraw]
    · have hi' : isInt = false := by simpa using hi
      subst hi'
      simp only [Bool.false_eq_true, if_false] at w
      rw [plainKey_drop, plainKey_eq]
      have hpfx : seekPrefix ⟨some a, false⟩ = 2 :: strBytes a.toList ++ [0] := by simp [seekPrefix]
      rw [hpfx]
      by_cases h1 : a = aOwner
      · subst h1
        simp only [if_true] at w
        obtain ⟨l, _, b⟩ := w
        unfold B58Law at b
        rw [itemOf_b58 aOwner e (Or.inl rfl)]
        exact ⟨by simp [filtOf, calcCursor, b], decodeCursor_plain _ _ _ (by intro h; simp [h] at l) (by omega)⟩
      · simp only [h1, if_false] at w
        by_cases h2 : a = aParent ∨ a = aFirst ∨ a = aAssociate
        · simp only [h2, if_true] at w
          obtain ⟨l, b⟩ := w
          unfold B58Law at b
          rw [itemOf_b58 a e (Or.inr h2)]
          refine ⟨?_, decodeCursor_plain _ _ _ (by intro h; simp [h] at l) (by omega)⟩
          rcases h2 with rfl | rfl | rfl <;> simp [filtOf, calcCursor, b, aOwner, aParent, aFirst, aAssociate]
        · simp only [h2, if_false] at w
          by_cases h3 : a = aChecksum
          · subst h3
            simp only [if_true] at w
            rw [itemOf_checksum]
            refine ⟨?_, decodeCursor_plain _ _ _ (by intro h; simp [h] at w) (by omega)⟩
            simp [filtOf, calcCursor, aOwner, aParent, aFirst, aAssociate, aChecksum, aHomo, hexEnc_length, w.1,
              hexDec_hexEnc e.raw w.2]
          · simp only [h3, if_false] at w
            by_cases h4 : a = aSplitID
            · subst h4
              simp only [if_true] at w
              rw [itemOf_splitID e w.1]
              refine ⟨?_, decodeCursor_plain _ _ _ (by intro h; simp [h] at w) (by omega)⟩
              simp [filtOf, calcCursor, aOwner, aParent, aFirst, aAssociate, aChecksum, aHomo, aSplitID,
                uuidParse_uuidStr e.raw w.2 w.1]
            · simp only [h4, if_false] at w
              have h := (mem_special a).mp w.1
              rw [itemOf_plain a e w.1]
              refine ⟨?_, decodeCursor_plain _ _ _ w.2.1 (by omega)⟩
              have hb := strBytes_bytesStr e.raw (bytes_of_pos w.2.2)
              by_cases hvt : a = "$Object:version" ∨ a = "$Object:objectType"
              · rcases hvt with rfl | rfl <;> simp [filtOf, calcCursor, aOwner, aParent, aFirst, aAssociate, aChecksum, aHomo, aSplitID, hb]
              · simp only [not_or] at hvt
                simp [filtOf, calcCursor, h.2.1, h.2.2.1, h.2.2.2.1, h.2.2.2.2.1, h.2.2.2.2.2.1, h.2.2.2.2.2.2.1, h.2.2.2.2.2.2.2,
                  hvt.1, hvt.2, hb]

/-! ### non-vacuity of the hypotheses -/

/-- the Base58 law holds for the concrete codec of the model on short-number ids, a full-width id and an owner -/
example : B58Law (idBytes 57) ∧ B58Law (idBytes 58) ∧ B58Law (idBytes (2 ^ 255 + 12345)) ∧
    B58Law (0x35 :: List.replicate 20 7 ++ [1, 2, 3, 4]) := by
  unfold B58Law; decide +kernel

/-- well-formed entries of every kind exist -/
example : WFEnt ⟨some aAssociate, false⟩ ⟨101, idBytes 57⟩ ∧ WFEnt ⟨some aChecksum, false⟩ ⟨101, List.replicate 32 1⟩ ∧
    WFEnt ⟨some "N", true⟩ ⟨7, encode ⟨true, 10⟩⟩ ∧ WFEnt ⟨none, false⟩ ⟨7, []⟩ ∧ WFEnt ⟨some "S", false⟩ ⟨7, [97, 98]⟩ := by
  refine ⟨⟨by decide, ?_⟩, ⟨by decide, ?_⟩, ⟨by decide, ?_⟩, ⟨by decide, rfl⟩, ⟨by decide, ?_⟩⟩
  · simp only [Bool.false_eq_true, if_false, show aAssociate ≠ aOwner by decide, show (aAssociate = aParent ∨ aAssociate = aFirst ∨
      aAssociate = aAssociate) by simp, if_true]
    exact ⟨by decide, by unfold B58Law; decide +kernel⟩
  · simp only [Bool.false_eq_true, if_false, show aChecksum ≠ aOwner by decide, show ¬ (aChecksum = aParent ∨ aChecksum = aFirst ∨
      aChecksum = aAssociate) by decide, if_true]
    exact ⟨by decide, by intro b hb; simp at hb; omega⟩
  · simp only [if_true]
    exact ⟨⟨⟨true, 10⟩, by decide, rfl⟩, by decide, by decide, by decide⟩
  · simp only [Bool.false_eq_true, if_false, show ("S" : String) ≠ aOwner by decide, show ¬ (("S" : String) = aParent ∨ "S" = aFirst ∨
      "S" = aAssociate) by decide, show ("S" : String) ≠ aChecksum by decide, show ("S" : String) ≠ aSplitID by decide]
    exact ⟨by decide, by simp, by intro b hb; simp at hb; omega⟩

/-! ## The behaviour before the fixes (replayed on the real engine, see corpus/smerge/boundary.ops)

`e57`, `e58`: two objects whose associated-object ids are 57 and 58.  As bytes 57 < 58, so the index of every shard
lists object 101 first; as Base58 strings "1…1z" > "1…121", so the old merge put object 102 first: the merged page
was out of order, and with pages of one item object 101 was never returned. -/

def qAssoc : Query := ⟨some aAssociate, false⟩
def e57 : Ent := ⟨101, idBytes 57⟩
def e58 : Ent := ⟨102, idBytes 58⟩

/-- the index orders 101 before 102, the OLD merge order the opposite way; the repaired one agrees with the index -/
theorem old_merge_order_counterexample :
    lexCmp (indexKey qAssoc e57) (indexKey qAssoc e58) = .lt ∧
      ltI (ordK (mergeKindOld aAssociate false)) (itemOf qAssoc e58) (itemOf qAssoc e57) = true ∧
      ltI (ordK (mergeKind aAssociate false)) (itemOf qAssoc e57) (itemOf qAssoc e58) = true := by
  decide +kernel

/-- … so merging the two one-item pages of two shards gave 102, 101 where a single search over the union gives
101, 102; and with pages of one item, 101 is lost: the second request resumes after 102's key, which is after 101's -/
theorem old_merge_result_counterexample :
    mergeLoop (mergeKindOld aAssociate false) 2 false 3 0 [[itemOf qAssoc e57], [itemOf qAssoc e58]] =
        .ok ([itemOf qAssoc e58, itemOf qAssoc e57], false) ∧
      (shardSearch qAssoc [e57, e58] ⟨2 :: strBytes aAssociate.toList ++ [0], 2 :: strBytes aAssociate.toList ++ [0]⟩ 2).items =
        [itemOf qAssoc e57, itemOf qAssoc e58] ∧
      mergeLoop (mergeKind aAssociate false) 2 false 3 0 [[itemOf qAssoc e57], [itemOf qAssoc e58]] =
        .ok ([itemOf qAssoc e57, itemOf qAssoc e58], false) := by
  decide +kernel

/-- the OLD cursor for the associated object was built from the Base58 string: not the index key -/
theorem old_associate_cursor_counterexample :
    associateCursorOld (b58Encode (idBytes 57)) 101 ≠ (indexKey qAssoc e57).drop 1 ∧
      calcCursor (filtOf qAssoc) (itemOf qAssoc e57) = .ok ((indexKey qAssoc e57).drop 1) := by
  decide +kernel

def qCk : Query := ⟨some aChecksum, false⟩
def eCk : Ent := ⟨101, List.replicate 32 1⟩

/-- the OLD cursor for the payload checksum had the id copied over the hash: it is not the index key and the next
request rejects it (the byte before the last 32 is the id's last byte, not the delimiter); the repaired one is the
key and is accepted -/
theorem old_checksum_cursor_counterexample :
    checksumCursorOld eCk.raw eCk.id ≠ (indexKey qCk eCk).drop 1 ∧
      decodeCursor (some aChecksum) false (checksumCursorOld eCk.raw eCk.id) = .error .valOidDelim ∧
      calcCursor (filtOf qCk) (itemOf qCk eCk) = .ok ((indexKey qCk eCk).drop 1) ∧
      decodeCursor (some aChecksum) false ((indexKey qCk eCk).drop 1) = .ok ⟨indexKey qCk eCk, seekPrefix qCk⟩ := by
  decide +kernel

end NeoFS.SearchMerge
