import NeoFS.Model.Validate
import Mathlib.Data.List.Basic
/-!
# C24 (partial) — the node hands to storage only self-consistent, authenticated objects

Theorems over `Model/Validate.lean` (`validatingTarget`) for every header, every payload, EVERY chunking of the
payload writes, every hash function and every position of a failing downstream write. The format validator is
abstracted to one boolean per check with an ideal signature scheme, so `consistent`/`authenticated` below are
conjunctions of those booleans: what is proved is that the streaming state machine lets nothing through that
fails one of them, that the bytes handed on are exactly the streamed bytes with the declared length and
checksum, and that a failed downstream write always surfaces.
-/
namespace NeoFS.Validate

variable {D : Type} [DecidableEq D]

/-- the header describes itself and the payload `p` -/
def consistent (H : List Nat → D) (h : Hdr D) (p : List Nat) : Prop :=
  h.versionOk = true ∧ h.cidSet = true ∧ h.cnrKnown = true ∧ h.attrsOk = true ∧ h.expOk = true ∧
    h.idSet = true ∧ h.idMatches = true ∧ p.length = h.size ∧ h.csum = some (H p)

/-- the signature authenticates the owner (or session issuer) -/
def authenticated (h : Hdr D) : Prop := h.ownerSet = true ∧ h.sigOk = true ∧ h.ownerIsSigner = true

theorem write_ok (c : Cfg) (h : Hdr D) (failAt : Nat) (s s' : St) (p : List Nat) (hw : write c h failAt s p = .ok s') :
    s'.down = s.down ++ p ∧ s'.written = s.written + p.length ∧ s'.writes = s.writes + 1 ∧
      (c.unprep = false → s'.hashed = s.hashed ++ p) ∧ failAt ≠ s.writes + 1 ∧ quotaOk c s'.written = true := by
  unfold write at hw
  by_cases h1 : (!c.unprep && decide (s.written + p.length > h.size)) = true
  · rw [if_pos h1] at hw; simp at hw
  · rw [if_neg h1] at hw
    simp only at hw
    by_cases h2 : failAt = s.writes + 1
    · rw [if_pos h2] at hw; split_ifs at hw
    · rw [if_neg h2] at hw
      by_cases h4 : (!quotaOk c (s.written + p.length)) = true
      · rw [if_pos h4] at hw; simp at hw
      · rw [if_neg h4] at hw
        simp only [Except.ok.injEq] at hw
        subst hw
        exact ⟨rfl, rfl, rfl, fun hu => by simp [hu], h2, by simpa using h4⟩

theorem writes_ok (c : Cfg) (h : Hdr D) (failAt : Nat) : ∀ (ps : List (List Nat)) (k : Nat) (s s' : St),
    writes c h failAt ps k s = .ok s' →
    s'.down = s.down ++ ps.flatten ∧ s'.written = s.written + ps.flatten.length ∧ s'.writes = s.writes + ps.length ∧
      (c.unprep = false → s'.hashed = s.hashed ++ ps.flatten) ∧ (failAt ≤ s.writes ∨ s'.writes < failAt) := by
  intro ps
  induction ps with
  | nil =>
    intro k s s' hw
    simp only [writes, Except.ok.injEq] at hw
    subst hw
    refine ⟨by simp, by simp, by simp, fun _ => by simp, ?_⟩
    omega
  | cons p ps ih =>
    intro k s s' hw
    unfold writes at hw
    cases hw1 : write c h failAt s p with
    | error e => rw [hw1] at hw; simp at hw
    | ok s1 =>
      rw [hw1] at hw
      simp only at hw
      obtain ⟨a1, a2, a3, a4, a5, _⟩ := write_ok c h failAt s s1 p hw1
      obtain ⟨b1, b2, b3, b4, b5⟩ := ih (k + 1) s1 s' hw
      refine ⟨by rw [b1, a1]; simp, by rw [b2, a2]; simp; omega, by rw [b3, a3]; simp; omega,
        fun hu => by rw [b4 hu, a4 hu]; simp, ?_⟩
      omega

/-- **Prepared objects.** If the whole stream is accepted then the format checks all held, the size is within
the limit and the quota, and the next target received exactly the streamed bytes, whose length and hash are
the declared ones — for every chunking. -/
theorem stored_implies_valid (c : Cfg) (H : List Nat → D) (h : Hdr D) (failAt : Nat) (chunks : List (List Nat)) (s : St)
    (hp : c.unprep = false) (hs : stream c H h failAt chunks = .ok s) :
    consistent H h chunks.flatten ∧ authenticated h ∧ s.down = chunks.flatten ∧ h.size ≤ c.maxSz ∧
      quotaOk c h.size = true := by
  unfold stream at hs
  cases hh : writeHeader c h with
  | error e => rw [hh] at hs; simp at hs
  | ok s0 =>
    rw [hh] at hs
    simp only at hs
    cases hw : writes c h failAt chunks 1 s0 with
    | error e => rw [hw] at hs; simp at hs
    | ok s1 =>
      rw [hw] at hs
      simp only at hs
      cases hc : close c H h s1 with
      | error e => rw [hc] at hs; simp at hs
      | ok s2 =>
        rw [hc] at hs
        simp only [Except.ok.injEq] at hs
        subst hs
        -- header
        unfold writeHeader at hh
        simp only [hp, Bool.not_false, Bool.true_and] at hh
        split_ifs at hh with g1 g2 g3 g4
        all_goals simp only [Except.ok.injEq, reduceCtorEq] at hh
        subst hh
        -- close
        unfold close at hc
        simp only [hp, Bool.false_eq_true, if_false] at hc
        split_ifs at hc with c1 c2
        all_goals simp only [Except.ok.injEq, reduceCtorEq] at hc
        subst hc
        obtain ⟨b1, b2, _, b4, _⟩ := writes_ok c h failAt chunks 1 _ _ hw
        have hfmt : fmtAccept false h = true := by simpa using g3
        unfold fmtAccept at hfmt
        simp only [Bool.false_or, Bool.and_eq_true] at hfmt
        obtain ⟨⟨⟨⟨⟨⟨f1, f2⟩, f3⟩, f4⟩, f5⟩, f6⟩, ⟨⟨f7, f8⟩, f9⟩, f10⟩ := hfmt
        have hlen : chunks.flatten.length = h.size := by
          have : h.size = s1.written := by simpa using c1
          rw [this, b2]; simp
        have hcs : h.csum = some (H chunks.flatten) := by
          have : some (H s1.hashed) = h.csum := by simpa using c2
          rw [← this, b4 hp]; simp
        refine ⟨⟨f1, f2, f4, f5, f6, f7, f8, hlen, hcs⟩, ⟨f3, f9, f10⟩, by rw [b1]; simp, ?_, by simpa using g4⟩
        simpa using g1

/-- **Unprepared objects** (the node slices and signs): an accepted stream hands on exactly the streamed
bytes, and the user-settable header fields passed the format checks. -/
theorem unprepared_stored_is_streamed (c : Cfg) (H : List Nat → D) (h : Hdr D) (failAt : Nat) (chunks : List (List Nat))
    (s : St) (hp : c.unprep = true) (hs : stream c H h failAt chunks = .ok s) :
    s.down = chunks.flatten ∧ fmtAccept true h = true := by
  unfold stream at hs
  cases hh : writeHeader c h with
  | error e => rw [hh] at hs; simp at hs
  | ok s0 =>
    rw [hh] at hs
    simp only at hs
    cases hw : writes c h failAt chunks 1 s0 with
    | error e => rw [hw] at hs; simp at hs
    | ok s1 =>
      rw [hw] at hs
      simp only at hs
      unfold close at hs
      simp only [hp, if_true, Except.ok.injEq] at hs
      subst hs
      unfold writeHeader at hh
      simp only [hp, Bool.not_true, Bool.false_and, Bool.false_eq_true, if_false] at hh
      split_ifs at hh with g3 g4
      all_goals simp only [Except.ok.injEq, reduceCtorEq] at hh
      subst hh
      obtain ⟨b1, _⟩ := writes_ok c h failAt chunks 1 _ _ hw
      exact ⟨by rw [b1]; simp, by simpa using g3⟩

/-- **A failed downstream write always surfaces**: if the next target fails one of the writes of the stream,
the stream is not accepted (prepared or not, whatever the chunking). -/
theorem downstream_error_surfaces (c : Cfg) (H : List Nat → D) (h : Hdr D) (failAt : Nat) (chunks : List (List Nat))
    (h1 : 1 ≤ failAt) (h2 : failAt ≤ chunks.length) : ∀ s, stream c H h failAt chunks ≠ .ok s := by
  intro s hs
  unfold stream at hs
  cases hh : writeHeader c h with
  | error e => rw [hh] at hs; simp at hs
  | ok s0 =>
    rw [hh] at hs
    simp only at hs
    cases hw : writes c h failAt chunks 1 s0 with
    | error e => rw [hw] at hs; simp at hs
    | ok s1 =>
      obtain ⟨_, _, b3, _, b5⟩ := writes_ok c h failAt chunks 1 _ _ hw
      have h0 : s0.writes = 0 := by
        unfold writeHeader at hh
        split_ifs at hh
        all_goals simp only [Except.ok.injEq, reduceCtorEq] at hh
        subst hh; rfl
      omega

/-- **Chunking is irrelevant** for what is handed on: two accepted streams of the same bytes hand on the same bytes. -/
theorem chunking_irrelevant (c : Cfg) (H : List Nat → D) (h : Hdr D) (f1 f2 : Nat) (ch1 ch2 : List (List Nat)) (s1 s2 : St)
    (he : ch1.flatten = ch2.flatten) (hp : c.unprep = false)
    (h1 : stream c H h f1 ch1 = .ok s1) (h2 : stream c H h f2 ch2 = .ok s2) : s1.down = s2.down := by
  rw [(stored_implies_valid c H h f1 ch1 s1 hp h1).2.2.1, (stored_implies_valid c H h f2 ch2 s2 hp h2).2.2.1, he]

/-! ### Authentication does not depend on what the node validated before (shared session-token cache) -/

/-- every cached verdict is the verdict of the token it is cached for -/
def CacheOK (T : Nat → Tok) (c : Cache) : Prop := ∀ e ∈ c, e.2 = (T e.1).sigValid

theorem cacheOK_nil (T : Nat → Tok) : CacheOK T [] := by intro e he; cases he

theorem lookup_mem_cache : ∀ (c : Cache) (k : Nat) (v : Bool), c.lookup k = some v → (k, v) ∈ c := by
  intro c
  induction c with
  | nil => intro k v h; simp at h
  | cons a l ih =>
    intro k v h
    obtain ⟨a1, a2⟩ := a
    rw [List.lookup_cons] at h
    by_cases e : k == a1
    · simp only [e] at h
      have : k = a1 := by simpa using e
      subst this
      simp only [Option.some.injEq] at h
      subst h
      exact List.mem_cons_self
    · simp only [e] at h
      exact List.mem_cons_of_mem _ (ih k v h)

/-- the memoised token check answers exactly what the token check would answer, whatever is cached, for every
capacity (eviction included), and keeps the cache truthful -/
theorem cacheAuth_sound (T : Nat → Tok) (cap : Nat) (c : Cache) (k : Nat) (h : CacheOK T c) :
    (cacheAuth cap c k (T k).sigValid).2 = (T k).sigValid ∧ CacheOK T (cacheAuth cap c k (T k).sigValid).1 := by
  unfold cacheAuth
  cases hl : c.lookup k with
  | some v =>
    have hm := lookup_mem_cache c k v hl
    have hv : v = (T k).sigValid := h _ hm
    refine ⟨hv, ?_⟩
    intro e he
    rcases List.mem_cons.mp he with he | he
    · subst he; exact hv
    · exact h e (List.mem_of_mem_filter he)
  | none =>
    refine ⟨rfl, ?_⟩
    intro e he
    have he' := List.mem_of_mem_take he
    rcases List.mem_cons.mp he' with he' | he'
    · subst he'; rfl
    · exact h e he'

/-- **One object.** With a truthful cache the verdict of `AuthenticateObject` is the verdict a node that has never
seen any token would give, and the cache stays truthful. -/
theorem auth_verdict_cache_independent (T : Nat → Tok) (cap : Nat) (c : Cache) (o : AObj) (h : CacheOK T c) :
    (authenticate T cap c o).2 = (authenticate T 0 [] o).2 ∧ CacheOK T (authenticate T cap c o).1 := by
  unfold authenticate
  cases ht : o.tok with
  | none =>
    simp only
    split_ifs <;> exact ⟨rfl, h⟩
  | some k =>
    simp only
    obtain ⟨h1, h2⟩ := cacheAuth_sound T cap c k h
    obtain ⟨h3, _⟩ := cacheAuth_sound T 0 [] k (cacheOK_nil T)
    by_cases hs : ((T k).subject != o.signer) = true
    · simp only [hs, if_true]; exact ⟨trivial, h⟩
    · simp only [hs, if_false, h1, h3, Bool.false_eq_true]
      split_ifs <;> exact ⟨rfl, h2⟩

/-- **Sequences.** Whatever objects (with whatever tokens, V1 or V2, authentic or not, for whatever owners) one
validator with one shared cache of any capacity has validated before, the verdict of every object of a sequence
is the verdict it gets from a fresh validator: validation has no memory. -/
theorem authSeq_history_independent (T : Nat → Tok) (cap : Nat) : ∀ (objs : List AObj) (c : Cache), CacheOK T c →
    authSeq T cap c objs = objs.map fun o => (authenticate T 0 [] o).2 := by
  intro objs
  induction objs with
  | nil => intro c _; rfl
  | cons o os ih =>
    intro c h
    obtain ⟨h1, h2⟩ := auth_verdict_cache_independent T cap c o h
    simp only [authSeq, List.map_cons, h1, ih _ h2]

/-- the verdict of the last object does not depend on the history before it -/
theorem auth_last_verdict_history_independent (T : Nat → Tok) (cap : Nat) (hist : List AObj) (o : AObj) :
    authSeq T cap [] (hist ++ [o]) = authSeq T cap [] hist ++ [(authenticate T 0 [] o).2] := by
  rw [authSeq_history_independent T cap _ [] (cacheOK_nil T), authSeq_history_independent T cap _ [] (cacheOK_nil T)]
  simp

/-- **An accepted object is bound to its owner**, after any history: its signature verifies, and either the owner
signed it, or it carries an authentic session token issued BY THE OWNER for the signing key. -/
theorem authenticated_owner_bound (T : Nat → Tok) (cap : Nat) (hist : List AObj) (o : AObj)
    (h : (authSeq T cap [] (hist ++ [o])).getLast? = some none) :
    o.sigOk = true ∧
      match o.tok with
      | none => o.signer = o.owner
      | some k => (T k).sigValid = true ∧ (T k).subject = o.signer ∧ (T k).issuer = o.owner := by
  rw [auth_last_verdict_history_independent] at h
  simp only [List.getLast?_append, List.getLast?_singleton, Option.some_or, Option.some.injEq] at h
  unfold authenticate at h
  cases ht : o.tok with
  | none =>
    rw [ht] at h
    simp only at h
    split_ifs at h with a b
    simp only [Bool.not_eq_true, Bool.not_eq_eq_eq_not, Bool.not_true] at a
    exact ⟨by simpa using a, by simpa using b⟩
  | some k =>
    rw [ht] at h
    simp only [cacheAuth, List.lookup_nil, List.take_zero] at h
    cases h1 : ((T k).subject != o.signer) <;> simp only [h1, Bool.false_eq_true, if_false, if_true, reduceCtorEq] at h
    cases h2 : (T k).sigValid <;> simp only [h2, Bool.not_true, Bool.not_false, Bool.false_eq_true, if_false, if_true, reduceCtorEq] at h
    cases h3 : ((T k).issuer != o.owner) <;> simp only [h3, Bool.false_eq_true, if_false, if_true, reduceCtorEq] at h
    cases h4 : o.sigOk <;> simp only [h4, Bool.not_true, Bool.not_false, Bool.false_eq_true, if_false, if_true, reduceCtorEq] at h
    exact ⟨rfl, h2, by simpa using h1, by simpa using h3⟩

/-! ### Nothing with an invalid format (header or content) reaches a node's local storage -/

/-- **Every entry point.** Whatever the object type and however the request enters the cluster (PUT at a container
node for the network or local-only, PUT at a node outside the container that forwards it, `Replicate`): a node
whose local storage received the object had the header AND the type-specific content validated. -/
theorem stored_implies_format_valid (r : Route) (nodeSeals : Bool) (o : EObj) (n : Nat) (h : n ∈ (cluster r nodeSeals o).2) :
    o.hdrOk = true ∧ o.contentOk = true := by
  obtain ⟨typ, hdrOk, contentOk⟩ := o
  cases r <;> cases nodeSeals <;> cases typ <;> cases hdrOk <;> cases contentOk <;>
    simp [cluster, putChecks, closeChecks, replicateChecks, okNodes] at h ⊢

/-- the sender is told `ok` only if a container node stored the object (except for the refused route) -/
theorem cluster_ok_implies_stored (r : Route) (nodeSeals : Bool) (o : EObj) (h : (cluster r nodeSeals o).1 = .ok ()) :
    r = .relayLocal ∨ (cluster r nodeSeals o).2 ≠ [] := by
  obtain ⟨typ, hdrOk, contentOk⟩ := o
  cases r <;> cases nodeSeals <;> cases typ <;> cases hdrOk <;> cases contentOk <;>
    simp [cluster, putChecks, closeChecks, replicateChecks, okNodes] at h ⊢

/-- a node outside the container may skip the content check of a tombstone or link only because it stores nothing -/
theorem outsider_stores_nothing (nodeSeals : Bool) (o : EObj) :
    3 ∉ (cluster .relay nodeSeals o).2 ∧ (cluster .relayLocal nodeSeals o).2 = [] := by
  obtain ⟨typ, hdrOk, contentOk⟩ := o
  cases nodeSeals <;> cases typ <;> cases hdrOk <;> cases contentOk <;>
    simp [cluster, putChecks, closeChecks, replicateChecks, okNodes]

/-! ### Non-vacuity -/

private def goodHdr (size : Nat) (p : List Nat) : Hdr (List Nat) :=
  { size := size, csum := some p, versionOk := true, cidSet := true, ownerSet := true, cnrKnown := true, attrsOk := true,
    expOk := true, idSet := true, idMatches := true, sigOk := true, ownerIsSigner := true }

private def cfg0 : Cfg := { unprep := false, maxSz := 100, quota := some 10, rep := 1 }

private def verdict (r : Except (Nat × Err) St) : Option (Nat × Err) :=
  match r with
  | .ok _ => none
  | .error e => some e

example : verdict (stream cfg0 id (goodHdr 3 [1, 2, 3]) 0 [[1], [], [2, 3]]) = none := by decide
example : verdict (stream cfg0 id (goodHdr 3 [1, 2, 3]) 0 [[1, 2], [3, 4]]) = some (2, .size) := by decide
example : verdict (stream cfg0 id (goodHdr 3 [1, 2, 4]) 0 [[1, 2, 3]]) = some (2, .checksum) := by decide
example : verdict (stream cfg0 id { goodHdr 3 [1, 2, 3] with sigOk := false } 0 [[1, 2, 3]]) = some (0, .format) := by decide
example : verdict (stream { cfg0 with unprep := true } id (goodHdr 0 []) 2 [[1], [2]]) = some (2, .down) := by decide

private def tokTable : Nat → Tok
  | 1 => { issuer := 1, subject := 3, sigValid := true }    -- Alice's session for the gateway key
  | 2 => { issuer := 2, subject := 3, sigValid := true }    -- Bob's
  | _ => { issuer := 1, subject := 3, sigValid := false }   -- forged token

/-- a legit object of Alice's session, then the same token on an object owned by Bob, then the legit one again -/
example : authSeq tokTable 2 []
    [{ owner := 1, signer := 3, sigOk := true, tok := some 1 }, { owner := 2, signer := 3, sigOk := true, tok := some 1 },
     { owner := 1, signer := 3, sigOk := true, tok := some 1 }] = [none, some .sessionOwner, none] := by decide
example : authSeq tokTable 1 []
    [{ owner := 1, signer := 3, sigOk := true, tok := some 9 }, { owner := 2, signer := 3, sigOk := true, tok := some 2 },
     { owner := 1, signer := 1, sigOk := true, tok := none }] = [some .sessionToken, none, none] := by decide
example : cluster .relay false { typ := .tombstone, hdrOk := true, contentOk := false } = (.error .fail, []) := by decide
example : cluster .relay false { typ := .tombstone, hdrOk := true, contentOk := true } = (.ok (), [1, 2]) := by decide
example : cluster .replicate false { typ := .link, hdrOk := true, contentOk := false } = (.error .content, []) := by decide
example : cluster .putLocal true { typ := .regular, hdrOk := true, contentOk := true } = (.ok (), [1, 2]) := by decide

end NeoFS.Validate
