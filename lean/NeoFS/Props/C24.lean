import NeoFS.Model.Validate
import Mathlib.Data.List.Basic
/-!
# C24 (partial) — the node hands to storage only self-consistent, authenticated objects

Theorems over `Model/Validate.lean` (`validatingTarget`) for every header, every payload, EVERY chunking of the
payload writes, every hash function and every position of a failing downstream write. The format validator is
abstracted to one boolean per check with an ideal signature scheme, so `consistent`/`authenticated` below are
conjunctions of those booleans: what is proved is that the streaming state machine lets nothing through that
fails one of them, that the bytes handed on are exactly the streamed bytes with the declared length and
checksum, and that a failed downstream write always surfaces.
-/
namespace NeoFS.Validate

variable {D : Type} [DecidableEq D]

/-- the header describes itself and the payload `p` -/
def consistent (H : List Nat → D) (h : Hdr D) (p : List Nat) : Prop :=
  h.versionOk = true ∧ h.cidSet = true ∧ h.cnrKnown = true ∧ h.attrsOk = true ∧ h.expOk = true ∧
    h.idSet = true ∧ h.idMatches = true ∧ p.length = h.size ∧ h.csum = some (H p)

/-- the signature authenticates the owner (or session issuer) -/
def authenticated (h : Hdr D) : Prop := h.ownerSet = true ∧ h.sigOk = true ∧ h.ownerIsSigner = true

theorem write_ok (c : Cfg) (h : Hdr D) (failAt : Nat) (s s' : St) (p : List Nat) (hw : write c h failAt s p = .ok s') :
    s'.down = s.down ++ p ∧ s'.written = s.written + p.length ∧ s'.writes = s.writes + 1 ∧
      (c.unprep = false → s'.hashed = s.hashed ++ p) ∧ failAt ≠ s.writes + 1 ∧ quotaOk c s'.written = true := by
  unfold write at hw
  by_cases h1 : (!c.unprep && decide (s.written + p.length > h.size)) = true
  · rw [if_pos h1] at hw; simp at hw
  · rw [if_neg h1] at hw
    simp only at hw
    by_cases h2 : failAt = s.writes + 1
    · rw [if_pos h2] at hw; split_ifs at hw
    · rw [if_neg h2] at hw
      by_cases h4 : (!quotaOk c (s.written + p.length)) = true
      · rw [if_pos h4] at hw; simp at hw
      · rw [if_neg h4] at hw
        simp only [Except.ok.injEq] at hw
        subst hw
        exact ⟨rfl, rfl, rfl, fun hu => by simp [hu], h2, by simpa using h4⟩

theorem writes_ok (c : Cfg) (h : Hdr D) (failAt : Nat) : ∀ (ps : List (List Nat)) (k : Nat) (s s' : St),
    writes c h failAt ps k s = .ok s' →
    s'.down = s.down ++ ps.flatten ∧ s'.written = s.written + ps.flatten.length ∧ s'.writes = s.writes + ps.length ∧
      (c.unprep = false → s'.hashed = s.hashed ++ ps.flatten) ∧ (failAt ≤ s.writes ∨ s'.writes < failAt) := by
  intro ps
  induction ps with
  | nil =>
    intro k s s' hw
    simp only [writes, Except.ok.injEq] at hw
    subst hw
    refine ⟨by simp, by simp, by simp, fun _ => by simp, ?_⟩
    omega
  | cons p ps ih =>
    intro k s s' hw
    unfold writes at hw
    cases hw1 : write c h failAt s p with
    | error e => rw [hw1] at hw; simp at hw
    | ok s1 =>
      rw [hw1] at hw
      simp only at hw
      obtain ⟨a1, a2, a3, a4, a5, _⟩ := write_ok c h failAt s s1 p hw1
      obtain ⟨b1, b2, b3, b4, b5⟩ := ih (k + 1) s1 s' hw
      refine ⟨by rw [b1, a1]; simp, by rw [b2, a2]; simp; omega, by rw [b3, a3]; simp; omega,
        fun hu => by rw [b4 hu, a4 hu]; simp, ?_⟩
      omega

/-- **Prepared objects.** If the whole stream is accepted then the format checks all held, the size is within
the limit and the quota, and the next target received exactly the streamed bytes, whose length and hash are
the declared ones — for every chunking. -/
theorem stored_implies_valid (c : Cfg) (H : List Nat → D) (h : Hdr D) (failAt : Nat) (chunks : List (List Nat)) (s : St)
    (hp : c.unprep = false) (hs : stream c H h failAt chunks = .ok s) :
    consistent H h chunks.flatten ∧ authenticated h ∧ s.down = chunks.flatten ∧ h.size ≤ c.maxSz ∧
      quotaOk c h.size = true := by
  unfold stream at hs
  cases hh : writeHeader c h with
  | error e => rw [hh] at hs; simp at hs
  | ok s0 =>
    rw [hh] at hs
    simp only at hs
    cases hw : writes c h failAt chunks 1 s0 with
    | error e => rw [hw] at hs; simp at hs
    | ok s1 =>
      rw [hw] at hs
      simp only at hs
      cases hc : close c H h s1 with
      | error e => rw [hc] at hs; simp at hs
      | ok s2 =>
        rw [hc] at hs
        simp only [Except.ok.injEq] at hs
        subst hs
        -- header
        unfold writeHeader at hh
        simp only [hp, Bool.not_false, Bool.true_and] at hh
        split_ifs at hh with g1 g2 g3 g4
        all_goals simp only [Except.ok.injEq, reduceCtorEq] at hh
        subst hh
        -- close
        unfold close at hc
        simp only [hp, Bool.false_eq_true, if_false] at hc
        split_ifs at hc with c1 c2
        all_goals simp only [Except.ok.injEq, reduceCtorEq] at hc
        subst hc
        obtain ⟨b1, b2, _, b4, _⟩ := writes_ok c h failAt chunks 1 _ _ hw
        have hfmt : fmtAccept false h = true := by simpa using g3
        unfold fmtAccept at hfmt
        simp only [Bool.false_or, Bool.and_eq_true] at hfmt
        obtain ⟨⟨⟨⟨⟨⟨f1, f2⟩, f3⟩, f4⟩, f5⟩, f6⟩, ⟨⟨f7, f8⟩, f9⟩, f10⟩ := hfmt
        have hlen : chunks.flatten.length = h.size := by
          have : h.size = s1.written := by simpa using c1
          rw [this, b2]; simp
        have hcs : h.csum = some (H chunks.flatten) := by
          have : some (H s1.hashed) = h.csum := by simpa using c2
          rw [← this, b4 hp]; simp
        refine ⟨⟨f1, f2, f4, f5, f6, f7, f8, hlen, hcs⟩, ⟨f3, f9, f10⟩, by rw [b1]; simp, ?_, by simpa using g4⟩
        simpa using g1

/-- **Unprepared objects** (the node slices and signs): an accepted stream hands on exactly the streamed
bytes, and the user-settable header fields passed the format checks. -/
theorem unprepared_stored_is_streamed (c : Cfg) (H : List Nat → D) (h : Hdr D) (failAt : Nat) (chunks : List (List Nat))
    (s : St) (hp : c.unprep = true) (hs : stream c H h failAt chunks = .ok s) :
    s.down = chunks.flatten ∧ fmtAccept true h = true := by
  unfold stream at hs
  cases hh : writeHeader c h with
  | error e => rw [hh] at hs; simp at hs
  | ok s0 =>
    rw [hh] at hs
    simp only at hs
    cases hw : writes c h failAt chunks 1 s0 with
    | error e => rw [hw] at hs; simp at hs
    | ok s1 =>
      rw [hw] at hs
      simp only at hs
      unfold close at hs
      simp only [hp, if_true, Except.ok.injEq] at hs
      subst hs
      unfold writeHeader at hh
      simp only [hp, Bool.not_true, Bool.false_and, Bool.false_eq_true, if_false] at hh
      split_ifs at hh with g3 g4
      all_goals simp only [Except.ok.injEq, reduceCtorEq] at hh
      subst hh
      obtain ⟨b1, _⟩ := writes_ok c h failAt chunks 1 _ _ hw
      exact ⟨by rw [b1]; simp, by simpa using g3⟩

/-- **A failed downstream write always surfaces**: if the next target fails one of the writes of the stream,
the stream is not accepted (prepared or not, whatever the chunking). -/
theorem downstream_error_surfaces (c : Cfg) (H : List Nat → D) (h : Hdr D) (failAt : Nat) (chunks : List (List Nat))
    (h1 : 1 ≤ failAt) (h2 : failAt ≤ chunks.length) : ∀ s, stream c H h failAt chunks ≠ .ok s := by
  intro s hs
  unfold stream at hs
  cases hh : writeHeader c h with
  | error e => rw [hh] at hs; simp at hs
  | ok s0 =>
    rw [hh] at hs
    simp only at hs
    cases hw : writes c h failAt chunks 1 s0 with
    | error e => rw [hw] at hs; simp at hs
    | ok s1 =>
      obtain ⟨_, _, b3, _, b5⟩ := writes_ok c h failAt chunks 1 _ _ hw
      have h0 : s0.writes = 0 := by
        unfold writeHeader at hh
        split_ifs at hh
        all_goals simp only [Except.ok.injEq, reduceCtorEq] at hh
        subst hh; rfl
      omega

/-- **Chunking is irrelevant** for what is handed on: two accepted streams of the same bytes hand on the same bytes. -/
theorem chunking_irrelevant (c : Cfg) (H : List Nat → D) (h : Hdr D) (f1 f2 : Nat) (ch1 ch2 : List (List Nat)) (s1 s2 : St)
    (he : ch1.flatten = ch2.flatten) (hp : c.unprep = false)
    (h1 : stream c H h f1 ch1 = .ok s1) (h2 : stream c H h f2 ch2 = .ok s2) : s1.down = s2.down := by
  rw [(stored_implies_valid c H h f1 ch1 s1 hp h1).2.2.1, (stored_implies_valid c H h f2 ch2 s2 hp h2).2.2.1, he]

/-! ### Non-vacuity -/

private def goodHdr (size : Nat) (p : List Nat) : Hdr (List Nat) :=
  { size := size, csum := some p, versionOk := true, cidSet := true, ownerSet := true, cnrKnown := true, attrsOk := true,
    expOk := true, idSet := true, idMatches := true, sigOk := true, ownerIsSigner := true }

private def cfg0 : Cfg := { unprep := false, maxSz := 100, quota := some 10, rep := 1 }

private def verdict (r : Except (Nat × Err) St) : Option (Nat × Err) :=
  match r with
  | .ok _ => none
  | .error e => some e

example : verdict (stream cfg0 id (goodHdr 3 [1, 2, 3]) 0 [[1], [], [2, 3]]) = none := by decide
example : verdict (stream cfg0 id (goodHdr 3 [1, 2, 3]) 0 [[1, 2], [3, 4]]) = some (2, .size) := by decide
example : verdict (stream cfg0 id (goodHdr 3 [1, 2, 4]) 0 [[1, 2, 3]]) = some (2, .checksum) := by decide
example : verdict (stream cfg0 id { goodHdr 3 [1, 2, 3] with sigOk := false } 0 [[1, 2, 3]]) = some (0, .format) := by decide
example : verdict (stream { cfg0 with unprep := true } id (goodHdr 0 []) 2 [[1], [2]]) = some (2, .down) := by decide

end NeoFS.Validate
