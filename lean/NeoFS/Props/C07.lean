import NeoFS.Props.C01
/-!
# C07 — a live lock protects its object

Admission rules of `handleObjectWithAssociation` (`putKind`), the status rules and the expired-object
iteration, for every bucket state with unique ordered keys (every reachable state, `run_wf`), every epoch and
every object id.  "Live lock" is the reference notion `Ref.liveLock`: SOME stored lock object that has not
expired and is not itself removed.
-/
namespace NeoFS.Meta
open Ref

/-- While a live lock exists, a tombstone targeting the object is rejected (nothing is written). -/
theorem locked_rejects_tombstone (c : Cnr) (hwf : c.WF) (epoch level : Nat) (h : Hdr) (b : Bool) (e : Err)
    (ht : h.typ = .tombstone) (hl : liveLock c epoch h.assoc = true) :
    (putKind c epoch level h b e).1 = none := by
  unfold putKind
  simp only [ht]
  rw [objectLocked_ref c hwf, hl]
  split
  · rfl
  · split
    · rfl
    · split
      · rfl
      · simp

/-- …and through the whole `put`: the bucket is returned unchanged with an error. -/
theorem locked_rejects_tombstone_put (c0 c : Cnr) (hwf : c.WF) (epoch level : Nat) (h : Hdr) (b : Bool) (e : Err)
    (ht : h.typ = .tombstone) (hl : liveLock c epoch h.assoc = true) :
    (putSelf c0 c epoch level h b e).1 = c0 ∧ (putSelf c0 c epoch level h b e).2.2 ≠ .ok := by
  have hk := locked_rejects_tombstone c hwf epoch level h b e ht hl
  unfold putSelf
  cases hp : putKind c epoch level h b e with
  | mk r err =>
    rw [hp] at hk
    simp only at hk
    subst hk
    refine ⟨rfl, ?_⟩
    -- the error is one of other / lockRemoval / locked
    unfold putKind at hp
    simp only [ht] at hp
    rw [objectLocked_ref c hwf, hl] at hp
    split at hp
    · cases hp; simp
    · split at hp
      · cases hp; simp
      · split at hp
        · cases hp; simp
        · simp at hp; cases hp; simp

/-- While a live lock exists the object itself is never reported as expired, removed or marked. -/
theorem locked_never_expired_or_removed (c : Cnr) (epoch id : Nat) (hl : liveLock c epoch id = true) :
    ownStatus c epoch id = .available := by
  unfold ownStatus
  simp [hl]

/-- …so with no (removed) parent above it, every view reports it available. -/
theorem locked_available_without_parent (c : Cnr) (hwf : c.WF) (epoch id : Nat)
    (hl : liveLock c epoch id = true) (hp : parentOf c id = 0) : c.status epoch id = .available := by
  rw [status_eq_ref c hwf]
  unfold Ref.status
  simp [locked_never_expired_or_removed c epoch id hl, hp]

/-- A lock is rejected for an object that is already tombstoned. -/
theorem lock_rejected_for_tombstoned (c : Cnr) (hwf : c.WF) (epoch level : Nat) (h : Hdr) (b : Bool) (e : Err)
    (ht : h.typ = .lock) (htomb : tombstoned c h.assoc = true) :
    (putKind c epoch level h b e).1 = none := by
  unfold putKind
  simp only [ht]
  have : c.inGarbage h.assoc = .tombstoned := by rw [inGarbage_ref c hwf, htomb]; rfl
  split
  · rfl
  · split
    · rfl
    · simp [this]

/-- A lock object cannot itself be tombstoned. -/
theorem lock_not_tombstonable (c : Cnr) (epoch level : Nat) (h : Hdr) (b : Bool) (e : Err)
    (ht : h.typ = .tombstone) (hlock : c.typeOf h.assoc = some .lock) :
    (putKind c epoch level h b e).1 = none := by
  unfold putKind
  simp only [ht, hlock]
  split
  · rfl
  · simp

/-- Expiry handling never receives a locked object: the expired-object iteration skips every object with a
live lock. -/
theorem expired_iteration_skips_locked (c : Cnr) (hwf : c.WF) (epoch : Nat) :
    ∀ x ∈ c.expired epoch, liveLock c epoch x.1 = false := by
  intro x hx
  unfold Cnr.expired at hx
  split at hx
  · cases hx
  · simp only [List.mem_map, List.mem_filter] at hx
    obtain ⟨y, ⟨_, hy⟩, rfl⟩ := hx
    rw [objectLocked_ref c hwf] at hy
    simpa using hy

/-- Non-vacuity: a bucket with a live lock on object 3. -/
example :
    let c : Cnr := { recs := [exRec 3 .regular 0, exRec 4 .lock 3] }
    liveLock c 5 3 = true ∧ (putKind c 5 0 { id := 9, typ := .tombstone, assoc := 3 } false .ok).1 = none := by decide

end NeoFS.Meta
