import NeoFS.Model.Precision
import Mathlib.Tactic.IntervalCases
import Mathlib.Tactic.NormNum
/-!
# C39 — converting GAS amounts between precisions never creates value or wraps

Theorems are for every `Int` amount — of either sign — and every precision 0..18.
-/
namespace NeoFS.Precision

theorem factor_pos (p : Nat) : 0 < factor p := by
  unfold factor; exact Int.pow_pos (by decide)

/-- Main-net precision → balance precision → back never yields more than the original amount — for EVERY
integer amount, negative ones included: `big.Int.Div` is the Euclidean division, which for the positive
factor rounds towards minus infinity, so `(n / f) * f ≤ n` whatever the sign of `n` (Go's truncating `/`
would round a negative non-multiple UP and give more). -/
theorem roundtrip_le (p : Nat) (n : Int) : toFixed8Z p (toBalanceZ p n) ≤ n := by
  have hf := factor_pos p
  unfold toFixed8Z toBalanceZ convert
  by_cases h1 : p < 8
  · have h2 : ¬ 8 < p := by omega
    simp only [h1, h2, decide_true, decide_false, if_true, if_false, Bool.false_eq_true]
    have := Int.ediv_mul_le n (Int.ne_of_gt hf)
    exact this
  · by_cases h2 : 8 < p
    · simp only [h1, h2, decide_true, decide_false, if_true, if_false, Bool.false_eq_true]
      rw [Int.mul_ediv_cancel _ (Int.ne_of_gt hf)]
    · have : p = 8 := by omega
      subst this
      simp [factor]

/-- …and it is exact whenever the balance precision is at least the main-net one. -/
theorem exact_when_finer (p : Nat) (n : Int) (hp : 8 ≤ p) : toFixed8Z p (toBalanceZ p n) = n := by
  have hf := factor_pos p
  unfold toFixed8Z toBalanceZ convert
  have h1 : ¬ p < 8 := by omega
  by_cases h2 : 8 < p
  · simp only [h1, h2, decide_true, decide_false, if_true, if_false, Bool.false_eq_true]
    exact Int.mul_ediv_cancel _ (Int.ne_of_gt hf)
  · have : p = 8 := by omega
    subst this
    simp [factor]

theorem wrap64_id (x : Int) (h1 : -9223372036854775808 ≤ x) (h2 : x < 9223372036854775808) : wrap64 x = x := by
  unfold wrap64; omega

/-- The full claim of the property: no amount below 2^53 overflows, for any precision 0..18. -/
def C39_full : Prop :=
  ∀ p : Nat, p ≤ 18 → ∀ n : Int, 0 ≤ n → n < 9007199254740992 →
    toBalance p n = toBalanceZ p n ∧ toFixed8 p n = toFixed8Z p n

/-- It is false: with the real balance precision 12 the amount 2^53-1 wraps to a negative number. -/
theorem C39_counterexample : ¬ C39_full := by
  intro h
  have := (h 12 (by decide) 9007199254740991 (by decide) (by decide)).1
  revert this
  decide

/-- What does hold: no wrap as long as amount × factor fits int64 (for the division direction: always). -/
theorem no_wrap_partial (p : Nat) (n : Int) (hn : 0 ≤ n) (hn2 : n < 9223372036854775808)
    (hfit : n * factor p < 9223372036854775808) :
    toBalance p n = toBalanceZ p n ∧ toFixed8 p n = toFixed8Z p n := by
  have hf := factor_pos p
  have hdiv : 0 ≤ n / factor p ∧ n / factor p ≤ n := by
    constructor
    · exact Int.ediv_nonneg hn (Int.le_of_lt hf)
    · exact Int.ediv_le_self _ hn
  have hmul : 0 ≤ n * factor p := Int.mul_nonneg hn (Int.le_of_lt hf)
  unfold toBalance toFixed8 toBalanceZ toFixed8Z convert
  constructor
  · split <;> apply wrap64_id <;> omega
  · split <;> apply wrap64_id <;> omega

/-- The exact boundary for the Fixed8 → balance direction: for p ≤ 11 every amount below 2^53 fits. -/
theorem no_wrap_upto_11 (p : Nat) (hp : 8 ≤ p) (hp2 : p ≤ 11) (n : Int) (hn : 0 ≤ n) (hn2 : n < 9007199254740992) :
    toBalance p n = toBalanceZ p n := by
  have : n * factor p < 9223372036854775808 := by
    unfold factor
    interval_cases p <;> simp <;> omega
  exact (no_wrap_partial p n hn (by omega) this).1

/-! ### The int64 level: every amount the API accepts, negative ones included -/

/-- `x` is an int64 -/
def inInt64 (x : Int) : Prop := -9223372036854775808 ≤ x ∧ x < 9223372036854775808

/-- The down-conversion of an int64 is an int64 for either sign (`n ≤ n / f ≤ 0` or `0 ≤ n / f ≤ n`). -/
theorem ediv_factor_bounds (p : Nat) (n : Int) : (n ≤ n / factor p ∧ n / factor p ≤ 0) ∨ (0 ≤ n / factor p ∧ n / factor p ≤ n) := by
  have hf := factor_pos p
  by_cases hn : 0 ≤ n
  · right
    exact ⟨Int.ediv_nonneg hn (Int.le_of_lt hf), Int.ediv_le_self _ hn⟩
  · left
    have hneg : n < 0 := by omega
    have h1 : n / factor p < 0 := Int.ediv_neg_of_neg_of_pos hneg hf
    have h4 : n < (n / factor p + 1) * factor p := Int.lt_ediv_add_one_mul_self n hf
    have h5 : (n / factor p + 1) * factor p ≤ (n / factor p + 1) * 1 :=
      Int.mul_le_mul_of_nonpos_left (by omega) (by omega)
    rw [Int.mul_one] at h5
    omega

/-- As the Go methods compute it (int64 in, int64 out): the round trip of ANY int64 amount, of either sign,
never yields more than the original, as long as neither of the two conversions wraps. -/
theorem roundtrip_le_int64 (p : Nat) (n : Int) (h1 : inInt64 (toBalanceZ p n))
    (h2 : -9223372036854775808 ≤ toFixed8Z p (toBalanceZ p n)) (hn : n < 9223372036854775808) :
    toFixed8 p (toBalance p n) ≤ n := by
  have hle := roundtrip_le p n
  have e1 : toBalance p n = toBalanceZ p n := wrap64_id _ h1.1 h1.2
  unfold toFixed8
  rw [e1, wrap64_id _ h2 (by omega)]
  exact hle

theorem factor_le_of_lt8 (p : Nat) (hp : p < 8) : factor p ≤ 100000000 := by
  unfold factor
  interval_cases p <;> simp

/-- The exact region where the CURRENT code yields more than the original for a coarser balance precision
(`p < 8`): exactly the int64 amounts whose multiple of the factor below them lies below MinInt64 (fewer
than `factor` amounts next to MinInt64) — there the multiplication of the way back wraps to a positive
number.  Everywhere else, for either sign, the result is at most the original. -/
theorem roundtrip_more_iff (p : Nat) (hp : p < 8) (n : Int) (hn : inInt64 n) :
    n < toFixed8 p (toBalance p n) ↔ n / factor p * factor p < -9223372036854775808 := by
  have hf := factor_pos p
  have hfl := factor_le_of_lt8 p hp
  have hb := ediv_factor_bounds p n
  obtain ⟨hn1, hn2⟩ := hn
  have hm1 : n / factor p * factor p ≤ n := Int.ediv_mul_le n (Int.ne_of_gt hf)
  have hm2 : n < n / factor p * factor p + factor p := Int.lt_ediv_add_one_mul_self n hf |> fun h => by
    have : (n / factor p + 1) * factor p = n / factor p * factor p + factor p := by
      rw [Int.add_mul, Int.one_mul]
    omega
  have h8 : ¬ 8 < p := by omega
  have e1 : toBalance p n = n / factor p := by
    unfold toBalance toBalanceZ convert
    simp only [hp, decide_true, if_true]
    apply wrap64_id <;> omega
  have e2 : toFixed8 p (n / factor p) = wrap64 (n / factor p * factor p) := by
    unfold toFixed8 toFixed8Z convert
    simp only [h8, decide_false, Bool.false_eq_true, if_false]
  rw [e1, e2]
  generalize n / factor p * factor p = m at *
  unfold wrap64
  constructor <;> intro h <;> omega

/-- The statement for all int64 amounts without the no-wrap hypothesis of the way back … -/
def C39_roundtrip_full : Prop :=
  ∀ p : Nat, p ≤ 18 → ∀ n : Int, inInt64 n → inInt64 (toBalanceZ p n) → toFixed8 p (toBalance p n) ≤ n

/-- … is false for the current code: precision 6, MinInt64 comes back as 9223372036854775716. -/
theorem C39_roundtrip_counterexample : ¬ C39_roundtrip_full := by
  intro h
  have := h 6 (by decide) (-9223372036854775808) (by unfold inInt64; decide) (by unfold inInt64; decide)
  revert this
  decide

example : toFixed8 6 (toBalance 6 (-9223372036854775808)) = 9223372036854775716 := by decide
example : toFixed8 6 (toBalance 6 (-150)) = -200 := by decide   -- Euclidean: rounds down, never more
example : toBalance 6 (-150) = -2 := by decide
example : toFixed8 12 (-1) = -1 := by decide
example : -9223372036854775808 / factor 6 * factor 6 < -9223372036854775808 := by decide

/-- No wrap for negative amounts either: as long as the magnitude of amount × factor fits int64. -/
theorem no_wrap_partial_neg (p : Nat) (n : Int) (hn : n ≤ 0) (hn2 : -9223372036854775808 ≤ n)
    (hfit : -9223372036854775808 ≤ n * factor p) :
    toBalance p n = toBalanceZ p n ∧ toFixed8 p n = toFixed8Z p n := by
  have hf := factor_pos p
  have hb := ediv_factor_bounds p n
  have hmul : n * factor p ≤ 0 := Int.mul_nonpos_of_nonpos_of_nonneg hn (Int.le_of_lt hf)
  unfold toBalance toFixed8 toBalanceZ toFixed8Z convert
  constructor
  · split <;> apply wrap64_id <;> omega
  · split <;> apply wrap64_id <;> omega

/-! ### Conversions overlapping in time (copies of one converter in two processors' worker pools) -/

/-- Whatever the order in which the workers complete their requests (any schedule: any order, any
repetition, indices out of range ignored), every completed request has the result of the sequential run. -/
theorem concurrent_eq_sequential (p : Nat) (tasks : List Task) (sched : List Nat) :
    ∀ x ∈ runSched p tasks sched, (runSeq p tasks)[x.1]? = some x.2 := by
  intro x hx
  unfold runSched at hx
  simp only [List.mem_filterMap] at hx
  obtain ⟨i, _, hi⟩ := hx
  cases ht : tasks[i]? with
  | none => simp [ht] at hi
  | some t =>
    simp only [ht, Option.map_some, Option.some.injEq] at hi
    subst hi
    simp [runSeq, List.getElem?_map, ht]

/-- … and every request that is scheduled completes with it. -/
theorem concurrent_complete (p : Nat) (tasks : List Task) (sched : List Nat) (i : Nat) (t : Task)
    (hi : tasks[i]? = some t) (hs : i ∈ sched) : (i, eval p t) ∈ runSched p tasks sched := by
  unfold runSched
  simp only [List.mem_filterMap]
  exact ⟨i, hs, by simp [hi]⟩

example : runSched 12 [⟨true, 1⟩, ⟨false, -10001⟩] [1, 0, 1, 0, 7] = [(1, -2), (0, 10000), (1, -2), (0, 10000)] := by decide

example : toBalance 12 9007199254740991 = -2161727821137848080 := by decide

end NeoFS.Precision
