import NeoFS.Model.Precision
import Mathlib.Tactic.IntervalCases
import Mathlib.Tactic.NormNum
/-!
# C39 — converting GAS amounts between precisions never creates value or wraps

Theorems are for every `Int` amount and every precision 0..18.
-/
namespace NeoFS.Precision

theorem factor_pos (p : Nat) : 0 < factor p := by
  unfold factor; exact Int.pow_pos (by decide)

/-- Main-net precision → balance precision → back never yields more than the original amount. -/
theorem roundtrip_le (p : Nat) (n : Int) (hn : 0 ≤ n) : toFixed8Z p (toBalanceZ p n) ≤ n := by
  have hf := factor_pos p
  unfold toFixed8Z toBalanceZ convert
  by_cases h1 : p < 8
  · have h2 : ¬ 8 < p := by omega
    simp only [h1, h2, decide_true, decide_false, if_true, if_false, Bool.false_eq_true]
    have := Int.ediv_mul_le n (Int.ne_of_gt hf)
    exact this
  · by_cases h2 : 8 < p
    · simp only [h1, h2, decide_true, decide_false, if_true, if_false, Bool.false_eq_true]
      rw [Int.mul_ediv_cancel _ (Int.ne_of_gt hf)]
    · have : p = 8 := by omega
      subst this
      simp [factor]

/-- …and it is exact whenever the balance precision is at least the main-net one. -/
theorem exact_when_finer (p : Nat) (n : Int) (hp : 8 ≤ p) : toFixed8Z p (toBalanceZ p n) = n := by
  have hf := factor_pos p
  unfold toFixed8Z toBalanceZ convert
  have h1 : ¬ p < 8 := by omega
  by_cases h2 : 8 < p
  · simp only [h1, h2, decide_true, decide_false, if_true, if_false, Bool.false_eq_true]
    exact Int.mul_ediv_cancel _ (Int.ne_of_gt hf)
  · have : p = 8 := by omega
    subst this
    simp [factor]

theorem wrap64_id (x : Int) (h1 : -9223372036854775808 ≤ x) (h2 : x < 9223372036854775808) : wrap64 x = x := by
  unfold wrap64; omega

/-- The full claim of the property: no amount below 2^53 overflows, for any precision 0..18. -/
def C39_full : Prop :=
  ∀ p : Nat, p ≤ 18 → ∀ n : Int, 0 ≤ n → n < 9007199254740992 →
    toBalance p n = toBalanceZ p n ∧ toFixed8 p n = toFixed8Z p n

/-- It is false: with the real balance precision 12 the amount 2^53-1 wraps to a negative number. -/
theorem C39_counterexample : ¬ C39_full := by
  intro h
  have := (h 12 (by decide) 9007199254740991 (by decide) (by decide)).1
  revert this
  decide

/-- What does hold: no wrap as long as amount × factor fits int64 (for the division direction: always). -/
theorem no_wrap_partial (p : Nat) (n : Int) (hn : 0 ≤ n) (hn2 : n < 9223372036854775808)
    (hfit : n * factor p < 9223372036854775808) :
    toBalance p n = toBalanceZ p n ∧ toFixed8 p n = toFixed8Z p n := by
  have hf := factor_pos p
  have hdiv : 0 ≤ n / factor p ∧ n / factor p ≤ n := by
    constructor
    · exact Int.ediv_nonneg hn (Int.le_of_lt hf)
    · exact Int.ediv_le_self _ hn
  have hmul : 0 ≤ n * factor p := Int.mul_nonneg hn (Int.le_of_lt hf)
  unfold toBalance toFixed8 toBalanceZ toFixed8Z convert
  constructor
  · split <;> apply wrap64_id <;> omega
  · split <;> apply wrap64_id <;> omega

/-- The exact boundary for the Fixed8 → balance direction: for p ≤ 11 every amount below 2^53 fits. -/
theorem no_wrap_upto_11 (p : Nat) (hp : 8 ≤ p) (hp2 : p ≤ 11) (n : Int) (hn : 0 ≤ n) (hn2 : n < 9007199254740992) :
    toBalance p n = toBalanceZ p n := by
  have : n * factor p < 9223372036854775808 := by
    unfold factor
    interval_cases p <;> simp <;> omega
  exact (no_wrap_partial p n hn (by omega) this).1

example : toBalance 12 9007199254740991 = -2161727821137848080 := by decide

end NeoFS.Precision
