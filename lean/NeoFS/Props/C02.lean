import NeoFS.Lemmas.MetaCtr
/-!
# C02 — counters and container sizes match what is stored

The typed counters (PHY, ROOT, TS, LOCK, LINK): for every history of valid objects, every bucket satisfies
`CtrOK` (`run_ctrOK`), hence `ObjectCounters` equals the number of indexed objects of each kind in live
containers (`typed_counters_exact`).  No counter wraps or double counts: the floored subtraction of
`updateCounter` is never reached with a deficit (`apply_removal` shows every subtraction is covered).

The container size estimation (`GetContainerInfo`) is NOT exact in the current code — see
`container_info_counterexample` and the known finding C02-gc-counter.
-/
namespace NeoFS.Meta
open Ref

def DBCtrOK (db : DB) : Prop := ∀ b ∈ db, CtrOK b.2

/-- histories of valid objects: no storage groups, embedded parent headers are regular objects, ids along a
header chain are distinct -/
def ValidOp : Op → Prop
  | .put _ chain => ValidChain 0 chain
  | _ => True

theorem getCnr_ok (db : DB) (h : DBCtrOK db) (cn : Nat) : CtrOK ((getCnr? db cn).getD {}) := by
  cases hc : getCnr? db cn with
  | none => exact ctrOK_empty
  | some c =>
    obtain ⟨k, hk⟩ := getCnr_mem db cn c hc
    exact h (k, c) hk

theorem setCnr_ok (db : DB) (h : DBCtrOK db) (cn : Nat) (v : Cnr) (hv : CtrOK v) : DBCtrOK (setCnr db cn v) := by
  intro b hb
  rcases setCnr_mem db cn v b hb with rfl | hm
  · exact hv
  · exact h b hm

theorem dbPut_ok (db : DB) (hwf : DBWF db) (h : DBCtrOK db) (epoch cn : Nat) (chain : List Hdr)
    (v : ValidChain 0 chain) : DBCtrOK (dbPut db epoch cn chain).1 := by
  unfold dbPut
  simp only
  split
  · exact setCnr_ok db h cn _ (putChain_ctrOK epoch chain _ (getCnr_wf db hwf cn) (getCnr_ok db h cn) v)
  · exact h

theorem getC_gc_payload (k : Nat) (hk : k < 5) (c : Counters) (g p : Nat) :
    getC k { c with gc := g, payload := p } = getC k c := by
  interval_cases k <;> rfl

theorem dbMark_ok (db : DB) (h : DBCtrOK db) (epoch cn : Nat) (ids : List Nat) (r : Bool) :
    DBCtrOK (dbMarkGarbage db epoch cn ids r) := by
  unfold dbMarkGarbage
  cases hc : getCnr? db cn with
  | none => exact h
  | some c =>
    simp only
    have hok : CtrOK c := by
      obtain ⟨k, hk⟩ := getCnr_mem db cn c hc
      exact h (k, c) hk
    split
    · exact h
    · apply setCnr_ok db h
      obtain ⟨f1, f2, f3⟩ := markGarbageIn_frame c epoch (ids.flatMap fun id => id :: c.collectChildren 4 id) r
      exact ctrOK_of_typed_eq c _ f1 f3 (fun k hk => by simp only; rw [getC_gc_payload k hk, f2]) hok

theorem dbInhume_ok (db : DB) (h : DBCtrOK db) (cn : Nat) : DBCtrOK (dbInhumeContainer db cn) := by
  unfold dbInhumeContainer
  apply setCnr_ok db h
  have := getCnr_ok db h cn
  exact ⟨fun k hk => by interval_cases k <;> rfl, this.rootReg⟩

theorem dbDeleteCnr_ok (db : DB) (h : DBCtrOK db) (cn : Nat) : DBCtrOK (dbDeleteContainer db cn) :=
  fun b hb => h b (List.mem_filter.mp hb).1

/-- the accumulated state of `deleteGroup` -/
theorem deleteFold (c : Cnr) (hroot : ∀ r ∈ c.recs, r.root = true → r.typ = .regular) :
    ∀ (ids : List Nat) (acc : Cnr × Diff),
      (acc.1.WF ∧ acc.1.ctr = c.ctr ∧ acc.1.gcMark = c.gcMark ∧ acc.1.recs.Sublist c.recs ∧
        ∀ k, k < 5 → ((acc.1.recs.countP (flag k) : Nat) : Int) = (c.recs.countP (flag k) : Nat) + getD k acc.2) →
      let r := ids.foldl (fun (acc : Cnr × Diff) id =>
        let (cur, dsum) := acc
        let (cur', d, _) := cur.deleteMetadata 4 id false
        (cur', dsum.add d)) acc
      (r.1.WF ∧ r.1.ctr = c.ctr ∧ r.1.gcMark = c.gcMark ∧ r.1.recs.Sublist c.recs ∧
        ∀ k, k < 5 → ((r.1.recs.countP (flag k) : Nat) : Int) = (c.recs.countP (flag k) : Nat) + getD k r.2) := by
  intro ids
  induction ids with
  | nil => intro acc h; exact h
  | cons x xs ih =>
    intro acc ⟨a1, a2, a3, a4, a5⟩
    obtain ⟨cur, dsum⟩ := acc
    simp only [List.foldl_cons]
    apply ih
    simp only at a1 a2 a3 a4 a5
    have hr1 : ∀ r ∈ cur.recs, r.root = true → r.typ = .regular := fun r hr => hroot r (a4.subset hr)
    have hfr := deleteMetadata_frame 4 cur x false a1 hr1
    have hwf' := deleteMetadata_wf 4 cur x false a1
    have hsl := deleteMetadata_sublist 4 cur x false
    generalize cur.deleteMetadata 4 x false = res at hfr hwf' hsl ⊢
    obtain ⟨cur', d, bb⟩ := res
    obtain ⟨f1, f2, _, f4⟩ := hfr
    simp only at f1 f2 f4 hwf' hsl ⊢
    refine ⟨hwf', f1.trans a2, f2.trans a3, hsl.trans a4, ?_⟩
    intro k hk
    have e1 := f4 k hk
    have e2 := a5 k hk
    rw [getD_add]
    omega

theorem dbDelete_ok (db : DB) (hwf : DBWF db) (h : DBCtrOK db) (cn : Nat) (ids : List Nat) :
    DBCtrOK (dbDelete db cn ids) := by
  unfold dbDelete
  cases hc : getCnr? db cn with
  | none => exact h
  | some c =>
    simp only
    obtain ⟨k, hk⟩ := getCnr_mem db cn c hc
    have hok : CtrOK c := h (k, c) hk
    have hcwf : c.WF := hwf (k, c) hk
    apply setCnr_ok db h
    have := deleteFold c hok.rootReg (c.supplement ids) (c, {})
      ⟨hcwf, rfl, rfl, List.Sublist.refl _, fun k hk => by interval_cases k <;> simp [getD]⟩
    simp only at this
    obtain ⟨_, r2, r3, r4, r5⟩ := this
    exact apply_removal c _ _ hok r2 r3 r4 r5

theorem getC_gc (k : Nat) (hk : k < 5) (c : Counters) (g : Nat) : getC k { c with gc := g } = getC k c := by
  interval_cases k <;> rfl

theorem getC_payload (k : Nat) (hk : k < 5) (c : Counters) (p : Nat) : getC k { c with payload := p } = getC k c := by
  interval_cases k <;> rfl

theorem reviveCtr_typed (c1 : Cnr) (id k : Nat) (hk : k < 5) : getC k (c1.reviveCtr id) = getC k c1.ctr := by
  unfold Cnr.reviveCtr
  simp only
  split
  · interval_cases k <;> rfl
  · split <;> interval_cases k <;> rfl

theorem dropTombs_ok (id : Nat) : ∀ (fuel : Nat) (c : Cnr), c.WF → CtrOK c → CtrOK (c.dropTombs id fuel) := by
  intro fuel
  induction fuel with
  | zero => intro c _ h; exact h
  | succ f ih =>
    intro c hwf hok
    unfold Cnr.dropTombs
    split
    · rename_i tomb _
      obtain ⟨f1, f2, _, f4⟩ := deleteMetadata_frame 4 c tomb false hwf hok.rootReg
      have hw := deleteMetadata_wf 4 c tomb false hwf
      exact ih _ ⟨hw.recs, hw.garb⟩ (apply_removal c _ _ hok f1 f2 (deleteMetadata_sublist 4 c tomb false) f4)
    · exact hok

theorem reviveDropTomb_ok (c : Cnr) (hwf : c.WF) (hok : CtrOK c) (id : Nat) (st : Status) :
    CtrOK (c.reviveDropTomb id st).1 := by
  unfold Cnr.reviveDropTomb
  split
  · split
    · exact dropTombs_ok id _ c hwf hok
    · exact hok
  · exact hok

theorem dbRevive_ok (db : DB) (hwf : DBWF db) (h : DBCtrOK db) (cn id : Nat) : DBCtrOK (dbRevive db cn id).1 := by
  unfold dbRevive
  cases hc : getCnr? db cn with
  | none => exact h
  | some c =>
    simp only
    obtain ⟨k, hk⟩ := getCnr_mem db cn c hc
    have hok : CtrOK c := h (k, c) hk
    have hcwf : c.WF := hwf (k, c) hk
    split
    · exact h
    · split
      · rename_i c' res heq
        apply setCnr_ok db h
        unfold Cnr.revive at heq
        simp only at heq
        split at heq
        · cases heq
        · split at heq
          · cases heq
          · have e := Option.some.inj (Prod.mk.inj heq).1
            rw [← e]
            have hd := reviveDropTomb_ok c hcwf hok id (c.inGarbage id)
            exact ctrOK_of_typed_eq (c.reviveDropTomb id (c.inGarbage id)).1 _ rfl rfl
              (fun k hk => by simp only; exact reviveCtr_typed _ id k hk) hd
      · exact h

/-- the forced recount (`SyncCounters`) establishes the invariant from the index alone -/
theorem syncCounters_ok (c : Cnr) (hr : ∀ r ∈ c.recs, r.root = true → r.typ = .regular) : CtrOK c.syncCounters := by
  unfold Cnr.syncCounters
  by_cases hg : c.gcMark
  · simp only [hg, if_true]
    refine ⟨?_, hr⟩
    intro k hk
    match k, hk with
    | 0, _ | 1, _ | 2, _ | 3, _ | 4, _ => simp [getC]
  · simp only [hg, Bool.false_eq_true, if_false]
    refine ⟨?_, hr⟩
    intro k hk
    match k, hk with
    | 0, _ | 1, _ | 2, _ | 3, _ | 4, _ => simp only [getC, List.countP_eq_length_filter]; rfl

theorem dbSyncCounters_ok (db : DB) (h : DBCtrOK db) : DBCtrOK (dbSyncCounters db) := by
  intro b hb
  unfold dbSyncCounters at hb
  rw [List.mem_map] at hb
  obtain ⟨b0, hb0, rfl⟩ := hb
  exact syncCounters_ok b0.2 (h b0 hb0).rootReg

/-- **The recount agrees with the incrementally kept typed counters**: after any history of valid objects a
forced `SyncCounters` changes none of PHY, ROOT, TS, LOCK, LINK. -/
theorem recount_agrees (c : Cnr) (h : CtrOK c) (k : Nat) (hk : k < 5) : getC k c.syncCounters.ctr = getC k c.ctr := by
  have h1 := (syncCounters_ok c h.rootReg).typed k hk
  have h2 := h.typed k hk
  have hg : c.syncCounters.gcMark = c.gcMark := by unfold Cnr.syncCounters; split <;> rfl
  have hr : c.syncCounters.recs = c.recs := by unfold Cnr.syncCounters; split <;> rfl
  rw [h1, h2, hg, hr]

/-- **Every reachable state of a history of valid objects satisfies the counter invariant.** -/
theorem run_ctrOK (ops : List Op) (hv : ∀ o ∈ ops, ValidOp o) : DBCtrOK (run ops).db := by
  unfold run
  suffices H : ∀ (ops : List Op) (s : St), (∀ o ∈ ops, ValidOp o) → DBWF s.db → DBCtrOK s.db →
      DBCtrOK (ops.foldl step s).db by
    exact H ops {} hv (by intro b hb; cases hb) (by intro b hb; cases hb)
  intro ops
  induction ops with
  | nil => intro s _ _ h; exact h
  | cons o os ih =>
    intro s hv hwf hok
    simp only [List.foldl_cons]
    have hvo : ValidOp o := hv o (by simp)
    have hvs : ∀ o' ∈ os, ValidOp o' := fun o' ho' => hv o' (by simp [ho'])
    cases o with
    | setEpoch e => exact ih _ hvs hwf hok
    | put cn chain =>
      exact ih _ hvs (dbPut_wf s.db hwf s.epoch cn chain) (dbPut_ok s.db hwf hok s.epoch cn chain hvo)
    | mark cn ids r =>
      exact ih _ hvs (dbMarkGarbage_wf s.db hwf s.epoch cn ids r) (dbMark_ok s.db hok s.epoch cn ids r)
    | inhumeCnr cn => exact ih _ hvs (dbInhume_wf s.db hwf cn) (dbInhume_ok s.db hok cn)
    | deleteCnr cn => exact ih _ hvs (dbDeleteContainer_wf s.db hwf cn) (dbDeleteCnr_ok s.db hok cn)
    | delete cn ids => exact ih _ hvs (dbDelete_wf s.db hwf cn ids) (dbDelete_ok s.db hwf hok cn ids)
    | revive cn id => exact ih _ hvs (dbRevive_wf s.db hwf cn id) (dbRevive_ok s.db hwf hok cn id)
    | syncCounters => exact ih _ hvs (dbSyncCounters_wf s.db hwf) (dbSyncCounters_ok s.db hok)

/-- the typed counters as the statement defines them: number of indexed objects of each kind in live
containers -/
def refCount (db : DB) (k : Nat) : Nat :=
  (db.map fun b => if b.2.gcMark then 0 else b.2.recs.countP (flag k)).sum

def viewCount (db : DB) (k : Nat) : Nat := (db.map fun b => getC k b.2.ctr).sum

/-- **The per-type counters equal the number of such objects the metadata indexes** — after any history of
valid objects; `viewCount` is what `ObjectCounters` sums up. -/
theorem typed_counters_exact (ops : List Op) (hv : ∀ o ∈ ops, ValidOp o) (k : Nat) (hk : k < 5) :
    viewCount (run ops).db k = refCount (run ops).db k := by
  have h := run_ctrOK ops hv
  unfold viewCount refCount
  congr 1
  apply List.map_congr_left
  intro b hb
  exact (h b hb).typed k hk

/-- `dbCounters` (the model of `ObjectCounters`) is that sum. -/
theorem dbCounters_eq_viewCount (db : DB) (k : Nat) (hk : k < 5) : getC k (dbCounters db) = viewCount db k := by
  unfold dbCounters viewCount
  suffices H : ∀ (l : DB) (a : Counters), getC k (l.foldl (fun (a : Counters) b =>
      { phy := a.phy + b.2.ctr.phy, root := a.root + b.2.ctr.root, ts := a.ts + b.2.ctr.ts,
        lock := a.lock + b.2.ctr.lock, link := a.link + b.2.ctr.link, gc := a.gc + b.2.ctr.gc,
        payload := a.payload + b.2.ctr.payload }) a) = getC k a + (l.map fun b => getC k b.2.ctr).sum by
    have := H db {}
    rw [this]
    interval_cases k <;> simp [getC]
  intro l
  induction l with
  | nil => intro a; simp
  | cons x xs ih =>
    intro a
    simp only [List.foldl_cons, List.map_cons, List.sum_cons]
    rw [ih]
    interval_cases k <;> simp [getC] <;> omega

/-- The size estimation is not exact: a removal mark for an id that is not stored makes the reported number
of objects too small (known finding C02-gc-counter). -/
theorem container_info_counterexample :
    let s := run [.put 1 [{ id := 2, typ := .regular, size := 23 }], .mark 1 [4] false]
    dbContainerInfo s.db 1 = (23, 0) ∧ Ref.containerInfo s.db 1 = (23, 1) := by decide

end NeoFS.Meta
