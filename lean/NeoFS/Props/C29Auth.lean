import NeoFS.Model.ReqAuth
import NeoFS.Model.GetRelay
/-!
# C29, second part — who a request is authenticated as, and the header-time eACL re-check of GET

The handler skeletons (`Props/C29.lean`) say that the signature check and the access checks come before every
effect. These theorems are about what those two stages decide where the decision is made OUTSIDE the handler body:

* `internal/crypto.requestNeedsSignature` + `acl/v2.getRequestCredentials` (model `ReqAuth`): the identity the
  access-control stage is asked about is always an authenticated one, for EVERY request (any TLS state, any TTL,
  any verification header, any session token issuer);
* the GET relay `getProxyContext` and the storage header interceptor (model `GetRelay`): for EVERY sequence of
  answers of EVERY number of remote nodes, nothing of the object is written to the client before the eACL was
  evaluated against the header with a verdict other than "deny", when the request-time evaluation was inconclusive.

The tie of both models to the code is the correspondence run of engine `rpc` (ops `auth`, `relay`).
-/
namespace NeoFS.C29
open NeoFS

section auth
open ReqAuth
variable {κ : Type}

/-- The signatures may be skipped only for a request WITHOUT a verification header, with TTL 1, from a TLS peer. -/
theorem skip_only_without_header (r : Req κ) (h : needsSignature r = false) :
    r.vh = none ∧ r.ttl = some 1 ∧ r.tls.isSome = true := by
  unfold needsSignature at h
  cases hv : r.vh <;> simp [hv] at h
  · refine ⟨rfl, ?_, ?_⟩
    · by_cases ht : r.ttl = some 1
      · exact ht
      · simp [ht] at h
    · by_cases ht : r.ttl = some 1
      · simpa [ht] using h
      · simp [ht] at h

/-- A verification header that does not verify is refused whatever the connection and the TTL are. -/
theorem wrong_header_is_refused (r : Req κ) (k : κ) (h : r.vh = some (k, false)) :
    authenticate r = .badSignature := by
  simp [authenticate, signatureStage, needsSignature, h]

/-- A request without a verification header is refused unless it is a one-hop request of a TLS peer. -/
theorem missing_header_is_refused (r : Req κ) (h : r.vh = none) (h' : r.ttl ≠ some 1 ∨ r.tls = none) :
    authenticate r = .badSignature := by
  rcases h' with h' | h'
  · simp [authenticate, signatureStage, needsSignature, h, h']
  · by_cases ht : r.ttl = some 1 <;> simp [authenticate, signatureStage, needsSignature, h, h', ht]

/-- **The identity handed to access control is authenticated**, for every request: it made a verification header
whose signatures all verify, or it is the TLS key of a header-less one-hop request, or it issued the session
token of a request whose header verifies. -/
theorem identity_is_authenticated (r : Req κ) (k : κ) (s : Source) (h : authenticate r = .identity k s) :
    AuthenticatedAs r k := by
  unfold authenticate at h
  by_cases hs : signatureStage r = true
  · rw [if_pos hs] at h
    unfold signatureStage at hs
    by_cases hn : needsSignature r = true
    · rw [if_pos hn] at hs
      cases hv : r.vh with
      | none => simp [hv] at hs
      | some p =>
        obtain ⟨kh, valid⟩ := p
        simp only [hv] at hs
        subst hs
        cases ht : r.tok with
        | some kt =>
          simp [credentials, hv, ht] at h
          obtain ⟨hk, _⟩ := h
          subst hk
          exact Or.inr (Or.inr ⟨ht, kh, hv⟩)
        | none =>
          simp [credentials, hv, ht] at h
          obtain ⟨hk, _⟩ := h
          subst hk
          exact Or.inl hv
    · have hn' : needsSignature r = false := by simpa using hn
      obtain ⟨hv, ht, hl⟩ := skip_only_without_header r hn'
      cases hl' : r.tls with
      | none => simp [hl'] at hl
      | some kp =>
        simp [credentials, hv, ht, hl'] at h
        obtain ⟨hk, _⟩ := h
        subst hk
        exact Or.inr (Or.inl ⟨hv, ht, hl'⟩)
  · rw [if_neg hs] at h
    cases h

/-- The key named by a header is used only if that header verifies: naming somebody else's key is useless. -/
theorem header_identity_needs_valid_header (r : Req κ) (k : κ) (h : authenticate r = .identity k .header) :
    r.vh = some (k, true) := by
  have := identity_is_authenticated r k .header h
  unfold authenticate at h
  by_cases hs : signatureStage r = true
  · rw [if_pos hs] at h
    cases hv : r.vh with
    | none =>
      cases ht : r.tok <;> cases hl : r.tls <;> by_cases h1 : r.ttl.getD 0 = 1 <;>
        simp [credentials, hv, ht, hl, h1] at h
    | some p =>
      obtain ⟨kh, valid⟩ := p
      cases ht : r.tok with
      | some kt => simp [credentials, hv, ht] at h
      | none =>
        simp [credentials, hv, ht] at h
        subst h
        have hn : needsSignature r = true := by simp [needsSignature, hv]
        simp [signatureStage, hn, hv] at hs
        subst hs
        rfl
  · rw [if_neg hs] at h
    cases h

/-- Non-vacuity: all three ways of being authenticated occur, and the forged request of the TLS peer is refused. -/
example : authenticate ({ tls := none, ttl := some 2, vh := some ("owner", true) } : Req String) = .identity "owner" .header := rfl
example : authenticate ({ tls := some "node", ttl := some 1, vh := none } : Req String) = .identity "node" .peer := rfl
example : authenticate ({ tls := none, ttl := some 2, vh := some ("gate", true), tok := some "owner" } : Req String) =
    .identity "owner" .token := rfl
example : authenticate ({ tls := some "stranger", ttl := some 1, vh := some ("owner", false) } : Req String) = .badSignature := rfl
example : authenticate ({ tls := some "stranger", ttl := some 2, vh := none } : Req String) = .badSignature := rfl

end auth

section relay
open GetRelay

theorem checked_append (ch : Bool) (t u : List Ev) : checked ch (t ++ u) = (checked ch t || u.any Ev.isGoodCheck) := by
  simp [checked, Bool.or_assoc]

theorem okFrom_append (ch : Bool) (t u : List Ev) : okFrom ch (t ++ u) = (okFrom ch t && okFrom (checked ch t) u) := by
  induction t generalizing ch with
  | nil => simp [okFrom, checked]
  | cons x r ih =>
    cases x with
    | check v =>
      have : checked ch (Ev.check v :: r) = checked (ch || v != .deny) r := by
        simp [checked, Ev.isGoodCheck, Bool.or_assoc]
      simp only [List.cons_append, okFrom, ih, this]
    | sendInit =>
      have : checked ch (Ev.sendInit :: r) = checked ch r := by simp [checked, Ev.isGoodCheck]
      simp only [List.cons_append, okFrom, ih, this, Bool.and_assoc]
    | sendChunk n =>
      have : checked ch (Ev.sendChunk n :: r) = checked ch r := by simp [checked, Ev.isGoodCheck]
      simp only [List.cons_append, okFrom, ih, this, Bool.and_assoc]

/-- Invariant of the relay while the re-check is required: everything sent so far came after a good evaluation,
and once `onceHdr` has fired (without a denial) a good evaluation is in the trace. -/
def Inv (s : St) : Prop := okFrom false s.trace = true ∧ (s.onceDone = true → checked false s.trace = true)

theorem onInit_inv (c : Cfg) (hr : c.recheck = true) (s : St) (hi : Inv s) :
    okFrom false (onInit c s).1.trace = true ∧ ((onInit c s).2 = true → Inv (onInit c s).1 ∧ (onInit c s).1.onceDone = true) := by
  obtain ⟨h1, h2⟩ := hi
  unfold onInit
  by_cases ho : s.onceDone = true
  · rw [if_pos ho]
    exact ⟨h1, fun _ => ⟨⟨h1, h2⟩, ho⟩⟩
  · rw [if_neg ho, if_pos hr]
    cases hv : c.hdr with
    | deny =>
      simp only [beq_self_eq_true, if_true]
      refine ⟨?_, fun h => by cases h⟩
      simp [okFrom_append, okFrom, h1]
    | pass =>
      have hne : (Verdict.pass == Verdict.deny) = false := by decide
      simp only [hne, Bool.false_eq_true, if_false]
      by_cases hsup : c.suppressInit = true
      · rw [if_pos hsup]
        refine ⟨?_, fun _ => ⟨⟨?_, fun _ => ?_⟩, rfl⟩⟩
        · simp [okFrom_append, okFrom, h1]
        · simp [okFrom_append, okFrom, h1]
        · simp [checked_append, Ev.isGoodCheck]
      · rw [if_neg hsup]
        refine ⟨?_, fun _ => ⟨⟨?_, fun _ => ?_⟩, rfl⟩⟩
        · simp [okFrom_append, okFrom, h1, checked_append, Ev.isGoodCheck]
        · simp [okFrom_append, okFrom, h1, checked_append, Ev.isGoodCheck]
        · simp [checked_append, Ev.isGoodCheck]

theorem onChunk_inv (s : St) (read n : Nat) (hi : Inv s) (ho : s.onceDone = true) :
    Inv (onChunk s read n) ∧ (onChunk s read n).onceDone = true := by
  obtain ⟨h1, h2⟩ := hi
  unfold onChunk
  simp only
  split
  · exact ⟨⟨h1, h2⟩, ho⟩
  · refine ⟨⟨?_, fun _ => ?_⟩, ho⟩
    · simp [okFrom_append, okFrom, h1, h2 ho]
    · simp [checked_append, h2 ho]

theorem conn_inv (c : Cfg) (hr : c.recheck = true) : ∀ (msgs : List Msg) (s : St) (hw : Bool) (read : Nat),
    Inv s → (hw = true → s.onceDone = true) →
      okFrom false (conn c s hw read msgs).1.trace = true ∧
      ((conn c s hw read msgs).2 ≠ some .denied → Inv (conn c s hw read msgs).1) := by
  intro msgs
  induction msgs with
  | nil =>
    intro s hw read hi _
    unfold conn
    split
    · exact ⟨hi.1, fun _ => hi⟩
    · split
      · exact ⟨hi.1, fun _ => hi⟩
      · exact ⟨hi.1, fun _ => hi⟩
  | cons m r ih =>
    intro s hw read hi hhw
    cases m with
    | init =>
      unfold conn
      by_cases h : hw = true
      · rw [if_pos h]; exact ⟨hi.1, fun _ => hi⟩
      · rw [if_neg h]
        have := onInit_inv c hr s hi
        rcases hoi : onInit c s with ⟨s', b⟩
        rw [hoi] at this
        cases b with
        | true =>
          obtain ⟨hi', ho'⟩ := this.2 rfl
          exact ih s' true read hi' (fun _ => ho')
        | false =>
          exact ⟨this.1, fun hne => absurd rfl hne⟩
    | chunk n =>
      unfold conn
      by_cases h : hw = true
      · subst h
        simp only [Bool.not_true, Bool.false_eq_true, if_false]
        obtain ⟨hi', ho'⟩ := onChunk_inv s read n hi (hhw rfl)
        exact ih _ true (read + n) hi' (fun _ => ho')
      · have h' : hw = false := by simpa using h
        subst h'
        simp only [Bool.not_false, if_true]
        exact ⟨hi.1, fun _ => hi⟩

/-- **No object data before a good header evaluation.** If the request-time eACL evaluation was inconclusive
(`recheck`), then for every number of remote nodes and every sequence of messages each of them answers, every
message written to the client (heading part or payload chunk) comes after an evaluation of the eACL against the
object header whose verdict was not "deny" — whether or not the client asked for the payload only. -/
theorem relay_data_after_good_check (c : Cfg) (hr : c.recheck = true) :
    ∀ (conns : List (List Msg)) (s : St), Inv s → okFrom false (run c s conns).1.trace = true := by
  intro conns
  induction conns with
  | nil => intro s hi; simpa [run] using hi.1
  | cons m rest ih =>
    intro s hi
    have := conn_inv c hr m s false 0 hi (by intro h; cases h)
    unfold run
    rcases hc : conn c s false 0 m with ⟨s', st⟩
    rw [hc] at this
    cases st with
    | none => simpa using this.1
    | some st =>
      cases st with
      | denied => simpa using this.1
      | broken => simpa using ih s' (this.2 (by simp))

theorem inv_init : Inv {} := by simp [Inv, okFrom]

/-- The readable form of `okFrom`: a data event anywhere in the trace has a good evaluation before it. -/
theorem okFrom_spec : ∀ (t : List Ev) (ch : Bool), okFrom ch t = true →
    ∀ (pre post : List Ev) (e : Ev), t = pre ++ e :: post → e.isData = true → checked ch pre = true := by
  intro t
  induction t with
  | nil => intro ch _ pre post e h; simp at h
  | cons x r ih =>
    intro ch hok pre post e h he
    cases pre with
    | nil =>
      simp only [List.nil_append, List.cons.injEq] at h
      obtain ⟨hx, _⟩ := h
      subst hx
      cases x <;> simp_all [okFrom, checked, Ev.isData]
    | cons p pre' =>
      simp only [List.cons_append, List.cons.injEq] at h
      obtain ⟨hx, hr⟩ := h
      subst hx
      cases x with
      | check v =>
        simp only [okFrom] at hok
        have := ih _ hok pre' post e hr he
        simpa [checked, Ev.isGoodCheck, Bool.or_assoc] using this
      | sendInit =>
        simp only [okFrom, Bool.and_eq_true] at hok
        have := ih _ hok.2 pre' post e hr he
        simpa [checked, Ev.isGoodCheck] using this
      | sendChunk n =>
        simp only [okFrom, Bool.and_eq_true] at hok
        have := ih _ hok.2 pre' post e hr he
        simpa [checked, Ev.isGoodCheck] using this

/-- `relay_data_after_good_check` spelled out over the trace of a whole request. -/
theorem relay_no_data_before_check (c : Cfg) (hr : c.recheck = true) (conns : List (List Msg))
    (pre post : List Ev) (e : Ev) (h : (run c {} conns).1.trace = pre ++ e :: post) (he : e.isData = true) :
    ∃ v, v ≠ Verdict.deny ∧ Ev.check v ∈ pre := by
  have hok := relay_data_after_good_check c hr conns {} inv_init
  have := okFrom_spec _ false hok pre post e h he
  simp only [checked, Bool.false_or, List.any_eq_true] at this
  obtain ⟨x, hx, hg⟩ := this
  cases x with
  | check v => exact ⟨v, by simpa [Ev.isGoodCheck] using hg, hx⟩
  | sendInit => simp [Ev.isGoodCheck] at hg
  | sendChunk n => simp [Ev.isGoodCheck] at hg

/-- every evaluation recorded in the trace has the verdict of the object's header -/
def onlyHdr (c : Cfg) (t : List Ev) : Bool := t.all fun e => match e with | .check w => w == c.hdr | _ => true

theorem onInit_onlyHdr (c : Cfg) (s : St) (h : onlyHdr c s.trace = true) : onlyHdr c (onInit c s).1.trace = true := by
  unfold onInit
  repeat' split
  all_goals simp_all [onlyHdr, List.all_append]

theorem onChunk_onlyHdr (c : Cfg) (s : St) (read n : Nat) (h : onlyHdr c s.trace = true) :
    onlyHdr c (onChunk s read n).trace = true := by
  unfold onChunk
  simp only
  split
  · exact h
  · simp_all [onlyHdr, List.all_append]

theorem conn_onlyHdr (c : Cfg) : ∀ (msgs : List Msg) (s : St) (hw : Bool) (read : Nat),
    onlyHdr c s.trace = true → onlyHdr c (conn c s hw read msgs).1.trace = true := by
  intro msgs
  induction msgs with
  | nil =>
    intro s hw read hs
    unfold conn
    split
    · exact hs
    · split
      · exact hs
      · exact hs
  | cons m r ih =>
    intro s hw read hs
    cases m with
    | init =>
      unfold conn
      by_cases h : hw = true
      · rw [if_pos h]; exact hs
      · rw [if_neg h]
        have hon := onInit_onlyHdr c s hs
        rcases hoi : onInit c s with ⟨s', b⟩
        rw [hoi] at hon
        cases b with
        | true => exact ih s' true read hon
        | false => exact hon
    | chunk n =>
      unfold conn
      by_cases h : hw = true
      · subst h
        simp only [Bool.not_true, Bool.false_eq_true, if_false]
        exact ih _ true (read + n) (onChunk_onlyHdr c s read n hs)
      · have h' : hw = false := by simpa using h
        subst h'
        simp only [Bool.not_false, if_true]; exact hs

theorem run_onlyHdr (c : Cfg) : ∀ (conns : List (List Msg)) (s : St),
    onlyHdr c s.trace = true → onlyHdr c (run c s conns).1.trace = true := by
  intro conns
  induction conns with
  | nil => intro s hs; simpa [run] using hs
  | cons m rest ih =>
    intro s hs
    have := conn_onlyHdr c m s false 0 hs
    unfold run
    rcases hc : conn c s false 0 m with ⟨s', st⟩
    rw [hc] at this
    cases st with
    | none => simpa using this
    | some st =>
      cases st with
      | denied => simpa using this
      | broken => simpa using ih s' this

/-- **A header-time denial sends nothing**: when the re-check is required and the eACL denies the object's header,
no node's answer — well-formed or not — makes the server write a heading part or a payload byte to the client. -/
theorem relay_denied_sends_nothing (c : Cfg) (hr : c.recheck = true) (hd : c.hdr = .deny) (conns : List (List Msg)) :
    ∀ e ∈ (run c {} conns).1.trace, e.isData = false := by
  intro e he
  cases hdat : e.isData with
  | false => rfl
  | true =>
    obtain ⟨pre, post, hsplit⟩ := List.append_of_mem he
    obtain ⟨v, hv, hmem⟩ := relay_no_data_before_check c hr conns pre post e hsplit hdat
    have hpre : Ev.check v ∈ (run c {} conns).1.trace := by rw [hsplit]; exact List.mem_append_left _ hmem
    have hall := run_onlyHdr c conns {} (by simp [onlyHdr])
    unfold onlyHdr at hall
    rw [List.all_eq_true] at hall
    have := hall _ hpre
    simp only [beq_iff_eq] at this
    rw [hd] at this
    exact absurd this hv

/-- The storage path (object held locally): same guarantee from the header interceptor. -/
theorem local_data_after_good_check (c : Cfg) (hr : c.recheck = true) : okFrom false (localGet c).1 = true := by
  unfold localGet
  cases hv : c.hdr <;> cases hs : c.suppressInit <;> by_cases hp : c.plen > 0 <;> simp [hr, hv, hs, hp, okFrom]

theorem local_denied_sends_nothing (c : Cfg) (hr : c.recheck = true) (hd : c.hdr = .deny) :
    (localGet c).2 = .denied ∧ ∀ e ∈ (localGet c).1, e.isData = false := by
  simp [localGet, hr, hd, Ev.isData]

/-- Non-vacuity: a payload-only relay of a permitted object sends the chunks after the evaluation; of a denied
one nothing; a second node is asked after a broken answer and nothing is sent twice. -/
example : (run { recheck := true, suppressInit := true, hdr := .pass, plen := 8 } {} [[.init, .chunk 4, .chunk 4]]).1.trace =
    [.check .pass, .sendChunk 4, .sendChunk 4] := by decide
example : run { recheck := true, suppressInit := true, hdr := .deny, plen := 8 } {} [[.init, .chunk 4, .chunk 4]] =
    ({ onceDone := true, responded := 0, trace := [.check .deny] }, .denied) := by decide
example : (run { recheck := true, suppressInit := false, hdr := .pass, plen := 8 } {} [[.init, .chunk 4], [.init, .chunk 4, .chunk 4]]) =
    ({ onceDone := true, responded := 8, trace := [.check .pass, .sendInit, .sendChunk 4, .sendChunk 4] }, .done) := by decide

end relay
end NeoFS.C29
