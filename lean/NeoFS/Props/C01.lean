import NeoFS.Lemmas.MetaWF
/-!
# C01 — object visibility follows tombstone, garbage, expiry and lock rules in all views

`Meta.Cnr.status` is the status function every view of the metabase model goes through
(`exists_`, `get`, `dbExists`, `dbGet`, search's availability check, `resolveECPart`).
`Meta.Ref.status` is the declarative statement of the rules (Spec/MetaRef.lean).
The theorems hold for every bucket state with unique, ordered keys (`Cnr.WF`, which every operation preserves)
— in particular for every state reachable by any history, at every epoch and for every address.
-/
namespace NeoFS.Meta
open Ref

theorem isExpired_of_find (c : Cnr) (id epoch : Nat) :
    c.isExpired id epoch = ownExpired c epoch id := by
  unfold Cnr.isExpired ownExpired expiredAt
  cases c.find? id with
  | none => rfl
  | some r =>
    simp only
    cases r.exp with
    | none => rfl
    | some s =>
      simp only [Option.bind_some]
      cases parseUint64 s <;> rfl

theorem isExpired_mem (c : Cnr) (h : c.WF) (r : Rec) (hr : r ∈ c.recs) (epoch : Nat) :
    c.isExpired r.id epoch = expiredAt r epoch := by
  rw [isExpired_of_find]
  unfold ownExpired
  have : c.find? r.id = some r := find_of_mem c.recs h.recs r hr
  rw [this]

theorem tombstoned_iff (c : Cnr) (id : Nat) :
    (c.assocTyped 0 id .tombstone).isSome = tombstoned c id := by
  unfold Cnr.assocTyped tombstoned
  rw [Option.isSome_map]
  apply Bool.eq_iff_iff.mpr
  rw [List.find?_isSome, List.any_eq_true]
  constructor
  · rintro ⟨r, hr, hp⟩
    refine ⟨r, hr, ?_⟩
    simp at hp; simp [hp]
  · rintro ⟨r, hr, hp⟩
    refine ⟨r, hr, ?_⟩
    simp at hp; simp [hp]

theorem marked_iff (c : Cnr) (h : c.WF) (id : Nat) :
    marked c id = (match c.garb.find? (·.1 == id) with | some (_, red) => !red | none => false) := by
  unfold marked
  cases hf : c.garb.find? (·.1 == id) with
  | none =>
    simp only
    rw [List.find?_eq_none] at hf
    rw [List.any_eq_false]
    intro g hg
    have := hf g hg
    simp at this
    simp [this]
  | some g =>
    obtain ⟨gid, red⟩ := g
    simp only
    have hmem := List.mem_of_find?_eq_some hf
    have hid : gid = id := by
      have := List.find?_some hf; simpa using this
    subst hid
    cases red with
    | false =>
      simp only [Bool.not_false]
      rw [List.any_eq_true]
      exact ⟨(gid, false), hmem, by simp⟩
    | true =>
      simp only [Bool.not_true]
      rw [List.any_eq_false]
      intro g hg
      by_cases hg1 : g.1 = gid
      · have e1 := garb_find_of_mem c.garb h.garb g hg
        rw [hg1] at e1
        rw [hf] at e1
        have : g = (gid, true) := (Option.some.inj e1).symm
        subst this; simp
      · simp [hg1]

theorem inGarbage_ref (c : Cnr) (h : c.WF) (id : Nat) :
    c.inGarbage id = if tombstoned c id then .tombstoned else if marked c id then .gcMarked else .available := by
  unfold Cnr.inGarbage
  rw [tombstoned_iff, marked_iff c h]
  cases tombstoned c id with
  | true => simp
  | false =>
    simp only [Bool.false_eq_true, if_false]
    cases hf : c.garb.find? (·.1 == id) with
    | none => simp
    | some g => obtain ⟨gid, red⟩ := g; cases red <;> simp

theorem objectLocked_ref (c : Cnr) (h : c.WF) (epoch id : Nat) :
    c.objectLocked epoch id = liveLock c epoch id := by
  unfold Cnr.objectLocked liveLock
  apply Bool.eq_iff_iff.mpr
  rw [List.any_eq_true, List.any_eq_true]
  have key : ∀ r ∈ c.recs,
      (r.assoc == id && r.typ == OType.lock && !(decide (epoch > 0) && c.isExpired r.id epoch) &&
        c.inGarbage r.id == Status.available) =
      (r.typ == OType.lock && r.assoc == id && !(decide (epoch > 0) && expiredAt r epoch) && !tombstoned c r.id &&
        !marked c r.id) := by
    intro r hr
    rw [isExpired_mem c h r hr, inGarbage_ref c h]
    cases tombstoned c r.id <;> cases marked c r.id <;> cases (r.assoc == id) <;> cases (r.typ == OType.lock) <;>
      cases (decide (epoch > 0) && expiredAt r epoch) <;> simp_all
  constructor
  · rintro ⟨r, hr, hp⟩; exact ⟨r, hr, by rw [← key r hr]; exact hp⟩
  · rintro ⟨r, hr, hp⟩; exact ⟨r, hr, by rw [key r hr]; exact hp⟩

theorem statusDirect_ref (c : Cnr) (h : c.WF) (epoch id : Nat) :
    c.statusDirect epoch id = ownStatus c epoch id := by
  unfold Cnr.statusDirect ownStatus
  rw [isExpired_of_find, objectLocked_ref c h, inGarbage_ref c h]
  cases ownExpired c epoch id <;> cases liveLock c epoch id <;> cases tombstoned c id <;> cases marked c id <;> simp

theorem find_filter_parent (l : List Rec) (p q : Rec → Bool) :
    ((l.filter p).find? q).elim 0 (·.parentId) = ((l.find? fun x => p x && q x).map (·.parentId)).getD 0 := by
  induction l with
  | nil => rfl
  | cons y ys ih =>
    cases hp : p y <;> cases hq : q y <;>
      simp only [List.filter_cons, List.find?_cons, hp, hq, Bool.and_self, Bool.and_false, Bool.false_and,
        Bool.false_eq_true, if_false, if_true, Option.map_some, Option.getD_some] <;>
      first | exact ih | rfl

theorem findParent_ref (c : Cnr) (id : Nat) : c.findParent id = parentOf c id := by
  unfold Cnr.findParent parentOf
  cases c.find? id with
  | none => rfl
  | some r =>
    simp only
    split
    · rfl
    · split
      · exact find_filter_parent c.recs _ _
      · split
        · exact find_filter_parent c.recs _ _
        · rfl

/-- **Views agree with the reference rules**: the status every read path uses is exactly the declared one,
for every well-formed bucket, epoch and object id. -/
theorem status_eq_ref (c : Cnr) (h : c.WF) (epoch id : Nat) : c.status epoch id = Ref.status c epoch id := by
  unfold Cnr.status maxObjectNestingLevel Ref.status
  simp only [Cnr.statusNested, statusDirect_ref c h, findParent_ref]
  unfold worse Status.max
  generalize ownStatus c epoch id = s0
  generalize parentOf c id = p1
  generalize ownStatus c epoch p1 = s1
  generalize parentOf c p1 = p2
  generalize ownStatus c epoch p2 = s2
  by_cases h1 : p1 = 0 <;> by_cases h2 : p2 = 0 <;> cases s0 <;> cases s1 <;> cases s2 <;>
    simp [h1, h2, Status.rank]

/-- An existence check answers exactly what the reference status says. -/
theorem exists_follows_ref (c : Cnr) (h : c.WF) (epoch id : Nat) (hg : c.gcMark = false) :
    (c.exists_ id epoch false) =
      match Ref.status c epoch id with
      | .gcMarked => (false, .notFound)
      | .tombstoned => (false, .alreadyRemoved)
      | .expired => (false, .expired)
      | .available => ((c.typeOf id).isSome, .ok) := by
  unfold Cnr.exists_
  rw [status_eq_ref c h, hg]
  cases Ref.status c epoch id <;> simp

/-- A header read answers exactly what the reference status says. -/
theorem get_follows_ref (c : Cnr) (h : c.WF) (epoch id : Nat) :
    (c.get id true false epoch) =
      match Ref.status c epoch id with
      | .gcMarked => (.notFound, none)
      | .tombstoned => (.alreadyRemoved, none)
      | .expired => (.expired, none)
      | .available => (match c.find? id with | some r => (.ok, some r) | none => (.notFound, none)) := by
  unfold Cnr.get
  simp only [if_true]
  rw [status_eq_ref c h]
  cases Ref.status c epoch id <;> simp
  cases c.find? id <;> rfl

/-- `IsLocked` is exactly "some live lock exists". -/
theorem isLocked_iff_live_lock (c : Cnr) (h : c.WF) (epoch id : Nat) :
    c.objectLocked epoch id = liveLock c epoch id := objectLocked_ref c h epoch id

/-- **After any history** (every finite sequence of puts, marks, container removals, deletions, revivals and
epoch changes from the empty metabase) every bucket is well-formed, hence in every reachable state, at the
state's epoch or any other, every address has exactly the reference status in all views. -/
theorem views_agree_after_any_history (ops : List Op) (cn : Nat) (c : Cnr)
    (hc : getCnr? (run ops).db cn = some c) (epoch id : Nat) :
    c.status epoch id = Ref.status c epoch id ∧
      c.objectLocked epoch id = liveLock c epoch id := by
  obtain ⟨k, hk⟩ := getCnr_mem _ cn c hc
  have hwf : c.WF := run_wf ops (k, c) hk
  exact ⟨status_eq_ref c hwf epoch id, objectLocked_ref c hwf epoch id⟩

def exRec (id : Nat) (typ : OType) (assoc : Nat) : Rec :=
  ⟨id, typ, true, false, 0, 0, 0, 0, assoc, none, none⟩

/-- Non-vacuity and the repaired corner: two locks, the first one removed — still locked. -/
example :
    let c : Cnr := { recs := [exRec 3 .regular 0, exRec 4 .lock 3, exRec 8 .lock 3], garb := [(3, false), (4, false)] }
    c.objectLocked 1 3 = true ∧ c.status 1 3 = .available := by decide

end NeoFS.Meta
