import NeoFS.Lemmas.ShardSteps
/-!
# C15 — after a crash, every object the metadata lists as available is readable

For EVERY history of shard operations (puts of regular objects and tombstones, direct deletions, garbage marks
of both kinds, GC passes with tombstone expiry, single and whole write-cache flushes in any order, epoch
advances, restarts, metabase resyncs in any iteration order), in which EVERY operation may be cut by a crash
after ANY number of its atomic persistent steps: in the resulting state every address the metabase reports as
available (`Exists = true`) is returned by `Get` with exactly the bytes that were stored
(`meta_implies_data`).  The proof is the invariant `Inv` (Lemmas/ShardSteps.lean): every atomic step that is
*safe* where it executes preserves it (`inv_step`), and the step list of every operation is safe from every
state satisfying it (`opSteps_safe`) — data is written before metadata, metadata is removed before data, the
main-storage copy is written before the cache copy is removed.  `safe_trace_crash_consistent` is the same
statement for ARBITRARY interleavings of atomic steps (background flusher, concurrent GC) in which every step
is safe at the moment it runs.  The `…_breaks` theorems show the three swapped orders violate the property
(the first one is the order `deleteObjs` had before the repair).
-/
namespace NeoFS.ShardSteps

/-- ids are content hashes: what is handed to `Put` under an address is the object of that address -/
def WFOp (content : Nat → Body) : Op → Prop
  | .put a b => b = content a
  | _ => True

def WFHist (content : Nat → Body) (h : List (Op × Option Nat)) : Prop := ∀ p ∈ h, WFOp content p.1

theorem inv_init (content : Nat → Body) (wc : Bool) : Inv content { hasWC := wc } :=
  ⟨by intro a b h; simp at h, by intro a b h; simp at h, by intro a h; simp [indexed] at h,
   by intro a h; simp [indexed] at h, by intro _ a; rfl⟩

/-! ### the metabase put: what it answers depends on the metabase only; a refusal leaves an exempt address -/

theorem status_congr {s s' : St} (hi : s'.idx = s.idx) (hg : s'.garb = s.garb) (he : s'.epoch = s.epoch) (a : Nat) :
    status s' a = status s a := by
  simp [status, expiredNow, tombstoned, hi, hg, he]

theorem metaPut_err_congr {s s' : St} (hi : s'.idx = s.idx) (hg : s'.garb = s.garb) (he : s'.epoch = s.epoch)
    (a : Nat) (k : Kind) : (metaPut s' a k).2 = (metaPut s a k).2 := by
  have hs := status_congr hi hg he a
  by_cases h1 : status s a = .expired
  · simp [metaPut, hs, h1]
  by_cases h2 : status s a = .tombstoned
  · simp [metaPut, hs, h2]
  by_cases h3 : (s.idx a).isSome = true
  · simp [metaPut, hs, h1, h2, indexed, hi, h3]
  · simp only [metaPut, hs, h1, h2, indexed, hi, h3, if_false]
    cases k with
    | reg => simp [insertObj]
    | ts tg x =>
      by_cases h4 : isTS (s.idx tg) = true
      · simp [insertObj, hi, h4]
      · simp [insertObj, hi, h4]

theorem metaPut_refused {content : Nat → Body} {s : St} {a : Nat} {k : Kind} (hI : Inv content s)
    (h : (metaPut s a k).2 ≠ .ok) : (metaPut s a k).1 = s ∧ exempt s a := by
  unfold metaPut at h ⊢
  split
  · rename_i hst
    refine ⟨rfl, Or.inr (Or.inr ?_)⟩
    unfold status at hst
    cases he : expiredNow s a
    · rw [he] at hst; simp at hst; split at hst <;> try split at hst
      all_goals simp at hst
    · rfl
  · split
    · rename_i hst
      have ht : tombstoned s a = true := by
        unfold status at hst
        cases ht : tombstoned s a
        · rw [ht] at hst; split at hst
          · simp at hst
          · simp at hst; split at hst <;> simp at hst
        · rfl
      refine ⟨rfl, ?_⟩
      cases hi : indexed s a
      · exact Or.inl hi
      · exact Or.inr (Or.inl (hI.tomb a hi ht))
    · split
      · rename_i h1 h2 h3; simp [h1, h2, h3] at h
      · rename_i h1 h2 hni
        have hni : indexed s a = false := by simpa using hni
        refine ⟨?_, Or.inl hni⟩
        simp only [h1, h2, hni] at h
        cases k with
        | reg => simp [insertObj] at h
        | ts tg x =>
          simp only [insertObj] at h ⊢
          split
          · rfl
          · rename_i hts; simp [hts] at h

/-! ### every operation's step list is safe -/

theorem deleteSteps_safe {content : Nat → Body} (s0 s : St) (ids : List Nat) :
    SafeList content s (deleteSteps s0 ids) := by
  unfold deleteSteps
  split
  · trivial
  · refine ⟨trivial, ?_⟩
    have hex : ∀ a ∈ ids, exempt (applyStep s (.metaDelete ids)) a := by
      intro a ha; exact Or.inl (by simp [indexed, applyStep, ha])
    apply safeList_dels
    intro x hx
    split at hx
    · rcases List.mem_append.mp hx with hx | hx
      · split at hx
        · obtain ⟨a, ha, rfl⟩ := List.mem_map.mp hx; exact hex a ha
        · simp at hx
      · obtain ⟨a, ha, rfl⟩ := List.mem_map.mp hx; exact hex a ha
    · simp at hx

theorem flushSteps_safe {content : Nat → Body} (s : St) (a : Nat) : SafeList content s (flushSteps s a) := by
  unfold flushSteps
  split
  · rename_i b hb
    refine ⟨trivial, Or.inr ?_, trivial⟩
    simp [applyStep, hb]
  · trivial

theorem flushAllSteps_safe {content : Nat → Body} : ∀ (order : List Nat) (s : St),
    SafeList content s (flushAllSteps s order) := by
  intro order
  induction order with
  | nil => intro s; trivial
  | cons a rest ih =>
    intro s
    simp only [flushAllSteps]
    exact safeList_append _ _ s (flushSteps_safe s a) (ih _)

theorem opSteps_safe {content : Nat → Body} {s : St} (o : Op) (hI : Inv content s) (hw : WFOp content o) :
    SafeList content s (opSteps s o) := by
  cases o with
  | put a b =>
    have hb : b = content a := hw
    simp only [opSteps, putSteps]
    -- the data step
    have hS1 : Safe content s (if s.hasWC then Step.wcPut a b else Step.blobPut a b) := by
      split <;> exact hb
    refine ⟨hS1, ?_⟩
    have hI1 := inv_step _ hI hS1
    generalize hs1 : applyStep s (if s.hasWC then Step.wcPut a b else Step.blobPut a b) = s1 at hI1 ⊢
    have hmeta : s1.idx = s.idx ∧ s1.garb = s.garb ∧ s1.epoch = s.epoch ∧ hasData s1 a = true := by
      rw [← hs1]; split <;> simp [applyStep, hasData]
    refine ⟨hmeta.2.2.2, ?_⟩
    split
    · rename_i href
      have href1 : (metaPut s1 a b.kind).2 ≠ .ok := by
        rw [metaPut_err_congr hmeta.1 hmeta.2.1 hmeta.2.2.1]; simpa using href
      have hr := metaPut_refused hI1 href1
      apply safeList_dels
      intro x hx
      simp only [applyStep, hr.1]
      rcases List.mem_append.mp hx with hx | hx
      · split at hx
        · simp at hx; subst hx; exact hr.2
        · simp at hx
      · simp at hx; subst hx; exact hr.2
    · trivial
  | delete ids => exact deleteSteps_safe s s ids
  | mark ids m =>
    simp only [opSteps]
    refine ⟨trivial, ?_⟩
    split
    · rename_i hm
      have hm' : m = .dflt := by
        cases m <;> simp at hm ⊢
      subst hm'
      apply safeList_dels
      intro x hx
      obtain ⟨a, ha, rfl⟩ := List.mem_map.mp hx
      simp only [IsDelOf, applyStep]
      cases hb : s.hasBkt
      · exact Or.inl (by simp [indexed, hI.bkt hb a])
      · exact Or.inr (Or.inl (by simpa using foldl_markOne_sets_dflt ids s.garb a ha))
    · trivial
  | gc =>
    simp only [opSteps]
    apply safeList_append
    · unfold expirySteps; split
      · exact deleteSteps_safe s s _
      · trivial
    · unfold garbageSteps; exact deleteSteps_safe _ _ _
  | flush a => exact flushSteps_safe s a
  | flushAll order => exact flushAllSteps_safe order s
  | flushRace a =>
    simp only [opSteps, flushRaceSteps]
    split
    · rename_i b hb
      refine safeList_append _ _ s (deleteSteps_safe s s [a]) ⟨?_, Or.inr ?_, trivial⟩
      · exact hI.wcRight a b hb
      · simp [applyStep]
    · trivial
  | epoch e => trivial
  | reopen => trivial
  | resync order => exact ⟨trivial, trivial, trivial⟩

/-! ### volatile state, the epoch, whole operations, crashes, histories -/

theorem inv_of_persistent_eq {content : Nat → Body} {s s' : St} (hI : Inv content s)
    (hb : s'.blob = s.blob) (hw : s'.wc = s.wc) (hi : s'.idx = s.idx) (hg : s'.garb = s.garb)
    (hk : s'.hasBkt = s.hasBkt) (he : s.epoch ≤ s'.epoch) : Inv content s' := by
  refine ⟨hb ▸ hI.blobRight, hw ▸ hI.wcRight, ?_, ?_, ?_⟩
  · intro a ha
    have ha' : indexed s a = true := by simpa [indexed, hi] using ha
    rcases hI.data a ha' with h | h | h
    · exact Or.inl (hg ▸ h)
    · refine Or.inr (Or.inl ?_)
      simp only [expiredNow, hi] at h ⊢
      split at h <;> simp_all
      omega
    · exact Or.inr (Or.inr (by simpa [hasData, hb, hw] using h))
  · intro a ha ht
    have ha' : indexed s a = true := by simpa [indexed, hi] using ha
    have ht' : tombstoned s a = true := by simpa [tombstoned, hi] using ht
    exact hg ▸ hI.tomb a ha' ht'
  · intro h a; rw [hi]; exact hI.bkt (hk ▸ h) a

theorem crash_inv {content : Nat → Body} {s : St} (hI : Inv content s) : Inv content (crash s) :=
  inv_of_persistent_eq hI rfl rfl rfl rfl rfl (Nat.le_refl _)

theorem opPost_inv {content : Nat → Body} {s0 s : St} (o : Op) (hI : Inv content s) : Inv content (opPost s0 s o) := by
  cases o with
  | gc =>
    simp only [opPost]
    split
    · exact inv_of_persistent_eq hI rfl rfl rfl rfl rfl (Nat.le_refl _)
    · split
      · exact inv_of_persistent_eq hI rfl rfl rfl rfl rfl (Nat.le_refl _)
      · exact hI
  | epoch e => exact inv_of_persistent_eq hI rfl rfl rfl rfl rfl (Nat.le_max_left _ _)
  | reopen => exact inv_of_persistent_eq hI rfl rfl rfl rfl rfl (Nat.le_refl _)
  | put _ _ => exact hI
  | delete _ => exact hI
  | mark _ _ => exact hI
  | flush _ => exact hI
  | flushAll _ => exact hI
  | flushRace _ => exact hI
  | resync _ => exact hI

theorem runOp_inv {content : Nat → Body} {s : St} (o : Op) (hI : Inv content s) (hw : WFOp content o) :
    Inv content (runOp s o) :=
  opPost_inv o (inv_steps _ s hI (opSteps_safe o hI hw))

/-- the invariant holds at EVERY crash point of every operation -/
theorem crashOp_inv {content : Nat → Body} {s : St} (o : Op) (k : Nat) (hI : Inv content s) (hw : WFOp content o) :
    Inv content (crashOp s o k) :=
  crash_inv (inv_steps _ s hI (safeList_take _ s k (opSteps_safe o hI hw)))

theorem runHist_inv {content : Nat → Body} : ∀ (h : List (Op × Option Nat)) (s : St),
    Inv content s → WFHist content h → Inv content (runHist s h) := by
  intro h
  induction h with
  | nil => intro s hI _; exact hI
  | cons p rest ih =>
    intro s hI hw
    obtain ⟨o, c⟩ := p
    have hwo : WFOp content o := hw (o, c) (by simp)
    have hwr : WFHist content rest := fun q hq => hw q (by simp [hq])
    cases c with
    | none => exact ih _ (runOp_inv o hI hwo) hwr
    | some k => exact ih _ (crashOp_inv o k hI hwo) hwr

/-- what the invariant gives a reader: available ⇒ `Get` returns the stored bytes -/
theorem available_readable {content : Nat → Body} {s : St} (hI : Inv content s) (a : Nat)
    (h : available s a = true) : get s a = (.ok, some (content a)) := by
  simp only [available, Bool.and_eq_true, beq_iff_eq] at h
  obtain ⟨hst, hidx⟩ := h
  have hne : expiredNow s a = false ∧ tombstoned s a = false :=
    status_not_removed (by rw [hst]; simp) (by rw [hst]; simp)
  have hg : s.garb a ≠ some .dflt := by
    intro hg; simp [status, hne.1, hne.2, hg] at hst
  simp only [get, hst, hidx, if_true]
  cases hw : s.wc a with
  | some b => simp [hI.wcRight a b hw]
  | none =>
    rcases hI.data a hidx with h | h | h
    · exact absurd h hg
    · rw [hne.1] at h; exact absurd h (by simp)
    · simp only [hasData, hw, Option.isSome_none, Bool.or_false] at h
      cases hb : s.blob a with
      | none => rw [hb] at h; exact absurd h (by simp)
      | some b => simp [hI.blobRight a b hb]

/-- **C15.** Every history, every crash point of every operation (shard with or without write-cache): whatever
the metabase lists as available afterwards is read back with the stored bytes. -/
theorem meta_implies_data (content : Nat → Body) (wc : Bool) (h : List (Op × Option Nat)) (hw : WFHist content h)
    (a : Nat) (hav : available (runHist { hasWC := wc } h) a = true) :
    get (runHist { hasWC := wc } h) a = (.ok, some (content a)) :=
  available_readable (runHist_inv h _ (inv_init content wc) hw) a hav

/-- the same at the granularity of atomic steps: ANY interleaving of steps (foreground operations, background
flusher, GC) in which every step is safe when it runs leaves, after ANY prefix and a crash, a state in which
everything listed as available is readable -/
theorem safe_trace_crash_consistent (content : Nat → Body) (s : St) (tr : List Step) (k : Nat)
    (hI : Inv content s) (hs : SafeList content s tr) (a : Nat)
    (hav : available (crash (applySteps s (tr.take k))) a = true) :
    get (crash (applySteps s (tr.take k))) a = (.ok, some (content a)) :=
  available_readable (crash_inv (inv_steps _ s hI (safeList_take _ s k hs))) a hav

/-! ### non-vacuity -/

def b1 : Body := { kind := .reg, payload := 11 }
def bT : Body := { kind := .ts 1 2, payload := 0 }
def contentEx : Nat → Body := fun a => if a = 7 then bT else { kind := .reg, payload := 10 + a }

/-- a history with a crash inside the GC's deletion, after which object 2 is still listed and read back -/
example :
    let h : List (Op × Option Nat) := [(.put 1 b1, none), (.put 2 (contentEx 2), none), (.put 7 bT, none),
      (.gc, some 2), (.reopen, none)]
    let s := runHist { hasWC := true } h
    WFHist contentEx h ∧ available s 2 = true ∧ get s 2 = (.ok, some (contentEx 2)) ∧ available s 1 = false
      ∧ s.wc 1 = none := by
  refine ⟨?_, by decide, by decide, by decide, by decide⟩
  intro p hp
  simp at hp
  rcases hp with rfl | rfl | rfl | rfl | rfl <;> simp [WFOp, contentEx, b1, bT]

/-! ### the swapped orders violate the property (these are the mutations the check must catch) -/

/-- one object, stored through the write-cache -/
def sPut : St := runOp { hasWC := true } (.put 1 b1)

/-- `deleteObjs` as it was before the repair (cache copy first): a crash after its first step leaves object 1
reported as available with no bytes anywhere -/
theorem delete_cache_first_breaks :
    let s' := crash (applySteps sPut ((deleteStepsOrig sPut [1]).take 1))
    available s' 1 = true ∧ (get s' 1).1 = .metaNoObject := by decide

/-- `Put` with the metabase record written before the bytes -/
theorem put_meta_first_breaks :
    let s0 : St := { hasWC := true }
    let s' := crash (applySteps s0 ([Step.metaPut 1 .reg, Step.wcPut 1 b1].take 1))
    available s' 1 = true ∧ (get s' 1).1 = .metaNoObject := by decide

/-- flush with the cache copy removed before the main-storage copy is written -/
theorem flush_delete_first_breaks :
    let s' := crash (applySteps sPut ([Step.wcDel 1, Step.blobPut 1 b1].take 1))
    available s' 1 = true ∧ (get s' 1).1 = .metaNoObject := by decide

/-- Outside C15's quantifier (crash points), recorded for honesty: a SCHEDULE, not a crash, breaks the same
invariant in the code as it is — a flusher that has copied object 1 to the main storage removes the cache copy
unconditionally, also when the object was deleted and stored again in between (`wcDel 1` is not safe there). -/
theorem flush_delete_reput_schedule_breaks :
    let s1 := applyStep sPut (.flushCopy 1)
    let s2 := runOp s1 (.delete [1])
    let s3 := runOp s2 (.put 1 b1)
    let s' := applyStep s3 (.wcDel 1)
    available s' 1 = true ∧ (get s' 1).1 = .metaNoObject := by decide

end NeoFS.ShardSteps
