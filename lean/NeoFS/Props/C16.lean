import NeoFS.Lemmas.WCFlush
/-!
# C16 — objects written through the write-cache stay readable through every flush

Model: `Model/WCFlush.lean` (threads advancing by the atomic steps of `writecache/flush.go`, `put.go`, `get.go`,
`delete.go` and of the shard's read/put/delete paths). A schedule is an arbitrary list of events (operation starts on
any thread, single atomic steps of any thread with an arbitrary main-storage failure oracle and an arbitrary removal
order inside a batch). The invariants are in `Lemmas/WCFlush.lean`.
-/
namespace NeoFS.WCFlush

/-! ## decidable schedule predicates -/

def startsDelete (a : Addr) : Ev → Bool
  | .delete _ b => b == a
  | _ => false

def isDelDone (a : Addr) : Obs → Bool
  | .delDone _ b => b == a
  | _ => false

/-- every put of `a` carries the content `v` (an address is the hash of the object) -/
def carries (a : Addr) (v : Data) : Ev → Bool
  | .write _ b x _ => b != a || x == v
  | _ => true

/-- the event does not start a tracked read of `a` -/
def untaggedRead (a : Addr) : Ev → Bool
  | .read _ b tag => !(b == a && tag)
  | _ => true

theorem evOK_of {a v} {e : Ev} (h1 : carries a v e = true) (h2 : startsDelete a e = false) : EvOK a v e := by
  cases e with
  | write t b x via =>
    simp only [carries, Bool.or_eq_true, bne_iff_ne, ne_eq, beq_iff_eq] at h1
    simp only [EvOK]
    intro hb
    rcases h1 with h | h
    · exact absurd hb h
    · exact h
  | delete t b => simpa [startsDelete, EvOK] using h2
  | read t b tag => simp [EvOK]
  | flush t as mark => simp [EvOK]
  | step t ok pick => simp [EvOK]

theorem notTagged_of {a} {e : Ev} (h : untaggedRead a e = true) : NotTaggedRead a e := by
  cases e with
  | read t b tag =>
    simp only [NotTaggedRead]
    rintro ⟨rfl, rfl⟩
    simp [untaggedRead] at h
  | write t b x via => simp [NotTaggedRead]
  | delete t b => simp [NotTaggedRead]
  | flush t as mark => simp [NotTaggedRead]
  | step t ok pick => simp [NotTaggedRead]

/-! ## the property -/

/-- **Readable through every flush (invariant form).** From ANY state in which the lookup invariant holds for `a`
(it holds from the acknowledgement of a put on, see `ack_establishes_safe`), for EVERY schedule — any number of
flushers (single and batch, marked or not, any removal order), readers, writers (re-puts of `a` included), deleters of
other addresses, any main-storage failure oracle — in which no delete of `a` starts: the invariant still holds at every
step boundary and every tracked read of `a` that completes returns `a`'s bytes. -/
theorem readable_through_flush (a : Addr) (v : Data) (s : St) (sched : List Ev) (hs : Safe a v s)
    (hev : ∀ e ∈ sched, EvOK a v e) :
    Safe a v (run false s sched).1 ∧ ∀ t r, Obs.readDone t a true r ∈ (run false s sched).2 → r = some v :=
  safe_run sched hs hev

/-- The acknowledgement of a put of `a` (through the cache or, when the cache refuses, through the main storage)
establishes the invariant, from any state of the base invariant with no tracked read of `a` in flight. -/
theorem ack_establishes_safe (a : Addr) (v : Data) (s : St) (e : Ev) (t0 : Tid) (hc : Core a v s) (hn : NoTagged a s)
    (he : EvOK a v e) (hnt : NotTaggedRead a e) (hack : (step false s e).2 = .putAck t0 a v true) :
    Safe a v (step false s e).1 :=
  ack_step hc hn he hnt t0 hack

/-- **After a flush the object is in the main storage with identical bytes**: in every state of the invariant, an
address that is no longer in the cache is in the main storage with its bytes (the flusher removes the cache file only
after its main-storage put succeeded). -/
theorem after_flush_in_main (a : Addr) (v : Data) (s : St) (hs : Safe a v s) (hgone : s.files a = none) :
    s.main a = some v := by
  rcases hs.readable with h | h
  · exact h
  · rw [hgone] at h; exact absurd h.2 (by simp)

/-- The key lemma of the two-step lookup: objects only move cache → main. Once the main storage holds `a`
it holds it after every further schedule (without deletes of `a`). -/
theorem main_is_stable (a : Addr) (v : Data) (s : St) (sched : List Ev) (hs : Safe a v s)
    (hev : ∀ e ∈ sched, EvOK a v e) (hm : s.main a = some v) : (run false s sched).1.main a = some v := by
  induction sched generalizing s with
  | nil => exact hm
  | cons e es ih =>
    have h1 := safe_step hs (hev e (by simp))
    refine ih _ h1.1 (fun e' he' => hev e' (by simp [he'])) ?_
    -- one event: every main-storage write of `a` writes `v`, and nothing deletes `a`
    have hcore := hs.core
    cases e with
    | step t ok pick =>
      have hp := hcore.pcs t
      show (stepThread false s t ok pick).1.main a = some v
      unfold stepThread
      split
      · exact hm
      · exact hm
      · split <;> exact hm
      · exact hm
      · exact hm
      · exact hm
      · rename_i b x heq
        rw [heq] at hp; simp only [PcOK] at hp
        split
        · show upd s.main b (some x) a = some v
          simp only [upd]; split
          · rename_i hab; rw [hp hab.symm]
          · exact hm
        · exact hm
      · split <;> exact hm
      · split
        · exact hm
        · exact hm
      · rename_i got marks heq
        rw [heq] at hp; simp only [PcOK] at hp
        split
        · show putAll s.main got a = some v
          rcases putAll_cases s.main got a with h | ⟨x, hx, h⟩
          · rw [h]; exact hm
          · rw [h, hp _ hx]
        · exact hm
      · split
        · split <;> exact hm
        · split <;> exact hm
      · exact hm
      · split <;> exact hm
      · exact hm
      · rename_i b heq
        rw [heq] at hp; simp only [PcOK] at hp
        show upd s.main b none a = some v
        simp only [upd, if_neg (Ne.symm hp)]; exact hm
    | read t b tag => simp only [step]; split <;> exact hm
    | write t b x via => simp only [step]; split <;> exact hm
    | flush t as mark => simp only [step]; split <;> exact hm
    | delete t b => simp only [step]; split <;> exact hm

/-- The full statement of C16 on the model: in a history from the empty shard, once a put of `a` is acknowledged, and
while no delete of `a` starts afterwards (every delete of `a` that started earlier has completed), every read of `a`
that starts afterwards returns `a`'s bytes. -/
def C16_full : Prop :=
  ∀ (a : Addr) (v : Data) (pre post : List Ev) (ack : Ev) (t0 : Tid),
    (pre ++ ack :: post).all (carries a v) = true →
    (pre ++ [ack]).all (untaggedRead a) = true →
    (ack :: post).all (fun e => !startsDelete a e) = true →
    (pre.filter (startsDelete a)).length = ((run false init pre).2.filter (isDelDone a)).length →
    (step false (run false init pre).1 ack).2 = .putAck t0 a v true →
    ∀ t r, Obs.readDone t a true r ∈ (run false (step false (run false init pre).1 ack).1 post).2 → r = some v

/-- **C16, proved part**: the full statement under the extra decidable hypothesis that the history before the
acknowledged put contains no delete of `a` either. For ALL schedules `pre`, `post`. -/
theorem C16_partial (a : Addr) (v : Data) (pre post : List Ev) (ack : Ev) (t0 : Tid)
    (hcar : (pre ++ ack :: post).all (carries a v) = true)
    (hunt : (pre ++ [ack]).all (untaggedRead a) = true)
    (hdel : (ack :: post).all (fun e => !startsDelete a e) = true)
    (hnodel : pre.all (fun e => !startsDelete a e) = true)
    (hack : (step false (run false init pre).1 ack).2 = .putAck t0 a v true) :
    ∀ t r, Obs.readDone t a true r ∈ (run false (step false (run false init pre).1 ack).1 post).2 → r = some v := by
  simp only [List.all_eq_true, List.mem_append, List.mem_cons, List.mem_singleton, Bool.not_eq_true',
    List.not_mem_nil, or_false] at hcar hunt hdel hnodel
  have hpre := pre_run (a := a) (v := v) pre (core_init a v) (noTagged_init a) (fun e he =>
    ⟨evOK_of (hcar e (Or.inl he)) (hnodel e he), notTagged_of (hunt e (Or.inl he))⟩)
  have hsafe := ack_step hpre.1 hpre.2 (evOK_of (hcar ack (Or.inr (Or.inl rfl))) (hdel ack (Or.inl rfl)))
    (notTagged_of (hunt ack (Or.inr rfl))) t0 hack
  exact (safe_run post hsafe (fun e he => evOK_of (hcar e (Or.inr (Or.inr he))) (hdel e (Or.inr he)))).2

/-! ## the full statement is FALSE for the current code: a flusher that is past its main-storage put removes a NEWER
cache file of the same address if the object was deleted and put again in between -/

def cexPre : List Ev :=
  [.write 0 1 7 true, .step 0 true 0, .step 0 true 0,           -- put of 1, acknowledged
   .flush 1 [1] true, .step 1 true 0, .step 1 true 0, .step 1 true 0,  -- flusher: read, main put done; cache delete pending
   .delete 2 1, .step 2 true 0, .step 2 true 0, .step 2 true 0,   -- Shard.Delete of 1 completes (cache file, counter, main)
   .write 0 1 7 true, .step 0 true 0]                             -- second put: cache file written
def cexAck : Ev := .step 0 true 0                                  -- counters.Add: second put acknowledged
def cexPost : List Ev :=
  [.step 1 true 0, .step 1 true 0,                                -- the old flusher removes the NEW file and its counter
   .read 3 1 true, .step 3 true 0, .step 3 true 0]                -- a read that starts afterwards: not found

theorem C16_counterexample : ¬ C16_full := by
  intro h
  have := h 1 7 cexPre cexPost cexAck 0 (by decide) (by decide) (by decide) (by decide) (by decide) 3 none (by decide)
  exact absurd this (by decide)

/-! ## the mutant order (cache delete BEFORE the main-storage put) violates the property without any delete -/

def raceSched : List Ev :=
  [.write 0 1 7 true, .step 0 true 0, .step 0 true 0,            -- put of 1 acknowledged
   .flush 1 [1] true, .step 1 true 0, .step 1 true 0,            -- flusher: read, (order decision)
   .step 1 true 0, .step 1 true 0,                                -- two more flusher steps
   .read 3 1 true, .step 3 true 0, .step 3 true 0, .step 3 true 0,  -- a read racing with the flusher
   .step 1 false 0, .step 1 false 0]                              -- flusher continues, main storage failing

/-- swapped order: the read in the window returns not-found although the put was acknowledged and nothing was deleted -/
theorem swapped_order_read_fails :
    Obs.putAck 0 1 7 true ∈ (run true init raceSched).2 ∧ Obs.readDone 3 1 true none ∈ (run true init raceSched).2 := by
  decide

/-- swapped order with a failing main storage: the object is lost for good -/
theorem swapped_order_loses_object :
    (run true init raceSched).1.files 1 = none ∧ (run true init raceSched).1.main 1 = none := by
  decide

/-! ## non-vacuity -/

/-- the same racing schedule under the real order: the reader misses nothing, and the failing storage loses nothing -/
example : Obs.readDone 3 1 true (some 7) ∈ (run false init raceSched).2 ∧
    (run false init raceSched).1.main 1 = some 7 := by decide

/-- the reader's cache lookup really misses in a race (counter seen, file gone) and falls back to the main storage:
put; flusher reads and puts to main; reader sees the counter; flusher removes file; reader's file read misses -/
def missSched : List Ev :=
  [.write 0 1 7 true, .step 0 true 0, .step 0 true 0,
   .flush 1 [1] true, .step 1 true 0, .step 1 true 0, .step 1 true 0,
   .read 3 1 true, .step 3 true 0,          -- HasAddress: yes
   .step 1 true 0,                           -- flusher: fsTree.Delete
   .step 3 true 0,                           -- fsTree.Get: gone → fall back
   .step 3 true 0]                           -- blobStor.Get
example : (run false init (missSched.take 11)).1.pc 3 = .rdMain 1 true ∧
    Obs.readDone 3 1 true (some 7) ∈ (run false init missSched).2 := by decide

/-- `C16_partial` applies to it: hypotheses hold for pre = first two events, ack = third, post = the rest -/
example : ∀ t r, Obs.readDone t 1 true r ∈
    (run false (step false (run false init (missSched.take 2)).1 (.step 0 true 0)).1 (missSched.drop 3)).2 → r = some 7 :=
  C16_partial 1 7 (missSched.take 2) (missSched.drop 3) (.step 0 true 0) 0 (by decide) (by decide) (by decide) (by decide)
    (by decide)

/-- a batch of two addresses with a re-put of one of them in the middle, storage failing once: still readable -/
example : Obs.readDone 3 1 true (some 7) ∈ (run false init
    [.write 0 1 7 true, .step 0 true 0, .step 0 true 0, .write 0 2 9 true, .step 0 true 0, .step 0 true 0,
     .flush 1 [1, 2] true, .step 1 true 0, .step 1 true 0, .step 1 true 0, .step 1 false 0,   -- PutBatch fails
     .flush 1 [2, 1] true, .step 1 true 0, .step 1 true 0, .step 1 true 0, .step 1 true 0,    -- retried, succeeds
     .write 0 1 7 true, .step 0 true 0,                                                        -- re-put racing
     .step 1 true 1, .step 1 true 0, .step 0 true 0, .step 1 true 0, .step 1 true 0, .step 1 true 0,
     .read 3 1 true, .step 3 true 0, .step 3 true 0, .step 3 true 0]).2 := by decide

end NeoFS.WCFlush
