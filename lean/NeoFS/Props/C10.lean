import NeoFS.Lemmas.FSTreeApi
/-!
# C10 — the file-tree storage behaves as a map from address to bytes

Low level: `Model/FSTree.lean` (inodes as byte strings, names, the writers as sequences of system calls, the readers
as byte scanners).  Abstract level: `Spec := address → Option bytes`.  `refines_map` shows, for EVERY history of
`Put` / `PutBatch` / `Delete` on the O_TMPFILE writer (no injected failures), that the disk state abstracts to the
map and `reads_follow_map` that every reader returns exactly what the map says.
-/
namespace NeoFS.FSTree

/-- one operation of a history -/
inductive Op
  | put (a : Nat) (d : Bytes)
  | batch (items : List (Nat × Bytes))
  | del (a : Nat)

/-- the abstract map: address ↦ stored bytes -/
abbrev Spec := Nat → Option Bytes

/-- storing under an address: the O_TMPFILE writer treats an existing name as success and keeps it
(`linkat` EEXIST, issue 2563); an address is the hash of its object, so the bytes are those of the same object -/
def specPut (m : Spec) (a : Nat) (d : Bytes) : Spec :=
  fun x => if x = a then (match m a with | some e => some e | none => some d) else m x

def specStep (m : Spec) : Op → Spec
  | .put a d => if d = [] then m else specPut m a d
  | .batch items => (items.filter (fun p => p.2 ≠ [])).foldl (fun m it => specPut m it.1 it.2) m
  | .del a => fun x => if x = a then none else m x

def implStep (cfg : Cfg) (k : K) : Op → K
  | .put a d => (put cfg noFault k a d).1
  | .batch items => (putBatch cfg noFault k items).1
  | .del a => (delete noFault k a).1

def ValidOp : Op → Prop
  | .put a d => IdOK a ∧ (d ≠ [] → ValidData d)
  | .batch items => ∀ it ∈ items, IdOK it.1 ∧ (it.2 ≠ [] → ValidData it.2)
  | .del _ => True

/-- the disk state `k` represents the map `m` -/
def Refines (k : K) (m : Spec) : Prop :=
  ∀ a, (∀ d, m a = some d → ReadsK k.inodes k.dir a d) ∧ (m a = none → k.dir.lookup a = none)

theorem specPut_other {m : Spec} {a x : Nat} {d : Bytes} (h : x ≠ a) : specPut m a d x = m x := by
  simp [specPut, h]

theorem specPut_self_some {m : Spec} {a : Nat} {d e : Bytes} (h : m a = some e) : specPut m a d a = some e := by
  simp [specPut, h]

theorem specPut_self_none {m : Spec} {a : Nat} {d : Bytes} (h : m a = none) : specPut m a d a = some d := by
  simp [specPut, h]

def PAny : Nat → Bytes → Prop := fun _ _ => True

/-- everything the refinement proof carries from op to op -/
structure Rel (k : K) (m : Spec) : Prop where
  ref : Refines k m
  sinv : SInv PAny k
  quiet : Quiet k
  clean : Clean noFault k
  nodup : (k.dir.map (·.1)).Nodup

theorem fold_specPut (items : List (Nat × Bytes)) (m : Spec) (x : Nat) :
    (items.foldl (fun m it => specPut m it.1 it.2) m) x = (m x).or (items.lookup x) := by
  induction items generalizing m with
  | nil => simp
  | cons it rest ih =>
    obtain ⟨a, d⟩ := it
    rw [List.foldl_cons, ih, List.lookup_cons]
    by_cases hx : x = a
    · subst hx
      cases hm : m x with
      | some e => rw [specPut_self_some hm]; rfl
      | none => rw [specPut_self_none hm]; simp
    · have : (x == a) = false := by simpa using hx
      rw [specPut_other hx, this]

theorem lookup_none_not_mem {β : Type} {l : List (Nat × β)} {x : Nat} (h : l.lookup x = none) : x ∉ l.map (·.1) := by
  induction l with
  | nil => simp
  | cons p ps ih =>
    obtain ⟨a, d⟩ := p
    rw [List.lookup_cons] at h
    cases hq : (x == a) with
    | true => rw [hq] at h; cases h
    | false =>
      rw [hq] at h
      simp only [List.map_cons, List.mem_cons, not_or]
      exact ⟨by simpa using hq, ih h⟩

theorem lookup_some_mem {β : Type} {l : List (Nat × β)} {x : Nat} {e : β} (h : l.lookup x = some e) : (x, e) ∈ l := by
  induction l with
  | nil => cases h
  | cons p ps ih =>
    obtain ⟨a, d⟩ := p
    rw [List.lookup_cons] at h
    cases hq : (x == a) with
    | true =>
      rw [hq] at h
      have : x = a := by simpa using hq
      cases h
      simp [this]
    | false => rw [hq] at h; simp [ih h]

theorem lookup_of_mem_nodup {β : Type} {l : List (Nat × β)} {x : Nat} {e : β} (hn : (l.map (·.1)).Nodup) (h : (x, e) ∈ l) :
    l.lookup x = some e := by
  induction l with
  | nil => cases h
  | cons p ps ih =>
    obtain ⟨a, d⟩ := p
    rw [List.lookup_cons]
    simp only [List.map_cons, List.nodup_cons] at hn
    rcases List.mem_cons.mp h with heq | hm
    · cases heq; simp
    · have hne : x ≠ a := by
        intro hxa; subst hxa
        exact hn.1 (List.mem_map.mpr ⟨(x, e), hm, rfl⟩)
      have : (x == a) = false := by simpa using hne
      rw [this]; exact ih hn.2 hm

theorem rel_step (cfg : Cfg) (hc : cfg.Fixed) (hg : cfg.generic = false) (k : K) (m : Spec) (op : Op)
    (hv : ValidOp op) (h : Rel k m) : Rel (implStep cfg k op) (specStep m op) := by
  cases op with
  | put a d =>
    simp only [implStep, specStep]
    by_cases hd : d = []
    · simp only [hd, if_true]
      have : (put cfg noFault k a []).1 = k := by simp [put]
      rw [this]; exact h
    · simp only [hd, if_false]
      obtain ⟨ps, pe, _, pq, pok⟩ := put_spec (P := PAny) cfg hc hg noFault k a d h.sinv hv.1 (hv.2 hd) trivial
      obtain ⟨cok, cc⟩ := put_clean (P := PAny) cfg hg h.sinv h.clean a d hd
      refine ⟨?_, ps, pq h.quiet cok, cc, pe.nodup h.nodup⟩
      intro x
      by_cases hx : x = a
      · subst hx
        cases hm : m x with
        | some e0 =>
          rw [specPut_self_some hm]
          exact ⟨fun e he => (by cases he; exact pe.frame x e0 ((h.ref x).1 e0 hm)), fun hh => (by cases hh)⟩
        | none =>
          rw [specPut_self_none hm]
          refine ⟨fun e he => ?_, fun hh => (by cases hh)⟩
          have hed : e = d := (Option.some.inj he).symm
          rw [hed]
          obtain ⟨e', he', hf⟩ := pok cok
          have hfd : e' = d := hf h.quiet ((h.ref x).2 hm)
          rw [hfd] at he'; exact he'
      · rw [specPut_other hx]
        exact ⟨fun e he => pe.frame x e ((h.ref x).1 e he),
               fun hn => (by rw [pe.other x (by simpa using hx)]; exact (h.ref x).2 hn)⟩
  | batch items =>
    simp only [implStep, specStep]
    have hv' : ∀ it ∈ items, IdOK it.1 ∧ (it.2 ≠ [] → ValidData it.2 ∧ PAny it.1 it.2) :=
      fun it hit => ⟨(hv it hit).1, fun hne => ⟨(hv it hit).2 hne, trivial⟩⟩
    obtain ⟨bs, be, bq, bok⟩ := putBatch_spec (P := PAny) cfg hg noFault k items h.sinv hv'
    have cok : (putBatch cfg noFault k items).2 = .ok ∧ Clean noFault (putBatch cfg noFault k items).1 := by
      unfold putBatch
      simp only [hg, Bool.false_eq_true, if_false]
      have := writeBatch_clean h.clean cfg (items.filter (fun p => p.2 ≠ []))
      simp only [this.1, if_true]
      exact ⟨trivial, this.2⟩
    refine ⟨?_, bs, bq h.quiet, cok.2, be.nodup h.nodup⟩
    intro x
    rw [fold_specPut]
    cases hm : m x with
    | some e0 =>
      simp only [Option.some_or]
      exact ⟨fun e he => (by cases he; exact be.frame x e0 ((h.ref x).1 e0 hm)), fun hh => (by cases hh)⟩
    | none =>
      simp only [Option.none_or]
      have hr := (h.ref x).2 hm
      refine ⟨fun e he => ?_, fun hn => (by rw [be.other x (lookup_none_not_mem hn)]; exact hr)⟩
      obtain ⟨e', he', hf'⟩ := bok cok.1 (x, e) (lookup_some_mem he)
      have := hf' hr
      rw [he] at this
      cases this
      exact he'
  | del a =>
    simp only [implStep, specStep]
    obtain ⟨dk, di, dfr, doth, _, dp⟩ := delete_spec (P := PAny) noFault k a h.sinv.kinv
    obtain ⟨dn, dc, _⟩ := delete_clean h.clean a
    refine ⟨?_, delete_sinv noFault k a h.sinv, fun b hb => h.quiet b (by rw [← dp.2.2.1]; exact hb), dc, ?_⟩
    · intro x
      by_cases hx : x = a
      · subst hx; simp only [if_true]; exact ⟨fun _ hh => (by cases hh), fun _ => dn⟩
      · simp only [hx, if_false]
        exact ⟨fun e he => dfr x e hx ((h.ref x).1 e he), fun hn => (by rw [doth x hx]; exact (h.ref x).2 hn)⟩
    · -- names stay distinct
      unfold delete
      cases hl : k.dir.lookup a with
      | none => exact h.nodup
      | some i =>
        simp only
        unfold sysUnlink
        rw [faultAt_clean h.clean]
        simp only [eraseKey]
        exact (List.Sublist.map _ List.filter_sublist).nodup h.nodup

/-- REFINEMENT.  For every history of valid operations on the O_TMPFILE writer, starting from the empty tree, the
disk state represents exactly the abstract map obtained by applying the same operations to the empty map. -/
theorem refines_map (cfg : Cfg) (hc : cfg.Fixed) (hg : cfg.generic = false) (ops : List Op) (hv : ∀ op ∈ ops, ValidOp op) :
    Rel (ops.foldl (implStep cfg) {}) (ops.foldl specStep (fun _ => none)) := by
  have init : Rel ({} : K) (fun _ => none) :=
    ⟨fun _ => ⟨fun _ h => (by cases h), fun _ => rfl⟩, ⟨fun _ _ h => (by cases h), fun _ h => (by cases h), rfl, rfl⟩, fun _ h => (by cases h),
     ⟨rfl, fun _ _ => rfl⟩, (by simp)⟩
  suffices ∀ (k : K) (m : Spec), Rel k m → Rel (ops.foldl (implStep cfg) k) (ops.foldl specStep m) from this _ _ init
  induction ops with
  | nil => intro k m h; exact h
  | cons op rest ih =>
    intro k m h
    rw [List.foldl_cons, List.foldl_cons]
    exact ih (fun o ho => hv o (by simp [ho])) _ _ (rel_step cfg hc hg k m op (hv op (by simp)) h)

/-- READS.  In a state that represents `m`, every reader returns exactly what the map says: `Get`/`GetBytes` and
`GetStream`/`Head` return the stored bytes (decompressed) for a stored address and not-found otherwise, for every
header buffer length; `Exists` is membership. -/
theorem reads_follow_map (cfg : Cfg) (hc : cfg.Fixed) (dec : Bytes → Option Bytes) (k : K) (m : Spec)
    (h : Rel k m) (a : Nat) :
    get dec k a = (match m a with | some d => decompress dec d | none => .error .notFound) ∧
    getStream cfg dec k a = (match m a with | some d => decompress dec d | none => .error .notFound) ∧
    «exists» k a = (m a).isSome := by
  cases hm : m a with
  | none =>
    have hr := (h.ref a).2 hm
    simp only [get, rawGet, getStream, fileOf, «exists», hr, Option.map_none, Option.isSome_none]
    refine ⟨?_, ?_, ?_⟩ <;> first | rfl | trivial
  | some d =>
    obtain ⟨i, hl, hh⟩ := (h.ref a).1 d hm
    have ha := (h.sinv.kinv a i hl).1
    have rd := holds_read _ a d ha hh cfg.bufLen
    simp only [get, rawGet, getStream, fileOf, «exists», hl, Option.map_some, Option.isSome_some, hc.2.2]
    rw [rd.1, rd.2]
    refine ⟨?_, ?_, ?_⟩ <;> first | rfl | trivial

theorem decompress_ne_notFound (dec : Bytes → Option Bytes) (d : Bytes) : decompress dec d ≠ .error .notFound := by
  unfold decompress
  split
  · split <;> simp
  · simp

/-- ITERATION.  `Iterate` lists exactly the stored addresses, each once, each with its stored bytes (decompressed). -/
theorem iterate_each_once (dec : Bytes → Option Bytes) (k : K) (m : Spec) (h : Rel k m) :
    ((iterate dec k).map (·.1)).Nodup ∧
    (∀ a, a ∈ (iterate dec k).map (·.1) ↔ (m a).isSome = true) ∧
    (∀ a r, (a, r) ∈ iterate dec k → ∃ d, m a = some d ∧ r = decompress dec d) := by
  -- every name is a stored address and reads as its stored bytes
  have key : ∀ p ∈ k.dir, ∃ d, m p.1 = some d ∧ get dec k p.1 = decompress dec d := by
    intro p hp
    have hl := lookup_of_mem_nodup h.nodup (x := p.1) (e := p.2) hp
    cases hm : m p.1 with
    | none => rw [(h.ref p.1).2 hm] at hl; cases hl
    | some d =>
      obtain ⟨i, hl', hh⟩ := (h.ref p.1).1 d hm
      have ha := (h.sinv.kinv p.1 i hl').1
      have rd := holds_read _ p.1 d ha hh 0
      refine ⟨d, rfl, ?_⟩
      simp only [get, rawGet, fileOf, hl', Option.map_some]
      rw [rd.1]; rfl
  -- so nothing is filtered out
  have keep : iterate dec k = k.dir.map (fun p => (p.1, get dec k p.1)) := by
    unfold iterate
    apply List.filter_eq_self.mpr
    intro q hq
    obtain ⟨p, hp, rfl⟩ := List.mem_map.mp hq
    obtain ⟨d, _, hg⟩ := key p hp
    simp only [hg]
    cases hdc : decompress dec d with
    | ok v => rfl
    | error e =>
      cases e with
      | notFound => exact absurd hdc (decompress_ne_notFound dec d)
      | _ => rfl
  have keys : (iterate dec k).map (·.1) = k.dir.map (·.1) := by
    rw [keep, List.map_map]; rfl
  refine ⟨by rw [keys]; exact h.nodup, ?_, ?_⟩
  · intro a
    rw [keys]
    constructor
    · intro ha
      obtain ⟨p, hp, rfl⟩ := List.mem_map.mp ha
      obtain ⟨d, hd, _⟩ := key p hp
      rw [hd]; rfl
    · intro ha
      cases hm : m a with
      | none => rw [hm] at ha; cases ha
      | some d =>
        obtain ⟨i, hl, _⟩ := (h.ref a).1 d hm
        exact List.mem_map.mpr ⟨(a, i), lookup_some_mem hl, rfl⟩
  · intro a r har
    rw [keep] at har
    obtain ⟨p, hp, heq⟩ := List.mem_map.mp har
    cases heq
    exact key p hp

/-- KEY LEMMA restated: the combined-file record encoding round-trips for every payload and every position — a member
of a well-formed combined file, followed by anything, is found by both readers with exactly its bytes. -/
theorem combined_scan_finds_member (a : Nat) (ha : IdOK a) (rs : List (Nat × Bytes)) (junk : Bytes) (hrs : RecsOK rs)
    (d : Bytes) (h : rs.lookup a = some d) (bufLen : Nat) :
    extractRaw a (encodeRecs rs ++ junk) = .ok d ∧ streamRaw true bufLen a (encodeRecs rs ++ junk) = .ok d :=
  ⟨extractRaw_recs a ha rs junk hrs d h, streamRaw_recs bufLen a ha rs junk hrs d h⟩

/-- removing one name of a combined file leaves the other members readable -/
theorem delete_member_keeps_others (k : K) (m : Spec) (h : Rel k m) (a x : Nat) (hx : x ≠ a) (d : Bytes)
    (hm : m x = some d) : ReadsK (delete noFault k a).1.inodes (delete noFault k a).1.dir x d :=
  (delete_spec (P := PAny) noFault k a h.sinv.kinv).2.2.1 x d hx ((h.ref x).1 d hm)

/-- the repaired defect: before the repair, a member exactly `bufLen` bytes long was streamed together with
the records that follow it (here `bufLen = 2`) -/
theorem stream_tail_before_fix :
    streamRaw false 2 1 (encodeRecs [(1, [10, 11]), (2, [12])]) = .ok ([10, 11] ++ record 2 [12]) ∧
    streamRaw true 2 1 (encodeRecs [(1, [10, 11]), (2, [12])]) = .ok [10, 11] := by
  constructor <;> rfl

/-- non-vacuity: a concrete history (batch of two, a put on an existing address, a delete) is valid and its final
map has a stored and a deleted address -/
example : (∀ op ∈ [Op.batch [(1, [10, 11]), (2, [12])], Op.put 1 [13], Op.del 2], ValidOp op) ∧
    ([Op.batch [(1, [10, 11]), (2, [12])], Op.put 1 [13], Op.del 2].foldl specStep (fun _ => none)) 1 = some [10, 11] ∧
    ([Op.batch [(1, [10, 11]), (2, [12])], Op.put 1 [13], Op.del 2].foldl specStep (fun _ => none)) 2 = none := by
  refine ⟨?_, by decide, by decide⟩
  intro op hop
  simp at hop
  rcases hop with rfl | rfl | rfl
  · intro it hit
    simp at hit
    rcases hit with rfl | rfl <;>
      exact ⟨by unfold IdOK; omega, fun _ => ⟨⟨by simp, by simp⟩, Or.inl (by simp [dataOff])⟩⟩
  · exact ⟨by unfold IdOK; omega, fun _ => ⟨⟨by simp, by simp⟩, Or.inl (by simp [dataOff])⟩⟩
  · trivial

end NeoFS.FSTree
