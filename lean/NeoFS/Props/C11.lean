import NeoFS.Model.Range
import NeoFS.Spec.Range
import Mathlib.Tactic.SplitIfs
/-!
# C11 — payload range reads return exactly the requested bytes or out-of-range

`Gen.resolve` is regenerated from `PayloadRange.Resolve` on every run; the theorems below are therefore
re-proved against the code's current expression tree.  All quantifiers are over every 64-bit value.
-/
namespace NeoFS.Range
open NeoFS.Spec
namespace Model
export NeoFS.Range (shiftStream limited readRange readParts)
end Model

def u64 (x : Nat) : Prop := x < 18446744073709551616

/-- `Resolve` returns exactly the slice the request denotes, and out-of-range exactly when the slice is
unsatisfiable — for all payload lengths and all range values below 2^64, including `off+ln` overflow. -/
theorem resolve_spec (mode first second n : Nat) (hm : mode ≤ 4)
    (h1 : u64 first) (h2 : u64 second) (h3 : u64 n) :
    Gen.resolve first mode second n =
      match rangeSlice mode first second n with
      | some (o, l) => .ok ((o : Int), (l : Int))
      | none => .error "ErrObjectOutOfRange" := by
  unfold u64 at *
  have hm' : mode = 0 ∨ mode = 1 ∨ mode = 2 ∨ mode = 3 ∨ mode = 4 := by omega
  rcases hm' with rfl | rfl | rfl | rfl | rfl
  all_goals
    simp only [Gen.resolve, rangeSlice, decide_eq_true_eq, Bool.and_eq_true, Bool.or_eq_true, ne_eq, ge_iff_le, gt_iff_lt]
    split_ifs <;> simp_all <;> omega

/-- A satisfiable request always denotes a slice inside the payload. -/
theorem slice_in_bounds (mode first second n o l : Nat)
    (h : rangeSlice mode first second n = some (o, l)) : o + l ≤ n := by
  unfold rangeSlice at h
  split at h <;> (try split_ifs at h) <;> (try simp_all) <;> (try omega)

/-- A satisfiable request has length zero only for the empty payload. -/
theorem slice_zero_len (mode first second n o : Nat)
    (h : rangeSlice mode first second n = some (o, 0)) : n = 0 ∧ o = 0 := by
  unfold rangeSlice at h
  split at h <;> (try split_ifs at h) <;> (try simp_all) <;> (try omega)

/-- `IsFull` holds only for requests that denote the whole payload, whatever its length. -/
theorem isFull_whole (mode first second n : Nat) (h : Gen.isFull first mode second = true) :
    rangeSlice mode first second n = some (0, n) := by
  simp only [Gen.isFull, decide_eq_true_eq] at h
  split_ifs at h with h1 h2 <;> simp only [Bool.and_eq_true, decide_eq_true_eq] at h
  · have : mode = 1 := by omega
    subst this
    have e1 : first = 0 := by omega
    have e2 : second = 0 := by omega
    simp [rangeSlice, e1, e2]
  · have : mode = 3 := by omega
    subst this
    have e1 : first = 0 := by omega
    simp [rangeSlice, e1]

theorem checkTooBig_ok (off ln : Nat) (h1 : off ≤ 9223372036854775807) (h2 : ln ≤ 9223372036854775807) :
    Gen.checkTooBigRange off ln = .ok () := by
  simp only [Gen.checkTooBigRange, decide_eq_true_eq, Bool.or_eq_true, gt_iff_lt]
  split_ifs with h
  · omega
  · rfl

/-- The reader returned by `shiftPayloadRangeStream` yields exactly `payload[off, off+ln)`, for every
split of the payload between the header buffer and the file stream. -/
theorem shift_stream_spec (pre rest : List Nat) (hasStream : Bool) (off ln : Nat)
    (hin : off + ln ≤ (pre ++ rest).length) (hz : ln = 0 → off = 0)
    (hs : hasStream = false → rest = [])
    (hbig : (pre ++ rest).length ≤ 9223372036854775807) :
    Model.shiftStream pre rest hasStream off ln =
      .ok (sliceBytes (pre ++ rest) off (if ln = 0 then (pre ++ rest).length else ln)) := by
  have hlen : (pre ++ rest).length = pre.length + rest.length := List.length_append
  have hck := checkTooBig_ok off ln (by omega) (by omega)
  unfold Model.shiftStream sliceBytes Model.limited
  cases hasStream with
  | false =>
    have hr := hs rfl
    subst hr
    simp only [Bool.not_false, List.length_nil, ne_eq, not_true_eq_false, decide_false, Bool.and_false,
      Bool.false_eq_true, if_false, List.append_nil] at *
    by_cases h0 : off = 0
    · subst h0
      by_cases hl : ln = 0
      · simp [hl]
      · simp only [hl, if_false, List.drop_zero]
        have : ln ≤ pre.length := by omega
        simp [this]
    · have hl : ln ≠ 0 := fun e => h0 (hz e)
      simp [h0, hl]
  | true =>
    simp only [Bool.not_true, Bool.false_and, Bool.false_eq_true, if_false]
    rw [hck]
    by_cases h0 : off = 0
    · subst h0
      simp only [if_true, List.drop_zero]
      by_cases hl : ln = 0
      · simp only [hl, if_true]
        rw [List.take_length]
      · simp only [hl, if_false]
        by_cases hp : ln ≤ pre.length
        · simp [hp, List.take_append_of_le_length hp]
        · simp only [hp, if_false]
          by_cases he : pre.length = 0
          · have : pre = [] := List.eq_nil_of_length_eq_zero he
            subst this; simp
          · simp only [he, if_false]
            rw [List.take_append]
            have : List.take ln pre = pre := List.take_of_length_le (by omega)
            rw [this]
    · have hl : ln ≠ 0 := fun e => h0 (hz e)
      simp only [h0, hl, if_false, ge_iff_le]
      by_cases hp : pre.length ≤ off
      · simp only [hp, if_true]
        rw [List.drop_append]
        have : List.drop off pre = [] := List.drop_of_length_le hp
        rw [this]; simp
      · simp only [hp, if_false]
        have hd : List.drop off (pre ++ rest) = List.drop off pre ++ rest := by
          rw [List.drop_append]
          have : off - pre.length = 0 := by omega
          rw [this]; simp
        rw [hd]
        by_cases hq : ln ≤ (List.drop off pre).length
        · rw [if_pos hq, List.take_append_of_le_length hq]
        · simp only [hq, if_false]
          rw [List.take_append]
          have : List.take ln (List.drop off pre) = List.drop off pre := List.take_of_length_le (by omega)
          rw [this]

/-- Range reads return exactly the bytes of the denoted slice, or out-of-range exactly when the slice is
unsatisfiable: for every payload (below 2^63 bytes), every buffering split and every request. -/
theorem read_spec (payload : List Nat) (split mode first second : Nat) (hm : mode ≤ 4)
    (h1 : u64 first) (h2 : u64 second) (hn : payload.length ≤ 9223372036854775807) :
    Model.readRange payload split mode first second =
      match rangeSlice mode first second payload.length with
      | some (o, l) => .ok (sliceBytes payload o l)
      | none => .error "ErrObjectOutOfRange" := by
  unfold Model.readRange
  rw [resolve_spec mode first second payload.length hm h1 h2 (by unfold u64; omega)]
  cases hsl : rangeSlice mode first second payload.length with
  | none => rfl
  | some p =>
    obtain ⟨o, l⟩ := p
    have hb := slice_in_bounds _ _ _ _ _ _ hsl
    simp only [Int.toNat_natCast]
    have hcat : List.take split payload ++ List.drop split payload = payload := List.take_append_drop _ _
    rw [shift_stream_spec _ _ true o l (by rw [hcat]; exact hb)
      (by intro e; subst e; exact (slice_zero_len _ _ _ _ _ hsl).2) (by simp) (by rw [hcat]; exact hn)]
    rw [hcat]
    by_cases hl : l = 0
    · subst hl
      obtain ⟨e1, e2⟩ := slice_zero_len _ _ _ _ _ hsl
      simp [e1]
    · simp [hl]

/-- `ReadObjectParts` and the range-stream readers give the same answer for every request. -/
theorem readers_agree (payload : List Nat) (split mode first second : Nat) (hm : mode ≤ 4)
    (h1 : u64 first) (h2 : u64 second) (hn : payload.length ≤ 9223372036854775807) :
    Model.readParts payload split mode first second = Model.readRange payload split mode first second := by
  rw [read_spec payload split mode first second hm h1 h2 hn]
  unfold Model.readParts
  by_cases hw : (mode = 0 || Gen.isFull first mode second) = true
  · have hsl : rangeSlice mode first second payload.length = some (0, payload.length) := by
      simp only [Bool.or_eq_true, decide_eq_true_eq] at hw
      rcases hw with rfl | hf
      · rfl
      · exact isFull_whole _ _ _ _ hf
    simp only [hw, if_true, hsl, sliceBytes, List.drop_zero, List.take_length]
  · simp only [hw, if_false, Bool.false_eq_true]
    exact read_spec payload split mode first second hm h1 h2 hn

/-- Non-vacuity: concrete satisfiable and unsatisfiable requests. -/
example : rangeSlice 2 3 100 10 = some (3, 7) ∧ rangeSlice 1 8 3 10 = none ∧
    rangeSlice 1 18446744073709551615 2 10 = none := by decide

end NeoFS.Range
