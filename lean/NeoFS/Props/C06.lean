import NeoFS.Lemmas.Listing
import NeoFS.Lemmas.ListMerge
import NeoFS.Spec.MetaRef
import NeoFS.Props.C01
/-!
# C06 — cursor listing yields each available physical object exactly once

Shard level (`DB.ListWithCursor` = `Shard.ListWithCursor`): for every reachable metabase, every starting cursor
(also one naming a container or object that does not exist) and every sequence of page sizes, the pages are
consecutive segments of ONE strictly ascending list — the physical objects of live containers that are not
marked for removal, after the cursor — and end-of-listing is reported exactly when that list is exhausted.

Engine level (`StorageEngine.ListWithCursor`): over any shards in any visiting order one page is strictly
ascending (each address once), has at most `count` items, records for every item exactly the shards that can
list it, skips nothing (whatever a shard could list after the cursor is in the page or lies after a full
page's last item), and pages chained through the returned cursor never repeat or lose an address.
-/
namespace NeoFS.Meta
open NeoFS.Meta.Ref

/-! ## shard level -/

def DBSorted (db : DB) : Prop := db.Pairwise fun a b => a.1 < b.1

/-- everything listing may return, in address order -/
def dbListable (db : DB) : List (Nat × Nat) := db.flatMap fun b => if b.1 == 0 then [] else bucketAddrs b 0

/-- … after a cursor position -/
def dbAfter (db : DB) (cur : Nat × Nat) : List (Nat × Nat) := (dbListable db).filter (addrLt cur)

theorem setCnr_sorted (db : DB) (h : DBSorted db) (cn : Nat) (v : Cnr) : DBSorted (setCnr db cn v) := by
  induction db with
  | nil => simp [setCnr, DBSorted]
  | cons x xs ih =>
    unfold DBSorted at h ih ⊢
    rw [List.pairwise_cons] at h
    unfold setCnr
    split
    · rename_i hlt
      rw [List.pairwise_cons]
      refine ⟨?_, List.pairwise_cons.mpr h⟩
      intro y hy
      simp at hy
      rcases hy with rfl | hy
      · exact hlt
      · exact Nat.lt_trans hlt (h.1 y hy)
    · split
      · rename_i heq
        rw [List.pairwise_cons]
        exact ⟨fun y hy => by simp only; rw [heq]; exact h.1 y hy, h.2⟩
      · rw [List.pairwise_cons]
        refine ⟨?_, ih h.2⟩
        intro y hy
        rcases setCnr_mem xs cn v y hy with rfl | hm
        · simp only; omega
        · exact h.1 y hm

theorem dbSyncCounters_sorted (db : DB) (h : DBSorted db) : DBSorted (dbSyncCounters db) := by
  unfold DBSorted dbSyncCounters at *
  rw [List.pairwise_map]
  exact h

theorem step_sorted (s : St) (op : Op) (h : DBSorted s.db) : DBSorted (step s op).db := by
  cases op with
  | setEpoch e => exact h
  | put cn chain =>
    simp only [step]; unfold dbPut
    dsimp only
    generalize putChain _ _ _ _ = r
    obtain ⟨c', d, e⟩ := r
    dsimp only
    split
    · exact setCnr_sorted _ h _ _
    · exact h
  | mark cn ids r =>
    simp only [step]; unfold dbMarkGarbage
    split
    · exact h
    · split
      · exact h
      · dsimp only
        generalize Cnr.markGarbageIn _ _ _ _ = r
        obtain ⟨c', n, p⟩ := r
        exact setCnr_sorted _ h _ _
  | inhumeCnr cn => simp only [step]; unfold dbInhumeContainer; exact setCnr_sorted _ h _ _
  | deleteCnr cn => simp only [step]; unfold dbDeleteContainer; exact List.Pairwise.filter _ h
  | delete cn ids =>
    simp only [step]; unfold dbDelete
    split
    · exact h
    · dsimp only
      generalize List.foldl _ _ _ = r
      obtain ⟨c', d⟩ := r
      exact setCnr_sorted _ h _ _
  | revive cn id =>
    simp only [step]; unfold dbRevive
    split
    · exact h
    · split
      · exact h
      · split
        · exact setCnr_sorted _ h _ _
        · exact h
  | syncCounters => simp only [step]; exact dbSyncCounters_sorted _ h

/-- every reachable metabase keeps its buckets in container order -/
theorem run_sorted (ops : List Op) : DBSorted (run ops).db := by
  suffices H : ∀ (ops : List Op) (s : St), DBSorted s.db → DBSorted (ops.foldl step s).db from
    H ops {} List.Pairwise.nil
  intro ops
  induction ops with
  | nil => intro s h; exact h
  | cons o os ih => intro s h; exact ih _ (step_sorted s o h)

theorem mem_bucketAddrs (b : Nat × Cnr) (after : Nat) (a : Nat × Nat) (h : a ∈ bucketAddrs b after) : a.1 = b.1 := by
  unfold bucketAddrs at h
  rw [List.mem_map] at h
  obtain ⟨i, _, rfl⟩ := h
  rfl

/-- the buckets the loop visits yield exactly the listable addresses after the cursor -/
theorem afterAddrs_eq_dbAfter (cur : Nat × Nat) (db : DB) :
    afterAddrs cur (db.filter fun b => b.1 ≥ cur.1 && b.1 != 0) = dbAfter db cur := by
  unfold dbAfter dbListable
  induction db with
  | nil => rfl
  | cons b bs ih =>
    rw [List.flatMap_cons, List.filter_append, ← ih]
    by_cases h0 : b.1 = 0
    · have : (b.1 ≥ cur.1 && b.1 != 0) = false := by simp [h0]
      rw [List.filter_cons_of_neg (by simp [this])]
      simp [h0]
    · have hne : (b.1 == 0) = false := by simp [h0]
      simp only [hne, Bool.false_eq_true, if_false]
      by_cases hlt : b.1 < cur.1
      · have : (b.1 ≥ cur.1 && b.1 != 0) = false := by simp; omega
        rw [List.filter_cons_of_neg (by simp [this]), filter_bucketAddrs_none b 0 cur hlt]
        rfl
      · have : (b.1 ≥ cur.1 && b.1 != 0) = true := by simp; omega
        rw [List.filter_cons]
        simp only [this, if_true]
        unfold afterAddrs
        rw [List.flatMap_cons]
        congr 1
        by_cases heq : b.1 = cur.1
        · have e : (b.1 != cur.1) = false := by simp [heq]
          simp only [e, Bool.false_eq_true, if_false]
          exact (filter_bucketAddrs b 0 cur heq.symm (Nat.zero_le _)).symm
        · have e : (b.1 != cur.1) = true := by simp [heq]
          simp only [e, if_true]
          symm
          rw [List.filter_eq_self]
          intro a ha
          have := mem_bucketAddrs b 0 a ha
          unfold addrLt; simp; omega

theorem filter_filter_of_imp {α} (p q : α → Bool) (l : List α) (h : ∀ a, p a = true → q a = true) :
    (l.filter q).filter p = l.filter p := by
  rw [List.filter_filter]
  apply List.filter_congr
  intro a _
  cases hp : p a with
  | true => simp [h a hp]
  | false => simp

/-- **One page** of `DB.ListWithCursor(count, cursor)`, `count ≥ 1`, on a well-formed metabase: the page is
the next `count` listable addresses after the cursor; end-of-listing is answered iff nothing is left after the
cursor; otherwise the new cursor `k` is a position after which exactly the not yet returned addresses lie. -/
theorem dbList_page (db : DB) (hs : DBSorted db) (hwf : DBWF db) (count : Nat) (hc : 0 < count)
    (cursor : Option (Nat × Nat)) :
    (dbList db count cursor).1 = (dbAfter db (cursor.getD (0, 0))).take count ∧
    (match (dbList db count cursor).2 with
      | none => dbAfter db (cursor.getD (0, 0)) = []
      | some k => dbAfter db (cursor.getD (0, 0)) ≠ [] ∧
          dbAfter db k = (dbAfter db (cursor.getD (0, 0))).drop count) := by
  generalize hcur : cursor.getD (0, 0) = cur
  have hbs : (db.filter fun b => b.1 ≥ cur.1 && b.1 != 0).Pairwise (fun a b => a.1 < b.1) := List.Pairwise.filter _ hs
  obtain ⟨r1, r2, r3⟩ := foldl_dbListStep_spec count (db.filter fun b => b.1 ≥ cur.1 && b.1 != 0) [] cur hbs
    (fun b hb => by rw [List.mem_filter] at hb; simp at hb; exact hb.2.1)
    (fun b hb => hwf b (List.mem_filter.mp hb).1) hc
  rw [afterAddrs_eq_dbAfter] at r1 r3
  simp only [List.nil_append, List.length_nil, Nat.sub_zero] at r1 r3
  unfold dbList
  simp only [hcur]
  by_cases hempty : (dbAfter db cur).take count = []
  · have hall : dbAfter db cur = [] := by
      cases hl : dbAfter db cur with
      | nil => rfl
      | cons a as => rw [hl] at hempty; cases count with
        | zero => omega
        | succ n => simp at hempty
    rw [r1, hempty]
    simp [hall]
  · have hne : dbAfter db cur ≠ [] := fun h => hempty (by rw [h]; simp)
    have hres : ((db.filter fun b => b.1 ≥ cur.1 && b.1 != 0).foldl (dbListStep count) ([], cur, false)).1.isEmpty = false := by
      rw [r1]; cases h : (dbAfter db cur).take count with
      | nil => exact absurd h hempty
      | cons _ _ => rfl
    simp only [hres, Bool.false_eq_true, if_false]
    refine ⟨r1, hne, ?_⟩
    rw [← r3]
    unfold dbAfter
    exact (filter_filter_of_imp _ _ _ r2).symm

/-- `count = 0` answers end-of-listing -/
theorem dbList_zero (db : DB) (cursor : Option (Nat × Nat)) : dbList db 0 cursor = ([], none) := by
  unfold dbList
  have : ∀ (bs : List (Nat × Cnr)) (cur : Nat × Nat) (stop : Bool),
      (bs.foldl (dbListStep 0) ([], cur, stop)).1 = [] := by
    intro bs
    induction bs with
    | nil => intro _ _; rfl
    | cons b bs ih =>
      intro cur stop
      simp only [List.foldl_cons]
      cases stop with
      | true => unfold dbListStep; simp only [if_true]; exact ih cur true
      | false =>
        have : dbListStep 0 ([], cur, false) b = ([], (b.1, (b.2.listPage (if b.1 != cur.1 then 0 else cur.2) 0 []).2), true) := by
          unfold dbListStep
          simp only [Bool.false_eq_true, if_false, List.length_nil, Nat.sub_zero, List.nil_append]
          have hp : (b.2.listPage (if b.1 != cur.1 then 0 else cur.2) 0 []).1 = [] := by
            unfold Cnr.listPage
            split
            · rfl
            · rw [listScan_stop _ 0 _ [] _ (Nat.zero_le _)]
          rw [hp]; simp
        rw [this]
        exact ih _ true
  simp [this]

/-! ### all pages -/

/-- follow the cursor through pages of the given sizes; `true` = end-of-listing was answered -/
def pages (db : DB) : List Nat → Option (Nat × Nat) → List (Nat × Nat) × Bool
  | [], _ => ([], false)
  | n :: ns, cur =>
    match dbList db n cur with
    | (_, none) => ([], true)
    | (p, some k) => let r := pages db ns (some k); (p ++ r.1, r.2)

/-- **All pages, any page sizes, any starting cursor.** The concatenated pages are the first `Σ sizes`
listable addresses after the cursor (consecutive segments of one list: nothing repeated, nothing skipped);
end-of-listing is answered only when everything after the cursor has been returned, and it IS answered once
there are more pages than addresses left. -/
theorem pages_exact (db : DB) (hs : DBSorted db) (hwf : DBWF db) :
    ∀ (counts : List Nat) (cursor : Option (Nat × Nat)), (∀ n ∈ counts, 0 < n) →
    (pages db counts cursor).1 = (dbAfter db (cursor.getD (0, 0))).take counts.sum ∧
    ((pages db counts cursor).2 = true → (pages db counts cursor).1 = dbAfter db (cursor.getD (0, 0))) ∧
    ((dbAfter db (cursor.getD (0, 0))).length < counts.length → (pages db counts cursor).2 = true) := by
  intro counts
  induction counts with
  | nil => intro cursor _; simp [pages]
  | cons n ns ih =>
    intro cursor hpos
    obtain ⟨p1, p2⟩ := dbList_page db hs hwf n (hpos n (by simp)) cursor
    unfold pages
    cases hk : (dbList db n cursor).2 with
    | none =>
      rw [hk] at p2
      simp only at p2
      have : dbList db n cursor = ((dbList db n cursor).1, none) := by rw [← hk]
      rw [this]
      simp [p2]
    | some k =>
      rw [hk] at p2
      simp only at p2
      have : dbList db n cursor = ((dbList db n cursor).1, some k) := by rw [← hk]
      rw [this]
      simp only
      obtain ⟨q1, q2, q3⟩ := ih (some k) (fun m hm => hpos m (by simp [hm]))
      simp only [Option.getD_some] at q1 q2 q3
      rw [p2.2] at q1 q2 q3
      refine ⟨?_, ?_, ?_⟩
      · rw [q1, p1, List.sum_cons, List.take_add]
      · intro he
        rw [q2 he, p1, List.take_append_drop]
      · intro hl
        apply q3
        have hn := hpos n (by simp)
        have hL : 0 < (dbAfter db (cursor.getD (0, 0))).length := List.length_pos_iff.mpr p2.1
        rw [List.length_drop]
        simp only [List.length_cons] at hl
        omega

/-- the listable addresses are strictly ascending, hence each appears once -/
theorem dbListable_sorted (db : DB) (hs : DBSorted db) (hwf : DBWF db) :
    (dbListable db).Pairwise fun a b => addrLt a b = true := by
  unfold dbListable
  induction db with
  | nil => simp
  | cons b bs ih =>
    unfold DBSorted at hs
    rw [List.pairwise_cons] at hs
    rw [List.flatMap_cons, List.pairwise_append]
    refine ⟨?_, ih hs.2 (fun x hx => hwf x (by simp [hx])), ?_⟩
    · split
      · simp
      · unfold bucketAddrs
        rw [List.pairwise_map]
        have hsorted : (b.2.listableFrom 0).Pairwise (· < ·) := by
          unfold Cnr.listableFrom
          split
          · simp
          · exact List.Pairwise.filter _ (List.pairwise_cons.mp (listCands_sorted b.2 (hwf b (by simp)) 0)).2
        exact hsorted.imp (fun h => by unfold addrLt; simp [h])
    · intro a ha c hc
      have ha1 : a.1 = b.1 := by
        split at ha
        · simp at ha
        · exact mem_bucketAddrs b 0 a ha
      rw [List.mem_flatMap] at hc
      obtain ⟨x, hx, hc⟩ := hc
      have hc1 : c.1 = x.1 := by
        split at hc
        · simp at hc
        · exact mem_bucketAddrs x 0 c hc
      have := hs.1 x hx
      unfold addrLt; simp; omega

/-- what listing may return is what the reference rules call "physical, in a live container, not marked for
removal" (ids are non-zero) -/
theorem listable_eq_reference (c : Cnr) (h : c.WF) :
    c.listableFrom 0 = ((liveObjects c).filter fun r => decide (r.id > 0)).map (·.id) := by
  unfold Cnr.listableFrom liveObjects
  by_cases hg : c.gcMark
  · simp [hg]
  · simp only [hg, Bool.false_eq_true, if_false]
    unfold Cnr.listCands
    rw [List.filter_map, List.filter_filter, List.filter_filter]
    congr 1
    apply List.filter_congr
    intro r _
    simp only [Function.comp, Cnr.showable]
    rw [inGarbage_ref c h]
    cases r.phy <;> cases tombstoned c r.id <;> cases marked c r.id <;> simp

/-- **After any history**: listing from the start with any page sizes returns, page after page, exactly the
reference list — physical, unmarked objects of live containers — each once, in order, then end-of-listing. -/
theorem shard_listing_exact (ops : List Op) (counts : List Nat) (hpos : ∀ n ∈ counts, 0 < n)
    (cursor : Option (Nat × Nat)) :
    let db := (run ops).db
    (pages db counts cursor).1 = (dbAfter db (cursor.getD (0, 0))).take counts.sum ∧
    ((pages db counts cursor).2 = true → (pages db counts cursor).1 = dbAfter db (cursor.getD (0, 0))) ∧
    ((dbAfter db (cursor.getD (0, 0))).length < counts.length → (pages db counts cursor).2 = true) ∧
    (dbListable db).Pairwise (fun a b => addrLt a b = true) :=
  have hs := run_sorted ops
  have hwf := run_wf ops
  let r := pages_exact (run ops).db hs hwf counts cursor hpos
  ⟨r.1, r.2.1, r.2.2, dbListable_sorted _ hs hwf⟩

/-- non-vacuity: two containers, a marked object on a page break, a removed container -/
example :
    let r (id : Nat) : Rec := ⟨id, .regular, true, true, 0, 0, 0, 0, 0, none, none⟩
    let db : DB := [(1, { recs := [r 1, r 2, r 3], garb := [(2, false)] }), (2, { recs := [r 4], gcMark := true }),
      (3, { recs := [r 5] })]
    dbListable db = [(1, 1), (1, 3), (3, 5)] ∧ (pages db [1, 1, 1, 1] none) = ([(1, 1), (1, 3), (3, 5)], true) ∧
    (pages db [2, 2] (some (1, 1))) = ([(1, 3), (3, 5)], true) := by decide

end NeoFS.Meta

/-! ## engine level -/

namespace NeoFS.EngList
open NeoFS.Meta

theorem lt_eq_addrLt : lt = addrLt := rfl

/-- the page shard `s` answers -/
def page (count : Nat) (cursor : Option Addr) (s : Nat × DB) : List Addr := (dbList s.2 count cursor).1

theorem mergeGo_nil_right (sh : Nat) : ∀ (n : Nat) (a : List Item), a.length ≤ n → mergeGo n a [] sh = a := by
  intro n
  induction n with
  | zero => intro a h; cases a with
    | nil => rfl
    | cons _ _ => simp at h
  | succ n ih => intro a h; cases a with
    | nil => rfl
    | cons x xs => simp only [mergeGo]; rw [ih xs (by simpa using h)]

theorem mergeGo_nil_left (sh : Nat) : ∀ (n : Nat) (b : List Addr),
    mergeGo n [] b sh = (b.take n).map fun y => ⟨y, [sh]⟩ := by
  intro n
  induction n with
  | zero => intro b; cases b <;> rfl
  | succ n ih => intro b; cases b with
    | nil => rfl
    | cons y ys => simp only [mergeGo, List.take_succ_cons, List.map_cons]; rw [ih ys]

/-- the engine's per-shard step is one run of the merge loop -/
theorem engStep_eq (count : Nat) (cursor : Option Addr) (acc : List Item) (s : Nat × DB) (h : acc.length ≤ count) :
    engStep count cursor acc s = mergeGo count acc (page count cursor s) s.1 := by
  unfold engStep page
  cases hp : (dbList s.2 count cursor).1 with
  | nil => simp only [List.isEmpty_nil, if_true]; rw [mergeGo_nil_right _ _ _ h]
  | cons y ys =>
    simp only [List.isEmpty_cons, Bool.false_eq_true, if_false]
    unfold mergeList
    cases acc with
    | nil => simp only [List.isEmpty_nil, if_true]; rw [mergeGo_nil_left]
    | cons _ _ => simp

/-- a full result whose items all lie before `x` stays full and before `x` after a merge -/
theorem full_stays_full {n : Nat} {a : List Item} {b : List Addr} {sh : Nat} {r : List Item}
    (m : MergeSpec n a b sh r) (ha : Sorted (keys a)) (hfull : a.length = n) (x : Addr)
    (hx : ∀ y ∈ keys a, lt y x = true) : r.length = n ∧ ∀ y ∈ keys r, lt y x = true := by
  have hnd : (keys a).Nodup := sorted_nodup _ ha
  have hlen : (keys a).length = n := by simp [keys, hfull]
  -- every old key survives unless the result is full of smaller keys
  have key : ∀ y ∈ keys r, lt y x = false → False := by
    intro y hy hyx
    -- all old keys are before y, so they all survive; together with y that is n+1 keys
    have hay : ∀ z ∈ keys a, lt z y = true := by
      intro z hz
      by_cases hxy : x = y
      · rw [← hxy]; exact hx z hz
      · exact lt_trans (hx z hz) (lt_total hyx (fun h => hxy h.symm))
    have hsub : ∀ z ∈ keys a, z ∈ keys r := by
      intro z hz
      rcases m.complete z (Or.inl hz) with h | ⟨_, h2⟩
      · exact h
      · have := h2 y hy
        rw [lt_asymm (hay z hz)] at this
        exact absurd this Bool.false_ne_true
    have hynot : y ∉ keys a := by
      intro h
      have := hay y h
      rw [lt_irrefl] at this
      exact Bool.false_ne_true this
    have hnd' : (y :: keys a).Nodup := List.nodup_cons.mpr ⟨hynot, hnd⟩
    have hss : (y :: keys a) ⊆ keys r := by
      intro z hz
      rw [List.mem_cons] at hz
      rcases hz with rfl | hz
      · exact hy
      · exact hsub z hz
    have := hnd'.length_le_of_subset hss
    have hl := m.len
    simp only [List.length_cons, keys, List.length_map] at this hlen
    omega
  refine ⟨?_, fun y hy => by
    cases h : lt y x with
    | true => rfl
    | false => exact (key y hy h).elim⟩
  -- the result is full: otherwise every old key is in it
  rcases Nat.lt_or_ge r.length n with hlt | hge
  · have hsub : keys a ⊆ keys r := by
      intro z hz
      rcases m.complete z (Or.inl hz) with h | ⟨h1, _⟩
      · exact h
      · omega
    have := hnd.length_le_of_subset hsub
    simp only [keys, List.length_map] at this
    omega
  · have := m.len; omega

/-- the engine's loop invariant over the shards visited so far -/
structure Inv (count : Nat) (cursor : Option Addr) (ss : List (Nat × DB)) (R : List Item) : Prop where
  len : R.length ≤ count
  sorted : Sorted (keys R)
  holders : ∀ it ∈ R, it.holders = (ss.filter fun s => decide (it.addr ∈ page count cursor s)).map (·.1)
  complete : ∀ s ∈ ss, ∀ x ∈ page count cursor s, x ∈ keys R ∨ (R.length = count ∧ ∀ y ∈ keys R, lt y x = true)
  src : ∀ y ∈ keys R, ∃ s ∈ ss, y ∈ page count cursor s

theorem inv_step (count : Nat) (cursor : Option Addr) (ss : List (Nat × DB)) (R : List Item) (s : Nat × DB)
    (inv : Inv count cursor ss R) (hp : Sorted (page count cursor s)) :
    Inv count cursor (ss ++ [s]) (engStep count cursor R s) := by
  rw [engStep_eq count cursor R s inv.len]
  have m := mergeGo_spec count R (page count cursor s) s.1 inv.sorted hp
  refine ⟨m.len, m.sorted, ?_, ?_, ?_⟩
  · intro it hit
    rw [List.filter_append, List.map_append]
    rcases m.holders it hit with ⟨i, hi, h1, h2⟩ | ⟨h1, h2, h3⟩
    · rw [h2, inv.holders i hi, h1]
      congr 1
      by_cases hm : it.addr ∈ page count cursor s <;> simp [hm]
    · -- a new address: no earlier shard's page has it
      have hnone : (ss.filter fun s0 => decide (it.addr ∈ page count cursor s0)) = [] := by
        rw [List.filter_eq_nil_iff]
        intro s0 hs0 hmem
        have hmem' : it.addr ∈ page count cursor s0 := by simpa using hmem
        rcases inv.complete s0 hs0 it.addr hmem' with h | ⟨hf, hall⟩
        · unfold keys at h
          rw [List.mem_map] at h
          obtain ⟨i, hi, hia⟩ := h
          exact h1 i hi hia
        · have := (full_stays_full m inv.sorted hf it.addr hall).2 it.addr (List.mem_map_of_mem hit)
          rw [lt_irrefl] at this
          exact Bool.false_ne_true this
      rw [hnone, h3]
      simp [h2]
  · intro s0 hs0 x hx
    rw [List.mem_append] at hs0
    rcases hs0 with hs0 | hs0
    · rcases inv.complete s0 hs0 x hx with h | ⟨hf, hall⟩
      · exact m.complete x (Or.inl h)
      · exact Or.inr (full_stays_full m inv.sorted hf x hall)
    · simp at hs0; subst hs0
      exact m.complete x (Or.inr hx)
  · intro y hy
    rcases m.src y hy with h | h
    · obtain ⟨s0, hs0, hy0⟩ := inv.src y h
      exact ⟨s0, List.mem_append_left _ hs0, hy0⟩
    · exact ⟨s, by simp, h⟩

theorem sorted_filter (l : List Addr) (p : Addr → Bool) (h : Sorted l) : Sorted (l.filter p) := List.Pairwise.filter _ h

theorem sorted_take (l : List Addr) (n : Nat) (h : Sorted l) : Sorted (l.take n) :=
  List.Pairwise.sublist (List.take_sublist n l) h

theorem take_lt_drop (l : List Addr) (n : Nat) (h : Sorted l) : ∀ y ∈ l.take n, ∀ x ∈ l.drop n, lt y x = true := by
  have : Sorted (l.take n ++ l.drop n) := by rw [List.take_append_drop]; exact h
  unfold Sorted at this
  rw [List.pairwise_append] at this
  exact this.2.2

theorem dbAfter_sorted (db : DB) (hs : DBSorted db) (hwf : DBWF db) (cur : Addr) : Sorted (dbAfter db cur) :=
  sorted_filter _ _ (dbListable_sorted db hs hwf)

theorem inv_fold (count : Nat) (cursor : Option Addr) (hc : 0 < count) :
    ∀ (todo ss : List (Nat × DB)) (R : List Item), Inv count cursor ss R →
    (∀ s ∈ todo, DBSorted s.2 ∧ DBWF s.2) →
    Inv count cursor (ss ++ todo) (todo.foldl (engStep count cursor) R) := by
  intro todo
  induction todo with
  | nil => intro ss R inv _; simpa using inv
  | cons s rest ih =>
    intro ss R inv hw
    simp only [List.foldl_cons]
    have hsw := hw s (by simp)
    have hp : Sorted (page count cursor s) := by
      unfold page
      rw [(dbList_page s.2 hsw.1 hsw.2 count hc cursor).1]
      exact sorted_take _ _ (dbAfter_sorted _ hsw.1 hsw.2 _)
    have := ih (ss ++ [s]) _ (inv_step count cursor ss R s inv hp) (fun x hx => hw x (by simp [hx]))
    simpa using this

theorem engList_fst (shards : List (Nat × DB)) (count : Nat) (cursor : Option Addr) :
    (engList shards count cursor).1 = shards.foldl (engStep count cursor) [] := by
  unfold engList
  dsimp only
  split
  · next h => exact (List.getLast?_eq_none_iff.mp h).symm
  · rfl

theorem engList_snd (shards : List (Nat × DB)) (count : Nat) (cursor : Option Addr) :
    (engList shards count cursor).2 = ((shards.foldl (engStep count cursor) []).getLast?).map (·.addr) := by
  unfold engList
  dsimp only
  split
  · next h => rw [h]; rfl
  · next l h => rw [h]; rfl

/-- **One engine page**, any shards in any visiting order, `count ≥ 1`, any cursor. With `cur` the cursor
position and `dbAfter s cur` what shard `s` can list after it:
* at most `count` items, strictly ascending (each address once);
* every item is listable on some shard, and its holders are exactly the shards that can list it, in visiting order;
* nothing is skipped: whatever a shard can list after the cursor is in the page, or the page is full and ends before it;
* end-of-listing (`none`) iff no shard can list anything after the cursor; otherwise the new cursor is the last item. -/
theorem engine_page (shards : List (Nat × DB)) (hw : ∀ s ∈ shards, DBSorted s.2 ∧ DBWF s.2)
    (count : Nat) (hc : 0 < count) (cursor : Option Addr) :
    let cur := cursor.getD (0, 0)
    let R := (engList shards count cursor).1
    R.length ≤ count ∧ Sorted (keys R) ∧
    (∀ it ∈ R, it.holders = (shards.filter fun s => decide (it.addr ∈ dbAfter s.2 cur)).map (·.1)) ∧
    (∀ it ∈ R, it.holders ≠ []) ∧
    (∀ s ∈ shards, ∀ x ∈ dbAfter s.2 cur, x ∈ keys R ∨ (R.length = count ∧ ∀ y ∈ keys R, lt y x = true)) ∧
    (match (engList shards count cursor).2 with
      | none => R = [] ∧ ∀ s ∈ shards, dbAfter s.2 cur = []
      | some k => ∃ l, R.getLast? = some l ∧ k = l.addr) := by
  intro cur R
  have inv0 : Inv count cursor [] [] := ⟨by simp, by simp [keys, Sorted], by simp, by simp, by simp [keys]⟩
  have inv := inv_fold count cursor hc shards [] [] inv0 hw
  simp only [List.nil_append] at inv
  have hR : R = shards.foldl (engStep count cursor) [] := engList_fst shards count cursor
  rw [← hR] at inv
  -- pages versus everything listable after the cursor
  have hpage : ∀ s ∈ shards, page count cursor s = (dbAfter s.2 cur).take count := fun s hs =>
    (dbList_page s.2 (hw s hs).1 (hw s hs).2 count hc cursor).1
  have hcomplete : ∀ s ∈ shards, ∀ x ∈ dbAfter s.2 cur,
      x ∈ keys R ∨ (R.length = count ∧ ∀ y ∈ keys R, lt y x = true) := by
    intro s hs x hx
    have hsorted := dbAfter_sorted s.2 (hw s hs).1 (hw s hs).2 cur
    rw [← List.take_append_drop count (dbAfter s.2 cur), List.mem_append] at hx
    rcases hx with hx | hx
    · exact inv.complete s hs x (by rw [hpage s hs]; exact hx)
    · -- x lies beyond the shard's own page, which is therefore full
      by_cases hxR : x ∈ keys R
      · exact Or.inl hxR
      · right
        have hlenp : ((dbAfter s.2 cur).take count).length = count := by
          rw [List.length_take]
          have : count < (dbAfter s.2 cur).length ∨ (dbAfter s.2 cur).length ≤ count := Nat.lt_or_ge _ _
          rcases this with h | h
          · omega
          · rw [List.drop_of_length_le h] at hx; simp at hx
        have hlt := take_lt_drop _ count hsorted
        -- either some page element already sees a full result before it, or the whole page is in R
        by_cases hex : ∃ p ∈ (dbAfter s.2 cur).take count, p ∉ keys R
        · obtain ⟨p, hp, hpn⟩ := hex
          rcases inv.complete s hs p (by rw [hpage s hs]; exact hp) with h | ⟨hf, hall⟩
          · exact absurd h hpn
          · exact ⟨hf, fun y hy => lt_trans (hall y hy) (hlt p hp x hx)⟩
        · have hall : ∀ p ∈ (dbAfter s.2 cur).take count, p ∈ keys R := by
            intro p hp
            cases Classical.em (p ∈ keys R) with
            | inl h => exact h
            | inr h => exact (hex ⟨p, hp, h⟩).elim
          have hndp : ((dbAfter s.2 cur).take count).Nodup := sorted_nodup _ (sorted_take _ _ hsorted)
          have hle := hndp.length_le_of_subset hall
          have hRl := inv.len
          simp only [keys, List.length_map] at hle
          refine ⟨by omega, ?_⟩
          intro y hy
          cases hyx : lt y x with
          | true => rfl
          | false =>
            exfalso
            have hyne : y ≠ x := fun h => hxR (h ▸ hy)
            have hxy : lt x y = true := lt_total hyx hyne
            have hynot : y ∉ (dbAfter s.2 cur).take count := by
              intro h
              have := hlt y h x hx
              rw [lt_asymm hxy] at this
              exact Bool.false_ne_true this
            have hnd' : (y :: (dbAfter s.2 cur).take count).Nodup := List.nodup_cons.mpr ⟨hynot, hndp⟩
            have hss : (y :: (dbAfter s.2 cur).take count) ⊆ keys R := by
              intro z hz
              rw [List.mem_cons] at hz
              rcases hz with rfl | hz
              · exact hy
              · exact hall z hz
            have := hnd'.length_le_of_subset hss
            simp only [List.length_cons, keys, List.length_map] at this
            omega
  have hholders : ∀ it ∈ R, it.holders = (shards.filter fun s => decide (it.addr ∈ dbAfter s.2 cur)).map (·.1) := by
    intro it hit
    rw [inv.holders it hit]
    congr 1
    apply List.filter_congr
    intro s hs
    rw [hpage s hs]
    -- listable on s and inside the engine page ⇒ inside s's own page
    have hsorted := dbAfter_sorted s.2 (hw s hs).1 (hw s hs).2 cur
    by_cases h1 : it.addr ∈ (dbAfter s.2 cur).take count
    · have : it.addr ∈ dbAfter s.2 cur := List.mem_of_mem_take h1
      simp [h1, this]
    · by_cases h2 : it.addr ∈ dbAfter s.2 cur
      · exfalso
        have hdrop : it.addr ∈ (dbAfter s.2 cur).drop count := by
          rw [← List.take_append_drop count (dbAfter s.2 cur), List.mem_append] at h2
          exact h2.resolve_left h1
        have hlenp : ((dbAfter s.2 cur).take count).length = count := by
          rw [List.length_take]
          rcases Nat.lt_or_ge count (dbAfter s.2 cur).length with h | h
          · omega
          · rw [List.drop_of_length_le h] at hdrop; simp at hdrop
        have hlt := take_lt_drop _ count hsorted
        have hitR : it.addr ∈ keys R := List.mem_map_of_mem hit
        have hall : ∀ p ∈ (dbAfter s.2 cur).take count, p ∈ keys R := by
          intro p hp
          rcases inv.complete s hs p (by rw [hpage s hs]; exact hp) with h | ⟨_, hall⟩
          · exact h
          · have := hall it.addr hitR
            rw [lt_asymm (hlt p hp it.addr hdrop)] at this
            exact absurd this Bool.false_ne_true
        have hndp : ((dbAfter s.2 cur).take count).Nodup := sorted_nodup _ (sorted_take _ _ hsorted)
        have hnd' : (it.addr :: (dbAfter s.2 cur).take count).Nodup := List.nodup_cons.mpr ⟨h1, hndp⟩
        have hss : (it.addr :: (dbAfter s.2 cur).take count) ⊆ keys R := by
          intro z hz
          rw [List.mem_cons] at hz
          rcases hz with rfl | hz
          · exact hitR
          · exact hall z hz
        have := hnd'.length_le_of_subset hss
        have hRl := inv.len
        simp only [List.length_cons, keys, List.length_map] at this
        omega
      · simp [h1, h2]
  refine ⟨inv.len, inv.sorted, hholders, ?_, hcomplete, ?_⟩
  · intro it hit hnil
    obtain ⟨s, hs, hy⟩ := inv.src it.addr (List.mem_map_of_mem hit)
    rw [inv.holders it hit] at hnil
    have : s ∈ shards.filter fun s => decide (it.addr ∈ page count cursor s) := List.mem_filter.mpr ⟨hs, by simpa using hy⟩
    simp only [List.map_eq_nil_iff] at hnil
    rw [hnil] at this
    simp at this
  · show (match (engList shards count cursor).2 with
      | none => R = [] ∧ ∀ s ∈ shards, dbAfter s.2 cur = []
      | some k => ∃ l, R.getLast? = some l ∧ k = l.addr)
    have h2 : (engList shards count cursor).2 = (R.getLast?).map (·.addr) := by
      rw [hR]; exact engList_snd shards count cursor
    rw [h2]
    cases hl : R.getLast? with
    | none =>
      have hnil : R = [] := List.getLast?_eq_none_iff.mp hl
      refine ⟨hnil, ?_⟩
      intro s hs
      cases hd : dbAfter s.2 cur with
      | nil => rfl
      | cons x xs =>
        exfalso
        rcases hcomplete s hs x (by rw [hd]; simp) with h | ⟨h, _⟩
        · rw [hnil] at h; simp [keys] at h
        · rw [hnil] at h; simp at h; omega
    | some l => exact ⟨l, rfl, rfl⟩

/-- **Chaining pages.** What the next engine page can contain lies strictly after the returned cursor, and
what one page did not return lies after that cursor on its shard, so the next page picks it up: pages chained
through the cursor are strictly ascending overall (no address twice) and lose nothing. -/
theorem engine_chain (shards : List (Nat × DB)) (hw : ∀ s ∈ shards, DBSorted s.2 ∧ DBWF s.2)
    (count : Nat) (hc : 0 < count) (cursor : Option Addr) (k : Addr)
    (hk : (engList shards count cursor).2 = some k) :
    (∀ s ∈ shards, ∀ x ∈ dbAfter s.2 (cursor.getD (0, 0)),
      x ∈ keys (engList shards count cursor).1 ∨ x ∈ dbAfter s.2 k) ∧
    (∀ y ∈ keys (engList shards count (some k)).1, lt k y = true) ∧
    (∀ y ∈ keys (engList shards count cursor).1, y = k ∨ lt y k = true) := by
  obtain ⟨_, hsorted, _, _, hcomp, hcur⟩ := engine_page shards hw count hc cursor
  rw [hk] at hcur
  obtain ⟨l, hl, hkl⟩ := hcur
  have hlast : ∀ y ∈ keys (engList shards count cursor).1, y = k ∨ lt y k = true := by
    intro y hy
    obtain ⟨pre, hpre⟩ : ∃ pre, (engList shards count cursor).1 = pre ++ [l] := by
      have := List.getLast?_eq_some_iff.mp hl
      obtain ⟨pre, h⟩ := this
      exact ⟨pre, h⟩
    rw [hpre] at hy hsorted
    unfold keys at hy hsorted
    rw [List.map_append] at hy hsorted
    unfold Sorted at hsorted
    rw [List.pairwise_append] at hsorted
    rw [List.mem_append] at hy
    rcases hy with hy | hy
    · right; rw [hkl]; exact hsorted.2.2 y hy l.addr (by simp)
    · left; simp at hy; rw [hkl]; exact hy
  refine ⟨?_, ?_, hlast⟩
  · intro s hs x hx
    rcases hcomp s hs x hx with h | ⟨_, hall⟩
    · exact Or.inl h
    · right
      have hkin : k ∈ keys (engList shards count cursor).1 := by
        rw [hkl]; unfold keys; exact List.mem_map_of_mem (List.mem_of_getLast? hl)
      unfold dbAfter at hx ⊢
      rw [List.mem_filter] at hx ⊢
      exact ⟨hx.1, hall k hkin⟩
  · intro y hy
    obtain ⟨_, _, _, _, _, _⟩ := engine_page shards hw count hc (some k)
    -- every item of the next page is listable after k on some shard
    have inv0 : Inv count (some k) [] [] := ⟨by simp, by simp [keys, Sorted], by simp, by simp, by simp [keys]⟩
    have inv := inv_fold count (some k) hc shards [] [] inv0 hw
    simp only [List.nil_append] at inv
    have hR : (engList shards count (some k)).1 = shards.foldl (engStep count (some k)) [] :=
      engList_fst shards count (some k)
    rw [hR] at hy
    obtain ⟨s, hs, hys⟩ := inv.src y hy
    unfold page at hys
    rw [(dbList_page s.2 (hw s hs).1 (hw s hs).2 count hc (some k)).1] at hys
    have := List.mem_of_mem_take hys
    simp only [Option.getD_some] at this
    unfold dbAfter at this
    exact (List.mem_filter.mp this).2

/-- non-vacuity: three shards with overlapping copies, a copy marked for removal on one shard, page breaks on
an object held by several shards -/
example :
    let r (id : Nat) : Rec := ⟨id, .regular, true, true, 0, 0, 0, 0, 0, none, none⟩
    let s1 : DB := [(1, { recs := [r 1, r 2, r 3], garb := [(2, false)] })]
    let s2 : DB := [(1, { recs := [r 2, r 3] }), (2, { recs := [r 4] })]
    let s3 : DB := [(2, { recs := [r 4, r 5] })]
    engList [(7, s1), (8, s2), (9, s3)] 2 none = ([⟨(1, 1), [7]⟩, ⟨(1, 2), [8]⟩], some (1, 2)) ∧
    engList [(9, s3), (8, s2), (7, s1)] 2 (some (1, 2)) = ([⟨(1, 3), [8, 7]⟩, ⟨(2, 4), [9, 8]⟩], some (2, 4)) ∧
    engList [(7, s1), (8, s2), (9, s3)] 2 (some (2, 4)) = ([⟨(2, 5), [9]⟩], some (2, 5)) ∧
    engList [(7, s1), (8, s2), (9, s3)] 2 (some (2, 5)) = ([], none) := by decide

end NeoFS.EngList
