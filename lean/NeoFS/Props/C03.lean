import NeoFS.Lemmas.SearchPages
import NeoFS.Lemmas.SearchPre
import NeoFS.Lemmas.SearchIndex
import NeoFS.Lemmas.SearchUnf
/-!
# C03 — search returns exactly the matching available objects, in order, across pages

Model: `Model/Search.lean` (byte-level bucket, `PreprocessSearchQuery`, `MetaDataKVHandler`, `searchTx`),
reference: `Spec/Search.lean` (`satisfies`, `isMatch`, `itemOf`).

What is proved here, for queries over attributes stored as plain strings (user attributes, version, type, creation
epoch, payload size, ROOT/PHY; all matchers incl. numeric ones):

* `early_exit_safe`  : over ANY list of index elements visited in stored-value order above the seek bound, the
  handler's verdict on every element is the declarative match, and whenever it stops the scan no later element
  matches (`VerdictOK`);
* `page_sound_complete` : hence one page is exactly the first `count` matching elements of the visited index segment,
  with their requested attribute values, and a cursor (= key of the last returned element) iff more match;
* `pagination_exact` : following the returned cursor with any page sizes ≥ 1 yields every hit once, in order, and ends
  with an empty cursor;
* `int_iff_decimal`, `numeric_filter_iff_decimal` : a value is put into the integer index / compared numerically
  iff it is an optionally signed decimal string in range;
* `plainCtx_of_preprocess`, `numeric_filter_bounds` : what `PreprocessSearchQuery`/`parseIntFilters` return, incl. the
  ±(2^256−1) boundary handling; `bucket_strictly_sorted`, `prefix_loop_exact` : the byte bucket is strictly sorted and
  the seek + prefix loop visits exactly the keys above the seek key with the prefix; `empty_query_page` : the empty query;
* `plain_key_order`, `int_key_order`, `prefix_segment` : the byte order of the index keys is the order on
  (value, id) resp. (number, id), and the keys with a given prefix form a segment.

The hypothesis `IndexSegment` of the page theorems (the byte bucket, seeked and prefix-scanned, enumerates the
attribute's index elements in key order, and `Get` answers `lookup`) is a statement about bbolt-style cursor
iteration over the model's own sorted key list; it is not proved here (the key-order lemmas above are its
ingredients) and is exercised on every query of the correspondence run, where the driver runs the byte-level model.
-/
namespace NeoFS.Search
open NeoFS.Int256

/-- the handler context `searchTx` builds. -/
def hctx (b : List Bytes) (avail : Nat → Bool) (c : Ctx) : HCtx :=
  { get := getAttr b, avail := avail, fs := c.fs, attrs := c.attrs, pref := c.pref }

/-- The visited part of the index, seen as objects: `os` are the objects of the visited keys in visiting order. -/
structure IndexSegment (b : List Bytes) (avail : Nat → Bool) (c : Ctx) (os : List Obj) (val key : Obj → Bytes) : Prop where
  scan : scanKeys b c.pref c.seek = os.map key
  split : ∀ o ∈ os, splitKey (hctx b avail c) (key o) = some (val o, oidBytes o.id)
  idRound : ∀ o ∈ os, fromBE (oidBytes o.id) = o.id
  rel : ∀ o ∈ os, EntryRel (hctx b avail c) o (val o)
  get : ∀ o ∈ os, ∀ a ∈ attrsOf (hctx b avail c), getAttr b o.id a = lookup o a
  availOK : ∀ o ∈ os, avail o.id = o.avail
  sorted : os.Pairwise (fun x y => bLe (val x) (val y))
  bound : ∀ o ∈ os, LB (hctx b avail c).p0 (val o)

/-- the preprocessed query is a plain one: filters and requested attributes are stored as strings, and the numeric
filters were parsed as `parseIntFilters` does (`PFok`). -/
structure PlainCtx (c : Ctx) : Prop where
  nonempty : c.fs ≠ []
  pf : ∀ idx p, c.fs[idx]? = some p → PFok (c.fs.headD { f := ⟨[], .eq, []⟩ }).f idx p
  plainF : ∀ p ∈ c.fs, kindOf p.f.attr = .plain
  plainA : ∀ a ∈ c.attrs, kindOf a = .plain

/-- **`PreprocessSearchQuery` establishes `PlainCtx`**: for every accepted query over plain attributes (any cursor) the
returned filters are the query's filters, numeric ones parsed so that the raw bytes are the encoding of the filter
value and `AutoMatch` is only set for `<= 2^256-1` / `>= -(2^256-1)`. -/
theorem plainCtx_of_preprocess (f0 : Filter) (r : List Filter) (attrs : List Bytes) (cur : Option Bytes) (c : Ctx)
    (hpre : preprocess (f0 :: r) attrs cur = .ok c)
    (hkf : ∀ f ∈ f0 :: r, kindOf f.attr = .plain) (hka : ∀ a ∈ attrs, kindOf a = .plain) :
    PlainCtx c ∧ c.fs.map (·.f) = f0 :: r ∧ c.attrs = attrs ∧ blindly (f0 :: r) = false := by
  obtain ⟨h1, h2, h3, h4⟩ := preprocess_fs f0 r attrs cur c hpre
  refine ⟨⟨?_, ?_, ?_, ?_⟩, h1, h2, h3⟩
  · intro he; rw [he] at h1; simp at h1
  · have hhead : (c.fs.headD { f := ⟨[], .eq, []⟩ }).f = f0 := by
      cases hfs : c.fs with
      | nil => rw [hfs] at h1; simp at h1
      | cons q t => rw [hfs] at h1; simp at h1; simp [h1.1]
    rw [hhead]; exact h4
  · intro p hp
    exact hkf p.f (by rw [← h1]; exact List.mem_map.2 ⟨p, hp, rfl⟩)
  · rw [h2]; exact hka

/-- the ±(2^256−1) boundaries of numeric filters: an accepted numeric filter has a value `ParseDecimal` accepts
(so it is in range), and it is marked `AutoMatch` only if it is `<= 2^256-1` or `>= -(2^256-1)`. -/
theorem numeric_filter_bounds (f0 : Filter) (i : Nat) (f : Filter) (p : PF) (h : parseIntFilter f0 i f = .ok p)
    (hi : f.cop.isInt = true) :
    ∃ x, parseInt f.cval = some x ∧ x.WF ∧
      (p.auto = true → (f.cop = .le ∧ x = maxI) ∨ (f.cop = .ge ∧ x = minI)) := by
  obtain ⟨hf, hok⟩ := parseIntFilter_ok f0 i f p h
  rw [← hf] at hi
  obtain ⟨x, hx, ha, _⟩ := hok hi
  rw [hf] at hx ha
  exact ⟨x, hx, parseInt_wf hx, ha⟩

/-- **Early exit is safe, verdicts are exact.** -/
theorem early_exit_safe (b : List Bytes) (avail : Nat → Bool) (c : Ctx) (hc : PlainCtx c)
    (os : List Obj) (val key : Obj → Bytes) (hseg : IndexSegment b avail c os val key) :
    VerdictOK (hctx b avail c) key (expOf (hctx b avail c)) os false :=
  verdictOK_entries (hctx b avail c) hc.nonempty val key hc.pf hc.plainF hc.plainA os false
    hseg.split hseg.idRound hseg.rel hseg.get hseg.availOK hseg.sorted hseg.bound (by intro h; cases h)

/-- **One page is sound and complete**: the first `count` matching elements of the visited segment with their
attribute values; the cursor is the key of the last returned element, present iff more elements match. -/
theorem page_sound_complete (b : List Bytes) (avail : Nat → Bool) (c : Ctx) (hc : PlainCtx c) (count : Nat)
    (os : List Obj) (val key : Obj → Bytes) (hseg : IndexSegment b avail c os val key) :
    search b avail c count = scanResult (hitsOf key (expOf (hctx b avail c)) os) count [] [] := by
  have hne : c.fs.isEmpty = false := by
    cases hfs : c.fs with
    | nil => exact absurd hfs hc.nonempty
    | cons _ _ => rfl
  unfold search searchFiltered
  rw [hne, hseg.scan]
  simp only [Bool.false_eq_true, if_false]
  exact runScan_spec (hctx b avail c) count key (expOf (hctx b avail c)) os false [] []
    (early_exit_safe b avail c hc os val key hseg) (Nat.zero_le _)

/-- what a page consists of, spelled out. -/
theorem page_items (hs : List (Bytes × Item)) (count : Nat) :
    (scanResult hs count [] []).items = (hs.take count).map (·.2) ∧
    ((scanResult hs count [] []).cursor.isSome = true ↔ hs.length > count) ∧
    (scanResult hs count [] []).err = false := by
  rw [scanResult_nil_acc]
  refine ⟨rfl, ?_, rfl⟩
  by_cases h : hs.length > count <;> simp [h]

/-- **Pagination is exact**: if pages are as in `page_sound_complete` from the start and from the cursor of every
hit, then for any page sizes ≥ 1 the chain of pages lists all hits once, in order, and ends without a cursor. -/
theorem pagination_exact (b : List Bytes) (avail : Nat → Bool) (fs : List Filter) (attrs : List Bytes)
    (H : List (Bytes × Item))
    (hpage : ∀ i n, i ≤ H.length → 1 ≤ n → pageB b avail fs attrs (curAt H i) n = .ok (scanResult (H.drop i) n [] []))
    (sizes : List Nat) (hne : sizes ≠ []) (hpos : ∀ n ∈ sizes, 1 ≤ n) (fuel : Nat) (hfuel : H.length < fuel) :
    (pagesB b avail fs attrs fuel sizes none).flatMap pageItems = H.map (·.2) ∧
    chainClean (pagesB b avail fs attrs fuel sizes none) = true := by
  have := pages_exact b avail fs attrs H hpage fuel 0 sizes hne hpos (by omega) (Nat.zero_le _)
  simpa [curAt] using this

/-- **Integer-ness**: a pair goes to the integer index iff the attribute may be numeric and the value is an optionally
signed decimal string in range. -/
theorem int_iff_decimal (a v : Bytes) :
    intIndexed a v = true ↔
      (a ∉ plainOnlyAttrs ∧ ∃ neg digits, SignedDecimal (toChars v) neg digits ∧ decVal digits < two256) := by
  unfold intIndexed parseInt
  simp only [Bool.and_eq_true, Bool.not_eq_true', List.contains_eq_mem, decide_eq_false_iff_not, Option.isSome_iff_exists]
  constructor
  · rintro ⟨h1, z, hz⟩
    obtain ⟨neg, d, hs, hv, _⟩ := (parse_accepts_iff _ _).1 hz
    exact ⟨h1, neg, d, hs, hv⟩
  · rintro ⟨h1, neg, d, hs, hv⟩
    exact ⟨h1, mk neg (decVal d), (parse_accepts_iff _ _).2 ⟨neg, d, hs, hv, rfl⟩⟩

/-- a numeric filter can only be satisfied by a value that is an optionally signed decimal string in range. -/
theorem numeric_filter_iff_decimal (o : Obj) (f : Filter) (hi : f.cop.isInt = true) (hs : satisfies o f = true) :
    ∃ v, lookup o f.attr = some v ∧ ∃ neg digits, SignedDecimal (toChars v) neg digits ∧ decVal digits < two256 := by
  unfold satisfies at hs
  cases hl : lookup o f.attr with
  | none => rw [hl] at hs; simp only [decide_eq_true_eq] at hs; rw [hs] at hi; simp [Op.isInt] at hi
  | some v =>
    rw [hl] at hs
    have hnp : f.cop ≠ .np := by intro e; rw [e] at hi; simp [Op.isInt] at hi
    simp only [hnp, if_false, hi, if_true] at hs
    cases hz : parseInt v with
    | none => rw [hz] at hs; simp at hs
    | some z =>
      obtain ⟨neg, d, hsd, hv, _⟩ := (parse_accepts_iff _ _).1 hz
      exact ⟨v, rfl, neg, d, hsd, hv⟩

/-! ### key order -/

theorem oid_order (i j : Nat) (hi : i < two256) (hj : j < two256) : lexCmp (oidBytes i) (oidBytes j) = ordNat i j := by
  rw [two256_eq] at hi hj
  exact lexCmp_beBytes 32 i j hi hj

/-- keys of the plain index of one attribute are ordered like (value, id), for delimiter-free values. -/
theorem plain_key_order (a v1 v2 : Bytes) (i j : Nat) (h1 : ∀ x ∈ v1, x ≠ 0) (h2 : ∀ x ∈ v2, x ≠ 0)
    (hi : i < two256) (hj : j < two256) :
    lexCmp (keyPlain a v1 i) (keyPlain a v2 j) = thenCmp (lexCmp v1 v2) (ordNat i j) := by
  unfold keyPlain
  simp only [lexCmp, Nat.lt_irrefl, if_false]
  rw [lexCmp_append_left]
  simp only [lexCmp, Nat.lt_irrefl, if_false]
  rw [lexCmp_delim v1 v2 _ _ h1 h2, oid_order i j hi hj]

/-- keys of the integer index of one attribute are ordered like (number, id). -/
theorem int_key_order (a : Bytes) (z1 z2 : I256) (i j : Nat) (h1 : z1.WF) (h2 : z2.WF)
    (hi : i < two256) (hj : j < two256) :
    lexCmp (keyInt a (encode z1) i) (keyInt a (encode z2) j) = thenCmp (ordInt z1.toInt z2.toInt) (ordNat i j) := by
  unfold keyInt
  simp only [lexCmp, Nat.lt_irrefl, if_false]
  rw [lexCmp_append_left]
  simp only [lexCmp, Nat.lt_irrefl, if_false]
  rw [lexCmp_fixed _ _ _ _ (by rw [encode_length, encode_length]), encode_order z1 z2 h1 h2, oid_order i j hi hj]

/-- the keys with a given prefix form a segment of any sorted key list. -/
theorem prefix_segment (p k1 k2 k3 : Bytes) (h12 : bLe k1 k2) (h23 : bLe k2 k3) (h1 : p <+: k1) (h3 : p <+: k3) :
    p <+: k2 :=
  prefix_convex (bLe_trans (bLe_of_prefix h1) h12) h23 h3

/-- **The bucket is strictly sorted** and holds exactly the keys the objects contribute (one value per key). -/
theorem bucket_strictly_sorted (objs : List Obj) :
    (bucket objs).Pairwise bLt ∧ ∀ k, k ∈ bucket objs ↔ k ∈ objs.flatMap objKeys :=
  bucket_sorted objs

/-- **The prefix loop loses nothing**: for a seek key that extends the prefix (which `PreprocessSearchQuery` always
builds), `Seek` + "skip the seek key" + "iterate while the prefix holds" over the bucket visits exactly the keys above
the seek key that carry the prefix, in key order. -/
theorem prefix_loop_exact (objs : List Obj) (pref seek : Bytes) (hp : pref <+: seek) :
    scanKeys (bucket objs) pref seek = (bucket objs).filter (fun k => lexCmp seek k == .lt && pref.isPrefixOf k) :=
  scanKeys_bucket objs pref seek hp

/-- **The empty query** (`searchUnfiltered`), for ALL availability assignments and page sizes ≥ 1: over the visited
object-id keys the page is the first `count` available ids in id order; without a cursor nothing is left; a cursor is
the id of the last returned object and is only given with a full page. -/
theorem empty_query_page (b : List Bytes) (avail : Nat → Bool) (c : Ctx) (count : Nat) (hcount : 1 ≤ count)
    (hfs : c.fs = []) (ids : List Nat) (hids : ∀ id ∈ ids, id < two256)
    (hvisit : (afterSeek b c.seek).takeWhile (fun k => k.head? = some 0) = ids.map keyID) :
    let r := search b avail c count
    let av := (ids.filter avail).map (fun id => (⟨id, []⟩ : Item))
    r.err = false ∧ r.items = av.take count ∧ (r.cursor = none → av.length ≤ count) ∧
      (∀ cur, r.cursor = some cur → r.items.length = count ∧ ∃ it, r.items.getLast? = some it ∧ cur = oidBytes it.id) := by
  have h := scanUnfiltered_spec avail count hcount ids [] hids (Nat.zero_le _)
  simp only [List.reverse_nil, List.nil_append, List.length_nil, Nat.sub_zero] at h
  unfold search searchUnfiltered
  simp only [hfs, List.isEmpty_nil, if_true, hvisit]
  exact h

/-! ### non-vacuity: a concrete bucket, query and visited segment meeting every hypothesis -/

def exOid (n : Nat) : Bytes := List.replicate 31 0 ++ [n]

/-- the bucket of three objects with attribute `a` = "ab", "ac", "b" (ids 1, 2, 3), as the code lays it out. -/
def exB : List Bytes :=
  [0 :: exOid 1, 0 :: exOid 2, 0 :: exOid 3,
   2 :: 97 :: 0 :: ([97, 98] ++ 0 :: exOid 1), 2 :: 97 :: 0 :: ([97, 99] ++ 0 :: exOid 2), 2 :: 97 :: 0 :: ([98] ++ 0 :: exOid 3),
   3 :: (exOid 1 ++ 97 :: 0 :: [97, 98]), 3 :: (exOid 2 ++ 97 :: 0 :: [97, 99]), 3 :: (exOid 3 ++ 97 :: 0 :: [98])]

def exO1 : Obj := ⟨1, [([97], [97, 98])], true⟩
def exO2 : Obj := ⟨2, [([97], [97, 99])], true⟩
def exO3 : Obj := ⟨3, [([97], [98])], true⟩
/-- `a PREFIX "a"`, attribute `a` requested. -/
def exFs : List Filter := [⟨[97], .pfx, [97]⟩]
def exCtx : Ctx := { fs := [{ f := ⟨[97], .pfx, [97]⟩ }], attrs := [[97]], pref := [2, 97, 0], seek := [2, 97, 0, 97] }
def exVal (o : Obj) : Bytes := (lookup o [97]).getD []
def exKey (o : Obj) : Bytes := keyPlain [97] (exVal o) o.id

example : (match preprocess exFs [[97]] none with
    | .ok c => decide (c.seek = exCtx.seek) && decide (c.pref = exCtx.pref) | _ => false) = true := by decide

/-- page size 1 from the start: the first match and a cursor; the early exit happens at "b". -/
example : search exB (fun _ => true) exCtx 1 =
    { items := [⟨1, [[97, 98]]⟩], cursor := some (97 :: 0 :: ([97, 98] ++ 0 :: exOid 1)), err := false } := by decide
/-- with object 1 removed the page is object 2 and there is no cursor. -/
example : search exB (fun id => id != 1) exCtx 1 = { items := [⟨2, [[97, 99]]⟩], cursor := none, err := false } := by decide

example : PlainCtx exCtx := by
  refine ⟨by decide, ?_, ?_, ?_⟩
  · intro idx p hp hi
    cases idx with
    | zero => simp [exCtx] at hp; subst hp; simp [Filter.cop, Filter.conv, Op.isInt] at hi; revert hi; decide
    | succ n => simp [exCtx] at hp
  · intro p hp; simp [exCtx] at hp; subst hp; decide
  · intro a ha; simp [exCtx] at ha; subst ha; decide

example : IndexSegment exB (fun _ => true) exCtx [exO1, exO2, exO3] exVal exKey := by
  refine ⟨by decide, ?_, ?_, ?_, ?_, ?_, ?_, ?_⟩
  · intro o ho; simp only [List.mem_cons, List.not_mem_nil, or_false] at ho; rcases ho with rfl | rfl | rfl <;> decide
  · intro o ho; simp only [List.mem_cons, List.not_mem_nil, or_false] at ho; rcases ho with rfl | rfl | rfl <;> decide
  · intro o ho; simp only [List.mem_cons, List.not_mem_nil, or_false] at ho
    rcases ho with rfl | rfl | rfl <;>
      (unfold EntryRel; simp only [show (hctx exB (fun _ => true) exCtx).idIter = false by decide,
        show (hctx exB (fun _ => true) exCtx).intPrim = false by decide, Bool.false_eq_true, if_false]; decide)
  · intro o ho a ha
    have ha' : a = [97] := by simpa [attrsOf, hctx, exCtx] using ha
    subst ha'
    simp only [List.mem_cons, List.not_mem_nil, or_false] at ho
    rcases ho with rfl | rfl | rfl <;> decide
  · intro o ho; simp only [List.mem_cons, List.not_mem_nil, or_false] at ho; rcases ho with rfl | rfl | rfl <;> rfl
  · unfold bLe; decide
  · intro o ho; simp only [List.mem_cons, List.not_mem_nil, or_false] at ho
    rcases ho with rfl | rfl | rfl <;> (unfold LB bLe; decide)

end NeoFS.Search
