import NeoFS.Lemmas.IRContainer
/-
C37 — the inner ring approves container changes only when the owner authorised them.

`approve` (Model/IRContainer.lean) is the decision of the container processor: `true` iff
`NotarySignAndInvokeTX` is reached.  `OwnerAuthorised` (Lemmas/IRContainer.lean) is the
declarative specification.  All theorems quantify over EVERY signature scheme `Crypto σ`,
configuration, epoch/time, alphabet flag and request.
-/
namespace NeoFS.IRContainer

variable {σ : Type}

/-- `verifySignature` accepts only what `TokenAuthorised` describes (all token kinds). -/
theorem verifySignature_token_authorised (C : Crypto σ) (env : Env) (a : Auth σ)
    (h : verifySignature C env a = true) : TokenAuthorised C env a := by
  unfold verifySignature at h
  unfold TokenAuthorised
  cases ht : a.tok with
  | none => simp only [ht] at h ⊢; exact authDirect_sound C a h
  | garbage => simp [ht] at h
  | v1 t => simp only [ht] at h ⊢; exact verifySessionV1_sound C env a t h
  | v2 ch => simp only [ht] at h ⊢; exact verifySessionV2_sound C env a ch h

/-- without a V2 token, `verifySignature` accepts only owner-authorised requests. -/
theorem verifySignature_owner_authorised_partial (C : Crypto σ) (env : Env) (a : Auth σ)
    (h : verifySignature C env a = true) (hv2 : a.tok.isV2 = false) : OwnerAuthorised C env a := by
  have := verifySignature_token_authorised C env a h
  unfold TokenAuthorised at this
  unfold OwnerAuthorised
  cases ht : a.tok with
  | none => simpa [ht] using this
  | garbage => simp [ht] at this
  | v1 t => simpa [ht] using this
  | v2 ch => simp [ht, Tok.isV2] at hv2

/-- every approved request passed `verifySignature` on each witness it carries -/
theorem approve_verifies (C : Crypto σ) (cfg : Cfg) (env : Env) (al : Bool) (r : Req σ)
    (h : approve C cfg env al r = true) : ∀ a ∈ r.auths, verifySignature C env a = true := by
  cases r with
  | put dec p a nid e =>
    cases e with
    | none =>
      simp only [approve, checkPut, Bool.and_eq_true] at h
      intro x hx
      simp only [Req.auths, Req.auth, List.mem_singleton] at hx
      subst hx; exact h.1.2.1.1.2
    | some pe =>
      obtain ⟨eb, ea⟩ := pe
      simp only [approve, checkPut, checkSetEACL, Bool.and_eq_true] at h
      intro x hx
      simp only [Req.auths, List.mem_cons, List.not_mem_nil, or_false] at hx
      rcases hx with hx | hx
      · subst hx; exact h.1.2.1.1.2
      · subst hx; exact h.2.2.2
  | delete idOk found a =>
    simp only [approve, Bool.and_eq_true] at h
    intro x hx
    simp only [Req.auths, Req.auth, List.mem_singleton] at hx
    subst hx; exact h.2
  | eacl found e a =>
    simp only [approve, checkSetEACL, Bool.and_eq_true] at h
    intro x hx
    simp only [Req.auths, Req.auth, List.mem_singleton] at hx
    subst hx; exact h.2.2
  | attr idOk nz ne found a =>
    simp only [approve, Bool.and_eq_true] at h
    intro x hx
    simp only [Req.auths, Req.auth, List.mem_singleton] at hx
    subst hx; exact h.2

/-- MAIN (all requests, all token kinds): approval implies that every witness of the request is
    the owner's own signature or an owner-rooted, unexpired token (chain) for exactly this verb
    and container — for V2 tokens without any statement about who signed the payload. -/
theorem approve_implies_token_authorised (C : Crypto σ) (cfg : Cfg) (env : Env) (al : Bool)
    (r : Req σ) (h : approve C cfg env al r = true) :
    ∀ a ∈ r.auths, TokenAuthorised C env a :=
  fun a ha => verifySignature_token_authorised C env a (approve_verifies C cfg env al r h a ha)

/-- MAIN, proved part of the full statement: for requests without V2 tokens approval implies
    `OwnerAuthorised`. -/
theorem approve_implies_authorised_partial (C : Crypto σ) (cfg : Cfg) (env : Env) (al : Bool)
    (r : Req σ) (h : approve C cfg env al r = true) :
    ∀ a ∈ r.auths, a.tok.isV2 = false → OwnerAuthorised C env a :=
  fun a ha hv => verifySignature_owner_authorised_partial C env a
    (approve_verifies C cfg env al r h a ha) hv

/-- the full statement of the property -/
def C37_full : Prop :=
  ∀ (σ : Type) (C : Crypto σ) (cfg : Cfg) (env : Env) (al : Bool) (r : Req σ),
    approve C cfg env al r = true → ∀ a ∈ r.auths, OwnerAuthorised C env a

/-! #### the witness: a V2 token of the owner (key 1) for SetEACL on container 5 naming user 2,
used by a stranger (key 3) whose "signature" does not even verify -/

def cexToken : TokV2 DSig :=
  { version := 0, issuer := 1, subjects := [2], ctxs := [⟨5, [10]⟩], life := some (10, 10, 100),
    final := false, sig := .ecdsa (some 1) ⟨1, true, false⟩ }

def cexAuth : Auth DSig :=
  { owner := 1, kind := .setEACL, idSet := true, target := 5, tok := .v2 [cexToken],
    vs := .key 3, sig := ⟨3, false, false⟩ }

def cexReq : Req DSig :=
  .eacl true { tableOk := true, tableCid := 5, records := [], extendable := true } cexAuth

theorem cex_approved : approve driverCrypto ⟨false, false⟩ ⟨0, 50⟩ true cexReq = true := by decide

/-- the full statement is FALSE for the current code: with a V2 token nobody checks who signed
    the request payload (`invocScript`/`verifScript`/`signedData` are unused by
    `verifySessionV2`). -/
theorem C37_counterexample : ¬ C37_full := by
  intro hfull
  have h := hfull DSig driverCrypto ⟨false, false⟩ ⟨0, 50⟩ true cexReq cex_approved cexAuth
    (by simp [cexReq, Req.auths, Req.auth])
  simp only [OwnerAuthorised, cexAuth] at h
  obtain ⟨_, t, r, _, k, _, hver, _⟩ := h
  simp [driverCrypto] at hver

/-! #### the other checks of the statement -/

/-- a non-alphabet node approves nothing -/
theorem approve_requires_alphabet (C : Crypto σ) (cfg : Cfg) (env : Env) (r : Req σ) :
    approve C cfg env false r = false := by
  cases r <;> simp [approve]

/-- creation: the container decodes, only permitted system attributes are present (the
    metadata one only when enabled), EC rules only when allowed and never mixed with REP, the
    SDK's policy check passed, name/zone of a named request equal the container's; an eACL table
    set in the same transaction is for the new container, touches no system role and the basic
    ACL is extendable -/
theorem approve_put_checks (C : Crypto σ) (cfg : Cfg) (env : Env) (al dec : Bool) (p : PutBody)
    (a : Auth σ) (nid : Cid) (e : Option (EaclBody × Auth σ))
    (h : approve C cfg env al (.put dec p a nid e) = true) :
    dec = true ∧
    (∀ k ∈ p.attrs, hasSysPrefix k = true →
      k ∈ allowedSystemAttributes ∧ (k = sysAttrChainMeta → cfg.metaEnabled = true)) ∧
    (p.ecRules > 0 → cfg.allowEC = true ∧ p.reps = 0) ∧
    p.policyOk = true ∧
    (p.reqZone ≠ "" → p.reqName = p.cnrName ∧ p.reqZone = p.cnrZone) ∧
    (∀ eb ea, e = some (eb, ea) → eb.tableOk = true ∧ eb.tableCid = nid ∧ eb.extendable = true ∧
      ∀ r ∈ eb.records, ∀ role ∈ r.roles, role ≠ roleSystem) := by
  simp only [approve, checkPut, putStaticOk, nnsOk, Bool.and_eq_true, Bool.or_eq_true,
    Bool.not_eq_true', beq_iff_eq] at h
  obtain ⟨⟨⟨_, hdec⟩, ⟨⟨⟨⟨⟨hattrs, hec⟩, hmix⟩, _⟩, _⟩, hpol⟩, hnns⟩, he⟩ := h
  refine ⟨hdec, ?_, ?_, hpol, ?_, ?_⟩
  · intro k hk hpre
    simp only [attrsOk, List.all_eq_true] at hattrs
    have := hattrs k hk
    simp only [hpre, if_true, Bool.and_eq_true, Bool.or_eq_true, bne_iff_ne, ne_eq,
      List.contains_iff_mem] at this
    refine ⟨this.1, fun hk' => ?_⟩
    rcases this.2 with h1 | h1
    · exact absurd hk' h1
    · exact h1
  · intro hpos
    constructor
    · rcases hec with h1 | h1
      · exact h1
      · omega
    · cases hr : decide (p.reps > 0) with
      | false => simpa using hr
      | true =>
        have : decide (p.ecRules > 0) = true := by simpa using hpos
        simp [this, hr] at hmix
  · intro hz
    rcases hnns with h1 | h1
    · exact absurd h1 hz
    · exact h1
  · intro eb ea hee
    subst hee
    simp only [checkSetEACL, validateEACL, Bool.and_eq_true, beq_iff_eq, List.all_eq_true,
      bne_iff_ne, ne_eq] at he
    obtain ⟨⟨htab, hcid⟩, ⟨hrec, hext⟩, _⟩ := he
    exact ⟨htab, hcid, hext, fun r hr role hrole => (hrec r hr).1.2 role hrole⟩

/-- eACL change: the table decodes and names a container known to the contract, the basic ACL
    allows extension, no record targets the system role, filters are well-formed -/
theorem approve_eacl_checks (C : Crypto σ) (cfg : Cfg) (env : Env) (al found : Bool)
    (e : EaclBody) (a : Auth σ) (h : approve C cfg env al (.eacl found e a) = true) :
    e.tableOk = true ∧ e.tableCid ≠ 0 ∧ found = true ∧ e.extendable = true ∧
    (∀ r ∈ e.records, r.comment = 0 ∧ (∀ role ∈ r.roles, role ≠ roleSystem) ∧
      ∀ f ∈ r.filters, filterOk f = true) := by
  simp only [approve, checkSetEACL, validateEACL, Bool.and_eq_true, beq_iff_eq, List.all_eq_true,
    bne_iff_ne, ne_eq] at h
  obtain ⟨⟨⟨⟨_, htab⟩, hcid⟩, hfound⟩, ⟨hrec, hext⟩, _⟩ := h
  exact ⟨htab, hcid, hfound, hext, fun r hr => ⟨(hrec r hr).1.1, (hrec r hr).1.2, (hrec r hr).2⟩⟩

/-- removal and attribute changes: the id decodes and the container is known to the contract;
    attribute requests additionally carry a non-zero id and are not past `ValidUntil` -/
theorem approve_target_checks (C : Crypto σ) (cfg : Cfg) (env : Env) (al : Bool) :
    (∀ idOk found a, approve C cfg env al (.delete idOk found a) = true → idOk = true ∧ found = true) ∧
    (∀ idOk nz ne found a, approve C cfg env al (.attr idOk nz ne found a) = true →
      idOk = true ∧ nz = true ∧ ne = true ∧ found = true) := by
  constructor
  · intro idOk found a h
    simp only [approve, Bool.and_eq_true] at h
    exact ⟨h.1.1.2, h.1.2⟩
  · intro idOk nz ne found a h
    simp only [approve, Bool.and_eq_true] at h
    exact ⟨h.1.1.1.1.2, h.1.1.1.2, h.1.1.2, h.1.2⟩

/-! #### non-vacuity: requests of every kind that ARE approved -/

def okSig (k : Nat) : DSig := ⟨k, true, false⟩
def okPut : PutBody :=
  { attrs := ["__NEOFS__NAME", "color"], ecRules := 0, reps := 2, hasInitial := false,
    policyOk := true, reqName := "", reqZone := "", cnrName := "n", cnrZone := "container" }
def v1For (k : Kind) (cnr : Cid) : TokV1 DSig :=
  { issuer := 1, sig := .ecdsa (some 1) (okSig 1), verb := k.v1, cnr := cnr, iat := 3, nbf := 3,
    exp := 9, authKey := some 2 }
def rootTok : TokV2 DSig :=
  { version := 0, issuer := 1, subjects := [2], ctxs := [⟨0, [8, 9]⟩, ⟨5, [9, 10]⟩],
    life := some (10, 10, 100), final := false, sig := .ecdsa (some 1) (okSig 1) }
def leafTok : TokV2 DSig :=
  { version := 0, issuer := 2, subjects := [3], ctxs := [⟨5, [9]⟩],
    life := some (20, 20, 90), final := true, sig := .ecdsa (some 2) (okSig 2) }

example : approve driverCrypto ⟨false, false⟩ ⟨5, 50⟩ true
    (.put true okPut ⟨1, .put, false, 0, .none, .key 1, okSig 1⟩ 7 none) = true := by decide
example : approve driverCrypto ⟨false, false⟩ ⟨5, 50⟩ true
    (.delete true true ⟨1, .delete, true, 5, .v1 (v1For .delete 5), .key 2, okSig 2⟩) = true := by decide
example : approve driverCrypto ⟨false, false⟩ ⟨5, 50⟩ true
    (.delete true true ⟨1, .delete, true, 5, .v2 [leafTok, rootTok], .key 3, okSig 3⟩) = true := by decide
example : approve driverCrypto ⟨false, false⟩ ⟨5, 50⟩ true
    (.put true okPut ⟨1, .put, false, 0, .v2 [rootTok], .key 2, okSig 2⟩ 7 none) = true := by decide
example : approve driverCrypto ⟨false, false⟩ ⟨5, 50⟩ true
    (.attr true true true true ⟨1, .setAttr, true, 5, .v1 (v1For .setAttr 0), .key 2, okSig 2⟩) = true := by decide
/-- and the delegated chain above does satisfy the specification's chain part -/
example : ChainFromOwner driverCrypto ⟨5, 50⟩
    ⟨1, .delete, true, 5, .v2 [leafTok, rootTok], .key 3, okSig 3⟩ [leafTok, rootTok] :=
  verifySessionV2_sound _ _ _ _ (by decide)

/-! #### what each check is for: dropping it admits a concrete unauthorised request -/

/-- BEFORE the repair `verifySessionV2` asserted the verb only when a container id was known:
    a token of the owner that grants nothing but OBJECT GET (verb 2) let its holder create
    containers on the owner's behalf. -/
theorem verb_unasserted_before_fix :
    let t : TokV2 DSig := { rootTok with ctxs := [⟨0, [2]⟩] }
    let a : Auth DSig := ⟨1, .put, false, 0, .v2 [t], .key 3, ⟨3, false, false⟩⟩
    verifySessionV2Old driverCrypto ⟨5, 50⟩ a [t] = true ∧
    verifySessionV2 driverCrypto ⟨5, 50⟩ a [t] = false ∧
    ¬ Grants t Kind.put.v2 0 := by
  refine ⟨by decide, by decide, ?_⟩
  intro ⟨c, hc, _, hv⟩
  simp at hc
  subst hc
  simp [Kind.v2] at hv

/-- each conjunct of the V1 branch is needed: a token for another verb, for another container,
    issued by a stranger, expired, or with the payload signed by a key the token does not name is
    rejected, while the same request with the field put right is accepted -/
theorem v1_checks_each_needed :
    let env : Env := ⟨5, 50⟩
    let mk (t : TokV1 DSig) (s : DSig) : Auth DSig := ⟨1, .delete, true, 5, .v1 t, .key 2, s⟩
    verifySignature driverCrypto env (mk (v1For .delete 5) (okSig 2)) = true ∧
    verifySignature driverCrypto env (mk (v1For .setEACL 5) (okSig 2)) = false ∧
    verifySignature driverCrypto env (mk (v1For .delete 6) (okSig 2)) = false ∧
    verifySignature driverCrypto env (mk { v1For .delete 5 with issuer := 4, sig := .ecdsa (some 4) (okSig 4) } (okSig 2)) = false ∧
    verifySignature driverCrypto env (mk { v1For .delete 5 with sig := .ecdsa (some 4) (okSig 4) } (okSig 2)) = false ∧
    verifySignature driverCrypto env (mk { v1For .delete 5 with exp := 4 } (okSig 2)) = false ∧
    verifySignature driverCrypto env (mk { v1For .delete 5 with nbf := 6 } (okSig 2)) = false ∧
    verifySignature driverCrypto env (mk (v1For .delete 5) (okSig 3)) = false ∧
    verifySignature driverCrypto env (mk (v1For .delete 5) ⟨2, false, false⟩) = false := by
  decide

/-- direct witness: the key must verify the payload AND derive the owner's id -/
theorem direct_checks_each_needed :
    let mk (vk : Nat) (s : DSig) : Auth DSig := ⟨1, .delete, true, 5, .none, .key vk, s⟩
    verifySignature driverCrypto ⟨5, 50⟩ (mk 1 (okSig 1)) = true ∧
    verifySignature driverCrypto ⟨5, 50⟩ (mk 3 (okSig 3)) = false ∧
    verifySignature driverCrypto ⟨5, 50⟩ (mk 1 (okSig 3)) = false ∧
    verifySignature driverCrypto ⟨5, 50⟩ (mk 1 ⟨1, false, false⟩) = false := by
  decide

end NeoFS.IRContainer
