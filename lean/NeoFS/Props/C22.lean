import NeoFS.Lemmas.EC
import Mathlib.Data.List.Nodup
/-!
# C22 — EC part node order visits every node once and spreads parts

Property theorems only.  The model is `NeoFS.EC.nodeSeq` (`Model/EC.lean`), the
list of indexes yielded by `iec.NodeSequenceForPart(part, total, nodes)`.
All theorems are for *every* `part`, `total ≥ 1` and `nodes` — no bound.
-/
namespace NeoFS.EC

/-- Every node index is listed, nothing else is, and nothing is listed twice. -/
theorem nodeSeq_each_once (part total nodes : Nat) (ht : 1 ≤ total) :
    (nodeSeq part total nodes).Nodup ∧ ∀ i, i ∈ nodeSeq part total nodes ↔ i < nodes := by
  constructor
  · unfold nodeSeq
    rw [List.nodup_flatMap]
    refine ⟨fun s _ => innerLoop_nodup total nodes ht _ _, ?_⟩
    refine List.Pairwise.imp_of_mem ?_ (List.nodup_range (n := total))
    intro s1 s2 h1 h2 hne
    simp only [List.mem_range] at h1 h2
    intro j hj1 hj2
    rw [innerLoop_mem_residue total nodes _ j (Nat.mod_lt _ (by omega))] at hj1 hj2
    exact hne (residue_inj part total s1 s2 h1 h2 (hj1.2.symm.trans hj2.2))
  · intro i
    unfold nodeSeq
    simp only [List.mem_flatMap, List.mem_range]
    constructor
    · rintro ⟨s, _, hm⟩
      rw [innerLoop_mem_residue total nodes _ i (Nat.mod_lt _ (by omega))] at hm
      exact hm.1
    · intro hi
      obtain ⟨s, hs, hres⟩ := residue_surj part total (i % total) (Nat.mod_lt _ (by omega))
      refine ⟨s, hs, ?_⟩
      rw [innerLoop_mem_residue total nodes _ i (Nat.mod_lt _ (by omega))]
      exact ⟨hi, hres.symm⟩

/-- The order is a permutation of `0 … nodes-1`. -/
theorem nodeSeq_perm (part total nodes : Nat) (ht : 1 ≤ total) :
    (nodeSeq part total nodes).Perm (List.range nodes) := by
  have h := nodeSeq_each_once part total nodes ht
  rw [List.perm_ext_iff_of_nodup h.1 List.nodup_range]
  intro i
  rw [h.2 i, List.mem_range]

/-- With at least as many nodes as parts each part starts at the node with its own index. -/
theorem nodeSeq_first (part total nodes : Nat) (hp : part < total) (hn : total ≤ nodes) :
    (nodeSeq part total nodes).head? = some part := by
  unfold nodeSeq
  obtain ⟨t, rfl⟩ : ∃ t, total = t + 1 := ⟨total - 1, by omega⟩
  obtain ⟨n, rfl⟩ : ∃ n, nodes = n + 1 := ⟨nodes - 1, by omega⟩
  rw [List.range_succ_eq_map, List.flatMap_cons]
  simp only [Nat.add_zero, Nat.mod_eq_of_lt hp]
  unfold innerLoop
  simp [show part < n + 1 by omega]

/-- Distinct parts start at distinct nodes. -/
theorem nodeSeq_distinct_starts (p1 p2 total nodes : Nat) (h1 : p1 < total) (h2 : p2 < total)
    (hn : total ≤ nodes) (hne : p1 ≠ p2) :
    (nodeSeq p1 total nodes).head? ≠ (nodeSeq p2 total nodes).head? := by
  rw [nodeSeq_first p1 total nodes h1 hn, nodeSeq_first p2 total nodes h2 hn]
  intro h; exact hne (Option.some.inj h)

/-- Non-vacuity: a concrete instance of the hypotheses, with the computed order. -/
example : nodeSeq 1 3 7 = [1, 4, 2, 5, 0, 3, 6] := by decide

end NeoFS.EC
