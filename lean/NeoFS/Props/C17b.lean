import NeoFS.Lemmas.WCSched
import NeoFS.Model.WCFlush
/-!
# C17 (extension) — the background flush scheduler never loses an in-flight marker, and empties the cache

Model: `Model/WCSched.lean` (the batch cutting of `flushScheduler`, the `flushObjs` marker set, worker jobs) and the
flusher threads of `Model/WCFlush.lean`. `Props/C17.lean` (accounting, `Flush` pass) is unchanged.
-/
namespace NeoFS.WCSched

/-- **No address stays in `flushObjs` forever — scheduler side.** For every configuration, every candidate list and
every sequence of worker/error answers: each marker a pass sets is owned by a batch handed to a worker or has been
removed by the pass itself (repaired code). -/
theorem scheduler_no_leak (cfg : Cfg) (cands : List (Addr × Nat)) (oracle : List Bool) :
    ∀ a ∈ (pass cfg true cands oracle).marked,
      a ∈ (pass cfg true cands oracle).sent.flatten ∨ a ∈ (pass cfg true cands oracle).unmarked := by
  intro a ha
  have := cut_owned cfg cands [] 0 oracle {} (by intro y hy; simp at hy) (fun _ => rfl) a ha
  rcases this with h | h | h
  · exact Or.inl h
  · exact Or.inr h
  · simp at h

/-- The code BEFORE the repair leaks: a small object is queued, a big object forces the open batch out, the error
signal of a worker wins that select — the big object is marked, not queued, and never unmarked. -/
theorem scheduler_leak_before_fix :
    leaked (pass { thr := 100, maxCount := 128, maxSize := 10000 } false [(1, 10), (2, 500)] [false]) = [2] ∧
    leaked (pass { thr := 100, maxCount := 128, maxSize := 10000 } true [(1, 10), (2, 500)] [false]) = [] := by decide

/-- The loop as it was before the repairs (window model `passOrig`), WITHOUT any failure: two big objects — the first is
handed over twice, the second never, and its marker stays; three small objects with a count limit of two — the batch
after the full one re-sends object 2 and the last object is never sent. Replayed on the real scheduler before the fix. -/
theorem original_scheduler_drops_last_address :
    (passOrig { thr := 100, maxCount := 128, maxSize := 10000 } [(1, 500), (2, 600)] []).sent = [[1], [1]] ∧
    leaked (passOrig { thr := 100, maxCount := 128, maxSize := 10000 } [(1, 500), (2, 600)] []) = [2] ∧
    (passOrig { thr := 100, maxCount := 2, maxSize := 10000 } [(1, 10), (2, 20), (3, 30)] []).sent = [[1, 2], [2]] ∧
    leaked (passOrig { thr := 100, maxCount := 2, maxSize := 10000 } [(1, 10), (2, 20), (3, 30)] []) = [3] := by decide

/-- the repaired loop on the same inputs -/
example : (pass { thr := 100, maxCount := 128, maxSize := 10000 } true [(1, 500), (2, 600)] []).sent = [[1], [2]] ∧
    (pass { thr := 100, maxCount := 2, maxSize := 10000 } true [(1, 10), (2, 20), (3, 30)] []).sent = [[1, 2], [3]] := by decide

/-- When workers take every batch, a pass hands over every candidate exactly once, in order, and unmarks nothing. -/
theorem scheduler_hands_over_everything (cfg : Cfg) (fixed : Bool) (cands : List (Addr × Nat)) (oracle : List Bool)
    (h : oracle.all id = true) :
    (pass cfg fixed cands oracle).sent.flatten = cands.map (·.1) ∧ (pass cfg fixed cands oracle).marked = cands.map (·.1) ∧
    (pass cfg fixed cands oracle).unmarked = [] ∧ (pass cfg fixed cands oracle).aborted = false := by
  have := cut_all_taken cfg fixed cands [] 0 oracle {} h (fun _ => rfl)
  simpa [pass] using this

/-- **Invariant over ALL histories** of puts, scheduler passes (with arbitrary worker/error answers) and job ends
(with an arbitrary main-storage failure oracle): every marker in `flushObjs` belongs to a running job, which clears it
when it ends — whatever the outcome (`worker_exit_clears_markers` below). -/
theorem markers_always_owned (cfg : Cfg) (ops : List Op) : NoLeak (runSys cfg true {} ops) :=
  noLeak_run cfg ops {} (by intro a ha; simp at ha)

theorem removeAll_eq_nil {l xs : List Addr} (h : ∀ a ∈ l, a ∈ xs) : removeAll l xs = [] := by
  simp only [removeAll, List.filter_eq_nil_iff]
  intro a ha
  simp [h a ha]

/-- **Under fairness every cached address is eventually flushed.** From ANY state in which no marker is leaked
(all reachable states, by `markers_always_owned`), the fair continuation — the running jobs end, the scheduler makes one
pass whose batches are taken by workers, those jobs end, the main storage accepting writes and no new puts — leaves the
cache empty with no marker and no job. -/
theorem eventually_flushed (cfg : Cfg) (s : Sys) (h : NoLeak s) :
    let s1 := runSys cfg true s (drain s)
    let s2 := stepSys cfg true s1 (.pass [])
    let s3 := runSys cfg true s2 (drain s2)
    s3.cache = [] ∧ s3.inflight = [] ∧ s3.jobs = [] := by
  intro s1 s2 s3
  have d1 := drain_spec cfg true s.jobs.length s rfl
  have hj1 : s1.jobs = [] := d1.1
  have hi1 : s1.inflight = [] := by
    show (runSys cfg true s (drain s)).inflight = []
    unfold drain
    rw [d1.2.2]
    apply removeAll_eq_nil
    intro a ha
    obtain ⟨j, hj, haj⟩ := h a ha
    exact List.mem_flatten.mpr ⟨j, hj, haj⟩
  have hp := scheduler_hands_over_everything cfg true (candidates s1) [] (by simp)
  have hs2 : s2 = { s1 with
      inflight := (removeAll (s1.inflight ++ (pass cfg true (candidates s1) []).marked) (pass cfg true (candidates s1) []).unmarked),
      jobs := (s1.jobs ++ (pass cfg true (candidates s1) []).sent) } := rfl
  have d2 := drain_spec cfg true s2.jobs.length s2 rfl
  have hflat : s2.jobs.flatten = (candidates s1).map (·.1) := by
    rw [hs2]; simp only [hj1, List.nil_append]; exact hp.1
  refine ⟨?_, ?_, d2.1⟩
  · show (runSys cfg true s2 (drain s2)).cache = []
    unfold drain
    rw [d2.2.1, hflat, List.filter_eq_nil_iff]
    intro p hp'
    have hc : s2.cache = s1.cache := by rw [hs2]
    rw [hc] at hp'
    have : p ∈ candidates s1 := by
      unfold candidates
      rw [mem_sortBySize, List.mem_filter]
      exact ⟨hp', by simp [hi1]⟩
    have hmem : p.1 ∈ (candidates s1).map (·.1) := List.mem_map.mpr ⟨p, this, rfl⟩
    simp [hmem]
  · show (runSys cfg true s2 (drain s2)).inflight = []
    unfold drain
    rw [d2.2.2]
    apply removeAll_eq_nil
    intro a ha
    rw [hflat]
    have : s2.inflight = removeAll (s1.inflight ++ (pass cfg true (candidates s1) []).marked)
        (pass cfg true (candidates s1) []).unmarked := by rw [hs2]
    rw [this, mem_removeAll, hi1, List.nil_append, hp.2.1] at ha
    exact ha.1

/-! ## non-vacuity -/

/-- a pass over small and big objects with count threshold 2: batches [1,2] [3] then the big ones alone -/
example : (pass { thr := 100, maxCount := 2, maxSize := 10000 } true [(1, 10), (2, 20), (3, 30), (4, 500), (5, 600)] []).sent
    = [[1, 2], [3], [4], [5]] := by decide

/-- an error answer while the open batch [3] is forced out by the big object 4: repaired code unmarks 3 AND 4 -/
example : (pass { thr := 100, maxCount := 2, maxSize := 10000 } true [(1, 10), (2, 20), (3, 30), (4, 500)] [true, false]).unmarked
    = [3, 4] := by decide

/-- history: five objects, a pass aborted by an error, the failed job ends, retry pass, jobs end: empty cache -/
example : runSys { thr := 100, maxCount := 2, maxSize := 10000 } true {}
    [.put 1 10, .put 2 20, .put 3 30, .put 4 500, .pass [true, false], .finish 0 false, .pass [], .finish 0 true,
     .finish 0 true, .finish 0 true] = { cache := [], inflight := [], jobs := [] } := by decide

/-- the same history on the code before the repair: object 4 stays cached and marked for ever (no later pass picks it) -/
example : runSys { thr := 100, maxCount := 2, maxSize := 10000 } false {}
    [.put 1 10, .put 2 20, .put 3 30, .put 4 500, .pass [true, false], .finish 0 false, .pass [], .finish 0 true,
     .finish 0 true, .pass [], .pass []] = { cache := [(4, 500)], inflight := [4], jobs := [] } := by decide

/-! ## the batch a worker was given versus what the scheduler's address array holds now (`BSys`)

A worker reads its batch — a window of the pass's sorted-address array — a second time when it is done, to unmark the
addresses; in between the scheduler may have run any number of passes over other objects (the worker sits in its
main-storage put). The theorems below are over ALL histories of puts, passes (any worker/error answers) and job ends in
any order and at any distance from their hand-over. -/

/-- **No pass ever changes a batch that a worker still holds**: in every reachable state the window of every running job
holds exactly the addresses the job was given (the code allocates the array of each pass; arrays of earlier passes
are never written again). -/
theorem batches_never_overwritten (cfg : Cfg) (ops : List Op) :
    ∀ j ∈ (runB cfg false {} ops).jobs, window (runB cfg false {} ops).bufs j = j.given :=
  fun j hj => ((runB_fresh cfg ops {} views_init).1 j hj).2

/-- **Every address handed to a worker is unmarked when that worker is done** — whenever that is (any number of passes
later), with whatever outcome. -/
theorem worker_unmarks_its_batch (cfg : Cfg) (ops : List Op) (i : Nat) (ok : Bool) (j : Job)
    (hj : (runB cfg false {} ops).jobs[i]? = some j) :
    ∀ a ∈ j.given, a ∉ (stepB cfg false (runB cfg false {} ops) (.finish i ok)).inflight := by
  intro a ha
  have hw := batches_never_overwritten cfg ops j (List.mem_of_getElem? hj)
  simp only [stepB, hj, hw, mem_removeAll]
  exact fun h => h.2 ha

/-- the array-level system is the marker bookkeeping of `Sys` (all theorems above carry over) -/
theorem buffers_refine (cfg : Cfg) (ops : List Op) : toSys (runB cfg false {} ops) = runSys cfg true {} ops :=
  (runB_fresh cfg ops {} views_init).2

/-- every marker is owned by a running job that was GIVEN the address (and will therefore clear it) -/
theorem markers_always_owned_buffers (cfg : Cfg) (ops : List Op) :
    ∀ a ∈ (runB cfg false {} ops).inflight, ∃ j ∈ (runB cfg false {} ops).jobs, a ∈ j.given := by
  intro a ha
  have h := markers_always_owned cfg ops
  rw [← buffers_refine] at h
  obtain ⟨g, hg, hag⟩ := h a ha
  simp only [toSys, List.mem_map] at hg
  obtain ⟨j, hj, rfl⟩ := hg
  exact ⟨j, hj, hag⟩

/-- **Everything is eventually flushed, however long workers held their batches**: from the state after ANY history
(jobs still running, handed over any number of passes ago) the fair continuation — running jobs end, one pass whose
batches are taken, those jobs end, storage accepting — leaves the cache empty with no marker and no job. -/
theorem eventually_flushed_buffers (cfg : Cfg) (ops : List Op) :
    let s := runB cfg false {} ops
    let s1 := runB cfg false s (drain (toSys s))
    let s2 := stepB cfg false s1 (.pass [])
    let s3 := runB cfg false s2 (drain (toSys s2))
    s3.cache = [] ∧ s3.inflight = [] ∧ s3.jobs = [] := by
  intro s s1 s2 s3
  have h0 := runB_fresh cfg ops {} views_init
  have hn : NoLeak (toSys s) := by
    show NoLeak (toSys (runB cfg false {} ops))
    rw [buffers_refine]; exact markers_always_owned cfg ops
  have h1 := runB_fresh cfg (drain (toSys s)) s h0.1
  have h2 := stepB_fresh cfg s1 (.pass []) h1.1
  have h3 := runB_fresh cfg (drain (toSys s2)) s2 h2.1
  have e := eventually_flushed cfg (toSys s) hn
  simp only [] at e
  have e1 : toSys s1 = runSys cfg true (toSys s) (drain (toSys s)) := h1.2
  have e2 : toSys s2 = stepSys cfg true (toSys s1) (.pass []) := h2.2
  have e3 : toSys s3 = runSys cfg true (toSys s2) (drain (toSys s2)) := h3.2
  rw [← e1, ← e2, ← e3] at e
  refine ⟨e.1, e.2.1, ?_⟩
  have : s3.jobs.map (·.given) = [] := e.2.2
  exact List.map_eq_nil_iff.mp this

/-- **An address array kept between the passes breaks it** (`sortedAddrs = sortedAddrs[:0]`): object 1 is handed to a
worker that stalls in its main-storage put; object 2 arrives, the next pass writes it over the array's front and a
second worker flushes it; the stalled put of 1 fails — the worker unmarks what its window holds NOW (2), object 1 stays
marked with no job, every later pass skips it: it never leaves the cache. With an array per pass the same history
ends with an empty cache. -/
theorem buffer_reuse_leaks :
    runB { thr := 100, maxCount := 128, maxSize := 10000 } true {}
      [.put 1 10, .pass [], .put 2 20, .pass [], .finish 1 true, .finish 0 false, .pass [], .pass []]
      = { cache := [(1, 10)], inflight := [1], bufs := [[2]], jobs := [] } ∧
    runB { thr := 100, maxCount := 128, maxSize := 10000 } false {}
      [.put 1 10, .pass [], .put 2 20, .pass [], .finish 1 true, .finish 0 false, .pass [], .finish 0 true]
      = { cache := [], inflight := [], bufs := [[1], [2], [1]], jobs := [] } := by decide

/-- non-vacuity: a state with a job that has been running over two later passes, its window intact -/
example : (runB { thr := 100, maxCount := 2, maxSize := 10000 } false {}
    [.put 1 10, .put 2 20, .put 3 30, .pass [], .finish 0 true, .put 4 15, .put 5 500, .pass [], .finish 1 true, .finish 1 true,
     .put 6 5, .pass [], .finish 1 true]).jobs = [{ given := [3], buf := 0, lo := 2 }] := by decide

end NeoFS.WCSched

namespace NeoFS.WCFlush

/-- the `flushObjs` markers a flusher thread is responsible for -/
def flMarks : Pc → Option (List Addr)
  | .flRead _ _ m _ => some m
  | .flPut _ m => some m
  | .flDel _ _ m => some m
  | .flCtr _ _ _ m => some m
  | _ => none

/-- **No address stays in `flushObjs` forever — worker side.** Whenever a flusher thread ends (the step makes it idle),
on the success path, on the failure path of the main-storage put, and when the file was already gone, the markers of
all addresses of its job are cleared. For every state, oracle value and removal order, in both step orders. -/
theorem worker_exit_clears_markers (d : Bool) (s : St) (t : Tid) (ok : Bool) (pick : Nat) (m : List Addr)
    (h : flMarks (s.pc t) = some m) (hidle : (stepThread d s t ok pick).1.pc t = .idle) :
    ∀ a ∈ m, (stepThread d s t ok pick).1.inflight a = false := by
  intro a ha
  revert hidle
  unfold stepThread
  cases hpc : s.pc t with
  | idle => rw [hpc] at h; simp [flMarks] at h
  | rdCtr b tag => rw [hpc] at h; simp [flMarks] at h
  | rdFile b tag => rw [hpc] at h; simp [flMarks] at h
  | rdMain b tag => rw [hpc] at h; simp [flMarks] at h
  | wrFile b x => rw [hpc] at h; simp [flMarks] at h
  | wrCtr b x => rw [hpc] at h; simp [flMarks] at h
  | wrMain b x => rw [hpc] at h; simp [flMarks] at h
  | dlFile b => rw [hpc] at h; simp [flMarks] at h
  | dlCtr b => rw [hpc] at h; simp [flMarks] at h
  | dlMain b => rw [hpc] at h; simp [flMarks] at h
  | flRead todo got m' single =>
    rw [hpc] at h; simp only [flMarks, Option.some.injEq] at h; subst h
    cases todo with
    | cons b rest => simp only []; split <;> (intro hidle; simp [St.setPc, upd] at hidle)
    | nil =>
      simp only []
      split
      · intro _; simp [finish, clearMarks, ha]
      · split <;> (intro hidle; simp [St.setPc, upd] at hidle)
  | flPut got m' =>
    rw [hpc] at h; simp only [flMarks, Option.some.injEq] at h; subst h
    simp only []
    split
    · split
      · intro _; simp [finish, clearMarks, ha]
      · intro hidle; simp [St.setPc, upd] at hidle
    · intro _; simp [finish, clearMarks, ha]
  | flDel todo pend m' =>
    rw [hpc] at h; simp only [flMarks, Option.some.injEq] at h; subst h
    simp only []
    split
    · split
      · intro _; simp [finish, clearMarks, ha]
      · intro hidle; simp [St.setPc, upd] at hidle
    · split <;> (intro hidle; simp [St.setPc, upd] at hidle)
  | flCtr b todo pend m' =>
    rw [hpc] at h; simp only [flMarks, Option.some.injEq] at h; subst h
    simp only []
    intro hidle; simp [upd] at hidle

/-- a job whose main-storage put fails ends at once with its markers cleared and the cache untouched (it is retried) -/
example : (run false init [.write 0 1 7 true, .step 0 true 0, .step 0 true 0, .flush 1 [1] true, .step 1 true 0,
    .step 1 true 0, .step 1 false 0]).1.inflight 1 = false ∧
    (run false init [.write 0 1 7 true, .step 0 true 0, .step 0 true 0, .flush 1 [1] true, .step 1 true 0,
    .step 1 true 0, .step 1 false 0]).1.files 1 = some 7 := by decide

end NeoFS.WCFlush
