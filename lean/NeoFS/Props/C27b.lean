import NeoFS.Props.C27
/-!
# C27 (extension) — a copy is reported only if the remote node stored the object; the shortage counter never wraps

* `Replicator.HandleTask` with a context cancelled while a transfer is in flight (`sendLoopC`, `handleTaskC`; op
  `task` of the policer engine), for tasks with and without the object: for EVERY environment, quantity, node list
  and cancellation point the report has at most `quantity` entries, all nodes of the task, and every reported remote
  node really stored the object — in particular the node whose transfer was interrupted is never reported
  (`interrupted_transfer_not_reported`); without a cancellation the loop is the one the C26/C27 pass theorems use
  (`handleTaskC_no_cut`).
* the `uint32` shortage counter of `processNodes` (`dec32` wraps at zero): for EVERY environment — maintenance nodes
  of the network map at any position, the local node anywhere or absent — the counter never grows through the node
  loop (`shortage_never_wraps`), and therefore no replication task ever asks for more copies than the rule requires,
  except the rebalancing task that asks for exactly one copy per candidate (`task_quantity_bounded`,
  `pass_task_quantity_bounded`).
-/
namespace NeoFS.Policer

/-! ### the replicator -/

theorem sendLoopC_sound (e : Env) (w : Bool) (q : Nat) (nodes : List Nat) :
    (sendLoopC e w q nodes).length ≤ q ∧
      ∀ n ∈ sendLoopC e w q nodes, n ∈ nodes ∧ ((n = e.me ∧ w = true) ∨ (n ≠ e.me ∧ storedBy e n = true)) := by
  induction nodes generalizing q with
  | nil => simp [sendLoopC]
  | cons a as ih =>
    unfold sendLoopC
    split_ifs with h0 h1 hw hc hs h2
    · simp
    · obtain ⟨l, m⟩ := ih (q - 1)
      refine ⟨by simp only [List.length_cons]; omega, ?_⟩
      intro n hn
      rcases List.mem_cons.mp hn with rfl | hn
      · exact ⟨List.mem_cons_self, Or.inl ⟨h1, hw⟩⟩
      · exact ⟨List.mem_cons_of_mem _ (m n hn).1, (m n hn).2⟩
    · obtain ⟨l, m⟩ := ih q
      exact ⟨l, fun n hn => ⟨List.mem_cons_of_mem _ (m n hn).1, (m n hn).2⟩⟩
    · refine ⟨by simp only [List.length_singleton]; omega, ?_⟩
      intro n hn
      simp only [List.mem_singleton] at hn
      subst hn
      exact ⟨List.mem_cons_self, Or.inr ⟨h1, hs⟩⟩
    · simp
    · obtain ⟨l, m⟩ := ih (q - 1)
      refine ⟨by simp only [List.length_cons]; omega, ?_⟩
      intro n hn
      rcases List.mem_cons.mp hn with rfl | hn
      · refine ⟨List.mem_cons_self, Or.inr ⟨h1, ?_⟩⟩
        unfold storedBy
        have : (e.cutAt != some n) = true := by simpa using hc
        simp [h2, this]
      · exact ⟨List.mem_cons_of_mem _ (m n hn).1, (m n hn).2⟩
    · obtain ⟨l, m⟩ := ih q
      exact ⟨l, fun n hn => ⟨List.mem_cons_of_mem _ (m n hn).1, (m n hn).2⟩⟩

/-- **The replicator's report is sound whenever the context is cancelled**: at most `quantity` successes, only nodes
of the task, the local node only when the task carried the object (it was put into the local storage), and a remote
node only if it really stored the object. -/
theorem handleTaskC_sound (e : Env) (w : Bool) (q : Nat) (nodes : List Nat) :
    (handleTaskC e w q nodes).length ≤ q ∧
      ∀ n ∈ handleTaskC e w q nodes, n ∈ nodes ∧ ((n = e.me ∧ w = true) ∨ (n ≠ e.me ∧ storedBy e n = true)) := by
  unfold handleTaskC
  split_ifs
  · exact sendLoopC_sound e w q nodes
  · simp

/-- The node whose transfer was interrupted by the cancellation (and did not store the object) is never reported. -/
theorem interrupted_transfer_not_reported (e : Env) (w : Bool) (q : Nat) (nodes : List Nat) (n : Nat)
    (hc : e.cutAt = some n) (hs : e.cutStored = false) (hme : n ≠ e.me) : n ∉ handleTaskC e w q nodes := by
  intro hn
  rcases ((handleTaskC_sound e w q nodes).2 n hn).2 with ⟨h, _⟩ | ⟨_, h⟩
  · exact hme h
  · simp [storedBy, hc, hs] at h

theorem sendLoopC_no_cut (e : Env) (hc : e.cutAt = none) (q : Nat) (nodes : List Nat) :
    sendLoopC e false q nodes = sendLoop e q nodes := by
  induction nodes generalizing q with
  | nil => simp [sendLoopC, sendLoop]
  | cons a as ih =>
    unfold sendLoopC sendLoop
    simp only [hc, Bool.false_eq_true, if_false, reduceCtorEq]
    split_ifs <;> simp [ih]

/-- Without a cancellation the loop is the one of the pass model (`handleTask`), whose soundness the C26/C27 pass
theorems use. -/
theorem handleTaskC_no_cut (e : Env) (hc : e.cutAt = none) (q : Nat) (nodes : List Nat) :
    handleTaskC e false q nodes = handleTask e q nodes := by
  unfold handleTaskC handleTask
  simp [sendLoopC_no_cut e hc]

/-! ### the shortage counter -/

/-- **The `uint32` shortage counter never wraps**: through the node loop of `processNodes` — whatever nodes are in
the MAINTENANCE state of the network map, wherever the local node is — the counter only goes down. -/
theorem shortage_never_wraps (e : Env) (c : Ctx) (l : Loop) (nodes : List Nat) :
    (walk e c l nodes).2.shortage ≤ l.shortage :=
  (walk_mono e nodes c l).shortage

theorem walk_cands_length (e : Env) (ns : List Nat) (c : Ctx) (l : Loop) :
    (walk e c l ns).2.cands.length ≤ l.cands.length + ns.length := by
  induction ns generalizing c l with
  | nil => simp [walk]
  | cons a as ih =>
    unfold walk
    split_ifs
    · simp
    · have h := ih (nodeStep e c l a).1 (nodeStep e c l a).2
      have hs : (nodeStep e c l a).2.cands.length ≤ l.cands.length + 1 := by
        unfold nodeStep
        simp only
        split_ifs
        · simp
        · simp
        · simp [onMaint]
        · split
          · simp
          · simp
          · split <;> simp [onMaint]
      simp only [List.length_cons]
      omega

/-- a task is bounded when it asks for at most `bound` copies, or for exactly one copy per candidate -/
def TaskBounded (bound : Nat) (t : Task) : Prop := t.quantity ≤ bound ∨ t.quantity = t.nodes.length

/-- Every task `processNodes` issues for a list asks for at most the number of copies the rule requires (shortage
replication), or for exactly one copy per candidate node (rebalancing); a rebalancing task never has more
candidates than the list has nodes. -/
theorem task_quantity_bounded (e : Env) (legacy : Bool) (t : OType) (c : Ctx) (nodes : List Nat) (k : Nat) :
    ∀ tk ∈ (processNodes e legacy t c nodes k).tasks,
      tk ∈ c.tasks ∨ (TaskBounded (startShortage t nodes k) tk ∧ tk.nodes.length ≤ nodes.length) := by
  intro tk htk
  unfold processNodes at htk
  dsimp only at htk
  have hsh := shortage_never_wraps e c { shortage := startShortage t nodes k } nodes
  have hcl := walk_cands_length e nodes c { shortage := startShortage t nodes k }
  have htasks := (walk_mono e nodes c { shortage := startShortage t nodes k }).tasks
  generalize walk e c { shortage := startShortage t nodes k } nodes = r at htk hsh hcl htasks
  simp only [List.length_nil, Nat.zero_add] at hcl
  have key : ∀ q, (q ≤ startShortage t nodes k ∨ q = r.2.cands.length) →
      tk ∈ (replicate e r.1 q r.2.cands).tasks →
        tk ∈ c.tasks ∨ (TaskBounded (startShortage t nodes k) tk ∧ tk.nodes.length ≤ nodes.length) := by
    intro q hq h
    simp only [replicate, List.mem_append, List.mem_singleton] at h
    rcases h with h | rfl
    · exact Or.inl (htasks ▸ h)
    · exact Or.inr ⟨hq.elim Or.inl Or.inr, hcl⟩
  unfold finish at htk
  split_ifs at htk
  all_goals first
    | exact key _ (Or.inl hsh) htk
    | exact key _ (Or.inr rfl) htk
    | exact Or.inl (htasks ▸ htk)

theorem runVectors_quantity_bounded (e : Env) (legacy : Bool) (t : OType) (vs : List (List Nat × Nat)) (c : Ctx) :
    ∀ tk ∈ (runVectors e legacy t c vs).tasks,
      tk ∈ c.tasks ∨ ∃ v ∈ vs, TaskBounded (startShortage t v.1 v.2) tk ∧ tk.nodes.length ≤ v.1.length := by
  induction vs generalizing c with
  | nil => exact fun tk h => Or.inl h
  | cons v vs ih =>
    intro tk htk
    unfold runVectors at htk
    rcases ih _ tk htk with h | ⟨w, hw, hb⟩
    · rcases task_quantity_bounded e legacy t c v.1 v.2 tk h with h | h
      · exact Or.inl h
      · exact Or.inr ⟨v, List.mem_cons_self, h⟩
    · exact Or.inr ⟨w, List.mem_cons_of_mem _ hw, hb⟩

/-- **No pass ever asks for more copies than a rule requires**: every replication task of every pass (any
environment, object, placement; old and repaired decision chain) is bounded by the requirement of one of the rules
the pass walks, or is the rebalancing task with one copy per candidate, or is the single-copy move of an EC part. -/
theorem pass_task_quantity_bounded (e : Env) (legacy : Bool) (o : Obj) (p : Placement) :
    ∀ tk ∈ (processObject e legacy o p).tasks,
      tk.quantity = 1 ∨ ∃ v ∈ effVectors o p, TaskBounded (startShortage o.typ v.1 v.2) tk ∧ tk.nodes.length ≤ v.1.length := by
  have rep : ∀ pre, ∀ tk ∈ (repPart e legacy o p pre).tasks,
      tk.quantity = 1 ∨ ∃ v ∈ effVectors o p, TaskBounded (startShortage o.typ v.1 v.2) tk ∧ tk.nodes.length ≤ v.1.length := by
    intro pre tk htk
    have h : tk ∈ (runVectors e legacy o.typ {} (effVectors o p)).tasks := by
      unfold repPart verdict at htk
      split_ifs at htk <;> exact htk
    rcases runVectors_quantity_bounded e legacy o.typ (effVectors o p) {} tk h with h | h
    · simp at h
    · exact Or.inr h
  have ec : ∀ seq, ∀ tk ∈ (ecPartByRule e seq).tasks, tk.quantity = 1 := by
    intro seq tk htk
    unfold ecPartByRule at htk
    simp only at htk
    split at htk
    · simp at htk
    · simp at htk
    · split_ifs at htk
      all_goals first
        | (simp at htk; done)
        | (simp only [List.mem_singleton] at htk; subst htk; rfl)
  intro tk htk
  unfold processObject at htk
  split at htk
  · simp at htk
  · simp at htk
  · split at htk
    · split_ifs at htk
      · split at htk
        · simp at htk
        · split_ifs at htk
          · simp at htk
          · exact Or.inl (ec _ tk htk)
      · exact rep _ tk htk
    · split_ifs at htk
      · simp at htk
      · exact rep _ tk htk

/-- Non-vacuity, the seeded scenario: REP 2 over six nodes, nodes 1, 2 and 5 hold the object, node 3 is in the
MAINTENANCE state of the network map and is met after the shortage is covered, the local node 5 stands behind it:
the pass issues no task at all and keeps nothing it should not (the counter stays at zero). -/
example :
    let e : Env := { me := 5, inNetmap := true, flag := fun n => n == 3,
                     ans := fun n => if n = 1 ∨ n = 2 ∨ n = 5 then .holds else .notFound, repl := fun _ => true }
    let out := processObject e false { typ := .regular } { lists := [[1, 2, 3, 4, 5, 6]], rep := [2] }
    out.tasks = [] ∧ out.dels = [.redundant] ∧ out.heads = [1, 2] := by
  decide

/-- Non-vacuity of the replicator theorem: the context is cancelled while the object is being sent to node 2, which
does not get it: node 1 is reported, node 2 is not, node 3 is never tried. -/
example :
    let e : Env := { me := 9, inNetmap := true, flag := fun _ => false, ans := fun _ => .err, repl := fun _ => true,
                     cutAt := some 2 }
    handleTaskC e false 3 [1, 2, 3] = [1] := by
  decide

end NeoFS.Policer
