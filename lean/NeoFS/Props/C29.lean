import NeoFS.Gen.Handlers
import NeoFS.Lemmas.Handlers
/-!
# C29 — every object RPC checks authenticity and access before any effect

The handler terms `Gen.objectHandlers` are regenerated from `/repo`'s working tree on every check run by
`harness/extract` (every method of `protoobject.ObjectServiceServer` plus every exported method of the
server with the parameter list of one of them, so a new RPC appears here automatically). The theorems below
are about ALL runs of each term: any outcome of every check, any branch decision consistent with those
outcomes, any number of loop iterations (semantics `Handlers.Run`, soundness `Handlers.checker_sound`).
Policies are written over `lastOutcomes pre`: the latest outcome of every check in the history that precedes
the effect (`Lemmas/Handlers.lean` proves that the packed state the checker computes with is exactly that).

`checker … = true` is discharged by kernel evaluation of the executable checker on the finite generated
term; that is a proof about the term, not a sample of its runs (the quantifier over runs is in
`checker_sound`, proved once by induction).
-/
namespace NeoFS.C29
open NeoFS.Handlers

/-- What must hold when a client-facing object handler performs an effect (`g t` = latest outcome of check
`t` so far, `none` = not called).

* building/sending a typed response is always allowed (refusals are answered with a status);
* continuing or closing a PUT stream (`putCont`) is allowed only if no check of this stream has been denied
  (the stream is opened by an init message that passed all checks; putsvc.Streamer itself refuses chunks
  before a successful Init — assumption, exercised by the `rpc` engine);
* anything that reaches storage, another node, or writes data into the response stream requires: the request
  signatures verified (latest outcome `pass`), no token of the request refused (absent = the request carried
  none), and either request classification passed + basic ACL passed + sticky bit not refused + extended ACL
  `pass`/`soft` (no matching rule: basic ACL decides), or request classification said "skip" (`soft`:
  ErrSkipRequest, which only the PUT path accepts; every other handler treats it as a failure);
* control-plane effects never happen in object handlers. -/
def clientPolicyV : Eff → (Tag → Option Out) → Bool := fun e g =>
  match e with
  | .respond => true
  | .ctl => false
  | .putCont =>
    [Tag.sig, .maint, .token, .reqInfo, .basic, .sticky, .eacl].all fun t => g t != some .deny
  | _ =>
    g .sig == some .pass && (g .token == none || g .token == some .pass) &&
      ((g .reqInfo == some .pass && g .basic == some .pass &&
          (g .sticky == none || g .sticky == some .pass) &&
          (g .eacl == some .pass || g .eacl == some .soft)) ||
        g .reqInfo == some .soft)

/-- `Replicate` is a node-to-node call with its own authentication: the object signature must verify and both
container-node lookups must have succeeded before the object is stored (who is a container node is C31). -/
def replicatePolicyV : Eff → (Tag → Option Out) → Bool := fun e g =>
  match e with
  | .respond => true
  | .storage => g .objSig == some .pass && g .cnrSrv == some .pass && g .cnrCli == some .pass
  | _ => false

/-- Handlers that are not client operations. Every other handler of the service — including any handler
added later — must satisfy the client policy. -/
def nonClient : List String := ["Replicate"]

def policyForV (name : String) : Eff → (Tag → Option Out) → Bool :=
  if name ∈ nonClient then replicatePolicyV else clientPolicyV

/-- PUT additionally applies the sticky-bit check whenever it applies the basic ACL. -/
def putStickyPolicyV : Eff → (Tag → Option Out) → Bool := fun e g =>
  match e with
  | .storage => g .reqInfo == some .soft || g .sticky == some .pass
  | _ => true

set_option maxRecDepth 100000 in
/-- The checker accepts every generated object handler under its policy (kernel evaluation). A handler added
to the service is in `Gen.objectHandlers` and therefore under this obligation. -/
theorem all_handlers_checked :
    ∀ h ∈ Gen.objectHandlers, checker (Policy.ofView (policyForV h.1)) h.2 = true := by
  decide +kernel

/-- **C29, static part.** On every run of every object service handler of the current program, every effect
is preceded by a history in which the checks the handler's policy requires were evaluated with a passing
latest result: signatures, tokens, request classification, basic and extended ACL come before any storage
read/write, forwarding or data-carrying response. -/
theorem effects_follow_checks :
    ∀ h ∈ Gen.objectHandlers, ∀ (evs : List Event) (x : Option Nat), Run allOuts h.2 St.init evs x →
      ∀ (pre post : List Event) (e : Eff), evs = pre ++ Event.effect e :: post →
        policyForV h.1 e (lastOutcomes pre) = true :=
  fun h hh _ _ hr _ _ _ hs => checker_sound_view (all_handlers_checked h hh) hr hs

/-- A failed check is followed by nothing but the answer: after a denied signature check (and no later,
passing one) no storage, forwarding or data effect can occur in a client handler. -/
theorem denied_signature_blocks_effects :
    ∀ h ∈ Gen.objectHandlers, h.1 ∉ nonClient → ∀ (evs : List Event) (x : Option Nat),
      Run allOuts h.2 St.init evs x → ∀ (pre post : List Event) (e : Eff), evs = pre ++ Event.effect e :: post →
        lastOutcomes pre .sig = some .deny → e = .respond := by
  intro h hh hn evs x hr pre post e hs hd
  have hp := effects_follow_checks h hh evs x hr pre post e hs
  simp only [policyForV, hn, if_false] at hp
  cases e <;> simp_all [clientPolicyV]

set_option maxRecDepth 100000 in
theorem put_applies_sticky_bit :
    ∀ h ∈ Gen.objectHandlers, h.1 = "Put" → checker (Policy.ofView putStickyPolicyV) h.2 = true := by
  decide +kernel

/-- Non-vacuity: the checker is not trivially true. A handler that reads storage right after the signature
check (no ACL) is rejected, so is one that performs the effect before the check; the accepted shape is. -/
example : checker (Policy.ofView clientPolicyV) (.seq (.chk .sig) (.seq (.alt (.seq (.asm .sig [.soft, .deny]) (.exit 0)) (.asm .sig [.pass]))
    (.eff .storage))) = false := by decide
example : checker (Policy.ofView clientPolicyV) (.seq (.eff .storage) (.chk .sig)) = false := by decide
example : checker (Policy.ofView clientPolicyV)
    (.scope (.seq (.chk .sig) (.seq (.alt (.seq (.asm .sig [.soft, .deny]) (.exit 0)) (.asm .sig [.pass]))
      (.seq (.chk .reqInfo) (.seq (.alt (.seq (.asm .reqInfo [.soft, .deny]) (.exit 0)) (.asm .reqInfo [.pass]))
        (.seq (.chk .basic) (.seq (.alt (.seq (.asm .basic [.deny]) (.exit 0)) (.asm .basic [.pass]))
          (.seq (.chk .eacl) (.seq (.alt (.seq (.asm .eacl [.deny]) (.exit 0)) (.asm .eacl [.pass, .soft]))
            (.eff .storage)))))))))) = true := by decide
/-- Non-vacuity of the semantics: the accepted shape has a run that reaches the effect. -/
example : Run allOuts (.seq (.chk .sig) (.seq (.asm .sig [.pass]) (.eff .storage))) St.init
    ([.check .sig .pass] ++ ([] ++ [.effect .storage])) none :=
  .seqN (.chk (by simp [allOuts])) (.seqN (.asm (by intro o h; simp [runEv, applyEv, St.put, St.erase, St.get, St.init, Tag.idx, Out.code] at h; simp [h])) .eff)
/-- Real client handlers do have effects (the theorem is not about empty programs). -/
example : (Gen.objectHandlers.filter fun h => reachesEffect [] h.2).map (·.1) =
    ["Delete", "Get", "GetRange", "HeadBuffered", "Put", "Replicate", "SearchV2Buffered"] := by decide +kernel

end NeoFS.C29
