import NeoFS.Lemmas.Resync
/-!
# C18 — rebuilding metadata from blobs gives the same object statuses in any blob order

Model: `Model/Resync.lean` (`resync epoch order` = `Reset` + batches of `resyncBatchSize` through `PutBatch`
with its skip-without-roll-back rule) over the metabase model `Model/Meta.lean`.

The full statement (`C18_full`) is FALSE for the current code: `C18_counterexample` and the theorems
`order_dependent_*` give concrete stored sets (replayed on the real metabase from `corpus/resync/`).  What is
proved for ALL sets and ALL permutations:

* `resync_perm_invariant_partial` — inside the fragment `plainObjs` (any number of containers; per container
  unsplit regular objects, tombstones and locks where no tombstone/lock targets a tombstone or lock, no id is
  the target of both a tombstone and a lock, and a tombstone's target carries no expiration) the rebuild never
  aborts and `Exists` / `IsLocked` of every address at every epoch are the same for every blob order;
* `resync_gc_reclaims_partial` — in that fragment every stored object is indexed or carries a garbage key and
  every address reported as removed carries a garbage key (`GetGarbage` lists it, GC reclaims the payload);
* `resync_eq_incremental_partial` — for EVERY history of puts at one epoch (any objects, split chains included)
  the rebuild from the accepted objects in history order reproduces the incremental metabase exactly;
* `resync_interleaving_partial` — for ANY objects: the rebuilt bucket of a container depends only on the order
  of that container's own blobs (buckets of different containers commute), as long as no put aborts.
-/
namespace NeoFS.Resync
open NeoFS.Meta

/-- **The property at full strength**: for every epoch, every stored set (each address once) and every
permutation of the blob order: the rebuild ends alike, every address has the same views at every epoch, every
stored blob is known to the rebuilt metabase (indexed or listed as garbage — otherwise GC can never reclaim
it) and every address reported as removed carries a garbage key. -/
def C18_full : Prop :=
  ∀ (epoch : Nat) (objs objs' : List Obj), objs.Perm objs' → (objs.map Obj.addr).Nodup →
    (resync epoch objs).2 = (resync epoch objs').2 ∧
    (∀ cn id e, id ≠ 0 → view (resync epoch objs).1 cn id e = view (resync epoch objs').1 cn id e) ∧
    (∀ o ∈ objs, known (resync epoch objs).1 o.addr.1 o.addr.2 = true) ∧
    (∀ cn id e, (dbExists (resync epoch objs).1 cn id e).2 = .alreadyRemoved →
      hasGarbageKey (resync epoch objs).1 cn id = true)

/-! ### the witnesses -/

def par9 : Hdr := { id := 9, typ := .regular, size := 40 }
def child1 : Hdr := { id := 1, typ := .regular, size := 5, parentId := 9, firstId := 1 }
def child2 : Hdr := { id := 2, typ := .regular, size := 6, parentId := 9, firstId := 1 }
def ts9 : Hdr := { id := 7, typ := .tombstone, assoc := 9 }
/-- the two children of split object 9 (each embeds the parent header), then the tombstone of 9 -/
def kidsFirst : List Obj := [(1, [child1, par9]), (1, [child2, par9]), (1, [ts9])]
/-- the same blobs, the tombstone met first -/
def tombFirst : List Obj := [(1, [ts9]), (1, [child1, par9]), (1, [child2, par9])]

/-- (a) A tombstone met BEFORE the children of a split object: each child is skipped as "already removed",
never indexed and gets no garbage key — `Exists` says "not found" where the other order says "removed", and the
child's blob is unknown to the metabase: GC can never reclaim it. -/
theorem order_dependent_tombstone_vs_children :
    view (resync 0 kidsFirst).1 1 1 0 = ((false, .alreadyRemoved), false) ∧
    view (resync 0 tombFirst).1 1 1 0 = ((false, .ok), false) ∧
    known (resync 0 kidsFirst).1 1 1 = true ∧ known (resync 0 tombFirst).1 1 1 = false := by decide

def obj3 : Hdr := { id := 3, typ := .regular, size := 5 }
def ts3 : Hdr := { id := 7, typ := .tombstone, assoc := 3 }
def lock3 : Hdr := { id := 8, typ := .lock, assoc := 3 }

/-- (b) LOCK versus TOMBSTONE of one target: whichever is met first wins. -/
theorem order_dependent_lock_vs_tombstone :
    view (resync 0 [(1, [obj3]), (1, [ts3]), (1, [lock3])]).1 1 3 0 = ((false, .alreadyRemoved), false) ∧
    view (resync 0 [(1, [obj3]), (1, [lock3]), (1, [ts3])]).1 1 3 0 = ((true, .ok), true) := by decide

def par9exp : Hdr := { id := 9, typ := .regular, size := 40, exp := some "1" }
def lock9 : Hdr := { id := 8, typ := .lock, assoc := 9 }

/-- (c) An expired split object and its LOCK (epoch 5, expiration 1): the second child met before the lock is
skipped as "expired" and never indexed; met after the lock it is indexed and available. -/
theorem order_dependent_expired_vs_lock :
    view (resync 5 [(1, [child1, par9exp]), (1, [child2, par9exp]), (1, [lock9])]).1 1 2 5 = ((false, .ok), false) ∧
    view (resync 5 [(1, [lock9]), (1, [child1, par9exp]), (1, [child2, par9exp])]).1 1 2 5 = ((true, .ok), false) ∧
    known (resync 5 [(1, [child1, par9exp]), (1, [child2, par9exp]), (1, [lock9])]).1 1 2 = false := by decide

def ts6 : Hdr := { id := 6, typ := .tombstone, assoc := 3 }
def lock6 : Hdr := { id := 7, typ := .lock, assoc := 6 }

/-- (d) A lock whose target id is a tombstone object (accepted while the target was not stored yet): met
after its target it is refused with "lock non regular", which `PutBatch` does not skip — the whole rebuild
FAILS in this order and succeeds in the other. -/
theorem order_dependent_abort :
    (resync 0 [(1, [ts6]), (1, [lock6])]).2 = .lockNonRegular ∧ (resync 0 [(1, [lock6]), (1, [ts6])]).2 = .ok := by
  decide

/-- (e) A child that carries only its parent's ID (no embedded header) met after the parent's tombstone IS
indexed and reported removed — but gets no garbage key: `GetGarbage` never lists it. -/
theorem order_dependent_unmarked_child :
    dbExists (resync 0 [(1, [ts9]), (1, [child2])]).1 1 2 0 = (false, .alreadyRemoved) ∧
    hasGarbageKey (resync 0 [(1, [ts9]), (1, [child2])]).1 1 2 = false ∧
    hasGarbageKey (resync 0 [(1, [child2]), (1, [ts9])]).1 1 2 = true := by decide

/-- **The full statement is false for the current code.** -/
theorem C18_counterexample : ¬ C18_full := by
  intro h
  have h1 := (h 0 kidsFirst tombFirst (by decide) (by decide)).2.1 1 1 0 (by decide)
  revert h1
  decide

/-- also the reclaim half alone fails (witness (a): a stored blob the rebuilt metabase does not know) -/
theorem C18_counterexample_reclaim :
    ¬ (∀ (epoch : Nat) (objs : List Obj), (objs.map Obj.addr).Nodup →
        ∀ o ∈ objs, known (resync epoch objs).1 o.addr.1 o.addr.2 = true) := by
  intro h
  have h1 := h 0 tombFirst (by decide) (1, [child1, par9]) (by decide)
  revert h1
  decide

/-! ### what holds for all sets and all orders -/

/-- **Order independence inside the fragment** — for every epoch of the rebuild, every list `hs` of unsplit
objects (container, header) satisfying the decidable predicate `plainObjs` and EVERY permutation `hs'` of it:
both rebuilds succeed and `DB.Exists` and `DB.IsLocked` answer the same for every address (non-zero id) at
every later epoch. -/
theorem resync_perm_invariant_partial (epoch : Nat) (hs hs' : List (Nat × Hdr)) (hperm : hs.Perm hs')
    (hf : plainObjs hs = true) :
    (resync epoch (toObjs hs)).2 = .ok ∧ (resync epoch (toObjs hs')).2 = .ok ∧
    ∀ cn id e, id ≠ 0 → view (resync epoch (toObjs hs)).1 cn id e = view (resync epoch (toObjs hs')).1 cn id e := by
  have hP := plainObjs_cn hs hf
  obtain ⟨d, hd, hinv⟩ := plain_final epoch hs hs hP (List.Perm.refl _)
  obtain ⟨d', hd', hinv'⟩ := plain_final epoch hs hs' hP hperm
  rw [hd, hd']
  refine ⟨rfl, rfl, fun cn id e hid => ?_⟩
  rw [view_eq_viewC, view_eq_viewC]
  unfold viewC
  obtain ⟨h1, h2⟩ := plain_views_eq (hP cn) (hinv cn) (hinv' cn) e id hid
  simp only
  rw [h1, h2, (hinv cn).nogc, (hinv' cn).nogc]

/-- **Reclaim inside the fragment** — after the rebuild from any permutation `hs'`: every stored object is
known to the metabase (indexed, or listed as garbage) and every address `Exists` reports as removed carries a
garbage key, i.e. `GetGarbage` lists it and the GC deletes its payload. -/
theorem resync_gc_reclaims_partial (epoch : Nat) (hs hs' : List (Nat × Hdr)) (hperm : hs.Perm hs')
    (hf : plainObjs hs = true) :
    (∀ p ∈ hs', known (resync epoch (toObjs hs')).1 p.1 p.2.id = true) ∧
    (∀ cn id e, (dbExists (resync epoch (toObjs hs')).1 cn id e).2 = .alreadyRemoved →
      hasGarbageKey (resync epoch (toObjs hs')).1 cn id = true) := by
  have hP := plainObjs_cn hs hf
  obtain ⟨d', hd', hinv'⟩ := plain_final epoch hs hs' hP hperm
  rw [hd']
  constructor
  · intro p hp
    have hm : p.2 ∈ hdrsIn hs p.1 := (mem_hdrsIn hs p.1 p.2).mpr (hperm.mem_iff.mpr hp)
    have hk := plain_known (hinv' p.1) p.2 hm
    unfold known
    cases hg : getCnr? d' p.1 with
    | none =>
      rw [hg] at hk
      simp [Cnr.find?] at hk
    | some c =>
      rw [hg] at hk
      exact hk
  · intro cn id e hrem
    unfold dbExists at hrem
    unfold hasGarbageKey
    cases hg : getCnr? d' cn with
    | none => rw [hg] at hrem; cases hrem
    | some c =>
      rw [hg] at hrem
      have inv := hinv' cn
      rw [hg] at inv
      simp only [Option.getD_some] at inv hrem ⊢
      have hst : c.status e id = .tombstoned := by
        unfold Cnr.exists_ at hrem
        rw [inv.nogc] at hrem
        simp only [Bool.false_eq_true, if_false] at hrem
        cases hs : c.status e id
        · rw [hs] at hrem
          simp only [if_true] at hrem
          cases hpi : c.parentInfo id <;> rw [hpi] at hrem <;> cases hrem
        · rw [hs] at hrem; cases hrem
        · rfl
        · rw [hs] at hrem; cases hrem
      exact plain_removed_has_key (hP cn) inv e id hst

/-- **The rebuild reproduces incremental construction** — for EVERY history of `DB.Put`s at one epoch (any
objects: split chains with parent headers, EC parts, links, tombstones, locks, refused puts included): the
rebuild from the accepted objects, met in history order, succeeds and gives exactly the metabase the history
built (every bucket, every counter). -/
theorem resync_eq_incremental_partial (epoch : Nat) (history : List Obj) :
    resync epoch (acceptedBy epoch [] history) = (incremental epoch [] history, .ok) :=
  (resyncB_of_runSeq resyncBatchSize epoch (by decide) _ _ (runSeq_acceptedBy epoch history [])).1

/-- **Containers do not interact** — for ANY two blob orders (any objects) in which every container's own
blobs come in the same relative order and no put aborts: every view of every address is the same. -/
theorem resync_interleaving_partial (epoch : Nat) (objs objs' : List Obj)
    (hsame : ∀ cn, chainsOf objs cn = chainsOf objs' cn)
    (hn : noAbort epoch objs = true) (hn' : noAbort epoch objs' = true) :
    ∀ cn id e, view (resync epoch objs).1 cn id e = view (resync epoch objs').1 cn id e := by
  intro cn id e
  unfold noAbort at hn hn'
  obtain ⟨d, hd⟩ := Option.isSome_iff_exists.mp hn
  obtain ⟨d', hd'⟩ := Option.isSome_iff_exists.mp hn'
  have h1 := resyncB_of_runSeq resyncBatchSize epoch (by decide) _ d hd
  have h2 := resyncB_of_runSeq resyncBatchSize epoch (by decide) _ d' hd'
  unfold resync
  rw [h1.1, h2.1, view_eq_viewC, view_eq_viewC, h1.2, h2.2]
  unfold resyncFold
  rw [bucket_of_fold, bucket_of_fold, hsame cn]

/-! ### non-vacuity -/

/-- two containers; regular objects with and without expiration, a tombstone and its target, two locks of one
target, a tombstone and a lock of ids nothing is stored under -/
def exPlain : List (Nat × Hdr) :=
  [(1, { id := 1, typ := .regular, size := 10 }), (1, { id := 7, typ := .tombstone, assoc := 1, exp := some "9" }),
   (1, { id := 2, typ := .regular, size := 3, exp := some "2" }), (1, { id := 5, typ := .lock, assoc := 2 }),
   (1, { id := 6, typ := .lock, assoc := 2, exp := some "4" }), (1, { id := 8, typ := .tombstone, assoc := 11 }),
   (2, { id := 1, typ := .regular, size := 4 }), (2, { id := 3, typ := .lock, assoc := 12 })]

example : plainObjs exPlain = true := by decide
/-- the hypothesis is met by a set on which the order matters for the bucket contents: the target met after
its tombstone is not indexed, met before it is — the views agree nevertheless -/
example :
    (known (resync 3 (toObjs exPlain)).1 1 1, known (resync 3 (toObjs exPlain.reverse)).1 1 1) = (true, true) ∧
    ((resync 3 (toObjs exPlain)).1 == (resync 3 (toObjs exPlain.reverse)).1) = false ∧
    view (resync 3 (toObjs exPlain)).1 1 1 3 = ((false, .alreadyRemoved), false) ∧
    view (resync 3 (toObjs exPlain)).1 1 2 3 = ((true, .ok), true) := by decide
example : acceptedBy 0 [] tombFirst = [(1, [ts9])] ∧ acceptedBy 0 [] kidsFirst = kidsFirst := by decide
example : noAbort 0 kidsFirst = true ∧ noAbort 0 [(1, [ts6]), (1, [lock6])] = false := by decide
/-- the fragment's predicate rejects each of the witnesses above -/
example : plainObjs [(1, obj3), (1, ts3), (1, lock3)] = false ∧ plainObjs [(1, ts6), (1, lock6)] = false ∧
    plainObjs [(1, child2), (1, ts9)] = false := by decide

end NeoFS.Resync
