import NeoFS.Model.Token
import NeoFS.Props.C28
/-!
# C30 — session and bearer tokens are honoured only when valid for the request

For each token kind the acceptance predicate of the code (a chain of early returns, `Model/Token.lean`) is proved equal to
the conjunction of the property's validity conditions, for ALL tokens, epochs/times and requests; an unaccepted session
token always REJECTS the request (it is never ignored), an unaccepted bearer token rejects it too, and a valid bearer
token whose rules the basic ACL does not allow for the operation is IGNORED (decision as without the token).
-/
namespace NeoFS.ACL

/-! ## acceptance = conjunction of the validity conditions -/

/-- V1 session token: accepted iff correctly signed by its issuer, within nbf/iat/exp at the current epoch, bound to the
request's container, to its object (unless a delete token or no object) and admitting its verb. -/
theorem v1_ok_iff (t : SessV1) (cur rv rc : Nat) (ro : Option Nat) :
    v1Check t cur rv rc ro = .ok ↔
      (t.sigOK = true ∧ t.signer = some t.issuer) ∧ (t.nbf ≤ cur ∧ t.iat ≤ cur ∧ cur ≤ t.exp) ∧
      t.cnr = rc ∧ objectRelated t ro = true ∧ verbAdmits rv t.verb = true := by
  unfold v1Check v1Lifetime v1Auth authOK
  by_cases hs : t.sigOK = true <;> by_cases hk : t.signer = some t.issuer <;>
    by_cases h1 : t.exp < cur <;> by_cases h2a : t.nbf ≤ cur <;> by_cases h2b : t.iat ≤ cur <;>
    by_cases hc : t.cnr = rc <;> by_cases ho : objectRelated t ro = true <;> by_cases hv : verbAdmits rv t.verb = true <;>
    simp [hs, hk, h1, h2a, h2b, hc, ho, hv] <;> omega

/-- V2 session token (no delegation chain): accepted iff structurally valid, correctly signed by its issuer, within
iat/nbf/exp at the chain time and with a context for the request's container (or any) listing its verb. -/
theorem v2_ok_iff (t : SessV2) (now rv rc : Nat) :
    v2Check t now rv rc = .ok ↔
      v2FieldsOK t = true ∧ (t.sigOK = true ∧ t.signer = some t.issuer) ∧ (t.iat ≤ now ∧ t.nbf ≤ now ∧ now ≤ t.exp) ∧
      v2Admits t rv rc = true := by
  unfold v2Check authOK
  by_cases hf : v2FieldsOK t = true <;> by_cases hs : t.sigOK = true <;> by_cases hk : t.signer = some t.issuer <;>
    by_cases he : t.exp < now <;> by_cases hi : t.iat ≤ now <;> by_cases hn : t.nbf ≤ now <;>
    by_cases hv : v2Admits t rv rc = true <;> simp [hf, hs, hk, he, hi, hn, hv] <;> omega

/-- bearer token: `VerifyBearerTokenMessage` accepts iff correctly signed by its issuer and within its lifetime -/
theorem bearer_ok_iff (b : Bearer) (cur : Nat) :
    bearerCheck b cur = .ok ↔ (b.sigOK = true ∧ b.signer = some b.issuer) ∧ (b.nbf ≤ cur ∧ b.iat ≤ cur ∧ cur ≤ b.exp) := by
  unfold bearerCheck lifetimeOK authOK
  by_cases hs : b.sigOK = true <;> by_cases hk : b.signer = some b.issuer <;> by_cases h1 : b.nbf ≤ cur <;>
    by_cases h2 : b.iat ≤ cur <;> by_cases h3 : cur ≤ b.exp <;> simp [hs, hk, h1, h2, h3]

theorem bearerCheck_eq_tokenOK (b : Bearer) (cur : Nat) : (bearerCheck b cur = .ok) ↔ bearerTokenOK b cur = true := by
  unfold bearerCheck bearerTokenOK
  cases lifetimeOK b.nbf b.iat b.exp cur <;> cases authOK b.sigOK b.signer b.issuer <;> simp

/-- the bearer token's table takes effect (is the table consulted by `CheckEACL`) only if the token is correctly signed,
within its lifetime, issued by the container owner, for this container and this requester, and the basic ACL allows
bearer rules for the operation -/
theorem bearer_effective_only_if_valid (r : Req) (b : Bearer) (hb : r.bearer = some b) (hns : skipCond r = false)
    (hserved : (decide r).served = true) (heff : consulted r = .table b.table) (hdiff : r.stored ≠ .table b.table) :
    bearerCheck b r.cur = .ok ∧ bearerForRequest b r.cnrOwner r.cnr r.author = true ∧
      bearerAllowed r.basic (effOp r) = true := by
  have hv := ((decide_eq_spec r hns).mp hserved).2 b hb
  unfold bearerValid at hv
  simp only [Bool.and_eq_true] at hv
  refine ⟨(bearerCheck_eq_tokenOK b r.cur).mpr hv.1, hv.2, ?_⟩
  rw [consulted_bearer_iff r b hb] at heff
  by_cases hba : bearerAllowed r.basic (effOp r) = true
  · exact hba
  · simp only [hba] at heff
    exact absurd heff hdiff

/-- an attached bearer token that is not valid for the request is never ignored: the request is rejected
(`deny-token` / `deny-bearer`), it is not served under the stored table -/
theorem bearer_invalid_rejects (r : Req) (b : Bearer) (hb : r.bearer = some b) (hns : skipCond r = false)
    (hinv : bearerCheck b r.cur ≠ .ok ∨ bearerForRequest b r.cnrOwner r.cnr r.author = false) :
    decide r = .denyToken ∨ decide r = .denyBearer := by
  unfold decide
  have ht : tokenBad r = !bearerTokenOK b r.cur := by simp [tokenBad, hb]
  have hm : bearerMismatch r = !bearerForRequest b r.cnrOwner r.cnr r.author := by simp [bearerMismatch, hb]
  cases h1 : bearerTokenOK b r.cur
  · left; simp [ht, h1]
  · right
    have h2 : bearerForRequest b r.cnrOwner r.cnr r.author = false := by
      rcases hinv with h | h
      · exact absurd ((bearerCheck_eq_tokenOK b r.cur).mpr h1) h
      · exact h
    simp [ht, hm, h1, h2, hns]

/-- a valid bearer token whose rules the basic ACL does not allow for the operation is ignored: same decision as without it -/
theorem bearer_ignored_when_not_allowed (r : Req) (b : Bearer) (hb : r.bearer = some b)
    (hv : bearerTokenOK b r.cur = true) (hf : bearerForRequest b r.cnrOwner r.cnr r.author = true)
    (hna : bearerAllowed r.basic (effOp r) = false) :
    decide r = decide { r with bearer := none } := by
  have hc : classify { r with bearer := none } = classify r := rfl
  have he : effOp { r with bearer := none } = effOp r := rfl
  have hs : stickyOK { r with bearer := none } = stickyOK r := rfl
  have hsk : skipCond { r with bearer := none } = skipCond r := rfl
  have ht : tokenBad r = false := by simp [tokenBad, hb, hv]
  have hm : bearerMismatch r = false := by simp [bearerMismatch, hb, hf]
  have ht' : tokenBad { r with bearer := none } = false := rfl
  have hm' : bearerMismatch { r with bearer := none } = false := rfl
  have hcons : consulted { r with bearer := none } = consulted r := by
    simp [consulted, bearerUsed, he, hna]
  have hchk : checkEACL { r with bearer := none } = checkEACL r := by
    unfold checkEACL
    rw [hc, hcons]
    rfl
  unfold decide
  rw [hc, he, hs, hsk, ht, hm, ht', hm', hchk]

/-! ## a session token that is not accepted rejects the request (it is never ignored) -/

theorem session_rejected_unless_ok (signer issuer : Nat) (res : TokRes) (h : res ≠ .ok) :
    credentials signer (some (issuer, res)) = none := by
  cases res <;> simp_all [credentials]

theorem session_effect_iff (signer issuer : Nat) (res : TokRes) :
    credentials signer (some (issuer, res)) = some issuer ↔ res = .ok := by
  cases res <;> simp [credentials]

/-- the request is judged under the token issuer's identity only if every validity condition holds for THIS request -/
theorem v1_effective_only_if_valid (signer : Nat) (t : SessV1) (cur rv rc : Nat) (ro : Option Nat)
    (h : credentials signer (some (t.issuer, v1Check t cur rv rc ro)) = some t.issuer) :
    (t.sigOK = true ∧ t.signer = some t.issuer) ∧ (t.nbf ≤ cur ∧ t.iat ≤ cur ∧ cur ≤ t.exp) ∧
      t.cnr = rc ∧ objectRelated t ro = true ∧ verbAdmits rv t.verb = true :=
  (v1_ok_iff t cur rv rc ro).mp ((session_effect_iff signer t.issuer _).mp h)

theorem v2_effective_only_if_valid (signer : Nat) (t : SessV2) (now rv rc : Nat)
    (h : credentials signer (some (t.issuer, v2Check t now rv rc)) = some t.issuer) :
    v2FieldsOK t = true ∧ (t.sigOK = true ∧ t.signer = some t.issuer) ∧ (t.iat ≤ now ∧ t.nbf ≤ now ∧ now ≤ t.exp) ∧
      v2Admits t rv rc = true :=
  (v2_ok_iff t now rv rc).mp ((session_effect_iff signer t.issuer _).mp h)

/-! ## V2 delegation chains: every token of the chain, down to the root, must be valid and signed by its own issuer -/

def Signed (t : LinkV2) : Prop := t.t.sigOK = true ∧ t.t.signer = some t.t.issuer

theorem authOK_iff (t : LinkV2) : authOK t.t.sigOK t.t.signer t.t.issuer = true ↔ Signed t := by
  unfold authOK Signed; simp

/-- the authentication walk (origin first, then the token, no depth bound) succeeds iff EVERY token of the chain is
signed by its issuer's key. Induction over the chain. -/
theorem v2ChainAuth_iff : ∀ (os : List LinkV2) (x : LinkV2),
    v2ChainAuth x os = true ↔ ∀ t ∈ x :: os, Signed t := by
  intro os
  induction os with
  | nil => intro x; simp [v2ChainAuth, authOK_iff]
  | cons o os ih =>
    intro x
    simp only [v2ChainAuth, Bool.and_eq_true, ih o, authOK_iff]
    constructor
    · rintro ⟨h, hx⟩ t ht
      rcases List.mem_cons.mp ht with rfl | ht
      · exact hx
      · exact h t ht
    · intro h
      exact ⟨fun t ht => h t (List.mem_cons_of_mem _ ht), h x (List.mem_cons_self ..)⟩

/-- every token is linked to its origin -/
def chainLinked : LinkV2 → List LinkV2 → Bool
  | _, [] => true
  | x, o :: os => linkOK x o && chainLinked o os

/-- index form: token `i` of the chain and its origin (token `i+1`) satisfy `linkOK` -/
theorem chainLinked_iff : ∀ (os : List LinkV2) (x : LinkV2),
    chainLinked x os = true ↔ ∀ i (h : i < os.length), linkOK ((x :: os)[i]'(by simp; omega)) os[i] = true := by
  intro os
  induction os with
  | nil => intro x; simp [chainLinked]
  | cons o os ih =>
    intro x
    simp only [chainLinked, Bool.and_eq_true, ih o]
    constructor
    · rintro ⟨h0, hs⟩ i hi
      cases i with
      | zero => exact h0
      | succ k => exact hs k (by simpa using hi)
    · intro h
      exact ⟨h 0 (by simp), fun i hi => h (i + 1) (by simp; omega)⟩

/-- `Token.validate(depth)`: depth bound, fields of every token, no `final` origin, every adjacent pair linked.
Induction over the chain, for every start depth. -/
theorem v2ChainValid_iff : ∀ (os : List LinkV2) (x : LinkV2) (d : Nat),
    v2ChainValid x os d = true ↔
      d + os.length ≤ maxDelegationDepth ∧ (∀ t ∈ x :: os, v2FieldsOK t.t = true) ∧ (0 < d → x.final = false) ∧
      (∀ o ∈ os, o.final = false) ∧ chainLinked x os = true := by
  have hdep : ∀ d : Nat, (!Decidable.decide (d > maxDelegationDepth)) = true ↔ d ≤ maxDelegationDepth := by
    intro d; simp
  have hfin : ∀ (x : LinkV2) (d : Nat), (!(x.final && Decidable.decide (d > 0))) = true ↔ (0 < d → x.final = false) := by
    intro x d; cases x.final <;> simp
  intro os
  induction os with
  | nil =>
    intro x d
    simp only [v2ChainValid, Bool.and_eq_true, hdep, hfin, List.length_nil, Nat.add_zero, List.mem_singleton, forall_eq,
      List.not_mem_nil, chainLinked]
    constructor
    · rintro ⟨⟨h1, h2⟩, h3⟩; exact ⟨h1, h2, h3, fun _ h => h.elim, trivial⟩
    · rintro ⟨h1, h2, h3, _, _⟩; exact ⟨⟨h1, h2⟩, h3⟩
  | cons o os ih =>
    intro x d
    simp only [v2ChainValid, Bool.and_eq_true, ih o (d + 1), hdep, hfin, chainLinked, List.length_cons]
    constructor
    · rintro ⟨⟨⟨⟨h1, h2⟩, h3⟩, h4⟩, h5, h6, h7, h8, h9⟩
      refine ⟨by omega, ?_, h3, ?_, h4, h9⟩
      · intro t ht
        rcases List.mem_cons.mp ht with rfl | ht
        · exact h2
        · exact h6 t ht
      · intro o' ho'
        rcases List.mem_cons.mp ho' with rfl | ho'
        · exact h7 (by omega)
        · exact h8 o' ho'
    · rintro ⟨h1, h2, h3, h4, h5, h6⟩
      exact ⟨⟨⟨⟨by omega, h2 x (List.mem_cons_self ..)⟩, h3⟩, h5⟩, by omega, fun t ht => h2 t (List.mem_cons_of_mem _ ht),
        fun _ => h4 o (List.mem_cons_self ..), fun o' ho' => h4 o' (List.mem_cons_of_mem _ ho'), h6⟩

theorem v2Tail_iff (t : SessV2) (now rv rc : Nat) :
    (if t.exp < now then TokRes.expired
      else if !(Decidable.decide (t.iat ≤ now) && Decidable.decide (t.nbf ≤ now)) then TokRes.notYetValid
      else if !v2Admits t rv rc then TokRes.wrongVerb else TokRes.ok) = TokRes.ok ↔
      (t.iat ≤ now ∧ t.nbf ≤ now ∧ now ≤ t.exp) ∧ v2Admits t rv rc = true := by
  by_cases he : t.exp < now <;> by_cases hi : t.iat ≤ now <;> by_cases hn : t.nbf ≤ now <;>
    by_cases hv : v2Admits t rv rc = true <;> simp [he, hi, hn, hv] <;> omega

/-- **C30, delegated V2 tokens.** `VerifySessionTokenMessage` accepts a token with a delegation chain IF AND ONLY IF the
chain has at most `MaxDelegationDepth` origins, EVERY token of it - the root included - is structurally valid and signed
by its own issuer's key, no origin is final, every token is linked to its origin (issuer named by the origin, lifetime
and contexts only narrowed), and the outermost token is within its lifetime and admits the request's verb. -/
theorem v2chain_ok_iff (x : LinkV2) (os : List LinkV2) (now rv rc : Nat) :
    v2ChainCheck x os now rv rc = .ok ↔
      os.length ≤ maxDelegationDepth ∧
      (∀ t ∈ x :: os, v2FieldsOK t.t = true ∧ Signed t) ∧
      (∀ o ∈ os, o.final = false) ∧
      (∀ i (h : i < os.length), linkOK ((x :: os)[i]'(by simp; omega)) os[i] = true) ∧
      (x.t.iat ≤ now ∧ x.t.nbf ≤ now ∧ now ≤ x.t.exp) ∧ v2Admits x.t rv rc = true := by
  have hv := v2ChainValid_iff os x 0
  have ha := v2ChainAuth_iff os x
  rw [← chainLinked_iff]
  unfold v2ChainCheck
  by_cases h1 : v2ChainValid x os 0 = true
  · by_cases h2 : v2ChainAuth x os = true
    · have hv' := hv.mp h1
      have ha' := ha.mp h2
      simp only [h1, h2, Bool.not_true, Bool.false_eq_true, if_false]
      rw [v2Tail_iff]
      constructor
      · rintro ⟨hl, hr⟩
        exact ⟨by have := hv'.1; omega, fun t ht => ⟨hv'.2.1 t ht, ha' t ht⟩, hv'.2.2.2.1, hv'.2.2.2.2, hl, hr⟩
      · rintro ⟨_, _, _, _, hl, hr⟩
        exact ⟨hl, hr⟩
    · have h2' : v2ChainAuth x os = false := by simpa using h2
      simp only [h1, h2', Bool.not_true, Bool.false_eq_true, if_false, Bool.not_false, if_true, reduceCtorEq, false_iff]
      rintro ⟨_, hall, _⟩
      exact h2 (ha.mpr fun t ht => (hall t ht).2)
  · have h1' : v2ChainValid x os 0 = false := by simpa using h1
    simp only [h1', Bool.not_false, if_true, reduceCtorEq, false_iff]
    rintro ⟨hlen, hall, hfin, hlink, _⟩
    exact h1 (hv.mpr ⟨by omega, fun t ht => (hall t ht).1, fun h => absurd h (by omega), hfin, hlink⟩)

/-- a token anywhere in the chain - the ROOT included - that is not signed by its declared issuer makes the whole token
rejected, whatever the depth -/
theorem v2chain_unsigned_level_rejects (x : LinkV2) (os : List LinkV2) (now rv rc : Nat)
    (t : LinkV2) (ht : t ∈ x :: os) (hbad : ¬ Signed t) : v2ChainCheck x os now rv rc ≠ .ok := by
  intro h
  exact hbad (((v2chain_ok_iff x os now rv rc).mp h).2.1 t ht).2

/-- the root of the chain: the token whose issuer `OriginalIssuer` returns -/
def rootOf : LinkV2 → List LinkV2 → LinkV2
  | x, [] => x
  | _, o :: os => rootOf o os

theorem rootOf_mem : ∀ (os : List LinkV2) (x : LinkV2), rootOf x os ∈ x :: os := by
  intro os
  induction os with
  | nil => intro x; simp [rootOf]
  | cons o os ih => intro x; exact List.mem_cons_of_mem _ (ih o)

theorem originalIssuer_eq : ∀ (os : List LinkV2) (x : LinkV2), originalIssuer x os = (rootOf x os).t.issuer := by
  intro os
  induction os with
  | nil => intro x; rfl
  | cons o os ih => intro x; exact ih o

/-- **whose request is it.** The request is judged as the chain's ORIGINAL issuer only if the root token itself is
structurally valid and signed by that very account's key (and everything else of `v2chain_ok_iff` holds). -/
theorem v2chain_effective_only_if_root_signed (signer : Nat) (x : LinkV2) (os : List LinkV2) (now rv rc : Nat)
    (h : credentials signer (some (originalIssuer x os, v2ChainCheck x os now rv rc)) = some (originalIssuer x os)) :
    (rootOf x os).t.sigOK = true ∧ (rootOf x os).t.signer = some (originalIssuer x os) ∧
      v2FieldsOK (rootOf x os).t = true ∧ ∀ t ∈ x :: os, Signed t := by
  have hok := (session_effect_iff signer _ _).mp h
  have hall := ((v2chain_ok_iff x os now rv rc).mp hok).2.1
  have hr := hall _ (rootOf_mem os x)
  rw [originalIssuer_eq]
  exact ⟨hr.2.1, hr.2.2, hr.1, fun t ht => (hall t ht).2⟩

/-- a chain with more than `MaxDelegationDepth` origins is refused as invalid whatever its tokens are -/
theorem v2chain_too_deep_rejected (x : LinkV2) (os : List LinkV2) (now rv rc : Nat) (h : maxDelegationDepth < os.length) :
    v2ChainCheck x os now rv rc = .invalid := by
  have : v2ChainValid x os 0 = false := by
    cases hv : v2ChainValid x os 0 with
    | false => rfl
    | true => have := ((v2ChainValid_iff os x 0).mp hv).1; omega
  simp [v2ChainCheck, this]

/-- a token without origins is judged exactly as `v2Check` says (the theorems on plain V2 tokens carry over) -/
theorem v2chain_no_origin (x : LinkV2) (now rv rc : Nat) : v2ChainCheck x [] now rv rc = v2Check x.t now rv rc := by
  unfold v2ChainCheck v2Check
  simp [v2ChainValid, v2ChainAuth]

/-- along an accepted chain lifetimes only narrow: the outermost token lives inside the root's lifetime -/
theorem chainLinked_lifetime : ∀ (os : List LinkV2) (x : LinkV2), chainLinked x os = true →
    (rootOf x os).t.nbf ≤ x.t.nbf ∧ x.t.exp ≤ (rootOf x os).t.exp := by
  intro os
  induction os with
  | nil => intro x _; simp [rootOf]
  | cons o os ih =>
    intro x h
    simp only [chainLinked, Bool.and_eq_true] at h
    have := ih o h.2
    have hl := h.1
    simp only [linkOK, Bool.and_eq_true, Bool.not_eq_true', Bool.or_eq_false_iff, decide_eq_false_iff_not] at hl
    simp only [rootOf]
    omega

theorem v2chain_lifetime_within_root (x : LinkV2) (os : List LinkV2) (now rv rc : Nat)
    (h : v2ChainCheck x os now rv rc = .ok) :
    (rootOf x os).t.nbf ≤ now ∧ now ≤ (rootOf x os).t.exp := by
  have hk := (v2chain_ok_iff x os now rv rc).mp h
  have := chainLinked_lifetime os x ((chainLinked_iff os x).mpr hk.2.2.2.1)
  omega

/-! ## lifetime boundaries -/

theorem v1_lifetime_boundaries (t : SessV1) (cur : Nat) :
    (t.exp = cur → v1Lifetime t cur ≠ .expired) ∧ (t.exp + 1 = cur → v1Lifetime t cur = .expired) ∧
    (t.exp ≥ cur → t.nbf = cur → t.iat ≤ cur → v1Lifetime t cur = .ok) ∧
    (t.exp ≥ cur → t.nbf = cur + 1 → v1Lifetime t cur = .notYetValid) ∧
    (t.exp ≥ cur → t.iat = cur + 1 → v1Lifetime t cur = .notYetValid) := by
  unfold v1Lifetime
  refine ⟨?_, ?_, ?_, ?_, ?_⟩
  · intro h; simp [h]
    split <;> simp
  · intro h; have : t.exp < cur := by omega
    simp [this]
  · intro h1 h2 h3; have : ¬ t.exp < cur := by omega
    simp [this, h2, h3]
  · intro h1 h2; have : ¬ t.exp < cur := by omega
    have h3 : ¬ t.nbf ≤ cur := by omega
    simp [this, h3]
  · intro h1 h2; have : ¬ t.exp < cur := by omega
    have h3 : ¬ t.iat ≤ cur := by omega
    simp [this, h3]

theorem bearer_lifetime_boundaries (b : Bearer) (cur : Nat) (ha : authOK b.sigOK b.signer b.issuer = true)
    (hn : b.nbf ≤ cur) (hi : b.iat ≤ cur) :
    (b.exp = cur → bearerCheck b cur = .ok) ∧ (b.exp + 1 = cur → bearerCheck b cur = .expired) := by
  unfold bearerCheck lifetimeOK
  constructor
  · intro h; simp [hn, hi, h, ha]
  · intro h; have : ¬ cur ≤ b.exp := by omega
    simp [this, ha]

/-! ## changing a signed field -/

/-- an ideal signature scheme: a signature verifies for exactly the key and body it was made for -/
structure IdealSig (K B S : Type) where
  sign : K → B → S
  verify : K → B → S → Bool
  verify_iff : ∀ k b s, verify k b s = true ↔ s = sign k b
  sign_inj : ∀ k b k' b', sign k b = sign k' b' → k = k' ∧ b = b'

/-- the laws are satisfiable: the signature is the pair (key, body) -/
def pairSig (K B : Type) [DecidableEq K] [DecidableEq B] : IdealSig K B (K × B) where
  sign k b := (k, b)
  verify k b s := Decidable.decide (s = (k, b))
  verify_iff := by intro k b s; simp
  sign_inj := by intro k b k' b' h; simpa using h

/-- under an ideal scheme, a signature made for body `b` verifies for no other body, under any key -/
theorem signed_field_change_rejects {K B S : Type} (Sg : IdealSig K B S) (k k' : K) (b b' : B) (hne : b' ≠ b) :
    Sg.verify k' b' (Sg.sign k b) = false := by
  cases h : Sg.verify k' b' (Sg.sign k b) with
  | false => rfl
  | true =>
    have := (Sg.verify_iff k' b' _).mp h
    exact absurd (Sg.sign_inj k b k' b' this).2.symm hne

/-- the signed body of a V1 token: every field but the signature -/
def SessV1.body (t : SessV1) : Nat × Nat × Nat × Nat × Nat × List Nat × Nat :=
  (t.issuer, t.nbf, t.iat, t.exp, t.cnr, t.objs, t.verb)

/-- a V1 token whose signed fields were changed after signing (any field, any new value) is never accepted,
whatever the epoch and the request -/
theorem v1_tampered_rejected {K S : Type} (Sg : IdealSig K (Nat × Nat × Nat × Nat × Nat × List Nat × Nat) S)
    (k : K) (orig t : SessV1) (hchg : t.body ≠ orig.body) (hsig : t.sigOK = Sg.verify k t.body (Sg.sign k orig.body))
    (cur rv rc : Nat) (ro : Option Nat) : v1Check t cur rv rc ro ≠ .ok := by
  have hf : t.sigOK = false := by rw [hsig]; exact signed_field_change_rejects Sg k k _ _ hchg
  intro h
  have := ((v1_ok_iff t cur rv rc ro).mp h).1.1
  simp [hf] at this

theorem bad_signature_rejects_v1 (t : SessV1) (h : t.sigOK = false) (cur rv rc : Nat) (ro : Option Nat) :
    v1Check t cur rv rc ro ≠ .ok := by
  intro hk; have := ((v1_ok_iff t cur rv rc ro).mp hk).1.1; simp [h] at this

theorem bad_signature_rejects_v2 (t : SessV2) (h : t.sigOK = false) (now rv rc : Nat) : v2Check t now rv rc ≠ .ok := by
  intro hk; have := ((v2_ok_iff t now rv rc).mp hk).2.1.1; simp [h] at this

theorem bad_signature_rejects_bearer (b : Bearer) (h : b.sigOK = false) (cur : Nat) : bearerCheck b cur ≠ .ok := by
  intro hk; have := ((bearer_ok_iff b cur).mp hk).1.1; simp [h] at this

/-! ## the verdict cache is transparent -/

theorem cachedAuth_consistent (c : Cache) (authOf : Nat → Bool) (id : Nat) (hc : c.consistent authOf) :
    (cachedAuth c id (authOf id)).2 = authOf id ∧ (cachedAuth c id (authOf id)).1.consistent authOf := by
  unfold cachedAuth
  cases hg : c.get? id with
  | some v => exact ⟨hc id v hg, hc⟩
  | none =>
    refine ⟨by first | rfl | trivial, ?_⟩
    intro id' v' h'
    unfold Cache.get? at h'
    simp only [List.find?_cons] at h'
    by_cases he : id = id'
    · subst he; simp at h'; exact h'.symm
    · have : ((id, authOf id).1 == id') = false := by simpa using he
      simp only [this] at h'
      exact hc id' v' h'

/-- **Cache soundness.** With lifetimes tested outside the cache, a cached verdict never changes an answer: for every
consistent cache (whatever verifications, object validations and purges produced it), every epoch and every request the
cached path answers exactly what the uncached check answers, and leaves the cache consistent. In particular no purge is
needed for correctness when the epoch advances. -/
theorem cache_transparent (c : Cache) (authOf : Nat → Bool) (id : Nat) (t : SessV1) (hid : authOf id = v1Auth t)
    (hc : c.consistent authOf) (cur rv rc : Nat) (ro : Option Nat) :
    (v1CheckCached c id t cur rv rc ro).2 = v1Check t cur rv rc ro ∧
      (v1CheckCached c id t cur rv rc ro).1.consistent authOf := by
  have := cachedAuth_consistent c authOf id hc
  rw [hid] at this
  unfold v1CheckCached v1Check
  simp only [this.1]
  exact ⟨by first | rfl | trivial, this.2⟩

/-- What the repair excluded: with the lifetime test inside the cached verdict, a token accepted at epoch 5 is still accepted
at epoch 9 although it expired at 7 (no purge in between: the purge is asynchronous to the epoch counter; an entry seeded by
the object validator was never lifetime-tested at all). -/
theorem old_cache_honours_expired_token :
    let t : SessV1 := { issuer := 1, signer := some 1, sigOK := true, nbf := 3, iat := 3, exp := 7, cnr := 1, objs := [], verb := 2 }
    let c1 := (v1CheckCachedOld [] 42 t 5 2 1 none).1
    (v1CheckCachedOld c1 42 t 9 2 1 none).2 = .ok ∧ v1Check t 9 2 1 none = .expired := by
  decide

theorem empty_cache_consistent (authOf : Nat → Bool) : Cache.consistent [] authOf := by
  intro id v h; simp [Cache.get?] at h

/-! ## verb table and object relation (as the code has them) -/

/-- HEAD is admitted by head, get, delete and range tokens; SEARCH by search and delete tokens; every other verb only by itself -/
theorem verb_table :
    (∀ tv, verbAdmits 3 tv = true ↔ tv = 3 ∨ tv = 2 ∨ tv = 5 ∨ tv = 6) ∧
    (∀ tv, verbAdmits 4 tv = true ↔ tv = 4 ∨ tv = 5) ∧
    (∀ rv tv, rv ≠ 3 → rv ≠ 4 → (verbAdmits rv tv = true ↔ tv = rv)) := by
  refine ⟨?_, ?_, ?_⟩
  · intro tv; simp [verbAdmits, or_assoc]
  · intro tv; simp [verbAdmits]
  · intro rv tv h3 h4; simp [verbAdmits, h3, h4]

/-- delete tokens are not bound to the request's object (the tombstone's id cannot be predicted) -/
theorem delete_token_skips_object (t : SessV1) (h : t.verb = 5) (ro : Option Nat) : objectRelated t ro = true := by
  simp [objectRelated, h]

/-! ## Non-vacuity -/

def exV1 : SessV1 := { issuer := 1, signer := some 1, sigOK := true, nbf := 3, iat := 3, exp := 7, cnr := 1, objs := [4], verb := 2 }
example : v1Check exV1 5 2 1 (some 4) = .ok := by decide
example : v1Check exV1 5 3 1 (some 4) = .ok := by decide          -- HEAD with a GET token
example : v1Check exV1 8 2 1 (some 4) = .expired := by decide
example : v1Check exV1 7 2 1 (some 4) = .ok := by decide           -- exp = cur
example : v1Check exV1 2 2 1 (some 4) = .notYetValid := by decide
example : v1Check exV1 5 2 2 (some 4) = .wrongContainer := by decide
example : v1Check exV1 5 2 1 (some 9) = .wrongObject := by decide
example : v1Check exV1 5 1 1 (some 4) = .wrongVerb := by decide
example : v1Check { exV1 with sigOK := false } 5 2 1 (some 4) = .authFail := by decide
example : v1Check { exV1 with signer := some 2 } 5 2 1 (some 4) = .authFail := by decide
def exV2 : SessV2 := { issuer := 1, signer := some 1, sigOK := true, iat := 100, nbf := 100, exp := 200, subjects := [2],
                       contexts := [{ cnr := 0, verbs := [3] }, { cnr := 1, verbs := [2, 3] }] }
example : v2Check exV2 150 2 1 = .ok := by decide
example : v2Check exV2 150 2 2 = .wrongVerb := by decide
example : v2Check exV2 150 3 2 = .ok := by decide                 -- wildcard context
example : v2Check exV2 201 2 1 = .expired := by decide
example : v2Check exV2 200 2 1 = .ok := by decide
example : v2Check { exV2 with contexts := [{ cnr := 1, verbs := [3, 2] }] } 150 2 1 = .invalid := by decide
/-- delegation: owner 1 → 2 → 2 → 2 → 2 (four origins = `MaxDelegationDepth`), every token signed by its issuer -/
def exRoot : LinkV2 := { t := { exV2 with subjects := [2] } }
def exDel : LinkV2 := { t := { exV2 with issuer := 2, signer := some 2, subjects := [2] } }
example : v2ChainCheck exDel [exDel, exDel, exDel, exRoot] 150 2 1 = .ok := by decide
example : originalIssuer exDel [exDel, exDel, exDel, exRoot] = 1 := by decide
example : v2ChainCheck exDel [exDel, exDel, exDel, exDel, exRoot] 150 2 1 = .invalid := by decide          -- five origins
-- the root says "issued by 1" but is signed by 2's key: refused at EVERY depth, the deepest admitted one included
example : v2ChainCheck exDel [exDel, exDel, exDel, { t := { exRoot.t with signer := some 2 } }] 150 2 1 = .authFail := by decide
example : v2ChainCheck exDel [{ t := { exRoot.t with signer := some 2 } }] 150 2 1 = .authFail := by decide
example : v2ChainCheck exDel [exDel, exDel, exDel, { t := { exRoot.t with sigOK := false } }] 150 2 1 = .authFail := by decide
example : v2ChainCheck exDel [{ t := { exRoot.t with subjects := [3] } }] 150 2 1 = .invalid := by decide    -- issuer 2 not named by the origin
example : v2ChainCheck exDel [{ t := { exRoot.t with exp := 199 } }] 150 2 1 = .invalid := by decide         -- lifetime widened
example : v2ChainCheck exDel [{ t := { exRoot.t with contexts := [{ cnr := 1, verbs := [2] }] } }] 150 2 1 = .invalid := by decide  -- verbs widened
example : v2ChainCheck exDel [{ exRoot with final := true }] 150 2 1 = .invalid := by decide
/-- the ideal scheme at work: a signature over body 7 does not verify for body 8 -/
example : (pairSig Nat Nat).verify 1 8 ((pairSig Nat Nat).sign 1 7) = false := by decide
example : (pairSig Nat Nat).verify 1 7 ((pairSig Nat Nat).sign 1 7) = true := by decide
example : ({ exV1 with exp := 99 } : SessV1).body ≠ exV1.body := by simp [SessV1.body, exV1]

end NeoFS.ACL
