import NeoFS.Lemmas.Policer
import Mathlib.Data.List.TakeWhile
/-!
# C26 — the policer never drops a local copy that may be needed

All theorems are about `processObject e false o p` — the model of the policer pass as the code is now
(`legacy = false`) — for EVERY environment `e` (local node at any position or absent, every maintenance flag
function, every HEAD answer function, every replication outcome function, readable or unreadable local object),
every object (type, EC part indexes, shard count) and every placement (any number of lists of any length,
any copy numbers, any EC rules).  `redundant ∈ dels` is "the pass called `localStorage.Delete` with the
redundant-copy mark", i.e. dropped the local copy because it considered it not needed.
-/
namespace NeoFS.Policer

theorem HeadOK.mono {e : Env} {h h' : List Nat} {n : Nat} (x : HeadOK e h n) (hh : ∀ m ∈ h, m ∈ h') : HeadOK e h' n :=
  ⟨x.1, x.2.1, x.2.2.1, hh n x.2.2.2⟩

/-- Over all the lists of a pass: a list that contains the local node had its copy number covered by distinct
other nodes of that list whose headers were read — unless the local copy was declared needed. -/
theorem runVectors_confirmed (e : Env) (t : OType) (vs : List (List Nat × Nat)) (c : Ctx)
    (hn : (runVectors e false t c vs).need = false) :
    ∀ v ∈ vs, e.me ∈ v.1 → ∃ D : List Nat, D.Nodup ∧ D.length = startShortage t v.1 v.2 ∧
      ∀ n ∈ D, n ∈ v.1 ∧ HeadOK e (runVectors e false t c vs).heads n := by
  induction vs generalizing c with
  | nil => intro v hv; simp at hv
  | cons w ws ih =>
    intro v hv hm
    unfold runVectors at hn ⊢
    rcases List.mem_cons.mp hv with rfl | hv
    · have hp : (processNodes e false t c v.1 v.2).need = false := by
        cases h : (processNodes e false t c v.1 v.2).need with
        | false => rfl
        | true => rw [runVectors_need e false t ws _ h] at hn; exact Bool.noConfusion hn
      obtain ⟨D, nd, len, ok⟩ := processNodes_confirmed e t c v.1 v.2 hm hp
      exact ⟨D, nd, len, fun n h => ⟨(ok n h).1, (ok n h).2.mono (runVectors_heads e false t ws _)⟩⟩
    · exact ih _ hn v hv hm

/-- What a redundancy drop guarantees under the REP rules. -/
def RepSafe (e : Env) (o : Obj) (p : Placement) (out : Out) : Prop :=
  -- every rule whose list contains the local node: as many DISTINCT OTHER nodes of that list as the rule's copy
  -- number (for LOCK/LINK: as the list is long) are not under maintenance and had their header read in this pass
  (∀ v ∈ effVectors o p, e.me ∈ v.1 →
    ∃ D : List Nat, D.Nodup ∧ D.length = startShortage o.typ v.1 v.2 ∧ ∀ n ∈ D, n ∈ v.1 ∧ HeadOK e out.heads n) ∧
  -- the local node is in no list: some other node is confirmed (header read, or replication acknowledged)
  ((∀ v ∈ effVectors o p, e.me ∉ v.1) → ∃ n, Confirmed e out.heads out.tasks n)

theorem repPart_drop_safe (e : Env) (o : Obj) (p : Placement) (pre : List Mark) (hpre : Mark.redundant ∉ pre)
    (h : Mark.redundant ∈ (repPart e false o p pre).dels) : RepSafe e o p (repPart e false o p pre) := by
  unfold repPart verdict at h ⊢
  generalize hc : runVectors e false o.typ {} (effVectors o p) = c at h ⊢
  cases hneed : c.need with
  | true => simp [hneed, hpre] at h
  | false =>
    simp only [hneed, Bool.not_false, if_true] at h ⊢
    split_ifs at h ⊢ with hk
    · exact absurd h hpre
    · simp only [Bool.and_eq_true, Bool.not_eq_true', Bool.or_eq_true, not_and, not_or, Bool.not_eq_false] at hk
      refine ⟨?_, ?_⟩
      · intro v hv hm
        have := runVectors_confirmed e o.typ (effVectors o p) {} (by rw [hc]; exact hneed) v hv hm
        rw [hc] at this
        exact this
      · intro hno
        have hin : c.inCnr = false := by
          have := runVectors_inCnr e false o.typ (effVectors o p) {} hno
          rw [hc] at this
          exact this
        have inv : CacheInv e c := by
          rw [← hc]
          exact runVectors_cacheInv e false o.typ _ _ (fun n hn => by simp [cacheGet] at hn)
        exact atLeastOneHolder_confirmed e c inv (hk hin).2

/-- What a redundancy drop of an EC part guarantees: a node EARLIER than the local one in the part's node sequence
is confirmed to hold the part (header read, or replication acknowledged). -/
def ECSafe (e : Env) (seq : List Nat) (out : Out) : Prop :=
  ∃ n ∈ seq.takeWhile (fun m => decide (m ≠ e.me)), Confirmed e out.heads out.tasks n

theorem ecPartByRule_drop_safe (e : Env) (seq : List Nat) (h : Mark.redundant ∈ (ecPartByRule e seq).dels) :
    ECSafe e seq (ecPartByRule e seq) := by
  obtain ⟨s1, _, s3⟩ := ecWalk_spec e seq {}
  have ne_me : ∀ n ∈ seq.takeWhile (fun m => decide (m ≠ e.me)), n ≠ e.me := fun n hn => by
    simpa using List.mem_takeWhile_imp hn
  unfold ecPartByRule at h ⊢
  generalize hr : ecWalk e {} seq = r at h s1 s3 ⊢
  obtain ⟨l, st⟩ := r
  cases st with
  | hold => simp at h
  | drop =>
    obtain ⟨n, hm, ha, hh⟩ := s3 rfl
    exact ⟨n, hm, ne_me n hm, Or.inl ⟨ha, hh⟩⟩
  | after =>
    simp only at h ⊢
    split_ifs at h ⊢ with h1 h2 h3
    · simp at h
    · simp at h
    · obtain ⟨n, hn⟩ := List.exists_mem_of_ne_nil _ h3
      have snd := (handleTask_sound e 1 l.cands).2 n hn
      rcases s1 n snd.1 with hc | hc
      · simp at hc
      · exact ⟨n, hc.1, snd.2.1, Or.inr ⟨_, List.mem_singleton.mpr rfl, hn, snd.1, snd.2.2⟩⟩
    · simp at h

/-- The property, for one pass: a redundancy drop happens only in a safe situation. -/
def Safe (e : Env) (o : Obj) (p : Placement) (out : Out) : Prop :=
  match o.ec with
  | none => RepSafe e o p out
  | some (ri, pi) =>
    if p.ecRules.isEmpty then RepSafe e o p out
    else ∃ d par, p.ecRules[ri]? = some (d, par) ∧ pi < d + par ∧ ECSafe e (partSeq (ecNodes p ri) pi (d + par)) out

def C26_full (legacy : Bool) : Prop :=
  ∀ (e : Env) (o : Obj) (p : Placement),
    Mark.redundant ∈ (processObject e legacy o p).dels → Safe e o p (processObject e legacy o p)

/-- **C26** for the code as it is now. -/
theorem drop_implies_confirmed : C26_full false := by
  intro e o p h
  unfold processObject at h ⊢
  unfold Safe
  cases hnet : p.net with
  | noContainer => simp [hnet] at h
  | otherErr => simp [hnet] at h
  | ok =>
    simp only [hnet] at h ⊢
    cases hec : o.ec with
    | none =>
      simp only [hec] at h ⊢
      split_ifs at h ⊢
      · simp at h
      · exact repPart_drop_safe e o p [] (by simp) h
    | some rp =>
      obtain ⟨ri, pi⟩ := rp
      simp only [hec] at h ⊢
      cases hemp : p.ecRules.isEmpty with
      | true =>
        simp only [hemp, Bool.not_true, Bool.false_eq_true, if_false, if_true] at h ⊢
        exact repPart_drop_safe e o p [.dflt] (by simp) h
      | false =>
        simp only [hemp, Bool.not_false, Bool.false_eq_true, if_true, if_false] at h ⊢
        cases hr : p.ecRules[ri]? with
        | none => simp [hr] at h
        | some dp =>
          obtain ⟨d, par⟩ := dp
          simp only [hr] at h ⊢
          by_cases hge : pi ≥ d + par
          · simp [hge] at h
          · simp only [hge, if_false] at h ⊢
            exact ⟨d, par, rfl, by omega, ecPartByRule_drop_safe e _ h⟩

/-- Maintenance and unreachable nodes never are the confirmation: every node the theorems count answered the
HEAD request with the header (`ans = holds`), or accepted the replica (`repl = true`). -/
theorem confirmed_is_real (e : Env) (heads : List Nat) (tasks : List Task) (n : Nat) (h : Confirmed e heads tasks n) :
    n ≠ e.me ∧ (e.ans n = .holds ∨ e.repl n = true) :=
  ⟨h.1, h.2.elim (fun x => Or.inl x.1) (fun ⟨_, _, x⟩ => Or.inr x.2.2)⟩

/-- LOCK and LINK objects are never dropped by a node that is in one of the lists the pass walks. -/
theorem lock_link_never_dropped (e : Env) (o : Obj) (p : Placement) (hb : isBroadcast o.typ = true)
    (hec : o.ec = none) (hin : ∃ v ∈ effVectors o p, e.me ∈ v.1) :
    Mark.redundant ∉ (processObject e false o p).dels := by
  intro h
  have s := drop_implies_confirmed e o p h
  unfold Safe at s
  rw [hec] at s
  obtain ⟨v, hv, hm⟩ := hin
  obtain ⟨D, nd, len, ok⟩ := s.1 v hv hm
  simp only [startShortage, hb, if_true] at len
  -- D is a duplicate-free sub-list of the list without the local node, which is shorter than the list
  have hsub : D ⊆ v.1.filter (fun n => decide (n ≠ e.me)) := fun n hn =>
    List.mem_filter.mpr ⟨(ok n hn).1, by simpa using (ok n hn).2.1⟩
  have h1 := (List.subperm_of_subset nd hsub).length_le
  have h2 : (v.1.filter (fun n => decide (n ≠ e.me))).length < v.1.length := by
    apply List.length_filter_lt_length_iff_exists.mpr
    exact ⟨e.me, hm, by simp⟩
  omega

/-- For LOCK/LINK objects of a well-formed placement, "the lists the pass walks" are all the lists of the
container (REP and EC). -/
theorem effVectors_broadcast (o : Obj) (p : Placement) (hb : isBroadcast o.typ = true)
    (hw : p.lists.length = p.rep.length + p.ecRules.length) : (effVectors o p).map (·.1) = p.lists := by
  unfold effVectors
  simp only
  split_ifs with hemp
  · apply List.map_fst_zip
    have : p.ecRules.length = 0 := by simpa using hemp
    omega
  · cases ht : o.typ <;> simp [isBroadcast, ht] at hb <;>
    · simp only
      apply List.map_fst_zip
      simp [hw]

/-! ## the behaviour before the repair -/

/-- REP 1, list `[1 (not found), 2 (maintenance), 3 = local]`, replication to 1 fails. -/
def legacyEnv : Env :=
  { me := 3, inNetmap := true, flag := fun n => n == 2, ans := fun n => if n == 1 then .notFound else .holds,
    repl := fun _ => false }
def legacyPlc : Placement := { lists := [[1, 2, 3]], rep := [1] }

/-- the old chain replicates to node 1 (which fails) and then drops the local copy … -/
theorem legacy_drops : (processObject legacyEnv true { typ := .regular } legacyPlc).dels = [.redundant] ∧
    (processObject legacyEnv true { typ := .regular } legacyPlc).heads = [1] ∧
    (processObject legacyEnv true { typ := .regular } legacyPlc).tasks = [{ quantity := 1, nodes := [1], done := [] }] := by
  decide

/-- … although no node is confirmed to hold the object: the property fails for the old chain. -/
theorem C26_legacy_counterexample : ¬ C26_full true := by
  intro h
  have s := h legacyEnv { typ := .regular } legacyPlc (by decide)
  obtain ⟨D, _, len, ok⟩ := s.1 ([1, 2, 3], 1) (by decide) (by decide)
  have hlen : D.length = 1 := len
  match D, hlen with
  | [n], _ =>
    have hn := ok n List.mem_cons_self
    have hh : n ∈ [1] := legacy_drops.2.1 ▸ hn.2.2.2.2
    have : n = 1 := by simpa using hh
    subst this
    exact absurd hn.2.2.2.1 (by decide)

/-- the repaired code keeps the copy on the same input -/
example : (processObject legacyEnv false { typ := .regular } legacyPlc).dels = [] := by decide

/-- the same defect for a node outside the container: REP 2, list `[1 (not found), 2 (maintenance)]`,
replication fails, the maintenance node counted as "at least one holder" -/
example : (processObject { legacyEnv with me := 9 } true { typ := .regular } { lists := [[1, 2]], rep := [2] }).dels = [.redundant] ∧
    (processObject { legacyEnv with me := 9 } false { typ := .regular } { lists := [[1, 2]], rep := [2] }).dels = [] := by decide

/-! ## non-vacuity: the repaired code does drop copies, and then the guarantees are met non-trivially -/

/-- REP 2 over `[1, 2, 3 = local, 4]` with 1 and 2 holding: the local copy is dropped. -/
example : (processObject { me := 3, inNetmap := true, flag := fun _ => false, ans := fun _ => .holds, repl := fun _ => true }
    false { typ := .regular } { lists := [[1, 2, 3, 4]], rep := [2] }).dels = [.redundant] := by decide

/-- a node outside the container drops after a successful replication (no header read at all) -/
example : (processObject { me := 9, inNetmap := true, flag := fun _ => false, ans := fun _ => .notFound, repl := fun _ => true }
    false { typ := .regular } { lists := [[1, 2]], rep := [1] }).dels = [.redundant] := by decide

/-- an EC part (rule 2+1, part 0, nodes `[1, 2 = local, 3]`) is moved to the better node 1 and dropped -/
example : (processObject { me := 2, inNetmap := true, flag := fun _ => false, ans := fun _ => .notFound, repl := fun _ => true }
    false { typ := .regular, ec := some (0, 0) } { lists := [[1, 2, 3]], rep := [], ecRules := [(2, 1)] }).dels = [.redundant] := by
  decide

/-- a LOCK object on a container node is kept even when every other node holds it -/
example : (processObject { me := 3, inNetmap := true, flag := fun _ => false, ans := fun _ => .holds, repl := fun _ => true }
    false { typ := .lock } { lists := [[1, 2, 3, 4]], rep := [2] }).dels = [] := by decide

end NeoFS.Policer
