import NeoFS.Lemmas.PolicerProgress
/-!
# C27 — repeated policer cycles restore the required replicas

The cluster model (`Model/Policer.lean`, section "a cluster"): the state is the set of nodes holding one object;
in a cycle (`round`) the nodes of an arbitrary `order` take turns, each holder running the pass of C26 with itself
as the local node against the shared state (truthful HEAD answers; nodes that are `down` answer with an error and
refuse replicas).  Proved here for ALL clusters, orders, down sets and numbers of cycles:

* the replicator's report is sound for every task of every pass (`replicator_sound`, `pass_tasks_sound`);
* SAFETY (with C26): no turn, cycle or sequence of cycles takes a rule that has its required number of holders
  below that number (`pass_keeps_covered`, `round_keeps_covered`, `rounds_keep_covered`);
* PROGRESS for containers with one REP rule (`single_rule_pass_restores`, `single_rule_converges`): in a stable
  network the turn of ANY holder gives the rule its required number of holders, i.e. after ONE cycle in which some
  holder takes a turn the rule is covered, and by safety it stays covered for ever after.

Convergence for several rules (`C27_full`) is NOT proved: it is exercised by the correspondence run with the
bound of 2 stable cycles (see the property's note).
-/
namespace NeoFS.Policer

/-- `Replicator.HandleTask` never reports more successes than asked for, only nodes of the task, never the local
node, and only nodes whose endpoint accepted the object. -/
theorem replicator_sound (e : Env) (q : Nat) (nodes : List Nat) : TaskSound e ⟨q, nodes, handleTask e q nodes⟩ :=
  handleTask_sound e q nodes

/-- … and this holds for every task any pass issues (REP rules and EC parts, old and repaired chain). -/
theorem pass_tasks_sound (e : Env) (legacy : Bool) (o : Obj) (p : Placement) :
    ∀ t ∈ (processObject e legacy o p).tasks, TaskSound e t := by
  unfold processObject
  split
  · intro t ht; simp at ht
  · intro t ht; simp at ht
  · split
    · split_ifs
      · split
        · intro t ht; simp at ht
        · split_ifs
          · intro t ht; simp at ht
          · exact ecPartByRule_tasksSound e _
      · exact repPart_tasksSound e legacy o p _
    · split_ifs
      · intro t ht; simp at ht
      · exact repPart_tasksSound e legacy o p _

/-- a rule (list, copies) has its required number of holders: that many DISTINCT nodes of the list hold the object
(for LOCK/LINK: every node of the list) -/
def Covered (typ : OType) (hold : List Nat) (v : List Nat × Nat) : Prop :=
  ∃ D : List Nat, D.Nodup ∧ D.length = startShortage typ v.1 v.2 ∧ ∀ n ∈ D, n ∈ v.1 ∧ n ∈ hold

/-- clusters of the property: the container exists and has REP rules only -/
def Cluster.Plain (cl : Cluster) : Prop := cl.plc.net = .ok ∧ cl.plc.ecRules = []

/-- SAFETY of one turn: whatever the pass of `me` replicates and whether or not it drops its own copy, every rule
that was covered stays covered (nodes may be down, answers may be errors). -/
theorem pass_keeps_covered (cl : Cluster) (hp : cl.Plain) (down mt : List Nat) (me : Nat)
    (v : List Nat × Nat) (hv : v ∈ effVectors { typ := cl.typ } cl.plc) (hc : Covered cl.typ cl.hold v) :
    Covered cl.typ (holdersAfter cl.hold me (passOf cl down mt me)) v := by
  obtain ⟨D, nd, len, ok⟩ := hc
  have hproc : passOf cl down mt me = repPart (clusterEnv down mt cl.hold me) false { typ := cl.typ } cl.plc [] :=
    processObject_rep _ _ _ _ hp.1 rfl hp.2
  rcases repPart_dels (clusterEnv down mt cl.hold me) false { typ := cl.typ } cl.plc with hd | hd
  · -- nothing deleted: the holders only grow
    refine ⟨D, nd, len, fun n hn => ⟨(ok n hn).1, ?_⟩⟩
    rw [mem_holdersAfter]
    exact ⟨Or.inr (ok n hn).2, Or.inl (by rw [hproc, hd]; rfl)⟩
  · -- the local copy was dropped as redundant: C26 applies
    have hred : Mark.redundant ∈ (processObject (clusterEnv down mt cl.hold me) false { typ := cl.typ } cl.plc).dels := by
      have : passOf cl down mt me = processObject (clusterEnv down mt cl.hold me) false { typ := cl.typ } cl.plc := rfl
      rw [← this, hproc, hd]; simp
    have safe := drop_implies_confirmed _ _ _ hred
    unfold Safe at safe
    simp only at safe
    by_cases hm : me ∈ v.1
    · obtain ⟨D', nd', len', ok'⟩ := safe.1 v hv hm
      refine ⟨D', nd', len', fun n hn => ⟨(ok' n hn).1, ?_⟩⟩
      obtain ⟨hne, _, hans, _⟩ := (ok' n hn).2
      rw [mem_holdersAfter]
      refine ⟨Or.inr ?_, Or.inr hne⟩
      -- a truthful `holds` answer comes from a holder
      simp only [clusterEnv] at hans
      split_ifs at hans with h1 h2 h3
      simpa using h3
    · refine ⟨D, nd, len, fun n hn => ⟨(ok n hn).1, ?_⟩⟩
      rw [mem_holdersAfter]
      exact ⟨Or.inr (ok n hn).2, Or.inr (fun h => hm (h ▸ (ok n hn).1))⟩

theorem turn_plc (down mt : List Nat) (acc : Cluster × Nat × List Nat) (me : Nat) :
    (turn down mt acc me).1.plc = acc.1.plc ∧ (turn down mt acc me).1.typ = acc.1.typ := by
  unfold turn
  simp only
  split_ifs <;> exact ⟨rfl, rfl⟩

/-- SAFETY of any sequence of turns. -/
theorem turns_keep_covered (down mt : List Nat) (order : List Nat) (cl : Cluster) (hp : cl.Plain) (z : Nat × List Nat)
    (v : List Nat × Nat) (hv : v ∈ effVectors { typ := cl.typ } cl.plc) (hc : Covered cl.typ cl.hold v) :
    (order.foldl (turn down mt) (cl, z)).1.Plain ∧ (order.foldl (turn down mt) (cl, z)).1.plc = cl.plc ∧
      (order.foldl (turn down mt) (cl, z)).1.typ = cl.typ ∧ Covered cl.typ (order.foldl (turn down mt) (cl, z)).1.hold v := by
  induction order generalizing cl z with
  | nil => exact ⟨hp, rfl, rfl, hc⟩
  | cons me rest ih =>
    simp only [List.foldl_cons]
    have tp := turn_plc down mt (cl, z) me
    have hp' : (turn down mt (cl, z) me).1.Plain := by
      unfold Cluster.Plain; rw [tp.1]; exact hp
    have hc' : Covered cl.typ (turn down mt (cl, z) me).1.hold v := by
      by_cases hs : (!cl.hold.contains me || down.contains me || mt.contains me) = true
      · have : turn down mt (cl, z) me = (cl, z) := by simp only [turn, hs, if_true]
        rw [this]; exact hc
      · have : (turn down mt (cl, z) me).1.hold = holdersAfter cl.hold me (passOf cl down mt me) := by
          simp only [turn, hs, if_false, Bool.false_eq_true]
        rw [this]
        exact pass_keeps_covered cl hp down mt me v hv hc
    have := ih (turn down mt (cl, z) me).1 hp' (turn down mt (cl, z) me).2 (by rw [tp.1, tp.2]; exact hv) (by rw [tp.2]; exact hc')
    rw [tp.1, tp.2] at this
    exact this

/-- SAFETY of a cycle, for every order of turns and every set of nodes that are down. -/
theorem round_keeps_covered (cl : Cluster) (hp : cl.Plain) (order down mt : List Nat)
    (v : List Nat × Nat) (hv : v ∈ effVectors { typ := cl.typ } cl.plc) (hc : Covered cl.typ cl.hold v) :
    (round cl order down mt).1.Plain ∧ (round cl order down mt).1.plc = cl.plc ∧ (round cl order down mt).1.typ = cl.typ ∧
      Covered cl.typ (round cl order down mt).1.hold v :=
  turns_keep_covered down mt order cl hp _ v hv hc

/-- a history of cycles: each with its own order of turns and its own set of down nodes -/
def rounds (cl : Cluster) : List (List Nat × List Nat × List Nat) → Cluster
  | [] => cl
  | r :: rs => rounds (round cl r.1 r.2.1 r.2.2).1 rs

/-- SAFETY for ever: through any number of cycles of any shape a covered rule stays covered — the number of
holders never falls below the requirement through policer actions. -/
theorem rounds_keep_covered (cl : Cluster) (hp : cl.Plain) (hist : List (List Nat × List Nat × List Nat))
    (v : List Nat × Nat) (hv : v ∈ effVectors { typ := cl.typ } cl.plc) (hc : Covered cl.typ cl.hold v) :
    Covered cl.typ (rounds cl hist).hold v := by
  induction hist generalizing cl with
  | nil => exact hc
  | cons r rs ih =>
    obtain ⟨p1, p2, p3, p4⟩ := round_keeps_covered cl hp r.1 r.2.1 r.2.2 v hv hc
    have := ih (round cl r.1 r.2.1 r.2.2).1 p1 (by rw [p2, p3]; exact hv) (by rw [p3]; exact p4)
    rw [p3] at this
    exact this

/-! ## progress (containers with one REP rule) -/

theorem clusterEnv_healthy (hold : List Nat) (me : Nat) : Healthy (clusterEnv [] [] hold me) :=
  ⟨fun _ => rfl, fun n => by simp only [clusterEnv, List.contains_nil, Bool.false_eq_true, if_false]; split_ifs <;> simp,
    fun _ => by simp [clusterEnv], rfl⟩

/-- PROGRESS: in a stable network (nobody down) the turn of ANY holder gives the rule of a one-rule container its
required number of holders (list of distinct nodes, long enough for the rule). -/
theorem single_rule_pass_restores (cl : Cluster) (nodes : List Nat) (r : Nat)
    (hplc : cl.plc = { lists := [nodes], rep := [r] }) (nd : nodes.Nodup)
    (hs : startShortage cl.typ nodes r ≤ nodes.length) (me : Nat) (hme : me ∈ cl.hold) :
    Covered cl.typ (holdersAfter cl.hold me (passOf cl [] [] me)) (nodes, r) := by
  have hp : cl.Plain := by unfold Cluster.Plain; rw [hplc]; exact ⟨rfl, rfl⟩
  have hproc : passOf cl [] [] me = repPart (clusterEnv [] [] cl.hold me) false { typ := cl.typ } cl.plc [] :=
    processObject_rep _ _ _ _ hp.1 rfl hp.2
  obtain ⟨D, dn, len, ok⟩ := processNodes_progress (clusterEnv [] [] cl.hold me) (clusterEnv_healthy _ _) cl.typ nodes nd r hs
  have hrun : runVectors (clusterEnv [] [] cl.hold me) false cl.typ {} (effVectors { typ := cl.typ } cl.plc) =
      processNodes (clusterEnv [] [] cl.hold me) false cl.typ {} nodes r := by
    rw [hplc]; rfl
  refine ⟨D, dn, len, fun n hn => ⟨(ok n hn).1, ?_⟩⟩
  rw [mem_holdersAfter, hproc]
  unfold repPart verdict
  rw [hrun]
  generalize processNodes (clusterEnv [] [] cl.hold me) false cl.typ {} nodes r = cf at ok
  rcases (ok n hn).2 with ⟨hme', hneed⟩ | ⟨hne, hh | ⟨t, ht, hd⟩⟩
  · subst hme'
    refine ⟨Or.inr hme, Or.inl ?_⟩
    simp [hneed]
  · refine ⟨Or.inr ?_, Or.inr hne⟩
    simp only [clusterEnv] at hh
    split_ifs at hh with h1 h2
    simpa using h2
  · refine ⟨Or.inl ?_, Or.inr hne⟩
    have : ∀ o : Out, o.tasks = cf.tasks → n ∈ o.tasks.flatMap (·.done) := fun o ho =>
      List.mem_flatMap.mpr ⟨t, ho ▸ ht, hd⟩
    split_ifs <;> exact this _ rfl

/-- CONVERGENCE for one-rule containers, bound = ONE cycle: after a cycle of a stable network in which at least one
holder takes a turn the rule has its required number of holders … -/
theorem single_rule_round_converges (nodes : List Nat) (r : Nat) (nd : nodes.Nodup) (order : List Nat) (cl : Cluster)
    (hplc : cl.plc = { lists := [nodes], rep := [r] })
    (hs : startShortage cl.typ nodes r ≤ nodes.length) (hm : ∃ m ∈ order, m ∈ cl.hold) :
    Covered cl.typ (round cl order [] []).1.hold (nodes, r) := by
  have hp : cl.Plain := by unfold Cluster.Plain; rw [hplc]; exact ⟨rfl, rfl⟩
  have hv : (nodes, r) ∈ effVectors { typ := cl.typ } cl.plc := by rw [hplc]; simp [effVectors]
  unfold round
  generalize (0, ([] : List Nat)) = z
  induction order generalizing z with
  | nil => obtain ⟨m, hm1, _⟩ := hm; simp at hm1
  | cons a rest ih =>
    simp only [List.foldl_cons]
    by_cases ha : a ∈ cl.hold
    · -- the first holder of the order takes its turn on the initial state
      have hskip : ¬ (!cl.hold.contains a || ([] : List Nat).contains a || ([] : List Nat).contains a) = true := by simp [ha]
      have hturn : (turn [] [] (cl, z) a).1 = { cl with hold := holdersAfter cl.hold a (passOf cl [] [] a) } := by
        simp only [turn, hskip, if_false, Bool.false_eq_true]
      have hc := single_rule_pass_restores cl nodes r hplc nd hs a ha
      have tp := turn_plc [] [] (cl, z) a
      have hp' : (turn [] [] (cl, z) a).1.Plain := by unfold Cluster.Plain; rw [tp.1]; exact hp
      have := turns_keep_covered [] [] rest (turn [] [] (cl, z) a).1 hp' (turn [] [] (cl, z) a).2 (nodes, r)
        (by rw [tp.1, tp.2]; exact hv) (by rw [tp.2, hturn]; exact hc)
      rw [tp.2] at this
      exact this.2.2.2
    · -- a node without the object does nothing
      have hskip : (!cl.hold.contains a || ([] : List Nat).contains a || ([] : List Nat).contains a) = true := by simp [ha]
      have hturn : turn [] [] (cl, z) a = (cl, z) := by simp only [turn, hskip, if_true]
      rw [hturn]
      apply ih
      obtain ⟨m, hm1, hm2⟩ := hm
      rcases List.mem_cons.mp hm1 with rfl | h
      · exact absurd hm2 ha
      · exact ⟨m, h, hm2⟩

theorem round_plc (cl : Cluster) (order down mt : List Nat) :
    (round cl order down mt).1.plc = cl.plc ∧ (round cl order down mt).1.typ = cl.typ := by
  unfold round
  generalize (0, ([] : List Nat)) = z
  induction order generalizing cl z with
  | nil => exact ⟨rfl, rfl⟩
  | cons a rest ih =>
    simp only [List.foldl_cons]
    have tp := turn_plc down mt (cl, z) a
    have := ih (turn down mt (cl, z) a).1 (turn down mt (cl, z) a).2
    exact ⟨this.1.trans tp.1, this.2.trans tp.2⟩

/-- … and keeps them through every later cycle, whatever orders are used and whatever nodes go down then. -/
theorem single_rule_converges (nodes : List Nat) (r : Nat) (nd : nodes.Nodup) (order : List Nat) (cl : Cluster)
    (hplc : cl.plc = { lists := [nodes], rep := [r] })
    (hs : startShortage cl.typ nodes r ≤ nodes.length) (hm : ∃ m ∈ order, m ∈ cl.hold)
    (later : List (List Nat × List Nat × List Nat)) :
    Covered cl.typ (rounds cl ((order, [], []) :: later)).hold (nodes, r) := by
  have hp : cl.Plain := by unfold Cluster.Plain; rw [hplc]; exact ⟨rfl, rfl⟩
  have hv : (nodes, r) ∈ effVectors { typ := cl.typ } cl.plc := by rw [hplc]; simp [effVectors]
  have h1 := single_rule_round_converges nodes r nd order cl hplc hs hm
  obtain ⟨q1, q2⟩ := round_plc cl order [] []
  have hp1 : (round cl order [] []).1.Plain := by unfold Cluster.Plain; rw [q1]; exact hp
  have := rounds_keep_covered (round cl order [] []).1 hp1 later (nodes, r) (by rw [q1, q2]; exact hv) (by rw [q2]; exact h1)
  rw [q2] at this
  exact this

/-- the full convergence statement (several rules, copies on the PRIMARY nodes, then no further tasks with
candidates): exercised by the correspondence run with the bound of 2 stable cycles, not proved -/
def C27_full : Prop :=
  ∀ (cl : Cluster), cl.Plain → cl.hold ≠ [] →
    (∀ v ∈ effVectors { typ := cl.typ } cl.plc, v.1.Nodup ∧ startShortage cl.typ v.1 v.2 ≤ v.1.length) →
    ∀ o1 o2 : List Nat, (∀ n ∈ cl.hold, n ∈ o1 ∧ n ∈ o2) → (∀ v ∈ effVectors { typ := cl.typ } cl.plc, ∀ n ∈ v.1, n ∈ o1 ∧ n ∈ o2) →
      ∀ v ∈ effVectors { typ := cl.typ } cl.plc,
        ∀ n ∈ v.1.take (startShortage cl.typ v.1 v.2), n ∈ (rounds cl [(o1, [], []), (o2, [], [])]).hold

/-- non-vacuity: REP 2 over `[1,2,3,4]` held by the backup nodes 3 and 4: the first cycle copies the object to the
primary nodes 1 and 2 (one task) and node 4 drops its copy, the second cycle only removes the copy of node 3, the
third does nothing -/
example :
    let c0 : Cluster := { plc := { lists := [[1, 2, 3, 4]], rep := [2] }, hold := [3, 4] }
    let r1 := round c0 [1, 2, 3, 4] [] []
    let r2 := round r1.1 [1, 2, 3, 4] [] []
    let r3 := round r2.1 [1, 2, 3, 4] [] []
    (r1.1.hold, r1.2) = ([1, 2, 3], 1, [4]) ∧ (r2.1.hold, r2.2) = ([1, 2], 0, [3]) ∧ (r3.1.hold, r3.2) = ([1, 2], 0, []) := by
  decide

end NeoFS.Policer
