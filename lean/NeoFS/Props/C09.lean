import NeoFS.Props.C15
/-!
# C09 — a removed object never becomes readable again without a new upload

`Gone s a` ("the metabase carries the default garbage key of `a`, or does not index `a`") is what every way of
reporting an object removed implies (`reported_gone`: tombstoned, marked as garbage / dropped, deleted), it makes
every read fail (`gone_unreadable`), and it is preserved by EVERY atomic step of EVERY operation other than a
new `Put` of that very object and a metabase resync (`gone_step`).  Hence, for every history (puts of other
objects and tombstones, deletions, marks, GC passes with tombstone expiry, flushes, the flush-versus-delete
schedule, epoch advances, restarts) with crashes at any step boundary: once removed, never readable again
(`no_resurrection_partial`).

The full statement `C09_full` (resyncs allowed) is FALSE for the code as it is: a resync rebuilds the metabase
from what the main storage holds, and the main storage can hold bytes of removed objects while nothing in it
says so — a garbage mark lives in the metabase only, a tombstone may still sit in the write-cache, or may have
expired and been collected while an orphan of its target survived (left by a crash between the metabase and
the blob step of a deletion, or re-created by a flusher that raced the deletion).  `C09_counterexample` and the
three named witnesses are kernel-evaluated and replayed on the real shard on every run (known finding).
`resync_without_blob_keeps_gone`: a resync is harmless for a removed object whose bytes are not in the main
storage (no orphan).
-/
namespace NeoFS.ShardSteps

/-- the metabase marks `a` for removal with the default mark, or does not index it -/
def Gone (s : St) (a : Nat) : Prop := s.garb a = some .dflt ∨ indexed s a = false

/-- how an object is reported removed: the metabase answers "already removed" (tombstone) or "marked as
garbage" (dropped), or it does not know the object (deleted) -/
def RemovedReport (s : St) (a : Nat) : Prop :=
  status s a = .tombstoned ∨ status s a = .gcMarked ∨ indexed s a = false

instance (s : St) (a : Nat) : Decidable (RemovedReport s a) := by
  unfold RemovedReport; infer_instance

theorem reported_gone {content : Nat → Body} {s : St} {a : Nat} (hI : Inv content s) (h : RemovedReport s a) :
    Gone s a := by
  rcases h with h | h | h
  · cases hi : indexed s a
    · exact Or.inr hi
    · have ht : tombstoned s a = true := by
        unfold status at h
        cases ht : tombstoned s a
        · rw [ht] at h; split at h
          · simp at h
          · simp at h; split at h <;> simp at h
        · rfl
      exact Or.inl (hI.tomb a hi ht)
  · left
    unfold status at h
    split at h
    · simp at h
    · split at h
      · simp at h
      · split at h
        · assumption
        · simp at h
  · exact Or.inr h

theorem gone_unreadable {s : St} {a : Nat} (h : Gone s a) : (get s a).1 ≠ .ok := by
  unfold get
  rcases h with h | h
  · have : status s a ≠ .available := by
      unfold status; split
      · simp
      · split
        · simp
        · simp [h]
    split <;> simp_all
  · split <;> simp [h]

/-- steps that may index `a` again -/
def touches (a : Nat) : Step → Bool
  | .metaPut a' _ => a' == a
  | .resyncBatch _ => true
  | _ => false

theorem insertObj_gone (s : St) (a' : Nat) (k : Kind) (a : Nat) (hne : a' ≠ a) (h : Gone s a) :
    Gone (insertObj s a' k).1 a := by
  have hne' : a ≠ a' := fun e => hne e.symm
  cases k with
  | reg =>
    simp only [insertObj, Gone, indexed, upd_other _ _ hne']
    exact h
  | ts tg x =>
    simp only [insertObj]
    split
    · exact h
    · simp only [Gone, indexed, upd_other _ _ hne']
      by_cases hat : a = tg
      · subst hat; left; simp
      · unfold Gone indexed at h
        simpa [upd_other _ _ hat] using h

theorem metaPut_gone (s : St) (a' : Nat) (k : Kind) (a : Nat) (hne : a' ≠ a) (h : Gone s a) :
    Gone (metaPut s a' k).1 a := by
  unfold metaPut
  split
  · exact h
  · split
    · exact h
    · split
      · exact h
      · exact insertObj_gone s a' k a hne h

/-- every atomic step that is not a metabase put of `a` itself (and not the refill of a resync) keeps `a` gone -/
theorem gone_step {s : St} {a : Nat} (st : Step) (ht : touches a st = false) (h : Gone s a) :
    Gone (applyStep s st) a := by
  cases st with
  | metaPut a' k =>
    have hne : a' ≠ a := by simpa [touches] using ht
    exact metaPut_gone s a' k a hne h
  | resyncBatch order => simp [touches] at ht
  | metaDelete ids =>
    by_cases hm : a ∈ ids
    · right; simp [indexed, applyStep, hm]
    · simpa [Gone, indexed, applyStep, hm] using h
  | metaMark ids m =>
    simp only [applyStep]
    split
    · rcases h with h | h
      · exact Or.inl (foldl_markOne_keeps_dflt m ids s.garb a h)
      · exact Or.inr h
    · exact h
  | metaReset => right; simp [indexed, applyStep]
  | blobPut _ _ => exact h
  | wcPut _ _ => exact h
  | wcDel _ => exact h
  | blobDel _ => exact h
  | flushCopy x =>
    simp only [applyStep]
    split <;> exact h

theorem gone_steps {a : Nat} : ∀ (l : List Step) (s : St), (∀ st ∈ l, touches a st = false) → Gone s a →
    Gone (applySteps s l) a := by
  intro l
  induction l with
  | nil => intro s _ h; exact h
  | cons x xs ih =>
    intro s hl h
    simpa [applySteps] using ih (applyStep s x) (fun st hst => hl st (by simp [hst]))
      (gone_step x (hl x (by simp)) h)

/-- operations that do not upload `a` anew and do not resync -/
def Quiet (a : Nat) : Op → Prop
  | .put a' _ => a' ≠ a
  | .resync _ => False
  | _ => True

theorem deleteSteps_noTouch (a : Nat) (s : St) (ids : List Nat) : ∀ st ∈ deleteSteps s ids, touches a st = false := by
  intro st hst
  unfold deleteSteps at hst
  split at hst
  · simp at hst
  · simp only [List.mem_cons] at hst
    rcases hst with rfl | hst
    · rfl
    · split at hst
      · rcases List.mem_append.mp hst with hst | hst
        · split at hst
          · obtain ⟨x, _, rfl⟩ := List.mem_map.mp hst; rfl
          · simp at hst
        · obtain ⟨x, _, rfl⟩ := List.mem_map.mp hst; rfl
      · simp at hst

theorem flushSteps_noTouch (a : Nat) (s : St) (x : Nat) : ∀ st ∈ flushSteps s x, touches a st = false := by
  intro st hst
  unfold flushSteps at hst
  split at hst
  · simp at hst; rcases hst with rfl | rfl <;> rfl
  · simp at hst

theorem flushAllSteps_noTouch (a : Nat) : ∀ (order : List Nat) (s : St), ∀ st ∈ flushAllSteps s order, touches a st = false := by
  intro order
  induction order with
  | nil => intro s st hst; simp [flushAllSteps] at hst
  | cons x rest ih =>
    intro s st hst
    simp only [flushAllSteps] at hst
    rcases List.mem_append.mp hst with hst | hst
    · exact flushSteps_noTouch a s x st hst
    · exact ih _ st hst

theorem opSteps_noTouch {a : Nat} {s : St} (o : Op) (hq : Quiet a o) : ∀ st ∈ opSteps s o, touches a st = false := by
  cases o with
  | put a' b =>
    have hne : a' ≠ a := hq
    intro st hst
    simp only [opSteps, putSteps, List.mem_cons] at hst
    rcases hst with rfl | rfl | hst
    · split <;> rfl
    · simpa [touches] using hne
    · split at hst
      · rcases List.mem_append.mp hst with hst | hst
        · split at hst
          · simp at hst; subst hst; rfl
          · simp at hst
        · simp at hst; subst hst; rfl
      · simp at hst
  | delete ids => exact deleteSteps_noTouch a s ids
  | mark ids m =>
    intro st hst
    simp only [opSteps, List.mem_cons] at hst
    rcases hst with rfl | hst
    · rfl
    · split at hst
      · obtain ⟨x, _, rfl⟩ := List.mem_map.mp hst; rfl
      · simp at hst
  | gc =>
    intro st hst
    simp only [opSteps] at hst
    rcases List.mem_append.mp hst with hst | hst
    · unfold expirySteps at hst; split at hst
      · exact deleteSteps_noTouch a s _ st hst
      · simp at hst
    · exact deleteSteps_noTouch a _ _ st hst
  | flush x => exact flushSteps_noTouch a s x
  | flushAll order => exact flushAllSteps_noTouch a order s
  | flushRace x =>
    intro st hst
    simp only [opSteps, flushRaceSteps] at hst
    split at hst
    · rcases List.mem_append.mp hst with hst | hst
      · exact deleteSteps_noTouch a s _ st hst
      · simp at hst; rcases hst with rfl | rfl <;> rfl
    · simp at hst
  | epoch e => intro st hst; simp [opSteps] at hst
  | reopen => intro st hst; simp [opSteps] at hst
  | resync order => exact absurd hq (by simp [Quiet])

theorem gone_of_meta_eq {s s' : St} {a : Nat} (hi : s'.idx = s.idx) (hg : s'.garb = s.garb) (h : Gone s a) :
    Gone s' a := by
  simpa [Gone, indexed, hi, hg] using h

theorem opPost_gone {s0 s : St} {a : Nat} (o : Op) (h : Gone s a) : Gone (opPost s0 s o) a := by
  cases o with
  | gc =>
    simp only [opPost]
    split
    · exact gone_of_meta_eq rfl rfl h
    · split
      · exact gone_of_meta_eq rfl rfl h
      · exact h
  | epoch e => exact gone_of_meta_eq rfl rfl h
  | reopen => exact gone_of_meta_eq rfl rfl h
  | put _ _ => exact h
  | delete _ => exact h
  | mark _ _ => exact h
  | flush _ => exact h
  | flushAll _ => exact h
  | flushRace _ => exact h
  | resync _ => exact h

theorem gone_hist {a : Nat} : ∀ (h : List (Op × Option Nat)) (s : St), (∀ p ∈ h, Quiet a p.1) → Gone s a →
    Gone (runHist s h) a := by
  intro h
  induction h with
  | nil => intro s _ hg; exact hg
  | cons p rest ih =>
    intro s hq hg
    obtain ⟨o, c⟩ := p
    have hqo : Quiet a o := hq (o, c) (by simp)
    have hqr : ∀ p ∈ rest, Quiet a p.1 := fun q hq' => hq q (by simp [hq'])
    cases c with
    | none =>
      exact ih _ hqr (opPost_gone o (gone_steps _ s (opSteps_noTouch o hqo) hg))
    | some k =>
      refine ih _ hqr ?_
      have : Gone (applySteps s ((opSteps s o).take k)) a :=
        gone_steps _ s (fun st hst => opSteps_noTouch o hqo st (List.mem_of_mem_take hst)) hg
      exact gone_of_meta_eq rfl rfl this

/-- the full property: after ANY history in which the object was reported removed, ANY continuation without a
new `Put` of it (resyncs included) never reads it back -/
def C09_full : Prop :=
  ∀ (content : Nat → Body) (wc : Bool) (h1 h2 : List (Op × Option Nat)) (a : Nat),
    WFHist content (h1 ++ h2) → RemovedReport (runHist { hasWC := wc } h1) a →
    (∀ p ∈ h2, ∀ b, p.1 ≠ .put a b) →
    (get (runHist (runHist { hasWC := wc } h1) h2) a).1 ≠ .ok

/-- **C09, proved part.** The same with continuations free of resyncs: every history, every crash point. -/
theorem no_resurrection_partial (content : Nat → Body) (wc : Bool) (h1 h2 : List (Op × Option Nat)) (a : Nat)
    (hw : WFHist content h1) (hr : RemovedReport (runHist { hasWC := wc } h1) a)
    (hq : ∀ p ∈ h2, Quiet a p.1) :
    (get (runHist (runHist { hasWC := wc } h1) h2) a).1 ≠ .ok :=
  gone_unreadable (gone_hist h2 _ hq (reported_gone (runHist_inv h1 _ (inv_init content wc) hw) hr))

/-- at the granularity of atomic steps (any interleaving): no step other than the metabase put of the object
itself and a resync refill brings it back, a crash anywhere included -/
theorem no_resurrection_trace (s : St) (a : Nat) (tr : List Step) (k : Nat) (hg : Gone s a)
    (ht : ∀ st ∈ tr, touches a st = false) : (get (crash (applySteps s (tr.take k))) a).1 ≠ .ok :=
  gone_unreadable (gone_of_meta_eq rfl rfl
    (gone_steps _ s (fun st hst => ht st (List.mem_of_mem_take hst)) hg))

theorem putBatch_gone (blob0 : Nat → Option Body) (a : Nat) (hb : blob0 a = none) : ∀ (order : List Nat) (s s' : St),
    Gone s a → putBatch s blob0 order = some s' → Gone s' a := by
  intro order
  induction order with
  | nil => intro s s' hg h; simp [putBatch] at h; subst h; exact hg
  | cons x rest ih =>
    intro s s' hg h
    unfold putBatch at h
    split at h
    · exact ih s s' hg h
    · rename_i b hxb
      have hne : x ≠ a := by intro e; subst e; rw [hb] at hxb; exact absurd hxb (by simp)
      split at h
      · exact absurd h (by simp)
      · exact ih _ s' (metaPut_gone s x b.kind a hne hg) h

/-- a resync (cut by a crash anywhere, or complete) cannot bring back a removed object whose bytes the main
storage does not hold (no orphan) -/
theorem resync_without_blob_keeps_gone (s : St) (a : Nat) (order : List Nat) (k : Nat) (hg : Gone s a)
    (hb : s.blob a = none) :
    (get (crashOp s (.resync order) k) a).1 ≠ .ok ∧ (get (runOp s (.resync order)) a).1 ≠ .ok := by
  have h1 : Gone (applyStep s .metaReset) a := Or.inr (by simp [indexed, applyStep])
  have h2 : Gone (applyStep (applyStep s .metaReset) (.resyncBatch order)) a := by
    simp only [applyStep] at h1 ⊢
    cases hp : putBatch { s with idx := fun _ => none, garb := fun _ => none, hasBkt := false } s.blob order with
    | none => simpa using h1
    | some s' => simpa using putBatch_gone s.blob a hb order _ s' h1 hp
  constructor
  · apply gone_unreadable
    apply gone_of_meta_eq (s := applySteps s ((opSteps s (.resync order)).take k)) rfl rfl
    match k with
    | 0 => simpa [opSteps, applySteps] using hg
    | 1 => simpa [opSteps, applySteps] using h1
    | k + 2 => simpa [opSteps, applySteps] using h2
  · apply gone_unreadable
    simpa [runOp, opPost, opSteps, applySteps] using h2

/-! ### the full statement is false for the code as it is: witnesses (replayed on the real shard on every run) -/

/-- object 1 is dropped (default garbage mark: reads answer "not found"); a resync before the GC has physically
removed it re-indexes it from the main storage, where nothing says it was dropped -/
def wDrop1 : List (Op × Option Nat) := [(.put 1 b1, none), (.mark [1] .dflt, none)]
def wDrop2 : List (Op × Option Nat) := [(.resync [1], none)]

theorem C09_counterexample : ¬ C09_full := by
  intro h
  have hwf : WFHist contentEx (wDrop1 ++ wDrop2) := by
    intro p hp
    simp [wDrop1, wDrop2] at hp
    rcases hp with rfl | rfl | rfl <;> simp [WFOp, contentEx, b1]
  have hnp : ∀ p ∈ wDrop2, ∀ b, p.1 ≠ Op.put 1 b := by
    intro p hp b
    simp [wDrop2] at hp
    subst hp
    simp
  exact h contentEx false wDrop1 wDrop2 1 hwf (by decide) hnp (by decide)

/-- tombstoned object; the GC's deletion is cut by a crash between the metabase step and the blob step (an
orphan blob stays); the tombstone expires and is collected; a resync re-indexes the orphan -/
def wOrphan : List (Op × Option Nat) :=
  [(.put 1 b1, none), (.put 7 bT, none), (.gc, some 1), (.epoch 4, none), (.gc, none), (.resync [1], none)]

theorem orphan_after_crash_resurrected :
    RemovedReport (runHist {} (wOrphan.take 2)) 1 ∧ (runHist {} (wOrphan.take 5)).blob 1 = some b1
      ∧ (get (runHist {} (wOrphan.take 5)) 1).1 = .notFound ∧ (get (runHist {} wOrphan) 1).1 = .ok := by decide

/-- the same orphan produced by a SCHEDULE instead of a crash: the flusher raced the deletion -/
def wRace : List (Op × Option Nat) :=
  [(.put 1 b1, none), (.put 7 bT, none), (.flushRace 1, none), (.epoch 4, none), (.gc, none), (.resync [1], none)]

theorem flush_race_orphan_resurrected :
    RemovedReport (runHist { hasWC := true } (wRace.take 2)) 1
      ∧ (get (runHist { hasWC := true } (wRace.take 5)) 1).1 = .notFound
      ∧ (get (runHist { hasWC := true } wRace) 1).1 = .ok := by decide

/-- the tombstone still sits in the write-cache when the metabase is rebuilt from the main storage -/
def wCachedTS : List (Op × Option Nat) :=
  [(.put 1 b1, none), (.flush 1, none), (.put 7 bT, none), (.resync [1], none)]

theorem cached_tombstone_lost_by_resync :
    RemovedReport (runHist { hasWC := true } (wCachedTS.take 3)) 1
      ∧ (get (runHist { hasWC := true } wCachedTS) 1).1 = .ok := by decide

/-! ### non-vacuity of the proved part -/

example :
    let h1 : List (Op × Option Nat) := [(.put 1 b1, none), (.put 7 bT, none)]
    let h2 : List (Op × Option Nat) := [(.gc, some 1), (.epoch 4, none), (.gc, none), (.flushAll [1, 7], none), (.reopen, none)]
    RemovedReport (runHist { hasWC := true } h1) 1 ∧ (∀ p ∈ h2, Quiet 1 p.1)
      ∧ (runHist (runHist { hasWC := true } h1) h2).blob 1 = some b1
      ∧ (get (runHist (runHist { hasWC := true } h1) h2) 1).1 = .notFound := by
  refine ⟨by decide, ?_, by decide, by decide⟩
  intro p hp
  simp at hp
  rcases hp with rfl | rfl | rfl | rfl | rfl <;> simp [Quiet]

end NeoFS.ShardSteps
