import NeoFS.Model.Engine
/-!
# C20 — engine reads find every stored object despite shard order, modes and failures

The read algorithm (`getWith`, used by `Eng.get` and `Eng.head`) is analysed for ALL engines (any number of
shards in any state), ALL visiting orders without repetition, ALL modes and ALL injected failures, error
counters and thresholds (so shards may be switched to degraded-read-only in the middle of a read).
-/
namespace NeoFS.Engine

/-! ## Frame: counting an error of shard `i` changes shard `i` only -/

theorem report_shards_ne (e : Eng) (i j : Nat) (er : Err) (h : j ≠ i) :
    (e.report i er).shards[j]? = e.shards[j]? := by
  unfold Eng.report
  split
  · rfl
  · split
    · rfl
    · simp only [Eng.setShard]
      exact List.getElem?_set_ne (Ne.symm h)

theorem classify_stop_err (er : Err) (r : GetR) (h : classify er = .stop r) : ∃ x, r = .err x := by
  cases er <;> simp [classify] at h <;> exact ⟨_, h.symm⟩

/-- the answer ends the read with result `R` -/
def Stops (R : GetR) : GetR → Prop
  | .ok o => R = .ok o
  | .err er => classify er = .stop R

/-- the answer lets the read go on to the next shard (not found here, or a counted failure) -/
def Passes : GetR → Prop
  | .ok _ => False
  | .err er => classify er = .skip ∨ classify er = .count

/-- the answer neither yields the object nor reports "metadata without object" -/
def NoObj : GetR → Prop
  | .ok _ => False
  | .err er => er ≠ .metaNF ∧ er ≠ .metaIO

/-- **Whatever the other shards do, the first shard answer that ends the read decides it.**  If some shard of
the order gives an answer that ends the read with `R`, and every shard either does the same or lets the read go
on (not found, failure), the first pass ends with `R` — for every order, every mode, every failure; the
shards are observed in the state `e0` they had before the read (failures counted during the read may switch
already visited shards to degraded mode). -/
theorem pass1_stops (ans : Nat → Shard → Bool → GetR) (R : GetR) (e0 : Eng) :
    ∀ (ord : List Nat) (e : Eng) (st : P1), ord.Nodup →
      (∀ j ∈ ord, e.shards[j]? = e0.shards[j]?) →
      (∃ h ∈ ord, ∃ sh, e0.shards[h]? = some sh ∧ Stops R (ans h sh sh.mode.noMeta)) →
      (∀ i ∈ ord, ∀ s, e0.shards[i]? = some s →
        Stops R (ans i s s.mode.noMeta) ∨ Passes (ans i s s.mode.noMeta)) →
      ∃ e' st', pass1 ans ord e st = (e', some R, st') := by
  intro ord
  induction ord with
  | nil => intro e st _ _ ⟨h, hm, _⟩ _; cases hm
  | cons i rest ih =>
    intro e st hnd hag hhold hall
    have hnd' := (List.nodup_cons.mp hnd)
    have hi : e.shards[i]? = e0.shards[i]? := hag i (by simp)
    -- the recursive call on `rest`, for an engine that agrees with `e0` on `rest`, when shard i does not stop
    have rec_ : ∀ (e2 : Eng) (st2 : P1), (∀ j ∈ rest, e2.shards[j]? = e0.shards[j]?) →
        (∀ sh, e0.shards[i]? = some sh → ¬ Stops R (ans i sh sh.mode.noMeta)) →
        ∃ e' st', pass1 ans rest e2 st2 = (e', some R, st') := by
      intro e2 st2 hag2 hnot
      apply ih e2 st2 hnd'.2 hag2
      · obtain ⟨h, hm, sh, hsh, hst⟩ := hhold
        rcases List.mem_cons.mp hm with rfl | hm'
        · exact absurd hst (hnot sh hsh)
        · exact ⟨h, hm', sh, hsh, hst⟩
      · intro j hj s hs; exact hall j (by simp [hj]) s hs
    unfold pass1
    cases hs : e0.shards[i]? with
    | none =>
      rw [hi, hs]
      exact rec_ e st (fun j hj => hag j (by simp [hj])) (fun sh hsh => by rw [hs] at hsh; cases hsh)
    | some s =>
      rw [hi, hs]
      simp only
      have hcase := hall i (by simp) s hs
      cases hr : ans i s s.mode.noMeta with
      | ok o =>
        rw [hr] at hcase
        rcases hcase with h | h
        · simp only [Stops] at h
          exact ⟨_, _, by rw [h]⟩
        · exact absurd h (by simp [Passes])
      | err er =>
        rw [hr] at hcase
        simp only
        rcases hcase with h | h
        · simp only [Stops] at h
          rw [h]
          exact ⟨_, _, rfl⟩
        · simp only [Passes] at h
          have hnot : ∀ sh, e0.shards[i]? = some sh → ¬ Stops R (ans i sh sh.mode.noMeta) := by
            intro sh hsh hst
            rw [hs] at hsh; cases hsh
            rw [hr] at hst
            simp only [Stops] at hst
            rcases h with h | h <;> rw [hst] at h <;> cases h
          rcases h with h | h
          · rw [h]
            exact rec_ e _ (fun j hj => hag j (by simp [hj])) hnot
          · rw [h]
            refine rec_ _ _ (fun j hj => ?_) hnot
            have hne : j ≠ i := fun e => hnd'.1 (e ▸ hj)
            rw [report_shards_ne e i j er hne]
            exact hag j (by simp [hj])

/-- **No shard answer with the object and no "metadata without object" ⇒ the first pass yields no object and
does not open the second pass.** -/
theorem pass1_no_obj (ans : Nat → Shard → Bool → GetR) (e0 : Eng) :
    ∀ (ord : List Nat) (e : Eng) (st : P1), ord.Nodup →
      (∀ j ∈ ord, e.shards[j]? = e0.shards[j]?) →
      (∀ i ∈ ord, ∀ s, e0.shards[i]? = some s → NoObj (ans i s s.mode.noMeta)) →
      (∀ o, (pass1 ans ord e st).2.1 ≠ some (.ok o)) ∧ (pass1 ans ord e st).2.2.metaSh = st.metaSh := by
  intro ord
  induction ord with
  | nil => intro e st _ _ _; exact ⟨fun o h => by simp [pass1] at h, rfl⟩
  | cons i rest ih =>
    intro e st hnd hag hall
    have hnd' := (List.nodup_cons.mp hnd)
    have hi : e.shards[i]? = e0.shards[i]? := hag i (by simp)
    have hall' : ∀ j ∈ rest, ∀ s, e0.shards[j]? = some s → NoObj (ans j s s.mode.noMeta) :=
      fun j hj s hs => hall j (by simp [hj]) s hs
    have hag' : ∀ j ∈ rest, e.shards[j]? = e0.shards[j]? := fun j hj => hag j (by simp [hj])
    unfold pass1
    cases hs : e0.shards[i]? with
    | none => rw [hi, hs]; exact ih e st hnd'.2 hag' hall'
    | some s =>
      rw [hi, hs]
      simp only
      have hno := hall i (by simp) s hs
      cases hr : ans i s s.mode.noMeta with
      | ok o => rw [hr] at hno; exact absurd hno (by simp [NoObj])
      | err er =>
        rw [hr] at hno
        simp only [NoObj] at hno
        have hnote : ∀ st0 : P1, (noteMeta st0 i er).metaSh = st0.metaSh := by
          intro st0
          unfold noteMeta
          have h1 : (er == Err.metaNF) = false := by simpa using hno.1
          have h2 : (er == Err.metaIO) = false := by simpa using hno.2
          simp [h1, h2]
        simp only
        cases hc : classify er with
        | skip =>
          simp only
          have := ih e (noteMeta { st with hasDeg := st.hasDeg || s.mode.noMeta } i er) hnd'.2 hag' hall'
          exact ⟨this.1, by rw [this.2, hnote]⟩
        | count =>
          simp only
          have hag2 : ∀ j ∈ rest, (e.report i er).shards[j]? = e0.shards[j]? := by
            intro j hj
            have hne : j ≠ i := fun e => hnd'.1 (e ▸ hj)
            rw [report_shards_ne e i j er hne]; exact hag' j hj
          have := ih (e.report i er) (noteMeta { st with hasDeg := st.hasDeg || s.mode.noMeta } i er) hnd'.2 hag2 hall'
          exact ⟨this.1, by rw [this.2, hnote]⟩
        | stop r =>
          simp only
          obtain ⟨x, hx⟩ := classify_stop_err er r hc
          exact ⟨fun o h => by rw [hx] at h; simp at h, hnote _⟩
        | split l p =>
          simp only
          split
          · exact ⟨fun o h => by simp at h, hnote _⟩
          · have := ih e { noteMeta { st with hasDeg := st.hasDeg || s.mode.noMeta } i er with
              split := some (mergeSplit (l, p) ((noteMeta { st with hasDeg := st.hasDeg || s.mode.noMeta } i er).split.getD (0, 0))) }
              hnd'.2 hag' hall'
            exact ⟨this.1, by rw [this.2]; exact hnote _⟩

theorem getWith_stops (ans : Nat → Shard → Bool → GetR) (R : GetR) (e : Eng) (ord : List Nat) (hnd : ord.Nodup)
    (hhold : ∃ h ∈ ord, ∃ sh, e.shards[h]? = some sh ∧ Stops R (ans h sh sh.mode.noMeta))
    (hall : ∀ i ∈ ord, ∀ s, e.shards[i]? = some s →
      Stops R (ans i s s.mode.noMeta) ∨ Passes (ans i s s.mode.noMeta)) :
    (getWith ans e ord).2 = R := by
  obtain ⟨e', st', h⟩ := pass1_stops ans R e ord e {} hnd (fun _ _ => rfl) hhold hall
  unfold getWith
  rw [h]

theorem getWith_no_obj (ans : Nat → Shard → Bool → GetR) (e : Eng) (ord : List Nat) (hnd : ord.Nodup)
    (hall : ∀ i ∈ ord, ∀ s, e.shards[i]? = some s → NoObj (ans i s s.mode.noMeta)) (o : Obj) :
    (getWith ans e ord).2 ≠ .ok o := by
  have h := pass1_no_obj ans e ord e {} hnd (fun _ _ => rfl) hall
  unfold getWith
  generalize pass1 ans ord e {} = r at h
  obtain ⟨e1, r1, st1⟩ := r
  simp only at h
  cases r1 with
  | some r => simp only; intro hr; exact h.1 o (by rw [hr])
  | none =>
    simp only
    cases hsp : st1.split with
    | some m => simp
    | none =>
      have : st1.metaSh.isNone = true := by rw [h.2]; rfl
      simp [this]

/-! ## What a shard answers, in terms of its state -/

/-- the shard hands out `o` for `id` in the first pass: its blob is readable and it is degraded (no metadata to
consult) or its metabase has the object indexed and available -/
def Shard.holds (s : Shard) (id ep : Nat) (o : Obj) : Prop :=
  s.failR = false ∧ s.blob id = some o ∧
    (s.mode.noMeta = true ∨ (s.status id ep = .avail ∧ (s.find id).isSome = true))

theorem Shard.get_of_holds (s : Shard) (id ep : Nat) (o : Obj) (h : s.holds id ep o) :
    s.get id ep s.mode.noMeta = .ok o := by
  obtain ⟨hf, hb, hm⟩ := h
  unfold Shard.get
  cases hn : s.mode.noMeta with
  | true => simp [Shard.blobGet, hf, hb]
  | false =>
    rw [hn] at hm
    simp only [Bool.false_eq_true, false_or] at hm
    simp [Shard.mExists, hm.1, hm.2, Shard.blobGet, hf, hb]

/-- every first-pass answer of a shard is the object it stores under the id, "removed"/"expired" exactly when
its metabase says so, or an answer that lets the read go on -/
theorem Shard.get_cases (s : Shard) (id ep : Nat) :
    (∃ o, s.get id ep s.mode.noMeta = .ok o ∧ s.holds id ep o) ∨
    (s.get id ep s.mode.noMeta = .err .removed ∧ s.mode.noMeta = false ∧ s.status id ep = .tomb) ∨
    (s.get id ep s.mode.noMeta = .err .expired ∧ s.mode.noMeta = false ∧ s.status id ep = .exp) ∨
    (Passes (s.get id ep s.mode.noMeta) ∧ ∀ o, ¬ s.holds id ep o) := by
  unfold Shard.get Shard.holds
  cases hn : s.mode.noMeta with
  | true =>
    simp only [Bool.or_true, if_true, Shard.blobGet]
    cases hf : s.failR with
    | true => right; right; right; simp [Passes, classify]
    | false =>
      cases hb : s.blob id with
      | some o => left; exact ⟨o, by simp, by simp⟩
      | none => right; right; right; simp [Passes, classify]
  | false =>
    simp only [Bool.or_false, Bool.false_eq_true, if_false, false_or, Shard.mExists]
    cases hst : s.status id ep with
    | gc => right; right; right; simp [Passes, classify]
    | tomb => right; left; simp
    | exp => right; right; left; simp
    | avail =>
      simp only
      cases hfi : (s.find id).isSome with
      | false => right; right; right; simp [Passes, classify]
      | true =>
        simp only [Shard.blobGet]
        cases hf : s.failR with
        | true => right; right; right; simp [Passes, classify]
        | false =>
          cases hb : s.blob id with
          | some o => left; exact ⟨o, by simp, by simp⟩
          | none => right; right; right; simp [Passes, classify]

/-! ## The property theorems -/

/-- **An error or a degraded mode on one shard never hides an object held by another shard.**  For every
engine, every order (no shard twice), every mode of every shard, every injected failure and every error
threshold: if some shard of the order holds the object (readable blob; metadata says available, or the shard
is degraded) and no shard with a metabase reports it removed or expired, `Get` returns exactly that object.
(`hsame`: an address has one content — ids are content hashes.) -/
theorem get_finds_held_object (e : Eng) (id : Nat) (ord : List Nat) (hnd : ord.Nodup)
    (h : Nat) (sh : Shard) (o : Obj) (hmem : h ∈ ord) (hsh : e.shards[h]? = some sh)
    (hold : sh.holds id e.epoch o)
    (hnorem : ∀ i ∈ ord, ∀ s, e.shards[i]? = some s → s.mode.noMeta = false →
      s.status id e.epoch ≠ .tomb ∧ s.status id e.epoch ≠ .exp)
    (hsame : ∀ i ∈ ord, ∀ s o', e.shards[i]? = some s → s.blob id = some o' → o' = o) :
    (e.get id ord).2 = .ok o := by
  unfold Eng.get
  apply getWith_stops (shardAns id e.epoch) (.ok o) e ord hnd
  · exact ⟨h, hmem, sh, hsh, by simp only [shardAns]; rw [Shard.get_of_holds sh id e.epoch o hold]; rfl⟩
  · intro i hi s hs
    simp only [shardAns]
    rcases Shard.get_cases s id e.epoch with ⟨o', hg, hh⟩ | ⟨_, hm, hst⟩ | ⟨_, hm, hst⟩ | ⟨hp, _⟩
    · left; rw [hg]; simp only [Stops]; rw [hsame i hi s o' hs hh.2.1]
    · exact absurd hst (hnorem i hi s hs hm).1
    · exact absurd hst (hnorem i hi s hs hm).2
    · right; exact hp

/-- **A removed object is reported removed regardless of the order**: if some shard with a metabase has the
object tombstoned, no shard holds it as available and none reports it expired, `Get` answers "already removed"
for every order and whatever fails elsewhere. -/
theorem get_reports_removed (e : Eng) (id : Nat) (ord : List Nat) (hnd : ord.Nodup)
    (r : Nat) (sr : Shard) (hmem : r ∈ ord) (hsr : e.shards[r]? = some sr)
    (hmeta : sr.mode.noMeta = false) (htomb : sr.status id e.epoch = .tomb)
    (hnone : ∀ i ∈ ord, ∀ s o, e.shards[i]? = some s → ¬ s.holds id e.epoch o)
    (hnoexp : ∀ i ∈ ord, ∀ s, e.shards[i]? = some s → s.mode.noMeta = false → s.status id e.epoch ≠ .exp) :
    (e.get id ord).2 = .err .removed := by
  unfold Eng.get
  apply getWith_stops (shardAns id e.epoch) (.err .removed) e ord hnd
  · refine ⟨r, hmem, sr, hsr, ?_⟩
    simp only [shardAns]
    rcases Shard.get_cases sr id e.epoch with ⟨o', _, hh⟩ | ⟨hg, _, _⟩ | ⟨_, _, hst⟩ | ⟨_, _⟩
    · exact absurd hh (hnone r hmem sr o' hsr)
    · rw [hg]; simp [Stops, classify]
    · rw [htomb] at hst; cases hst
    · -- a tombstoned id on a shard with metadata never "passes"
      unfold Shard.get
      simp [hmeta, Shard.mExists, htomb, Stops, classify]
  · intro i hi s hs
    simp only [shardAns]
    rcases Shard.get_cases s id e.epoch with ⟨o', _, hh⟩ | ⟨hg, _, _⟩ | ⟨_, hm, hst⟩ | ⟨hp, _⟩
    · exact absurd hh (hnone i hi s o' hs)
    · left; rw [hg]; simp [Stops, classify]
    · exact absurd hst (hnoexp i hi s hs hm)
    · right; exact hp

/-- no live copy: no shard with a metabase has the object indexed and available, and no degraded shard holds
its blob (decidable) -/
def noLiveCopy (e : Eng) (id : Nat) (ord : List Nat) : Bool :=
  ord.all fun i =>
    match e.shards[i]? with
    | none => true
    | some s =>
      if s.mode.noMeta then (s.blob id).isNone
      else !(s.status id e.epoch == .avail && (s.find id).isSome)

theorem Shard.get_noObj (s : Shard) (id ep : Nat)
    (h : (if s.mode.noMeta then (s.blob id).isNone else !(s.status id ep == .avail && (s.find id).isSome)) = true) :
    NoObj (s.get id ep s.mode.noMeta) := by
  unfold Shard.get
  cases hn : s.mode.noMeta with
  | true =>
    rw [hn] at h
    simp only [if_true] at h
    simp only [Bool.or_true, if_true, Shard.blobGet]
    cases hf : s.failR with
    | true => simp [NoObj]
    | false =>
      cases hb : s.blob id with
      | some o => rw [hb] at h; simp at h
      | none => simp [NoObj]
  | false =>
    rw [hn] at h
    simp only [Bool.false_eq_true, if_false] at h
    simp only [Bool.or_false, Bool.false_eq_true, if_false, Shard.mExists]
    cases hst : s.status id ep with
    | gc => simp [NoObj]
    | tomb => simp [NoObj]
    | exp => simp [NoObj]
    | avail =>
      rw [hst] at h
      cases hfi : (s.find id).isSome with
      | false => simp [NoObj]
      | true => rw [hfi] at h; simp at h

/-- **A degraded mode or an error on one shard never makes a removed object reappear** (repaired code): if no
shard with a metabase has the object available and no degraded shard holds its blob, `Get` does not return
it — whatever modes, failures and order; in particular a garbage-marked, not yet collected object stays
unreadable while ANOTHER shard is degraded. -/
theorem get_no_resurrection_partial (e : Eng) (id : Nat) (ord : List Nat) (hnd : ord.Nodup)
    (hno : noLiveCopy e id ord = true) (o : Obj) : (e.get id ord).2 ≠ .ok o := by
  unfold Eng.get
  apply getWith_no_obj (shardAns id e.epoch) e ord hnd
  intro i hi s hs
  simp only [shardAns]
  apply Shard.get_noObj
  unfold noLiveCopy at hno
  have := List.all_eq_true.mp hno i hi
  rw [hs] at this
  exact this

/-- the same for `Head` -/
theorem Shard.head_noObj (s : Shard) (id ep : Nat)
    (h : (if s.mode.noMeta then (s.blob id).isNone else !(s.status id ep == .avail && (s.find id).isSome)) = true) :
    NoObj (s.head id ep) := by
  unfold Shard.head
  cases hn : s.mode.noMeta with
  | true =>
    rw [hn] at h
    simp only [if_true] at h
    simp only [if_true, Shard.blobGet]
    cases hf : s.failR with
    | true => simp [NoObj]
    | false =>
      cases hb : s.blob id with
      | some o => rw [hb] at h; simp at h
      | none => simp [NoObj]
  | false =>
    rw [hn] at h
    simp only [Bool.false_eq_true, if_false] at h
    simp only [Bool.false_eq_true, if_false, Shard.mExists]
    cases hst : s.status id ep with
    | gc => simp [NoObj]
    | tomb => simp [NoObj]
    | exp => simp [NoObj]
    | avail =>
      rw [hst] at h
      cases hfi : (s.find id).isSome with
      | false => simp [NoObj]
      | true => rw [hfi] at h; simp at h

theorem head_no_resurrection_partial (e : Eng) (id : Nat) (ord : List Nat) (hnd : ord.Nodup)
    (hno : noLiveCopy e id ord = true) (o : Obj) : (e.head id ord).2 ≠ .ok o := by
  have hall : ∀ i ∈ ord, ∀ s, e.shards[i]? = some s → NoObj (headAns id e.epoch i s s.mode.noMeta) := by
    intro i hi s hs
    simp only [headAns]
    apply Shard.head_noObj
    unfold noLiveCopy at hno
    have := List.all_eq_true.mp hno i hi
    rw [hs] at this
    exact this
  have h := pass1_no_obj (headAns id e.epoch) e ord e {} hnd (fun _ _ => rfl) hall
  unfold Eng.head
  generalize pass1 (headAns id e.epoch) ord e {} = r at h
  obtain ⟨e1, r1, st1⟩ := r
  simp only at h
  cases r1 with
  | some r => simp only; intro hr; exact h.1 o (by rw [hr])
  | none =>
    simp only
    cases hsp : st1.split with
    | some m => simp
    | none => simp

/-! ## The full statement, and why it is false for the current code -/

/-- the object is recorded as removed on shard `s`: a tombstone or a garbage mark in its metabase (whether or
not the metabase is reachable in the shard's current mode), no lock protecting it -/
def Shard.recordsRemoval (s : Shard) (id ep : Nat) : Bool := s.inGarbage id != .avail && !s.locked id ep

/-- the property as the statement has it: once every shard that stores the object has recorded its removal,
no mode of any shard makes a read return it -/
def C20_full : Prop :=
  ∀ (e : Eng) (id : Nat) (ord : List Nat) (o : Obj), ord.Nodup →
    (∀ i ∈ ord, ∀ s, e.shards[i]? = some s → s.blob id = none ∨ s.recordsRemoval id e.epoch = true) →
    (e.get id ord).2 ≠ .ok o

def cexObj : Obj := { id := 1, kind := .reg, target := 0, exp := 0 }

/-- the witness: one shard holds object 1 with a garbage mark (removal accepted, GC has not run) and is then
switched to a degraded mode: its metabase is no longer consulted and the blob is served -/
def cexEngine : Eng := { shards := [{ mode := .degRO, idx := [cexObj], blobs := [cexObj], garbage := [1] }] }

theorem C20_counterexample : ¬ C20_full := by
  intro h
  have := h cexEngine 1 [0] cexObj (by simp) (by
    intro i hi s hs
    simp only [List.mem_singleton] at hi
    subst hi
    simp only [cexEngine, List.getElem?_cons_zero, Option.some.injEq] at hs
    subst hs
    right; decide)
  exact this (by decide)

/-- second witness (missed tombstone): shard 0 was read-only when the tombstone was broadcast and still has
the object available, shard 1 has the tombstone: the answer depends on the order. -/
def cexMissed : Eng :=
  { shards := [{ mode := .ro, idx := [cexObj], blobs := [cexObj] },
               { idx := [{ id := 5, kind := .ts, target := 1, exp := 0 }],
                 blobs := [{ id := 5, kind := .ts, target := 1, exp := 0 }], garbage := [1] }] }

theorem missed_tombstone_order_dependent :
    (cexMissed.get 1 [0, 1]).2 = .ok cexObj ∧ (cexMissed.get 1 [1, 0]).2 = .err .removed := by decide

/-- the defect that was repaired: with the old entry condition of the second pass a garbage-marked object on a
healthy shard was returned as soon as ANY other shard was degraded; the repaired algorithm answers not found -/
def cexOld : Eng :=
  { shards := [{ idx := [cexObj], blobs := [cexObj], garbage := [1] }, { mode := .degRO }] }

theorem old_second_pass_resurrects :
    (getWithOld (shardAns 1 0) cexOld [0, 1]).2 = .ok cexObj ∧ (cexOld.get 1 [0, 1]).2 = .err .notFound := by decide

/-! ## Non-vacuity -/

/-- a holder behind a failing shard and a degraded shard: the hypotheses of `get_finds_held_object` hold and
the object is returned -/
example :
    let e : Eng := { thr := 1, shards := [{ failR := true, idx := [cexObj], blobs := [cexObj] }, { mode := .deg }, { idx := [cexObj], blobs := [cexObj] }] }
    (e.get 1 [0, 1, 2]).2 = .ok cexObj ∧ (e.get 1 [0, 1, 2]).1.shards[0]?.map (·.mode) = some .degRO := by decide

example : (cexMissed.get 1 [1]).2 = .err .removed := by decide

example : noLiveCopy cexOld 1 [0, 1] = true := by decide

end NeoFS.Engine
