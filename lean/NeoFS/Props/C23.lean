import NeoFS.Lemmas.Assemble
import NeoFS.Props.C21
/-!
# C23 — reading a split or erasure-coded object returns exactly its original bytes

`spec payload mode first second` is what a read request denotes: the whole payload (`mode = 0`, GET), the
slice `Spec.rangeSlice` gives for the range modes 1–4, or out-of-range when that slice is unsatisfiable.
`PayloadRange.Resolve` enters through `Gen.resolve`, regenerated from the source on every run (C11's
`resolve_spec` covers 64-bit overflow of `off+ln`). Every theorem is for ALL payloads and ALL ways of
cutting them into children.
-/
namespace NeoFS.Assemble
open NeoFS.Spec NeoFS.EC

/-- the meaning of a read request on a payload -/
def spec (payload : Bytes) (mode first second : Nat) : Res :=
  if mode = 0 then .ok payload
  else
    match rangeSlice mode first second payload.length with
    | some (o, l) => .ok (slice payload o l)
    | none => .error .outOfRange

/-- a request of the API: a known mode and 64-bit values -/
structure ReqOK (mode first second : Nat) : Prop where
  hm : mode ≤ 4
  hf : first < M64
  hs : second < M64

theorem mem_length_le_flatten (cs : List Bytes) : ∀ c ∈ cs, c.length ≤ cs.flatten.length := by
  induction cs with
  | nil => intro c h; simp at h
  | cons x rest ih =>
    intro c h
    simp only [List.mem_cons] at h
    simp only [List.flatten_cons, List.length_append]
    rcases h with rfl | h
    · omega
    · have := ih c h; omega

/-- resolution of a satisfiable request on a non-empty payload: in bounds and not empty -/
theorem resolved_facts (mode f s n o l : Nat) (hn : 1 ≤ n) (h : rangeSlice mode f s n = some (o, l)) :
    1 ≤ l ∧ o + l ≤ n := by
  have hb := Range.slice_in_bounds _ _ _ _ _ _ h
  refine ⟨?_, hb⟩
  by_cases hl : l = 0
  · subst hl
    have := (Range.slice_zero_len _ _ _ _ _ h).1
    omega
  · omega

/-- the out-of-range guards of the split paths (regenerated from the source) reject every wrapped or
out-of-bounds pair of 64-bit values and pass every in-bounds one -/
theorem guard_rejects (off ln n : Nat) (ho : off < M64) (hl : ln < M64) (hn : n < M64) (h : n < off + ln) :
    guardV2 off ln n = true ∧ guardV1 off ln n = true := by
  unfold guardV2 guardV1 Gen.v2LinkRangeGuard Gen.v1RangeGuard
  simp only [Bool.or_eq_true, decide_eq_true_eq]
  by_cases hw : off + ln < M64
  · rw [Nat.mod_eq_of_lt hw]; omega
  · have e : (off + ln) % M64 = off + ln - M64 := by
      rw [Nat.mod_eq_sub_mod (by omega), Nat.mod_eq_of_lt (by unfold M64 at *; omega)]
    rw [e]; unfold M64 at *; omega

theorem guard_passes (off ln n : Nat) (h : off + ln ≤ n) (hn : n < M64) :
    guardV2 off ln n = false ∧ guardV1 off ln n = false :=
  ⟨guardV2_passes off ln n h hn, guardV1_passes off ln n h hn⟩

/-- the EC range guard: passes exactly the in-bounds non-empty ranges (all 64-bit values) -/
theorem guardEC_iff (off ln n : Nat) (ho : off < M64) (hl : ln < M64) (hn : n < M64) (h1 : 1 ≤ ln) :
    guardEC off ln n = false ↔ off + ln ≤ n := by
  unfold guardEC Gen.ecRangeGuard
  simp only [Bool.or_eq_false_iff, decide_eq_false_iff_not]
  unfold M64 at *
  omega

/-- The buffer `copyECPartsRanges` copies with is never empty for a non-empty window (an empty buffer would
make `copyPayloadStreamBuffer` spin) and never exceeds the stream chunk size. -/
theorem ecRangeBuffer_positive (per fi fo li lt : Nat) (hper : per < M64) (hfl : fi ≤ li) (hli : li < 256)
    (hfo : fo < per) (hlt1 : 1 ≤ lt) (hlt : lt ≤ per) (hsame : fi = li → fo < lt) :
    1 ≤ Gen.calcECRangeBufferLen per fi fo li lt ∧ Gen.calcECRangeBufferLen per fi fo li lt ≤ 262144 := by
  unfold Gen.calcECRangeBufferLen
  unfold M64 at hper
  simp only [decide_eq_true_eq]
  split_ifs <;> omega

/-! ## objects stored whole and full reads -/

/-- GET of a split object (either scheme, with or without the link object): the children in order. -/
theorem readAll_concat (cs : List Bytes) : readAll cs = .ok cs.flatten := by
  unfold readAll
  have : (cs.map fun c => readPhys c none) = cs.map fun c => (.ok c : Res) := by
    apply List.map_congr_left; intro c _; rfl
  rw [this, copyAll_oks]

theorem whole_exact (pl : Bytes) (mode f s : Nat) (hr : ReqOK mode f s) (hn : pl.length < M64) :
    readWhole pl mode f s = spec pl mode f s := by
  unfold readWhole spec
  by_cases h0 : mode = 0
  · simp [h0]
  · simp only [h0, if_false]
    rw [resolve_eq mode f s pl.length hr.hm hr.hf hr.hs hn]
    cases rangeSlice mode f s pl.length with
    | none => rfl
    | some p => obtain ⟨o, l⟩ := p; rfl

/-! ## range reads of split objects -/

/-- `rangeFromLink`: the children chosen by `requiredChildrenIter`, the first cut from `firstChildOffset`, the
last cut at `lastChildRightBound`, concatenate to exactly `payload[off, off+ln)` — for all child size lists. -/
theorem rangeFromLink_exact (cs : List Bytes) (off ln : Nat) (h1 : 1 ≤ ln) (h2 : off + ln ≤ total cs)
    (hn : total cs < M64) : rangeFromLink cs off ln = .ok (slice cs.flatten off ln) := by
  have hg : ∀ c ∈ cs, c.length < M64 := fun c hc => by
    have := mem_length_le_flatten cs c hc; unfold total at hn; omega
  have := window_spec readPhys (fun _ => none) (fun c : Bytes => c) (fun c => c.length < M64)
    (fun c off ln hc h1 h2 => readPhys_range c off ln h1 h2 hc) (fun c _ => rfl) cs off ln h1
    (by simpa [total] using h2) hg
  simp only [List.map_id'] at this
  unfold rangeFromLink
  exact this

theorem v2Link_exact (cs : List Bytes) (mode f s : Nat) (hr : ReqOK mode f s)
    (h1 : 1 ≤ total cs) (hn : total cs < M64) : v2Link cs mode f s = spec cs.flatten mode f s := by
  unfold v2Link spec
  by_cases h0 : mode = 0
  · simp [h0, readAll_concat]
  · simp only [h0, if_false]
    rw [resolve_eq mode f s (total cs) hr.hm hr.hf hr.hs hn]
    show _ = match rangeSlice mode f s (total cs) with | some (o, l) => _ | none => _
    cases hsl : rangeSlice mode f s (total cs) with
    | none => rfl
    | some p =>
      obtain ⟨o, l⟩ := p
      obtain ⟨hl, hb⟩ := resolved_facts _ _ _ _ _ _ h1 hsl
      have hl0 : l ≠ 0 := by omega
      simp only [hl0, if_false]
      rw [guardV2_passes o l (total cs) hb hn]
      simp only [Bool.false_eq_true, if_false]
      exact rangeFromLink_exact cs o l hl hb hn

/-- walking back from the last part (V2 without link object) -/
theorem v2Last_exact (cs : List Bytes) (mode f s : Nat) (hr : ReqOK mode f s)
    (h1 : 1 ≤ total cs) (hn : total cs < M64) : v2Last cs mode f s = spec cs.flatten mode f s := by
  unfold v2Last spec
  by_cases h0 : mode = 0
  · simp [h0, readAll_concat]
  · simp only [h0, if_false]
    rw [resolve_eq mode f s (total cs) hr.hm hr.hf hr.hs hn]
    show _ = match rangeSlice mode f s (total cs) with | some (o, l) => _ | none => _
    cases hsl : rangeSlice mode f s (total cs) with
    | none => rfl
    | some p =>
      obtain ⟨o, l⟩ := p
      obtain ⟨hl, hb⟩ := resolved_facts _ _ _ _ _ _ h1 hsl
      have hg : ∀ c ∈ cs.reverse, c.length < M64 := fun c hc => by
        have := mem_length_le_flatten cs c (List.mem_reverse.mp hc); unfold total at hn; omega
      have := buildChain_spec cs.reverse o (o + l) (by omega) hg
      simp only [List.reverse_reverse] at this
      simp only
      rw [show total cs = cs.flatten.length from rfl, this]
      have e : o + l - o = l := by omega
      rw [e]

/-- V1 split: through the link object's child list or by walking back from the last part -/
theorem v1_exact (cs : List Bytes) (link : Bool) (mode f s : Nat) (hr : ReqOK mode f s) (hne : cs ≠ [])
    (h1 : 1 ≤ total cs) (hn : total cs < M64) : v1 cs link mode f s = spec cs.flatten mode f s := by
  obtain ⟨ini, lst, rfl⟩ : ∃ ini lst, cs = ini ++ [lst] :=
    ⟨cs.dropLast, cs.getLast hne, (List.dropLast_concat_getLast hne).symm⟩
  have hflat : (ini ++ [lst]).flatten = ini.flatten ++ lst := by simp
  have hg : ∀ c ∈ ini ++ [lst], c.length < M64 := fun c hc => by
    have := mem_length_le_flatten _ c hc; unfold total at hn; omega
  unfold v1 spec
  by_cases h0 : mode = 0
  · cases link with
    | true => simp [h0, readAll_concat]
    | false => simp [h0, readAll_concat, copyAll, readPhys]
  · simp only [h0, if_false]
    rw [resolve_eq mode f s _ hr.hm hr.hf hr.hs hn]
    show _ = match rangeSlice mode f s (total (ini ++ [lst])) with | some (o, l) => _ | none => _
    cases hsl : rangeSlice mode f s (total (ini ++ [lst])) with
    | none => rfl
    | some p =>
      obtain ⟨o, l⟩ := p
      obtain ⟨hl, hb⟩ := resolved_facts _ _ _ _ _ _ h1 hsl
      have hl0 : l ≠ 0 := by omega
      have htot : total (ini ++ [lst]) = ini.flatten.length + lst.length := by simp [total]
      simp only
      cases link with
      | true =>
        simp only [if_true, List.length_nil]
        rw [initFromChild_spec _ 0 o l hl hb hn (by omega)]
        simp only [Nat.sub_zero]
        have hnr : ¬ total (ini ++ [lst]) < o + l := by omega
        simp only [hnr, if_false, if_true]
        have := buildChain_spec (ini ++ [lst]).reverse o (o + l) (by omega)
          (fun c hc => hg c (List.mem_reverse.mp hc))
        simp only [List.reverse_reverse] at this
        rw [show total (ini ++ [lst]) = (ini ++ [lst]).flatten.length from rfl, this]
        have e : o + l - o = l := by omega
        simp [copyAll, e]
      | false =>
        have hlast : (ini ++ [lst]).getLast?.getD [] = lst := by simp
        have hdl : (ini ++ [lst]).dropLast = ini := by simp
        simp only [Bool.false_eq_true, if_false, hlast, hdl]
        rw [initFromChild_spec _ _ o l hl hb hn (by omega)]
        simp only
        have hsr : total (ini ++ [lst]) - lst.length = ini.flatten.length := by omega
        rw [hsr]
        have hbody := buildChain_spec ini.reverse o (o + l) (by omega)
          (fun c hc => hg c (by simp [List.mem_reverse.mp hc]))
        simp only [List.reverse_reverse] at hbody
        rw [hbody, hflat, slice_append]
        have e : o + l - o = l := by omega
        rw [e]
        have hlst : lst.length < M64 := hg lst (by simp)
        generalize hP : ini.flatten = P at hb htot hsr hbody ⊢
        by_cases hreach : P.length < o + l
        · rw [if_pos hreach]
          simp only
          have hne0 : o + l - P.length - (o - P.length) ≠ 0 := by omega
          rw [if_neg hne0, readPhys_range lst _ _ (by omega) (by omega) hlst]
          have e2 : o + l - P.length - (o - P.length) = l - (P.length - o) := by omega
          rw [e2]
          simp [copyAll]
        · rw [if_neg hreach]
          have e2 : l - (P.length - o) = 0 := by omega
          rw [e2, slice_len_zero]
          simp [copyAll]

/-- Both split schemes, with and without the link object, give the same answer for every request. -/
theorem all_split_paths_agree (cs : List Bytes) (mode f s : Nat) (hr : ReqOK mode f s) (hne : cs ≠ [])
    (h1 : 1 ≤ total cs) (hn : total cs < M64) :
    v2Link cs mode f s = v2Last cs mode f s ∧ v2Last cs mode f s = v1 cs true mode f s ∧
      v1 cs true mode f s = v1 cs false mode f s := by
  rw [v2Link_exact cs mode f s hr h1 hn, v2Last_exact cs mode f s hr h1 hn,
    v1_exact cs true mode f s hr hne h1 hn, v1_exact cs false mode f s hr hne h1 hn]
  exact ⟨rfl, rfl, rfl⟩

/-- A range is reported out of range exactly when it does not fit the payload (incl. 64-bit overflow of
`offset+length`), on every split path. -/
theorem split_out_of_range_iff (cs : List Bytes) (off ln : Nat) (ho : off < M64) (hl : ln < M64) (h0 : 1 ≤ ln)
    (h1 : 1 ≤ total cs) (hn : total cs < M64) :
    v2Link cs 1 off ln = .error .outOfRange ↔ total cs < off + ln := by
  rw [v2Link_exact cs 1 off ln ⟨by omega, ho, hl⟩ h1 hn]
  have hl0 : ln ≠ 0 := by omega
  unfold spec
  simp only [Nat.one_ne_zero, if_false, rangeSlice, hl0, total]
  by_cases hb : off + ln ≤ cs.flatten.length
  · simp only [hb, if_true]
    constructor
    · intro h; cases h
    · intro h; omega
  · simp only [hb, if_false, true_iff]
    omega

/-! ## the `previous` walk yields the children in order -/

/-- `store` holds a chain of parts, listed here from the last part backwards as (id, payload): every part
points to the one before it and the first part has no `previous` id -/
def ChainRev (store : Nat → Option Part) : List (Nat × Bytes) → Prop
  | [] => True
  | [(i, c)] => store i = some { prev := none, payload := c }
  | (i, c) :: (j, c') :: rest =>
    store i = some { prev := some j, payload := c } ∧ ChainRev store ((j, c') :: rest)

theorem walkBack_chain (store : Nat → Option Part) :
    ∀ (rest : List (Nat × Bytes)) (i : Nat) (c : Bytes), ChainRev store ((i, c) :: rest) →
      walkBack store (rest.length + 1) i = c :: rest.map (·.2) := by
  intro rest
  induction rest with
  | nil => intro i c h; simp only [ChainRev] at h; simp [walkBack, h]
  | cons x xs ih =>
    intro i c h
    obtain ⟨j, c'⟩ := x
    simp only [ChainRev] at h
    simp only [List.length_cons, List.map_cons]
    rw [walkBack, h.1]
    simp only
    rw [ih j c' h.2]

/-- Walking `previous` ids from the last part visits the children last-to-first, so the reversed chain
that the assembler copies is the children in their original order — for every chain of parts. -/
theorem walkBack_in_order (store : Nat → Option Part) (chain : List (Nat × Bytes)) (lastId : Nat) (lastC : Bytes)
    (h : ChainRev store ((chain ++ [(lastId, lastC)]).reverse)) :
    (walkBack store (chain.length + 1) lastId).reverse = (chain ++ [(lastId, lastC)]).map (·.2) := by
  simp only [List.reverse_append, List.reverse_cons, List.reverse_nil, List.nil_append, List.singleton_append] at h
  have := walkBack_chain store chain.reverse lastId lastC h
  simp only [List.length_reverse] at this
  rw [this]
  simp

/-! ## erasure-coded objects -/

/-- GET of an EC object with at most `p` parts unavailable returns exactly the payload. -/
theorem ecGet_exact (o : ECObj) (hd : 1 ≤ o.d) (hm : o.missIn 0 o.d + o.missIn o.d (o.d + o.p) ≤ o.p) :
    ecGet o = .ok o.payload := by
  unfold ecGet
  simp only
  by_cases hn : o.payload.length = 0
  · have : o.payload = [] := List.eq_nil_of_length_eq_zero hn
    simp only [hn, if_true, this]
    split_ifs <;> first | rfl | omega
  · simp only [hn, if_false]
    have hcat : concatDataParts o.d o.payload.length (dataParts o.payload o.d) = o.payload := by
      unfold concatDataParts
      have ht : (dataParts o.payload o.d).take o.d = dataParts o.payload o.d :=
        List.take_of_length_le (by rw [dataParts_length]; exact Nat.le_refl _)
      rw [ht]
      exact dataParts_flatten_take o.payload o.d hd
    split_ifs <;> first | rfl | omega | (rw [hcat])

/-- What `ecGet` takes for granted, from C21: with a lawful Reed–Solomon coder `iec.Decode` returns the
payload from the parts that are available whenever at least `d` of them are. -/
theorem ecGet_decode_justified (c : Coder) (d p : Nat) (hd : 1 ≤ d) (hc : c.Lawful d p) (payload : Bytes)
    (hne : payload ≠ []) (present : List Bool) (hp : present.length = d + p) (hk : d ≤ present.count true) :
    decode c d p payload.length (mask (c.allParts d p payload) present) = some payload :=
  decode_any_subset c d p hd hc payload hne present hp hk

/-- and for range reads: the parts `iec.DecodeRange` reconstructs are the original parts, so reading a
recovered data part is reading `dataParts payload d` at that index — unavailable parts within the parity
budget are invisible to the reader. -/
theorem recovered_part_is_original (c : Coder) (d p : Nat) (hc : c.Lawful d p) (payload : Bytes)
    (hne : payload ≠ []) (present required : List Bool) (hp : present.length = d + p)
    (hq : required.length = d + p) (hk : d ≤ present.count true) :
    ∃ r, decodeSome c d p (mask (c.allParts d p payload) present) required = some r ∧
      ∀ i, i < d → required.getD i false = true → r[i]? = some ((dataParts payload d)[i]?) := by
  obtain ⟨r, hr, hfill, _⟩ := decode_range_exact c d p hc payload hne present required hp hq hk
  refine ⟨r, hr, fun i hi hreq => ?_⟩
  rw [hfill i (by omega) (Or.inr hreq), getElem?_allParts_data c d p payload i hi]

/-! ### range reads of EC objects -/

theorem slots_snd (o : ECObj) : o.slots.map Prod.snd = dataParts o.payload o.d := by
  unfold ECObj.slots
  exact List.map_snd_zip (by simp [dataParts_length])

theorem slots_len (o : ECObj) (hd : 1 ≤ o.d) : ∀ x ∈ o.slots, x.2.length = perShard o.payload.length o.d := by
  intro x hx
  have hx2 : x.2 ∈ o.slots.map Prod.snd := List.mem_map_of_mem hx
  rw [slots_snd] at hx2
  exact dataParts_len o.payload o.d hd x.2 hx2

/-- Range read of an EC object (`copyECObjectRangeByParts`): the data parts overlapping `[off, off+ln)`,
the first from its offset, the last up to its bound, give exactly `payload[off, off+ln)` — for every rule
`d ≥ 1`, `p ≥ 0`, every payload, every in-bounds range and every set of unavailable parts that leaves at
least `d` parts (recovered parts are the original ones: `recovered_part_is_original`). -/
theorem ecRangeByParts_exact (o : ECObj) (hd : 1 ≤ o.d) (off ln : Nat) (h1 : 1 ≤ ln)
    (hb : off + ln ≤ o.payload.length) (hM : o.d * perShard o.payload.length o.d < M64) (hav : o.d ≤ o.nAvail) :
    ecRangeByParts o off ln = .ok (slice o.payload off ln) := by
  have hn0 : o.payload.length ≠ 0 := by omega
  have hle := le_mul_perShard o.payload.length o.d hd
  have hper1 : 1 ≤ perShard o.payload.length o.d := by
    rcases Nat.eq_zero_or_pos (perShard o.payload.length o.d) with h0 | h0
    · rw [h0] at hle; omega
    · exact h0
  have hperM : perShard o.payload.length o.d < M64 := by
    have := Nat.le_mul_of_pos_left (perShard o.payload.length o.d) (show 0 < o.d by omega)
    omega
  have hg := slots_len o hd
  have hsnd : o.slots.map (fun x => x.2) = dataParts o.payload o.d := slots_snd o
  have hflat : (o.slots.map (fun x => x.2)).flatten.length = o.d * perShard o.payload.length o.d := by
    rw [hsnd, dataParts_flatten o.payload o.d hd, padded_length o.payload o.d hd]
  have hslen : o.slots.map (fun x => x.2.length) = List.replicate o.d (perShard o.payload.length o.d) := by
    rw [List.eq_replicate_iff]
    constructor
    · have : (o.slots.map Prod.snd).length = o.d := by rw [slots_snd, dataParts_length]
      simpa using this
    · intro b hbm
      obtain ⟨x, hx, rfl⟩ := List.mem_map.mp hbm
      exact hg x hx
  obtain ⟨f, fo, l, lb, e1, e2⟩ := ecFrom_spec _ hper1 hperM o.slots 0 off (off + ln) (by omega) (by omega)
    (by rw [hflat]; omega) hg
  unfold ecRangeByParts
  simp only [hn0, if_false]
  have h00 : ¬ (ln = 0 ∧ off = 0) := by omega
  simp only [h00, if_false]
  rw [guardEC_passes off ln _ h1 hb (by omega)]
  simp only [Bool.false_eq_true, if_false, hav, decide_true]
  have hrep : List.replicate (o.d + o.p) (perShard o.payload.length o.d) =
      (o.slots.map fun x => x.2.length) ++ List.replicate o.p (perShard o.payload.length o.d) := by
    rw [hslen]; simp
  unfold requiredChildren
  rw [hrep, rcFirst_prefix off (off + ln) _ _ 0 (by omega) (by omega)
    (by rw [hslen]; simp; omega), e1]
  simp only
  rw [if_neg (by omega)]
  have e3 : f + l - f = l := by omega
  rw [e3, e2, hsnd, dataParts_flatten o.payload o.d hd, slice_append]
  have e4 : ln - (o.payload.length - off) = 0 := by omega
  have e5 : off + ln - off = ln := by omega
  simp [e4, e5, slice_len_zero]

/-- GETRANGE / ranged GET of an EC object that is not size-split: exactly the denoted slice, or out of
range exactly when the request is unsatisfiable, with any parts unavailable as long as `d` remain. -/
theorem ecRange_exact (o : ECObj) (hd : 1 ≤ o.d) (mode f s : Nat) (hr : ReqOK mode f s) (hmode : mode ≠ 0)
    (hM : o.d * perShard o.payload.length o.d < M64) (hav : o.d ≤ o.nAvail) :
    ecRead o mode f s = spec o.payload mode f s := by
  have hle := le_mul_perShard o.payload.length o.d hd
  unfold ecRead ecRange spec
  have hna : o.nAvail ≠ 0 := by omega
  simp only [hmode, if_false, hna]
  rw [resolve_eq mode f s _ hr.hm hr.hf hr.hs (by omega)]
  cases hsl : rangeSlice mode f s o.payload.length with
  | none => rfl
  | some q =>
    obtain ⟨off, ln⟩ := q
    simp only
    by_cases hn : o.payload.length = 0
    · have hbnd := Range.slice_in_bounds _ _ _ _ _ _ hsl
      have hnil : o.payload = [] := List.eq_nil_of_length_eq_zero hn
      simp [ecRangeByParts, hn, ecErr, hnil, slice]
    · obtain ⟨hl, hb⟩ := resolved_facts _ _ _ _ _ _ (by omega) hsl
      rw [ecRangeByParts_exact o hd off ln hl hb hM hav]
      rfl

/-- GET of a size-split object whose children are EC-coded: every child within its parity budget ⇒ the
payload. -/
theorem splitEcGet_exact (os : List ECObj) (hd : ∀ o ∈ os, 1 ≤ o.d)
    (hm : ∀ o ∈ os, o.missIn 0 o.d + o.missIn o.d (o.d + o.p) ≤ o.p) :
    splitEcGet os = .ok (os.map fun o => o.payload).flatten := by
  unfold splitEcGet
  have : os.map ecGet = (os.map fun o => o.payload).map fun c => (.ok c : Res) := by
    rw [List.map_map]
    apply List.map_congr_left
    intro o ho
    exact ecGet_exact o (hd o ho) (hm o ho)
  rw [this, copyAll_oks]
  rfl

/-- Range read of a size-split object with EC-coded children through the link object: the children chosen
by `requiredChildren`, each read through its own EC parts (with unavailable parts recovered), compose to
exactly the denoted slice; out of range exactly when unsatisfiable. -/
theorem splitEcRangeLink_exact (os : List ECObj) (mode f s : Nat) (hr : ReqOK mode f s)
    (h1 : 1 ≤ totalEC os) (hn : totalEC os < M64)
    (hd : ∀ o ∈ os, 1 ≤ o.d) (hav : ∀ o ∈ os, o.d ≤ o.nAvail)
    (hM : ∀ o ∈ os, o.d * perShard o.payload.length o.d < M64)
    (hnz : ∀ o ∈ os, 1 ≤ o.payload.length) (hmode : mode ≠ 0) :
    splitEcRead os true mode f s = spec (os.map fun o => o.payload).flatten mode f s := by
  have hchild : ∀ o ∈ os, ∀ off ln, 1 ≤ ln → off + ln ≤ o.payload.length →
      ecRangeByParts o off ln = .ok (slice o.payload off ln) :=
    fun o ho off ln h1 h2 => ecRangeByParts_exact o (hd o ho) off ln h1 h2 (hM o ho) (hav o ho)
  have htot : totalEC os = (os.map fun o => o.payload).flatten.length := by
    unfold totalEC
    rw [List.length_flatten, List.map_map]
    rfl
  unfold splitEcRead spec splitEcRangeLink
  simp only [hmode, if_false, if_true]
  rw [resolve_eq mode f s _ hr.hm hr.hf hr.hs hn, ← htot]
  cases hsl : rangeSlice mode f s (totalEC os) with
  | none => rfl
  | some q =>
    obtain ⟨o, l⟩ := q
    obtain ⟨hl, hb⟩ := resolved_facts _ _ _ _ _ _ h1 hsl
    have hl0 : ¬ (l = 0 ∧ o = 0) := by omega
    have hin : ¬ (o ≥ totalEC os ∨ totalEC os - o < l) := by omega
    simp only [hl0, hin, if_false]
    have hw := window_spec ecChildRange (fun o => some (0, o.payload.length)) (fun o : ECObj => o.payload)
      (fun o => o ∈ os) (fun c off ln hc h1 h2 => hchild c hc off ln h1 h2)
      (fun c hc => by
        have := hchild c hc 0 c.payload.length (hnz c hc) (by omega)
        simp only [ecChildRange, this, slice_zero_all _ _ (Nat.le_refl _)])
      os o l hl (by rw [← htot]; exact hb) (fun c hc => hc)
    unfold splitEcWindow
    revert hw
    cases requiredChildren o l (os.map fun o => o.payload.length) with
    | mk fst rest =>
      obtain ⟨fo, la, lb⟩ := rest
      cases fst with
      | none => intro hw; simp at hw
      | some fi => intro hw; simp only at hw ⊢; rw [hw]; rfl

/-! ## non-vacuity -/

deriving instance DecidableEq for Except

example : spec [1, 2, 3, 4, 5, 6, 7] 1 2 3 = .ok [3, 4, 5] ∧ spec [1, 2, 3] 1 2 3 = .error .outOfRange ∧
    spec [1, 2, 3] 1 18446744073709551615 2 = .error .outOfRange := by decide

example : v2Link [[1, 2], [3, 4, 5], [6, 7]] 1 1 5 = .ok [2, 3, 4, 5, 6] ∧
    v2Last [[1, 2], [3, 4, 5], [6, 7]] 1 1 5 = .ok [2, 3, 4, 5, 6] ∧
    v1 [[1, 2], [3, 4, 5], [6, 7]] false 1 1 3 = .ok [2, 3, 4] ∧
    v1 [[1, 2], [3, 4, 5], [6, 7]] true 2 6 100 = .ok [7] := by decide

example : ecGet { d := 2, p := 1, payload := [1, 2, 3], present := [false, true, true] } = .ok [1, 2, 3] ∧
    ecGet { d := 2, p := 1, payload := [1, 2, 3], present := [false, true, false] } = .error .notFound := by decide

end NeoFS.Assemble
