import NeoFS.Model.Dump
/-!
# C46 — restoring a shard dump reproduces exactly the dumped objects

For every list of objects (each below 2^32 bytes) and EVERY way the reader cuts the stream into chunks.
-/
namespace NeoFS.Dump

theorem fromLE32_le32 (n : Nat) (h : n < 4294967296) : fromLE32 (le32 n) = n := by
  simp only [le32, fromLE32]; omega

theorem le32_length (n : Nat) : (le32 n).length = 4 := rfl

/-- `io.ReadFull` returns exactly the next `n` bytes however the reader chunks them. -/
theorem readFull_exact : ∀ (fuel n : Nat) (r : Reader), n ≤ fuel → n ≤ r.data.length →
    (r.readFull fuel n).1 = r.data.take n ∧ (r.readFull fuel n).2.data = r.data.drop n := by
  intro fuel
  induction fuel with
  | zero => intro n r h _; have : n = 0 := by omega
            subst this; simp [Reader.readFull]
  | succ f ih =>
    intro n r hn hlen
    cases n with
    | zero => simp [Reader.readFull]
    | succ m =>
      unfold Reader.readFull
      -- one Read delivers k bytes, 1 ≤ k ≤ m+1
      have hk : ∃ k, 1 ≤ k ∧ k ≤ m + 1 ∧ (r.read (m + 1)).1 = r.data.take k ∧ (r.read (m + 1)).2.data = r.data.drop k := by
        unfold Reader.read
        cases hc : r.chunks with
        | nil => exact ⟨m + 1, by omega, by omega, by simp, by simp⟩
        | cons c cs => exact ⟨min (m + 1) (max c 1), by omega, by omega, by simp, by simp⟩
      obtain ⟨k, hk1, hk2, hgot, hrest⟩ := hk
      cases hrd : r.read (m + 1) with
      | mk got r' =>
        rw [hrd] at hgot hrest
        simp only at hgot hrest
        have hgl : got.length = k := by rw [hgot, List.length_take]; omega
        have hne : got.isEmpty = false := by
          cases got with
          | nil => simp at hgl; omega
          | cons a b => rfl
        simp only [hne, Bool.false_eq_true, if_false]
        have := ih (m + 1 - got.length) r' (by omega) (by rw [hrest, List.length_drop]; omega)
        obtain ⟨i1, i2⟩ := this
        have e : k + (m + 1 - k) = m + 1 := by omega
        constructor
        · rw [i1, hgl, hrest, hgot]
          have := List.take_add (l := r.data) (i := k) (j := m + 1 - k)
          rw [e] at this
          exact this.symm
        · rw [i2, hgl, hrest, List.drop_drop, e]

/-- encoding of the records that follow the magic -/
def records (objs : List (List Nat)) : List Nat := objs.flatMap fun o => le32 o.length ++ o

theorem records_cons (o : List Nat) (os : List (List Nat)) :
    records (o :: os) = le32 o.length ++ (o ++ records os) := by
  simp [records, List.flatMap_cons, List.append_assoc]

theorem records_length_ge : ∀ objs : List (List Nat), objs.length ≤ (records objs).length := by
  intro objs
  induction objs with
  | nil => simp
  | cons x xs ih =>
    rw [records_cons, List.length_append, List.length_append, le32_length, List.length_cons]; omega

theorem Reader.eq_mk (r : Reader) (d : List Nat) (h : r.data = d) : r = ⟨d, r.chunks⟩ := by
  cases r; simp only at h; rw [h]

/-- The record loop reads back exactly the records: valid ones are restored in order, invalid ones are
counted and skipped when errors are ignored — for every chunking of the stream. -/
theorem restoreLoop_records (valid : List Nat → Bool) :
    ∀ (objs : List (List Nat)) (fuel : Nat) (chunks : List Nat) (acc : List (List Nat)) (failed : Nat),
      (∀ o ∈ objs, o.length < 4294967296) → objs.length < fuel →
      restoreLoop valid true true fuel ⟨records objs, chunks⟩ acc failed =
        .done (acc ++ objs.filter valid) (failed + objs.countP (fun o => !valid o)) := by
  intro objs
  induction objs with
  | nil =>
    intro fuel chunks acc failed _ hf
    cases fuel with
    | zero => omega
    | succ f =>
      unfold restoreLoop
      have h := readFull_exact 4 0 ⟨records [], chunks⟩ (by omega) (by simp)
      simp [records, Reader.readFull, Reader.read]
  | cons o os ih =>
    intro fuel chunks acc failed hsz hf
    cases fuel with
    | zero => simp at hf
    | succ f =>
      have ho : o.length < 4294967296 := hsz o (by simp)
      have hrec := records_cons o os
      unfold restoreLoop
      obtain ⟨a1, a2⟩ := readFull_exact 4 4 ⟨records (o :: os), chunks⟩ (by omega)
        (by show 4 ≤ (records (o :: os)).length; rw [hrec, List.length_append, le32_length]; omega)
      cases h1 : (⟨records (o :: os), chunks⟩ : Reader).readFull 4 4 with
      | mk sz r1 =>
        rw [h1] at a1 a2
        simp only at a1 a2
        have hsz4 : sz = le32 o.length := by
          rw [a1]; show List.take 4 (records (o :: os)) = _; rw [hrec]; exact List.take_left' (le32_length _)
        have hr1 : r1.data = o ++ records os := by
          rw [a2]; show List.drop 4 (records (o :: os)) = _; rw [hrec]; exact List.drop_left' (le32_length _)
        simp only [hsz4, le32_length, fromLE32_le32 o.length ho]
        have hne : (le32 o.length).isEmpty = false := rfl
        simp only [hne, Bool.false_eq_true, if_false, Nat.lt_irrefl, if_true]
        obtain ⟨b1, b2⟩ := readFull_exact o.length o.length r1 (Nat.le_refl _) (by rw [hr1, List.length_append]; omega)
        cases h2 : r1.readFull o.length o.length with
        | mk body r2 =>
          rw [h2] at b1 b2
          simp only at b1 b2
          have hbody : body = o := by rw [b1, hr1]; exact List.take_left' rfl
          have hr2 : r2.data = records os := by rw [b2, hr1]; exact List.drop_left' rfl
          simp only [hbody, Nat.lt_irrefl, Bool.and_false, Bool.false_eq_true, if_false, Bool.not_true,
            Bool.false_and, decide_false]
          have hrd : r2 = ⟨records os, r2.chunks⟩ := Reader.eq_mk r2 _ hr2
          have hrest := ih f r2.chunks
          by_cases hv : valid o = true
          · simp only [hv, if_true]
            rw [hrd, hrest (acc ++ [o]) failed (fun x hx => hsz x (by simp [hx])) (by simp at hf; omega)]
            simp [List.filter_cons, hv, List.countP_cons]
          · have hvf : valid o = false := by
              cases h : valid o with
              | true => exact absurd h hv
              | false => rfl
            simp only [hvf, Bool.false_eq_true, if_false, if_true]
            rw [hrd, hrest acc (failed + 1) (fun x hx => hsz x (by simp [hx])) (by simp at hf; omega)]
            simp [List.filter_cons, hvf, List.countP_cons]; omega

/-- **Restoring a dump stores exactly the dumped objects, in order, with identical bytes, for every
chunking of the stream**; with corrupted records ignored, exactly the intact ones and the number of skipped. -/
theorem restore_dump_exact (valid : List Nat → Bool) (objs : List (List Nat)) (chunks : List Nat)
    (hsz : ∀ o ∈ objs, o.length < 4294967296) :
    restore valid true true ⟨dump objs, chunks⟩ =
      .done (objs.filter valid) (objs.countP fun o => !valid o) := by
  unfold restore
  have hd : dump objs = magic ++ records objs := rfl
  obtain ⟨a1, a2⟩ := readFull_exact 4 4 ⟨dump objs, chunks⟩ (by omega)
    (by show 4 ≤ (dump objs).length; rw [hd, List.length_append]; simp [magic])
  cases h1 : (⟨dump objs, chunks⟩ : Reader).readFull 4 4 with
  | mk m r1 =>
    rw [h1] at a1 a2
    simp only at a1 a2
    have hm : m = magic := by
      rw [a1]; show List.take 4 (dump objs) = _; rw [hd]; exact List.take_left' rfl
    have hr1 : r1.data = records objs := by
      rw [a2]; show List.drop 4 (dump objs) = _; rw [hd]; exact List.drop_left' rfl
    simp only [hm, bne_self_eq_false, Bool.false_eq_true, if_false]
    have hrd : r1 = ⟨records objs, r1.chunks⟩ := Reader.eq_mk r1 _ hr1
    rw [hrd]
    have := restoreLoop_records valid objs ((dump objs).length + 1) r1.chunks [] 0 hsz (by
      rw [hd, List.length_append]
      have := records_length_ge objs
      omega)
    simpa using this

/-- all objects intact: exactly the dump's objects, none failed -/
theorem restore_dump_all (objs : List (List Nat)) (chunks : List Nat)
    (hsz : ∀ o ∈ objs, o.length < 4294967296) :
    restore (fun _ => true) true true ⟨dump objs, chunks⟩ = .done objs 0 := by
  rw [restore_dump_exact _ objs chunks hsz]; simp

/-- The defect that was repaired: reading the record body with a single `Read` loses data as soon as the
reader returns a short read (a concrete two-chunk reader). -/
theorem single_read_loses_data :
    restore (fun _ => true) true false ⟨dump [[1, 2, 3]], [4, 4, 1]⟩ ≠ .done [[1, 2, 3]] 0 := by decide

end NeoFS.Dump
