import NeoFS.Props.C19
/-!
# C08 — an object locked through the engine stays retrievable until the lock expires

Statuses live per shard: a lock protects the object on the shards whose metabase indexes the lock object.
Proved here, for every shard state and every epoch at which the lock is unexpired (`Shard.Protected`: the
shard has a metabase, indexes object and a live lock for it, holds its blob, no mark on the object):

* a protected object is served by its shard (`protected_served`) and, through `get_finds_held_object` (C20),
  by the engine for every order as long as no other shard reports it removed or expired;
* a tombstone for it is rejected by that shard and leaves the shard's index, marks and the object's blob
  untouched (`tombstone_rejected_keeps`), so protection survives every tombstone attempt;
* the engine refuses a tombstone for an object that ANY shard with a readable metabase reports locked before
  touching any shard (`engine_rejects_tombstone_of_locked`, the repaired defect: before the repair the
  broadcast wrote the target's garbage mark on the shards visited before the refusing one and the rollback
  left it there — `rollback_left_garbage`);
* a GC pass over the shard's marks and an epoch change below the lock's expiration keep the protection
  (`gc_marks_keeps_protected`, `protected_epoch`).

NOT proved: the induction over all engine histories (each step theorem is per operation of one shard).
The full statement is false for the current code when the lock did not reach the shard that holds the object
(`C08_counterexample`): recorded as a known finding.
-/
namespace NeoFS.Engine

/-- shard `s` protects object `o` by the lock object `l` at epoch `ep` -/
structure Shard.Protected (s : Shard) (o l : Obj) (ep : Nat) : Prop where
  hasMeta : s.mode.noMeta = false
  regular : o.kind = .reg
  indexed : s.find o.id = some o
  blob : s.blob o.id = some o
  lockIn : l ∈ s.idx
  lockKind : l.kind = .lock
  lockTarget : l.target = o.id
  lockLive : Shard.expiredObj l ep = false
  lockClean : s.inGarbage l.id = .avail
  clean : s.inGarbage o.id = .avail

theorem Shard.Protected.locked {s : Shard} {o l : Obj} {ep : Nat} (h : s.Protected o l ep) :
    s.locked o.id ep = true := by
  unfold Shard.locked
  rw [List.any_eq_true]
  exact ⟨l, h.lockIn, by simp [h.lockKind, h.lockTarget, h.lockLive, h.lockClean]⟩

theorem Shard.Protected.status {s : Shard} {o l : Obj} {ep : Nat} (h : s.Protected o l ep) :
    s.status o.id ep = .avail := by
  unfold Shard.status
  rw [h.locked]
  simp [h.clean]

/-- **A protected object is served by its shard** (unless the blob read itself fails): expiration of the
object, were it to pass, does not matter while the lock lives. -/
theorem protected_served (s : Shard) (o l : Obj) (ep : Nat) (h : s.Protected o l ep) (hr : s.failR = false) :
    s.holds o.id ep o :=
  ⟨hr, h.blob, Or.inr ⟨h.status, by rw [h.indexed]; rfl⟩⟩

/-- hence the engine returns it for EVERY order, whatever modes and failures the other shards have, as long
as no other shard reports it removed or expired (C20) -/
theorem protected_retrievable (e : Eng) (ord : List Nat) (hnd : ord.Nodup) (i : Nat) (s : Shard) (o l : Obj)
    (hi : i ∈ ord) (hs : e.shards[i]? = some s) (hp : s.Protected o l e.epoch) (hr : s.failR = false)
    (hnorem : ∀ j ∈ ord, ∀ t, e.shards[j]? = some t → t.mode.noMeta = false →
      t.status o.id e.epoch ≠ .tomb ∧ t.status o.id e.epoch ≠ .exp)
    (hsame : ∀ j ∈ ord, ∀ t o', e.shards[j]? = some t → t.blob o.id = some o' → o' = o) :
    (e.get o.id ord).2 = .ok o :=
  get_finds_held_object e o.id ord hnd i s o hi hs (protected_served s o l e.epoch hp hr) hnorem hsame

theorem find_filter_of_imp (l : List Obj) (p q : Obj → Bool) (h : ∀ x, p x = true → q x = true) :
    (l.filter q).find? p = l.find? p := by
  induction l with
  | nil => rfl
  | cons x xs ih =>
    by_cases hq : q x = true
    · rw [List.filter_cons_of_pos hq]; simp only [List.find?_cons]; rw [ih]
    · have hp : p x = false := by
        cases hpx : p x
        · rfl
        · exact absurd (h x hpx) hq
      rw [List.filter_cons_of_neg hq, List.find?_cons, hp]; exact ih

theorem find_insertObj_other (t : Obj) (l : List Obj) (id : Nat) (o : Obj)
    (h : l.find? (·.id == id) = some o) : (Shard.insertObj t l).find? (·.id == id) = some o := by
  unfold Shard.insertObj
  split
  · exact h
  · rw [List.find?_append, h]; rfl

/-- **A tombstone for a protected object is rejected by the shard and changes nothing there** except that the
tombstone's own blob (written first, removed on refusal) is absent afterwards. -/
theorem tombstone_rejected_keeps (s : Shard) (o l t : Obj) (ep : Nat) (h : s.Protected o l ep)
    (hk : t.kind = .ts) (ht : t.target = o.id) (hid : t.id ≠ o.id) (hnew : s.find t.id = none)
    (hclean : s.inGarbage t.id = .avail)
    (hw : s.mode.readOnly = false) (hf : s.failW = false) :
    (s.put t ep).2 = some .locked ∧ (s.put t ep).1.idx = s.idx ∧ (s.put t ep).1.garbage = s.garbage ∧
      (s.put t ep).1.blob o.id = some o := by
  have hst : ({ s with blobs := Shard.insertObj t s.blobs } : Shard).status t.id ep = .avail := by
    have : ({ s with blobs := Shard.insertObj t s.blobs } : Shard).status t.id ep = s.status t.id ep := rfl
    rw [this]
    unfold Shard.status Shard.expiredId
    rw [hnew]
    simp [hclean]
  have hmp : ({ s with blobs := Shard.insertObj t s.blobs } : Shard).metaPut t ep = .error .locked := by
    unfold Shard.metaPut
    simp only
    rw [hst]
    have hfind : (({ s with blobs := Shard.insertObj t s.blobs } : Shard).find t.id) = none := hnew
    have hfo : (({ s with blobs := Shard.insertObj t s.blobs } : Shard).find t.target) = some o := by
      rw [ht]; exact h.indexed
    have hlk : ({ s with blobs := Shard.insertObj t s.blobs } : Shard).locked t.target ep = true := by
      rw [ht]; exact h.locked
    simp only [hfind, Option.isSome_none, Bool.false_eq_true, if_false, hk, hfo, Option.map_some, h.regular, hlk, if_true]
  have hput : s.put t ep =
      ({ s with blobs := Shard.eraseId t.id (Shard.insertObj t s.blobs) }, some .locked) := by
    unfold Shard.put
    rw [if_neg (by rw [hw]; simp), if_neg (by rw [hf]; simp)]
    simp only
    rw [if_neg (by rw [h.hasMeta]; simp), hmp]
  rw [hput]
  refine ⟨rfl, rfl, rfl, ?_⟩
  show (Shard.eraseId t.id (Shard.insertObj t s.blobs)).find? (·.id == o.id) = some o
  unfold Shard.eraseId
  rw [find_filter_of_imp]
  · exact find_insertObj_other t s.blobs o.id o h.blob
  · intro x hx
    have : x.id = o.id := by simpa using hx
    simp [this, Ne.symm hid]

theorem inGarbage_avail (s : Shard) (id : Nat) (h : s.inGarbage id = .avail) :
    s.tombstoned id = false ∧ s.garbage.contains id = false := by
  unfold Shard.inGarbage at h
  split at h
  · cases h
  · split at h
    · cases h
    · rename_i h1 h2
      exact ⟨by simpa using h1, by simpa using h2⟩

/-- **A GC pass over the shard's marks keeps the protection**: `removeGarbage` deletes what carries a garbage
mark; neither the protected object nor its lock does. -/
theorem gc_marks_keeps_protected (s : Shard) (o l : Obj) (ep : Nat) (h : s.Protected o l ep) :
    (s.deleteIds s.garbage).Protected o l ep := by
  have ho := inGarbage_avail s o.id h.clean
  have hl := inGarbage_avail s l.id h.lockClean
  have hkeep : ∀ (lst : List Obj) (id : Nat) (x : Obj), s.garbage.contains id = false →
      lst.find? (·.id == id) = some x →
      (lst.filter (fun y => !s.garbage.contains y.id)).find? (·.id == id) = some x := by
    intro lst id x hc hf
    rw [find_filter_of_imp]
    · exact hf
    · intro y hy
      have : y.id = id := by simpa using hy
      have hc' : ¬ id ∈ s.garbage := by simpa using hc
      simp [this, hc']
  have hgarb : ∀ id, (s.deleteIds s.garbage).garbage.contains id = false := by
    intro id
    simp only [Shard.deleteIds]
    rw [Bool.eq_false_iff]
    intro hc
    have := List.contains_iff_mem.mp hc
    rw [List.mem_filter] at this
    have h2 := this.2
    simp only [Bool.not_eq_true'] at h2
    have h3 := List.contains_iff_mem.mpr this.1
    rw [h3] at h2; cases h2
  have htomb : ∀ id, s.tombstoned id = false → (s.deleteIds s.garbage).tombstoned id = false := by
    intro id ht
    unfold Shard.tombstoned at ht ⊢
    simp only [Shard.deleteIds]
    rw [Bool.eq_false_iff] at ht ⊢
    intro hc
    apply ht
    rw [List.any_eq_true] at hc ⊢
    obtain ⟨x, hx, hp⟩ := hc
    exact ⟨x, (List.mem_filter.mp hx).1, hp⟩
  have hing : ∀ id, s.tombstoned id = false → (s.deleteIds s.garbage).inGarbage id = .avail := by
    intro id ht
    unfold Shard.inGarbage
    rw [htomb id ht, hgarb id]
    simp
  exact {
    hasMeta := h.hasMeta
    regular := h.regular
    indexed := hkeep s.idx o.id o ho.2 h.indexed
    blob := hkeep s.blobs o.id o ho.2 h.blob
    lockIn := by
      simp only [Shard.deleteIds]
      have hc' : ¬ l.id ∈ s.garbage := by simpa using hl.2
      exact List.mem_filter.mpr ⟨h.lockIn, by simp [hc']⟩
    lockKind := h.lockKind
    lockTarget := h.lockTarget
    lockLive := h.lockLive
    lockClean := hing l.id hl.1
    clean := hing o.id ho.1 }

/-- **Epochs below the lock's expiration keep the protection** (the object's own expiration may pass). -/
theorem protected_epoch (s : Shard) (o l : Obj) (ep ep' : Nat) (h : s.Protected o l ep)
    (hl : Shard.expiredObj l ep' = false) : s.Protected o l ep' :=
  { h with lockLive := hl }

/-- the expired-object collector of the shard never lists a protected object or its live lock -/
theorem protected_not_collected (s : Shard) (o l : Obj) (ep : Nat) (h : s.Protected o l ep) :
    o ∉ s.idx.filter (fun x => x.exp != 0 && decide (x.exp < ep) && !s.locked x.id ep) ∧
    l ∉ s.idx.filter (fun x => x.exp != 0 && decide (x.exp < ep) && !s.locked x.id ep) := by
  constructor
  · intro hm
    have := (List.mem_filter.mp hm).2
    rw [h.locked] at this
    simp at this
  · intro hm
    have h2 := (List.mem_filter.mp hm).2
    have hlive := h.lockLive
    unfold Shard.expiredObj at hlive
    simp only [Bool.and_eq_true, bne_iff_ne, ne_eq, decide_eq_true_eq, Bool.not_eq_true'] at h2
    have h3 : (l.exp != 0) = true := by simpa using h2.1.1
    rw [h3] at hlive
    simp only [Bool.true_and, decide_eq_false_iff_not, Nat.not_lt] at hlive
    omega

/-! ## The engine: the repaired defect, the full statement and its counterexample -/

theorem existsLoop_frame (id : Nat) : ∀ (ord : List Nat) (e : Eng) (j : Nat) (s : Shard),
    e.shards[j]? = some s → ∃ s', (existsLoop id ord e).1.shards[j]? = some s' ∧ s'.idx = s.idx ∧ s'.blobs = s.blobs ∧ s'.garbage = s.garbage := by
  intro ord
  induction ord with
  | nil => intro e j s h; exact ⟨s, h, rfl, rfl, rfl⟩
  | cons i rest ih =>
    intro e j s h
    unfold existsLoop
    split
    · exact ih e j s h
    · split
      · exact ⟨s, h, rfl, rfl, rfl⟩
      · exact ⟨s, h, rfl, rfl, rfl⟩
      · exact ⟨s, h, rfl, rfl, rfl⟩
      · rename_i er _ _ _ _
        have hrep : ∃ s1, (e.report i er).shards[j]? = some s1 ∧ s1.idx = s.idx ∧ s1.blobs = s.blobs ∧ s1.garbage = s.garbage := by
          by_cases hji : j = i
          · subst hji
            unfold Eng.report
            split
            · exact ⟨s, h, rfl, rfl, rfl⟩
            · rw [h]
              simp only
              split
              · exact ⟨_, setShard_get_self e j _ s h, rfl, rfl, rfl⟩
              · exact ⟨_, setShard_get_self e j _ s h, rfl, rfl, rfl⟩
          · exact ⟨s, by rw [report_shards_ne e i j er hji]; exact h, rfl, rfl, rfl⟩
        obtain ⟨s1, h1, a1, b1, c1⟩ := hrep
        obtain ⟨s2, h2, a2, b2, c2⟩ := ih (e.report i er) j s1 h1
        exact ⟨s2, h2, by rw [a2, a1], by rw [b2, b1], by rw [c2, c1]⟩
      · exact ⟨s, h, rfl, rfl, rfl⟩
      · exact ih e j s h

/-- **The engine refuses a tombstone for an object that any visited shard reports locked, and no shard's index,
blob store or marks change** (repaired code): for every engine, every order of the existence probe and every
order of the broadcast. -/
theorem engine_rejects_tombstone_of_locked (e : Eng) (t : Obj) (ord bord : List Nat) (hk : t.kind = .ts)
    (hnew : (existsLoop t.id ord e).2 = .ok false)
    (hl : (existsLoop t.id ord e).1.anyLocked t.target bord = true) :
    (e.put t ord bord).2 = some .locked ∧
    ∀ (j : Nat) (s : Shard), e.shards[j]? = some s → ∃ s', (e.put t ord bord).1.shards[j]? = some s' ∧
      s'.idx = s.idx ∧ s'.blobs = s.blobs ∧ s'.garbage = s.garbage := by
  have hput : e.put t ord bord = ((existsLoop t.id ord e).1, some .locked) := by
    unfold Eng.put
    generalize hx : existsLoop t.id ord e = x at hnew hl
    obtain ⟨e1, r⟩ := x
    simp only at hnew hl
    subst hnew
    simp only [hk]
    unfold Eng.broadcast
    simp [hk, hl]
  rw [hput]
  exact ⟨rfl, fun j s h => existsLoop_frame t.id ord e j s h⟩

def ts5 : Obj := { id := 5, kind := .ts, target := 1, exp := 0 }

/-- the object on shard 1, its lock (accepted while shard 1 was read-only) on shard 0 only -/
def cexLock : Eng := { shards := [{ idx := [l7], blobs := [l7] }, { idx := [o1], blobs := [o1] }] }

/-- the defect that was repaired: the broadcast visiting shard 1 first wrote the garbage mark there, shard 0
refused, the rollback removed the tombstone but left the mark: the locked object was no longer found (and
the next GC pass deleted it); the repaired `put` refuses up front and changes nothing -/
theorem rollback_left_garbage :
    ((cexLock.broadcastRaw ts5 [1, 0]).2 = some .locked ∧
     ((cexLock.broadcastRaw ts5 [1, 0]).1.get 1 [0, 1]).2 = .err .notFound) ∧
    ((cexLock.put ts5 [0, 1] [1, 0]).2 = some .locked ∧
     ((cexLock.put ts5 [0, 1] [1, 0]).1.get 1 [0, 1]).2 = .ok o1) := by decide

/-- the property as stated: an object stored (with metadata) by some shard and locked on some shard is
retrievable while the lock is alive -/
def C08_full : Prop :=
  ∀ (e : Eng) (ord : List Nat) (o l : Obj) (i k : Nat) (s sl : Shard), ord.Nodup → i ∈ ord → k ∈ ord →
    e.shards[i]? = some s → s.mode.noMeta = false → s.find o.id = some o → s.blob o.id = some o →
    s.inGarbage o.id = .avail →
    e.shards[k]? = some sl → sl.locked o.id e.epoch = true →
    (e.get o.id ord).2 = .ok o

def o1e : Obj := { id := 1, kind := .reg, target := 0, exp := 2 }

/-- the witness: the lock reached shard 0 only (shard 1, which holds the object, was read-only when the lock
was broadcast); at epoch 3 the object's own expiration has passed and shard 1 reports it expired -/
def cexExpired : Eng :=
  { epoch := 3, shards := [{ idx := [l7], blobs := [l7] }, { idx := [o1e], blobs := [o1e] }] }

theorem C08_counterexample : ¬ C08_full := by
  intro h
  have := h cexExpired [0, 1] o1e l7 1 0 _ _ (by decide) (by decide) (by decide) rfl (by decide) (by decide)
    (by decide) (by decide) rfl (by decide)
  exact absurd this (by decide)

/-- `locked_retrievable_partial`: with the lock on the shard that holds the object (`Shard.Protected`), and
no other shard reporting it removed or expired, the object is retrievable for every order — this is
`protected_retrievable`; tombstone attempts, GC passes and epochs below the lock's expiration keep
`Protected` (step theorems above). -/
theorem locked_retrievable_partial (e : Eng) (ord : List Nat) (hnd : ord.Nodup) (i : Nat) (s : Shard) (o l : Obj)
    (hi : i ∈ ord) (hs : e.shards[i]? = some s) (hp : s.Protected o l e.epoch) (hr : s.failR = false)
    (hnorem : ∀ j ∈ ord, ∀ t, e.shards[j]? = some t → t.mode.noMeta = false →
      t.status o.id e.epoch ≠ .tomb ∧ t.status o.id e.epoch ≠ .exp)
    (hsame : ∀ j ∈ ord, ∀ t o', e.shards[j]? = some t → t.blob o.id = some o' → o' = o) :
    (e.get o.id ord).2 = .ok o :=
  protected_retrievable e ord hnd i s o l hi hs hp hr hnorem hsame

/-- non-vacuity: a protected object whose own expiration has passed, a tombstone attempt, a GC pass -/
example :
    let s : Shard := { idx := [o1e, l7], blobs := [o1e, l7] }
    s.Protected o1e l7 3 ∧ (s.put ts5 3).2 = some .locked ∧ (s.deleteIds s.garbage).get 1 3 false = .ok o1e := by
  refine ⟨⟨rfl, rfl, rfl, rfl, by decide, rfl, rfl, by decide, by decide, by decide⟩, by decide, by decide⟩

end NeoFS.Engine
