import NeoFS.Gen.Handlers
import NeoFS.Lemmas.Handlers
import NeoFS.Model.CtlAuth
/-!
# C32 — control-plane requests run only when signed by an authorised key

Every method of `control.ControlServiceServer` (storage node) and of the inner ring's `ControlServiceServer`
is regenerated into `Gen.controlHandlers` / `Gen.irControlHandlers` on every run (a new method appears
automatically). `isValidRequest` is a package-local helper, so it is inlined into every handler; what the
checker sees of it is the call of `neofscrypto.Signature.Verify` (`Tag.ctlSig`) and that its error result
decides whether the handler goes on. The allowed-key scan inside it is covered by the hand model
`CtlAuth.isValidRequest` (`isValid_iff`), tied to the code by the dynamic run with five request kinds.
-/
namespace NeoFS.C32
open NeoFS.Handlers

/-- Any effect of a control handler — every call into the engine, node state, health checker, notary manager,
placement, replicator, and every response — needs a signature verification whose latest answer is `pass`. -/
def ctlPolicyV : Eff → (Tag → Option Out) → Bool := fun e g =>
  match e with
  | .respond => true
  | _ => g .ctlSig == some .pass

def ctlPolicy : Policy := Policy.ofView ctlPolicyV

set_option maxRecDepth 100000 in
theorem control_handlers_checked :
    (∀ h ∈ Gen.controlHandlers, checker ctlPolicy h.2 = true) ∧
    (∀ h ∈ Gen.irControlHandlers, checker ctlPolicy h.2 = true) := by
  decide +kernel

/-- **C32, static part.** On every run of every control service method of the storage node and of the inner
ring, every effect is preceded by a verification of the request signature that succeeded. -/
theorem control_effects_follow_signature_check :
    ∀ h ∈ Gen.controlHandlers ++ Gen.irControlHandlers, ∀ (evs : List Event) (x : Option Nat),
      Run allOuts h.2 St.init evs x → ∀ (pre post : List Event) (e : Eff), evs = pre ++ Event.effect e :: post →
        ctlPolicyV e (lastOutcomes pre) = true := by
  intro h hh evs x hr pre post e hs
  rcases List.mem_append.mp hh with hh | hh
  · exact checker_sound_view (control_handlers_checked.1 h hh) hr hs
  · exact checker_sound_view (control_handlers_checked.2 h hh) hr hs

/-- The failed verification is final: no effect other than the answer happens while it stands denied. -/
theorem denied_signature_no_effect :
    ∀ h ∈ Gen.controlHandlers ++ Gen.irControlHandlers, ∀ (evs : List Event) (x : Option Nat),
      Run allOuts h.2 St.init evs x → ∀ (pre post : List Event) (e : Eff), evs = pre ++ Event.effect e :: post →
        lastOutcomes pre .ctlSig = some .deny → e = .respond := by
  intro h hh evs x hr pre post e hs hd
  have hp := control_effects_follow_signature_check h hh evs x hr pre post e hs
  cases e <;> simp_all [ctlPolicyV]

open NeoFS.CtlAuth in
/-- `isValidRequest` accepts exactly the requests that carry a signature by a configured key that verifies
over the body (for every allowed-key list and every request). -/
theorem isValid_iff (allowed : List Nat) (r : Req) :
    isValidRequest allowed r = .ok ↔
      r.hasSig = true ∧ r.key ∈ allowed ∧ r.bodyMarshals = true ∧ r.keyDecodes = true ∧ r.sigValid = true := by
  unfold isValidRequest
  by_cases h1 : r.hasSig <;> by_cases h2 : allowed.contains r.key <;> by_cases h3 : r.bodyMarshals <;>
    by_cases h4 : r.keyDecodes <;> by_cases h5 : r.sigValid <;> simp_all

/-- Non-vacuity: every control handler has effects when the signature verifies, none is a stub. -/
example : (Gen.controlHandlers ++ Gen.irControlHandlers).all (fun h => reachesEffect [] h.2) = true := by decide +kernel
example : checker ctlPolicy (.seq (.eff .ctl) (.chk .ctlSig)) = false := by decide
example : CtlAuth.isValidRequest [1] { hasSig := true, key := 2, sigValid := true } = .disallowedKey := by decide

end NeoFS.C32
