import NeoFS.Gen.Handlers
import NeoFS.Lemmas.Handlers
import NeoFS.Model.CtlAuth
import NeoFS.Model.CtlConc
import NeoFS.Lemmas.CtlConc
import NeoFS.Gen.CtlShared
/-!
# C32 — control-plane requests run only when signed by an authorised key

Every method of `control.ControlServiceServer` (storage node) and of the inner ring's `ControlServiceServer`
is regenerated into `Gen.controlHandlers` / `Gen.irControlHandlers` on every run (a new method appears
automatically). `isValidRequest` is a package-local helper, so it is inlined into every handler; what the
checker sees of it is the call of `neofscrypto.Signature.Verify` (`Tag.ctlSig`) and that its error result
decides whether the handler goes on. The allowed-key scan inside it is covered by the hand model
`CtlAuth.isValidRequest` (`isValid_iff`), tied to the code by the dynamic run with five request kinds.
-/
namespace NeoFS.C32
open NeoFS.Handlers

/-- Any effect of a control handler — every call into the engine, node state, health checker, notary manager,
placement, replicator, and every response — needs a signature verification whose latest answer is `pass`. -/
def ctlPolicyV : Eff → (Tag → Option Out) → Bool := fun e g =>
  match e with
  | .respond => true
  | _ => g .ctlSig == some .pass

def ctlPolicy : Policy := Policy.ofView ctlPolicyV

set_option maxRecDepth 100000 in
theorem control_handlers_checked :
    (∀ h ∈ Gen.controlHandlers, checker ctlPolicy h.2 = true) ∧
    (∀ h ∈ Gen.irControlHandlers, checker ctlPolicy h.2 = true) := by
  decide +kernel

/-- **C32, static part.** On every run of every control service method of the storage node and of the inner
ring, every effect is preceded by a verification of the request signature that succeeded. -/
theorem control_effects_follow_signature_check :
    ∀ h ∈ Gen.controlHandlers ++ Gen.irControlHandlers, ∀ (evs : List Event) (x : Option Nat),
      Run allOuts h.2 St.init evs x → ∀ (pre post : List Event) (e : Eff), evs = pre ++ Event.effect e :: post →
        ctlPolicyV e (lastOutcomes pre) = true := by
  intro h hh evs x hr pre post e hs
  rcases List.mem_append.mp hh with hh | hh
  · exact checker_sound_view (control_handlers_checked.1 h hh) hr hs
  · exact checker_sound_view (control_handlers_checked.2 h hh) hr hs

/-- The failed verification is final: no effect other than the answer happens while it stands denied. -/
theorem denied_signature_no_effect :
    ∀ h ∈ Gen.controlHandlers ++ Gen.irControlHandlers, ∀ (evs : List Event) (x : Option Nat),
      Run allOuts h.2 St.init evs x → ∀ (pre post : List Event) (e : Eff), evs = pre ++ Event.effect e :: post →
        lastOutcomes pre .ctlSig = some .deny → e = .respond := by
  intro h hh evs x hr pre post e hs hd
  have hp := control_effects_follow_signature_check h hh evs x hr pre post e hs
  cases e <;> simp_all [ctlPolicyV]

open NeoFS.CtlAuth in
/-- `isValidRequest` accepts exactly the requests that carry a signature by a configured key that verifies
over the body (for every allowed-key list and every request). -/
theorem isValid_iff (allowed : List Nat) (r : Req) :
    isValidRequest allowed r = .ok ↔
      r.hasSig = true ∧ r.key ∈ allowed ∧ r.bodyMarshals = true ∧ r.keyDecodes = true ∧ r.sigValid = true := by
  unfold isValidRequest
  by_cases h1 : r.hasSig <;> by_cases h2 : allowed.contains r.key <;> by_cases h3 : r.bodyMarshals <;>
    by_cases h4 : r.keyDecodes <;> by_cases h5 : r.sigValid <;> simp_all

/-- Non-vacuity: every control handler has effects when the signature verifies, none is a stub. -/
example : (Gen.controlHandlers ++ Gen.irControlHandlers).all (fun h => reachesEffect [] h.2) = true := by decide +kernel
example : checker ctlPolicy (.seq (.eff .ctl) (.chk .ctlSig)) = false := by decide
example : CtlAuth.isValidRequest [1] { hasSig := true, key := 2, sigValid := true } = .disallowedKey := by decide

/-! ## One server, many requests in flight (`Model/CtlConc.lean`, op `crace`)

The verdict of a control request is a function of (body, signature, configured keys) — whatever other requests the
same server is serving and however their steps interleave. -/

section Concurrent
open NeoFS.CtlAuth NeoFS.CtlConc

/-- **C32, concurrent part.** One server, any set of requests in flight, ANY interleaving of their atomic steps:
whenever a request has its verdict, it is the verdict `isValidRequest` gives to that request alone. -/
theorem concurrent_verdicts_are_sequential (allowed : List Nat) (reqs : Nat → CReq) (sch : List Nat) (j : Nat)
    (v : Verdict) (h : ((run .fresh allowed sch (init reqs)).ts j).pc = .done v) :
    v = isValidRequest allowed (seqView (reqs j)) := by
  rw [run_fresh_thread] at h
  have hi := iter_stepT_inv allowed (sch.count j) ((init reqs).ts j) (by simp [init, ThreadInv])
  have hinv := hi.1
  unfold ThreadInv at hinv
  rw [h] at hinv
  have hreq := hi.2
  simp only [init] at hreq hinv
  rw [hreq] at hinv
  exact hinv

/-- Every request the schedule lets make its five steps is decided, with the sequential verdict. -/
theorem scheduled_request_is_decided (allowed : List Nat) (reqs : Nat → CReq) (sch : List Nat) (j : Nat)
    (h : 5 ≤ sch.count j) :
    ((run .fresh allowed sch (init reqs)).ts j).pc = .done (isValidRequest allowed (seqView (reqs j))) := by
  obtain ⟨v, hv⟩ := five_steps_decide allowed (reqs j)
  have hpc : ((run .fresh allowed sch (init reqs)).ts j).pc = .done v := by
    rw [run_fresh_thread]
    obtain ⟨d, hd⟩ := Nat.exists_eq_add_of_le h
    have : iter (stepT allowed) (sch.count j) ((init reqs).ts j) =
        iter (stepT allowed) d (iter (stepT allowed) 5 ((init reqs).ts j)) := by
      rw [hd, iter_add]
    rw [this, iter_stepT_done allowed d _ v (by simpa [init] using hv)]
    simpa [init] using hv
  rw [hpc, concurrent_verdicts_are_sequential allowed reqs sch j v hpc]

/-- A request that carries a signature made over ANOTHER body is never accepted, whatever runs beside it — in
particular beside replays of the request the signature was copied from. -/
theorem forged_request_never_accepted (allowed : List Nat) (reqs : Nat → CReq) (sch : List Nat) (j k k' x : Nat)
    (hs : (reqs j).sig = some (k, .made k' x)) (hx : x ≠ (reqs j).body) :
    ((run .fresh allowed sch (init reqs)).ts j).pc ≠ .done .ok := by
  intro h
  have := concurrent_verdicts_are_sequential allowed reqs sch j .ok h
  have hv := ((isValid_iff allowed (seqView (reqs j))).mp this.symm).2.2.2.2
  simp [seqView, hs, verify] at hv
  exact hx hv.2

/-- A genuinely signed request of a configured key is accepted, whatever runs beside it. -/
theorem genuine_request_accepted (allowed : List Nat) (reqs : Nat → CReq) (sch : List Nat) (j k : Nat)
    (hs : (reqs j).sig = some (k, .made k (reqs j).body)) (hk : k ∈ allowed)
    (hm : (reqs j).marshals = true) (hd : (reqs j).keyDecodes = true) (h : 5 ≤ sch.count j) :
    ((run .fresh allowed sch (init reqs)).ts j).pc = .done .ok := by
  rw [scheduled_request_is_decided allowed reqs sch j h]
  congr 1
  exact (isValid_iff allowed (seqView (reqs j))).mpr (by simp [seqView, hs, verify, hk, hm, hd])

/-- The schedule the engine forces (all requests marshal, then all verify) is one of these interleavings: the
driver's answer for op `crace` is the list of sequential verdicts. -/
theorem barrier_verdicts_are_sequential (allowed : List Nat) (l : List CReq) :
    barrierVerdicts .fresh allowed l = l.map (fun r => some (isValidRequest allowed (seqView r))) := by
  apply List.ext_getElem
  · simp [barrierVerdicts]
  · intro i h1 h2
    have hi : i < l.length := by simpa [barrierVerdicts] using h1
    have hc : 5 ≤ (barrierSchedule l.length).count i := by
      have hpos : 0 < (List.range l.length).count i := List.count_pos_iff.mpr (List.mem_range.mpr hi)
      simp only [barrierSchedule, List.count_append]
      omega
    have hd := scheduled_request_is_decided allowed (reqsOfList l) (barrierSchedule l.length) i hc
    have hr : reqsOfList l i = l[i] := by simp [reqsOfList, hi]
    simp [barrierVerdicts, verdictOf, hd, hr]

/-- **Regenerated tie of the model's step discipline.** In both control servers the authorisation path
(`isValidRequest` and whatever function of its package it calls) assigns, slices, takes the address of or hands out
NO field of the server and NO package-level variable, and no method of the server assigns a field the path reads:
all state that outlives a request is only read there — the discipline `fresh` of the model. -/
theorem auth_path_shares_nothing_mutable :
    Gen.CtlShared.storageNode.sharesNothingMutable = true ∧ Gen.CtlShared.innerRing.sharesNothingMutable = true ∧
    Gen.CtlShared.storageNode.mode = .fresh ∧ Gen.CtlShared.innerRing.mode = .fresh := by decide

/-- non-vacuity: a path that marshals into a buffer kept in the server is told apart -/
example : AuthPathUse.mode
    { funcs := ["Server.isValidRequest"]
      fieldsRead := ["allowedKeys", "buf"]
      fieldsWritten := ["buf"]
      fieldsAliased := ["buf"]
      pkgVarsRead := []
      pkgVarsWritten := []
      serverMethodsWritingReadFields := [] } = .scratch := by decide

/-- What the property excludes: were the signed data marshalled into ONE buffer owned by the server and read by the
verification after the marshalling step is over, a request with a signature copied from a genuine request (another
body) would be accepted when it runs beside a replay of the genuine one. Request 0 is the forged one, request 1
the genuine one; schedule: both scan and decide, 0 marshals, 1 marshals (over it), 0 decodes and verifies. -/
theorem scratch_buffer_allows_forgery :
    ∃ (sch : List Nat) (reqs : Nat → CReq),
      isValidRequest [1] (seqView (reqs 0)) = .invalidSignature ∧
      ((run .scratch [1] sch (init reqs)).ts 0).pc = .done .ok :=
  ⟨[0, 1, 0, 1, 0, 1, 0, 0], reqsOfList [{ body := 2, sig := some (1, .made 1 1) }, { body := 1, sig := some (1, .made 1 1) }],
    by decide, by decide⟩

/-- the same two requests under the same schedule in the code as it is -/
example : ((run .fresh [1] [0, 1, 0, 1, 0, 1, 0, 0] (init (reqsOfList
    [{ body := 2, sig := some (1, .made 1 1) }, { body := 1, sig := some (1, .made 1 1) }]))).ts 0).pc
    = .done .invalidSignature := by decide
example : barrierVerdicts .fresh [1, 3] ((["g1", "g2", "fo", "wk", "ns", "bs"].filterMap raceReq)) =
    [some .ok, some .ok, some .invalidSignature, some .disallowedKey, some .missingSignature, some .invalidSignature] := by
  decide
/-- under the barrier schedule the scratch-buffer discipline gives the verdict of whoever marshalled last -/
example : barrierVerdicts .scratch [1, 3] ((["fo", "g1"].filterMap raceReq)) = [some .ok, some .ok] := by decide

end Concurrent

end NeoFS.C32
