import NeoFS.Lemmas.ShardMode
import NeoFS.Props.C14
/-!
# C43 — shard behaviour always matches its reported mode

* `Consistent s`: the mode the shard reports equals the mode every component is actually in.
* `behaviour_matches_mode`: in a consistent state every request of the mode table is accepted or rejected exactly as
  the REPORTED mode says.
* `consistent_step`: every fault-free operation (all requests, background jobs, switches, restarts with a configured
  mode) keeps the state consistent; `step_cfg` (lemma): only a switch changes any mode at all.
* `setMode_recovers` (lemma, any injected failure): from ANY reachable state, however many switches failed before, a
  switch that SUCCEEDS re-establishes consistency — "mode changing operations are idempotent" of docs/shard-modes.md;
  it was false for the code as found (three repaired defects, see the property's note).
* `failed_switch`: a failed switch keeps the reported mode (and the metabase coherent).
* `settled_consistent`: along EVERY history with arbitrary injected failures the state is consistent whenever no
  switch has failed since the last successful one; `C43_counterexample`: inside that window the full statement is
  false (no roll-back of the components switched before the failure) — known finding C43-partial-switch.
* `switch_keeps_objects`: no switch, failed or not, loses a stored object or touches the metabase content;
  `rw_restores`: a successful return to read-write gives full service.
-/
namespace NeoFS.ShardMode
open NeoFS.Gen.ShardMode

/-- refusals for a mode reason (by the shard's own guard or by a component) -/
def rejected (e : Err) : Bool := e == .readOnly || e == .degraded || e == .compRefused

/-- **The mode table**: does a shard reporting mode `m` reject the request?  `none`: not a request of the table
(background jobs, switches; `FlushWriteCache` without a write-cache answers "disabled" in every mode). -/
def table (m : Nat) (hasWC : Bool) : Op → Option Bool
  | .put .. | .restore .. => some (isReadOnly m)
  | .delete .. | .mark .. | .inhumeCnr _ | .deleteCnr _ | .revive .. => some (isReadOnly m || noMetabase m)
  | .flush => if hasWC then some (isReadOnly m || noMetabase m) else none
  | .list | .select | .listCnr | .cnrInfo _ | .isLocked _ => some (noMetabase m)
  | .get _ | .head _ | .exists_ _ => some false
  | _ => none

theorem rejected_metaErr (e : Meta.Err) : rejected (metaErr e) = false := by cases e <;> rfl

theorem rej_ite {α : Type} (c : Prop) [Decidable c] (a b : α) (e : Meta.Err) :
    rejected (if c then (a, Err.ok) else (b, metaErr e)).2 = false := by
  split
  · show rejected Err.ok = false; rfl
  · exact rejected_metaErr e

theorem rej_ok : rejected Err.ok = false := rfl

theorem metaWrite_ok (s t : St) (hc : Consistent s) (h : t.cfg = s.cfg) (h1 : isReadOnly s.mode = false)
    (h2 : noMetabase s.mode = false) : metaWrite t = .ok := by
  simp only [St.cfg, Prod.mk.injEq] at h
  obtain ⟨_, _, e3, e4, _, _, _⟩ := h
  simp [metaWrite, e3, e4, hc.metaMode, hc.metaOpen, h1, h2]

theorem flush_ok (s : St) (hb : s.blobRO = false) : (wcFlushAll s).2 = true := by
  have : ∀ (l : List Addr) (st : St × Bool), st.1.blobRO = false → st.2 = true →
      (l.foldl flushOne st).1.blobRO = false ∧ (l.foldl flushOne st).2 = true := by
    intro l
    induction l with
    | nil => intro st h1 h2; exact ⟨h1, h2⟩
    | cons a as ih =>
      intro st h1 h2
      simp only [List.foldl]
      apply ih
      · have := flushOne_cfg st a
        simp only [St.cfg, Prod.mk.injEq] at this
        rw [this.2.2.2.2.1]; exact h1
      · simp [flushOne, h2, blobPut, h1]
  exact (this _ (s, true) hb rfl).2

theorem put_accepts (s : St) (hc : Consistent s) (h1 : isReadOnly s.mode = false) (cn : Nat) (h : Meta.Hdr) :
    rejected (put s cn h).2 = false := by
  have hb : s.blobRO = false := by rw [hc.blob]; exact h1
  have w := wcPut_cfg s (cn, h.id)
  have hmw : ∀ t : St, t.cfg = s.cfg → noMetabase s.mode = false → metaWrite t = .ok :=
    fun t ht hn => metaWrite_ok s t hc ht h1 hn
  have hbp : ∀ t : St, t.cfg = s.cfg → (blobPut t (cn, h.id)).2 = true := by
    intro t ht
    simp only [St.cfg, Prod.mk.injEq] at ht
    simp [blobPut, ht.2.2.2.2.1, hb]
  have hbc : ∀ t : St, t.cfg = s.cfg → (blobPut t (cn, h.id)).1.cfg = s.cfg := fun t ht => (blobPut_cfg t _).trans ht
  unfold put
  simp only [noMeta, isRO, f_put, h1, Bool.and_false, Bool.false_eq_true, if_false]
  cases hwc : s.hasWC
  · simp only [Bool.false_eq_true, if_false, hbp s rfl, Bool.not_true]
    cases hn : noMetabase s.mode
    · simp only [Bool.false_eq_true, if_false, hmw _ (hbc s rfl) hn]
      exact rej_ite _ _ _ _
    · exact rej_ok
  · simp only [if_true]
    cases hc2 : (wcPut s (cn, h.id)).2
    · simp only [Bool.false_eq_true, if_false, hbp _ w, Bool.not_true]
      cases hn : noMetabase s.mode
      · simp only [Bool.false_eq_true, if_false, hmw _ (hbc _ w) hn]
        exact rej_ite _ _ _ _
      · exact rej_ok
    · simp only [if_true, Bool.not_true, Bool.false_eq_true, if_false]
      cases hn : noMetabase s.mode
      · simp only [Bool.false_eq_true, if_false, hmw _ w hn]
        exact rej_ite _ _ _ _
      · exact rej_ok


theorem deleteObjs_accepts (s : St) (hc : Consistent s) (h1 : isReadOnly s.mode = false) (h2 : noMetabase s.mode = false)
    (cn : Nat) (ids : List Nat) : (deleteObjs s cn ids).2 = .ok := by
  unfold deleteObjs
  simp only [noMeta, isRO, h1, h2, Bool.and_false, Bool.false_eq_true, if_false]
  split
  · rfl
  · rw [metaWrite_ok s _ hc _ h1 h2]
    split
    · exact foldW cn ids s
    · rfl

theorem markGarbage_accepts (s : St) (hc : Consistent s) (h1 : isReadOnly s.mode = false) (h2 : noMetabase s.mode = false)
    (cn : Nat) (ids : List Nat) (r : Bool) : (markGarbage s cn ids r).2 = .ok := by
  unfold markGarbage
  simp only [noMeta, isRO, h1, h2, Bool.and_false, Bool.false_eq_true, if_false, metaWrite_ok s s hc rfl h1 h2]

theorem inhumeContainer_accepts (s : St) (hc : Consistent s) (h1 : isReadOnly s.mode = false) (h2 : noMetabase s.mode = false)
    (cn : Nat) : (inhumeContainer s cn).2 = .ok := by
  unfold inhumeContainer
  simp only [noMeta, isRO, h1, h2, Bool.and_false, Bool.false_eq_true, if_false, metaWrite_ok s s hc rfl h1 h2]

theorem deleteContainer_accepts (s : St) (hc : Consistent s) (h1 : isReadOnly s.mode = false) (h2 : noMetabase s.mode = false)
    (cn : Nat) : (deleteContainer s cn).2 = .ok := by
  unfold deleteContainer
  simp only [noMeta, isRO, h1, h2, Bool.and_false, Bool.false_eq_true, if_false, metaWrite_ok s s hc rfl h1 h2]

theorem reviveObject_accepts (s : St) (hc : Consistent s) (h1 : isReadOnly s.mode = false) (h2 : noMetabase s.mode = false)
    (cn id : Nat) : rejected (reviveObject s cn id).2 = false := by
  unfold reviveObject
  simp only [noMeta, isRO, h1, h2, Bool.and_false, Bool.false_eq_true, if_false, metaWrite_ok s s hc rfl h1 h2]
  split <;> rfl

theorem restore_accepts (s : St) (hc : Consistent s) (h1 : isReadOnly s.mode = false) (cn : Nat) (hs : List Meta.Hdr) :
    rejected (restore s cn hs).2 = false := by
  unfold restore
  simp only [isRO, h1, Bool.and_false, Bool.false_eq_true, if_false]
  have : ∀ (l : List Meta.Hdr) (st : St × Err), Consistent st.1 → isReadOnly st.1.mode = false → rejected st.2 = false →
      rejected (l.foldl (fun (st : St × Err) h =>
        if st.2 != .ok then st
        else
          let r := put st.1 cn h
          (r.1, if r.2 == .expired || r.2 == .alreadyRemoved then .ok else r.2)) st).2 = false := by
    intro l
    induction l with
    | nil => intro st _ _ h; exact h
    | cons x xs ih =>
      intro st c1 c2 c3
      simp only [List.foldl]
      apply ih
      · split
        · exact c1
        · exact consistent_of_cfg _ _ (put_cfg _ _ _) c1
      · split
        · exact c2
        · have := put_cfg st.1 cn x
          simp only [St.cfg, Prod.mk.injEq] at this
          simp only []; rw [this.2.1]; exact c2
      · split
        · exact c3
        · simp only []
          split
          · rfl
          · exact put_accepts _ c1 c2 _ _
  exact this hs (s, .ok) hc h1 rfl

theorem flush_table (s : St) (hc : Consistent s) (hw : s.hasWC = true) :
    rejected (flushWriteCache s).2 = (isReadOnly s.mode || noMetabase s.mode) := by
  unfold flushWriteCache
  simp only [hw, Bool.not_true, Bool.false_eq_true, if_false, noMeta, isRO, f_flush, Bool.true_and]
  cases h1 : isReadOnly s.mode
  · cases h2 : noMetabase s.mode
    · have hb : s.blobRO = false := by rw [hc.blob]; exact h1
      have : flushWriteCache_guardDegraded = true := rfl
      simp [this, flush_ok s hb, rejected]
    · have : flushWriteCache_guardDegraded = true := rfl
      simp [this, rejected]
  · simp [rejected]

/-- the five metabase-changing requests: rejected exactly in the modes that are read-only or have no metabase -/
theorem writes_table (s : St) (hc : Consistent s) (o : Op)
    (ho : (∃ cn ids, o = .delete cn ids) ∨ (∃ cn ids r, o = .mark cn ids r) ∨ (∃ cn, o = .inhumeCnr cn) ∨
      (∃ cn, o = .deleteCnr cn) ∨ (∃ cn id, o = .revive cn id)) :
    rejected (step s o).2 = (isReadOnly s.mode || noMetabase s.mode) := by
  cases h1 : isReadOnly s.mode
  · cases h2 : noMetabase s.mode
    · rcases ho with ⟨cn, ids, rfl⟩ | ⟨cn, ids, r, rfl⟩ | ⟨cn, rfl⟩ | ⟨cn, rfl⟩ | ⟨cn, id, rfl⟩ <;> simp only [step]
      · rw [deleteObjs_accepts s hc h1 h2]; rfl
      · rw [markGarbage_accepts s hc h1 h2]; rfl
      · rw [inhumeContainer_accepts s hc h1 h2]; rfl
      · rw [deleteContainer_accepts s hc h1 h2]; rfl
      · exact reviveObject_accepts s hc h1 h2 cn id
    · have g1 : deleteObjs_guardDegraded = true := rfl
      have g2 : markGarbage_guardDegraded = true := rfl
      have g3 : inhumeContainer_guardDegraded = true := rfl
      have g5 : reviveObject_guardDegraded = true := rfl
      have hm : noMetabase s.metaMode = true := by rw [hc.metaMode]; exact h2
      rcases ho with ⟨cn, ids, rfl⟩ | ⟨cn, ids, r, rfl⟩ | ⟨cn, rfl⟩ | ⟨cn, rfl⟩ | ⟨cn, id, rfl⟩ <;>
        simp [step, deleteObjs, markGarbage, inhumeContainer, deleteContainer, reviveObject, metaWrite, h1, h2, hm,
          g1, g2, g3, g5, rejected] <;> (try (split <;> simp [rejected]))
  · have hr : ∀ o : Op, o.modifying = true → step s o = (s, .readOnly) := fun o ho => ro_rejects s h1 o ho
    rcases ho with ⟨cn, ids, rfl⟩ | ⟨cn, ids, r, rfl⟩ | ⟨cn, rfl⟩ | ⟨cn, rfl⟩ | ⟨cn, id, rfl⟩ <;>
      (rw [hr _ rfl]; rfl)

theorem put_table (s : St) (hc : Consistent s) (cn : Nat) (h : Meta.Hdr) :
    rejected (put s cn h).2 = isReadOnly s.mode := by
  cases h1 : isReadOnly s.mode
  · exact put_accepts s hc h1 cn h
  · have := ro_rejects s h1 (.put cn h) rfl
    simp only [step] at this
    rw [this]; rfl

theorem restore_table (s : St) (hc : Consistent s) (cn : Nat) (hs : List Meta.Hdr) :
    rejected (restore s cn hs).2 = isReadOnly s.mode := by
  cases h1 : isReadOnly s.mode
  · exact restore_accepts s hc h1 cn hs
  · have := ro_rejects s h1 (.restore cn hs) rfl
    simp only [step] at this
    rw [this]; rfl

theorem rej_cases (b : Bool) : rejected (if b = true then Err.degraded else Err.ok) = b := by cases b <;> rfl

/-- **Behaviour matches the reported mode.**  In a state where reported and actual modes agree, every request of
the mode table is rejected for a mode reason exactly when the REPORTED mode says so. -/
theorem behaviour_matches_mode (s : St) (hc : Consistent s) (o : Op) (b : Bool)
    (ht : table s.mode s.hasWC o = some b) : rejected (step s o).2 = b := by
  have hrm := ro_reads_meta s hc
  have hro := fun a => ro_reads_object s hc a
  have notrej : ∀ e : Err, (e ≠ .readOnly ∧ e ≠ .degraded ∧ e ≠ .compRefused) → rejected e = false := by
    intro e h; cases e <;> simp_all [rejected]
  cases o <;> simp only [table, Option.some.injEq] at ht
  case put cn h => subst ht; exact put_table s hc cn h
  case restore cn hs => subst ht; exact restore_table s hc cn hs
  case get a => subst ht; exact notrej _ (hro a _ (by simp))
  case head a => subst ht; exact notrej _ (hro a _ (by simp))
  case exists_ a => subst ht; exact notrej _ (hro a _ (by simp))
  case isLocked a => subst ht; rw [hrm.2.2.2.2 a]; exact rej_cases _
  case delete cn ids => subst ht; exact writes_table s hc _ (Or.inl ⟨_, _, rfl⟩)
  case mark cn ids r => subst ht; exact writes_table s hc _ (Or.inr (Or.inl ⟨_, _, _, rfl⟩))
  case inhumeCnr cn => subst ht; exact writes_table s hc _ (Or.inr (Or.inr (Or.inl ⟨_, rfl⟩)))
  case deleteCnr cn => subst ht; exact writes_table s hc _ (Or.inr (Or.inr (Or.inr (Or.inl ⟨_, rfl⟩))))
  case revive cn id => subst ht; exact writes_table s hc _ (Or.inr (Or.inr (Or.inr (Or.inr ⟨_, _, rfl⟩))))
  case list => subst ht; rw [hrm.1]; exact rej_cases _
  case select => subst ht; rw [hrm.2.1]; exact rej_cases _
  case listCnr => subst ht; rw [hrm.2.2.1]; exact rej_cases _
  case cnrInfo cn => subst ht; rw [hrm.2.2.2.1 cn]; exact rej_cases _
  case flush =>
    cases hw : s.hasWC
    · simp [hw] at ht
    · simp only [hw, if_true, Option.some.injEq] at ht
      subst ht
      exact flush_table s hc hw
  all_goals exact absurd ht (by simp)


/-! ### consistency is an invariant of fault-free histories and is re-established by every successful switch -/

theorem restart_base_wf (s : St) : MetaWF (restartBase s) := by
  show true = !noMetabase modeRW; decide

/-- the close/open cycle without `Init` (engine maintenance): C14's extension of the model.  It opens every
component for writing and does not re-apply the mode, so outside read-write it leaves reported and actual modes apart
BY CONSTRUCTION until the next successful switch; the C43 statements below are about histories without it, except
`reopen_consistent`. -/
def Op.isReopen : Op → Bool
  | .reopen => true
  | _ => false

/-- in read-write mode the close/open cycle keeps reported and actual modes in agreement -/
theorem reopen_consistent (s : St) (hc : Consistent s) (hm : s.mode = modeRW) : Consistent (step s .reopen).1 := by
  obtain ⟨c1, c2, c3, c4⟩ := hc
  refine ⟨c1, ?_, ?_, ?_⟩
  · show true = !noMetabase s.mode
    rw [hm]; decide
  · show false = isReadOnly s.mode
    rw [hm]; decide
  · intro hw
    have hw' : s.hasWC = true := hw
    show (if s.hasWC then modeRW else s.wcMode) = s.mode
    rw [hw', hm]; rfl

/-- **Consistency is kept** by every operation that is not a switch (requests, reads, GC pass, flush-worker pass,
new-epoch handler, Restore) and re-established by every switch or restart that SUCCEEDS — from any reachable state,
whatever failed before, and also when a failure was injected at a point the switch did not reach. -/
theorem consistent_step (s : St) (hw : MetaWF s) (o : Op) (hr : o.isReopen = false)
    (hc : o.isSwitch = false → Consistent s)
    (h : o.isSwitch = false ∨ (step s o).2 = .ok) : Consistent (step s o).1 := by
  cases hs : o.isSwitch
  · exact consistent_of_cfg _ _ (step_cfg s o hs) (hc hs)
  · have hok : (step s o).2 = .ok := by
      rcases h with h | h
      · rw [hs] at h; exact absurd h (by simp)
      · exact h
    cases o <;> simp [Op.isSwitch] at hs
    case setMode m f => exact setMode_recovers s hw m f hok
    case restart m =>
      simp only [step, restart] at hok ⊢
      split
      · rename_i hm
        simp only [hm, if_true] at hok
        exact ⟨rfl, by show true = !noMetabase modeRW; decide, by show false = isReadOnly modeRW; decide, fun _ => rfl⟩
      · rename_i hm
        simp only [hm, Bool.false_eq_true, if_false] at hok
        exact setMode_recovers _ (restart_base_wf s) m .none hok
    case reopen => simp [Op.isReopen] at hr

/-- the metabase component stays coherent along EVERY history, injected failures included -/
theorem metaWF_step (s : St) (hw : MetaWF s) (o : Op) (hr : o.isReopen = false) : MetaWF (step s o).1 := by
  cases hs : o.isSwitch
  · exact metaWF_of_cfg _ _ (step_cfg s o hs) hw
  · cases o <;> simp [Op.isSwitch] at hs
    case setMode m f => exact (setMode_wf s hw m f).1
    case restart m =>
      simp only [step, restart]
      split
      · exact restart_base_wf s
      · exact (setMode_wf _ (restart_base_wf s) m .none).1
    case reopen => simp [Op.isReopen] at hr

/-- **A failed switch keeps the reported mode.** -/
theorem failed_switch (s : St) (hw : MetaWF s) (m : Nat) (f : Fault) (hne : (setMode s m f).2 ≠ .ok) :
    (setMode s m f).1.mode = s.mode := (setMode_wf s hw m f).2.2 hne

/-- a history together with the flag "no switch has failed since the last successful one" -/
def settledRun : St × Bool → List Op → St × Bool
  | st, [] => st
  | st, o :: os =>
    let r := step st.1 o
    settledRun (r.1, if o.isSwitch then r.2 == .ok else st.2) os

theorem settled_inv (ops : List Op) : ∀ (st : St × Bool), (∀ o ∈ ops, o.isReopen = false) → MetaWF st.1 →
    (st.2 = true → Consistent st.1) →
    MetaWF (settledRun st ops).1 ∧ ((settledRun st ops).2 = true → Consistent (settledRun st ops).1) := by
  induction ops with
  | nil => intro st _ h1 h2; exact ⟨h1, h2⟩
  | cons o os ih =>
    intro st hnr h1 h2
    have hr : o.isReopen = false := hnr o (by simp)
    simp only [settledRun]
    apply ih
    · exact fun o' ho' => hnr o' (by simp [ho'])
    · exact metaWF_step st.1 h1 o hr
    · intro hflag
      cases hs : o.isSwitch
      · simp only [hs, Bool.false_eq_true, if_false] at hflag
        exact consistent_step st.1 h1 o hr (fun _ => h2 hflag) (Or.inl hs)
      · simp only [hs, if_true] at hflag
        exact consistent_step st.1 h1 o hr (fun h => by rw [hs] at h; exact absurd h (by simp))
          (Or.inr (by simpa using hflag))

theorem init_consistent (wc : Bool) : Consistent ({ hasWC := wc } : St) :=
  ⟨rfl, by show true = !noMetabase modeRW; decide, by show false = isReadOnly modeRW; decide, fun _ => rfl⟩

/-- **C43, proved part.**  Along EVERY history from a fresh shard (with or without write-cache) — any requests,
background jobs, switches among all modes, restarts with a configured mode, and component failures injected into
any switch — whenever no switch has failed since the last successful one, every request of the mode table is
accepted or rejected exactly as the reported mode says. -/
theorem behaviour_matches_mode_partial (wc : Bool) (ops : List Op) (o : Op) (b : Bool)
    (hnr : ∀ o ∈ ops, o.isReopen = false)
    (hsettled : (settledRun ({ hasWC := wc }, true) ops).2 = true)
    (ht : table (settledRun ({ hasWC := wc }, true) ops).1.mode (settledRun ({ hasWC := wc }, true) ops).1.hasWC o = some b) :
    rejected (step (settledRun ({ hasWC := wc }, true) ops).1 o).2 = b := by
  have hinit := init_consistent wc
  have := settled_inv ops ({ hasWC := wc }, true) hnr (consistent_metaWF _ hinit) (fun _ => hinit)
  exact behaviour_matches_mode _ (this.2 hsettled) o b ht

theorem settledRun_fst (ops : List Op) : ∀ st : St × Bool, (settledRun st ops).1 = run st.1 ops := by
  induction ops with
  | nil => intro st; rfl
  | cons o os ih => intro st; simp only [settledRun, run, List.foldl]; rw [ih]; rfl

/-- the full statement of the property: the same without the "settled" hypothesis -/
def C43_full : Prop :=
  ∀ (wc : Bool) (ops : List Op) (o : Op) (b : Bool),
    table (run { hasWC := wc } ops).mode (run { hasWC := wc } ops).hasWC o = some b →
    rejected (step (run { hasWC := wc } ops) o).2 = b

/-- **The full statement is false for the current code**: after a switch to read-only that failed at the metabase
(write-cache and blobstor are already read-only, nothing is rolled back) the shard reports read-write and refuses
`Put`.  Known finding C43-partial-switch; `docs/shard-modes.md` describes the window. -/
theorem C43_counterexample : ¬ C43_full := by
  intro h
  have := h true [.setMode readOnly .metaEntry] (.put 1 { id := 1, typ := .regular }) false (by decide)
  revert this
  decide

/-- **Returning to read-write restores full service**: after a switch to read-write that succeeds — from any
reachable state — no request of the table is refused for a mode reason. -/
theorem rw_restores (s : St) (hw : MetaWF s) (f : Fault) (hok : (setMode s modeRW f).2 = .ok) (o : Op) (b : Bool)
    (ht : table modeRW (setMode s modeRW f).1.hasWC o = some b) :
    rejected (step (setMode s modeRW f).1 o).2 = false := by
  have hc := setMode_recovers s hw modeRW f hok
  have hm : (setMode s modeRW f).1.mode = modeRW := by
    unfold setMode at hok ⊢
    simp only [] at hok ⊢
    split
    · rfl
    · rename_i h; rw [if_neg h] at hok; exact absurd (by simpa using hok) h
  have hb : b = false := by
    cases o <;> simp [table] at ht <;> (try (subst ht; decide))
    case flush => obtain ⟨_, rfl⟩ := ht; decide
  have := behaviour_matches_mode _ hc o b (by rw [hm]; exact ht)
  rw [this, hb]

/-- **No switch loses data**: whatever mode is requested, from whatever state, with whatever injected failure, the
metabase content is unchanged and every stored object is still stored (the write-cache may have handed it to the
blobstor) -/
theorem switch_keeps_objects (s : St) (m : Nat) (f : Fault) : Keeps s (setMode s m f).1 := by
  have k := runComps_keeps m f (order s.hasWC m) (s, .ok)
  unfold setMode
  simp only []
  split
  · exact k
  · exact k


/-- the shape of `Shard.setMode` the model's `order` mirrors, regenerated from the source: components listed as
metabase, blobstor, write-cache and the list reversed exactly for targets other than read-write -/
theorem switch_order_facts : setMode_baseOrderMetaBlobWC = true ∧ setMode_reversedUnlessRW = true := ⟨rfl, rfl⟩

/-! ### non-vacuity -/

/-- a reachable settled state after failures: a switch to read-only fails at the metabase, the retry succeeds -/
def exampleRecovered : St × Bool :=
  settledRun ({}, true) [.put 1 { id := 1, typ := .regular }, .setMode readOnly .metaOpen, .get (1, 1),
    .setMode readOnly .none, .put 1 { id := 2, typ := .regular }]

example : exampleRecovered.2 = true ∧ exampleRecovered.1.mode = readOnly := by decide
/-- the first switch of that history really failed and left the components apart from the reported mode -/
example : (run {} [.put 1 { id := 1, typ := .regular }, .setMode readOnly .metaOpen]).mode = readWrite ∧
    (run {} [.put 1 { id := 1, typ := .regular }, .setMode readOnly .metaOpen]).blobRO = true ∧
    (run {} [.put 1 { id := 1, typ := .regular }, .setMode readOnly .metaOpen]).metaMode = degradedReadOnly := by decide
example : table readOnly true (.put 1 { id := 2, typ := .regular }) = some true := by decide
example : MetaWF (run {} [.setMode degraded .wc, .setMode readOnly .blob, .restart degradedReadOnly]) := by
  unfold MetaWF; decide
/-- the facts about the switch order the model's `order` mirrors, regenerated from `Shard.setMode` -/
example : setMode_baseOrderMetaBlobWC = true ∧ setMode_reversedUnlessRW = true := ⟨rfl, rfl⟩

end NeoFS.ShardMode
