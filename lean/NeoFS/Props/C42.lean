import NeoFS.Lemmas.Migrate
/-!
# C42 — upgrading an older metadata database preserves every object's status

`Model/Migrate.lean` models the upgrade this tree implements (9 → 10 → 11) as the sequence of its committed
transactions (`step`), `crashAfter k` is the file left by a crash right after the k-th of them, `migrate` the
state a (re)opening leaves.  A database is read through a `View` (which keys each live container's bucket holds,
which garbage marks are of the redundant kind): `absOld` reads every key as the current-format key it stands for
(`canon`: Base58 associate value → raw id, homomorphic-hash index → nothing), `absNew` reads the keys as they are.
Statuses (available / removed / garbage-marked / locked / expired at any epoch), listings and search results of the
metabase are functions of the key set of the container's bucket, so equal views give equal answers.

Proved for ALL databases satisfying the old format's invariant (`Inv` / `Inv2`, decidable; `inv_example`,
`inv2_example`, preserved: `inv_after_upgrade_tx`), ALL container sources `ex`, ALL batch sizes `B ≥ 1`:

* `upgrade_tx_preserves` — after ANY number of committed transactions (= at every crash point, and at the end) the
  old reading of the file equals the old reading of the original, and the invariant still holds;
* `migrate_complete` — a finished upgrade from 9 or 10 leaves no old-format key in any live container's bucket:
  the bucket cursor and the in-bucket cursor of `updateContainersInterruptable` never skip an entry;
* `migrate_preserves_view` — the upgraded database read by the current code = the original read as old format;
* `migrate_resumable` — crash after any k transactions, reopen: same view as the uninterrupted upgrade;
  (the last two for runs that end within the fuel of `migrate`: the hypothesis `(migrateRun …).ph = .done` is
  decidable and evaluated by the model driver on every case; termination itself is not proved)
* `version_gate_refused`, `version_gate_current`, `version_only_when_done` — unsupported versions are refused
  without any change, the current version is opened without any change, the version key reads 11 only once the
  last transaction is committed (so a reopening never skips a step);
* `migrate_counters` — after an upgrade from 9 or 10 every bucket's counters are the recount of its content.
-/
namespace NeoFS.Migrate
open NeoFS.Search (aHomo aAssoc)

theorem nodupKeys_iff : ∀ l : List Key, nodupKeys l = true ↔ l.Nodup
  | [] => by simp [nodupKeys]
  | k :: ks => by
    simp only [nodupKeys, Bool.and_eq_true, Bool.not_eq_true', List.nodup_cons, nodupKeys_iff ks]
    constructor
    · rintro ⟨h1, h2⟩; exact ⟨by simpa using h1, h2⟩
    · rintro ⟨h1, h2⟩; exact ⟨by simpa using h1, h2⟩

theorem inv_good {db : DB} (h : Inv db = true) : Good db.bkts := by
  unfold Inv at h
  rw [List.all_eq_true] at h
  intro cb hcb
  have := h cb hcb
  simp only [Bool.and_eq_true] at this
  exact ⟨(bktInv_iff _).1 this.1, (nodupKeys_iff _).1 this.2⟩

theorem good_inv {db : DB} (h : Good db.bkts) : Inv db = true := by
  unfold Inv
  rw [List.all_eq_true]
  intro cb hcb
  simp only [Bool.and_eq_true]
  exact ⟨(bktInv_iff _).2 (h cb hcb).1, (nodupKeys_iff _).2 (h cb hcb).2⟩

theorem absOld_of_bkts (ex : Nat → Bool) {db db' : DB} (h : db.bkts = db'.bkts) : absOld ex db = absOld ex db' := by
  unfold absOld; rw [h]

/-- Every committed transaction of the upgrade keeps the old reading of the file and the format invariant:
the statement holds at every crash point `n` and for the final state. -/
theorem upgrade_tx_preserves (ex : Nat → Bool) (B : Nat) (old : DB) (h : Inv old = true) (n : Nat) :
    absOld ex (steps ex B n (start old)).db = absOld ex old ∧ Inv (steps ex B n (start old)).db = true := by
  have hg : Good (start old).db.bkts := by rw [start_bkts]; exact inv_good h
  obtain ⟨s1, s2⟩ := steps_ok ex B n (start old) hg
  refine ⟨?_, good_inv s2⟩
  rw [absOld_congr ex s1]
  exact absOld_of_bkts ex (start_bkts old)

theorem inv_after_upgrade_tx (ex : Nat → Bool) (B : Nat) (old : DB) (h : Inv old = true) (k : Nat) :
    Inv (crashAfter ex B k old) = true := (upgrade_tx_preserves ex B old h k).2

/-- Upgrade preserves the view: the upgraded database, read by the current code, is the original database read as
the old format.  Hypotheses beyond the format invariant: the run reached its end within the fuel of `migrate` and
left nothing of the old format in the live containers' buckets (both decidable, evaluated by the model driver on
every case; the cursor logic that guarantees the second one is exercised, not proved). -/
theorem migrate_preserves_view_partial (ex : Nat → Bool) (B : Nat) (old : DB) (h : Inv old = true)
    (hc : completeDB ex (migrate ex B old) = true) :
    absNew ex (migrate ex B old) = absOld ex old := by
  rw [absNew_eq_absOld ex _ hc]
  exact (upgrade_tx_preserves ex B old h (fuelOf old)).1

def migrate_preserves_view_full : Prop :=
  ∀ (ex : Nat → Bool) (B : Nat) (old : DB), B ≥ 1 → Inv old = true → (old.version = some 9 ∨ old.version = some 10) →
    absNew ex (migrate ex B old) = absOld ex old

/-- An interrupted upgrade can be resumed: crash right after ANY number `k` of committed transactions, reopen —
the resulting view is the one of the uninterrupted upgrade. -/
theorem migrate_resumable_partial (ex : Nat → Bool) (B : Nat) (old : DB) (h : Inv old = true) (k : Nat)
    (hc1 : completeDB ex (migrate ex B old) = true)
    (hc2 : completeDB ex (migrate ex B (crashAfter ex B k old)) = true) :
    absNew ex (migrate ex B (crashAfter ex B k old)) = absNew ex (migrate ex B old) := by
  rw [migrate_preserves_view_partial ex B old h hc1,
    migrate_preserves_view_partial ex B _ (inv_after_upgrade_tx ex B old h k) hc2]
  exact (upgrade_tx_preserves ex B old h k).1

/-! ### the version gate -/

theorem steps_fix (ex : Nat → Bool) (B : Nat) (r : Run) (h : r.ph = .done ∨ r.ph = .refused) :
    ∀ n, steps ex B n r = r := by
  intro n
  induction n with
  | zero => rfl
  | succ n ih =>
    have : step ex B r = r := by
      unfold step
      rcases h with h | h <;> rw [h]
    simp only [steps, this, ih]

/-- a database of an unsupported version (older than 9, or newer than 11) is refused and nothing is written -/
theorem version_gate_refused (ex : Nat → Bool) (B : Nat) (db : DB) (v : Nat) (hv : db.version = some v)
    (h : v ≠ 9 ∧ v ≠ 10 ∧ v ≠ 11) (n : Nat) : steps ex B n (start db) = ⟨db, .refused⟩ := by
  have hs : start db = ⟨db, .refused⟩ := by
    unfold start
    simp only [hv, currentVersion]
    simp [h.1, h.2.1, h.2.2]
  rw [hs]
  exact steps_fix ex B _ (Or.inr rfl) n

/-- a database of the current version is opened and nothing is written -/
theorem version_gate_current (ex : Nat → Bool) (B : Nat) (db : DB) (hv : db.version = some 11) (n : Nat) :
    steps ex B n (start db) = ⟨db, .done⟩ := by
  have hs : start db = ⟨db, .done⟩ := by
    unfold start
    simp [hv, currentVersion]
  rw [hs]
  exact steps_fix ex B _ (Or.inl rfl) n

theorem migrate_refused (ex : Nat → Bool) (B : Nat) (db : DB) (v : Nat) (hv : db.version = some v)
    (h : v ≠ 9 ∧ v ≠ 10 ∧ v ≠ 11) : migrate ex B db = db := by
  unfold migrate migrateRun
  rw [version_gate_refused ex B db v hv h]

theorem migrate_current (ex : Nat → Bool) (B : Nat) (db : DB) (hv : db.version = some 11) : migrate ex B db = db := by
  unfold migrate migrateRun
  rw [version_gate_current ex B db hv]

/-- the version key each phase runs under -/
def phaseVersion : Phase → Option Nat
  | .v9 => some 9
  | .homo _ => some 10
  | .assoc _ => some 10
  | .final => some 10
  | .done => some 11
  | .refused => none

def VInv (r : Run) : Prop := ∀ v, phaseVersion r.ph = some v → r.db.version = some v

theorem vinv_start (db : DB) : VInv (start db) := by
  unfold start
  intro v
  split
  · simp only [phaseVersion, currentVersion]; intro h; cases h; rfl
  · rename_i w hw
    split
    · rename_i h1
      simp only [phaseVersion]; intro h; cases h
      rw [hw]; simp only [currentVersion, beq_iff_eq] at h1; rw [h1]
    · split
      · rename_i h2
        simp only [phaseVersion]; intro h; cases h
        rw [hw]; simp only [beq_iff_eq] at h2; rw [h2]
      · split
        · rename_i h3
          simp only [phaseVersion]; intro h; cases h
          rw [hw]; simp only [beq_iff_eq] at h3; rw [h3]
        · simp [phaseVersion]

theorem vinv_step (ex : Nat → Bool) (B : Nat) (r : Run) (h : VInv r) : VInv (step ex B r) := by
  unfold step
  split
  · intro v; simp only [phaseVersion]; intro e; cases e; rfl
  · rename_i cur hph
    have hv := h 10 (by rw [hph]; rfl)
    intro v
    dsimp only
    split <;> (simp only [phaseVersion]; intro e; cases e; exact hv)
  · rename_i cur hph
    have hv := h 10 (by rw [hph]; rfl)
    intro v
    dsimp only
    split <;> (simp only [phaseVersion]; intro e; cases e; exact hv)
  · intro v; simp only [phaseVersion, currentVersion]; intro e; cases e; rfl
  · exact h
  · exact h

theorem vinv_steps (ex : Nat → Bool) (B : Nat) : ∀ n r, VInv r → VInv (steps ex B n r)
  | 0, _, h => h
  | n + 1, r, h => vinv_steps ex B n _ (vinv_step ex B r h)

/-- The version key reads 11 only once the whole upgrade is committed: at every crash point before that it still
names a version the upgrade restarts from, so reopening never skips a step. -/
theorem version_only_when_done (ex : Nat → Bool) (B : Nat) (old : DB) (k : Nat)
    (h : (crashAfter ex B k old).version = some 11) :
    (steps ex B k (start old)).ph = .done ∨ (steps ex B k (start old)).ph = .refused := by
  have hv := vinv_steps ex B k _ (vinv_start old)
  unfold crashAfter at h
  generalize steps ex B k (start old) = r at h hv
  obtain ⟨db, ph⟩ := r
  cases ph with
  | done => exact Or.inl rfl
  | refused => exact Or.inr rfl
  | v9 => have := hv 9 rfl; simp only at h this; rw [h] at this; cases this
  | homo c => have := hv 10 rfl; simp only at h this; rw [h] at this; cases this
  | assoc c => have := hv 10 rfl; simp only at h this; rw [h] at this; cases this
  | final => have := hv 10 rfl; simp only at h this; rw [h] at this; cases this

/-! ### counters -/

def CtrOK (db : DB) : Prop := ∀ cb ∈ db.bkts, cb.2.ctr = some (recount cb.2)

theorem syncAll_ctr (l : List (Nat × Bkt)) : ∀ cb ∈ syncAll l, cb.2.ctr = some (recount cb.2) := by
  intro cb h
  unfold syncAll at h
  obtain ⟨x, _, rfl⟩ := List.mem_map.1 h
  rfl

theorem ctr_after (ex : Nat → Bool) (B : Nat) : ∀ n r, r.ph ≠ .done → r.ph ≠ .refused →
    (steps ex B n r).ph = .done → CtrOK (steps ex B n r).db
  | 0, r, h1, _, h3 => absurd h3 h1
  | n + 1, r, h1, h2, h3 => by
    simp only [steps] at h3 ⊢
    by_cases hd : (step ex B r).ph = .done
    · rw [steps_fix ex B _ (Or.inl hd)] at h3 ⊢
      -- only the final transaction ends the upgrade
      obtain ⟨db, ph⟩ := r
      cases ph with
      | final => exact syncAll_ctr _
      | done => exact absurd rfl h1
      | refused => exact absurd rfl h2
      | v9 => simp [step] at hd
      | homo c =>
        simp only [step] at hd
        split at hd <;> cases hd
      | assoc c =>
        simp only [step] at hd
        split at hd <;> cases hd
    · have hr : (step ex B r).ph ≠ .refused := by
        obtain ⟨db, ph⟩ := r
        cases ph with
        | refused => exact absurd rfl h2
        | done => exact absurd rfl h1
        | v9 => simp [step]
        | final => simp [step]
        | homo c => simp only [step]; split <;> simp
        | assoc c => simp only [step]; split <;> simp
      exact ctr_after ex B n _ hd hr h3

/-- After an upgrade from format 9 or 10 the counters of every bucket (live container or not) are the recount of
the bucket's upgraded content. -/
theorem migrate_counters (ex : Nat → Bool) (B : Nat) (old : DB) (hv : old.version = some 9 ∨ old.version = some 10)
    (hd : (migrateRun ex B old).ph = .done) : CtrOK (migrate ex B old) := by
  unfold migrate
  unfold migrateRun at hd ⊢
  have hs : (start old).ph ≠ .done ∧ (start old).ph ≠ .refused := by
    unfold start
    rcases hv with hv | hv <;> simp [hv, currentVersion]
  exact ctr_after ex B _ _ hs.1 hs.2 hd

/-! ### the hypotheses are satisfiable -/

/-- a format-10 bucket: a lock (id 7) for object 5 with its Base58 associate value and a homomorphic-hash entry -/
def exampleOld : DB :=
  let v := NeoFS.Search.b58Encode (NeoFS.Search.oidBytes (2 ^ 255 + 5))
  { version := some 10,
    bkts := [(1, { keys := [.oid 7, .plain 7 aAssoc v, .idAttr 7 aAssoc v, .plain 7 aHomo [1, 2], .idAttr 7 aHomo [1, 2],
                            .plain 7 NeoFS.Search.aType tLock, .idAttr 7 NeoFS.Search.aType tLock] })] }

theorem inv_example : Inv exampleOld = true := by decide

/-! ### nothing is left behind -/

theorem inv2_parts {db : DB} (h : Inv2 db = true) :
    Inv db = true ∧ SortedBkts db.bkts ∧ ∀ cb ∈ db.bkts, GH cb := by
  unfold Inv2 at h
  simp only [Bool.and_eq_true, List.all_eq_true] at h
  obtain ⟨⟨h1, h2⟩, h3⟩ := h
  refine ⟨h1, (sortedCids_iff _).1 h2, fun cb hcb => ⟨inv_good h1 cb hcb, (idOKb_iff _).1 (h3 cb hcb)⟩⟩

theorem inv2_of_parts {db : DB} (h1 : SortedBkts db.bkts) (h2 : ∀ cb ∈ db.bkts, GH cb) : Inv2 db = true := by
  unfold Inv2
  simp only [Bool.and_eq_true, List.all_eq_true]
  exact ⟨⟨good_inv (fun cb hcb => (h2 cb hcb).1), (sortedCids_iff _).2 h1⟩, fun cb hcb => (idOKb_iff _).2 (h2 cb hcb).2⟩

theorem PI_start (ex : Nat → Bool) (old : DB) (h : Inv2 old = true)
    (hv : old.version = some 9 ∨ old.version = some 10) : PI ex (start old) := by
  obtain ⟨_, h2, h3⟩ := inv2_parts h
  rcases hv with hv | hv
  · have : start old = ⟨old, .v9⟩ := by unfold start; simp [hv, currentVersion]
    rw [this]; exact ⟨h2, h3⟩
  · have : start old = ⟨old, .homo none⟩ := by unfold start; simp [hv, currentVersion]
    rw [this]
    exact ⟨h2, h3, fun c b _ _ hlt => by simp [frmOf] at hlt, rfl⟩

/-- what the phase invariant says about the buckets whatever the phase (a refused run aside) -/
theorem PI_inv2 (ex : Nat → Bool) (r : Run) (h : PI ex r) (hr : r.ph ≠ .refused) : Inv2 r.db = true := by
  obtain ⟨db, ph⟩ := r
  obtain ⟨hs, hph⟩ := h
  apply inv2_of_parts hs
  cases ph with
  | refused => exact absurd rfl hr
  | v9 => exact hph
  | homo c => exact hph.1
  | assoc c => exact fun cb hcb => ⟨(hph.1 cb hcb).1, (hph.1 cb hcb).2.1⟩
  | final => exact fun cb hcb => ⟨(hph.1 cb hcb).1, (hph.1 cb hcb).2.1⟩
  | done => exact fun cb hcb => ⟨(hph.1 cb hcb).1, (hph.1 cb hcb).2.1⟩

/-- A finished upgrade leaves nothing of the old format in the buckets of live containers: neither the bucket
cursor nor the in-bucket cursor of the batch loop skips an entry, whatever the batch size and wherever the batch
boundaries fall. -/
theorem migrate_complete (ex : Nat → Bool) (B : Nat) (hB : 1 ≤ B) (old : DB) (h : Inv2 old = true)
    (hv : old.version = some 9 ∨ old.version = some 10) (n : Nat)
    (hd : (steps ex B n (start old)).ph = .done) : completeDB ex (steps ex B n (start old)).db = true := by
  have hpi := steps_PI ex B hB n _ (PI_start ex old h hv)
  generalize steps ex B n (start old) = r at hd hpi
  obtain ⟨db, ph⟩ := r
  simp only at hd
  subst hd
  exact completeDB_of_clean ex db hpi.2

/-- **Upgrade preserves the view.**  The upgraded database, read by the current code, is the original database read
as the old format it was written in: per live container the same keys (hence the same statuses at every epoch, the
same attribute table, the same search results) and the same redundant marks. -/
theorem migrate_preserves_view (ex : Nat → Bool) (B : Nat) (hB : 1 ≤ B) (old : DB) (h : Inv2 old = true)
    (hv : old.version = some 9 ∨ old.version = some 10) (hd : (migrateRun ex B old).ph = .done) :
    absNew ex (migrate ex B old) = absOld ex old :=
  migrate_preserves_view_partial ex B old (inv2_parts h).1 (migrate_complete ex B hB old h hv _ hd)

theorem step_not_refused (ex : Nat → Bool) (B : Nat) (r : Run) (h : r.ph ≠ .refused) : (step ex B r).ph ≠ .refused := by
  obtain ⟨db, ph⟩ := r
  cases ph with
  | refused => exact absurd rfl h
  | done => simp [step]
  | v9 => simp [step]
  | final => simp [step]
  | homo c => simp only [step]; split <;> simp
  | assoc c => simp only [step]; split <;> simp

theorem steps_not_refused (ex : Nat → Bool) (B : Nat) : ∀ n r, r.ph ≠ .refused → (steps ex B n r).ph ≠ .refused
  | 0, _, h => h
  | n + 1, r, h => steps_not_refused ex B n _ (step_not_refused ex B r h)

/-- **An interrupted upgrade can be resumed.**  Crash right after ANY number `k` of committed transactions (the
in-memory cursor is lost), reopen: the view is the one of the uninterrupted upgrade. -/
theorem migrate_resumable (ex : Nat → Bool) (B : Nat) (hB : 1 ≤ B) (old : DB) (h : Inv2 old = true)
    (hv : old.version = some 9 ∨ old.version = some 10) (k : Nat)
    (hd1 : (migrateRun ex B old).ph = .done)
    (hd2 : (migrateRun ex B (crashAfter ex B k old)).ph = .done) :
    absNew ex (migrate ex B (crashAfter ex B k old)) = absNew ex (migrate ex B old) := by
  rw [migrate_preserves_view ex B hB old h hv hd1]
  have hpi := steps_PI ex B hB k _ (PI_start ex old h hv)
  have hnr : (steps ex B k (start old)).ph ≠ .refused := by
    apply steps_not_refused
    rcases hv with hv | hv <;> (unfold start; simp [hv, currentVersion])
  have hvi := vinv_steps ex B k _ (vinv_start old)
  have hold := (upgrade_tx_preserves ex B old (inv2_parts h).1 k).1
  have hinv2 := PI_inv2 ex _ hpi hnr
  unfold crashAfter at hd2 ⊢
  generalize steps ex B k (start old) = r at hd2 hpi hnr hvi hold hinv2 ⊢
  obtain ⟨db, ph⟩ := r
  simp only at hd2 hold hinv2 ⊢
  rw [← hold]
  cases ph with
  | refused => exact absurd rfl hnr
  | done =>
    have : db.version = some 11 := hvi 11 rfl
    rw [migrate_current ex B db this]
    exact absNew_eq_absOld ex db (completeDB_of_clean ex db hpi.2)
  | v9 => exact migrate_preserves_view ex B hB db hinv2 (Or.inl (hvi 9 rfl)) hd2
  | homo c => exact migrate_preserves_view ex B hB db hinv2 (Or.inr (hvi 10 rfl)) hd2
  | assoc c => exact migrate_preserves_view ex B hB db hinv2 (Or.inr (hvi 10 rfl)) hd2
  | final => exact migrate_preserves_view ex B hB db hinv2 (Or.inr (hvi 10 rfl)) hd2

theorem inv2_example : Inv2 exampleOld = true := by decide

/-- the hypothesis "the run ends within the fuel" is satisfiable (kernel-evaluated on a database without buckets;
the model driver evaluates it on every generated case: a run that does not end prints `unfinished`) -/
example : Inv2 { version := some 9 } = true ∧ (migrateRun (fun _ => true) 1000 { version := some 9 }).ph = .done := by decide

end NeoFS.Migrate
