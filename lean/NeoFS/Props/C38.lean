import NeoFS.Model.IRNetmap
/-
C38 — network map admission and epoch ticks follow the rules.
All statements are for EVERY validator list (any order, any subset, repetitions), every
candidate description, every flag combination and every finite history of events.
-/
namespace NeoFS.IRNetmap

/-! ### admission -/

theorem firstError_none_iff (n : Node) (vs : List V) (i : Nat) :
    firstError n vs i = none ↔ ∀ v ∈ vs, v.ok n = true := by
  induction vs generalizing i with
  | nil => simp [firstError]
  | cons v r ih =>
    simp only [firstError, List.mem_cons, forall_eq_or_imp]
    cases h : v.ok n with
    | true => simp [ih]
    | false => simp

/-- MAIN: the node is approved iff the processor runs on an alphabet node, the notary main
    transaction's script halts, the node structure converts, and EVERY configured validator
    accepts the node -/
theorem approve_iff_all_validators (alphabet halts conv : Bool) (vs : List V) (n : Node) :
    processAddNode alphabet halts conv vs n = .approved ↔
      alphabet = true ∧ halts = true ∧ conv = true ∧ ∀ v ∈ vs, v.ok n = true := by
  unfold processAddNode
  cases alphabet <;> cases halts <;> cases conv <;> simp
  cases h : firstError n vs 0 with
  | none => simpa using (firstError_none_iff n vs 0).1 h
  | some i =>
    simp only [reduceCtorEq, false_iff]
    intro hall
    have := (firstError_none_iff n vs 0).2 hall
    rw [h] at this; cases this

/-- the reported validator is the FIRST failing one: it fails and every earlier one accepts -/
theorem firstError_is_first_failing (n : Node) (vs : List V) (base i : Nat)
    (h : firstError n vs base = some i) :
    base ≤ i ∧ ∃ v, vs[i - base]? = some v ∧ v.ok n = false ∧
      ∀ j, j < i - base → ∀ w, vs[j]? = some w → w.ok n = true := by
  induction vs generalizing base with
  | nil => simp [firstError] at h
  | cons v r ih =>
    simp only [firstError] at h
    cases hv : v.ok n with
    | false =>
      simp only [hv, Bool.false_eq_true, if_false, Option.some.injEq] at h
      subst h
      exact ⟨Nat.le_refl _, v, by simp, hv, fun j hj => by omega⟩
    | true =>
      simp only [hv, if_true] at h
      obtain ⟨hle, w, hw, hwf, hall⟩ := ih (base + 1) h
      refine ⟨by omega, w, ?_, hwf, ?_⟩
      · have e : i - base = (i - (base + 1)) + 1 := by omega
        rw [e]; simpa using hw
      · intro j hj x hx
        cases j with
        | zero => simp at hx; subst hx; exact hv
        | succ k =>
          exact hall k (by omega) x (by simpa using hx)

/-- the composite validator stops at the first error: validators after it are not called -/
theorem calledCount_eq (n : Node) (vs : List V) (base : Nat) :
    calledCount n vs = match firstError n vs base with
      | some i => i - base + 1
      | none => vs.length := by
  induction vs generalizing base with
  | nil => simp [calledCount, firstError]
  | cons v r ih =>
    simp only [calledCount, firstError]
    cases hv : v.ok n with
    | false => simp
    | true =>
      simp only [if_true]
      rw [ih (base + 1)]
      cases h : firstError n r (base + 1) with
      | none => simp; omega
      | some i =>
        have := (firstError_is_first_failing n r (base + 1) i h).1
        simp; omega

/-- approval does not depend on the order in which the validators are composed -/
theorem admission_order_independent (alphabet halts conv : Bool) (vs vs' : List V) (n : Node)
    (hp : vs.Perm vs') :
    processAddNode alphabet halts conv vs n = .approved ↔
    processAddNode alphabet halts conv vs' n = .approved := by
  rw [approve_iff_all_validators, approve_iff_all_validators]
  constructor
  · rintro ⟨a, b, c, h⟩; exact ⟨a, b, c, fun v hv => h v (hp.mem_iff.2 hv)⟩
  · rintro ⟨a, b, c, h⟩; exact ⟨a, b, c, fun v hv => h v (hp.mem_iff.1 hv)⟩

/-- with the validators the inner ring configures, an approved node is ONLINE or in
    MAINTENANCE, announces only well-formed endpoints and no attribute twice, answered the
    availability probe, is entitled to its verified domain, and its LOCODE attributes equal the
    database record -/
theorem approved_node_facts (halts conv : Bool) (n : Node) (withExt : Bool)
    (h : processAddNode true halts conv
      ([.state, .structure, .availability, .privateDomains, .locode] ++ (if withExt then [.external] else [])) n = .approved) :
    (n.state = .online ∨ n.state = .maintenance) ∧ n.addrsOk.all id = true ∧ nodup n.attrKeys = true ∧
    n.reachable = true ∧ (n.hasDomain = true → n.keyPresent = true ∧ n.nnsAnswer = 0) ∧
    (n.hasLocode = true → n.locodeKnown = true ∧ n.locodeFields.all id = true) ∧
    (withExt = true → n.externalOk = true) := by
  have hall := ((approve_iff_all_validators true halts conv _ n).1 h).2.2.2
  have hs := hall .state (by simp)
  have hst := hall .structure (by simp)
  have ha := hall .availability (by simp)
  have hp := hall .privateDomains (by simp)
  have hl := hall .locode (by simp)
  simp only [V.ok, Bool.or_eq_true, beq_iff_eq, Bool.and_eq_true, Bool.not_eq_true'] at hs hst ha hp hl
  refine ⟨hs, hst.1, hst.2, ha, ?_, ?_, ?_⟩
  · intro hd
    rcases hp with h1 | h1
    · rw [hd] at h1; cases h1
    · exact h1
  · intro hd
    rcases hl with h1 | h1
    · rw [hd] at h1; cases h1
    · exact h1
  · intro hw
    subst hw
    exact hall .external (by simp)

/-- peer state updates are approved exactly by alphabet nodes (nothing else is checked by this
    processor) -/
theorem updatePeer_iff_alphabet (alphabet : Bool) :
    processUpdatePeer alphabet = .approved ↔ alphabet = true := by
  cases alphabet <;> simp [processUpdatePeer]

/-! ### epochs -/

theorem run_append (s : St) (a b : List Ev) :
    run s (a ++ b) = ((run (run s a).1 b).1, (run s a).2 ++ (run (run s a).1 b).2) := by
  induction a generalizing s with
  | nil => simp [run]
  | cons e r ih =>
    simp only [List.cons_append, run]
    rw [ih]
    simp [List.append_assoc]

/-- the epoch the node believes current: the last notified one (or the initial counter) -/
def lastNotified (c : Nat) : List Ev → Nat
  | [] => c
  | .newEpoch e :: r => lastNotified e r
  | _ :: r => lastNotified c r

/-- whether the node is in the alphabet after a history -/
def alphabetAfter (a : Bool) : List Ev → Bool
  | [] => a
  | .setAlphabet b :: r => alphabetAfter b r
  | _ :: r => alphabetAfter a r

theorem state_after (s : St) (evs : List Ev) :
    (run s evs).1.counter = lastNotified s.counter evs ∧
    (run s evs).1.alphabet = alphabetAfter s.alphabet evs := by
  induction evs generalizing s with
  | nil => simp [run, lastNotified, alphabetAfter]
  | cons e r ih =>
    cases e with
    | tick => simpa [run, step, lastNotified, alphabetAfter] using ih s
    | newEpoch k => simpa [run, step, lastNotified, alphabetAfter] using ih { s with counter := k, timerResets := s.timerResets + 1 }
    | setAlphabet b => simpa [run, step, lastNotified, alphabetAfter] using ih { s with alphabet := b }

/-- MAIN (histories): whatever happened before and whatever happens after, a timer tick makes an
    alphabet node ask the contract for EXACTLY the epoch after the last notified one, exactly
    once, and makes a non-alphabet node ask for nothing -/
theorem tick_requests_next_epoch (s : St) (pre post : List Ev) :
    (run s (pre ++ .tick :: post)).2 =
      (run s pre).2 ++
      (if alphabetAfter s.alphabet pre then [lastNotified s.counter pre + 1] else []) ++
      (run (run s pre).1 post).2 := by
  rw [run_append]
  simp only [run, step]
  have h := state_after s pre
  rw [h.1, h.2]
  simp [List.append_assoc]

/-- a node that is not (and does not become) an alphabet node never asks for a new epoch -/
theorem non_alphabet_never_requests (s : St) (evs : List Ev) (h : s.alphabet = false)
    (hno : ∀ b, Ev.setAlphabet b ∈ evs → b = false) : (run s evs).2 = [] := by
  induction evs generalizing s with
  | nil => simp [run]
  | cons e r ih =>
    have hr : ∀ b, Ev.setAlphabet b ∈ r → b = false := fun b hb => hno b (List.mem_cons_of_mem _ hb)
    cases e with
    | tick => simp [run, step, h, ih s h hr]
    | newEpoch k => simp [run, step, ih { s with counter := k, timerResets := s.timerResets + 1 } h hr]
    | setAlphabet b =>
      have hb := hno b List.mem_cons_self
      simp [run, step, ih { s with alphabet := b } hb hr]

/-- requests are never for the current or an older epoch, and never skip one -/
theorem every_request_is_next (s : St) (evs : List Ev) :
    ∀ e ∈ (run s evs).2, ∃ pre post, evs = pre ++ .tick :: post ∧ e = lastNotified s.counter pre + 1 := by
  induction evs generalizing s with
  | nil => simp [run]
  | cons ev r ih =>
    intro e he
    cases ev with
    | tick =>
      simp only [run, step, List.mem_append] at he
      rcases he with he | he
      · refine ⟨[], r, rfl, ?_⟩
        split at he
        · simpa [lastNotified] using he
        · cases he
      · obtain ⟨pre, post, hr, hv⟩ := ih s e he
        exact ⟨.tick :: pre, post, by rw [hr]; rfl, by simpa [lastNotified] using hv⟩
    | newEpoch k =>
      simp only [run, step, List.nil_append] at he
      obtain ⟨pre, post, hr, hv⟩ := ih _ e he
      exact ⟨.newEpoch k :: pre, post, by rw [hr]; rfl, by simpa [lastNotified] using hv⟩
    | setAlphabet b =>
      simp only [run, step, List.nil_append] at he
      obtain ⟨pre, post, hr, hv⟩ := ih _ e he
      exact ⟨.setAlphabet b :: pre, post, by rw [hr]; rfl, by simpa [lastNotified] using hv⟩

/-- when every request is executed and notified back at once, n ticks of an alphabet node move
    the epoch forward by exactly n (one per tick) and reset the timer n times -/
theorem applied_ticks_advance_by_one_each (s : St) (n : Nat) (h : s.alphabet = true) :
    (runApplied s (List.replicate n .tick)).counter = s.counter + n ∧
    (runApplied s (List.replicate n .tick)).timerResets = s.timerResets + n := by
  induction n generalizing s with
  | zero => simp [runApplied]
  | succ k ih =>
    obtain ⟨c, a, t⟩ := s
    simp only at h
    subst h
    simp only [List.replicate_succ, runApplied, if_true]
    have := ih ⟨c + 1, true, t + 1⟩ rfl
    simp only at this
    omega


/-! ### histories against ONE processor and ONE validator instance

`hrun` runs admissions, peer updates, ticks, notifications, alphabet changes and changes of the
world the validators consult, all against the same processor state.  The statements below are
for EVERY initial state, EVERY validator list and EVERY finite history. -/

/-- a request (admission, peer update, tick) leaves NO trace in the processor: whatever was
    announced and whatever the verdict was, the state after it is the state before it -/
theorem request_leaves_no_trace (s : HSt) (e : HEv) (h : e.isRequest = true) : (hstep s e).1 = s := by
  cases e <;> simp [HEv.isRequest] at h <;> rfl

/-- the state after a history is the state after its non-request events alone -/
theorem state_ignores_requests (s : HSt) (evs : List HEv) :
    (hrun s evs).1 = (hrun s (evs.filter (fun e => !e.isRequest))).1 := by
  induction evs generalizing s with
  | nil => rfl
  | cons e r ih =>
    cases hreq : e.isRequest with
    | true =>
      simp only [hrun, List.filter_cons, hreq, Bool.not_true, Bool.false_eq_true, if_false]
      rw [request_leaves_no_trace s e hreq]
      exact ih s
    | false =>
      simp only [hrun, List.filter_cons, hreq, Bool.not_false, if_true]
      exact ih (hstep s e).1

/-- MAIN (histories): the verdict on a candidate depends only on the candidate and on what the
    world, the alphabet flag and the validator list are NOW.  Two histories that differ only in
    the requests made before (other candidates of the same or other keys, approved or rejected,
    in any number and order; peer updates; ticks) give the same outcome, the same first
    rejecting validator and the same number of validator calls -/
theorem verdict_independent_of_earlier_candidates (s : HSt) (pre pre' : List HEv) (halts : Bool) (c : Cand)
    (h : pre.filter (fun e => !e.isRequest) = pre'.filter (fun e => !e.isRequest)) :
    (hstep (hrun s pre).1 (.addNode halts c)).2 = (hstep (hrun s pre').1 (.addNode halts c)).2 := by
  rw [state_ignores_requests s pre, state_ignores_requests s pre', h]

/-- the validator list of the process never changes -/
theorem vs_constant (s : HSt) (evs : List HEv) : (hrun s evs).1.vs = s.vs := by
  induction evs generalizing s with
  | nil => rfl
  | cons e r ih =>
    simp only [hrun]
    rw [ih]
    cases e <;> simp only [hstep] <;> (try split) <;> rfl

/-- MAIN (histories): after ANY history the candidate is approved iff the node is an alphabet
    node now, the script halts, the structure converts and EVERY configured validator accepts
    what the candidate announces in the world as it is now -/
theorem history_approve_iff (s : HSt) (pre : List HEv) (halts : Bool) (c : Cand) :
    (∃ n, (hstep (hrun s pre).1 (.addNode halts c)).2 = .admission .approved n) ↔
      (hrun s pre).1.ep.alphabet = true ∧ halts = true ∧ c.convertible = true ∧
      ∀ v ∈ s.vs, v.ok (view (hrun s pre).1.w c) = true := by
  have hvs := vs_constant s pre
  simp only [hstep, HOut.admission.injEq, hvs]
  constructor
  · rintro ⟨n, h, _⟩
    exact (approve_iff_all_validators _ _ _ _ _).1 h
  · intro h
    exact ⟨_, (approve_iff_all_validators _ _ _ _ _).2 h, rfl⟩

/-- the same candidate announced twice in a row gets the same verdict (approval is not sticky,
    rejection is not sticky) -/
theorem repeated_candidate_same_verdict (s : HSt) (halts : Bool) (c c' : Cand) (halts' : Bool) :
    (hrun s [.addNode halts' c', .addNode halts c]).2.getLast? = some (hstep s (.addNode halts c)).2 := by
  simp [hrun, hstep]

/-- the epoch part of a history runs exactly as the epoch model on the epoch events of the
    history: admissions, peer updates and world changes in between change neither the counter,
    nor the alphabet flag, nor the requests made -/
theorem history_epoch_refines (s : HSt) (evs : List HEv) :
    (hrun s evs).1.ep = (run s.ep (evs.filterMap HEv.toEv)).1 ∧
    (hrun s evs).2.flatMap HOut.reqs = (run s.ep (evs.filterMap HEv.toEv)).2 := by
  induction evs generalizing s with
  | nil => simp [hrun, run]
  | cons e r ih =>
    cases e with
    | addNode h c =>
      rw [List.filterMap_cons_none (by rfl)]
      simpa [hrun, hstep, HOut.reqs] using ih s
    | updPeer =>
      rw [List.filterMap_cons_none (by rfl)]
      simpa [hrun, hstep, HOut.reqs] using ih s
    | tick =>
      have := ih s
      simp only [hrun, hstep, HEv.toEv, List.filterMap_cons, run, step, List.flatMap_cons, HOut.reqs]
      exact ⟨this.1, by rw [this.2]⟩
    | newEpoch k =>
      simp only [hrun, hstep, HEv.toEv, List.filterMap_cons, run, step]
      split
      · simpa [HOut.reqs] using ih { s with ep := { s.ep with counter := k, timerResets := s.ep.timerResets + 1 } }
      · simpa [HOut.reqs] using ih { s with ep := { s.ep with counter := k, timerResets := s.ep.timerResets + 1 }, curMap := s.chain }
    | setAlphabet b => simpa [hrun, hstep, HEv.toEv, HOut.reqs, run, step] using ih { s with ep := { s.ep with alphabet := b } }
    | setNns recs down =>
      rw [List.filterMap_cons_none (by rfl)]
      simpa [hrun, hstep, HOut.reqs] using ih { s with w := { s.w with nns := recs, nnsDown := down } }
    | serve k c =>
      rw [List.filterMap_cons_none (by rfl)]
      simp only [hrun, hstep, List.flatMap_cons, HOut.reqs, List.nil_append]
      exact ih _
    | setExt deny =>
      rw [List.filterMap_cons_none (by rfl)]
      simpa [hrun, hstep, HOut.reqs] using ih { s with w := { s.w with extDeny := deny } }
    | setChain keys down =>
      rw [List.filterMap_cons_none (by rfl)]
      simpa [hrun, hstep, HOut.reqs] using ih { s with chain := keys, chainDown := down }

/-- hence inside ANY history (admissions and world changes included) a tick of an alphabet node
    requests exactly the epoch after the last notified one, once -/
theorem history_tick_requests_next_epoch (s : HSt) (pre : List HEv) :
    (hstep (hrun s pre).1 .tick).2 =
      .requests (if alphabetAfter s.ep.alphabet (pre.filterMap HEv.toEv)
                 then [lastNotified s.ep.counter (pre.filterMap HEv.toEv) + 1] else []) := by
  have h := (history_epoch_refines s pre).1
  have h2 := state_after s.ep (pre.filterMap HEv.toEv)
  simp only [hstep, step, h, h2.1, h2.2]

/-- the network map snapshot after a processed notification is the contract's map of that moment
    (when it could be read; otherwise the snapshot is kept), and placements are updated exactly
    when the snapshot changed on an alphabet node -/
theorem snapshot_after_newEpoch (s : HSt) (e : Nat) :
    (hstep s (.newEpoch e)).1.curMap = (if s.chainDown then s.curMap else s.chain) ∧
    (hstep s (.newEpoch e)).2 =
      (if s.chainDown then .epoch false false else .epoch (s.curMap != s.chain && s.ep.alphabet) true) := by
  simp only [hstep]
  split <;> simp

/-- and the snapshot plays no role in admission: a node that is in the snapshot is validated
    like any other -/
theorem admission_ignores_snapshot (s : HSt) (m ch : List Nat) (d : Bool) (halts : Bool) (c : Cand) :
    (hstep { s with curMap := m, chain := ch, chainDown := d } (.addNode halts c)).2 = (hstep s (.addNode halts c)).2 := rfl

/-! ### non-vacuity -/

def goodNode : Node :=
  { state := .online, addrsOk := [true, true], attrKeys := ["Price", "UN-LOCODE"], reachable := true, hasDomain := true,
    keyPresent := true, nnsAnswer := 0, hasLocode := true, locodeKnown := true,
    locodeFields := [true, true, true, true, true, true], externalOk := true }

example : processAddNode true true true [.state, .structure, .availability, .privateDomains, .locode, .external] goodNode = .approved := by decide
example : processAddNode true true true [.state, .structure, .availability, .privateDomains, .locode] { goodNode with nnsAnswer := 1 } = .rejected 3 := by decide
example : processAddNode true true true [.locode, .state] { goodNode with state := .offline, locodeFields := [true, false] } = .rejected 0 := by decide
example : processAddNode true false true [.state] goodNode = .badScript := by decide
example : processAddNode false true true [.state] goodNode = .ignored := by decide
example : (run ⟨7, true, 0⟩ [.tick, .newEpoch 8, .tick, .setAlphabet false, .tick, .newEpoch 12, .setAlphabet true, .tick]).2 = [8, 9, 13] := by decide
example : (run ⟨7, false, 0⟩ [.tick, .newEpoch 8, .tick]).2 = [] := by decide

/-! non-vacuity of the history statements: one key approved, then claiming a domain it has no record for (rejected by
    validator 3), then the record appears; a node that stopped answering is rejected with the very descriptor approved before -/
def histCand : Cand :=
  { key := 2, state := .online, addrsOk := [true], attrKeys := ["Price"], attrVal := 0, domain := 0,
    hasLocode := false, locodeKnown := true, locodeFields := [true, true, true, true, true, true] }
def histInit : HSt := { ep := ⟨4, true, 0⟩, vs := [.state, .structure, .availability, .privateDomains, .locode, .external] }

example : (hrun histInit [.serve 2 (some histCand), .addNode true histCand,
      .addNode true { histCand with domain := 1 },
      .serve 2 (some { histCand with domain := 1 }), .addNode true { histCand with domain := 1 },
      .setNns [(1, 2)] false, .addNode true { histCand with domain := 1 },
      .serve 2 none, .addNode true { histCand with domain := 1 },
      .tick, .setChain [2] false, .newEpoch 5, .tick, .newEpoch 6]).2 =
    [.env, .admission .approved 6, .admission (.rejected 2) 3, .env, .admission (.rejected 3) 4, .env,
     .admission .approved 6, .env, .admission (.rejected 2) 3, .requests [5], .env, .epoch true true, .requests [6],
     .epoch false true] := by decide

end NeoFS.IRNetmap
