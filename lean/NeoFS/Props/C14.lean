import NeoFS.Lemmas.ShardMode
/-!
# C14 — read-only shard modes never change stored data

`Model/ShardMode.lean` follows the guards of the shard's operations; every guard and the mode predicates are the
facts `harness/extract` regenerates from the source into `Gen/ShardMode.lean` (pinned in `Lemmas/ShardMode.lean`,
section "facts": a guard removed from the code makes its fact `false` and the proofs below stop checking).

Statements are about EVERY state satisfying `ROStable` (reported mode read-only, blobstor opened read-only,
write-cache in a read-only mode — exactly what a successful switch to a read-only mode establishes, theorem
`setMode_starts_period`) and EVERY sequence of operations: all modifying requests, all reads, the background jobs
(GC remover pass, flush-worker pass, new-epoch handler) as steps of the sequence, Restore, and switches between
read-only modes.  Helper lemmas: `Lemmas/ShardMode.lean`.
-/
namespace NeoFS.ShardMode
open NeoFS.Gen.ShardMode

/-! ### one step -/

/-- **Frame.** Any operation of a read-only period — modifying request, read, GC remover pass, flush-worker pass,
new-epoch handler, Restore, switch to another read-only mode — leaves metabase, blobstor and write-cache content
exactly as they were, and the period continues. -/
theorem ro_step (s : St) (hs : ROStable s) (o : Op) (ho : o.staysRO = true) :
    (step s o).1.persist = s.persist ∧ ROStable (step s o).1 := by
  have hm := hs.mode
  have hne := ro_ne_rw hm
  cases o with
  | put cn h => simp [step, put, hm, hs]
  | get a => exact ⟨rfl, hs⟩
  | head a => exact ⟨rfl, hs⟩
  | exists_ a => exact ⟨rfl, hs⟩
  | isLocked a => exact ⟨rfl, hs⟩
  | delete cn ids => simp [step, deleteObjs, hm, hs]
  | mark cn ids r => simp [step, markGarbage, hm, hs]
  | inhumeCnr cn => simp [step, inhumeContainer, hm, hs]
  | deleteCnr cn => simp [step, deleteContainer, hm, hs]
  | revive cn id => simp [step, reviveObject, hm, hs]
  | list => exact ⟨rfl, hs⟩
  | select => exact ⟨rfl, hs⟩
  | listCnr => exact ⟨rfl, hs⟩
  | cnrInfo cn => exact ⟨rfl, hs⟩
  | flush =>
    simp only [step, flushWriteCache]
    split
    · exact ⟨rfl, hs⟩
    · simp [hm, hs]
  | flushTick =>
    simp only [step, flushTick]
    split
    · exact ⟨rfl, hs⟩
    · split
      · exact ⟨rfl, hs⟩
      · rename_i hw _
        have := hs.wc (by simpa using hw)
        simp [this, hs]
  | gc => simp [step, removeGarbage, hne, hs]
  | epoch e =>
    simp only [step, handleEpoch_ro s hm e]
    exact ⟨rfl, ⟨hm, hs.blob, hs.wc⟩⟩
  | restore cn hs' => simp [step, restore, hm, hs]
  | setMode m f =>
    simp only [Op.staysRO, Bool.and_eq_true, beq_iff_eq] at ho
    obtain ⟨h1, h2⟩ := ho
    subst h2
    exact setMode_ro s hs m h1
  | restart m => simp [Op.staysRO] at ho
  | reopen => simp [Op.staysRO] at ho
  | settle =>
    simp only [step, flushTick]
    split
    · exact ⟨rfl, hs⟩
    · split
      · exact ⟨rfl, hs⟩
      · rename_i hw _
        have := hs.wc (by simpa using hw)
        simp [this, hs]

/-- **Every modifying request fails with the read-only error** (only the REPORTED mode matters here) -/
theorem ro_rejects (s : St) (hm : isReadOnly s.mode = true) (o : Op) (ho : o.modifying = true) :
    step s o = (s, .readOnly) := by
  cases o <;> simp [Op.modifying] at ho <;>
    simp [step, put, deleteObjs, markGarbage, inhumeContainer, deleteContainer, reviveObject, restore, hm]

/-- an explicit write-cache flush is refused too (or there is no write-cache) -/
theorem ro_rejects_flush (s : St) (hm : isReadOnly s.mode = true) :
    step s .flush = (s, .readOnly) ∨ step s .flush = (s, .wcDisabled) := by
  simp only [step, flushWriteCache]
  split
  · exact Or.inr rfl
  · exact Or.inl (by simp [hm])

/-! ### sequences -/

/-- **C14.** For every state of a read-only period and EVERY sequence of operations issued during it (background
jobs included as steps), the stored data after the sequence — hence, instantiating with prefixes, after every step
of it — is what it was before. -/
theorem ro_frame (ops : List Op) : ∀ (s : St), ROStable s → (∀ o ∈ ops, o.staysRO = true) →
    (run s ops).persist = s.persist ∧ ROStable (run s ops) := by
  induction ops with
  | nil => intro s hs _; exact ⟨rfl, hs⟩
  | cons o os ih =>
    intro s hs hall
    have h1 := ro_step s hs o (hall o (by simp))
    have h2 := ih (step s o).1 h1.2 (fun o' ho' => hall o' (by simp [ho']))
    simp only [run, List.foldl] at h2 ⊢
    exact ⟨h2.1.trans h1.1, h2.2⟩

/-- the same, stated for every point inside the sequence -/
theorem ro_frame_prefix (s : St) (hs : ROStable s) (pre post : List Op) (h : ∀ o ∈ pre ++ post, o.staysRO = true) :
    (run s pre).persist = s.persist :=
  (ro_frame pre s hs (fun o ho => h o (by simp [ho]))).1

/-! ### the period over the engine's maintenance cycle (close, open again without `Init`) -/

/-- what a read-only period looks like once the components have been closed and opened again WITHOUT `Init`
(`StorageEngine.BlockExecution` / `ResumeExecution`): the shard still reports a read-only mode; blobstor, metabase
handle and write-cache may be opened for writing; what keeps the data still is that every request is refused on the
REPORTED mode and that the write-cache's background flush loop either sees a read-only cache or is not running. -/
structure ROQuiet (s : St) : Prop where
  mode : isReadOnly s.mode = true
  wc : s.hasWC = true → isReadOnly s.wcMode = true ∨ s.wcLoop = false

theorem ROStable.quiet {s : St} (hs : ROStable s) : ROQuiet s := ⟨hs.mode, fun h => Or.inl (hs.wc h)⟩

/-- operations of a read-only period that may follow a close/open cycle: everything except a restart, an injected
failure and a switch to a mode WITHOUT metabase (that one flushes the cache into the blobstor the reopening left
writable: `C14_counterexample`) -/
def Op.staysQuiet : Op → Bool
  | .setMode m f => isReadOnly m && !noMetabase m && f == .none
  | .restart _ => false
  | _ => true

/-- **The close/open cycle keeps the period**: stored data as it was, and — because `cache.Open` does not start the
flush loop (regenerated fact `wcOpen_startsFlushLoop = false`) — nothing is left running that could move it. -/
theorem reopen_quiet (s : St) (hm : isReadOnly s.mode = true) :
    (step s .reopen).1.persist = s.persist ∧ ROQuiet (step s .reopen).1 :=
  ⟨rfl, ⟨hm, fun _ => Or.inr (by simp [step, reopen])⟩⟩

/-- **What the model's `reopen` stands for**, regenerated from the source on every run: `StorageEngine.BlockExecution`
closes every shard, `ResumeExecution` opens every shard again and neither initializes it nor applies its mode;
`Shard.Open` opens the components and does nothing else; the write-cache's flush loop is started by `cache.Init`
and neither by `cache.Open` nor by `cache.SetMode`. -/
theorem maintenance_cycle_facts :
    engineBlock_closesShards = true ∧ engineResume_opensShards = true ∧ engineResume_initsShards = false ∧
    shardOpen_initsOrSetsMode = false ∧
    wcInit_startsFlushLoop = true ∧ wcOpen_startsFlushLoop = false ∧ wcSetMode_startsFlushLoop = false :=
  ⟨rfl, rfl, rfl, rfl, rfl, rfl, rfl⟩

/-- a fault-free switch to a read-only mode WITH metabase, from any state of the (reopened) period: moves nothing
and brings every component back to read-only -/
theorem setMode_quiet (s : St) (hs : ROQuiet s) (m : Nat) (hm : isReadOnly m = true) (hn : noMetabase m = false) :
    (setMode s m .none).1.persist = s.persist ∧ ROStable (setMode s m .none).1 := by
  have hne := ro_ne_rw hm
  have hm' : isRO m = true := hm
  have hn' : noMeta m = false := hn
  cases hw : s.hasWC
  · simp [setMode, order, hw, hne, runComps, compSetMode, blobSetMode, metaSetMode_none, St.persist]
    exact ⟨hm, hm, fun h => by simp [hw] at h⟩
  · simp [setMode, order, hw, hne, runComps, compSetMode, blobSetMode, wcSetMode, metaSetMode_none, St.persist, hn']
    exact ⟨hm, hm, fun _ => hm⟩

/-- **Frame over the reopened period.**  Any operation — modifying request, read, GC pass, flush-worker pass, a tick
of the real flush scheduler (`settle`), new-epoch handler, Restore, another close/open cycle, a switch to the
read-only mode with metabase — leaves metabase, blobstor and write-cache content exactly as they were. -/
theorem ro_quiet_step (s : St) (hs : ROQuiet s) (o : Op) (ho : o.staysQuiet = true) :
    (step s o).1.persist = s.persist ∧ ROQuiet (step s o).1 := by
  have hm := hs.mode
  have hne := ro_ne_rw hm
  have tick : (flushTick s) = s := by
    simp only [flushTick]
    split
    · rfl
    · split
      · rfl
      · rename_i hw hl
        rcases hs.wc (by simpa using hw) with h | h
        · simp [h]
        · simp [h] at hl
  cases o with
  | put cn h => simp [step, put, hm, hs]
  | get a => exact ⟨rfl, hs⟩
  | head a => exact ⟨rfl, hs⟩
  | exists_ a => exact ⟨rfl, hs⟩
  | isLocked a => exact ⟨rfl, hs⟩
  | delete cn ids => simp [step, deleteObjs, hm, hs]
  | mark cn ids r => simp [step, markGarbage, hm, hs]
  | inhumeCnr cn => simp [step, inhumeContainer, hm, hs]
  | deleteCnr cn => simp [step, deleteContainer, hm, hs]
  | revive cn id => simp [step, reviveObject, hm, hs]
  | list => exact ⟨rfl, hs⟩
  | select => exact ⟨rfl, hs⟩
  | listCnr => exact ⟨rfl, hs⟩
  | cnrInfo cn => exact ⟨rfl, hs⟩
  | flush =>
    simp only [step, flushWriteCache]
    split
    · exact ⟨rfl, hs⟩
    · simp [hm, hs]
  | flushTick =>
    have : step s .flushTick = (s, .ok) := by simp only [step, tick]
    rw [this]; exact ⟨rfl, hs⟩
  | settle =>
    have : step s .settle = (s, .ok) := by simp only [step, tick]
    rw [this]; exact ⟨rfl, hs⟩
  | gc => simp [step, removeGarbage, hne, hs]
  | epoch e =>
    simp only [step, handleEpoch_ro s hm e]
    exact ⟨rfl, ⟨hm, hs.wc⟩⟩
  | restore cn hs' => simp [step, restore, hm, hs]
  | setMode m f =>
    simp only [Op.staysQuiet, Bool.and_eq_true, beq_iff_eq, Bool.not_eq_true'] at ho
    obtain ⟨⟨h1, h2⟩, h3⟩ := ho
    subst h3
    have := setMode_quiet s hs m h1 h2
    exact ⟨this.1, this.2.quiet⟩
  | restart m => simp [Op.staysQuiet] at ho
  | reopen => exact reopen_quiet s hm

/-- which operations a history of a read-only period may contain at a point where the components are known to be
read-only (`st = true`: since the last switch no close/open cycle happened) or not -/
def Op.okIn (st : Bool) : Op → Bool
  | .setMode m f => isReadOnly m && f == .none && (st || !noMetabase m)
  | .restart _ => false
  | _ => true

/-- a switch to a read-only mode brings the components to it, a close/open cycle opens them for writing -/
def Op.nextStable (st : Bool) : Op → Bool
  | .reopen => false
  | .setMode .. => true
  | _ => st

def legalPeriod : Bool → List Op → Bool
  | _, [] => true
  | st, o :: os => o.okIn st && legalPeriod (o.nextStable st) os

theorem ro_period_step (s : St) (st : Bool) (hq : ROQuiet s) (hst : st = true → ROStable s) (o : Op)
    (ho : o.okIn st = true) :
    (step s o).1.persist = s.persist ∧ ROQuiet (step s o).1 ∧ (o.nextStable st = true → ROStable (step s o).1) := by
  cases st
  · -- the components may be writable
    by_cases hsw : ∃ m f, o = .setMode m f
    · obtain ⟨m, f, rfl⟩ := hsw
      simp only [Op.okIn, Bool.and_eq_true, beq_iff_eq, Bool.false_or, Bool.not_eq_true'] at ho
      obtain ⟨⟨h1, h2⟩, h3⟩ := ho
      subst h2
      have := setMode_quiet s hq m h1 h3
      exact ⟨this.1, this.2.quiet, fun _ => this.2⟩
    · have hq' : o.staysQuiet = true := by
        cases o <;> simp_all [Op.staysQuiet, Op.okIn]
      have := ro_quiet_step s hq o hq'
      refine ⟨this.1, this.2, fun h => ?_⟩
      cases o <;> simp_all [Op.nextStable]
  · have hs := hst rfl
    by_cases hre : o = .reopen
    · subst hre
      have := reopen_quiet s hs.mode
      exact ⟨this.1, this.2, fun h => by simp [Op.nextStable] at h⟩
    · have ho' : o.staysRO = true := by
        cases o <;> simp_all [Op.staysRO, Op.okIn]
      have := ro_step s hs o ho'
      exact ⟨this.1, this.2.quiet, fun _ => this.2⟩

/-- **C14 over the maintenance cycle.**  For every state of a read-only period and EVERY sequence of operations
issued during it — all requests, reads, background jobs (GC pass, flush-worker pass, ticks of the real flush
scheduler, new-epoch handler), Restore, switches between read-only modes, and close/open cycles without `Init` at
any point — the stored data is unchanged after the sequence (hence after every prefix), PROVIDED no switch to a mode
without metabase follows a close/open cycle before the components have been switched back to a read-only mode with
metabase (`legalPeriod`; without the proviso the statement is false for the code: `C14_counterexample`). -/
theorem ro_period_frame (ops : List Op) : ∀ (s : St) (st : Bool), ROQuiet s → (st = true → ROStable s) →
    legalPeriod st ops = true → (run s ops).persist = s.persist ∧ ROQuiet (run s ops) := by
  induction ops with
  | nil => intro s st hq _ _; exact ⟨rfl, hq⟩
  | cons o os ih =>
    intro s st hq hst hl
    simp only [legalPeriod, Bool.and_eq_true] at hl
    have h1 := ro_period_step s st hq hst o hl.1
    have h2 := ih (step s o).1 (o.nextStable st) h1.2.1 h1.2.2 hl.2
    simp only [run, List.foldl] at h2 ⊢
    exact ⟨h2.1.trans h1.1, h2.2⟩

/-- the statement without the proviso: close/open cycles anywhere among the operations of a read-only period -/
def Op.inPeriod : Op → Bool
  | .reopen => true
  | o => o.staysRO

def C14_full : Prop :=
  ∀ (s : St) (ops : List Op), ROStable s → (∀ o ∈ ops, o.inPeriod = true) → (run s ops).persist = s.persist

/-! ### how a read-only period starts, and reads during it -/

/-- **How a read-only period starts.** A fault-free `SetMode` to a read-only mode that succeeds from a state in which
reported and actual modes agree yields a state of a read-only period (and the agreement continues, lemma
`setMode_establishes`). -/
theorem setMode_starts_period_wf (s : St) (hw : MetaWF s) (m : Nat) (hm : isReadOnly m = true)
    (hok : (setMode s m .none).2 = .ok) : ROStable (setMode s m .none).1 := by
  have hc' := setMode_recovers s hw m .none hok
  have hmode : (setMode s m .none).1.mode = m := by
    unfold setMode at hok ⊢
    simp only [] at hok ⊢
    split
    · rfl
    · rename_i h; rw [if_neg h] at hok; exact absurd (by simpa using hok) h
  exact consistent_ro _ hc' (by rw [hmode]; exact hm)

theorem setMode_starts_period (s : St) (hc : Consistent s) (m : Nat) (hm : isReadOnly m = true)
    (hok : (setMode s m .none).2 = .ok) : ROStable (setMode s m .none).1 :=
  setMode_starts_period_wf s (consistent_metaWF s hc) m hm hok

/-- **Configurations.** A shard (re)started with a read-only mode as its CONFIGURED mode is in a read-only period as
soon as `Init` returns (its components are opened for writing first and then switched, see the fix recorded for
C14/C43: before it they stayed writable and the write-cache kept flushing). -/
theorem restart_starts_period (s : St) (m : Nat) (hm : isReadOnly m = true) (hok : (restart s m).2 = .ok) :
    ROStable (restart s m).1 := by
  have hne : (m == modeRW) = false := by
    have := ro_ne_rw hm
    cases h : (m == modeRW) <;> simp_all
  unfold restart at hok ⊢
  simp only [hne, Bool.false_eq_true, if_false] at hok ⊢
  exact setMode_starts_period_wf _ (by show true = !noMetabase modeRW; decide) m hm hok

/-- **Reads follow the mode table**: the reads that need the metabase answer exactly when the reported mode has one,
with the degraded-mode error otherwise; never with the read-only error -/
theorem ro_reads_meta (s : St) (hc : Consistent s) :
    (step s .list).2 = (if noMetabase s.mode then .degraded else .ok) ∧
    (step s .select).2 = (if noMetabase s.mode then .degraded else .ok) ∧
    (step s .listCnr).2 = (if noMetabase s.mode then .degraded else .ok) ∧
    (∀ cn, (step s (.cnrInfo cn)).2 = (if noMetabase s.mode then .degraded else .ok)) ∧
    (∀ a, (step s (.isLocked a)).2 = (if noMetabase s.mode then .degraded else .ok)) := by
  obtain ⟨c1, c2, _, _⟩ := hc
  cases hn : noMetabase s.mode <;>
    simp [step, list, select, listContainers, containerInfo, isLocked, metaRead, c1, c2, hn]

/-- object reads (`Get`, `Head`, `Exists`) are never refused for a mode reason: they answer from the metabase when
the mode has one and from blobstor / write-cache otherwise -/
theorem ro_reads_object (s : St) (hc : Consistent s) (a : Addr) :
    (∀ e ∈ [(step s (.get a)).2, (step s (.head a)).2, (step s (.exists_ a)).2],
      e ≠ .readOnly ∧ e ≠ .degraded ∧ e ≠ .compRefused) := by
  obtain ⟨c1, c2, _, _⟩ := hc
  have hme := metaErr_not_mode (Meta.dbExists s.db a.1 a.2 s.metaEpoch).2
  intro e he
  simp only [List.mem_cons, List.mem_nil_iff, or_false] at he
  cases hn : noMetabase s.mode
  · have hr : metaRead s = .ok := by simp [metaRead, c1, c2, hn]
    rcases he with rfl | rfl | rfl
    · simp only [step, get, metaExists, hr, hn]
      simp only [Bool.false_eq_true, if_false, Bool.not_false, Bool.true_and]
      repeat' split
      all_goals first | exact hme | simp
    · simp only [step, head, metaExists, hr, hn]
      simp only [Bool.false_eq_true, if_false]
      repeat' split
      all_goals first | exact hme | simp
    · simp only [step, exists_, metaExists, hr, hn]
      simp only [Bool.false_eq_true, if_false]
      exact hme
  · rcases he with rfl | rfl | rfl
    · simp only [step, get, hn]
      simp only [if_true, Bool.not_true, Bool.false_and]
      repeat' split
      all_goals simp
    · simp only [step, head, hn]
      simp only [if_true]
      repeat' split
      all_goals simp
    · simp [step, exists_, hn]


/-! ### non-vacuity -/

/-- a shard with write-cache holding an object in the cache, one in the blobstor, a garbage mark and a tombstone,
switched to read-only -/
def exampleRO : St :=
  run {} [.put 1 { id := 1, typ := .regular, size := 10 }, .flush, .put 1 { id := 2, typ := .regular, size := 20 },
    .put 1 { id := 7, typ := .tombstone, assoc := 1, exp := some "3" }, .mark 1 [2] false, .epoch 5,
    .setMode readOnly .none]

example : ROStable exampleRO := ⟨by decide, by decide, fun _ => by decide⟩
example : exampleRO.blob ≠ [] ∧ exampleRO.db ≠ [] := by decide
/-- the sequence really contains steps that would change data in read-write mode -/
example : (run (run {} [.put 1 { id := 1, typ := .regular }]) [.delete 1 [1], .gc]).persist ≠
    (run {} [.put 1 { id := 1, typ := .regular }]).persist := by decide
example : (run exampleRO [.delete 1 [1], .gc, .flushTick, .epoch 9, .setMode degradedReadOnly .none,
    .put 1 { id := 3, typ := .regular }, .restore 1 [{ id := 4, typ := .regular }]]).persist = exampleRO.persist := by decide
example : Consistent ({} : St) := ⟨rfl, by decide, by decide, fun _ => rfl⟩

/-- **The full statement is false for the current code** (known finding C14-reopen-switch-flush): a read-only shard
with an object in its write-cache goes through the maintenance cycle (every component is opened for writing again,
the mode is not re-applied) and is then switched to degraded-read-only — `cache.SetMode` flushes before entering a
mode without metabase, the blobstor accepts: the object moves from the cache to the blobstor although the shard
reported a read-only mode all along. -/
theorem C14_counterexample : ¬ C14_full := by
  intro h
  have := h exampleRO [.reopen, .setMode degradedReadOnly .none] ⟨by decide, by decide, fun _ => by decide⟩
    (by intro o ho; simp only [List.mem_cons, List.mem_nil_iff, or_false] at ho; rcases ho with rfl | rfl <;> decide)
  revert this
  decide

/-- the reopened period is inhabited by a state whose components really are writable -/
example : ROQuiet (run exampleRO [.reopen]) ∧ (run exampleRO [.reopen]).blobRO = false ∧
    (run exampleRO [.reopen]).wcMode = readWrite ∧ (run exampleRO [.reopen]).wc ≠ [] :=
  ⟨⟨by decide, fun _ => Or.inr (by decide)⟩, by decide, by decide, by decide⟩
/-- a flush-worker pass / scheduler tick WOULD move the cached object if the loop were running after the reopening -/
example : (flushTick { run exampleRO [.reopen] with wcLoop := true }).persist ≠ (run exampleRO [.reopen]).persist := by decide
example : legalPeriod true [.put 1 { id := 3, typ := .regular }, .reopen, .settle, .flushTick, .gc, .epoch 9,
    .setMode readOnly .none, .setMode degradedReadOnly .none, .reopen, .settle] = true := by decide
example : legalPeriod true [.reopen, .setMode degradedReadOnly .none] = false := by decide
example : (run exampleRO [.reopen, .settle, .flushTick, .gc, .setMode readOnly .none]).persist = exampleRO.persist := by
  decide

end NeoFS.ShardMode
