import NeoFS.Lemmas.ShardMode
/-!
# C14 — read-only shard modes never change stored data

`Model/ShardMode.lean` follows the guards of the shard's operations; every guard and the mode predicates are the
facts `harness/extract` regenerates from the source into `Gen/ShardMode.lean` (pinned in `Lemmas/ShardMode.lean`,
section "facts": a guard removed from the code makes its fact `false` and the proofs below stop checking).

Statements are about EVERY state satisfying `ROStable` (reported mode read-only, blobstor opened read-only,
write-cache in a read-only mode — exactly what a successful switch to a read-only mode establishes, theorem
`setMode_starts_period`) and EVERY sequence of operations: all modifying requests, all reads, the background jobs
(GC remover pass, flush-worker pass, new-epoch handler) as steps of the sequence, Restore, and switches between
read-only modes.  Helper lemmas: `Lemmas/ShardMode.lean`.
-/
namespace NeoFS.ShardMode
open NeoFS.Gen.ShardMode

/-! ### one step -/

/-- **Frame.** Any operation of a read-only period — modifying request, read, GC remover pass, flush-worker pass,
new-epoch handler, Restore, switch to another read-only mode — leaves metabase, blobstor and write-cache content
exactly as they were, and the period continues. -/
theorem ro_step (s : St) (hs : ROStable s) (o : Op) (ho : o.staysRO = true) :
    (step s o).1.persist = s.persist ∧ ROStable (step s o).1 := by
  have hm := hs.mode
  have hne := ro_ne_rw hm
  cases o with
  | put cn h => simp [step, put, hm, hs]
  | get a => exact ⟨rfl, hs⟩
  | head a => exact ⟨rfl, hs⟩
  | exists_ a => exact ⟨rfl, hs⟩
  | isLocked a => exact ⟨rfl, hs⟩
  | delete cn ids => simp [step, deleteObjs, hm, hs]
  | mark cn ids r => simp [step, markGarbage, hm, hs]
  | inhumeCnr cn => simp [step, inhumeContainer, hm, hs]
  | deleteCnr cn => simp [step, deleteContainer, hm, hs]
  | revive cn id => simp [step, reviveObject, hm, hs]
  | list => exact ⟨rfl, hs⟩
  | select => exact ⟨rfl, hs⟩
  | listCnr => exact ⟨rfl, hs⟩
  | cnrInfo cn => exact ⟨rfl, hs⟩
  | flush =>
    simp only [step, flushWriteCache]
    split
    · exact ⟨rfl, hs⟩
    · simp [hm, hs]
  | flushTick =>
    simp only [step, flushTick]
    split
    · exact ⟨rfl, hs⟩
    · rename_i hw
      have := hs.wc (by simpa using hw)
      simp [this, hs]
  | gc => simp [step, removeGarbage, hne, hs]
  | epoch e =>
    simp only [step, handleEpoch_ro s hm e]
    exact ⟨rfl, ⟨hm, hs.blob, hs.wc⟩⟩
  | restore cn hs' => simp [step, restore, hm, hs]
  | setMode m f =>
    simp only [Op.staysRO, Bool.and_eq_true, beq_iff_eq] at ho
    obtain ⟨h1, h2⟩ := ho
    subst h2
    exact setMode_ro s hs m h1
  | restart m => simp [Op.staysRO] at ho

/-- **Every modifying request fails with the read-only error** (only the REPORTED mode matters here) -/
theorem ro_rejects (s : St) (hm : isReadOnly s.mode = true) (o : Op) (ho : o.modifying = true) :
    step s o = (s, .readOnly) := by
  cases o <;> simp [Op.modifying] at ho <;>
    simp [step, put, deleteObjs, markGarbage, inhumeContainer, deleteContainer, reviveObject, restore, hm]

/-- an explicit write-cache flush is refused too (or there is no write-cache) -/
theorem ro_rejects_flush (s : St) (hm : isReadOnly s.mode = true) :
    step s .flush = (s, .readOnly) ∨ step s .flush = (s, .wcDisabled) := by
  simp only [step, flushWriteCache]
  split
  · exact Or.inr rfl
  · exact Or.inl (by simp [hm])

/-! ### sequences -/

/-- **C14.** For every state of a read-only period and EVERY sequence of operations issued during it (background
jobs included as steps), the stored data after the sequence — hence, instantiating with prefixes, after every step
of it — is what it was before. -/
theorem ro_frame (ops : List Op) : ∀ (s : St), ROStable s → (∀ o ∈ ops, o.staysRO = true) →
    (run s ops).persist = s.persist ∧ ROStable (run s ops) := by
  induction ops with
  | nil => intro s hs _; exact ⟨rfl, hs⟩
  | cons o os ih =>
    intro s hs hall
    have h1 := ro_step s hs o (hall o (by simp))
    have h2 := ih (step s o).1 h1.2 (fun o' ho' => hall o' (by simp [ho']))
    simp only [run, List.foldl] at h2 ⊢
    exact ⟨h2.1.trans h1.1, h2.2⟩

/-- the same, stated for every point inside the sequence -/
theorem ro_frame_prefix (s : St) (hs : ROStable s) (pre post : List Op) (h : ∀ o ∈ pre ++ post, o.staysRO = true) :
    (run s pre).persist = s.persist :=
  (ro_frame pre s hs (fun o ho => h o (by simp [ho]))).1

/-! ### how a read-only period starts, and reads during it -/

/-- **How a read-only period starts.** A fault-free `SetMode` to a read-only mode that succeeds from a state in which
reported and actual modes agree yields a state of a read-only period (and the agreement continues, lemma
`setMode_establishes`). -/
theorem setMode_starts_period_wf (s : St) (hw : MetaWF s) (m : Nat) (hm : isReadOnly m = true)
    (hok : (setMode s m .none).2 = .ok) : ROStable (setMode s m .none).1 := by
  have hc' := setMode_recovers s hw m .none hok
  have hmode : (setMode s m .none).1.mode = m := by
    unfold setMode at hok ⊢
    simp only [] at hok ⊢
    split
    · rfl
    · rename_i h; rw [if_neg h] at hok; exact absurd (by simpa using hok) h
  exact consistent_ro _ hc' (by rw [hmode]; exact hm)

theorem setMode_starts_period (s : St) (hc : Consistent s) (m : Nat) (hm : isReadOnly m = true)
    (hok : (setMode s m .none).2 = .ok) : ROStable (setMode s m .none).1 :=
  setMode_starts_period_wf s (consistent_metaWF s hc) m hm hok

/-- **Configurations.** A shard (re)started with a read-only mode as its CONFIGURED mode is in a read-only period as
soon as `Init` returns (its components are opened for writing first and then switched, see the fix recorded for
C14/C43: before it they stayed writable and the write-cache kept flushing). -/
theorem restart_starts_period (s : St) (m : Nat) (hm : isReadOnly m = true) (hok : (restart s m).2 = .ok) :
    ROStable (restart s m).1 := by
  have hne : (m == modeRW) = false := by
    have := ro_ne_rw hm
    cases h : (m == modeRW) <;> simp_all
  unfold restart at hok ⊢
  simp only [hne, Bool.false_eq_true, if_false] at hok ⊢
  exact setMode_starts_period_wf _ (by show true = !noMetabase modeRW; decide) m hm hok

/-- **Reads follow the mode table**: the reads that need the metabase answer exactly when the reported mode has one,
with the degraded-mode error otherwise; never with the read-only error -/
theorem ro_reads_meta (s : St) (hc : Consistent s) :
    (step s .list).2 = (if noMetabase s.mode then .degraded else .ok) ∧
    (step s .select).2 = (if noMetabase s.mode then .degraded else .ok) ∧
    (step s .listCnr).2 = (if noMetabase s.mode then .degraded else .ok) ∧
    (∀ cn, (step s (.cnrInfo cn)).2 = (if noMetabase s.mode then .degraded else .ok)) ∧
    (∀ a, (step s (.isLocked a)).2 = (if noMetabase s.mode then .degraded else .ok)) := by
  obtain ⟨c1, c2, _, _⟩ := hc
  cases hn : noMetabase s.mode <;>
    simp [step, list, select, listContainers, containerInfo, isLocked, metaRead, c1, c2, hn]

/-- object reads (`Get`, `Head`, `Exists`) are never refused for a mode reason: they answer from the metabase when
the mode has one and from blobstor / write-cache otherwise -/
theorem ro_reads_object (s : St) (hc : Consistent s) (a : Addr) :
    (∀ e ∈ [(step s (.get a)).2, (step s (.head a)).2, (step s (.exists_ a)).2],
      e ≠ .readOnly ∧ e ≠ .degraded ∧ e ≠ .compRefused) := by
  obtain ⟨c1, c2, _, _⟩ := hc
  have hme := metaErr_not_mode (Meta.dbExists s.db a.1 a.2 s.metaEpoch).2
  intro e he
  simp only [List.mem_cons, List.mem_nil_iff, or_false] at he
  cases hn : noMetabase s.mode
  · have hr : metaRead s = .ok := by simp [metaRead, c1, c2, hn]
    rcases he with rfl | rfl | rfl
    · simp only [step, get, metaExists, hr, hn]
      simp only [Bool.false_eq_true, if_false, Bool.not_false, Bool.true_and]
      repeat' split
      all_goals first | exact hme | simp
    · simp only [step, head, metaExists, hr, hn]
      simp only [Bool.false_eq_true, if_false]
      repeat' split
      all_goals first | exact hme | simp
    · simp only [step, exists_, metaExists, hr, hn]
      simp only [Bool.false_eq_true, if_false]
      exact hme
  · rcases he with rfl | rfl | rfl
    · simp only [step, get, hn]
      simp only [if_true, Bool.not_true, Bool.false_and]
      repeat' split
      all_goals simp
    · simp only [step, head, hn]
      simp only [if_true]
      repeat' split
      all_goals simp
    · simp [step, exists_, hn]


/-! ### non-vacuity -/

/-- a shard with write-cache holding an object in the cache, one in the blobstor, a garbage mark and a tombstone,
switched to read-only -/
def exampleRO : St :=
  run {} [.put 1 { id := 1, typ := .regular, size := 10 }, .flush, .put 1 { id := 2, typ := .regular, size := 20 },
    .put 1 { id := 7, typ := .tombstone, assoc := 1, exp := some "3" }, .mark 1 [2] false, .epoch 5,
    .setMode readOnly .none]

example : ROStable exampleRO := ⟨by decide, by decide, fun _ => by decide⟩
example : exampleRO.blob ≠ [] ∧ exampleRO.db ≠ [] := by decide
/-- the sequence really contains steps that would change data in read-write mode -/
example : (run (run {} [.put 1 { id := 1, typ := .regular }]) [.delete 1 [1], .gc]).persist ≠
    (run {} [.put 1 { id := 1, typ := .regular }]).persist := by decide
example : (run exampleRO [.delete 1 [1], .gc, .flushTick, .epoch 9, .setMode degradedReadOnly .none,
    .put 1 { id := 3, typ := .regular }, .restore 1 [{ id := 4, typ := .regular }]]).persist = exampleRO.persist := by decide
example : Consistent ({} : St) := ⟨rfl, by decide, by decide, fun _ => rfl⟩

end NeoFS.ShardMode
