import NeoFS.Props.C13
import NeoFS.Lemmas.FSTreeSched
/-!
# C12 — a crash during a blob write never exposes partial or wrong object bytes

Process-crash model (no power loss): the oracle value `Fault.crash p` at system call `n` stops the process there
(a write being executed may have appended a prefix of `p` bytes); every later call of the run is a no-op on the
kernel state (`crash_freezes_*`).  Recovery (`recover`) drops the process state — open descriptors, the batch in
memory, locks — and keeps names and inodes; unnamed (O_TMPFILE) inodes are unreachable; `CleanUpTmp` removes the
portable writer's `p#i` names, which no reader ever looks at.  Since the theorems of C13 hold for EVERY oracle,
they hold for every crash point of every schedule.
-/
namespace NeoFS.FSTree

/-- the kernel part of the state is unchanged and the process stays stopped -/
def Frozen (k k' : K) : Prop := k'.inodes = k.inodes ∧ k'.dir = k.dir ∧ k'.tmps = k.tmps ∧ k'.crashed = true

theorem Frozen.trans {a b c : K} (h1 : Frozen a b) (h2 : Frozen b c) : Frozen a c :=
  ⟨by rw [h2.1, h1.1], by rw [h2.2.1, h1.2.1], by rw [h2.2.2.1, h1.2.2.1], h2.2.2.2⟩

theorem faultAt_crashed {o : Oracle} {k : K} (h : k.crashed = true) : faultAt o k = some (.crash 0) := by
  unfold faultAt; rw [h]; rfl

theorem crash_freezes_open (o : Oracle) (k : K) (h : k.crashed = true) : Frozen k (sysOpen o k).1 ∧ (sysOpen o k).2 = none := by
  unfold sysOpen; rw [faultAt_crashed h]; exact ⟨⟨rfl, rfl, rfl, rfl⟩, rfl⟩

theorem crash_freezes_write (o : Oracle) (k : K) (i : Nat) (b : Bytes) (h : k.crashed = true) :
    Frozen k (sysWrite o k i b).1 ∧ (sysWrite o k i b).2 = false := by
  unfold sysWrite; rw [faultAt_crashed h]; simp only [h, if_true]; exact ⟨⟨rfl, rfl, rfl, h⟩, (by first | trivial | rfl)⟩

theorem crash_freezes_link (o : Oracle) (k : K) (i a : Nat) (h : k.crashed = true) :
    Frozen k (sysLink o k i a).1 ∧ (sysLink o k i a).2 = .err := by
  unfold sysLink; rw [faultAt_crashed h]; exact ⟨⟨rfl, rfl, rfl, rfl⟩, rfl⟩

theorem crash_freezes_sync (o : Oracle) (k : K) (h : k.crashed = true) : Frozen k (sysSync o k).1 ∧ (sysSync o k).2 = false := by
  unfold sysSync; rw [faultAt_crashed h]; exact ⟨⟨rfl, rfl, rfl, rfl⟩, rfl⟩

theorem crash_freezes_unlink (o : Oracle) (k : K) (a : Nat) (h : k.crashed = true) : Frozen k (sysUnlink o k a).1 := by
  unfold sysUnlink; rw [faultAt_crashed h]; exact ⟨rfl, rfl, rfl, rfl⟩

theorem crash_freezes_intSync (cfg : Cfg) (o : Oracle) (k : K) (b : Batch) (h : k.crashed = true) :
    Frozen k (intSync cfg o k b).1 := by
  unfold intSync
  simp only
  split
  · have s1 := crash_freezes_sync o k h
    have s2 := crash_freezes_sync o (sysSync o k).1 s1.1.2.2.2
    exact ⟨by simp only [s2.1.1, s1.1.1], by simp only [s2.1.2.1, s1.1.2.1], by simp only [s2.1.2.2.1, s1.1.2.2.1], s2.1.2.2.2⟩
  · have s2 := crash_freezes_sync o k h
    exact ⟨s2.1.1, s2.1.2.1, s2.1.2.2.1, s2.1.2.2.2⟩

/-- after the stop point the rest of `syncBatch.write` does nothing to names and bytes -/
theorem crash_freezes_sbWrite (cfg : Cfg) (o : Oracle) (k : K) (b : Batch) (a : Nat) (d : Bytes) (h : k.crashed = true) :
    Frozen k (sbWrite cfg o k b a d).1 ∧ (sbWrite cfg o k b a d).2.2 = false := by
  unfold sbWrite
  simp only
  have w := crash_freezes_write o k b.ino (record a d) h
  simp only [w.2, Bool.not_false, if_true]
  exact ⟨w.1.trans (crash_freezes_intSync cfg o _ _ w.1.2.2.2), trivial⟩

theorem crash_freezes_writeFile (o : Oracle) (k : K) (a : Nat) (d : Bytes) (h : k.crashed = true) :
    Frozen k (writeFile o k a d).1 := by
  unfold writeFile
  simp only
  have r := crash_freezes_open o k h
  rw [r.2]
  exact r.1

/-- every crash point of every schedule: what is visible after recovery and `CleanUpTmp` is, through both readers,
exactly one payload offered for that address — never partial, never foreign bytes -/
theorem crash_safe (cfg : Cfg) (hc : cfg.Fixed) (hg : cfg.generic = false) (o : Oracle) (evs : List Ev)
    (hv : ∀ ev ∈ evs, ValidEv ev) (dec : Bytes → Option Bytes) (a : Nat)
    (hvis : «exists» (cleanUpTmp (recover (runEv cfg o {} evs))) a = true) :
    ∃ d, Offered evs a d ∧
      get dec (cleanUpTmp (recover (runEv cfg o {} evs))) a = decompress dec d ∧
      getStream cfg dec (cleanUpTmp (recover (runEv cfg o {} evs))) a = decompress dec d := by
  have hs := faults_fail_cleanly cfg hc hg o evs hv
  have hs' : SInv (Offered evs) (cleanUpTmp (recover (runEv cfg o {} evs))) :=
    ⟨hs.kinv, fun _ h => (by cases h), rfl, rfl⟩
  exact visible_is_exact cfg hc _ hs' dec a hvis

/-- in particular for the oracle that stops the process at call `n` (after `p` bytes of a write in progress) -/
theorem crash_safe_at (cfg : Cfg) (hc : cfg.Fixed) (hg : cfg.generic = false) (n p : Nat) (evs : List Ev)
    (hv : ∀ ev ∈ evs, ValidEv ev) (dec : Bytes → Option Bytes) (a : Nat)
    (hvis : «exists» (cleanUpTmp (recover (runEv cfg (crashAt n p) {} evs))) a = true) :
    ∃ d, Offered evs a d ∧ get dec (cleanUpTmp (recover (runEv cfg (crashAt n p) {} evs))) a = decompress dec d :=
  let ⟨d, h1, h2, _⟩ := crash_safe cfg hc hg (crashAt n p) evs hv dec a hvis
  ⟨d, h1, h2⟩

/-- ACKNOWLEDGED WRITES SURVIVE: what was readable before stays readable with identical bytes through any further
schedule under any oracle (so through any crash point of a later write) and through recovery, unless that very address is deleted -/
theorem acked_survive {P} (cfg : Cfg) (hc : cfg.Fixed) (hg : cfg.generic = false) (o : Oracle) (evs : List Ev) :
    ∀ (k : K), (∀ ev ∈ evs, ValidEv ev) → (∀ ev ∈ evs, ∀ a d, Offers ev a d → P a d) → SInv P k →
    ∀ (x : Nat) (e : Bytes), (∀ ev ∈ evs, ev ≠ .del x) → ReadsK k.inodes k.dir x e →
    ReadsK (cleanUpTmp (recover (runEv cfg o k evs))).inodes (cleanUpTmp (recover (runEv cfg o k evs))).dir x e := by
  induction evs with
  | nil => intro k _ _ _ x e _ h; exact h
  | cons ev rest ih =>
    intro k hv hp hs x e hx h
    have st := step_safe (P := P) cfg hc hg o k ev (hv ev (by simp)) (hp ev (by simp)) hs
    exact ih _ (fun e' he => hv e' (by simp [he])) (fun e' he => hp e' (by simp [he])) st.1 x e
      (fun e' he => hx e' (by simp [he]))
      (st.2.2 x e (fun a ha => fun hxa => hx ev (by simp) (by rw [ha, hxa])) h)

/-! ## one process, several calls, a stop at ANY system call of the whole sequence

`runApi` keeps one running system-call index over `Put` / `PutBatch` / `Delete` calls made one after the other, so the
oracle `crashAt n` is a process kill at the `n`-th system call — also between two calls of one API call that no hook
point of the code separates (for instance between the two calls a writer would need to replace an existing name).
The theorems hold for EVERY oracle. -/

/-- every kill point of every call sequence: what is visible after reopening is exactly one offered payload -/
theorem api_crash_safe (cfg : Cfg) (hc : cfg.Fixed) (hg : cfg.generic = false) (o : Oracle) (ops : List Api)
    (hv : ∀ op ∈ ops, ValidApi op) (dec : Bytes → Option Bytes) (a : Nat)
    (hvis : «exists» (cleanUpTmp (recover (runApi cfg o {} ops))) a = true) :
    ∃ d, ApiOffered ops a d ∧
      get dec (cleanUpTmp (recover (runApi cfg o {} ops))) a = decompress dec d ∧
      getStream cfg dec (cleanUpTmp (recover (runApi cfg o {} ops))) a = decompress dec d := by
  have init : SInv (ApiOffered ops) ({} : K) := ⟨fun _ _ h => (by cases h), fun _ h => (by cases h), rfl, rfl⟩
  have hs := api_run_inv (P := ApiOffered ops) cfg hc hg o ops {} hv (fun op hop a d ho => ⟨op, hop, ho⟩) init
  have hs' : SInv (ApiOffered ops) (cleanUpTmp (recover (runApi cfg o {} ops))) :=
    ⟨hs.kinv, fun _ h => (by cases h), rfl, rfl⟩
  exact visible_is_exact cfg hc _ hs' dec a hvis

/-- ACKNOWLEDGED OBJECTS SURVIVE EVERY LATER CALL, WHEREVER IT IS KILLED: what was readable stays readable with identical
bytes through any further calls (puts of the same address included) under any oracle and through recovery, unless that
very address is deleted -/
theorem api_acked_survive {P} (cfg : Cfg) (hc : cfg.Fixed) (hg : cfg.generic = false) (o : Oracle) (ops : List Api) :
    ∀ (k : K), (∀ op ∈ ops, ValidApi op) → (∀ op ∈ ops, ∀ a d, ApiOffers op a d → P a d) → SInv P k →
    ∀ (x : Nat) (e : Bytes), (∀ op ∈ ops, op ≠ .del x) → ReadsK k.inodes k.dir x e →
    ReadsK (cleanUpTmp (recover (runApi cfg o k ops))).inodes (cleanUpTmp (recover (runApi cfg o k ops))).dir x e := by
  induction ops with
  | nil => intro k _ _ _ x e _ h; exact h
  | cons op rest ih =>
    intro k hv hp hs x e hx h
    have st := api_step_safe (P := P) cfg hc hg o k op (hv op (by simp)) (hp op (by simp)) hs
    exact ih _ (fun e' he => hv e' (by simp [he])) (fun e' he => hp e' (by simp [he])) st.1 x e
      (fun e' he => hx e' (by simp [he]))
      (st.2 x e (fun a ha => fun hxa => hx op (by simp) (by rw [ha, hxa])) h)

/-- in particular: putting an object that is already stored, interrupted at any system call, never takes it away -/
theorem reput_keeps_object {P} (cfg : Cfg) (hc : cfg.Fixed) (hg : cfg.generic = false) (o : Oracle) (k : K) (a : Nat)
    (d e : Bytes) (hs : SInv P k) (ha : IdOK a) (hd : ValidData d) (hp : P a d) (h : ReadsK k.inodes k.dir a e) :
    ReadsK (cleanUpTmp (recover (put cfg o k a d).1)).inodes (cleanUpTmp (recover (put cfg o k a d).1)).dir a e :=
  api_acked_survive (P := P) cfg hc hg o [.put a d] k (fun op hop => by simp at hop; subst hop; exact ⟨ha, hd⟩)
    (fun op hop x y ho => by simp at hop; subst hop; obtain ⟨rfl, rfl⟩ := ho; exact hp) hs a e
    (fun op hop => by simp at hop; subst hop; simp) h

/-- every image of `crashImages` (the model side of the kill-at-every-system-call run) is safe -/
theorem crash_images_safe (cfg : Cfg) (hc : cfg.Fixed) (hg : cfg.generic = false) (ops : List Api)
    (hv : ∀ op ∈ ops, ValidApi op) (dec : Bytes → Option Bytes) (k' : K) (hk : k' ∈ crashImages cfg {} ops) (a : Nat)
    (hvis : «exists» k' a = true) : ∃ d, ApiOffered ops a d ∧ get dec k' a = decompress dec d := by
  unfold crashImages at hk
  obtain ⟨n, _, rfl⟩ := List.mem_map.mp hk
  obtain ⟨d, h1, h2, _⟩ := api_crash_safe cfg hc hg (crashAt n 0) ops hv dec a hvis
  exact ⟨d, h1, h2⟩

/-! ## concurrent callers of the portable writer: every interleaving of their system calls, every stop point -/

/-- WHAT ANY INTERLEAVING OF ANY NUMBER OF CALLERS LEAVES, under any oracle, after any prefix of the schedule (a prefix is
a schedule) and recovery: every visible address reads, through both readers, exactly one payload offered for it — a
temporary file is renamed only by the caller that created it (`O_EXCL`) and only when it holds the whole payload; the
address of a caller that returned success is visible; objects of addresses nobody writes read the same; no visible
address disappears -/
theorem generic_writers_safe {P} (cfg : Cfg) (hc : cfg.Fixed) (o : Oracle) (sched : List Nat) (k : K) (ws : List GW)
    (hk : KInv P k.inodes k.dir) (hw : ∀ w ∈ ws, w.ph = .atOpen 0 ∧ IdOK w.a ∧ ValidData w.d ∧ P w.a w.d)
    (dec : Bytes → Option Bytes) :
    (∀ a, «exists» (cleanUpTmp (recover (gsched o k ws sched).1)) a = true →
      ∃ d, P a d ∧ get dec (cleanUpTmp (recover (gsched o k ws sched).1)) a = decompress dec d ∧
        getStream cfg dec (cleanUpTmp (recover (gsched o k ws sched).1)) a = decompress dec d) ∧
    (∀ (n : Nat) (w : GW), (gsched o k ws sched).2[n]? = some w → w.ph = .done true →
      «exists» (cleanUpTmp (recover (gsched o k ws sched).1)) w.a = true) ∧
    (∀ x e, (∀ w ∈ ws, w.a ≠ x) → ReadsK k.inodes k.dir x e →
      ReadsK (cleanUpTmp (recover (gsched o k ws sched).1)).inodes (cleanUpTmp (recover (gsched o k ws sched).1)).dir x e) ∧
    (∀ x, «exists» k x = true → «exists» (cleanUpTmp (recover (gsched o k ws sched).1)) x = true) ∧
    (∀ (m : Nat) (v : GW), (gsched o k ws sched).2[m]? = some v → ∃ v0 : GW, ws[m]? = some v0 ∧ v0.a = v.a) := by
  obtain ⟨gi, gf, gm, gn⟩ := gsched_inv (P := P) o sched (k, ws) (ginv_init k ws hk hw)
  refine ⟨?_, ?_, ?_, ?_, gn⟩
  · intro a hvis
    have hs' : SInv P (cleanUpTmp (recover (gsched o k ws sched).1)) := ⟨gi.kinv, fun _ h => (by cases h), rfl, rfl⟩
    exact visible_is_exact cfg hc _ hs' dec a hvis
  · intro n w hw' hph
    exact gi.acked n w hw' hph
  · intro x e hx hr
    exact gf x e (fun n w h => hx w (List.mem_of_getElem? h)) hr
  · intro x hx
    exact gm x hx

/-- TWO CALLERS PUTTING ONE ADDRESS (a client's put racing with the replicator's): whatever the interleaving and wherever
the process stops, the address is either not there yet or reads exactly one of the two stored forms, complete; once one
of them has returned success it is there -/
theorem two_writers_one_address (cfg : Cfg) (hc : cfg.Fixed) (o : Oracle) (sched : List Nat) (a : Nat) (d1 d2 : Bytes)
    (ha : IdOK a) (h1 : ValidData d1) (h2 : ValidData d2) (dec : Bytes → Option Bytes) :
    («exists» (cleanUpTmp (recover (gsched o {} [{ a := a, d := d1 }, { a := a, d := d2 }] sched).1)) a = true →
      get dec (cleanUpTmp (recover (gsched o {} [{ a := a, d := d1 }, { a := a, d := d2 }] sched).1)) a = decompress dec d1 ∨
      get dec (cleanUpTmp (recover (gsched o {} [{ a := a, d := d1 }, { a := a, d := d2 }] sched).1)) a = decompress dec d2) ∧
    (∀ (n : Nat) (w : GW), (gsched o {} [{ a := a, d := d1 }, { a := a, d := d2 }] sched).2[n]? = some w → w.ph = .done true →
      «exists» (cleanUpTmp (recover (gsched o {} [{ a := a, d := d1 }, { a := a, d := d2 }] sched).1)) a = true) := by
  have hw : ∀ w ∈ [({ a := a, d := d1 } : GW), { a := a, d := d2 }],
      w.ph = .atOpen 0 ∧ IdOK w.a ∧ ValidData w.d ∧ (fun x e => x = a ∧ (e = d1 ∨ e = d2)) w.a w.d := by
    intro w hw
    simp at hw
    rcases hw with rfl | rfl
    · exact ⟨rfl, ha, h1, rfl, Or.inl rfl⟩
    · exact ⟨rfl, ha, h2, rfl, Or.inr rfl⟩
  obtain ⟨g1, g2, _, _, g5⟩ := generic_writers_safe (P := fun x e => x = a ∧ (e = d1 ∨ e = d2)) cfg hc o sched {}
    [{ a := a, d := d1 }, { a := a, d := d2 }] (fun _ _ h => (by cases h)) hw dec
  refine ⟨?_, ?_⟩
  · intro hvis
    obtain ⟨d, ⟨_, hd⟩, hg, _⟩ := g1 a hvis
    rcases hd with rfl | rfl
    · exact Or.inl hg
    · exact Or.inr hg
  · intro n w hw' hph
    obtain ⟨v0, hv0, hav⟩ := g5 n w hw'
    have hv0a : v0.a = a := by
      have := List.mem_of_getElem? hv0
      simp at this
      rcases this with rfl | rfl <;> rfl
    have := g2 n w hw' hph
    rw [← hav, hv0a] at this
    exact this

/-- THE PORTABLE WRITER REPLACES, IT NEVER TAKES AWAY: a `Put` (of any address, also one that is stored already) under any
oracle — so killed at any of its system calls — keeps every name pointing to a complete offered payload of its address and
leaves every visible address visible -/
theorem generic_put_keeps_visible {P} (cfg : Cfg) (hg : cfg.generic = true) (o : Oracle) (k : K) (a : Nat) (d : Bytes)
    (hk : KInv P k.inodes k.dir) (ha : IdOK a) (hd : ValidData d) (hp : P a d) :
    KInv P (put cfg o k a d).1.inodes (put cfg o k a d).1.dir ∧
    (∀ x, (k.dir.lookup x).isSome → ((put cfg o k a d).1.dir.lookup x).isSome) ∧
    (∀ x e, x ≠ a → ReadsK k.inodes k.dir x e → ReadsK (put cfg o k a d).1.inodes (put cfg o k a d).1.dir x e) := by
  have hm := (put_generic_is_machine cfg hg o k a d hd.1.1).1
  have hs := gsched_single o a d 12 k (.atOpen 0)
  obtain ⟨gi, gf, gmono, _⟩ := gsched_inv (P := P) o (List.replicate 12 0) (k, [{ a := a, d := d }])
    (ginv_init k _ hk (fun w hw => by simp at hw; subst hw; exact ⟨rfl, ha, hd, hp⟩))
  simp only [gsched] at hs
  rw [hs] at gi gf gmono
  rw [hm]
  refine ⟨gi.kinv, gmono, ?_⟩
  intro x e hx hr
  apply gf x e _ hr
  intro n w hw
  cases n with
  | zero => simp at hw; subst hw; exact fun h => hx h.symm
  | succ n => simp at hw

/-- non-vacuity, the interleaving of the writer's own comment: caller 0 opens `p#0` and writes, caller 1 finds `p#0`
taken (`EEXIST`), caller 0 closes and renames and returns success, the process stops: the object reads caller 0's bytes -/
example :
    let r := gsched noFault {} [{ a := 1, d := [5, 6] }, { a := 1, d := [5, 6] }] [0, 0, 1, 0, 0]
    get (fun _ => none) (cleanUpTmp (recover r.1)) 1 = .ok [5, 6] ∧
    r.2.map (·.ph) = [.done true, .atOpen 1] := by
  constructor <;> rfl

/-- and both callers running to their ends in any order leave the object -/
example :
    let r := gsched noFault {} [{ a := 1, d := [5, 6] }, { a := 1, d := [5, 6] }] ([1, 0, 0, 1, 1] ++ gfinishSched 2)
    get (fun _ => none) (cleanUpTmp (recover r.1)) 1 = .ok [5, 6] ∧ r.2.map (·.ph) = [.done true, .done true] := by
  constructor <;> rfl

/-- non-vacuity for the call sequences: an object is put, put again and the process is killed at the second call's
`linkat` (call 6: open, writev, linkat, close | open, writev, linkat): the object is still there -/
example :
    let k := cleanUpTmp (recover (runApi {} (crashAt 6 0) {} [Api.put 1 [5, 6], Api.put 1 [5, 6]]))
    get (fun _ => none) k 1 = .ok [5, 6] := by
  rfl

/-- LEFTOVER TEMPORARY FILES NEVER SHOW UP: no reader looks at the `p#i` names, and `CleanUpTmp` changes no read -/
theorem tmp_invisible (dec : Bytes → Option Bytes) (cfg : Cfg) (k : K) (t : List ((Nat × Nat) × Nat)) (a : Nat) :
    get dec { k with tmps := t } a = get dec k a ∧ getStream cfg dec { k with tmps := t } a = getStream cfg dec k a ∧
    iterate dec { k with tmps := t } = iterate dec k ∧ «exists» { k with tmps := t } a = «exists» k a :=
  ⟨rfl, rfl, rfl, rfl⟩

/-- a crash inside a delete: the name is either still there with its bytes or gone -/
theorem delete_crash_atomic (o : Oracle) (k : K) (a : Nat) :
    (delete o k a).1.dir = k.dir ∨ (delete o k a).1.dir = eraseKey a k.dir := by
  unfold delete
  cases k.dir.lookup a with
  | none => exact Or.inl rfl
  | some i =>
    simp only
    unfold sysUnlink
    split
    · exact Or.inl rfl
    · exact Or.inl rfl
    · exact Or.inr rfl

/-- non-vacuity: stopping a two-member batch right after the first `linkat` (call 3: open, writev, linkat) leaves
exactly the first member readable, with its bytes -/
example :
    let k := cleanUpTmp (recover (runEv {} (crashAt 3 0) {} [Ev.batch [(1, [5, 6]), (2, [7])]]))
    get (fun _ => none) k 1 = .ok [5, 6] ∧ get (fun _ => none) k 2 = .error .notFound := by
  constructor <;> rfl

/-- and stopping inside the second `writev` after 20 bytes leaves a torn record behind the first member: still invisible -/
example :
    let k := cleanUpTmp (recover (runEv {} (crashAt 3 20) {} [Ev.batch [(1, [5, 6]), (2, [7])]]))
    get (fun _ => none) k 1 = .ok [5, 6] ∧ get (fun _ => none) k 2 = .error .notFound ∧
    (k.inodes.getD 0 []).length = 40 + 20 := by
  refine ⟨?_, ?_, ?_⟩ <;> rfl

end NeoFS.FSTree
