import NeoFS.Props.C13
/-!
# C12 — a crash during a blob write never exposes partial or wrong object bytes

Process-crash model (no power loss): the oracle value `Fault.crash p` at system call `n` stops the process there
(a write being executed may have appended a prefix of `p` bytes); every later call of the run is a no-op on the
kernel state (`crash_freezes_*`).  Recovery (`recover`) drops the process state — open descriptors, the batch in
memory, locks — and keeps names and inodes; unnamed (O_TMPFILE) inodes are unreachable; `CleanUpTmp` removes the
portable writer's `p#i` names, which no reader ever looks at.  Since the theorems of C13 hold for EVERY oracle,
they hold for every crash point of every schedule.
-/
namespace NeoFS.FSTree

/-- the oracle "stop at system call `n`" -/
def crashAt (n p : Nat) : Oracle := fun i => if i = n then some (.crash p) else none

/-- the kernel part of the state is unchanged and the process stays stopped -/
def Frozen (k k' : K) : Prop := k'.inodes = k.inodes ∧ k'.dir = k.dir ∧ k'.tmps = k.tmps ∧ k'.crashed = true

theorem Frozen.trans {a b c : K} (h1 : Frozen a b) (h2 : Frozen b c) : Frozen a c :=
  ⟨by rw [h2.1, h1.1], by rw [h2.2.1, h1.2.1], by rw [h2.2.2.1, h1.2.2.1], h2.2.2.2⟩

theorem faultAt_crashed {o : Oracle} {k : K} (h : k.crashed = true) : faultAt o k = some (.crash 0) := by
  unfold faultAt; rw [h]; rfl

theorem crash_freezes_open (o : Oracle) (k : K) (h : k.crashed = true) : Frozen k (sysOpen o k).1 ∧ (sysOpen o k).2 = none := by
  unfold sysOpen; rw [faultAt_crashed h]; exact ⟨⟨rfl, rfl, rfl, rfl⟩, rfl⟩

theorem crash_freezes_write (o : Oracle) (k : K) (i : Nat) (b : Bytes) (h : k.crashed = true) :
    Frozen k (sysWrite o k i b).1 ∧ (sysWrite o k i b).2 = false := by
  unfold sysWrite; rw [faultAt_crashed h]; simp only [h, if_true]; exact ⟨⟨rfl, rfl, rfl, h⟩, (by first | trivial | rfl)⟩

theorem crash_freezes_link (o : Oracle) (k : K) (i a : Nat) (h : k.crashed = true) :
    Frozen k (sysLink o k i a).1 ∧ (sysLink o k i a).2 = .err := by
  unfold sysLink; rw [faultAt_crashed h]; exact ⟨⟨rfl, rfl, rfl, rfl⟩, rfl⟩

theorem crash_freezes_sync (o : Oracle) (k : K) (h : k.crashed = true) : Frozen k (sysSync o k).1 ∧ (sysSync o k).2 = false := by
  unfold sysSync; rw [faultAt_crashed h]; exact ⟨⟨rfl, rfl, rfl, rfl⟩, rfl⟩

theorem crash_freezes_unlink (o : Oracle) (k : K) (a : Nat) (h : k.crashed = true) : Frozen k (sysUnlink o k a).1 := by
  unfold sysUnlink; rw [faultAt_crashed h]; exact ⟨rfl, rfl, rfl, rfl⟩

theorem crash_freezes_intSync (cfg : Cfg) (o : Oracle) (k : K) (b : Batch) (h : k.crashed = true) :
    Frozen k (intSync cfg o k b).1 := by
  unfold intSync
  simp only
  split
  · have s1 := crash_freezes_sync o k h
    have s2 := crash_freezes_sync o (sysSync o k).1 s1.1.2.2.2
    exact ⟨by simp only [s2.1.1, s1.1.1], by simp only [s2.1.2.1, s1.1.2.1], by simp only [s2.1.2.2.1, s1.1.2.2.1], s2.1.2.2.2⟩
  · have s2 := crash_freezes_sync o k h
    exact ⟨s2.1.1, s2.1.2.1, s2.1.2.2.1, s2.1.2.2.2⟩

/-- after the stop point the rest of `syncBatch.write` does nothing to names and bytes -/
theorem crash_freezes_sbWrite (cfg : Cfg) (o : Oracle) (k : K) (b : Batch) (a : Nat) (d : Bytes) (h : k.crashed = true) :
    Frozen k (sbWrite cfg o k b a d).1 ∧ (sbWrite cfg o k b a d).2.2 = false := by
  unfold sbWrite
  simp only
  have w := crash_freezes_write o k b.ino (record a d) h
  simp only [w.2, Bool.not_false, if_true]
  exact ⟨w.1.trans (crash_freezes_intSync cfg o _ _ w.1.2.2.2), trivial⟩

theorem crash_freezes_writeFile (o : Oracle) (k : K) (a : Nat) (d : Bytes) (h : k.crashed = true) :
    Frozen k (writeFile o k a d).1 := by
  unfold writeFile
  simp only
  have r := crash_freezes_open o k h
  rw [r.2]
  exact r.1

/-- every crash point of every schedule: what is visible after recovery and `CleanUpTmp` is, through both readers,
exactly one payload offered for that address — never partial, never foreign bytes -/
theorem crash_safe (cfg : Cfg) (hc : cfg.Fixed) (hg : cfg.generic = false) (o : Oracle) (evs : List Ev)
    (hv : ∀ ev ∈ evs, ValidEv ev) (dec : Bytes → Option Bytes) (a : Nat)
    (hvis : «exists» (cleanUpTmp (recover (runEv cfg o {} evs))) a = true) :
    ∃ d, Offered evs a d ∧
      get dec (cleanUpTmp (recover (runEv cfg o {} evs))) a = decompress dec d ∧
      getStream cfg dec (cleanUpTmp (recover (runEv cfg o {} evs))) a = decompress dec d := by
  have hs := faults_fail_cleanly cfg hc hg o evs hv
  have hs' : SInv (Offered evs) (cleanUpTmp (recover (runEv cfg o {} evs))) :=
    ⟨hs.kinv, fun _ h => (by cases h), rfl, rfl⟩
  exact visible_is_exact cfg hc _ hs' dec a hvis

/-- in particular for the oracle that stops the process at call `n` (after `p` bytes of a write in progress) -/
theorem crash_safe_at (cfg : Cfg) (hc : cfg.Fixed) (hg : cfg.generic = false) (n p : Nat) (evs : List Ev)
    (hv : ∀ ev ∈ evs, ValidEv ev) (dec : Bytes → Option Bytes) (a : Nat)
    (hvis : «exists» (cleanUpTmp (recover (runEv cfg (crashAt n p) {} evs))) a = true) :
    ∃ d, Offered evs a d ∧ get dec (cleanUpTmp (recover (runEv cfg (crashAt n p) {} evs))) a = decompress dec d :=
  let ⟨d, h1, h2, _⟩ := crash_safe cfg hc hg (crashAt n p) evs hv dec a hvis
  ⟨d, h1, h2⟩

/-- ACKNOWLEDGED WRITES SURVIVE: what was readable before stays readable with identical bytes through any further
schedule under any oracle (so through any crash point of a later write) and through recovery, unless that very address is deleted -/
theorem acked_survive {P} (cfg : Cfg) (hc : cfg.Fixed) (hg : cfg.generic = false) (o : Oracle) (evs : List Ev) :
    ∀ (k : K), (∀ ev ∈ evs, ValidEv ev) → (∀ ev ∈ evs, ∀ a d, Offers ev a d → P a d) → SInv P k →
    ∀ (x : Nat) (e : Bytes), (∀ ev ∈ evs, ev ≠ .del x) → ReadsK k.inodes k.dir x e →
    ReadsK (cleanUpTmp (recover (runEv cfg o k evs))).inodes (cleanUpTmp (recover (runEv cfg o k evs))).dir x e := by
  induction evs with
  | nil => intro k _ _ _ x e _ h; exact h
  | cons ev rest ih =>
    intro k hv hp hs x e hx h
    have st := step_safe (P := P) cfg hc hg o k ev (hv ev (by simp)) (hp ev (by simp)) hs
    exact ih _ (fun e' he => hv e' (by simp [he])) (fun e' he => hp e' (by simp [he])) st.1 x e
      (fun e' he => hx e' (by simp [he]))
      (st.2.2 x e (fun a ha => fun hxa => hx ev (by simp) (by rw [ha, hxa])) h)

/-- LEFTOVER TEMPORARY FILES NEVER SHOW UP: no reader looks at the `p#i` names, and `CleanUpTmp` changes no read -/
theorem tmp_invisible (dec : Bytes → Option Bytes) (cfg : Cfg) (k : K) (t : List ((Nat × Nat) × Nat)) (a : Nat) :
    get dec { k with tmps := t } a = get dec k a ∧ getStream cfg dec { k with tmps := t } a = getStream cfg dec k a ∧
    iterate dec { k with tmps := t } = iterate dec k ∧ «exists» { k with tmps := t } a = «exists» k a :=
  ⟨rfl, rfl, rfl, rfl⟩

/-- a crash inside a delete: the name is either still there with its bytes or gone -/
theorem delete_crash_atomic (o : Oracle) (k : K) (a : Nat) :
    (delete o k a).1.dir = k.dir ∨ (delete o k a).1.dir = eraseKey a k.dir := by
  unfold delete
  cases k.dir.lookup a with
  | none => exact Or.inl rfl
  | some i =>
    simp only
    unfold sysUnlink
    split
    · exact Or.inl rfl
    · exact Or.inl rfl
    · exact Or.inr rfl

/-- non-vacuity: stopping a two-member batch right after the first `linkat` (call 3: open, writev, linkat) leaves
exactly the first member readable, with its bytes -/
example :
    let k := cleanUpTmp (recover (runEv {} (crashAt 3 0) {} [Ev.batch [(1, [5, 6]), (2, [7])]]))
    get (fun _ => none) k 1 = .ok [5, 6] ∧ get (fun _ => none) k 2 = .error .notFound := by
  constructor <;> rfl

/-- and stopping inside the second `writev` after 20 bytes leaves a torn record behind the first member: still invisible -/
example :
    let k := cleanUpTmp (recover (runEv {} (crashAt 3 20) {} [Ev.batch [(1, [5, 6]), (2, [7])]]))
    get (fun _ => none) k 1 = .ok [5, 6] ∧ get (fun _ => none) k 2 = .error .notFound ∧
    (k.inodes.getD 0 []).length = 40 + 20 := by
  refine ⟨?_, ?_, ?_⟩ <;> rfl

end NeoFS.FSTree
