import NeoFS.Model.GC
import NeoFS.Lemmas.MetaWF
/-!
# C44 — garbage collection eventually removes everything that should be removed

What is proved about the model of `removeGarbage` (`Model/GC.lean`, built on the metabase model):

* `deleteMetadata` never adds anything: the bucket's records and garbage marks after it are sub-lists of the ones
  before (`deleteMetadata_shrinks`), for every id, every bucket, every recursion depth;
* deleting an id that is absent or stored physically removes its record and its garbage mark
  (`deleteMetadata_removes`), hence strictly decreases the bucket measure `|records| + |marks|` whenever the id was
  indexed or marked (`deleteMetadata_progress`);
* therefore a batch delete over any id list (`Shard.deleteObjs` → `DB.Delete`) never grows the bucket and shrinks
  it as soon as ONE listed id is absent-or-physical and was indexed or marked (`deleteAll_progress`): as long as
  the batch `GetGarbage` hands over contains such an id, the pass makes progress, and the measure bounds the
  number of such passes.

The full liveness statement is FALSE for the current code: a garbage mark on a *virtual* (non-physical) parent
whose children carry no mark is never removed — `deleteMetadata` answers `errNonPhy` before it looks at the
mark — and with a remover batch of 1 it is returned by `GetGarbage` on every pass, so every later mark starves
(`C44_counterexample`, replayed on the real shard by the check; known finding `C44-virtual-parent-mark`).
-/
namespace NeoFS.GC
open NeoFS.Meta

/-- size of a bucket's index: records and removal marks -/
def size (c : Cnr) : Nat := c.recs.length + c.garb.length

/-- `c'` holds nothing that `c` did not hold -/
structure Shrinks (c' c : Cnr) : Prop where
  recs : c'.recs.Sublist c.recs
  garb : c'.garb.Sublist c.garb

theorem Shrinks.refl (c : Cnr) : Shrinks c c := ⟨List.Sublist.refl _, List.Sublist.refl _⟩

theorem Shrinks.trans {a b c : Cnr} (h1 : Shrinks a b) (h2 : Shrinks b c) : Shrinks a c :=
  ⟨h1.recs.trans h2.recs, h1.garb.trans h2.garb⟩

theorem Shrinks.size_le {a b : Cnr} (h : Shrinks a b) : size a ≤ size b := by
  unfold size; have := h.recs.length_le; have := h.garb.length_le; omega

theorem dropId_shrinks (c : Cnr) (id : Nat) : Shrinks (c.dropId id) c :=
  ⟨List.filter_sublist, List.filter_sublist⟩

/-- **`deleteMetadata` never adds a record or a mark.** -/
theorem deleteMetadata_shrinks : ∀ (fuel : Nat) (c : Cnr) (id : Nat) (isParent : Bool),
    Shrinks (c.deleteMetadata fuel id isParent).1 c := by
  intro fuel
  induction fuel with
  | zero => intro c id p; simp only [Cnr.deleteMetadata]; exact Shrinks.refl c
  | succ fuel ih =>
    intro c id isParent
    simp only [Cnr.deleteMetadata]
    split
    · split
      · exact ⟨List.Sublist.refl _, List.filter_sublist⟩
      · exact Shrinks.refl c
    · rename_i r _
      split
      · exact Shrinks.refl c
      · simp only
        split
        · exact (ih (c.dropId id) r.parentId true).trans (dropId_shrinks c id)
        · exact dropId_shrinks c id

def indexed (c : Cnr) (id : Nat) : Bool := (c.recs.any (·.id == id)) || (c.garb.any (·.1 == id))

/-- the id can be deleted directly: it is not a stored virtual (non-physical) object -/
def deletable (c : Cnr) (id : Nat) : Bool :=
  match c.find? id with
  | none => true
  | some r => r.phy

theorem not_indexed_of_shrinks {a b : Cnr} (h : Shrinks a b) (id : Nat) (hb : indexed b id = false) : indexed a id = false := by
  unfold indexed at *
  simp only [Bool.or_eq_false_iff, List.any_eq_false] at *
  exact ⟨fun r hr => hb.1 r (h.recs.subset hr), fun g hg => hb.2 g (h.garb.subset hg)⟩

theorem dropId_not_indexed (c : Cnr) (id : Nat) : indexed (c.dropId id) id = false := by
  unfold indexed Cnr.dropId
  simp only [Bool.or_eq_false_iff, List.any_eq_false]
  constructor
  · intro r hr; rw [List.mem_filter] at hr; simpa using hr.2
  · intro g hg; rw [List.mem_filter] at hg; simpa using hg.2

/-- **Deleting an absent or physical id removes its record and its mark.** -/
theorem deleteMetadata_removes (fuel : Nat) (c : Cnr) (id : Nat) (hd : deletable c id = true) :
    indexed (c.deleteMetadata (fuel + 1) id false).1 id = false := by
  simp only [Cnr.deleteMetadata]
  unfold deletable at hd
  split
  · rename_i hnone
    split
    · -- only the mark existed
      unfold indexed
      simp only [Bool.or_eq_false_iff, List.any_eq_false]
      constructor
      · intro r hr
        unfold Cnr.find? at hnone
        rw [List.find?_eq_none] at hnone
        simpa using hnone r hr
      · intro g hg; rw [List.mem_filter] at hg; simpa using hg.2
    · rename_i hg
      unfold indexed
      simp only [Bool.or_eq_false_iff, List.any_eq_false]
      constructor
      · intro r hr
        unfold Cnr.find? at hnone
        rw [List.find?_eq_none] at hnone
        simpa using hnone r hr
      · intro g hgm
        simp only [Option.isSome_iff_ne_none, ne_eq, Decidable.not_not] at hg
        rw [List.find?_eq_none] at hg
        simpa using hg g hgm
  · rename_i r hsome
    rw [hsome] at hd
    simp only at hd
    have : (!false && !r.phy) = false := by simp [hd]
    simp only [this, Bool.false_eq_true, if_false]
    split
    · exact not_indexed_of_shrinks (deleteMetadata_shrinks fuel (c.dropId id) r.parentId true) id (dropId_not_indexed c id)
    · exact dropId_not_indexed c id

theorem size_lt_of_removed {a b : Cnr} (h : Shrinks a b) (id : Nat) (hb : indexed b id = true) (ha : indexed a id = false) :
    size a < size b := by
  have hle := h.size_le
  rcases Nat.lt_or_ge (size a) (size b) with hlt | hge
  · exact hlt
  · exfalso
    unfold size at hge
    have h1 := h.recs.length_le
    have h2 := h.garb.length_le
    have e1 : a.recs = b.recs := h.recs.eq_of_length_le (by omega)
    have e2 : a.garb = b.garb := h.garb.eq_of_length_le (by omega)
    unfold indexed at ha hb
    rw [e1, e2, hb] at ha
    exact Bool.noConfusion ha

/-- **Progress of one delete.** -/
theorem deleteMetadata_progress (fuel : Nat) (c : Cnr) (id : Nat) (hd : deletable c id = true) (hi : indexed c id = true) :
    size (c.deleteMetadata (fuel + 1) id false).1 < size c :=
  size_lt_of_removed (deleteMetadata_shrinks _ c id false) id hi (deleteMetadata_removes fuel c id hd)

/-- the bucket after `DB.Delete`'s loop over the ids -/
def deleteAll (c : Cnr) (ids : List Nat) : Cnr := ids.foldl (fun cur id => (cur.deleteMetadata 4 id false).1) c

theorem deleteAll_shrinks : ∀ (ids : List Nat) (c : Cnr), Shrinks (deleteAll c ids) c := by
  intro ids
  induction ids with
  | nil => intro c; exact Shrinks.refl c
  | cons id rest ih =>
    intro c
    unfold deleteAll
    simp only [List.foldl_cons]
    exact (ih _).trans (deleteMetadata_shrinks 4 c id false)

/-- the loop of `DB.Delete` (bucket component of the fold over (bucket, diff)) is `deleteAll` -/
theorem dbDelete_bucket (c : Cnr) (ids : List Nat) :
    (ids.foldl (fun (acc : Cnr × Diff) id =>
      let (cur, dsum) := acc
      let (cur', d, _) := cur.deleteMetadata 4 id false
      (cur', dsum.add d)) (c, {})).1 = deleteAll c ids := by
  suffices H : ∀ (ids : List Nat) (c : Cnr) (d0 : Diff),
      (ids.foldl (fun (acc : Cnr × Diff) id =>
        let (cur, dsum) := acc
        let (cur', d, _) := cur.deleteMetadata 4 id false
        (cur', dsum.add d)) (c, d0)).1 = deleteAll c ids from H ids c {}
  intro ids
  induction ids with
  | nil => intro c d0; rfl
  | cons id rest ih =>
    intro c d0
    unfold deleteAll
    simp only [List.foldl_cons]
    exact ih _ _

/-- **Progress of a batch**: the bucket never grows, and it shrinks strictly as soon as one id of the batch is
absent-or-physical at its turn and was indexed or marked. Stated for the first such id at the head of the batch
(`GetGarbage` returns ids in key order; earlier ids only shrink the bucket further). -/
theorem deleteAll_progress (c : Cnr) (id : Nat) (rest : List Nat) (hd : deletable c id = true) (hi : indexed c id = true) :
    size (deleteAll c (id :: rest)) < size c := by
  unfold deleteAll
  simp only [List.foldl_cons]
  have h1 : size (c.deleteMetadata 4 id false).1 < size c := deleteMetadata_progress 3 c id hd hi
  have h2 := (deleteAll_shrinks rest (c.deleteMetadata 4 id false).1).size_le
  unfold deleteAll at h2
  omega

theorem deleteAll_never_grows (c : Cnr) (ids : List Nat) : size (deleteAll c ids) ≤ size c :=
  (deleteAll_shrinks ids c).size_le

/-! ### the full statement and why it fails -/

/-- nothing is left to collect in the metadata: no removal mark, no container marked for removal -/
def clean (s : St) : Bool := s.db.all fun b => b.2.garb.isEmpty && !b.2.gcMark

/-- the liveness the property states (restricted here to the garbage phase): after any history, some number
of passes with any batch size ≥ 1 leaves no removal mark behind -/
def passes (batch : Nat) : Nat → St → St
  | 0, s => s
  | n + 1, s => gcPass batch (passes batch n s)

def C44_full : Prop :=
  ∀ (ops : List Op) (batch : Nat), 0 < batch → ∃ n, clean (passes batch n { db := (run ops).db }) = true

def vparent : Hdr := { id := 9, typ := .regular, size := 40 }
def child : Hdr := { id := 5, typ := .regular, size := 7, parentId := 9, firstId := 1 }

/-- the stuck history: a removal mark is written for id 9 before anything is stored under it, then a child
carrying 9's header arrives (9 becomes a virtual object); with batch 1 every pass is handed `[9]` and
`deleteMetadata` leaves a stored non-physical object alone — mark included -/
def other : Hdr := { id := 2, typ := .regular, size := 3 }
def stuckOps : List Op := [.put 1 [other], .mark 1 [9] false, .put 1 [child, vparent]]

theorem stuck_is_fixpoint :
    let s : St := { db := (run stuckOps).db }
    (gcPass 1 s).db = s.db ∧ clean s = false := by decide

theorem C44_counterexample : ¬ C44_full := by
  intro h
  obtain ⟨n, hn⟩ := h stuckOps 1 (by decide)
  have hfix : ∀ n, passes 1 n { db := (run stuckOps).db } = { db := (run stuckOps).db } := by
    intro n
    induction n with
    | zero => rfl
    | succ k ih => simp only [passes]; rw [ih]; decide
  rw [hfix n] at hn
  revert hn
  decide

/-- non-vacuity of the progress theorem: a tombstoned, marked physical object is deletable and indexed -/
example :
    let c : Cnr := { recs := [⟨3, .regular, true, true, 5, 0, 0, 0, 0, none, none⟩], garb := [(3, false)] }
    deletable c 3 = true ∧ indexed c 3 = true ∧ size (deleteAll c [3]) = 0 := by decide

end NeoFS.GC
