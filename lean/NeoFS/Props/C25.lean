import NeoFS.Lemmas.PutCap
/-!
# C25 — a successful PUT means the storage policy's copies were acknowledged

Theorems over `Model/Put.lean` for every placement (any number of rules, any node lists that are
duplicate-free inside one list but may share nodes between lists and contain the local node anywhere),
every answer oracle, every order in which the parallel sends of a group complete and every interleaving of
the EC part threads.
-/
namespace NeoFS.Put

theorem getD_nodup (lists : List (List Node)) (h : ∀ l ∈ lists, l.Nodup) (i : Nat) : (lists.getD i []).Nodup := by
  rw [List.getD_eq_getElem?_getD]
  cases hi : lists[i]? with
  | none => simp
  | some l => simp only [Option.getD_some]; exact h l (List.mem_of_getElem? hi)

theorem effRep_length (r : Req) : (effRep r).length = r.rep.length := by
  unfold effRep; split_ifs <;> simp

theorem ruleOrderOf_uncapped (r : Req) (hM : maxRep r = 0) :
    ruleOrderOf r = List.range (r.rep.length + (effEc r).length) := by
  unfold ruleOrderOf maxRep at *
  cases hi : r.ini with
  | none => simp
  | some ini =>
    rw [hi] at hM
    simp only at hM
    simp [hM]

/-- **Regular object, no total cap** (no initial policy, or an initial policy with replica limits only).
If `saveObject` reports success then every acknowledgement in the log is a real one, every REP rule has at
least its required number (the limit under an initial policy) of distinct acknowledging nodes of its own
list, and every EC rule in force has every part acknowledged by a node of its list, different parts by
different nodes. -/
theorem put_ok_implies_acks (ans : Obj → Node → Bool) (sched : List Node → List Node) (picks : Nat → List Nat)
    (hs : ∀ l, (sched l).Perm l) (r : Req) (s : LS)
    (hreg : r.typ = 0) (hpart : r.ecPart = none) (hM : maxRep r = 0) (hnd : ∀ l ∈ r.lists, l.Nodup)
    (h : saveObject ans sched picks r = (s, .ok)) :
    (∀ n ∈ s.g.acks, ans .main n = true) ∧
    (∀ i < r.rep.length, (effRep r).getD i 0 ≤ ackCount s.g.acks (r.lists.getD i [])) ∧
    (∀ j < (effEc r).length, ecDisabled (effEcLimits r) j = false →
      ECPlaced ans s.g.ecAcks j (((effEc r).getD j (0, 0)).1 + ((effEc r).getD j (0, 0)).2)
        (r.lists.getD (r.rep.length + j) [])) := by
  unfold saveObject at h
  simp only [hreg, ne_eq, not_true_eq_false, if_false, hpart] at h
  split_ifs at h with h1 h2
  · simp at h
  · simp at h
  · generalize hl : ruleLoop (envOf ans sched picks r) (ruleOrderOf r) { g := {}, left := maxRep r } = out at h
    obtain ⟨s1, o⟩ := out
    simp only [Prod.mk.injEq] at h
    obtain ⟨rfl, ho⟩ := h
    have hnone : o = none := by
      cases o with
      | none => rfl
      | some x =>
        simp only [Option.getD_some] at ho
        subst ho
        exact absurd hl (ruleLoop_ne_ok _ _ _ _)
    subst hnone
    rw [ruleOrderOf_uncapped r hM] at hl
    have hM' : (envOf ans sched picks r).maxReplicas = 0 := hM
    obtain ⟨q1, _, _, q4, q5⟩ := ruleLoop_sound0 (envOf ans sched picks r) hM' hs _ _ _ (Inv.init _)
      (fun i _ => getD_nodup r.lists hnd i) hl
    have hlen : (envOf ans sched picks r).rep.length = r.rep.length := effRep_length r
    refine ⟨q1.acked_good, ?_, ?_⟩
    · intro i hi
      exact q4 i (by simp; omega) (by rw [hlen]; exact hi)
    · intro j hj hen
      have := q5 (r.rep.length + j) (by simp; omega) (by rw [hlen]; omega)
      rw [hlen] at this
      simp only [Nat.add_sub_cancel_left] at this
      exact this hen

/-- The same without an initial policy, in the container policy's own numbers. -/
theorem put_ok_implies_policy_copies (ans : Obj → Node → Bool) (sched : List Node → List Node) (picks : Nat → List Nat)
    (hs : ∀ l, (sched l).Perm l) (r : Req) (s : LS)
    (hreg : r.typ = 0) (hpart : r.ecPart = none) (hini : r.ini = none) (hnd : ∀ l ∈ r.lists, l.Nodup)
    (h : saveObject ans sched picks r = (s, .ok)) :
    (∀ i < r.rep.length, r.rep.getD i 0 ≤ ackCount s.g.acks (r.lists.getD i [])) ∧
    (r.signer = true → ∀ j < r.ec.length,
      ECPlaced ans s.g.ecAcks j ((r.ec.getD j (0, 0)).1 + (r.ec.getD j (0, 0)).2) (r.lists.getD (r.rep.length + j) [])) := by
  have hM : maxRep r = 0 := by simp [maxRep, hini]
  obtain ⟨_, a, b⟩ := put_ok_implies_acks ans sched picks hs r s hreg hpart hM hnd h
  have e1 : effRep r = r.rep := by simp [effRep, effLimits, hini]
  have e2 : effEcLimits r = none := by simp [effEcLimits, effLimits, hini]
  rw [e1] at a
  refine ⟨a, fun hsig j hj => ?_⟩
  have e3 : effEc r = r.ec := by simp [effEc, hsig]
  have := b j (by rw [e3]; exact hj) (by rw [e2]; rfl)
  rw [e3] at this
  exact this

/-- **Failure is reported when the requirement cannot be met**: if some REP rule's list does not contain
enough nodes that would acknowledge, the verdict is not `ok` (whatever the schedule). -/
theorem put_fails_when_impossible (ans : Obj → Node → Bool) (sched : List Node → List Node) (picks : Nat → List Nat)
    (hs : ∀ l, (sched l).Perm l) (r : Req)
    (hreg : r.typ = 0) (hpart : r.ecPart = none) (hM : maxRep r = 0) (hnd : ∀ l ∈ r.lists, l.Nodup)
    (i : Nat) (hi : i < r.rep.length) (hbad : (r.lists.getD i []).countP (ans .main) < (effRep r).getD i 0) :
    (saveObject ans sched picks r).2 ≠ .ok := by
  intro h
  have he : saveObject ans sched picks r = ((saveObject ans sched picks r).1, .ok) := by rw [← h]
  obtain ⟨a, b, _⟩ := put_ok_implies_acks ans sched picks hs r _ hreg hpart hM hnd he
  have := ackCount_le_good (ans .main) _ (r.lists.getD i []) a
  have := b i hi
  omega

/-- **Objects broadcast to the container** (tombstone, lock, link, split parents): success means every REP
list has its copies and every EC list as many copies as the rule has parts, on distinct nodes of the list. -/
theorem broadcast_ok_implies_acks (ans : Obj → Node → Bool) (sched : List Node → List Node) (picks : Nat → List Nat)
    (hs : ∀ l, (sched l).Perm l) (r : Req) (s : LS) (htyp : r.typ ≠ 0) (hnd : ∀ l ∈ r.lists, l.Nodup)
    (h : saveObject ans sched picks r = (s, .ok)) :
    (∀ n ∈ s.g.acks, ans .main n = true) ∧
    ∀ x ∈ (broadcastCounts r).zip r.lists, x.1 ≤ ackCount s.g.acks x.2 := by
  unfold saveObject at h
  simp only [ne_eq, htyp, not_false_eq_true, if_true, Prod.mk.injEq] at h
  obtain ⟨rfl, h2⟩ := h
  have he : iterateNodes (ans .main) sched (broadcastCounts r) r.lists true {} =
      ((iterateNodes (ans .main) sched (broadcastCounts r) r.lists true {}).1, .ok) := by rw [← h2]
  obtain ⟨a, b⟩ := iterateNodes_sound (ans .main) sched hs _ _ true {} _ (Inv.init _)
    (fun x hx => hnd x.2 (List.of_mem_zip hx).2) he
  exact ⟨a.acked_good, b⟩

/-- **A ready EC part**: success means a node of the rule's list acknowledged it, unless the initial policy
switches the rule off (then the part is handed to the post-placement replicator and nothing is claimed). -/
theorem ecpart_ok_implies_ack (ans : Obj → Node → Bool) (sched : List Node → List Node) (picks : Nat → List Nat)
    (r : Req) (s : LS) (rule idx : Nat) (hreg : r.typ = 0) (hpart : r.ecPart = some (rule, idx))
    (hdef : partDeferred r rule = false) (h : saveObject ans sched picks r = (s, .ok)) :
    ∃ n ∈ r.lists.getD (r.rep.length + rule) [], n ∈ s.g.acks ∧ ans .main n = true := by
  unfold saveObject at h
  simp only [hreg, ne_eq, not_true_eq_false, if_false, hpart, hdef, Bool.false_eq_true] at h
  generalize hsq : seqPart (ans .main) (r.lists.getD (r.rep.length + rule) [])
    (EC.nodeSeq idx ((r.ec.getD rule (0, 0)).1 + (r.ec.getD rule (0, 0)).2) (r.lists.getD (r.rep.length + rule) []).length) {} = out at h
  obtain ⟨g1, b⟩ := out
  simp only [Prod.mk.injEq] at h
  obtain ⟨rfl, hb⟩ := h
  cases b with
  | false => simp at hb
  | true =>
    obtain ⟨good, i, hi, hacked⟩ := seqPart_sound _ _ _ _ _ (by simp) hsq
    refine ⟨_, ?_, hacked, good _ hacked⟩
    have htot : 1 ≤ (r.ec.getD rule (0, 0)).1 + (r.ec.getD rule (0, 0)).2 := by
      by_contra hc
      have : (r.ec.getD rule (0, 0)).1 + (r.ec.getD rule (0, 0)).2 = 0 := by omega
      rw [this] at hi
      simp [EC.nodeSeq] at hi
    have hlt := ((EC.nodeSeq_each_once idx _ _ htot).2 i).mp hi
    rw [getD_of_lt _ _ hlt]
    exact List.getElem_mem _

/-- **Regular object under a total cap** (`MaxReplicas > 0`, any `PreferLocal` order). If `saveObject` reports
success: every REP rule's counted copies `st` are at most its limit and at most the number of distinct
acknowledging nodes of its own list; the number of acknowledgements is at most the sum of the counted copies;
counted copies plus applied EC rules never exceed `MaxReplicas`; and they are exactly `MaxReplicas` whenever
the limits of the rules in force add up to it (with EC limits 0/1 — both are what the SDK's policy
verification guarantees). -/
theorem put_ok_capped (ans : Obj → Node → Bool) (sched : List Node → List Node) (picks : Nat → List Nat)
    (hs : ∀ l, (sched l).Perm l) (r : Req) (s : LS)
    (hreg : r.typ = 0) (hpart : r.ecPart = none) (hM : maxRep r > 0) (hnd : ∀ l ∈ r.lists, l.Nodup)
    (h : saveObject ans sched picks r = (s, .ok)) :
    (∀ n ∈ s.g.acks, ans .main n = true) ∧
    (∀ x ∈ s.stored, x.2 ≤ (effRep r).getD x.1 0 ∧ x.2 ≤ ackCount s.g.acks (r.lists.getD x.1 [])) ∧
    s.g.acks.length ≤ sumStored s ∧
    sumStored s + s.applied.length ≤ maxRep r ∧
    ((∀ i ∈ ruleOrderOf r, r.rep.length ≤ i → limitOf (effRep r) (effEcLimits r) i ≤ 1) →
      maxRep r ≤ sumLimits (effRep r) (effEcLimits r) (ruleOrderOf r) →
      sumStored s + s.applied.length = maxRep r) := by
  unfold saveObject at h
  simp only [hreg, ne_eq, not_true_eq_false, if_false, hpart] at h
  split_ifs at h with h1 h2
  · simp at h
  · simp at h
  · generalize hl : ruleLoop (envOf ans sched picks r) (ruleOrderOf r) { g := {}, left := maxRep r } = out at h
    obtain ⟨s1, o⟩ := out
    simp only [Prod.mk.injEq] at h
    obtain ⟨rfl, ho⟩ := h
    have hnone : o = none := by
      cases o with
      | none => rfl
      | some x =>
        simp only [Option.getD_some] at ho
        subst ho
        exact absurd hl (ruleLoop_ne_ok _ _ _ _)
    subst hnone
    have hM' : (envOf ans sched picks r).maxReplicas > 0 := hM
    have hc : CapInv (envOf ans sched picks r) { g := {}, left := maxRep r } :=
      ⟨Inv.init _, by simp [sumStored, envOf], hM, by simp [sumStored], by simp⟩
    obtain ⟨q1, q2⟩ := ruleLoop_cap (envOf ans sched picks r) hM' hs _ _ _ hc
      (fun i _ => getD_nodup r.lists hnd i) hl
    have hlen : (envOf ans sched picks r).rep.length = r.rep.length := effRep_length r
    refine ⟨q1.good, q1.perRule, q1.acksLe, q1.totalLe, fun hlim hsum => q2 ?_ hsum⟩
    intro i hi hle
    rw [hlen] at hle
    exact hlim i hi hle

/-! ### Non-vacuity and the boundary of the hypotheses -/

private def okAll : Obj → Node → Bool := fun _ _ => true
private def failing (bad : List Node) : Obj → Node → Bool := fun _ n => !bad.contains n

/-- **No node holds two parts of a rule, in ANY run** (successful or not): under every interleaving of the part
threads' critical sections and every answer oracle, two acknowledgements of `applyECRule` by one node are
acknowledgements of the same part. This is what the forced interleavings of op `ecrace` check on the real
`ecProgress` (oracles `ec-node-reserved-by-one-part-of-a-rule`, `ec-rule-parts-on-distinct-nodes-of-its-list`). -/
theorem applyEC_node_holds_one_part (f : Nat → Node → Bool) (d p : Nat) (nodes : List Node) (picks : List Nat)
    (hnd : nodes.Nodup) (k k' : Nat) (n : Node)
    (h : (k, n) ∈ (applyEC f d p nodes picks).2) (h' : (k', n) ∈ (applyEC f d p nodes picks).2) : k = k' := by
  unfold applyEC at h h'
  simp only at h h'
  generalize hs : ecRun (fun k i => f k (nodes.getD i 0)) nodes.length d (d + p) picks (ecInit (d + p) nodes.length) = s at h h'
  obtain ⟨inv, _⟩ := ecRun_inv (fun k i => f k (nodes.getD i 0)) nodes.length d (d + p) picks _
    (ecInit_inv _ (d + p) nodes.length)
  rw [hs] at inv
  obtain ⟨⟨a, i⟩, hm, he⟩ := List.mem_map.mp h
  obtain ⟨⟨a', i'⟩, hm', he'⟩ := List.mem_map.mp h'
  simp only [Prod.mk.injEq] at he he'
  obtain ⟨rfl, hn⟩ := he
  obtain ⟨rfl, hn'⟩ := he'
  obtain ⟨ht, _⟩ := inv.acked _ hm
  obtain ⟨ht', _⟩ := inv.acked _ hm'
  have hlt : i < nodes.length := inv.tlt _ ht
  have hlt' : i' < nodes.length := inv.tlt _ ht'
  rw [getD_of_lt _ _ hlt] at hn
  rw [getD_of_lt _ _ hlt'] at hn'
  have : i = i' := (List.Nodup.getElem_inj_iff hnd).mp (hn.trans hn'.symm)
  subst this
  exact fst_unique _ _ _ _ inv.tnodup ht ht'

/-- the contended reserve node: EC 1/1 over three nodes, the first nodes of both parts refuse, both parts go for
node index 2 in lock-step; one part stays homeless and the PUT is not reported as done -/
example : (saveObject (failing [1, 2]) id (fun _ => [0, 1, 0, 1, 0, 1, 1, 0, 1])
    { typ := 0, rep := [], ec := [(1, 1)], lists := [[1, 2, 3]], loc := none, signer := true,
      ecPart := none, ini := none }).2 ≠ .ok := by decide


/-- two overlapping REP lists, node 2 fails: success with acknowledgements 1,3 and 3,4 (3 shared) -/
example : (saveObject (failing [2]) id (fun _ => [])
    { typ := 0, rep := [2, 2], ec := [], lists := [[1, 2, 3], [3, 2, 4]], loc := some 3, signer := true,
      ecPart := none, ini := none }).2 = .ok := by decide

/-- an EC 2/1 rule over four nodes with one failing node succeeds under an interleaved schedule -/
example : (saveObject (failing [2]) id (fun _ => [0, 1, 2, 1, 0, 2, 1, 1, 0])
    { typ := 0, rep := [], ec := [(2, 1)], lists := [[1, 2, 3, 4]], loc := none, signer := true,
      ecPart := none, ini := none }).2 = .ok := by decide

/-- too few good nodes: an explicit incomplete result (one copy was stored) -/
example : (saveObject (failing [2, 3]) id (fun _ => [])
    { typ := 0, rep := [2], ec := [], lists := [[1, 2, 3]], loc := none, signer := false,
      ecPart := none, ini := none }).2 = .incomplete := by decide

/-- an initial policy with MaxReplicas 3 and local preference: list 2 (holding the local node 4) is visited
first; three copies are counted and the PUT succeeds -/
example : (saveObject (failing [1]) id (fun _ => [])
    { typ := 0, rep := [2, 2], ec := [], lists := [[1, 2, 3], [3, 4, 5]], loc := some 4, signer := true,
      ecPart := none, ini := some { limits := [], maxReplicas := 3, preferLocal := true } }).2 = .ok := by decide

/-- The hypothesis "no duplicates inside one list" is necessary: a node listed twice in one list is counted
twice by `handleREPRule` once its first answer is known (placement vectors of the network map never repeat
a node, which is why the hypothesis is harmless). -/
theorem duplicate_in_list_counts_twice :
    let r : Req := { typ := 0, rep := [2], ec := [], lists := [[1, 2, 1]], loc := none, signer := false,
                     ecPart := none, ini := none }
    (saveObject (failing [2]) id (fun _ => []) r).2 = .ok ∧
      (saveObject (failing [2]) id (fun _ => []) r).1.g.acks = [1] := by decide

end NeoFS.Put
