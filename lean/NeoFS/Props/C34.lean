import NeoFS.Model.Notary
/-!
# C34 — the inner ring co-signs only notary transactions whose calls it fully validated

All theorems are over ALL requests (any number of calls, any contracts / methods / argument
shapes, any signer / witness / attribute layout), all environments, all registries of parsers and
all handler validation predicates `hv`.
-/
namespace NeoFS.Notary

theorem same_method {s : CallSpec} {c : Call} (h : s.same c = true) : c.contract = s.contract ∧ c.method = s.method := by
  unfold CallSpec.same at h
  simp only [Bool.and_eq_true, beq_iff_eq] at h
  exact h

theorem matches_same {s : CallSpec} {c : Call} (h : s.matches c = true) : s.same c = true := by
  unfold CallSpec.matches at h
  simp only [Bool.and_eq_true] at h
  exact h.1

/-- Induction over the call list: when the followers matched and were validated, every one of them
is the expected call of some follower spec and was accepted by the validation of its own method. -/
theorem matchRest_validate (hv : Nat → Call → Bool) :
    ∀ (ss : List CallSpec) (cs : List Call), matchRest ss cs = true → validateRest hv ss cs = true →
      ∀ c ∈ cs, (∃ s ∈ ss, s.same c = true) ∧ hv c.method c = true := by
  intro ss
  induction ss with
  | nil =>
    intro cs hm _ c hc
    cases cs with
    | nil => cases hc
    | cons x xs => simp [matchRest] at hm
  | cons s ss ih =>
    intro cs hm hval c hc
    cases cs with
    | nil => cases hc
    | cons x xs =>
      simp only [matchRest, validateRest, Bool.and_eq_true] at hm hval
      rcases List.mem_cons.mp hc with rfl | hin
      · have hs := matches_same hm.1
        refine ⟨⟨s, List.mem_cons_self, hs⟩, ?_⟩
        rw [(same_method hs).2]
        exact hval.1
      · obtain ⟨⟨s', hs', hsame⟩, hv'⟩ := ih xs hm.2 hval.2 c hin
        exact ⟨⟨s', List.mem_cons_of_mem _ hs', hsame⟩, hv'⟩

theorem lookup_some {reg : Registry} {c : Call} {p : Parser} (h : reg.lookup c = some p) :
    p ∈ reg ∧ p.first.same c = true := by
  unfold Registry.lookup at h
  exact ⟨List.mem_of_find?_eq_some h, by simpa using List.find?_some h⟩

theorem prepare_ok {reg : Registry} {env : Env} {r : Req} {l : List Call} (h : prepare reg env r = .ok l) :
    structureErr env r = none ∧ r.script = some l ∧ ∃ c cs, l = c :: cs ∧ reg.allowed c = true := by
  unfold prepare at h
  split at h
  · cases h
  · rename_i hs
    split at h
    · cases h
    · cases h
    · rename_i c cs hsc
      split at h
      · rename_i ha
        cases h
        exact ⟨hs, hsc, c, cs, rfl, ha⟩
      · cases h

/-- What a co-signature implies, unfolded: the request was prepared, dispatched to the parser
registered for its first call, parsed, and the handler ran as alphabet and validated everything. -/
theorem cosign_unfold {reg : Registry} {env : Env} {hv : Nat → Call → Bool} {r : Req}
    (h : cosign reg env hv r = true) :
    ∃ c cs p, r.script = some (c :: cs) ∧ structureErr env r = none ∧ reg.allowed c = true ∧
      p ∈ reg ∧ p.first.same c = true ∧ p.first.argsOk c = true ∧ matchRest p.rest cs = true ∧
      env.isAlphabet = true ∧ hv p.first.method c = true ∧ validateRest hv p.rest cs = true := by
  unfold cosign handle handleWith at h
  split at h
  · simp [Outcome.signed] at h
  · simp [Outcome.signed] at h
  · rename_i c cs hp
    obtain ⟨hs, hsc, c', cs', hl, ha⟩ := prepare_ok hp
    cases hl
    split at h
    · simp [Outcome.signed] at h
    · rename_i p hl
      obtain ⟨hpm, hps⟩ := lookup_some hl
      split at h
      · rename_i hparse
        simp only [Outcome.signed, Bool.and_eq_true] at h hparse
        exact ⟨c, cs, p, hsc, hs, ha, hpm, hps, hparse.1, hparse.2, h.1.1, h.1.2, h.2⟩
      · simp [Outcome.signed] at h

/-- **C34, calls.** If the node co-signs a request then EVERY call of the main script is a
(contract, method) pair the inner ring registered a notary parser for, and the arguments of EVERY
call were accepted by the handler validation of that call's own method.  No call rides along
unchecked.  (`followersRegistered`: the optional further calls a parser accepts are themselves
registered request types — true of the inner ring's registry, `irRegistry_followers`.) -/
theorem cosign_implies_all_calls_expected (reg : Registry) (env : Env) (hv : Nat → Call → Bool) (r : Req)
    (hreg : reg.followersRegistered = true) (h : cosign reg env hv r = true) :
    ∀ c ∈ r.calls, reg.allowed c = true ∧ hv c.method c = true := by
  obtain ⟨c, cs, p, hsc, _, ha, hpm, hps, _, hmr, _, hv0, hvr⟩ := cosign_unfold h
  intro x hx
  simp only [Req.calls, hsc, Option.getD_some] at hx
  rcases List.mem_cons.mp hx with rfl | hin
  · refine ⟨ha, ?_⟩
    rw [(same_method hps).2]
    exact hv0
  · obtain ⟨⟨s, hs, hsame⟩, hvx⟩ := matchRest_validate hv p.rest cs hmr hvr x hin
    refine ⟨?_, hvx⟩
    unfold Registry.followersRegistered at hreg
    have h1 := (List.all_eq_true.mp hreg) p hpm
    have h2 := (List.all_eq_true.mp h1) s hs
    obtain ⟨q, hq, hqs⟩ := List.any_eq_true.mp h2
    simp only [Bool.and_eq_true, beq_iff_eq] at hqs
    unfold Registry.allowed
    refine List.any_eq_true.mpr ⟨q, hq, ?_⟩
    have := same_method hsame
    unfold CallSpec.same
    simp only [Bool.and_eq_true, beq_iff_eq]
    exact ⟨this.1.trans hqs.1.symm, this.2.trans hqs.2.symm⟩

theorem irRegistry_followers : irRegistry.followersRegistered = true := by decide

/-- C34 for the registry the inner ring installs. -/
theorem cosign_ir_all_calls_expected (env : Env) (hv : Nat → Call → Bool) (r : Req)
    (h : cosign irRegistry env hv r = true) :
    ∀ c ∈ r.calls, irRegistry.allowed c = true ∧ hv c.method c = true :=
  cosign_implies_all_calls_expected irRegistry env hv r irRegistry_followers h

/-- The number of calls of a co-signed script is bounded by the parser of its first call. -/
theorem matchRest_length : ∀ (ss : List CallSpec) (cs : List Call), matchRest ss cs = true → cs.length ≤ ss.length := by
  intro ss
  induction ss with
  | nil => intro cs h; cases cs with
    | nil => simp
    | cons x xs => simp [matchRest] at h
  | cons s ss ih => intro cs h; cases cs with
    | nil => simp
    | cons x xs =>
      simp only [matchRest, Bool.and_eq_true] at h
      have := ih xs h.2
      simp only [List.length_cons]
      omega

/-- **C34, structure.** A co-signed request was not handled before, is not the node's own request,
has 3 or 4 witnesses and as many signers with the alphabet multi-signature account second, exactly
one NotaryAssisted attribute with the expected key count, an empty proxy witness, the current
alphabet verification script, a non-empty invoker witness when there are four, a notary
placeholder last, a fallback with three attributes of which exactly one NotValidBefore above the
current height; and the node is an alphabet member. -/
theorem cosign_structure (reg : Registry) (env : Env) (hv : Nat → Call → Bool) (r : Req)
    (h : cosign reg env hv r = true) :
    env.isAlphabet = true ∧ r.seen = false ∧ r.fbFromLocal = false ∧
    (r.witnesses.length = 3 ∨ r.witnesses.length = 4) ∧
    r.signers.length = r.witnesses.length ∧ r.signers[1]? = some Signer.alpha ∧
    r.attrs = [Attr.notaryAssisted ((env.alphaN % 256 + invN (r.witnesses.length == 4)) % 256)] ∧
    r.witnesses[0]?.any emptyW = true ∧ r.witnesses[1]?.any (fun x => x.ver == Ver.alpha) = true ∧
    (r.witnesses.length = 4 → r.witnesses[2]?.any emptyW = false) ∧
    (∃ l, r.witnesses.getLast? = some l ∧ (l.inv = Inv.empty ∨ l.inv = Inv.dummy) ∧ l.ver = Ver.empty) ∧
    r.fbAttrs.length = 3 ∧ r.fbAttrs.count FbAttr.nvb = 1 ∧ env.height < r.nvb := by
  obtain ⟨c, cs, p, _, hs, _, _, _, _, _, hal, _, _⟩ := cosign_unfold h
  refine ⟨hal, ?_⟩
  unfold structureErr at hs
  split at hs
  · cases hs
  · rename_i hseen
    simp only at hs
    split at hs
    · cases hs
    · rename_i hln
      split at hs
      · cases hs
      · rename_i hloc
        have hln' : r.witnesses.length = 3 ∨ r.witnesses.length = 4 := by
          simp only [bne_iff_ne, ne_eq, Bool.and_eq_true, decide_eq_true_eq, not_and, Decidable.not_not] at hln
          by_cases h3 : r.witnesses.length = 3
          · exact Or.inl h3
          · exact Or.inr (hln h3)
        -- the four sub-checks all returned `none`
        have hc : cosignersErr r.witnesses.length r = none := by
          cases hcc : cosignersErr r.witnesses.length r with
          | none => rfl
          | some e => rw [hcc] at hs; simp [Option.orElse] at hs
        rw [hc] at hs
        simp only [Option.orElse] at hs
        have ha : attrsErr env (r.witnesses.length == 4) r = none := by
          cases hcc : attrsErr env (r.witnesses.length == 4) r with
          | none => rfl
          | some e => rw [hcc] at hs; simp at hs
        rw [ha] at hs
        simp only at hs
        have hw : witnessesErr (r.witnesses.length == 4) r = none := by
          cases hcc : witnessesErr (r.witnesses.length == 4) r with
          | none => rfl
          | some e => rw [hcc] at hs; simp at hs
        rw [hw] at hs
        simp only at hs
        -- unpack each
        unfold cosignersErr at hc
        split at hc
        · cases hc
        · rename_i hc1
          split at hc
          · cases hc
          · rename_i hc2
            unfold attrsErr at ha
            split at ha
            · rename_i a hattrs
              split at ha
              · cases ha
              · rename_i ha1
                unfold witnessesErr at hw
                simp only at hw
                split at hw
                · cases hw
                · rename_i hw0
                  split at hw
                  · cases hw
                  · rename_i hw1
                    split at hw
                    · cases hw
                    · rename_i hw2
                      split at hw
                      · rename_i l hlast
                        split at hw
                        · cases hw
                        · rename_i hpl
                          unfold expirationErr at hs
                          split at hs
                          · cases hs
                          · rename_i he1
                            split at hs
                            · cases hs
                            · rename_i he2
                              split at hs
                              · cases hs
                              · rename_i he3
                                simp only [bne_iff_ne, ne_eq, Decidable.not_not, Bool.not_eq_true, Bool.not_eq_eq_eq_not,
                                  Bool.not_true, Bool.not_false, Bool.and_eq_true, Bool.or_eq_true, not_or, not_and,
                                  beq_iff_eq, Bool.not_eq_false] at hseen hloc hc1 hc2 ha1 hw0 hw1 hw2 hpl he1 he2 he3
                                refine ⟨by simpa using hseen, by simpa using hloc, hln', hc1, hc2, ?_, hw0, hw1, ?_, ?_, he1, he2, by omega⟩
                                · rw [hattrs, ha1]
                                · intro h4
                                  have := hw2
                                  simp only [h4, beq_self_eq_true, true_and] at this
                                  cases hh : r.witnesses[2]?.any emptyW with
                                  | false => rfl
                                  | true => simp [hh] at this
                                · refine ⟨l, hlast, ?_, hpl.2⟩
                                  by_cases hi : l.inv = Inv.empty
                                  · exact Or.inl hi
                                  · exact Or.inr (hpl.1 hi)
                      · cases hw
            · cases ha

/-- A node outside the alphabet never co-signs (any registry, any request). -/
theorem non_alphabet_never_cosigns (reg : Registry) (env : Env) (hv : Nat → Call → Bool) (r : Req)
    (h : env.isAlphabet = false) : cosign reg env hv r = false := by
  cases hc : cosign reg env hv r with
  | false => rfl
  | true =>
    obtain ⟨_, _, _, _, _, _, _, _, _, _, hal, _, _⟩ := cosign_unfold hc
    rw [h] at hal
    cases hal

/-! ### the defect the repair closed -/

/-- the statement of C34 for a given co-signing function -/
def AllCallsExpected (cs : Registry → Env → (Nat → Call → Bool) → Req → Bool) : Prop :=
  ∀ (env : Env) (hv : Nat → Call → Bool) (r : Req), cs irRegistry env hv r = true →
    ∀ c ∈ r.calls, irRegistry.allowed c = true ∧ hv c.method c = true

theorem C34_holds_for_repaired_code : AllCallsExpected cosign :=
  fun env hv r h => cosign_ir_all_calls_expected env hv r h

def canonReq (calls : List Call) : Req :=
  { seen := false, witnesses := [⟨.empty, .empty⟩, ⟨.empty, .alpha⟩, ⟨.empty, .empty⟩],
    signers := [.proxy, .alpha, .notary], attrs := [.notaryAssisted 4], fbAttrs := [.notaryAssisted, .nvb, .conflicts],
    nvb := 100, fbFromLocal := false, script := some calls }

def canonEnv : Env := { alphaN := 4, height := 50, isAlphabet := true }

/-- createV2 on the container contract followed by `foo` on a foreign contract (4) with eACL-shaped
arguments: this is the request replayed against the real code before the repair. -/
def foreignSecondCall : Req :=
  canonReq [⟨0, 3, [.cnr, .bytes, .bytes, .bytes], 1⟩, ⟨4, 14, [.bytes, .bytes, .bytes, .bytes], 1⟩]

/-- the validation predicate of the replay: valid for the method the handler applies it as, not for `foo` -/
def hvReplay (m : Nat) (c : Call) : Bool := c.tag == 1 && m != 14

/-- Before the repair the second call was only checked for its argument shape: the foreign call
was co-signed (this is what the engine replayed on the unrepaired code). -/
theorem unfixed_counterexample : ¬ AllCallsExpected cosignUnfixed := by
  intro h
  have := h canonEnv hvReplay foreignSecondCall (by decide) ⟨4, 14, [.bytes, .bytes, .bytes, .bytes], 1⟩ (by decide)
  revert this
  decide

/-- … and the repaired parser refuses exactly that request. -/
example : handle irRegistry canonEnv hvReplay foreignSecondCall = .parseErr 2 := by decide

/-! ### non-vacuity -/

/-- a two-call request (createV2 + putEACL on the container contract) IS co-signed -/
example : cosign irRegistry canonEnv (fun _ c => c.tag == 1)
    (canonReq [⟨0, 3, [.cnr, .bytes, .bytes, .bytes], 1⟩, ⟨0, 7, [.bytes, .bytes, .bytes, .bytes], 1⟩]) = true := by decide

/-- … but not when the second call's arguments fail the eACL validation -/
example : cosign irRegistry canonEnv (fun _ c => c.tag == 1)
    (canonReq [⟨0, 3, [.cnr, .bytes, .bytes, .bytes], 1⟩, ⟨0, 7, [.bytes, .bytes, .bytes, .bytes], 0⟩]) = false := by decide

/-- … and a third call is refused by the parser -/
example : handle irRegistry canonEnv (fun _ c => c.tag == 1)
    (canonReq [⟨0, 3, [.cnr, .bytes, .bytes, .bytes], 1⟩, ⟨0, 7, [.bytes, .bytes, .bytes, .bytes], 1⟩,
               ⟨0, 7, [.bytes, .bytes, .bytes, .bytes], 1⟩]) = .parseErr 3 := by decide

/-- an expired fallback is refused -/
example : handle irRegistry { canonEnv with height := 100 } (fun _ c => c.tag == 1)
    (canonReq [⟨0, 5, [.bytes, .bytes, .bytes, .bytes], 1⟩]) = .prepErr .expired := by decide

end NeoFS.Notary
