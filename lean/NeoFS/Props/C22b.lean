import NeoFS.Props.C22
import NeoFS.Model.Policer
import Mathlib.Data.List.Nodup
import Mathlib.Data.List.Perm.Basic
import Mathlib.Data.List.Induction
/-!
# C22 (extension) — the node order USED by the policer when it re-creates a lost EC part

`Model/Policer.lean`, section `checkECParts / recreateECParts`: the pass over a local EC part checks the sibling
parts (`checkParts`: HEAD loop, payload loop, the "too many parts unavailable" bound) and hands every lost part to
the replicator (`recreatePart`).  Proved for EVERY script of node answers, every node list, every rule and every
local part: a re-created part is offered to the nodes in the part's own node order — a rearrangement of the node
list of the rule (every node exactly once) that starts at the node with the part's index when there are at least as
many nodes as parts — distinct re-created parts start at distinct nodes, exactly the lost parts are re-created,
each once, never the local one.
-/
namespace NeoFS.Policer
open NeoFS.EC

theorem filterMap_range_getElem? (l : List Nat) : (List.range l.length).filterMap (fun i => l[i]?) = l := by
  induction l using List.reverseRecOn with
  | nil => rfl
  | append_singleton l a ih =>
    rw [List.length_append, List.length_singleton, List.range_succ, List.filterMap_append]
    have h : (List.range l.length).filterMap (fun i => (l ++ [a])[i]?) = (List.range l.length).filterMap (fun i => l[i]?) := by
      apply List.filterMap_congr
      intro i hi
      rw [List.mem_range] at hi
      exact List.getElem?_append_left hi
    rw [h, ih]
    simp

/-- The order in which the nodes are offered part `pi` is a rearrangement of the node list of the rule: every node
is offered the part exactly once. -/
theorem partSeq_perm (nodes : List Nat) (pi total : Nat) (ht : 1 ≤ total) : (partSeq nodes pi total).Perm nodes := by
  unfold partSeq
  have h := (nodeSeq_perm pi total nodes.length ht).filterMap (fun i => nodes[i]?)
  rw [filterMap_range_getElem?] at h
  exact h

/-- With at least as many nodes as parts the order starts at the node with the part's own index. -/
theorem partSeq_head (nodes : List Nat) (pi total : Nat) (hp : pi < total) (hn : total ≤ nodes.length) :
    (partSeq nodes pi total).head? = nodes[pi]? := by
  unfold partSeq
  have h := nodeSeq_first pi total nodes.length hp hn
  cases hs : nodeSeq pi total nodes.length with
  | nil => rw [hs] at h; simp at h
  | cons a as =>
    rw [hs] at h
    simp only [List.head?_cons, Option.some.injEq] at h
    subst h
    have hlt : a < nodes.length := by omega
    simp [List.filterMap_cons, List.getElem?_eq_getElem hlt]

/-! ### which parts are re-created -/

theorem headStep_missing (pe : PartsEnv) (nodes : List Nat) (total parity lp : Nat) (s : Chk) (p : Nat) :
    (headStep pe nodes total parity lp s p).missing = s.missing ∨
      (p ≠ lp ∧ (headStep pe nodes total parity lp s p).missing = s.missing ++ [p]) := by
  unfold headStep
  split_ifs with h
  · exact Or.inl rfl
  · simp only [Bool.or_eq_true, decide_eq_true_eq, not_or] at h
    dsimp only
    split
    · exact Or.inl rfl
    · split_ifs <;> exact Or.inl rfl
    · split_ifs
      · exact Or.inl rfl
      · exact Or.inr ⟨h.2, rfl⟩

/-- the HEAD loop over the parts `ps`: the lost parts found are a sub-list of `ps` without the local part -/
theorem headLoop_missing (pe : PartsEnv) (nodes : List Nat) (total parity lp : Nat) (ps : List Nat) (s : Chk) :
    ∃ m, (ps.foldl (headStep pe nodes total parity lp) s).missing = s.missing ++ m ∧ m.Sublist ps ∧ lp ∉ m := by
  induction ps generalizing s with
  | nil => exact ⟨[], by simp, List.Sublist.refl _, by simp⟩
  | cons p ps ih =>
    simp only [List.foldl_cons]
    obtain ⟨m, hm, hs, hl⟩ := ih (headStep pe nodes total parity lp s p)
    rcases headStep_missing pe nodes total parity lp s p with h | ⟨hne, h⟩
    · exact ⟨m, by rw [hm, h], hs.cons _, hl⟩
    · refine ⟨p :: m, by rw [hm, h]; simp, hs.cons₂ _, ?_⟩
      simp only [List.mem_cons, not_or]
      exact ⟨fun e => hne e.symm, hl⟩

theorem rangeStep_missing (pe : PartsEnv) (me : Nat) (nodes : List Nat) (total parity lp : Nat) (s : Chk) (p : Nat) :
    (rangeStep pe me nodes total parity lp s p).missing = s.missing := by
  unfold rangeStep
  split_ifs
  · rfl
  · rfl
  all_goals
    dsimp only
    split_ifs <;> rfl

theorem rangeLoop_missing (pe : PartsEnv) (me : Nat) (nodes : List Nat) (total parity lp : Nat) (ps : List Nat) (s : Chk) :
    (ps.foldl (rangeStep pe me nodes total parity lp) s).missing = s.missing := by
  induction ps generalizing s with
  | nil => rfl
  | cons p ps ih => simp only [List.foldl_cons]; rw [ih, rangeStep_missing]

/-- The parts `checkECParts` decides to re-create: distinct part indexes of the rule, never the local part. -/
theorem checkParts_missing (pe : PartsEnv) (me : Nat) (nodes : List Nat) (total parity lp : Nat) :
    (checkParts pe me nodes total parity lp).missing.Nodup ∧
      ∀ p ∈ (checkParts pe me nodes total parity lp).missing, p < total ∧ p ≠ lp := by
  obtain ⟨m, hm, hs, hl⟩ := headLoop_missing pe nodes total parity lp (List.range total) {}
  have good : m.Nodup ∧ ∀ p ∈ m, p < total ∧ p ≠ lp :=
    ⟨hs.nodup List.nodup_range, fun p hp => ⟨List.mem_range.mp (hs.subset hp), fun e => hl (e ▸ hp)⟩⟩
  have hm' : ((List.range total).foldl (headStep pe nodes total parity lp) {}).missing = m := by rw [hm]; rfl
  unfold checkParts
  dsimp only
  split_ifs
  · exact ⟨List.nodup_nil, fun p hp => by simp at hp⟩
  · exact ⟨List.nodup_nil, fun p hp => by simp at hp⟩
  · rw [rangeLoop_missing, hm']; exact good

/-! ### the property -/

/-- **C22 for re-created parts**: every task `recreateECParts` hands to the replicator is for a lost part of the rule
other than the local one, asks the nodes in that part's own node order, and reports what the replicator did with
exactly that order. -/
theorem recreate_tasks_follow_part_order (e : Env) (pe : PartsEnv) (nodes : List Nat) (total parity lp : Nat) :
    ∀ t ∈ (recreate e pe nodes total parity lp).2,
      t.part < total ∧ t.part ≠ lp ∧ t.nodes = partSeq nodes t.part total ∧
        t.done = handleTaskC e true 1 (partSeq nodes t.part total) := by
  intro t ht
  simp only [recreate, List.mem_map] at ht
  obtain ⟨p, hp, rfl⟩ := ht
  have := (checkParts_missing pe e.me nodes total parity lp).2 p hp
  exact ⟨this.1, this.2, rfl, rfl⟩

/-- … hence every node of the rule is offered the re-created part exactly once … -/
theorem recreated_part_offered_to_every_node_once (e : Env) (pe : PartsEnv) (nodes : List Nat) (total parity lp : Nat) :
    ∀ t ∈ (recreate e pe nodes total parity lp).2, t.nodes.Perm nodes := by
  intro t ht
  obtain ⟨h1, _, h3, _⟩ := recreate_tasks_follow_part_order e pe nodes total parity lp t ht
  rw [h3]
  exact partSeq_perm nodes t.part total (by omega)

/-- … starting, when there are at least as many nodes as parts, at the node with the part's own index … -/
theorem recreated_part_starts_at_own_node (e : Env) (pe : PartsEnv) (nodes : List Nat) (total parity lp : Nat)
    (hn : total ≤ nodes.length) :
    ∀ t ∈ (recreate e pe nodes total parity lp).2, t.nodes.head? = nodes[t.part]? := by
  intro t ht
  obtain ⟨h1, _, h3, _⟩ := recreate_tasks_follow_part_order e pe nodes total parity lp t ht
  rw [h3]
  exact partSeq_head nodes t.part total h1 hn

/-- … so distinct re-created parts start at distinct nodes (the nodes of a placement list are distinct). -/
theorem recreated_parts_start_at_distinct_nodes (e : Env) (pe : PartsEnv) (nodes : List Nat) (total parity lp : Nat)
    (hn : total ≤ nodes.length) (nd : nodes.Nodup) :
    ∀ t1 ∈ (recreate e pe nodes total parity lp).2, ∀ t2 ∈ (recreate e pe nodes total parity lp).2,
      t1.part ≠ t2.part → t1.nodes.head? ≠ t2.nodes.head? := by
  intro t1 h1 t2 h2 hne
  have a1 := recreate_tasks_follow_part_order e pe nodes total parity lp t1 h1
  have a2 := recreate_tasks_follow_part_order e pe nodes total parity lp t2 h2
  rw [recreated_part_starts_at_own_node e pe nodes total parity lp hn t1 h1,
    recreated_part_starts_at_own_node e pe nodes total parity lp hn t2 h2]
  have l1 : t1.part < nodes.length := by omega
  have l2 : t2.part < nodes.length := by omega
  rw [List.getElem?_eq_getElem l1, List.getElem?_eq_getElem l2]
  intro h
  exact hne ((List.Nodup.getElem_inj_iff nd).mp (Option.some.inj h))

/-- Every lost part is re-created exactly once. -/
theorem recreated_parts_once (e : Env) (pe : PartsEnv) (nodes : List Nat) (total parity lp : Nat) :
    ((recreate e pe nodes total parity lp).2.map (·.part)) = (checkParts pe e.me nodes total parity lp).missing ∧
      ((recreate e pe nodes total parity lp).2.map (·.part)).Nodup := by
  have h : ((recreate e pe nodes total parity lp).2.map (·.part)) = (checkParts pe e.me nodes total parity lp).missing := by
    simp [recreate, recreatePart, Function.comp_def]
  exact ⟨h, h ▸ (checkParts_missing pe e.me nodes total parity lp).1⟩

/-- Non-vacuity (the seeded scenario): rule 3/2 over ten nodes, the local node 3 holds part 2, parts 1 and 4 are
lost, everything else sits on its primary node: both parts are re-created, part 1 is offered to node 2 first and
part 4 to node 5 first (node numbers = position + 1), each in its own order. -/
example :
    let pe : PartsEnv := { stat := fun p n => if (p = 0 ∧ n = 1) ∨ (p = 2 ∧ n = 3) ∨ (p = 3 ∧ n = 4) then .holds else .notFound,
                           rfail := fun _ => false }
    let e : Env := { me := 3, inNetmap := true, flag := fun _ => false, ans := fun _ => .notFound, repl := fun _ => true }
    (recreate e pe [1, 2, 3, 4, 5, 6, 7, 8, 9, 10] 5 2 2).2 =
      [{ part := 1, nodes := [2, 7, 3, 8, 4, 9, 5, 10, 1, 6], done := [2] },
       { part := 4, nodes := [5, 10, 1, 6, 2, 7, 3, 8, 4, 9], done := [5] }] := by
  decide

end NeoFS.Policer
