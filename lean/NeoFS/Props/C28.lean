import NeoFS.Model.ACL
/-!
# C28 — object access decisions follow basic ACL, sticky bit, eACL and bearer rules

`Model/ACL.lean` transcribes the decision procedure of the code (`decide`). This file states the rules of the
property as a declarative reference (`Spec`, `TableDenies`: existential "first applicable record decides") and proves that
the procedure and the reference agree for ALL requests, containers, tables, header sets and tokens.
-/
namespace NeoFS.ACL

/-! ## Reference: when does a table deny -/

/-- a record takes no part: other operation / no target hit, or one of its filters misses -/
def RecordSilent (s : Subject) (h : HdrSrc) (r : Record) : Prop :=
  applies s r = false ∨ filtersRes h r.filters = .miss

/-- a record forbids: it applies, and its filters all hit with an action other than ALLOW, or cannot be evaluated -/
def RecordDenies (s : Subject) (h : HdrSrc) (r : Record) : Prop :=
  applies s r = true ∧ (filtersRes h r.filters = .err ∨ (filtersRes h r.filters = .hit ∧ r.action ≠ 1))

/-- a record settles the question for now without forbidding: ALLOW, or headers not yet available -/
def RecordPermits (s : Subject) (h : HdrSrc) (r : Record) : Prop :=
  applies s r = true ∧ (filtersRes h r.filters = .unknown ∨ (filtersRes h r.filters = .hit ∧ r.action = 1))

/-- The table denies the request: the FIRST record that is not silent forbids. -/
def TableDenies (s : Subject) (h : HdrSrc) (t : Table) : Prop :=
  ∃ pre r post, t = pre ++ r :: post ∧ (∀ x ∈ pre, RecordSilent s h x) ∧ RecordDenies s h r

theorem record_cases (s : Subject) (h : HdrSrc) (r : Record) :
    RecordSilent s h r ∨ RecordDenies s h r ∨ RecordPermits s h r := by
  unfold RecordSilent RecordDenies RecordPermits
  cases ha : applies s r <;> cases hf : filtersRes h r.filters <;> simp
  all_goals (by_cases h1 : r.action = 1 <;> simp [h1])

theorem calc_of_silent {s h r rs} (hs : RecordSilent s h r) : calcAction s h (r :: rs) = calcAction s h rs := by
  rcases hs with hs | hs <;> simp [calcAction, hs]

theorem calc_of_denies {s h r rs} (hd : RecordDenies s h r) :
    calcAction s h (r :: rs) = .deny ∨ calcAction s h (r :: rs) = .err := by
  obtain ⟨ha, hf | ⟨hf, hact⟩⟩ := hd
  · right; simp [calcAction, ha, hf]
  · left; simp [calcAction, ha, hf, hact]

theorem calc_of_permits {s h r rs} (hp : RecordPermits s h r) :
    calcAction s h (r :: rs) = .allow ∨ calcAction s h (r :: rs) = .notMatched := by
  obtain ⟨ha, hf | ⟨hf, hact⟩⟩ := hp
  · right; simp [calcAction, ha, hf]
  · left; simp [calcAction, ha, hf, hact]

/-- **First-match theorem.** For every subject, header source and table (induction over the record list):
`CalculateAction` ends in DENY or an error exactly when the first non-silent record of the table forbids. -/
theorem calc_denies_iff (s : Subject) (h : HdrSrc) (t : Table) :
    (calcAction s h t = .deny ∨ calcAction s h t = .err) ↔ TableDenies s h t := by
  induction t with
  | nil =>
    constructor
    · intro hc; simp [calcAction] at hc
    · rintro ⟨pre, r, post, he, _, _⟩; simp at he
  | cons r rs ih =>
    rcases record_cases s h r with hs | hd | hp
    · rw [calc_of_silent hs, ih]
      constructor
      · rintro ⟨pre, x, post, he, hpre, hx⟩
        exact ⟨r :: pre, x, post, by simp [he], by
          intro y hy
          rcases List.mem_cons.mp hy with rfl | hy
          · exact hs
          · exact hpre y hy, hx⟩
      · rintro ⟨pre, x, post, he, hpre, hx⟩
        cases pre with
        | nil =>
          simp at he
          obtain ⟨rfl, rfl⟩ := he
          -- silent and denying at once is impossible
          exfalso
          obtain ⟨ha, hf⟩ := hx
          rcases hs with hs | hs
          · simp [hs] at ha
          · rcases hf with hf | ⟨hf, _⟩ <;> simp [hs] at hf
        | cons p ps =>
          simp at he
          obtain ⟨rfl, rfl⟩ := he
          exact ⟨ps, x, post, rfl, fun y hy => hpre y (List.mem_cons_of_mem _ hy), hx⟩
    · constructor
      · intro _; exact ⟨[], r, rs, rfl, by simp, hd⟩
      · intro _; exact calc_of_denies hd
    · constructor
      · intro hc
        rcases calc_of_permits (rs := rs) hp with h1 | h1 <;> rcases hc with h2 | h2 <;> simp [h1] at h2
      · rintro ⟨pre, x, post, he, hpre, hx⟩
        exfalso
        cases pre with
        | nil =>
          simp at he
          obtain ⟨rfl, rfl⟩ := he
          obtain ⟨_, hf⟩ := hx
          obtain ⟨_, hg⟩ := hp
          rcases hf with hf | ⟨hf, ha⟩ <;> rcases hg with hg | ⟨hg, hb⟩ <;> simp_all
        | cons p ps =>
          simp at he
          obtain ⟨rfl, rfl⟩ := he
          have := hpre r (List.mem_cons_self)
          obtain ⟨ha, hg⟩ := hp
          rcases this with h1 | h1
          · simp [h1] at ha
          · rcases hg with hg | ⟨hg, _⟩ <;> simp [h1] at hg

/-- no record of the table applies (or all miss) ⇒ the default: follow the basic ACL -/
theorem calc_default_allow (s : Subject) (h : HdrSrc) (t : Table) (hall : ∀ x ∈ t, RecordSilent s h x) :
    calcAction s h t = .allow := by
  induction t with
  | nil => rfl
  | cons r rs ih =>
    rw [calc_of_silent (hall r List.mem_cons_self)]
    exact ih (fun x hx => hall x (List.mem_cons_of_mem _ hx))

/-! ## Reference: the property's rules -/

/-- the bearer token is correctly issued for THIS request: signed by its issuer, within its lifetime, issued by the
container owner, for this container (or none) and for this requester (or anybody) -/
def bearerValid (r : Req) (b : Bearer) : Bool :=
  bearerTokenOK b r.cur && bearerForRequest b r.cnrOwner r.cnr r.author

/-- The table the property names: the bearer token's table when the token is valid for the request and bearer rules are
allowed for the operation, the container's stored table otherwise. -/
def applicable (r : Req) : Stored :=
  match r.bearer with
  | some b => if bearerValid r b && bearerAllowed r.basic (effOp r) then .table b.table else r.stored
  | none => r.stored

def StoredDenies (r : Req) : Stored → Prop
  | .table t => TableDenies (subject r) r.hdrs t
  | .notFound => False
  | .error => True      -- the table cannot be read: nothing shows that it does not deny

/-- The property's necessary conditions for serving a request. -/
structure Spec (r : Req) : Prop where
  /-- the basic ACL allows the operation for the requester's role -/
  basic : isOpAllowed r.basic (effOp r) (classify r) = true
  /-- puts to sticky containers: the object owner is the requester (container nodes are exempt) -/
  stickyRule : r.isPut = true → sticky r.basic = true → classify r ≠ .container → r.keyUser = some r.objOwner
  /-- extendable ACL: the applicable table does not deny (system roles are governed by the basic ACL only) -/
  eacl : extendable r.basic = true → isSystem (classify r) = false → ¬ StoredDenies r (applicable r)

/-- what the code demands in addition: a bearer token that is attached must be valid for the request
(an invalid one is not ignored — the request is rejected) -/
def TokenAcceptable (r : Req) : Prop := ∀ b, r.bearer = some b → bearerValid r b = true

theorem acceptable_iff (r : Req) : TokenAcceptable r ↔ (tokenBad r = false ∧ bearerMismatch r = false) := by
  unfold TokenAcceptable tokenBad bearerMismatch bearerValid
  cases r.bearer with
  | none => simp
  | some b => simp

theorem evalStored_denies_iff (r : Req) (s : Stored) :
    (evalStored r s = .denied ∨ evalStored r s = .err) ↔ StoredDenies r s := by
  cases s with
  | table t =>
    simp only [evalStored, StoredDenies]
    rw [← calc_denies_iff]
    cases calcAction (subject r) r.hdrs t <;> simp [Calc.toEACL]
  | notFound => simp [evalStored, StoredDenies]
  | error => simp [evalStored, StoredDenies]

/-- with an acceptable token the table `CheckEACL` consults is the one the property names -/
theorem consulted_eq_applicable' (r : Req) (hv : TokenAcceptable r) : consulted r = applicable r := by
  unfold consulted applicable bearerUsed
  cases hb : r.bearer with
  | none => simp
  | some b =>
    have := hv b hb
    by_cases hba : bearerAllowed r.basic (effOp r) = true <;> simp [hba, this]

theorem checkEACL_denies_iff (r : Req) (hv : TokenAcceptable r) :
    (checkEACL r = .denied ∨ checkEACL r = .err) ↔
      (extendable r.basic = true ∧ isSystem (classify r) = false ∧ StoredDenies r (applicable r)) := by
  unfold checkEACL
  by_cases hx : extendable r.basic = true
  · by_cases hsys : isSystem (classify r) = true
    · simp [hx, hsys]
    · have hsys' : isSystem (classify r) = false := by simpa using hsys
      simp only [hx, hsys', Bool.not_true, Bool.false_eq_true, if_false, true_and]
      rw [consulted_eq_applicable' r hv]
      exact evalStored_denies_iff r _
  · have hx' : extendable r.basic = false := by simpa using hx
    simp [hx']

/-- **decide = spec.** For every request that is not relayed: the handler serves it (at once, or pending the re-check
with the object header) exactly when the property's rules hold and the attached bearer token, if any, is valid for it. -/
theorem decide_eq_spec (r : Req) (hns : skipCond r = false) :
    (decide r).served = true ↔ (Spec r ∧ TokenAcceptable r) := by
  constructor
  · intro hserved
    have hv : TokenAcceptable r := by
      rw [acceptable_iff]
      unfold decide at hserved
      cases h1 : tokenBad r
      · cases h2 : bearerMismatch r
        · exact ⟨rfl, rfl⟩
        · simp [h1, h2, hns, Decision.served] at hserved
      · simp [h1, Decision.served] at hserved
    refine ⟨?_, hv⟩
    have hden := checkEACL_denies_iff r hv
    obtain ⟨h1, h2⟩ := (acceptable_iff r).mp hv
    unfold decide at hserved
    simp only [h1, h2, hns, Bool.false_eq_true, if_false] at hserved
    cases hb : isOpAllowed r.basic (effOp r) (classify r)
    · simp [hb, Decision.served] at hserved
    · simp only [hb, Bool.not_true, Bool.false_eq_true, if_false] at hserved
      cases hst : (r.isPut && !stickyOK r)
      · simp only [hst, Bool.false_eq_true, if_false] at hserved
        refine ⟨hb, ?_, ?_⟩
        · intro hp hsk hc
          simp only [hp, Bool.true_and, Bool.not_eq_false'] at hst
          unfold stickyOK at hst
          simpa [hsk, hc] using hst
        · intro hx hsys hd
          rcases hden.mpr ⟨hx, hsys, hd⟩ with h | h <;> simp [h, Decision.served] at hserved
      · simp [hst, Decision.served] at hserved
  · rintro ⟨⟨hb, hst, he⟩, hv⟩
    have hden := checkEACL_denies_iff r hv
    obtain ⟨h1, h2⟩ := (acceptable_iff r).mp hv
    unfold decide
    simp only [h1, h2, hns, hb, Bool.false_eq_true, if_false, Bool.not_true]
    have hsticky : (r.isPut && !stickyOK r) = false := by
      by_cases hp : r.isPut = true
      · unfold stickyOK
        by_cases hc : classify r = .container
        · simp [hc]
        · by_cases hsk : sticky r.basic = true
          · have := hst hp hsk hc
            simp [this]
          · simp [hsk]
      · simp [hp]
    simp only [hsticky, Bool.false_eq_true, if_false]
    have hnd : ¬ (checkEACL r = .denied ∨ checkEACL r = .err) := by
      intro h
      obtain ⟨hx, hsys, hd⟩ := hden.mp h
      exact he hx hsys hd
    cases hc : checkEACL r <;> simp_all [Decision.served]

/-- **The property as stated ("served only if …").** Every request this node serves satisfies the three rules. -/
theorem served_only_if_rules (r : Req) (hns : skipCond r = false) (h : (decide r).served = true) : Spec r :=
  ((decide_eq_spec r hns).mp h).1

/-! ## Corollaries -/

/-- basic bit unset ⇒ never served, whatever the eACL tables, headers and bearer token say -/
theorem basic_unset_denies (r : Req) (hns : skipCond r = false)
    (hb : isOpAllowed r.basic (effOp r) (classify r) = false) : (decide r).served = false := by
  cases hs : (decide r).served with
  | false => rfl
  | true => have := (served_only_if_rules r hns hs).basic; simp [hb] at this

/-- sticky violation ⇒ never served -/
theorem sticky_violation_denies (r : Req) (hns : skipCond r = false) (hp : r.isPut = true)
    (hs : sticky r.basic = true) (hc : classify r ≠ .container) (ho : r.keyUser ≠ some r.objOwner) :
    (decide r).served = false := by
  cases hsv : (decide r).served with
  | false => rfl
  | true => exact absurd ((served_only_if_rules r hns hsv).stickyRule hp hs hc) ho

/-- an attached bearer token that is not valid for the request is never ignored: the request is rejected -/
theorem invalid_bearer_rejects (r : Req) (b : Bearer) (hb : r.bearer = some b) (hns : skipCond r = false)
    (hinv : bearerValid r b = false) : (decide r).served = false := by
  cases hsv : (decide r).served with
  | false => rfl
  | true => have := ((decide_eq_spec r hns).mp hsv).2 b hb; simp [hinv] at this

/-- the bearer table replaces the container's table only when the token is valid for the request and bearer rules are
allowed for the operation; in every served request the consulted table is the one the property names -/
theorem consulted_eq_applicable (r : Req) (hns : skipCond r = false) (h : (decide r).served = true) :
    consulted r = applicable r :=
  consulted_eq_applicable' r ((decide_eq_spec r hns).mp h).2

/-- the consulted table is the bearer token's exactly when a token is attached and bearer rules are allowed for the op -/
theorem consulted_bearer_iff (r : Req) (b : Bearer) (hb : r.bearer = some b) :
    consulted r = (if bearerAllowed r.basic (effOp r) then .table b.table else r.stored) := by
  unfold consulted bearerUsed
  by_cases hba : bearerAllowed r.basic (effOp r) = true <;> simp [hba, hb]

/-- bearer rules not allowed for the operation ⇒ the token's table has no influence on the decision -/
theorem bearer_table_ignored_when_not_allowed (r : Req) (b : Bearer) (t' : Table) (hb : r.bearer = some b)
    (hna : bearerAllowed r.basic (effOp r) = false) :
    decide { r with bearer := some { b with table := t' } } = decide r := by
  have hc : classify { r with bearer := some { b with table := t' } } = classify r := rfl
  have he : effOp { r with bearer := some { b with table := t' } } = effOp r := rfl
  have hs : stickyOK { r with bearer := some { b with table := t' } } = stickyOK r := rfl
  have hsub : subject { r with bearer := some { b with table := t' } } = subject r := rfl
  have hsk : skipCond { r with bearer := some { b with table := t' } } = skipCond r := rfl
  have ht : tokenBad { r with bearer := some { b with table := t' } } = tokenBad r := by
    simp [tokenBad, hb, bearerTokenOK]
  have hm : bearerMismatch { r with bearer := some { b with table := t' } } = bearerMismatch r := by
    simp [bearerMismatch, hb, bearerForRequest]
  have hcons : consulted { r with bearer := some { b with table := t' } } = consulted r := by
    simp [consulted, bearerUsed, he, hna]
  have hchk : checkEACL { r with bearer := some { b with table := t' } } = checkEACL r := by
    unfold checkEACL
    rw [hc, hcons]
    rfl
  unfold decide
  rw [hc, he, hs, hsk, ht, hm, hchk]

/-- system roles (inner ring, container nodes) and FINAL containers: the eACL machinery is not consulted at all -/
theorem system_role_ignores_eacl (r : Req) (hsys : isSystem (classify r) = true) : checkEACL r = .ok := by
  unfold checkEACL; simp [hsys]

theorem final_ignores_eacl (r : Req) (hf : extendable r.basic = false) : checkEACL r = .ok := by
  unfold checkEACL; simp [hf]

/-- inner ring: exactly GET, HEAD, SEARCH and HASH, independent of every bit of the basic ACL and of every table -/
theorem inner_ring_rule (r : Req) (hr : classify r = .innerRing) (hns : skipCond r = false) (hnb : r.bearer = none)
    (hnp : r.isPut = false) : (decide r).served = irOp r.op := by
  have heff : effOp r = r.op := by unfold effOp; simp [hnp]
  have h1 : tokenBad r = false := by simp [tokenBad, hnb]
  have h2 : bearerMismatch r = false := by simp [bearerMismatch, hnb]
  unfold decide
  simp only [h1, h2, hns, heff, hr, isOpAllowed, hnp]
  have : checkEACL r = .ok := system_role_ignores_eacl r (by simp [hr, isSystem])
  cases h : irOp r.op <;> simp [this, Decision.served]

/-- container nodes: the replication operations regardless of the bits, other operations by the container bit; never the
sticky rule; a tombstone replicated with TTL 1 is checked as PUT -/
theorem container_node_rule (r : Req) (hr : classify r = .container) (hns : skipCond r = false) (hnb : r.bearer = none) :
    (decide r).served = (isReplicationOp (effOp r) || opBit r.basic (effOp r) 2) := by
  have h1 : tokenBad r = false := by simp [tokenBad, hnb]
  have h2 : bearerMismatch r = false := by simp [bearerMismatch, hnb]
  unfold decide
  have : checkEACL r = .ok := system_role_ignores_eacl r (by simp [hr, isSystem])
  have hst : stickyOK r = true := by unfold stickyOK; simp [hr]
  simp only [h1, h2, hns, hr, isOpAllowed, hst, this]
  cases h : (isReplicationOp (effOp r) || opBit r.basic (effOp r) 2) <;> simp [Decision.served]

theorem tombstone_replication_is_put (r : Req) (hr : classify r = .container) (hp : r.isPut = true)
    (hd : r.op = .delete) (ht : r.ttl = 1) : effOp r = .put := by
  unfold effOp; simp [hp, hd, hr, ht]

/-! ## Non-vacuity: concrete requests meeting the hypotheses -/

def exTable : Table :=
  [ { action := 2, op := 1, targets := [{ role := 3, keys := [], accounts := [] }],
      filters := [{ src := 2, matcher := 1, key := "a0", val := "x" }] },
    { action := 1, op := 1, targets := [{ role := 3, keys := [], accounts := [] }], filters := [] } ]

def exReq : Req :=
  { op := .get, basic := 0x0FBFBFFF, cnr := 1, cnrOwner := 1, author := 2, key := 2, keyUser := some 2,
    inIR := false, inCnr := some false, stored := .table exTable,
    hdrs := { req := [], obj := [{ key := "a0", val := "x" }] } }

/-- others + GET on eacl-public-read-write with a DENY record whose filter hits: denied by eACL -/
example : decide exReq = .denyEACL := by decide
/-- same request, the attribute differs: the second (ALLOW) record decides -/
example : decide { exReq with hdrs := { req := [], obj := [{ key := "a0", val := "y" }] } } = .allow := by decide
/-- object header not at hand yet: served pending the re-check -/
example : decide { exReq with hdrs := { req := [], obj := [], objComplete := false } } = .allowRecheck := by decide
example : TableDenies (subject exReq) exReq.hdrs exTable :=
  ⟨[], _, _, rfl, by simp, by unfold RecordDenies; decide⟩
/-- a valid bearer token from the owner with an empty table overrides the stored DENY -/
def exBearer : Bearer :=
  { issuer := 1, signer := some 1, sigOK := true, nbf := 0, iat := 0, exp := 10, cnr := some 1, target := some 2, table := [] }
example : decide { exReq with bearer := some exBearer, cur := 5 } = .allow := by decide
/-- … but not when it is expired, issued by somebody else, or bearer rules are switched off for GET -/
example : decide { exReq with bearer := some exBearer, cur := 11 } = .denyToken := by decide
example : decide { exReq with bearer := some { exBearer with issuer := 3, signer := some 3 }, cur := 5 } = .denyBearer := by decide
example : decide { exReq with bearer := some exBearer, cur := 5, basic := 0x0FBFBFFE } = .denyEACL := by decide
/-- sticky container, others put an object owned by somebody else -/
example : decide { exReq with op := .put, isPut := true, basic := 0x2FBFBFFF, objOwner := 3 } = .denySticky := by decide
example : skipCond exReq = false := rfl

end NeoFS.ACL
