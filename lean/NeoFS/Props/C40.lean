import NeoFS.Model.Timers
/-!
# C40 — epoch timers fire each tick exactly once per epoch, at the right time

For *every* prior state, every reset `(lastTick, dur)` and every (possibly non-monotonic) sequence of
block times observed until the next reset.
-/
namespace NeoFS.Timers

theorem updates_cons (et : ET) (u : Nat) (us : List Nat) :
    updates et (u :: us) = ((update et u).2.1, (update et u).2.2) :: updates (update et u).1 us := rfl

theorem updates_length (et : ET) (us : List Nat) : (updates et us).length = us.length := by
  induction us generalizing et with
  | nil => rfl
  | cons u us ih => simp [updates, ih]

theorem update_of_done (et : ET) (u : Nat) (h : et.done = true) :
    update et u = (et, false, et.dhs.map fun _ => false) := by simp [update, h]

theorem update_done (et : ET) (u : Nat) (h : et.done = false) :
    (update et u).1.done = decide (et.nextTickAt ≤ u) ∧ (update et u).2.1 = decide (et.nextTickAt ≤ u)
      ∧ (update et u).1.nextTickAt = et.nextTickAt := by simp [update, h]

theorem update_dh (et : ET) (u i : Nat) (dh : DH) (h : et.done = false) (hi : et.dhs[i]? = some dh) :
    (update et u).1.dhs[i]? = some (dh.update u).1 ∧ (update et u).2.2.getD i false = (dh.update u).2 := by
  simp [update, h, List.getD, List.getElem?_map, hi]

/-- After the new-epoch handlers have fired nothing fires again until the next reset. -/
theorem nothing_after_done (et : ET) (h : et.done = true) (us : List Nat) :
    ∀ x ∈ updates et us, x.1 = false ∧ ∀ b ∈ x.2, b = false := by
  induction us with
  | nil => intro x hx; simp [updates] at hx
  | cons u us ih =>
    intro x hx
    rw [updates_cons, update_of_done et u h] at hx
    simp only [List.mem_cons] at hx
    rcases hx with rfl | hx
    · simp
    · exact ih x hx

theorem map_const_false {α : Type} (l : List α) (f : α → Bool) (h : ∀ x ∈ l, f x = false) :
    l.map f = l.map fun _ => false := by
  induction l with
  | nil => rfl
  | cons a r ih =>
    simp only [List.map_cons]
    rw [h a (by simp), ih (fun x hx => h x (by simp [hx]))]

/-- New-epoch handlers: between a reset and the next one they fire exactly at the first observed block
time that reaches `lastTick + dur`, and never again. -/
theorem epoch_fires_once (et : ET) (us : List Nat) (hd : et.done = false) :
    (updates et us).map (·.1) = firstOnly (us.map fun u => decide (et.nextTickAt ≤ u)) := by
  induction us generalizing et with
  | nil => rfl
  | cons u us ih =>
    obtain ⟨h1, h2, h3⟩ := update_done et u hd
    rw [updates_cons]
    simp only [List.map_cons, h2]
    by_cases h : et.nextTickAt ≤ u
    · simp only [h, decide_true, firstOnly, List.cons.injEq, true_and]
      have hdone : (update et u).1.done = true := by rw [h1]; simp [h]
      have := nothing_after_done _ hdone us
      rw [map_const_false _ _ (fun x hx => (this x hx).1)]
      simp [List.map_const', updates_length]
    · simp only [h, decide_false, firstOnly, List.cons.injEq, true_and]
      have hdone : (update et u).1.done = false := by rw [h1]; simp [h]
      rw [ih _ hdone, h3]

/-- per-update firing flags of delta handler `i`. -/
def deltaFlags (i : Nat) (l : List (Bool × List Bool)) : List Bool := l.map fun x => x.2.getD i false

theorem deltaFlags_cons (i : Nat) (x : Bool × List Bool) (l : List (Bool × List Bool)) :
    deltaFlags i (x :: l) = x.2.getD i false :: deltaFlags i l := rfl

theorem delta_fires_once_aux (et : ET) (i : Nat) (dh : DH) (hi : et.dhs[i]? = some dh)
    (hle : dh.nextTickAt ≤ et.nextTickAt) (hinv : et.done = true → dh.done = true) (us : List Nat) :
    deltaFlags i (updates et us) =
      if dh.done then us.map (fun _ => false)
      else firstOnly (us.map fun u => decide (dh.nextTickAt ≤ u)) := by
  induction us generalizing et dh with
  | nil => simp [updates, deltaFlags, firstOnly]
  | cons u us ih =>
    rw [updates_cons, deltaFlags_cons]
    by_cases hdone : et.done = true
    · -- epoch already closed: handler already done, nothing fires
      have hdd := hinv hdone
      rw [update_of_done et u hdone]
      have := ih et dh hi hle hinv
      simp only [hdd, if_true] at this ⊢
      rw [this]
      simp [hi]
    · have hdf : et.done = false := by cases h : et.done <;> simp_all
      obtain ⟨h1, _, h3⟩ := update_done et u hdf
      obtain ⟨hi', hflag⟩ := update_dh et u i dh hdf hi
      rw [hflag]
      have hrec := ih (update et u).1 (dh.update u).1 hi'
      rw [h3] at hrec
      by_cases hdd : dh.done = true
      · have e1 : dh.update u = (dh, false) := by simp [DH.update, hdd]
        rw [e1] at hrec ⊢
        have := hrec hle (fun _ => hdd)
        simp only [hdd, if_true] at this ⊢
        rw [this]
        simp
      · have hddf : dh.done = false := by cases h : dh.done <;> simp_all
        by_cases hfire : dh.nextTickAt ≤ u
        · have e1 : dh.update u = ({ dh with done := true }, true) := by simp [DH.update, hddf, hfire]
          rw [e1] at hrec ⊢
          have := hrec hle (fun _ => rfl)
          simp only [if_true] at this
          simp only [hddf, Bool.false_eq_true, if_false, hfire, decide_true, firstOnly, List.map_cons]
          rw [this]
          simp
        · have e1 : dh.update u = (dh, false) := by simp [DH.update, hddf, hfire]
          rw [e1] at hrec ⊢
          have hnotE : ¬ et.nextTickAt ≤ u := by omega
          have := hrec hle (by rw [h1]; simp [hnotE])
          simp only [hddf, Bool.false_eq_true, if_false] at this
          simp only [hddf, Bool.false_eq_true, if_false, hfire, decide_false, firstOnly, List.map_cons]
          rw [this]

/-- Sub-epoch handlers with `mul ≤ div`: after a reset (no uint64 overflow in `lastTick + dur` and
`dur*mul`) handler `i` fires exactly at the first observed block time reaching
`lastTick + dur*mul/div`, and never again before the next reset. -/
theorem delta_fires_once (et : ET) (i : Nat) (dh : DH) (hi : et.dhs[i]? = some dh)
    (lastTick dur : Nat) (hfrac : dh.mul ≤ dh.div) (hdiv : 0 < dh.div)
    (ho1 : lastTick + dur < M64) (ho2 : dur * dh.mul < M64) (us : List Nat) :
    deltaFlags i (updates (reset et lastTick dur) us) =
      firstOnly (us.map fun u => decide (lastTick + dur * dh.mul / dh.div ≤ u)) := by
  have hle : dur * dh.mul / dh.div ≤ dur := by
    apply Nat.div_le_of_le_mul
    calc dur * dh.mul ≤ dur * dh.div := Nat.mul_le_mul_left _ hfrac
      _ = dh.div * dur := Nat.mul_comm _ _
  have hi' : (reset et lastTick dur).dhs[i]? = some (dh.reset lastTick dur) := by
    simp [reset, List.getElem?_map, hi]
  have hnt : (dh.reset lastTick dur).nextTickAt = lastTick + dur * dh.mul / dh.div := by
    simp only [DH.reset, Nat.mod_eq_of_lt ho2]
    exact Nat.mod_eq_of_lt (by omega)
  have := delta_fires_once_aux (reset et lastTick dur) i (dh.reset lastTick dur) hi'
    (by rw [hnt]; simp only [reset, Nat.mod_eq_of_lt ho1]; omega) (by simp [reset]) us
  rw [this, hnt]
  simp [DH.reset]

/-- New-epoch handlers after a reset, in terms of the reset's arguments. -/
theorem epoch_fires_once_after_reset (et : ET) (lastTick dur : Nat) (ho : lastTick + dur < M64) (us : List Nat) :
    (updates (reset et lastTick dur) us).map (·.1) = firstOnly (us.map fun u => decide (lastTick + dur ≤ u)) := by
  have := epoch_fires_once (reset et lastTick dur) us rfl
  simpa [reset, Nat.mod_eq_of_lt ho] using this

/-! ### Whole histories, and calls that overlap a running `UpdateTime`

The theorems above are for every prior state, so they hold inside any history; the statements below say
so explicitly for a history of atomic calls (`runAtoms`), and for a history in which `Reset`s and
`UpdateTime`s are issued while a handler of a running `UpdateTime` executes (`runEvs`): such a call is
linearised right after the `UpdateTime` it overlaps (`lin`), and between any reset of the linearised
history — overlapped ones included — and the next one, every handler fires exactly once, at the first
block time reaching its schedule. -/

theorem runAtoms_length (et : ET) (as : List Atom) : (runAtoms et as).length = as.length := by
  induction as generalizing et with
  | nil => rfl
  | cons a as ih => simp [runAtoms, ih]

theorem runAtoms_append (et : ET) (as bs : List Atom) :
    runAtoms et (as ++ bs) = runAtoms et as ++ runAtoms (afterAtoms et as) bs := by
  induction as generalizing et with
  | nil => rfl
  | cons a as ih => simp [runAtoms, afterAtoms, ih]

theorem afterAtoms_append (et : ET) (as bs : List Atom) :
    afterAtoms et (as ++ bs) = afterAtoms (afterAtoms et as) bs := by
  induction as generalizing et with
  | nil => rfl
  | cons a as ih => simp [afterAtoms, ih]

theorem runAtoms_upds (et : ET) (us : List Nat) : runAtoms et (us.map .upd) = updates et us := by
  induction us generalizing et with
  | nil => rfl
  | cons u us ih => simp [runAtoms, stepAtom, updates, ih]

/-- the outputs of the `n` calls that follow position `k` of a history -/
def segment (k n : Nat) (l : List (Bool × List Bool)) : List (Bool × List Bool) := (l.drop k).take n

theorem drop_succ_append_of_length {α : Type} (a b : List α) (k : Nat) (h : a.length = k) :
    (a ++ b).drop (k + 1) = b.drop 1 := by
  subst h
  induction a with
  | nil => rfl
  | cons x a ih => simp

theorem take_append_of_length {α : Type} (a b : List α) (n : Nat) (h : a.length = n) : (a ++ b).take n = a := by
  subst h
  induction a with
  | nil => simp
  | cons x a ih => simp

/-- the calls between a reset and whatever follows the block times `us` observed after it -/
theorem segment_after_reset (et : ET) (pre : List Atom) (lt dur : Nat) (us : List Nat) (rest : List Atom) :
    segment (pre.length + 1) us.length (runAtoms et (pre ++ .rst lt dur :: (us.map .upd ++ rest))) =
      updates (reset (afterAtoms et pre) lt dur) us := by
  unfold segment
  rw [runAtoms_append, drop_succ_append_of_length _ _ _ (runAtoms_length et pre)]
  simp only [runAtoms, stepAtom, List.drop_succ_cons, List.drop_zero]
  rw [runAtoms_append, runAtoms_upds]
  exact take_append_of_length _ _ _ (updates_length _ us)

/-- Every history of atomic calls, every reset in it, every sequence of block times observed after that
reset before the next one: the new-epoch handlers fire exactly at the first block time reaching
`lastTick + dur`, never again. -/
theorem history_epoch_once (et : ET) (pre : List Atom) (lt dur : Nat) (us : List Nat) (rest : List Atom)
    (ho : lt + dur < M64) :
    (segment (pre.length + 1) us.length (runAtoms et (pre ++ .rst lt dur :: (us.map .upd ++ rest)))).map (·.1) =
      firstOnly (us.map fun u => decide (lt + dur ≤ u)) := by
  rw [segment_after_reset]
  exact epoch_fires_once_after_reset _ lt dur ho us

/-- … and each sub-epoch handler with `mul ≤ div` exactly at the first block time reaching its fraction. -/
theorem history_delta_once (et : ET) (pre : List Atom) (lt dur : Nat) (us : List Nat) (rest : List Atom)
    (i : Nat) (dh : DH) (hi : (afterAtoms et pre).dhs[i]? = some dh) (hfrac : dh.mul ≤ dh.div) (hdiv : 0 < dh.div)
    (ho1 : lt + dur < M64) (ho2 : dur * dh.mul < M64) :
    deltaFlags i (segment (pre.length + 1) us.length (runAtoms et (pre ++ .rst lt dur :: (us.map .upd ++ rest)))) =
      firstOnly (us.map fun u => decide (lt + dur * dh.mul / dh.div ≤ u)) := by
  rw [segment_after_reset]
  exact delta_fires_once _ i dh hi lt dur hfrac hdiv ho1 ho2 us

/-- A history with overlapped calls shows exactly what its linearisation shows. -/
theorem runEvs_eq_lin (et : ET) (evs : List Ev) : runEvs et evs = runAtoms et (lin et evs) := by
  induction evs generalizing et with
  | nil => rfl
  | cons e es ih => simp only [runEvs, lin, runAtoms_append, ih]

/-- Exactly once over histories with overlapped calls: wherever the linearised history has a reset (issued
on its own or from inside a running handler) followed by block times `us` (observed by `UpdateTime` calls
issued on their own or from inside a running handler), the new-epoch handlers fire exactly at the first of
them reaching `lastTick + dur`. -/
theorem overlap_epoch_once (et : ET) (evs : List Ev) (pre : List Atom) (lt dur : Nat) (us : List Nat) (rest : List Atom)
    (hlin : lin et evs = pre ++ .rst lt dur :: (us.map .upd ++ rest)) (ho : lt + dur < M64) :
    (segment (pre.length + 1) us.length (runEvs et evs)).map (·.1) = firstOnly (us.map fun u => decide (lt + dur ≤ u)) := by
  rw [runEvs_eq_lin, hlin]
  exact history_epoch_once et pre lt dur us rest ho

theorem overlap_delta_once (et : ET) (evs : List Ev) (pre : List Atom) (lt dur : Nat) (us : List Nat) (rest : List Atom)
    (hlin : lin et evs = pre ++ .rst lt dur :: (us.map .upd ++ rest))
    (i : Nat) (dh : DH) (hi : (afterAtoms et pre).dhs[i]? = some dh) (hfrac : dh.mul ≤ dh.div) (hdiv : 0 < dh.div)
    (ho1 : lt + dur < M64) (ho2 : dur * dh.mul < M64) :
    deltaFlags i (segment (pre.length + 1) us.length (runEvs et evs)) =
      firstOnly (us.map fun u => decide (lt + dur * dh.mul / dh.div ≤ u)) := by
  rw [runEvs_eq_lin, hlin]
  exact history_delta_once et pre lt dur us rest i dh hi hfrac hdiv ho1 ho2

/-- `firstOnly` has exactly one `true` if the list has one, none otherwise: "exactly once". -/
theorem firstOnly_count (l : List Bool) : (firstOnly l).count true = if true ∈ l then 1 else 0 := by
  induction l with
  | nil => rfl
  | cons b r ih =>
    cases b with
    | true =>
      have : (r.map fun _ => false).count true = 0 := by
        rw [List.count_eq_zero]; simp
      simp [firstOnly, this]
    | false => simp [firstOnly, ih]

/-- A `Reset` issued while a handler of `UpdateTime(t)` runs is not lost: whatever that `UpdateTime` marks
as done afterwards, the epoch armed by the reset fires exactly once, at the first block time reaching it. -/
theorem overlapped_reset_rearms (et : ET) (t : Nat) (site : Site) (lt dur : Nat)
    (hs : siteFired site (update et t).2.1 (update et t).2.2 = true) (ho : lt + dur < M64) (us : List Nat) :
    ((updates (afterAtoms et ((Ev.overlapped t site (.rst lt dur)).atoms et)) us).map (·.1)).count true =
      if ∃ u ∈ us, lt + dur ≤ u then 1 else 0 := by
  have e : afterAtoms et ((Ev.overlapped t site (.rst lt dur)).atoms et) = reset (update et t).1 lt dur := by
    simp [Ev.atoms, hs, afterAtoms, stepAtom]
  rw [e, epoch_fires_once_after_reset _ lt dur ho us, firstOnly_count]
  simp

/-- An `UpdateTime` issued while a handler of `UpdateTime(t)` runs never makes the new-epoch handlers fire a
second time: over the two calls together they fire at most once. -/
theorem overlapped_update_no_double_fire (et : ET) (t : Nat) (site : Site) (t2 : Nat) (hd : et.done = false) :
    ((runAtoms et ((Ev.overlapped t site (.upd t2)).atoms et)).map (·.1)).count true ≤ 1 := by
  have key : ∀ us : List Nat, ((runAtoms et (us.map .upd)).map (·.1)).count true ≤ 1 := by
    intro us
    rw [runAtoms_upds, epoch_fires_once et us hd, firstOnly_count]
    split <;> omega
  simp only [Ev.atoms]
  split
  · exact key [t, t2]
  · exact key [t]

example : runEvs (reset (new [(1, 2), (1, 1)]) 0 6)
    [.overlapped 6 .epoch (.rst 6 4), .atom (.upd 8), .atom (.upd 10), .atom (.upd 12)] =
    [(true, [true, true]), (false, [false, false]), (false, [true, false]), (true, [false, true]), (false, [false, false])] := by decide
example : runEvs (reset (new [(1, 2)]) 0 6) [.overlapped 6 (.delta 0) (.upd 6), .atom (.upd 7)] =
    [(true, [true]), (false, [false]), (false, [false])] := by decide
example : lin (reset (new [(1, 2)]) 0 6) [.overlapped 2 .epoch (.rst 9 9), .atom (.upd 7)] = [.upd 2, .upd 7] := by decide

/-- Non-vacuity and the excluded case executed: a 3/2 fraction (`mul > div`) never fires because the
closed epoch returns early. -/
example : deltaFlags 0 (updates (reset (new [(1, 2), (3, 2)]) 10 10) [12, 15, 14, 20, 30]) = [false, true, false, false, false] := by decide
example : deltaFlags 1 (updates (reset (new [(1, 2), (3, 2)]) 10 10) [12, 15, 14, 20, 30]) = [false, false, false, false, false] := by decide

end NeoFS.Timers
