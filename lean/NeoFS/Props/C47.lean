import NeoFS.Model.Grace
/-!
# C47 — container data is discarded only when the container is gone or long unpaid

`Gen.unpaidGraceExpired` is regenerated from the `if` in `Shard.setEpochEventHandler` that mentions
`maxUnpaidEpochDelay` on every run. Quantifiers: every epoch in uint64, every unpaid-since in int64.
-/
namespace NeoFS.Grace

def isU64 (x : Int) : Prop := 0 ≤ x ∧ x < 18446744073709551616
def isI64 (x : Int) : Prop := -9223372036854775808 ≤ x ∧ x < 9223372036854775808

/-- The grace test itself: expired ⇔ the mark is not ahead of the epoch and at least three epochs old. -/
theorem grace_iff (epoch unpaidSince : Int) (he : isU64 epoch) (hu : isI64 unpaidSince) (h0 : 0 ≤ unpaidSince) :
    Gen.unpaidGraceExpired epoch unpaidSince = true ↔ (unpaidSince ≤ epoch ∧ epoch - unpaidSince ≥ 3) := by
  unfold isU64 isI64 at *
  simp only [Gen.unpaidGraceExpired, decide_eq_true_eq, Bool.and_eq_true, ge_iff_le]
  omega

/-- The new-epoch handler discards ⇔ payments are enabled, nothing failed, and the container has been
unpaid for at least the grace period counted from the handled epoch. -/
theorem discard_iff (pd le ce : Bool) (unpaidSince epoch : Int) (he : isU64 epoch) (hu : isI64 unpaidSince) :
    epochHandlerDiscards pd le ce unpaidSince epoch = true ↔
      (pd = false ∧ le = false ∧ ce = false ∧ 0 ≤ unpaidSince ∧ unpaidSince ≤ epoch ∧ epoch - unpaidSince ≥ 3) := by
  unfold epochHandlerDiscards
  by_cases h0 : unpaidSince < 0
  · cases pd <;> cases le <;> cases ce <;> simp [h0] <;> omega
  · have hg := grace_iff epoch unpaidSince he hu (by omega)
    cases pd <;> cases le <;> cases ce <;> simp [h0, hg] <;> omega

/-- Transient failures, disabled payments and paid containers never discard. -/
theorem transient_never_discards (pd le ce : Bool) (unpaidSince epoch : Int)
    (h : pd = true ∨ le = true ∨ ce = true ∨ unpaidSince < 0) :
    epochHandlerDiscards pd le ce unpaidSince epoch = false := by
  unfold epochHandlerDiscards
  cases pd <;> cases le <;> cases ce <;> simp_all

/-- An unpaid mark newer than the handled epoch never discards. -/
theorem future_mark_never_discards (pd le ce : Bool) (unpaidSince epoch : Int)
    (he : isU64 epoch) (hu : isI64 unpaidSince) (hf : epoch < unpaidSince) :
    epochHandlerDiscards pd le ce unpaidSince epoch = false := by
  cases h : epochHandlerDiscards pd le ce unpaidSince epoch with
  | false => rfl
  | true => have := (discard_iff pd le ce unpaidSince epoch he hu).mp h; omega

/-- Start-up cleanup discards exactly on a definitive "not found". -/
theorem startup_iff (s : Src) : startupDiscards s = true ↔ s = .notFound := by
  cases s <;> simp [startupDiscards]

/-- Non-vacuity: one discarding and one non-discarding instance. -/
example : epochHandlerDiscards false false false 2 5 = true ∧ epochHandlerDiscards false false false 7 5 = false := by
  decide

end NeoFS.Grace
