import NeoFS.Lemmas.ECCoding
import NeoFS.Model.ECBuf
import Mathlib.Tactic.Set
/-!
# C21 — erasure coding restores the payload from any sufficient subset

`Coder` abstracts klauspost/reedsolomon; every theorem that needs it assumes `c.Lawful d p` (the
MDS-style law), and `idCoder_lawful` / `repCoder_lawful` show the law is satisfiable.
-/
namespace NeoFS.EC

/-- All parts of an encoding have the same length ⌈n/d⌉ and there are `d+p` of them. -/
theorem parts_equal_length (c : Coder) (d p : Nat) (hd : 1 ≤ d) (hc : c.Lawful d p) (payload : List Nat) :
    (encode c d p payload).length = d + p ∧
      ∀ s ∈ encode c d p payload, s.length = perShard payload.length d := by
  unfold encode
  by_cases he : payload = []
  · subst he
    simp only [if_true, List.length_replicate, true_and, List.length_nil]
    intro s hs
    have : s = [] := List.eq_of_mem_replicate hs
    subst this
    simp only [perShard, List.length_nil, Nat.zero_add]
    exact (Nat.div_eq_of_lt (by omega)).symm
  · simp only [he, if_false, Coder.allParts, List.length_append, dataParts_length,
      hc.parity_count _ (dataParts_length payload d), true_and, List.mem_append]
    rintro s (hs | hs)
    · exact dataParts_len payload d hd s hs
    · exact hc.parity_len _ _ (dataParts_len payload d hd) s hs

/-- Concatenating the data parts gives back exactly the payload. -/
theorem concat_split (c : Coder) (d p : Nat) (hd : 1 ≤ d) (payload : List Nat) :
    concatDataParts d payload.length (encode c d p payload) = payload := by
  unfold concatDataParts encode
  by_cases he : payload = []
  · subst he; simp
  · simp only [he, if_false, Coder.allParts]
    rw [List.take_left' (dataParts_length payload d)]
    exact dataParts_flatten_take payload d hd

theorem getElem?_allParts_data (c : Coder) (d p : Nat) (payload : List Nat) (i : Nat) (hi : i < d) :
    (c.allParts d p payload)[i]? = (dataParts payload d)[i]? := by
  unfold Coder.allParts
  rw [List.getElem?_append_left (by rw [dataParts_length]; exact hi)]

/-- Any subset of at least `d` parts decodes to exactly the original payload. -/
theorem decode_any_subset (c : Coder) (d p : Nat) (hd : 1 ≤ d) (hc : c.Lawful d p) (payload : List Nat)
    (hne : payload ≠ []) (present : List Bool) (hp : present.length = d + p) (hk : d ≤ present.count true) :
    decode c d p payload.length (mask (c.allParts d p payload) present) = some payload := by
  obtain ⟨r, hr, hlen, hfill, _⟩ := hc.recon payload present
    (List.replicate d true ++ List.replicate p false) hne hp (by simp) hk
  unfold decode
  rw [hr]
  simp only
  -- the first d reconstructed parts are the data parts
  have hdat : (r.take d).map (·.getD []) = dataParts payload d := by
    apply List.ext_getElem?
    intro i
    by_cases hi : i < d
    · have hreq : (List.replicate d true ++ List.replicate p false).getD i false = true := by
        simp [List.getD, List.getElem?_append_left, hi]
      have h1 := hfill i (by omega) (Or.inr hreq)
      rw [getElem?_allParts_data c d p payload i hi] at h1
      have hdl : i < (dataParts payload d).length := by rw [dataParts_length]; exact hi
      simp only [List.getElem?_map, List.getElem?_take, hi, if_true, h1, Option.map_some]
      rw [List.getElem?_eq_getElem hdl]
      simp
    · have h1 : ((r.take d).map (·.getD []))[i]? = none := by
        apply List.getElem?_eq_none; simp; omega
      have h2 : (dataParts payload d)[i]? = none := by
        apply List.getElem?_eq_none; rw [dataParts_length]; omega
      rw [h1, h2]
  rw [hdat]
  have hsum : ((dataParts payload d).map List.length).sum = d * perShard payload.length d := by
    rw [← List.length_flatten, dataParts_flatten payload d hd, padded_length payload d hd]
  have := le_mul_perShard payload.length d hd
  rw [hsum, if_neg (by omega), dataParts_flatten_take payload d hd]

/-- Partial reconstruction restores exactly the requested parts, keeps the given ones and never produces a
wrong part. -/
theorem decode_range_exact (c : Coder) (d p : Nat) (hc : c.Lawful d p) (payload : List Nat)
    (hne : payload ≠ []) (present required : List Bool) (hp : present.length = d + p)
    (hq : required.length = d + p) (hk : d ≤ present.count true) :
    ∃ r, decodeSome c d p (mask (c.allParts d p payload) present) required = some r ∧
      (∀ i, i < d + p → (present.getD i false = true ∨ required.getD i false = true) →
        r[i]? = some ((c.allParts d p payload)[i]?)) ∧
      (∀ (i : Nat) (s : Shard), r[i]? = some (some s) → (c.allParts d p payload)[i]? = some s) := by
  obtain ⟨r, hr, _, hfill, hok⟩ := hc.recon payload present required hne hp hq hk
  exact ⟨r, hr, fun i hi h => hfill i hi h, hok⟩

/-! ### the law is satisfiable -/

/-- no parity at all (`p = 0`): reconstruction needs every part -/
def idCoder : Coder where
  parity := fun _ _ _ => []
  reconSome := fun _ _ parts _ => if parts.all Option.isSome then some parts else none

theorem idCoder_lawful (d : Nat) : idCoder.Lawful d 0 := by
  refine ⟨fun _ _ => rfl, fun _ _ _ s hs => by simp [idCoder] at hs, ?_⟩
  intro payload present required _ hp _ hk
  have hall : ∀ b ∈ present, b = true := by
    have : present.count true = present.length := by
      have := List.count_le_length (a := true) (l := present); omega
    exact fun b hb => (List.count_eq_length.mp this b hb).symm
  have hpres : present = List.replicate (d + 0) true := by
    rw [← hp]; exact List.eq_replicate_of_mem hall
  have hal : (idCoder.allParts d 0 payload).length = d := by
    simp [Coder.allParts, idCoder, dataParts_length]
  have hmask : mask (idCoder.allParts d 0 payload) present = (idCoder.allParts d 0 payload).map some := by
    rw [hpres]
    apply List.ext_getElem?
    intro i
    simp only [mask, List.getElem?_zipWith, List.getElem?_map, List.getElem?_replicate]
    by_cases hi : i < d
    · simp [hi, List.getElem?_eq_getElem (show i < (idCoder.allParts d 0 payload).length by omega)]
    · have : (idCoder.allParts d 0 payload)[i]? = none := List.getElem?_eq_none (by omega)
      simp [this]
  refine ⟨(idCoder.allParts d 0 payload).map some, ?_, by simp [hal], ?_, ?_⟩
  · show (if (mask (idCoder.allParts d 0 payload) present).all Option.isSome then
        some (mask (idCoder.allParts d 0 payload) present) else none) = _
    rw [hmask]; simp
  · intro i hi _
    simp only [List.getElem?_map]
    rw [List.getElem?_eq_getElem (show i < (idCoder.allParts d 0 payload).length by omega)]
    simp
  · intro i s h
    simp only [List.getElem?_map] at h
    cases hh : (idCoder.allParts d 0 payload)[i]? with
    | none => simp [hh] at h
    | some x => simp [hh] at h; simp [h]

/-! ### several rules from one buffer -/

/-- With capacity clamped to the payload length (`b[:0:payloadLen]` in `modifyECParentObject`), `Split`
never touches the buffer and every view lies inside the payload; parity always goes to fresh memory. -/
theorem split_clamped (d p : Nat) (b : Buf) (hcap : b.mem.length = b.len) (hd : 1 ≤ d) :
    (splitBuf d p b).1 = b.mem ∧
      ∀ i off, (splitBuf d p b).2[i]? = some (Sh.view off) → i < d ∧ off + perShard b.len d ≤ b.len := by
  have hnot : ¬ b.mem.length > b.len := by omega
  unfold splitBuf
  by_cases h1 : d + p = 1
  · simp only [h1, if_true, true_and]
    intro i off h
    have hd1 : d = 1 := by omega
    cases i with
    | zero =>
      simp at h; subst h; subst hd1
      simp [perShard]
    | succ j => simp at h
  simp only [h1, hnot, if_false]
  refine ⟨trivial, ?_⟩
  intro i off h
  set sz := perShard b.len d with hsz
  set nV := min (d + p) (if sz = 0 then 0 else b.len / sz) with hnV
  have hle := le_mul_perShard b.len d hd
  rw [← hsz] at hle
  by_cases hi : i < nV
  · rw [List.getElem?_append_left (by simp; exact hi)] at h
    simp only [List.getElem?_map, List.getElem?_range hi, Option.map_some, Option.some.injEq, Sh.view.injEq] at h
    subst h
    by_cases hz : sz = 0
    · simp [hnV, hz] at hi
    · have hpos : 0 < sz := by omega
      have hi2 : i < b.len / sz := by
        have : nV ≤ b.len / sz := by rw [hnV]; simp only [hz, if_false]; exact Nat.min_le_right _ _
        omega
      have hmul : (i + 1) * sz ≤ b.len := by
        have := Nat.mul_le_of_le_div sz (i + 1) b.len (by omega)
        exact this
      rw [Nat.add_mul, Nat.one_mul] at hmul
      refine ⟨?_, hmul⟩
      -- i*sz + sz ≤ len ≤ d*sz  ⇒ i < d
      exact Nat.lt_of_not_le (fun hge => by
        have : d * sz ≤ i * sz := Nat.mul_le_mul_right sz hge
        omega)
  · rw [List.getElem?_append_right (by simp; omega), List.getElem?_map] at h
    obtain ⟨x, _, hx⟩ := Option.map_eq_some_iff.mp h
    cases hx

theorem encodeBuf_no_view_write (r d p sz : Nat) (mem : List Nat) (sh : List Sh)
    (hv : ∀ (i off : Nat), sh[i]? = some (Sh.view off) → i < d) :
    (encodeBuf r d p sz mem sh).1 = mem ∧
      ∀ (i off : Nat), (encodeBuf r d p sz mem sh).2[i]? = some (Sh.view off) → sh[i]? = some (Sh.view off) := by
  unfold encodeBuf
  -- generalise the fold over any list of parity indexes
  suffices H : ∀ (ks : List Nat) (acc : List Nat × List Sh),
      acc.1 = mem → (∀ (i off : Nat), acc.2[i]? = some (Sh.view off) → sh[i]? = some (Sh.view off)) →
      let res := ks.foldl (fun (acc : List Nat × List Sh) k =>
        match acc.2[d + k]? with
        | some (Sh.view off) => (setRange acc.1 off sz (1000 + 100 * r + k), acc.2)
        | some (Sh.fresh _) => (acc.1, acc.2.set (d + k) (Sh.fresh (List.replicate sz (1000 + 100 * r + k))))
        | none => acc) acc
      res.1 = mem ∧ ∀ (i off : Nat), res.2[i]? = some (Sh.view off) → sh[i]? = some (Sh.view off) by
    exact H (List.range p) (mem, sh) rfl (fun _ _ h => h)
  intro ks
  induction ks with
  | nil => intro acc h1 h2; exact ⟨h1, h2⟩
  | cons k ks ih =>
    intro acc h1 h2
    simp only [List.foldl_cons]
    apply ih
    · cases hk : acc.2[d + k]? with
      | none => simpa [hk] using h1
      | some x =>
        cases x with
        | view off =>
          have := hv (d + k) off (h2 _ _ hk)
          omega
        | fresh bs => simpa [hk] using h1
    · intro i off hi
      cases hk : acc.2[d + k]? with
      | none => simp only [hk] at hi; exact h2 i off hi
      | some x =>
        cases x with
        | view off' =>
          have := hv (d + k) off' (h2 _ _ hk)
          omega
        | fresh bs =>
          simp only [hk] at hi
          by_cases e : d + k = i
          · subst e
            rw [List.getElem?_set_self'] at hi
            cases hlt : acc.2[d + k]? <;> simp [hlt] at hi hk
          · rw [List.getElem?_set_ne e] at hi
            exact h2 i off hi

/-- Hence encoding one payload under any number of rules from one clamped buffer never modifies the
buffer: no rule can disturb the parts of an earlier one (their views lie inside the untouched payload,
everything else is private memory). -/
theorem multi_rule_independent (rules : List (Nat × Nat)) (hr : ∀ q ∈ rules, 1 ≤ q.1) :
    ∀ (r : Nat) (b : Buf), b.mem.length = b.len → (rulesBuf r rules b).1 = b.mem := by
  induction rules with
  | nil => intro r b _; rfl
  | cons q rest ih =>
    intro r b hcap
    obtain ⟨d, p⟩ := q
    have hd : 1 ≤ d := hr (d, p) (by simp)
    obtain ⟨hs1, hs2⟩ := split_clamped d p b hcap hd
    have henc := encodeBuf_no_view_write r d p (perShard b.len d) (splitBuf d p b).1 (splitBuf d p b).2
      (fun i off h => (hs2 i off h).1)
    have hmem : (ruleBuf r d p b).1 = b.mem := by
      unfold ruleBuf; simp only; rw [henc.1, hs1]
    unfold rulesBuf
    simp only
    have := ih (fun q hq => hr q (by simp [hq])) (r + 1) { b with mem := (ruleBuf r d p b).1 }
      (by simp [hmem, hcap])
    simp only at this
    rw [this, hmem]

/-- The negative side, which is why the clamp is an obligation: with spare capacity the second rule's
`Split` clears and overwrites the region that holds the first rule's parity. -/
theorem unclamped_corrupts :
    let b : Buf := { mem := [1, 2, 3, 4, 9, 9, 9, 9], len := 4 }
    let r := rulesBuf 0 [(2, 1), (1, 1)] b
    (r.2.map fun sh => sh.map (derefSh r.1 2)) ≠
      [[ [1, 2], [3, 4], [1000, 1000] ], [ [1, 2], [1100, 1100] ]] ∧
    (rulesBuf 0 [(2, 1), (1, 1)] { mem := [1, 2, 3, 4], len := 4 }).1 = [1, 2, 3, 4] := by
  decide

end NeoFS.EC
