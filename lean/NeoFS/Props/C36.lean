import NeoFS.Lemmas.Governance
/-!
# C36 — alphabet rotation keeps size, uniqueness and the one-third bound

General theorems over arbitrary duplicate-free key lists (no bound on sizes).
-/
namespace NeoFS.Gov

theorem insertKey_perm (x : Nat) (l : List Nat) : (insertKey x l).Perm (x :: l) := by
  induction l with
  | nil => simp [insertKey]
  | cons y ys ih =>
    unfold insertKey
    split_ifs
    · exact List.Perm.refl _
    · exact (List.Perm.cons y ih).trans (List.Perm.swap x y ys)

theorem sortKeys_perm (l : List Nat) : (sortKeys l).Perm l := by
  induction l with
  | nil => exact List.Perm.refl _
  | cons x xs ih =>
    show (insertKey x (sortKeys xs)).Perm (x :: xs)
    exact (insertKey_perm x _).trans (List.Perm.cons x ih)

/-- The proposed alphabet: same size as the current one, no duplicates, only current members and
main-network keys, at most ⌊(n-1)/3⌋ new keys, and proposed only when at least one key is new. -/
theorem rotation (fs mn l : List Nat) (hfs : fs.Nodup) (hmn : mn.Nodup)
    (h : newAlphabetList fs mn = .ok (some l)) :
    l.length = fs.length ∧ l.Nodup ∧ (∀ x ∈ l, x ∈ fs ∨ x ∈ mn) ∧
      l.countP (isNew fs) ≤ (fs.length - 1) / 3 ∧ (∃ x ∈ l, x ∉ fs) := by
  have pc := sortKeys_perm fs
  have pm := sortKeys_perm mn
  have hcn : (sortKeys fs).Nodup := pc.nodup_iff.mpr hfs
  have hmnn : (sortKeys mn).Nodup := pm.nodup_iff.mpr hmn
  have hlen : (sortKeys fs).length = fs.length := pc.length_eq
  unfold newAlphabetList at h
  simp only at h
  generalize hsc : scan (sortKeys fs).length (((sortKeys fs).length - 1) / 3) (sortKeys fs) (sortKeys mn) [] [] 0 = r at h
  obtain ⟨res, seen, k⟩ := r
  simp only at h
  split_ifs at h with h0 h1 hk
  · simp at h
  simp only [Except.ok.injEq, Option.some.injEq] at h
  -- facts about the scan
  have s_nodup := scan_nodup (sortKeys fs).length (((sortKeys fs).length - 1) / 3) (sortKeys fs) (sortKeys mn) [] [] 0
    (by simp) hmnn (by simp)
  have s_len := scan_length (sortKeys fs).length (((sortKeys fs).length - 1) / 3) (sortKeys fs) (sortKeys mn) [] [] 0 (by simp)
  have s_cnt := scan_count (sortKeys fs).length (((sortKeys fs).length - 1) / 3) (sortKeys fs) (sortKeys mn) [] [] 0
    (by simp) (by omega)
  have s_seen := scan_seen (sortKeys fs).length (((sortKeys fs).length - 1) / 3) (sortKeys fs) (sortKeys mn) [] [] 0
    (by simp) (by simp) (by simp) hmnn
  have s_sub := scan_subset (sortKeys fs).length (((sortKeys fs).length - 1) / 3) (sortKeys fs) (sortKeys mn) [] [] 0
  rw [hsc] at s_nodup s_len s_cnt s_seen s_sub
  simp only at s_nodup s_len s_cnt s_seen s_sub
  obtain ⟨s_seen1, s_seen2⟩ := s_seen
  obtain ⟨s_cnt1, s_cnt2⟩ := s_cnt
  -- facts about the top-up
  generalize hF : topUp (sortKeys fs).length seen (sortKeys fs) res = F at h
  have f_nodup : F.Nodup := by
    rw [← hF]
    exact topUp_nodup _ _ _ _ s_nodup hcn (fun x hx hs hr => hs ((s_seen1 x).mpr ⟨hr, hx⟩))
  have seen_le : seen.length ≤ res.length :=
    (List.subperm_of_subset s_seen2 (fun y hy => ((s_seen1 y).mp hy).1)).length_le
  have f_len : F.length = (sortKeys fs).length := by
    have := topUp_length (sortKeys fs).length seen (sortKeys fs) res s_len
    have c := countP_not_mem_ge (sortKeys fs) seen hcn
    rw [← hF]; omega
  have f_cnt : F.countP (isNew (sortKeys fs)) = k := by
    rw [← s_cnt1, ← hF]; exact topUp_count _ _ _ _ _ (fun x hx => hx)
  have f_sub : ∀ y ∈ F, y ∈ sortKeys fs ∨ y ∈ sortKeys mn := by
    intro y hy
    rw [← hF] at hy
    rcases topUp_subset _ _ _ _ y hy with h | h
    · rcases s_sub y h with h | h
      · simp at h
      · exact Or.inr h
    · exact Or.inl h.1
  have f_new : ∃ x ∈ F, x ∉ sortKeys fs := by
    have : 0 < res.countP (isNew (sortKeys fs)) := by rw [s_cnt1]; omega
    obtain ⟨x, hx, hp⟩ := List.countP_pos_iff.mp this
    exact ⟨x, by rw [← hF]; exact topUp_mem_res _ _ _ _ x hx, by simpa using hp⟩
  -- transfer to the sorted result and the unsorted inputs
  have pl : l.Perm F := by rw [← h]; exact sortKeys_perm F
  have hnew : ∀ y, isNew (sortKeys fs) y = isNew fs y := by
    intro y; simp [isNew, pc.mem_iff]
  refine ⟨?_, pl.nodup_iff.mpr f_nodup, ?_, ?_, ?_⟩
  · rw [pl.length_eq, f_len, hlen]
  · intro x hx
    rcases f_sub x (pl.mem_iff.mp hx) with h | h
    · exact Or.inl (pc.mem_iff.mp h)
    · exact Or.inr (pm.mem_iff.mp h)
  · have e : F.countP (isNew fs) = F.countP (isNew (sortKeys fs)) :=
      List.countP_congr (fun y _ => by rw [hnew y])
    rw [pl.countP_eq, e, f_cnt, ← hlen]; exact s_cnt2
  · obtain ⟨x, hx, hn⟩ := f_new
    exact ⟨x, pl.mem_iff.mpr hx, fun hf => hn (pc.mem_iff.mpr hf)⟩

/-- Nothing is proposed (`nil, nil`) exactly when the scan admitted no new key. In particular a proposed
list always differs from the current one (last conjunct of `rotation`). -/
theorem rotation_differs (fs mn l : List Nat) (hfs : fs.Nodup) (hmn : mn.Nodup)
    (h : newAlphabetList fs mn = .ok (some l)) : ¬ (∀ x, x ∈ l ↔ x ∈ fs) := by
  obtain ⟨_, _, _, _, x, hx, hn⟩ := rotation fs mn l hfs hmn h
  intro hall; exact hn ((hall x).mp hx)

/-- The derived inner ring list has no duplicates and differs from the old one exactly by the replaced
keys: it is (ring ∖ before) ∪ after. -/
theorem innerRing_update (ring before after l : List Nat) (hr : ring.Nodup) (hb : before.Nodup)
    (ha : after.Nodup) (hsub : ∀ b ∈ before, b ∈ ring)
    (h : updateInnerRing ring before after = .ok l) :
    l.Nodup ∧ ∀ x, x ∈ l ↔ ((x ∈ ring ∧ x ∉ before) ∨ x ∈ after) := by
  unfold updateInnerRing at h
  split_ifs at h with hlen
  simp only [Except.ok.injEq] at h
  subst h
  have hlen' : before.length = after.length := by omega
  -- the per-key function
  have f_before : ∀ r j, indexOf? r before = some j → ringStep before after r = after[j]? := by
    intro r j hj; simp only [ringStep, hj]
  have f_other : ∀ r, indexOf? r before = none →
      ringStep before after r = if r ∈ after then none else some r := by
    intro r hj; simp only [ringStep, hj]
  constructor
  · apply List.Nodup.filterMap _ hr
    intro a a' b hb1 hb2
    simp only [Option.mem_def] at hb1 hb2
    cases ha1 : indexOf? a before with
    | some j =>
      rw [f_before a j ha1] at hb1
      cases ha2 : indexOf? a' before with
      | some j' =>
        rw [f_before a' j' ha2] at hb2
        have hj : j = j' := by
          have h1 := List.getElem?_eq_some_iff.mp hb1
          have h2 := List.getElem?_eq_some_iff.mp hb2
          obtain ⟨p1, e1⟩ := h1
          obtain ⟨p2, e2⟩ := h2
          exact (List.Nodup.getElem_inj_iff ha).mp (e1.trans e2.symm)
        subst hj
        have e1 := indexOf?_getElem a before j ha1
        have e2 := indexOf?_getElem a' before j ha2
        rw [e1] at e2; exact Option.some.inj e2
      | none =>
        rw [f_other a' ha2] at hb2
        split_ifs at hb2 with hm
        simp only [Option.some.injEq] at hb2
        subst hb2
        exact absurd (List.mem_of_getElem? hb1) hm
    | none =>
      rw [f_other a ha1] at hb1
      split_ifs at hb1 with hm
      simp only [Option.some.injEq] at hb1
      subst hb1
      cases ha2 : indexOf? a' before with
      | some j' =>
        rw [f_before a' j' ha2] at hb2
        exact absurd (List.mem_of_getElem? hb2) hm
      | none =>
        rw [f_other a' ha2] at hb2
        split_ifs at hb2 with hm2
        simp only [Option.some.injEq] at hb2
        exact hb2.symm
  · intro x
    rw [List.mem_filterMap]
    constructor
    · rintro ⟨r, hrr, hfr⟩
      cases hi : indexOf? r before with
      | some j =>
        rw [f_before r j hi] at hfr
        exact Or.inr (List.mem_of_getElem? hfr)
      | none =>
        rw [f_other r hi] at hfr
        split_ifs at hfr with hm
        simp only [Option.some.injEq] at hfr
        subst hfr
        exact Or.inl ⟨hrr, (indexOf?_none _ _).mp hi⟩
    · intro hx
      by_cases hxa : x ∈ after
      · obtain ⟨j, hj, e⟩ := List.getElem_of_mem hxa
        have hjb : j < before.length := by omega
        refine ⟨before[j], hsub _ (List.getElem_mem _), ?_⟩
        have := indexOf?_of_getElem before[j] before j hb (by simp [hjb])
        rw [f_before _ j this]
        simp [hj, e]
      · rcases hx with ⟨hxr, hxb⟩ | hx
        · refine ⟨x, hxr, ?_⟩
          rw [f_other x ((indexOf?_none _ _).mpr hxb)]
          simp [hxa]
        · exact absurd hx hxa

/-- Non-vacuity: the situation that used to list a key twice (ring member 0 becomes an alphabet key). -/
example : newAlphabetList [1, 2, 3, 4] [0, 1, 2, 3, 4] = .ok (some [0, 1, 2, 3]) := by decide
example : updateInnerRing [1, 2, 3, 4, 0] [1, 2, 3, 4] [0, 1, 2, 3] = .ok [0, 1, 2, 3] := by decide

end NeoFS.Gov
