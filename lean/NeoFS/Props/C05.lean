import NeoFS.Lemmas.Int256
import NeoFS.Lemmas.Decimal
/-!
# C05 — numeric index encoding is lossless and order-preserving

Model: `Model/Int256.lean` (`signed256.Int`, its 33-byte key format, comparison, decimal readers).
All quantifiers range over the whole 257-bit signed range (`I256.WF`): no sampling.
-/
namespace NeoFS.Int256

theorem two256_eq : two256 = 256 ^ 32 := by unfold two256; norm_num

/-- Keys have the fixed length 33. -/
theorem encode_length (z : I256) : (encode z).length = encodedLen := by
  unfold encode encodedLen
  cases z.neg <;> simp [beBytes_length]

/-- Every supported integer decodes back from its key. -/
theorem decode_encode (z : I256) (h : z.WF) : decode (encode z) = some z := by
  obtain ⟨hm, hc⟩ := h
  rw [two256_eq] at hm
  have hlen := encode_length z
  unfold decode
  simp only [hlen, ne_eq, not_true_eq_false, if_false]
  unfold encode
  cases hn : z.neg with
  | false =>
    simp only [Bool.false_eq_true, if_false]
    simp only [show (1 : Nat) ≠ 0 by decide, if_false, if_true, fromBE_beBytes 32 z.mag hm]
    cases z; simp_all [mk]
  | true =>
    simp only [if_true]
    rw [map_compl_compl _ (beBytes_lt 32 z.mag), fromBE_beBytes 32 z.mag hm]
    have : z.mag ≠ 0 := by intro h0; have := hc h0; simp_all
    cases z; simp_all [mk]

theorem ordInt_natCast (a b : Nat) : ordInt (a : Int) (b : Int) = ordNat a b := by
  unfold ordInt ordNat
  by_cases h1 : a < b
  · have : (a : Int) < b := by omega
    simp [h1, this]
  · by_cases h2 : b < a
    · have c1 : ¬ (a : Int) < b := by omega
      have c2 : (b : Int) < a := by omega
      simp [h1, h2, c1, c2]
    · have c1 : ¬ (a : Int) < b := by omega
      have c2 : ¬ (b : Int) < a := by omega
      simp [h1, h2, c1, c2]

theorem ordInt_neg_natCast (a b : Nat) : ordInt (-(a : Int)) (-(b : Int)) = ordNat b a := by
  unfold ordInt ordNat
  by_cases h1 : b < a
  · have : -(a : Int) < -(b : Int) := by omega
    simp [h1, this]
  · by_cases h2 : a < b
    · have c1 : ¬ -(a : Int) < -(b : Int) := by omega
      have c2 : -(b : Int) < -(a : Int) := by omega
      simp [h1, h2, c1, c2]
    · have c1 : ¬ -(a : Int) < -(b : Int) := by omega
      have c2 : ¬ -(b : Int) < -(a : Int) := by omega
      simp [h1, h2, c1, c2]

/-- Byte-wise comparison of two keys agrees with numeric comparison of the integers. -/
theorem encode_order (a b : I256) (ha : a.WF) (hb : b.WF) :
    lexCmp (encode a) (encode b) = ordInt a.toInt b.toInt := by
  obtain ⟨ham, hac⟩ := ha
  obtain ⟨hbm, hbc⟩ := hb
  rw [two256_eq] at ham hbm
  unfold encode I256.toInt
  cases hna : a.neg <;> cases hnb : b.neg
  · simp only [Bool.false_eq_true, if_false, lexCmp, Nat.lt_irrefl]
    rw [lexCmp_beBytes 32 _ _ ham hbm, ordInt_natCast]
  · have hb0 : b.mag ≠ 0 := by intro h0; have := hbc h0; simp_all
    simp only [Bool.false_eq_true, if_false, if_true, lexCmp]
    have : ¬ ((a.mag : Int) < -(b.mag : Int)) := by omega
    have h2 : -(b.mag : Int) < (a.mag : Int) := by omega
    simp [ordInt, this, h2]
  · have ha0 : a.mag ≠ 0 := by intro h0; have := hac h0; simp_all
    simp only [Bool.false_eq_true, if_false, if_true, lexCmp]
    have : -(a.mag : Int) < (b.mag : Int) := by omega
    simp [ordInt, this]
  · simp only [if_true, lexCmp, Nat.lt_irrefl, if_false]
    rw [lexCmp_map_compl _ _ (by simp [beBytes_length]) (beBytes_lt 32 _) (beBytes_lt 32 _),
      lexCmp_beBytes 32 _ _ hbm ham, ordInt_neg_natCast]

/-- `Int.Cmp` is numeric comparison. -/
theorem cmp_correct (a b : I256) (ha : a.WF) (hb : b.WF) :
    cmp a b = ordInt a.toInt b.toInt := by
  obtain ⟨_, hac⟩ := ha
  obtain ⟨_, hbc⟩ := hb
  unfold cmp I256.toInt
  cases hna : a.neg <;> cases hnb : b.neg
  · simp [ordInt_natCast]
  · have hb0 : b.mag ≠ 0 := by intro h0; have := hbc h0; simp_all
    have : ¬ ((a.mag : Int) < -(b.mag : Int)) := by omega
    have h2 : -(b.mag : Int) < (a.mag : Int) := by omega
    simp [ordInt, this, h2]
  · have ha0 : a.mag ≠ 0 := by intro h0; have := hac h0; simp_all
    have : -(a.mag : Int) < (b.mag : Int) := by omega
    simp [ordInt, this]
  · simp [ordNat_swap, ordInt_neg_natCast]

/-- Hence comparing keys and comparing values always agree. -/
theorem key_order_eq_cmp (a b : I256) (ha : a.WF) (hb : b.WF) :
    lexCmp (encode a) (encode b) = cmp a b := by
  rw [encode_order a b ha hb, cmp_correct a b ha hb]

/-- Non-vacuity: boundary values are well-formed and ordered as expected. -/
example : (I256.mk true (two256 - 1)).WF ∧ (I256.mk false 0).WF := by decide
example : lexCmp (encode ⟨true, 1⟩) (encode ⟨false, 0⟩) = .lt := by decide

/-! ### decimal readers -/

/-- The statement's notion of an optionally signed digit string: `s` is `digits`, `+digits` or `-digits`. -/
def SignedDecimal (s : List Char) (neg : Bool) (digits : List Char) : Prop :=
  ((s = digits ∧ neg = false) ∨ (s = '+' :: digits ∧ neg = false) ∨ (s = '-' :: digits ∧ neg = true))
    ∧ digits ≠ [] ∧ digits.all isDigit = true

theorem u256Parse_no_plus (body : List Char) (h : body.head? ≠ some '+') :
    u256Parse body =
      if body.isEmpty then none
      else if body.all isDigit then (if decVal body < two256 then some (decVal body) else none)
      else none := by
  unfold u256Parse
  split
  · simp at h
  · rfl

theorem parseDecimal_signed (neg : Bool) (c : Char) (hc : c = '+' ∧ neg = false ∨ c = '-' ∧ neg = true)
    (r : List Char) :
    parseDecimal (c :: r) =
      if r.isEmpty then none
      else if r.head? = some '+' then none
      else if r.all isDigit then (if decVal r < two256 then some (mk neg (decVal r)) else none)
      else none := by
  unfold parseDecimal
  rcases hc with ⟨rfl, rfl⟩ | ⟨rfl, rfl⟩
  · simp only [if_true]
    by_cases h1 : r.isEmpty = true
    · simp [h1]
    · by_cases h2 : r.head? = some '+'
      · simp [h1, h2]
      · rw [u256Parse_no_plus r h2]
        by_cases hd : r.all isDigit = true <;> by_cases hv : decVal r < two256 <;> simp [h1, h2, hd, hv]
  · simp only [show ('-' : Char) ≠ '+' by decide, if_false, if_true]
    by_cases h1 : r.isEmpty = true
    · simp [h1]
    · by_cases h2 : r.head? = some '+'
      · simp [h1, h2]
      · rw [u256Parse_no_plus r h2]
        by_cases hd : r.all isDigit = true <;> by_cases hv : decVal r < two256 <;> simp [h1, h2, hd, hv]

theorem parseDecimal_unsigned (c : Char) (r : List Char) (h1 : c ≠ '+') (h2 : c ≠ '-') :
    parseDecimal (c :: r) =
      if (c :: r).all isDigit then (if decVal (c :: r) < two256 then some (mk false (decVal (c :: r))) else none)
      else none := by
  unfold parseDecimal
  simp only [h1, h2, if_false]
  rw [u256Parse_no_plus (c :: r) (by simp [h1])]
  by_cases hd : (c :: r).all isDigit = true <;> by_cases hv : decVal (c :: r) < two256 <;> simp [hd, hv, h1]

/-- `ParseDecimal` accepts exactly the optionally signed digit strings whose value is in range,
and returns that value. -/
theorem parse_accepts_iff (s : List Char) (z : I256) :
    parseDecimal s = some z ↔
      ∃ neg digits, SignedDecimal s neg digits ∧ decVal digits < two256 ∧ z = mk neg (decVal digits) := by
  constructor
  · intro h
    cases s with
    | nil => simp [parseDecimal] at h
    | cons c r =>
      by_cases hp : c = '+'
      · rw [parseDecimal_signed false c (Or.inl ⟨hp, rfl⟩)] at h
        split at h; · simp at h
        split at h; · simp at h
        split at h
        · split at h
          · rename_i e _ d v
            refine ⟨false, r, ⟨Or.inr (Or.inl ⟨by rw [hp], rfl⟩), ?_, d⟩, v, (Option.some.inj h).symm⟩
            intro hr; simp [hr] at e
          · simp at h
        · simp at h
      · by_cases hm : c = '-'
        · rw [parseDecimal_signed true c (Or.inr ⟨hm, rfl⟩)] at h
          split at h; · simp at h
          split at h; · simp at h
          split at h
          · split at h
            · rename_i e _ d v
              refine ⟨true, r, ⟨Or.inr (Or.inr ⟨by rw [hm], rfl⟩), ?_, d⟩, v, (Option.some.inj h).symm⟩
              intro hr; simp [hr] at e
            · simp at h
          · simp at h
        · rw [parseDecimal_unsigned c r hp hm] at h
          split at h
          · split at h
            · rename_i d v
              exact ⟨false, c :: r, ⟨Or.inl ⟨rfl, rfl⟩, by simp, d⟩, v, (Option.some.inj h).symm⟩
            · simp at h
          · simp at h
  · rintro ⟨neg, digits, ⟨hs, hne, hd⟩, hv, rfl⟩
    obtain ⟨d0, dr, rfl⟩ : ∃ d0 dr, digits = d0 :: dr := by
      cases digits with
      | nil => exact absurd rfl hne
      | cons a b => exact ⟨a, b, rfl⟩
    have hd0 : isDigit d0 = true := by simp only [List.all_cons, Bool.and_eq_true] at hd; exact hd.1
    have hsign := isDigit_ne_sign d0 hd0
    rcases hs with ⟨rfl, rfl⟩ | ⟨rfl, rfl⟩ | ⟨rfl, rfl⟩
    · rw [parseDecimal_unsigned d0 dr hsign.1 hsign.2]; simp [hd, hv]
    · rw [parseDecimal_signed false '+' (Or.inl ⟨rfl, rfl⟩)]; simp [hd, hv, hsign.1]
    · rw [parseDecimal_signed true '-' (Or.inr ⟨rfl, rfl⟩)]; simp [hd, hv, hsign.1]

/-- Printing then parsing is the identity on every supported integer. -/
theorem parse_toDec (z : I256) (h : z.WF) : parseDecimal (toDec z) = some z := by
  obtain ⟨hm, hc⟩ := h
  rw [parse_accepts_iff]
  unfold toDec
  by_cases h0 : z.mag = 0
  · refine ⟨false, ['0'], ⟨Or.inl ⟨by simp [h0], rfl⟩, by simp, by decide⟩, by decide, ?_⟩
    have := hc h0
    cases z; simp_all [mk, decVal, digitVal]
  · obtain ⟨e1, e2, e3⟩ := natToDec_spec z.mag
    simp only [h0, if_false]
    cases hn : z.neg with
    | true =>
      refine ⟨true, natToDec z.mag, ⟨Or.inr (Or.inr ⟨by simp, rfl⟩), e3, e2⟩, by rw [e1]; exact hm, ?_⟩
      rw [e1]; cases z; simp_all [mk]
    | false =>
      refine ⟨false, natToDec z.mag, ⟨Or.inl ⟨by simp, rfl⟩, e3, e2⟩, by rw [e1]; exact hm, ?_⟩
      rw [e1]; cases z; simp_all [mk]

theorem norm_after_strip (neg : Bool) (body : List Char) :
    ((if (body.dropWhile (· = '0')).all isDigit then
        (if (body.dropWhile (· = '0')).isEmpty then some (false, ['0'])
         else some (neg, body.dropWhile (· = '0')))
      else none).bind fun p => parseNormalized p.1 p.2)
    = if body.all isDigit then (if decVal body < two256 then some (mk neg (decVal body)) else none)
      else none := by
  rw [← dropWhile_zero_all body, ← dropWhile_zero_decVal body]
  generalize body.dropWhile (· = '0') = d
  by_cases hd : d.all isDigit = true
  · cases d with
    | nil =>
      have : (0 : Nat) < two256 := by decide
      simp [parseNormalized, decVal, mk, this, show isDigit '0' = true by decide, digitVal]
    | cons a b =>
      simp only [hd, if_true, List.isEmpty_cons, Bool.false_eq_true, if_false, Option.bind_some]
      unfold parseNormalized
      simp [hd]
  · simp [hd]

theorem plus_not_all_digits (r : List Char) (h : r.head? = some '+') : r.all isDigit = false := by
  cases r with
  | nil => simp at h
  | cons a b =>
    simp only [List.head?_cons, Option.some.injEq] at h
    subst h
    simp [show isDigit '+' = false by decide]

/-- The two-step reader (`splitIntString` then `ParseNormalizedDecimal`) and `ParseDecimal`
accept the same strings and agree on the value — for every string. -/
theorem readers_agree (s : List Char) :
    ((splitIntString s).bind fun p => parseNormalized p.1 p.2) = parseDecimal s := by
  cases s with
  | nil => simp [splitIntString, parseDecimal]
  | cons c r =>
    by_cases hm : c = '-'
    · subst hm
      rw [parseDecimal_signed true '-' (Or.inr ⟨rfl, rfl⟩)]
      unfold splitIntString
      simp only [if_true]
      by_cases he : r.isEmpty = true
      · simp [he]
      · simp only [he, Bool.false_eq_true, if_false]
        rw [norm_after_strip]
        by_cases hp : r.head? = some '+'
        · simp [hp, plus_not_all_digits r hp]
        · simp [hp]
    · by_cases hp : c = '+'
      · subst hp
        rw [parseDecimal_signed false '+' (Or.inl ⟨rfl, rfl⟩)]
        unfold splitIntString
        simp only [show ('+' : Char) ≠ '-' by decide, if_false, if_true]
        by_cases he : r.isEmpty = true
        · simp [he]
        · simp only [he, Bool.false_eq_true, if_false]
          rw [norm_after_strip]
          by_cases hp : r.head? = some '+'
          · simp [hp, plus_not_all_digits r hp]
          · simp [hp]
      · rw [parseDecimal_unsigned c r hp hm]
        unfold splitIntString
        simp only [hm, hp, if_false, List.isEmpty_cons, Bool.false_eq_true]
        rw [norm_after_strip]

/-! ### `compareIntStrings` (merge of search results) -/

/-- Normalised digits as `splitIntString` returns them: "0" or no leading zero. -/
def Norm (d : List Char) : Prop :=
  d.all isDigit = true ∧ (d = ['0'] ∨ ∃ c l, d = c :: l ∧ c ≠ '0')

theorem dropWhile_head {p : Char → Bool} (l : List Char) (c : Char) (r : List Char)
    (h : l.dropWhile p = c :: r) : p c = false := by
  induction l with
  | nil => simp at h
  | cons x xs ih =>
    rw [List.dropWhile_cons] at h
    by_cases hx : p x = true
    · simp only [hx, if_true] at h; exact ih h
    · simp only [hx] at h
      have := (List.cons.inj h).1
      subst this; simpa using hx

theorem split_norm (s : List Char) (neg : Bool) (d : List Char)
    (h : splitIntString s = some (neg, d)) : Norm d ∧ (d = ['0'] → neg = false) := by
  unfold splitIntString at h
  cases s with
  | nil => simp at h
  | cons c r =>
    simp only at h
    generalize hb : (if c = '-' then (true, r) else if c = '+' then (false, r) else (false, c :: r)) = nb at h
    obtain ⟨n, body⟩ := nb
    simp only at h
    split at h; · simp at h
    split at h
    · rename_i hd
      split at h
      · simp only [Option.some.injEq, Prod.mk.injEq] at h
        obtain ⟨rfl, rfl⟩ := h
        exact ⟨⟨by decide, Or.inl rfl⟩, fun _ => rfl⟩
      · rename_i hne
        simp only [Option.some.injEq, Prod.mk.injEq] at h
        obtain ⟨rfl, rfl⟩ := h
        cases hd' : body.dropWhile (· = '0') with
        | nil => simp [hd'] at hne
        | cons x xs =>
          have := dropWhile_head body x xs hd'
          have hx : x ≠ '0' := by simpa using this
          refine ⟨⟨by rw [← hd']; exact hd, Or.inr ⟨x, xs, rfl, hx⟩⟩, ?_⟩
          intro e
          have := (List.cons.inj e).1
          exact absurd this hx
    · simp at h

theorem norm_pos (d : List Char) (h : Norm d) (hz : d ≠ ['0']) : 0 < decVal d := by
  obtain ⟨hd, h0 | ⟨c, l, rfl, hc⟩⟩ := h
  · exact absurd h0 hz
  · simp only [List.all_cons, Bool.and_eq_true] at hd
    have := decVal_ge c l hd.1 hc
    have : 0 < 10 ^ l.length := Nat.pow_pos (by decide)
    omega

theorem norm_len_lt (da db : List Char) (ha : Norm da) (hb : Norm db) (hl : da.length < db.length) :
    decVal da < decVal db := by
  obtain ⟨hda, _⟩ := ha
  obtain ⟨hdb, h0 | ⟨c, l, rfl, hc⟩⟩ := hb
  · subst h0
    cases da with
    | nil => rcases ‹_ ∨ _› with h | ⟨_, _, h, _⟩ <;> simp at h
    | cons x xs => simp at hl
  · simp only [List.all_cons, Bool.and_eq_true] at hdb
    have h1 := decVal_lt da hda
    have h2 := decVal_ge c l hdb.1 hc
    have h3 : 10 ^ da.length ≤ 10 ^ l.length :=
      Nat.pow_le_pow_right (by decide) (by simp at hl; omega)
    omega

/-- value denoted by the pair `splitIntString` returns. -/
def splitVal (p : Bool × List Char) : Int := if p.1 then -(decVal p.2 : Int) else (decVal p.2 : Int)

/-- The string comparison used when merging search results is numeric comparison, for all
optionally signed digit strings of any length. -/
theorem compare_strings_numeric (a b : List Char) (pa pb : Bool × List Char)
    (ha : splitIntString a = some pa) (hb : splitIntString b = some pb) :
    compareIntStrings a b = some (ordInt (splitVal pa) (splitVal pb)) := by
  obtain ⟨na, da⟩ := pa
  obtain ⟨nb, db⟩ := pb
  obtain ⟨hna, hza⟩ := split_norm a na da ha
  obtain ⟨hnb, hzb⟩ := split_norm b nb db hb
  unfold compareIntStrings
  rw [ha, hb]
  simp only [splitVal]
  have pa : na = true → 0 < decVal da := fun h => norm_pos da hna (fun e => by simp [hza e] at h)
  have pb : nb = true → 0 < decVal db := fun h => norm_pos db hnb (fun e => by simp [hzb e] at h)
  congr 1
  cases na <;> cases nb
  · -- both non-negative
    simp only [ne_eq, not_true_eq_false, if_false, Bool.false_eq_true]
    rw [ordInt_natCast]
    by_cases hl : da.length = db.length
    · simp only [hl, not_true_eq_false, if_false]
      rw [lexCmpChars_eq_len da db hl hna.1 hnb.1]
    · simp only [hl, not_false_eq_true, if_true]
      by_cases hlt : da.length < db.length
      · have := norm_len_lt da db hna hnb hlt
        simp [hlt, ordNat, this]
      · have hgt : db.length < da.length := by omega
        have := norm_len_lt db da hnb hna hgt
        have n1 : ¬ decVal da < decVal db := by omega
        simp [hlt, ordNat, this, n1]
  · have := pb rfl
    have c1 : ¬ ((decVal da : Int) < -(decVal db : Int)) := by omega
    have c2 : -(decVal db : Int) < (decVal da : Int) := by omega
    simp [ordInt, c1, c2]
  · have := pa rfl
    have c1 : -(decVal da : Int) < (decVal db : Int) := by omega
    simp [ordInt, c1]
  · simp only [ne_eq, not_true_eq_false, if_false, if_true]
    rw [ordInt_neg_natCast]
    by_cases hl : da.length = db.length
    · simp only [hl, not_true_eq_false, if_false]
      rw [lexCmpChars_eq_len da db hl hna.1 hnb.1, ordNat_swap]
    · simp only [hl, not_false_eq_true, if_true]
      by_cases hlt : da.length < db.length
      · have := norm_len_lt da db hna hnb hlt
        have n1 : ¬ decVal db < decVal da := by omega
        simp [hlt, ordNat, this, n1]
      · have hgt : db.length < da.length := by omega
        have := norm_len_lt db da hnb hna hgt
        simp [hlt, ordNat, this]

end NeoFS.Int256
