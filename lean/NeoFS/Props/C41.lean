import NeoFS.Lemmas.WireCanon
/-!
# C41 — fast header parsing agrees with full object decoding

Model: `NeoFS/Model/Wire.lean` (byte level; varints, tags, the SDK seekers/parsers, the scans of
`internal/object/wire.go`, and the reference decoder = protobuf-go's top-level message loop).

* varints: decode ∘ encode = id for every value below 2^64, decoded values are below 2^64 and read 1..10 bytes
  inside the buffer;
* safety, for EVERY byte string: each fast path either fails or returns bounds/offsets inside the buffer
  (`from ≤ valueFrom ≤ to ≤ len`; the model's form of "never panics": every slice expression of the Go code and
  of its callers is in range), and the loops never exhaust their fuel;
* refinement, for EVERY byte string the full decoder's wire stage accepts: `GetNonPayloadFieldBounds` returns
  exactly what the abstract scan over the decoded field list returns (so it refuses precisely: the empty
  message, fields 1..3 out of strictly ascending order before the scan's stop, a field 1..3 of non-LEN type);
* agreement: when it answers and no LEN field 1..3 stands after the stop point, each reported field is the one
  and only occurrence the full decoder sees (or missing when there is none); a late field breaks this
  (`late_header_disagrees`, replayed on the real code by corpus/wire/late.ops);
* canonical encodings (ascending, each field at most once, any contents): both succeed and agree.
-/
namespace NeoFS.Wire

/-! ## varints -/

theorem varint_roundtrip (n : Nat) (rest : Bytes) (h : n < 2 ^ 64) :
    consumeVarint (encodeVarint n ++ rest) = .ok (n, (encodeVarint n).length) :=
  consumeVarint_encode n rest h

theorem varint_decode_bounds (b : Bytes) (v n : Nat) (h : consumeVarint b = .ok (v, n)) :
    v < 2 ^ 64 ∧ 1 ≤ n ∧ n ≤ 10 ∧ n ≤ b.length :=
  consumeVarint_bounds h

/-- the minimal encoding is 1..10 bytes long -/
theorem varint_encode_length (n : Nat) (h : n < 2 ^ 64) :
    1 ≤ (encodeVarint n).length ∧ (encodeVarint n).length ≤ 10 := by
  have := consumeVarint_bounds (varint_roundtrip n [] h)
  omega

example : consumeVarint [0xac, 0x02, 0x07] = .ok (300, 2) := by decide
example : consumeVarint [0x80, 0x80, 0x00] = .ok (0, 3) := by decide        -- over-long encodings are accepted
example : consumeVarint [0xff, 0xff, 0xff, 0xff, 0xff, 0xff, 0xff, 0xff, 0xff, 0x02] = .error .overflow := by decide

/-! ## safety for every byte string -/

theorem gnpfb_safe (b : Bytes) :
    getNonPayloadFieldBounds b ≠ .error .fuel ∧
    ∀ i s h, getNonPayloadFieldBounds b = .ok (i, s, h) → InR i b.length ∧ InR s b.length ∧ InR h b.length := by
  unfold getNonPayloadFieldBounds
  split
  · simp
  · have := boundsLoop_safe b fObjHdr objSlot 4 0 0 {} {} (InR_zero _) (InR_zero _) (by decide) (by decide)
    exact ⟨this.2, this.1⟩

theorem parent_safe (b : Bytes) :
    getParentNonPayloadFieldBounds b ≠ .error .fuel ∧
    ∀ i s h, getParentNonPayloadFieldBounds b = .ok (i, s, h) → InR i b.length ∧ InR s b.length ∧ InR h b.length := by
  unfold getParentNonPayloadFieldBounds
  split
  · simp
  · have hs := @getLEN_safe b fObjHdr
    split
    · rename_i e he
      refine ⟨?_, by simp⟩
      intro h; simp only [Except.error.injEq] at h; subst h; exact hs.1 he
    · rename_i r he
      have hr := hs.2 r he
      split
      · refine ⟨by simp, ?_⟩
        intro i s h hh
        simp only [Except.ok.injEq, Prod.mk.injEq] at hh
        obtain ⟨rfl, rfl, rfl⟩ := hh
        exact ⟨InR_zero _, InR_zero _, InR_zero _⟩
      · exact parentIn_safe hr.2.1 hr.2.2

theorem parent_header_safe (b : Bytes) :
    getParentNonPayloadFieldBoundsHeader b ≠ .error .fuel ∧
    ∀ i s h, getParentNonPayloadFieldBoundsHeader b = .ok (i, s, h) →
      InR i b.length ∧ InR s b.length ∧ InR h b.length := by
  unfold getParentNonPayloadFieldBoundsHeader
  split
  · simp
  · exact parentIn_safe (Nat.zero_le _) (Nat.le_refl _)

theorem ehp_safe (b : Bytes) (unm : Nat → Nat → Nat → Bool) :
    extractHeaderAndPayload b unm ≠ .error .fuel ∧
    ∀ r, extractHeaderAndPayload b unm = .ok r → r.poff ≤ b.length ∧ r.InR b.length := by
  unfold extractHeaderAndPayload
  split
  · simp
  · have := ehpLoop_safe b unm (b.length + 1) 0 {} (Nat.zero_le _) (by omega)
      ⟨by intro a b h; simp at h, by intro a b h; simp at h, by intro a b h; simp at h⟩
    exact ⟨this.1, fun r h => ⟨(this.2 r h).1, (this.2 r h).2.2⟩⟩

theorem header_getters_total (b : Bytes) :
    getPayloadLengthHeader b ≠ .error .fuel ∧ getTypeHeader b ≠ .error .fuel := by
  have h1 := (@seek_safe b fHdrPayloadLength).1
  have h2 := (@seek_safe b fHdrType).1
  constructor
  · unfold getPayloadLengthHeader getUint64Field
    split
    · rename_i e he; intro h; simp only [Except.error.injEq] at h; subst h; exact h1 he
    · simp
    · split
      · simp
      · split <;> simp
  · unfold getTypeHeader getEnumField
    split
    · rename_i e he; intro h; simp only [Except.error.injEq] at h; subst h; exact h2 he
    · simp
    · split
      · simp
      · split
        · split <;> simp
        · simp

example : getNonPayloadFieldBounds [0x0a, 0x01, 0x07, 0x1a, 0x00, 0x22, 0xff] = .ok (⟨0, 2, 3⟩, {}, ⟨3, 5, 5⟩) := by decide
example : getNonPayloadFieldBounds [0x1a, 0x05, 0x00] = .error .field := by decide     -- length beyond the buffer

/-! ## refinement and agreement -/

/-- for every byte string accepted by the full decoder's wire stage the fast path computes the abstract scan of
the decoded field list -/
theorem gnpfb_refines (b : Bytes) (fs : List Field) (href : refParse b = some fs) (hne : b ≠ [])
    (hlen : b.length < 2 ^ 63) :
    getNonPayloadFieldBounds b = (scanSpec 3 objSlot fs 0 none none).map unopt := by
  unfold getNonPayloadFieldBounds
  simp only [hne, if_false]
  have := boundsLoop_refines b fObjHdr objSlot hlen 4 (b.length + 1) 0 0 none none fs
    (by simpa [refParse] using href) (List.length_pos_iff.mpr hne) (by decide) (by decide)
  simpa [fObjHdr] using this

/-- the class of inputs that the full decoder accepts and the fast path refuses, read off `scanSpec`:
`empty` for the empty message; otherwise the first fields up to the stop point are not strictly ascending
(`unordered`, `repeated`) or a field numbered ≤ 3 among them is not of LEN type (`wtype`) — never `tag`/`field` -/
theorem gnpfb_refusal_class (b : Bytes) (fs : List Field) (href : refParse b = some fs) (hne : b ≠ [])
    (hlen : b.length < 2 ^ 63) (e : Err) (h : getNonPayloadFieldBounds b = .error e) :
    e = .unordered ∨ e = .repeated ∨ e = .wtype := by
  rw [gnpfb_refines b fs href hne hlen] at h
  have key : ∀ (fs : List Field) (prev : Nat) (a c : Option FB),
      (scanSpec 3 objSlot fs prev a c).map unopt = .error e → e = .unordered ∨ e = .repeated ∨ e = .wtype := by
    intro fs
    induction fs with
    | nil => intro prev a c h; simp [scanSpec, Except.map] at h
    | cons f fs ih =>
      intro prev a c h
      simp only [scanSpec] at h
      split at h
      · simp [Except.map] at h
      · split at h
        · simp [Except.map] at h; exact Or.inl h.symm
        · split at h
          · simp [Except.map] at h; exact Or.inr (Or.inl h.symm)
          · split at h
            · simp [Except.map] at h; exact Or.inr (Or.inr h.symm)
            · split at h
              · simp [Except.map] at h
              · exact ih _ _ _ h
  exact key fs 0 none none h

/-- agreement with the full decoder: if the fast path answers and no LEN field 1..3 stands after its stop
point, each reported field is missing exactly when the full decoder sees no occurrence, and otherwise is the
bounds of the only occurrence -/
theorem gnpfb_agrees (b : Bytes) (fs : List Field) (i s h : FB) (href : refParse b = some fs)
    (hlen : b.length < 2 ^ 63) (hfast : getNonPayloadFieldBounds b = .ok (i, s, h)) (hlate : lateFree fs = true) :
    ∃ io so ho : Option FB, i = io.getD {} ∧ s = so.getD {} ∧ h = ho.getD {} ∧
      occ 1 fs = io.toList ∧ occ 2 fs = so.toList ∧ occ 3 fs = ho.toList := by
  have hne : b ≠ [] := by
    intro hb; subst hb; simp [getNonPayloadFieldBounds] at hfast
  rw [gnpfb_refines b fs href hne hlen] at hfast
  cases hsc : scanSpec 3 objSlot fs 0 none none with
  | error e => simp [hsc, Except.map] at hfast
  | ok r =>
    obtain ⟨io, so, ho⟩ := r
    simp only [hsc, Except.map, unopt, Except.ok.injEq, Prod.mk.injEq] at hfast
    obtain ⟨rfl, rfl, rfl⟩ := hfast
    have := scan_agrees fs 0 none none io so ho hsc hlate (fun _ => rfl) (fun _ => rfl)
    exact ⟨io, so, ho, rfl, rfl, rfl, by simpa using this.1, by simpa using this.2.1, this.2.2⟩

/-- the hypothesis on late fields is needed: an (empty) header followed by a second header. The full decoder
merges both occurrences, the fast path reports the first only. -/
theorem late_header_disagrees :
    getNonPayloadFieldBounds [0x1a, 0x00, 0x1a, 0x02, 0x28, 0x01] = .ok ({}, {}, ⟨0, 2, 2⟩) ∧
    (refParse [0x1a, 0x00, 0x1a, 0x02, 0x28, 0x01]).map (occ 3) = some [⟨0, 2, 2⟩, ⟨2, 4, 6⟩] := by
  decide

/-! ## canonical encodings -/

def objList (o : Obj) : List (Nat × Bytes) :=
  (o.id.map fun v => (fObjID, v)).toList ++ ((o.sig.map fun v => (fObjSig, v)).toList ++
    ((o.hdr.map fun v => (fObjHdr, v)).toList ++ (o.payload.map fun v => (fObjPayload, v)).toList))

theorem encodeObj_eq (o : Obj) : encodeObj o = encFields (objList o) := by
  obtain ⟨id, sig, hdr, pl⟩ := o
  cases id <;> cases sig <;> cases hdr <;> cases pl <;> simp [encodeObj, encOpt, objList, encFields]

theorem encFields_mem_len : ∀ (l : List (Nat × Bytes)) (kv : Nat × Bytes), kv ∈ l → kv.2.length ≤ (encFields l).length := by
  intro l
  induction l with
  | nil => intro kv h; simp at h
  | cons x l ih =>
    intro kv h
    simp only [encFields, List.length_append]
    rcases List.mem_cons.mp h with rfl | h
    · simp [encLEN]; omega
    · have := ih kv h; omega

/-- every canonical object encoding (any id / signature / header / payload contents, each present or absent, not
all absent): the full decoder's wire stage and the fast path both succeed, and the fast path reports for each
of id, signature, header exactly the single occurrence the full decoder sees — missing iff it was not encoded -/
theorem canonical_agrees (o : Obj) (hne : encodeObj o ≠ []) (hlen : (encodeObj o).length < 2 ^ 63) :
    ∃ (fs : List Field) (io so ho : Option FB),
      refParse (encodeObj o) = some fs ∧
      getNonPayloadFieldBounds (encodeObj o) = .ok (io.getD {}, so.getD {}, ho.getD {}) ∧
      occ 1 fs = io.toList ∧ occ 2 fs = so.toList ∧ occ 3 fs = ho.toList ∧
      io.isSome = o.id.isSome ∧ so.isSome = o.sig.isSome ∧ ho.isSome = o.hdr.isSome := by
  have hall : ∀ kv ∈ objList o, 1 ≤ kv.1 ∧ kv.1 ≤ 15 ∧ kv.2.length < 2 ^ 64 := by
    intro kv hkv
    have hl := encFields_mem_len _ kv hkv
    rw [← encodeObj_eq] at hl
    refine ⟨?_, ?_, by omega⟩ <;>
    · obtain ⟨id, sig, hdr, pl⟩ := o
      cases id <;> cases sig <;> cases hdr <;> cases pl <;>
        simp [objList, fObjID, fObjSig, fObjHdr, fObjPayload] at hkv <;>
        (try rcases hkv with h | h | h | h) <;> (try rcases hkv with h | h | h) <;> (try rcases hkv with h | h) <;>
        simp_all
  have href := refParse_encFields (objList o) hall
  rw [← encodeObj_eq] at href
  have hfast := gnpfb_refines _ _ href hne hlen
  have hsc : ∃ io so ho, scanSpec 3 objSlot (fieldsAt 0 (objList o)) 0 none none = .ok (io, so, ho) ∧
      lateFree (fieldsAt 0 (objList o)) = true ∧
      io.isSome = o.id.isSome ∧ so.isSome = o.sig.isSome ∧ ho.isSome = o.hdr.isSome := by
    obtain ⟨id, sig, hdr, pl⟩ := o
    cases id <;> cases sig <;> cases hdr <;> cases pl <;>
      simp [objList, fieldsAt, scanSpec, lateFree, objSlot, fObjID, fObjSig, fObjHdr, fObjPayload]
  obtain ⟨io, so, ho, hsc, hlate, h1, h2, h3⟩ := hsc
  have hag := scan_agrees _ 0 none none io so ho hsc hlate (fun _ => rfl) (fun _ => rfl)
  refine ⟨_, io, so, ho, href, ?_, by simpa using hag.1, by simpa using hag.2.1, hag.2.2, h1, h2, h3⟩
  rw [hfast, hsc]
  simp [Except.map, unopt]

example : encodeObj { id := some [7], hdr := some [], payload := some [0xff] } = [0x0a, 0x01, 0x07, 0x1a, 0x00, 0x22, 0x01, 0xff] := by
  simp [encodeObj, encOpt, encLEN, encodeVarint, fObjID, fObjSig, fObjHdr, fObjPayload]

end NeoFS.Wire
