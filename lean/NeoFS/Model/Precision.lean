/-
Model of `pkg/util/precision/converter.go` (Fixed8Converter).

`big.Int` arithmetic is exact; `Div` is Euclidean division (Lean's `/` on `Int`), `.Int64()` keeps the low
64 bits (two's complement) — `wrap64`.  Precisions are the balance-contract precision `p`; Fixed8 is 8.
-/
namespace NeoFS.Precision

def wrap64 (x : Int) : Int := (x + 9223372036854775808) % 18446744073709551616 - 9223372036854775808

/-- `NewConverter(p).factor` = 10^|p-8| -/
def factor (p : Nat) : Int := (10 : Int) ^ (if p < 8 then 8 - p else p - 8)

/-- `convert(n, factor, decrease)` -/
def convert (n f : Int) (decrease : Bool) : Int := if decrease then n / f else n * f

/-- exact (big.Int) result of `toBase` : balance precision → Fixed8; decrease iff 8 < p -/
def toFixed8Z (p : Nat) (n : Int) : Int := convert n (factor p) (decide (8 < p))
/-- exact (big.Int) result of `toTarget` : Fixed8 → balance precision; decrease iff 8 > p -/
def toBalanceZ (p : Nat) (n : Int) : Int := convert n (factor p) (decide (p < 8))

/-- `ToFixed8` / `ToBalancePrecision` as the Go methods return them (int64). -/
def toFixed8 (p : Nat) (n : Int) : Int := wrap64 (toFixed8Z p n)
def toBalance (p : Nat) (n : Int) : Int := wrap64 (toBalanceZ p n)

/-! ### Concurrent use

`innerring.New` makes ONE converter and hands it BY VALUE to the balance processor and to the neofs
processor; each of them converts amounts from its own worker pool.  A converter holds only its two
precisions and the factor, a conversion reads them and allocates its operands (`new(big.Int)`), so a
conversion is a function of (precision, direction, amount) and of nothing else: whatever the workers do
at the same moment, in whatever order, every request gets the result it gets when run alone. -/

/-- one conversion request: direction (`true` = Fixed8 → balance precision) and amount -/
structure Task where
  toBal : Bool
  n : Int
  deriving Repr, DecidableEq

/-- the result of one request through a converter of balance precision `p` -/
def eval (p : Nat) (t : Task) : Int := if t.toBal then toBalance p t.n else toFixed8 p t.n

/-- the requests of `tasks` completed in the order `sched` (indices into `tasks`, any order, any
repetition — the workers repeat conversions): the list of (request index, result) pairs. -/
def runSched (p : Nat) (tasks : List Task) (sched : List Nat) : List (Nat × Int) :=
  sched.filterMap fun i => (tasks[i]?).map fun t => (i, eval p t)

/-- the sequential run: request after request -/
def runSeq (p : Nat) (tasks : List Task) : List Int := tasks.map (eval p)

end NeoFS.Precision
