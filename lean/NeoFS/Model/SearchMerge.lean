import NeoFS.Model.Int256
/-
Model of the merged search (property C04):

* `MergeSearchResults`, `calcMaxUniqueSearchResults` of `pkg/core/object/metadata.go`
  (`mergeResults`, `calcMax`, `selectMin`, `mergeLoop`);
* `CalculateCursor` (`calcCursor`: byte layout per attribute kind) and the cursor half of
  `PreprocessSearchQuery` (`decodeCursor`);
* `StorageEngine.Search` of `pkg/local_object_storage/engine/select.go` (`engineSearch`): one search per shard, merge,
  recomputed cursor.

A single shard's search is taken as GIVEN (property C03 is about it): `shardSearch` is "the index keys with the
query's prefix that lie strictly after the seek key and match, in key order, the first `count` of them, plus a
more-flag and the key of the last one as the cursor".  The correspondence run validates that abstraction against real
shards.

Go strings are byte strings: `Str = List Char` with all chars below 256 (as in Model/Int256.lean); byte strings are
`List Nat`.  Object ids are naturals (`idBytes` = their 32-byte big-endian form, so numeric order = byte order).
-/
namespace NeoFS.SearchMerge
open NeoFS.Int256

abbrev Str := List Char

def strBytes (s : Str) : List Nat := s.map Char.toNat
def bytesStr (b : List Nat) : Str := b.map Char.ofNat

def idBytes (id : Nat) : List Nat := beBytes 32 id

/-! ### codecs (third-party: mr-tron/base58, encoding/hex, google/uuid) -/

def b58Alphabet : List Char := "123456789ABCDEFGHJKLMNPQRSTUVWXYZabcdefghijkmnopqrstuvwxyz".toList

def b58DigitVal (c : Char) : Option Nat := b58Alphabet.findIdx? (· == c)

def b58DigitChar (d : Nat) : Char := b58Alphabet.getD d '1'

/-- base-`b` digits of `n`, most significant first, none for 0 (fuel-driven) -/
def digitsAux (b : Nat) : Nat → Nat → List Nat → List Nat
  | 0, _, acc => acc
  | fuel + 1, n, acc => if n = 0 then acc else digitsAux b fuel (n / b) (n % b :: acc)

/-- `base58.Encode`: one `1` per leading zero byte, then the base-58 digits of the number -/
def b58Encode (bs : List Nat) : Str :=
  List.replicate (bs.takeWhile (· == 0)).length '1' ++
    (digitsAux 58 (2 * bs.length + 1) (fromBE bs) []).map b58DigitChar

/-- `base58.Decode`: the empty string and characters outside the alphabet are errors; one zero byte per leading `1`,
then the minimal big-endian bytes of the number -/
def b58Decode (s : Str) : Option (List Nat) :=
  if s.isEmpty then none
  else match s.mapM b58DigitVal with
    | none => none
    | some ds =>
      some (List.replicate (s.takeWhile (· == '1')).length 0 ++
        digitsAux 256 (s.length + 1) (ds.foldl (fun a d => a * 58 + d) 0) [])

def hexChar (n : Nat) : Char :=
  if n < 10 then Char.ofNat (48 + n) else Char.ofNat (87 + n)

/-- `hex.EncodeToString` (lower case) -/
def hexEnc (b : List Nat) : Str := b.flatMap fun x => [hexChar (x / 16), hexChar (x % 16)]

def hexVal (c : Char) : Option Nat :=
  let n := c.toNat
  if 48 ≤ n && n ≤ 57 then some (n - 48)
  else if 97 ≤ n && n ≤ 102 then some (n - 87)
  else if 65 ≤ n && n ≤ 70 then some (n - 55)
  else none

/-- `hex.DecodeString` (both cases accepted, odd length is an error) -/
def hexDec : Str → Option (List Nat)
  | [] => some []
  | [_] => none
  | a :: b :: r =>
    match hexVal a, hexVal b, hexDec r with
    | some x, some y, some t => some ((x * 16 + y) :: t)
    | _, _, _ => none

/-- `uuid.UUID.String`: 8-4-4-4-12 lower-case hex -/
def uuidStr (b : List Nat) : Str :=
  hexEnc (b.take 4) ++ ('-' :: (hexEnc ((b.drop 4).take 2) ++ ('-' :: (hexEnc ((b.drop 6).take 2) ++ ('-' ::
    (hexEnc ((b.drop 8).take 2) ++ ('-' :: hexEnc (b.drop 10))))))))

/-- `uuid.Parse` restricted to the canonical 36-character form (the only form `uuid.UUID.String` produces; the
braced, URN and dash-less forms the library also accepts are not modelled) -/
def uuidParse (s : Str) : Option (List Nat) :=
  if s.length ≠ 36 then none
  else if s[8]? ≠ some '-' ∨ s[13]? ≠ some '-' ∨ s[18]? ≠ some '-' ∨ s[23]? ≠ some '-' then none
  else
    match hexDec (s.take 8), hexDec ((s.drop 9).take 4), hexDec ((s.drop 14).take 4), hexDec ((s.drop 19).take 4),
        hexDec (s.drop 24) with
    | some a, some b, some c, some d, some e => some (a ++ b ++ c ++ d ++ e)
    | _, _, _, _, _ => none

/-! ### attribute names -/

def aOwner : String := "$Object:ownerID"
def aParent : String := "$Object:split.parent"
def aFirst : String := "$Object:split.first"
def aChecksum : String := "$Object:payloadHash"
def aHomo : String := "$Object:homomorphicHash"
def aSplitID : String := "$Object:split.splitID"
def aAssociate : String := "__NEOFS__ASSOCIATE"

/-! ### `MergeSearchResults` -/

/-- `client.SearchResultItem`: the id and `Attributes[0]` (`none`: no attributes were requested) -/
structure Item where
  id : Nat
  attr : Option Str
  deriving DecidableEq, Repr

inductive MergeErr
  | nonInt        -- "non-int attribute in result"
  | badAttr       -- "invalid … attribute value"
  | noAttr        -- Go: index out of range on `Attributes[0]` (never reached from the engine or the server)
  deriving DecidableEq, Repr

/-- which comparison the merge applies to the first attribute -/
inductive MKind
  | byId      -- `firstAttr == ""`
  | int       -- `cmpInt`: `compareIntStrings`
  | oid       -- parent, first part, associated object: decoded 32-byte ids
  | owner     -- decoded 25-byte owner
  | str       -- `strings.Compare`
  deriving DecidableEq, Repr

/-- the `switch firstAttr` of `MergeSearchResults` -/
def mergeKind (firstAttr : String) (cmpInt : Bool) : MKind :=
  if firstAttr == "" then .byId
  else if cmpInt then .int
  else if firstAttr == aParent || firstAttr == aFirst || firstAttr == aAssociate then .oid
  else if firstAttr == aOwner then .owner
  else .str

/-- `oid.ID.DecodeString` -/
def decodeOID (s : Str) : Option (List Nat) :=
  match b58Decode s with
  | some b => if b.length = 32 then some b else none
  | none => none

/-- `user.ID.DecodeString`: length and prefix byte; the 4-byte SHA-256 checksum test is NOT modelled (the runs use
valid owners or strings of a wrong length) -/
def decodeOwner (s : Str) : Option (List Nat) :=
  match b58Decode s with
  | some b => if b.length = 25 ∧ b.head? = some 0x35 then some b else none
  | none => none

/-- comparison of the first attributes of two heads (`cmpAttr`) -/
def cmpAttr (k : MKind) (x m : Item) : Except MergeErr Ordering :=
  match k with
  | .byId => .ok .eq
  | _ =>
    match x.attr, m.attr with
    | some a, some b =>
      match k with
      | .int => match compareIntStrings a b with
        | some c => .ok c
        | none => .error .nonInt
      | .oid => match decodeOID a, decodeOID b with
        | some p, some q => .ok (lexCmp p q)
        | _, _ => .error .badAttr
      | .owner => match decodeOwner a, decodeOwner b with
        | some p, some q => .ok (lexCmp p q)
        | _, _ => .error .badAttr
      | _ => .ok (lexCmpChars a b)
    | _, _ => .error .noAttr

/-- does head `x` replace the current minimum `m`? (body of the inner `for i := range sets` after `minInd >= 0`) -/
def better (k : MKind) (x m : Item) : Except MergeErr Bool :=
  if x.id = m.id then .ok false
  else match cmpAttr k x m with
    | .error e => .error e
    | .ok .lt => .ok true
    | .ok .gt => .ok false
    | .ok .eq => .ok (decide (x.id < m.id))

/-- the first non-empty set becomes the minimum; with `cmpInt` its attribute must split as an integer -/
def firstCheck (k : MKind) (x : Item) : Except MergeErr Unit :=
  match k with
  | .int => match x.attr with
    | some a => if (splitIntString a).isSome then .ok () else .error .nonInt
    | none => .error .noAttr
  | _ => .ok ()

/-- one selection pass: index of the set whose head is the minimum (`none`: all sets are empty) -/
def selectMin (k : MKind) : List (List Item) → Nat → Option (Nat × Item) → Except MergeErr (Option (Nat × Item))
  | [], _, cur => .ok cur
  | [] :: rest, i, cur => selectMin k rest (i + 1) cur
  | (x :: _) :: rest, i, none =>
    match firstCheck k x with
    | .error e => .error e
    | .ok _ => selectMin k rest (i + 1) (some (i, x))
  | (x :: _) :: rest, i, some (mi, m) =>
    match better k x m with
    | .error e => .error e
    | .ok true => selectMin k rest (i + 1) (some (i, x))
    | .ok false => selectMin k rest (i + 1) (some (mi, m))

/-- `sets[i] = sets[i][j+1:]` for the first `j` with the id (unchanged when the id does not occur) -/
def dropThrough (id : Nat) (s : List Item) : List Item :=
  match s.findIdx? (·.id == id) with
  | some j => s.drop (j + 1)
  | none => s

/-- advance: the minimum's set loses its head, every other set is cut after the first copy of the id -/
def advance (mi : Nat) (id : Nat) : List (List Item) → Nat → List (List Item)
  | [], _ => []
  | s :: rest, i => (if i = mi then s.tail else dropThrough id s) :: advance mi id rest (i + 1)

/-- the `more` scan once `len(res) == lim`: another element in the minimum's set, a more-flag, or some element with
a different id in another set -/
def moreAtLimit (mi : Nat) (id : Nat) (anyMore : Bool) (sets : List (List Item)) : Bool :=
  (match sets[mi]? with | some s => decide (1 < s.length) | none => false) || anyMore ||
    (sets.zipIdx.any fun p => p.2 != mi && p.1.any (·.id != id))

/-- the outer loop (`fuel` ≥ total number of items + 1; `n` = `len(res)` so far) -/
def mergeLoop (k : MKind) (lim : Nat) (anyMore : Bool) : Nat → Nat → List (List Item) → Except MergeErr (List Item × Bool)
  | 0, _, _ => .ok ([], false)
  | fuel + 1, n, sets =>
    match selectMin k sets 0 none with
    | .error e => .error e
    | .ok none => .ok ([], false)
    | .ok (some (mi, m)) =>
      if n + 1 = lim then .ok ([m], moreAtLimit mi m.id anyMore sets)
      else match mergeLoop k lim anyMore fuel (n + 1) (advance mi m.id sets 0) with
        | .error e => .error e
        | .ok (r, more) => .ok (m :: r, more)

def ids (s : List Item) : List Nat := s.map (·.id)

/-- items of a set that are new with respect to the earlier sets, counted until `lim` is reached -/
def calcItems (lim : Nat) (earlier : List Nat) : List Item → Nat → Nat × Bool
  | [], n => (n, false)
  | x :: xs, n =>
    if earlier.contains x.id then calcItems lim earlier xs n
    else if n + 1 = lim then (n + 1, true) else calcItems lim earlier xs (n + 1)

def calcSets (lim : Nat) : List Nat → List (List Item) → Nat → Nat
  | _, [], n => n
  | earlier, s :: rest, n =>
    match calcItems lim earlier s n with
    | (n', true) => n'
    | (n', false) => calcSets lim (earlier ++ ids s) rest n'

/-- `calcMaxUniqueSearchResults` -/
def calcMax (lim : Nat) : List (List Item) → Nat
  | [] => 0
  | s0 :: rest => if lim ≤ s0.length then lim else calcSets lim (ids s0) rest s0.length

def totalLen (sets : List (List Item)) : Nat := (sets.map List.length).sum

/-- `MergeSearchResults(lim, firstAttr, cmpInt, sets, mores)`; lengths are assumed below 2^16 (`uint16(len(..))`) -/
def mergeResults (lim : Nat) (firstAttr : String) (cmpInt : Bool) (sets : List (List Item)) (mores : List Bool) :
    Except MergeErr (List Item × Bool) :=
  if lim = 0 ∨ sets.isEmpty then .ok ([], false)
  else match sets with
    | [s] => .ok (s.take lim, decide (lim < s.length) || (decide (s.length = lim) && mores.contains true))
    | _ => mergeLoop (mergeKind firstAttr cmpInt) (calcMax lim sets) (mores.contains true) (totalLen sets + 1) 0 sets

/-! ### `CalculateCursor` -/

/-- what `CalculateCursor` looks at in the filter's operation -/
inductive FOp
  | notPresent | int | other
  deriving DecidableEq, Repr

inductive CurErr
  | nonInt | base58 | hexLen | hex | uuid
  deriving DecidableEq, Repr

def plainCursor (attr : String) (val : List Nat) (id : Nat) : List Nat :=
  strBytes attr.toList ++ 0 :: val ++ 0 :: idBytes id

/-- `CalculateCursor(filt, lastItem)`; `filt = none` is the nil filter -/
def calcCursor (filt : Option (String × FOp)) (it : Item) : Except CurErr (List Nat) :=
  match filt, it.attr with
  | none, _ => .ok (idBytes it.id)
  | _, none => .ok (idBytes it.id)
  | some (attr, op), some v =>
    if op = .notPresent then .ok (idBytes it.id)
    else if attr == aOwner || attr == aFirst || attr == aParent || attr == aAssociate then
      match b58Decode v with
      | some val => .ok (plainCursor attr val it.id)
      | none => .error .base58
    else if attr == aChecksum || attr == aHomo then
      let ln := v.length / 2
      if (attr == aChecksum && ln != 32) || (attr == aHomo && ln != 64) then .error .hexLen
      else match hexDec v with
        | some val => .ok (plainCursor attr val it.id)
        | none => .error .hex
    else if attr == aSplitID then
      match uuidParse v with
      | some val => .ok (plainCursor attr val it.id)
      | none => .error .uuid
    else if attr == "$Object:version" || attr == "$Object:objectType" then .ok (plainCursor attr (strBytes v) it.id)
    else if op = .int then
      match parseDecimal v with
      | some z => .ok (strBytes attr.toList ++ 0 :: encode z ++ idBytes it.id)
      | none => .error .nonInt
    else .ok (plainCursor attr (strBytes v) it.id)

/-! ### the cursor half of `PreprocessSearchQuery` -/

inductive SeekErr
  | oidLen | tooLong | intLen | short | wrongAttr | keyValDelim | sign | valOidDelim
  deriving DecidableEq, Repr

structure Seek where
  key : List Nat
  pfx : List Nat
  deriving DecidableEq, Repr

def maxHeaderLen : Nat := 16384

/-- a non-empty cursor (already Base64-decoded: `cur`) for a query that is id-sorted (`attr = none`) or has the
primary attribute `attr` with an integer (`isInt`) or another matcher -/
def decodeCursor (attr : Option String) (isInt : Bool) (cur : List Nat) : Except SeekErr Seek :=
  match attr with
  | none => if cur.length ≠ 32 then .error .oidLen else .ok ⟨0 :: cur, [0]⟩
  | some a =>
    let ab := strBytes a.toList
    let n := cur.length
    if maxHeaderLen < n then .error .tooLong
    else if isInt then
      if n ≠ ab.length + 1 + 33 + 32 then .error .intLen
      else if cur.take ab.length ≠ ab then .error .wrongAttr
      else if cur[ab.length]? ≠ some 0 then .error .keyValDelim
      else if (match cur[ab.length + 1]? with | some s => decide (1 < s) | none => true) then .error .sign
      else .ok ⟨1 :: cur, 1 :: ab ++ [0]⟩
    else
      if n < ab.length + 1 + 1 + 1 + 32 then .error .short
      else if cur.take ab.length ≠ ab then .error .wrongAttr
      else if cur[ab.length]? ≠ some 0 then .error .keyValDelim
      else if cur[n - 33]? ≠ some 0 then .error .valOidDelim
      else .ok ⟨2 :: cur, 2 :: ab ++ [0]⟩

/-! ### a single shard's search, as given -/

/-- one entry of the primary attribute's index: the object and the stored value (`raw`: the 33-byte encoding for the
integer index, the raw bytes otherwise; empty for the id index) -/
structure Ent where
  id : Nat
  raw : List Nat
  deriving DecidableEq, Repr

/-- the query as far as this property needs it: the primary attribute (`none`: no attributes requested and no
filters, the id index), whether the primary matcher is an integer one, which entries match, and where the first
page starts -/
structure Query where
  attr : Option String
  isInt : Bool
  deriving Repr

def indexKey (q : Query) (e : Ent) : List Nat :=
  match q.attr with
  | none => 0 :: idBytes e.id
  | some a =>
    if q.isInt then 1 :: strBytes a.toList ++ 0 :: e.raw ++ idBytes e.id
    else 2 :: strBytes a.toList ++ 0 :: e.raw ++ 0 :: idBytes e.id

/-- `RestoreIntAttribute` / `restoreAttributeValue` -/
def restoreAttr (q : Query) (raw : List Nat) : Option Str :=
  match q.attr with
  | none => none
  | some a =>
    if q.isInt then (decode raw).map toDec
    else if a == aOwner || a == aFirst || a == aParent || a == aAssociate then some (b58Encode raw)
    else if a == aChecksum || a == aHomo then some (hexEnc raw)
    else if a == aSplitID then (if raw.length = 16 then some (uuidStr raw) else none)
    else some (bytesStr raw)

def isPrefixOf (p l : List Nat) : Bool := l.take p.length == p

def insertKey (x : List Nat × Ent) : List (List Nat × Ent) → List (List Nat × Ent)
  | [] => [x]
  | y :: ys => if lexCmp x.1 y.1 = .gt then y :: insertKey x ys else x :: y :: ys

/-- the index in key order (bbolt iteration order) -/
def sortedIndex (q : Query) (ents : List Ent) : List (List Nat × Ent) :=
  (ents.map fun e => (indexKey q e, e)).foldr insertKey []

structure Page where
  items : List Item
  cursor : Option (List Nat)
  deriving DecidableEq, Repr

/-- `Shard.Search`: entries (already restricted to the matching ones) strictly after the seek key, first `count`,
cursor = key of the last returned one without its prefix byte iff a further match exists -/
def shardSearch (q : Query) (ents : List Ent) (sk : Seek) (count : Nat) : Page :=
  let after := (sortedIndex q ents).filter fun p => lexCmp p.1 sk.key == .gt && isPrefixOf sk.pfx p.1
  let pg := after.take count
  { items := pg.map fun p => ⟨p.2.id, restoreAttr q p.2.raw⟩
    cursor := if count < after.length then (pg.getLast?).map (·.1.drop 1) else none }

/-! ### `StorageEngine.Search` -/

inductive EngErr
  | merge (e : MergeErr)
  | cursor (e : CurErr)
  deriving DecidableEq, Repr

/-- per-shard searches in the given shard order, merge, recomputed cursor -/
def engineSearch (q : Query) (shards : List (List Ent)) (sk : Seek) (count : Nat) : Except EngErr Page :=
  match shards with
  | [] => .ok ⟨[], none⟩
  | [s] => .ok (shardSearch q s sk count)
  | _ =>
    let pages := shards.map fun s => shardSearch q s sk count
    let firstAttr := q.attr.getD ""
    match mergeResults count firstAttr (firstAttr != "" && q.isInt) (pages.map (·.items)) (pages.map (·.cursor.isSome)) with
    | .error e => .error (.merge e)
    | .ok (res, more) =>
      if !more then .ok ⟨res, none⟩
      else match res.getLast? with
        | none => .ok ⟨res, none⟩   -- Go: index out of range (more implies a non-empty result)
        | some last =>
          match calcCursor (q.attr.map fun a => (a, if q.isInt then FOp.int else FOp.other)) last with
          | .error e => .error (.cursor e)
          | .ok c => .ok ⟨res.take count, some c⟩

/-! ### behaviour before the fixes (not used by the driver; kept for the counterexample theorems of Props/C04) -/

/-- `MergeSearchResults` compared associated-object ids as Base58 strings -/
def mergeKindOld (firstAttr : String) (cmpInt : Bool) : MKind :=
  if firstAttr == "" then .byId
  else if cmpInt then .int
  else if firstAttr == aParent || firstAttr == aFirst then .oid
  else if firstAttr == aOwner then .owner
  else .str

/-- `copy(res[pos:], patch)` -/
def overlay (base : List Nat) (pos : Nat) (patch : List Nat) : List Nat :=
  base.take pos ++ patch ++ base.drop (pos + patch.length)

/-- `CalculateCursor` for the payload checksum advanced `off` by the delimiter only, so the id was copied over the
decoded hash from its second byte on -/
def checksumCursorOld (val : List Nat) (id : Nat) : List Nat :=
  let ab := strBytes aChecksum.toList
  overlay (ab ++ 0 :: val ++ 0 :: List.replicate 32 0) (ab.length + 2) (idBytes id)

/-- `CalculateCursor` for the associated object kept the Base58 string as the value -/
def associateCursorOld (v : Str) (id : Nat) : List Nat := plainCursor aAssociate (strBytes v) id

end NeoFS.SearchMerge
